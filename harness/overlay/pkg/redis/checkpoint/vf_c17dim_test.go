//go:build verif

package checkpoint

// C17 - dimension audit (session 5, last round; harness C17dim): FORCED cases for the dimensions of the gc pass and of
// UpdateCheckpoint that the random generators of TestVerifC17 left to chance or never drew. Every case goes through the
// same pipeline as c17g / c17u (vfC17Do: real code vs the Lean model, every request prefix a crash point, the standard
// monitors) plus two independent monitors that need no precondition:
//   dim-foreign-bookkeeping-touched   a key that no entry of redis-gunyu-checkpoint-hash names (another tool's key, a user's
//                                      hash, a checkpoint key whose hash entry is gone) and - for UpdateCheckpoint - every
//                                      field of an id that is not one of the two passed differs after some request prefix;
//   dim-live-id-loses-position         an id of the gc's live set that had a readable position (alone, [id, unused id])
//                                      reads none / less after some request prefix of the pass (an exact tie may stay a tie).
// Counters dim_<name> in the evidence: one per dimension value, so a dimension that stops being drawn is visible.

import (
	"fmt"
	"strconv"
	"strings"
	"testing"

	"github.com/mgtv-tech/redis-GunYu/config"
	"github.com/mgtv-tech/redis-GunYu/pkg/vfdoubles"
	"github.com/mgtv-tech/redis-GunYu/pkg/vfutil"
)

var vfC17Dims = []string{
	// stored mtime of the position's record relative to the threshold
	"mtime_missing", "mtime_zero", "mtime_future", "mtime_eq_threshold", "mtime_threshold_plus1", "mtime_threshold_minus1", "mtime_old", "mtime_negative",
	// staleCheckpointDuration
	"stale_0", "stale_1ns", "stale_huge",
	// several databases
	"equal_offsets_diff_mtime", "equal_offsets_equal_mtime", "three_dbs_descending",
	// hash vs records
	"hash_without_records_live", "hash_without_records_dead", "records_without_hash", "hash_value_empty",
	// other names / other tools on the target
	"foreign_key_not_in_hash", "two_names_two_ids", "shared_key_two_ids",
	// the live set (what the sources reported)
	"live_0", "live_1", "live_many",
	// offsets
	"offset_0", "offset_minus1", "offset_maxint64", "offset_1",
}

const vfDimUnused = "ffffffffffffffffffffffffffffffffffffffff"

// one forced case: the position X under key K labelled `lab` (live unless the dimension says otherwise) in database d0
func vfC17DimGc(r *vfutil.Rand, dim string) *vfC17Case {
	id1, id2, dead := vfHexId(r), vfHexId(r), vfHexId(r)
	c := &vfC17Case{kind: "g", ids: []string{id1, id2}, live: []string{id1, id2}, st: &VfState{}}
	stale := int64(vfutil.Pick(r, []int{3600, 12 * 3600})) * 1_000_000_000
	switch dim {
	case "stale_0":
		stale = 0
	case "stale_1ns":
		stale = 1
	case "stale_huge":
		stale = 100 * 365 * 24 * 3600 * 1_000_000_000
	}
	c.before = vfBubbleEpochNs - stale
	key := vfutil.Pick(r, vfC17Names[:3])
	lab := id1
	labLive := !r.Chance(1, 3) // the same stored state judged for a live and for a dead label
	d0 := vfutil.Pick(r, []int{0, 2, 5})
	X := int64(r.Range(1000, 900000))
	mt := c.before - int64(r.Range(2, 1<<40)) // old by default: what a long-running link leaves
	withMt := true
	switch dim {
	case "mtime_missing":
		withMt = false
	case "mtime_zero":
		mt = 0
	case "mtime_future":
		mt = vfBubbleEpochNs + int64(r.Range(1, 1<<40))
	case "mtime_eq_threshold":
		mt = c.before
	case "mtime_threshold_plus1":
		mt = c.before + 1
	case "mtime_threshold_minus1":
		mt = c.before - 1
	case "mtime_negative":
		mt = -int64(r.Range(1, 1<<40))
	case "stale_0", "stale_1ns":
		mt = vfutil.Pick(r, []int64{vfBubbleEpochNs, vfBubbleEpochNs - 1, vfBubbleEpochNs - 2, vfBubbleEpochNs + 1})
	case "offset_0":
		X = 0
	case "offset_minus1":
		X = -1
	case "offset_1":
		X = 1
	case "offset_maxint64":
		X = 1<<63 - 1
	}
	if !labLive {
		c.live = []string{id2, vfHexId(r)}
	}
	rec := func(rid string, off, m int64, has bool) [][2]string {
		if !has {
			m = vfNoMtime
		}
		return vfCpFields(rid, off, m, true)
	}
	c.st.Hash = append(c.st.Hash, [2]string{lab, key})
	c.st.Items = append(c.st.Items, VfItem{Db: d0, Key: key, Fields: rec(lab, X, mt, withMt)})
	if X > 100 && r.Bool() && !strings.HasPrefix(dim, "equal_offsets") {
		c.st.Items = append(c.st.Items, VfItem{Db: d0 + 1, Key: key, Fields: rec(lab, X-100, mt-5, true)})
	}
	switch dim {
	case "equal_offsets_diff_mtime":
		c.st.Items = append(c.st.Items, VfItem{Db: d0 + 3, Key: key, Fields: rec(lab, X, mt-7, true)})
		if r.Bool() {
			c.st.Items = append(c.st.Items, VfItem{Db: d0 + 4, Key: key, Fields: rec(lab, X, mt+9, true)})
		}
	case "equal_offsets_equal_mtime":
		c.st.Items = append(c.st.Items, VfItem{Db: d0 + 3, Key: key, Fields: rec(lab, X, mt, true)})
	case "three_dbs_descending":
		c.st.Items = append(c.st.Items, VfItem{Db: d0 + 3, Key: key, Fields: rec(lab, X-1, mt+50, true)}, VfItem{Db: d0 + 6, Key: key, Fields: rec(lab, X-2, vfBubbleEpochNs, true)})
	case "hash_without_records_live":
		c.st.Hash = append(c.st.Hash, [2]string{id2, vfutil.Pick(r, []string{key, "cp-norecords"})})
	case "hash_without_records_dead":
		c.st.Hash = append(c.st.Hash, [2]string{dead, vfutil.Pick(r, []string{key, "cp-norecords"})})
	case "records_without_hash":
		c.st.Items = append(c.st.Items, VfItem{Db: d0, Key: "cp-orphan", Fields: rec(vfutil.Pick(r, []string{id2, dead}), 777, c.before-1000, true)})
	case "hash_value_empty":
		c.st.Hash = append(c.st.Hash, [2]string{vfutil.Pick(r, []string{id2, dead}), ""})
	case "foreign_key_not_in_hash":
		c.st.Items = append(c.st.Items,
			VfItem{Db: d0, Key: "user:hash", Fields: [][2]string{{lab + "_offset", "5"}, {lab + "_mtime", "1"}, {"f", "v"}}},
			VfItem{Db: 0, Key: config.CheckpointKey + "-other-tool", Fields: rec(dead, 4242, c.before-99, true)})
	case "two_names_two_ids":
		c.st.Hash = append(c.st.Hash, [2]string{dead, "cp-second"})
		c.st.Items = append(c.st.Items, VfItem{Db: d0, Key: "cp-second", Fields: rec(dead, 555, vfutil.Pick(r, []int64{c.before - 10, c.before + 10}), true)})
	case "shared_key_two_ids":
		c.st.Hash = append(c.st.Hash, [2]string{dead, key})
		c.st.Items[0].Fields = append(c.st.Items[0].Fields, rec(dead, X+500, vfutil.Pick(r, []int64{c.before - 10, c.before + 10}), true)...)
	case "live_0":
		c.live = nil
	case "live_1":
		c.live = []string{lab}
	case "live_many":
		c.live = []string{vfHexId(r), id2, vfHexId(r), lab, vfHexId(r), dead}
	}
	return c
}

// UpdateCheckpoint (rename / relabel) on the same stored dimensions: other names and other ids on the target
func vfC17DimUpdate(r *vfutil.Rand, dim string) *vfC17Case {
	g := vfC17DimGc(r, dim)
	g.kind = "u"
	lab := g.st.Hash[0][0]
	key := g.st.Hash[0][1]
	g.local = key
	if r.Bool() {
		g.local = key + "-renamed"
	}
	newId := vfHexId(r)
	g.ids = []string{newId, lab}
	if r.Chance(1, 3) {
		g.ids = []string{lab, newId}
	}
	return g
}

func vfDimItemsByKey(st *VfState) map[string]string {
	m := map[string]string{}
	for _, it := range st.Items {
		m[fmt.Sprintf("%d/%s", it.Db, it.Key)] = vfPairs(it.Fields)
	}
	return m
}

func vfC17DimMonitors(t *testing.T, s *vfutil.Session, c *vfC17Case, dim string) {
	run := vfC17Exec(t, c, 0)
	named := map[string]bool{}
	for _, kv := range c.st.Hash {
		named[kv[1]] = true
	}
	if c.kind == "u" {
		named[c.local] = true
	}
	base := VfDumpState(vfdoubles.Replay(run.log[:run.seedLen], 0))
	base0 := vfDimItemsByKey(base)
	// positions of the live ids before
	type lp struct{ id, p string }
	var lives []lp
	if c.kind == "g" {
		for _, id := range c.live {
			p := VfStartPoint(vfdoubles.Replay(run.log[:run.seedLen], 0), []string{id, vfDimUnused})
			if p == "tie" {
				lives = append(lives, lp{id, p})
			} else if pp, e := vfParsePos(p); !e && pp.ok && pp.off > 0 {
				lives = append(lives, lp{id, p})
			}
		}
	}
	for k := 1; k <= len(run.writes); k++ {
		after := vfdoubles.Replay(run.log[:run.writes[k-1]+1], 0)
		dump := VfDumpState(after)
		now := vfDimItemsByKey(dump)
		for dk, v := range base0 {
			key := dk[strings.Index(dk, "/")+1:]
			if named[key] {
				continue
			}
			if now[dk] != v {
				s.Violate("dim-foreign-bookkeeping-touched", fmt.Sprintf("[%s] %s is named by no entry of the checkpoint hash (and is not the local key); after request #%d (%s) it changed from {%s} to {%s}", dim, dk, k, run.lines[k-1], v, now[dk]),
					map[string]interface{}{"op": run.op, "dim": dim, "crash_after_request": k})
				return
			}
		}
		if c.kind == "u" {
			// fields of ids other than the two passed, under ANY key
			for _, it := range base.Items {
				for _, f := range it.Fields {
					rid, _ := vfSplitField(f[0])
					if vfIn(c.ids, rid) {
						continue
					}
					found := false
					for _, it2 := range dump.Items {
						if it2.Db == it.Db && it2.Key == it.Key {
							for _, f2 := range it2.Fields {
								found = found || f2 == f
							}
						}
					}
					if !found {
						s.Violate("dim-foreign-bookkeeping-touched", fmt.Sprintf("[%s] field %s=%s of %d/%s belongs to neither id passed to UpdateCheckpoint; after request #%d (%s) it is gone or changed", dim, f[0], f[1], it.Db, it.Key, k, run.lines[k-1]),
							map[string]interface{}{"op": run.op, "dim": dim, "crash_after_request": k})
						return
					}
				}
			}
		}
		for _, l := range lives {
			p := VfStartPoint(after, []string{l.id, vfDimUnused})
			ok := false
			if l.p == "tie" {
				_, e := vfParsePos(p)
				ok = p == "tie" || (!e && p != "none")
			} else {
				p0, _ := vfParsePos(l.p)
				pk, e := vfParsePos(p)
				ok = p == "tie" || (!e && pk.ok && pk.off >= p0.off && (pk.db == p0.db || strings.HasPrefix(dim, "equal_offsets")))
			}
			if !ok {
				s.Violate("dim-live-id-loses-position", fmt.Sprintf("[%s] id %s.. is in the gc's live set and read %s before the pass; after request #%d (%s) it reads %s", dim, l.id[:6], l.p, k, run.lines[k-1], p),
					map[string]interface{}{"op": run.op, "dim": dim, "crash_after_request": k, "before": l.p, "after": p})
				return
			}
			s.Count("dim_live_position_checked")
		}
		after.CloseAll()
	}
	s.Count("dim_" + c.kind + "_" + dim)
	if len(run.writes) > 0 {
		s.Count("dim_with_writes_" + c.kind + "_" + dim)
	}
	if c.kind == "g" {
		st := vfBubbleEpochNs - c.before
		switch {
		case st == 0:
			s.Count("cfg_staleCheckpointDuration_0")
		case st == 1:
			s.Count("cfg_staleCheckpointDuration_1ns")
		case st > 50*365*24*3600*1_000_000_000:
			s.Count("cfg_staleCheckpointDuration_100y")
		default:
			s.Count("cfg_staleCheckpointDuration_" + strconv.FormatInt(st/3600_000_000_000, 10) + "h")
		}
		s.Count("cfg_live_ids_" + strconv.Itoa(len(c.live)))
	}
}

func TestVerifC17Dims(t *testing.T) {
	s := vfutil.NewSession("C17dim")
	defer s.Close()
	r := vfutil.NewRand(vfutil.Seed() ^ 0xd1a5)
	tag := 0
	reps := vfutil.Scale(3, 40)
	for rep := 0; rep < reps; rep++ {
		for _, dim := range vfC17Dims {
			rr := r.Fork()
			c := vfC17DimGc(rr, dim)
			vfC17Do(t, s, c, tag, "dim")
			tag++
			vfC17DimMonitors(t, s, c, dim)
			if rep%3 == 0 {
				u := vfC17DimUpdate(rr, dim)
				vfC17Untie(u)
				vfC17Do(t, s, u, tag, "dim")
				tag++
				vfC17DimMonitors(t, s, u, dim)
			}
		}
	}
}
