//go:build verif

package checkpoint

// Shared helpers of the C17 (and C14) harnesses: bookkeeping states on the
// target double, their line-protocol encoding, the real resume-position read
// (GetCheckpointHash + GetCheckpoint) and canonical rendering of the write
// requests found in the double's request log. Overlay-only, tag verif.

import (
	"fmt"
	"io"
	"net"
	"sync"
	"sort"
	"strconv"
	"strings"
	"time"

	"github.com/mgtv-tech/redis-GunYu/config"
	"github.com/mgtv-tech/redis-GunYu/pkg/redis/client"
	"github.com/mgtv-tech/redis-GunYu/pkg/redis/client/conn"
	"github.com/mgtv-tech/redis-GunYu/pkg/vfdoubles"
	"github.com/mgtv-tech/redis-GunYu/pkg/vfutil"
)

type VfItem struct {
	Db     int
	Key    string
	Fields [][2]string // HGETALL order
}

// VfState is a bookkeeping state of the target: the checkpoint hash (DB 0),
// hashes `Key` in database `Db`, and databases that are non-empty for other
// reasons (INFO keyspace lists them).
type VfState struct {
	Busy  []int
	Hash  [][2]string
	Items []VfItem
}

const VfFiller = "vf:filler"

func VfRedisCfg() config.RedisConfig {
	var rc config.RedisConfig
	rc.Type = config.RedisTypeStandalone
	rc.Otype = config.RedisTypeStandalone
	rc.Addresses = config.SliceString{"double:0"}
	return rc
}

func VfConn(tg *vfdoubles.Target) client.Redis {
	return conn.VerifNewRedisConn(tg.Dial(), VfRedisCfg())
}

func (st *VfState) Dbs() []int {
	m := map[int]bool{}
	for _, d := range st.Busy {
		m[d] = true
	}
	for _, it := range st.Items {
		if len(it.Fields) > 0 {
			m[it.Db] = true
		}
	}
	if len(st.Hash) > 0 {
		m[0] = true
	}
	var out []int
	for d := range m {
		out = append(out, d)
	}
	sort.Ints(out)
	return out
}

func (st *VfState) Seed(tg *vfdoubles.Target) {
	for _, d := range st.Busy {
		tg.Seed(d, "set", VfFiller, "1")
	}
	for _, kv := range st.Hash {
		tg.Seed(0, "hset", config.CheckpointKeyHashKey, kv[0], kv[1])
	}
	for _, it := range st.Items {
		for _, f := range it.Fields {
			tg.Seed(it.Db, "hset", it.Key, f[0], f[1])
		}
	}
}

func vfInts(xs []int) string {
	if len(xs) == 0 {
		return "."
	}
	p := make([]string, len(xs))
	for i, x := range xs {
		p[i] = strconv.Itoa(x)
	}
	return strings.Join(p, ",")
}

func VfInts(xs []int) string { return vfInts(xs) }

func VfHexList(xs []string) string {
	if len(xs) == 0 {
		return "."
	}
	p := make([]string, len(xs))
	for i, x := range xs {
		p[i] = vfutil.HexS(x)
	}
	return strings.Join(p, ",")
}

func vfPairs(kvs [][2]string) string {
	if len(kvs) == 0 {
		return "."
	}
	p := make([]string, len(kvs))
	for i, kv := range kvs {
		p[i] = vfutil.HexS(kv[0]) + ":" + vfutil.HexS(kv[1])
	}
	return strings.Join(p, ",")
}

// Encode renders "<dbs> <hash> <cps>" (see lean/GunYu/Drive/C17.lean).
func (st *VfState) Encode() string {
	var items []string
	for _, it := range st.Items {
		if len(it.Fields) == 0 {
			continue
		}
		items = append(items, fmt.Sprintf("%d/%s/%s", it.Db, vfutil.HexS(it.Key), vfPairs(it.Fields)))
	}
	cps := "."
	if len(items) > 0 {
		cps = strings.Join(items, ";")
	}
	return vfInts(st.Dbs()) + " " + vfPairs(st.Hash) + " " + cps
}

func vfUnPairs(s string) [][2]string {
	if s == "." || s == "" {
		return nil
	}
	var out [][2]string
	for _, p := range strings.Split(s, ",") {
		ab := strings.SplitN(p, ":", 2)
		out = append(out, [2]string{string(vfutil.UnHex(ab[0])), string(vfutil.UnHex(ab[1]))})
	}
	return out
}

func VfUnInts(s string) []int {
	if s == "." || s == "" {
		return nil
	}
	var out []int
	for _, p := range strings.Split(s, ",") {
		n, _ := strconv.Atoi(p)
		out = append(out, n)
	}
	return out
}

func VfUnHexList(s string) []string {
	if s == "." || s == "" {
		return nil
	}
	var out []string
	for _, p := range strings.Split(s, ",") {
		out = append(out, string(vfutil.UnHex(p)))
	}
	return out
}

// VfParseState is the inverse of Encode. Databases of `dbs` that hold neither
// an item nor the checkpoint hash become Busy.
func VfParseState(dbs, hash, cps string) *VfState {
	st := &VfState{Hash: vfUnPairs(hash)}
	has := map[int]bool{}
	if len(st.Hash) > 0 {
		has[0] = true
	}
	if cps != "." && cps != "" {
		for _, it := range strings.Split(cps, ";") {
			p := strings.SplitN(it, "/", 3)
			d, _ := strconv.Atoi(p[0])
			st.Items = append(st.Items, VfItem{Db: d, Key: string(vfutil.UnHex(p[1])), Fields: vfUnPairs(p[2])})
			has[d] = true
		}
	}
	for _, d := range VfUnInts(dbs) {
		if !has[d] {
			st.Busy = append(st.Busy, d)
		}
	}
	return st
}

// VfDumpState reads a bookkeeping state back from a target (hashes only; a
// database holding only other keys becomes Busy).
func VfDumpState(tg *vfdoubles.Target) *VfState {
	st := &VfState{}
	var dbs []int
	for d := range tg.Dbs {
		dbs = append(dbs, d)
	}
	sort.Ints(dbs)
	for _, d := range dbs {
		keys := tg.Keys(d)
		sort.Strings(keys)
		nonHash := false
		for _, k := range keys {
			v := tg.Get(d, k)
			if v == nil {
				continue
			}
			if v.Kind != "hash" {
				nonHash = true
				continue
			}
			var fs [][2]string
			for _, f := range v.HOrder {
				fs = append(fs, [2]string{f, string(v.Hash[f])})
			}
			if d == 0 && k == config.CheckpointKeyHashKey {
				st.Hash = fs
			} else {
				st.Items = append(st.Items, VfItem{Db: d, Key: k, Fields: fs})
			}
		}
		if nonHash {
			st.Busy = append(st.Busy, d)
		}
	}
	return st
}

// VfStartPoint is the resume position the next start reads from the target:
// the real GetCheckpointHash + GetCheckpoint. "none" | "err" | "<offset>@<db>".
func VfStartPoint(tg *vfdoubles.Target, ids []string) string {
	cli := VfConn(tg)
	defer cli.Close()
	name, _, err := GetCheckpointHash(cli, ids)
	if err != nil {
		return "err"
	}
	if name == "" {
		return "none"
	}
	cpi, db, err := GetCheckpoint(cli, name, ids)
	if err != nil {
		return "err"
	}
	if db < 0 {
		return "none"
	}
	// an exact tie (same offset AND same mtime in two databases) is decided by Go's map order
	// over INFO keyspace: reported as "tie" (the model reports the same when ascending and
	// descending database order disagree)
	if mp, err := getDbMap(cli); err == nil {
		n := 0
		for d := range mp {
			c, err := fetchCheckpoint(ids, cli, int(d), name)
			if err == nil && c.Offset == cpi.Offset && c.Mtime == cpi.Mtime {
				n++
			}
		}
		if n > 1 {
			return "tie"
		}
	}
	return fmt.Sprintf("%d@%d", cpi.Offset, db)
}

// VfRenderWrite renders a logged request that modifies bookkeeping state the
// way the Lean driver renders its model's requests; ok=false for reads.
func VfRenderWrite(e vfdoubles.LogEntry) (string, bool) {
	a := e.Args
	switch e.Cmd() {
	// One request is atomic: the order of the fields inside a multi-field HSET / HDEL / DEL is
	// not an observable of the property. Both sides render them sorted by name.
	case "hset", "hsetnx", "hmset":
		var kvs [][2]string
		for i := 2; i+1 < len(a); i += 2 {
			kvs = append(kvs, [2]string{string(a[i]), string(a[i+1])})
		}
		sort.SliceStable(kvs, func(i, j int) bool { return kvs[i][0] < kvs[j][0] })
		return fmt.Sprintf("%s %d %s %s", e.Cmd(), e.DB, vfutil.Hex(a[1]), vfPairs(kvs)), true
	case "hdel":
		var fs []string
		for _, f := range a[2:] {
			fs = append(fs, string(f))
		}
		sort.Strings(fs)
		return fmt.Sprintf("hdel %d %s %s", e.DB, vfutil.Hex(a[1]), VfHexList(fs)), true
	case "del", "unlink":
		var ks []string
		for _, k := range a[1:] {
			ks = append(ks, string(k))
		}
		sort.Strings(ks)
		return fmt.Sprintf("del %d %s", e.DB, VfHexList(ks)), true
	}
	return "", false
}

// VfGcStaleCp is cmd/syncer.go gcStaleCheckpoint's closure `gcStaleCp`
// (the closure is not reachable from a test; the extractor records its source
// text as fact c17_gcStaleCp and the control flow around it as c17_gc_frame, the
// check compares both with the expectation).
func VfGcStaleCp(cli client.Redis, runIdMap map[string]struct{}, stale time.Duration) {
	data, err := GetAllCheckpointHash(cli)
	if err != nil {
		return
	}
	if len(data)%2 == 1 {
		return
	}
	for i := 0; i < len(data)-1; i += 2 {
		runId := data[i]
		cpn := data[i+1]
		_, exist := runIdMap[runId]
		total, deleted, err := DelStaleCheckpoint(cli, cpn, runId, stale, exist)
		_ = err
		if !exist && total == deleted {
			_ = DelCheckpointHash(cli, runId)
		}
	}
}

// VfNextStart is what the next start does with the stored position (non-bidirectional):
// syncer.updateCheckpoint's id ordering by the checkpoint hash, the real UpdateCheckpoint run to
// completion, then what RedisOutput.StartPoint reads: GetCheckpoint under the LOCAL key.
func VfNextStart(tg *vfdoubles.Target, local string, ids []string) string {
	cli := VfConn(tg)
	defer cli.Close()
	ordered := ids
	_, cpRunId, err := GetCheckpointHash(cli, ids)
	if err != nil {
		return "err"
	}
	if len(ids) > 1 && cpRunId == ids[1] && ids[1] != ids[0] {
		ordered = []string{ids[1], ids[0]}
	}
	if err := UpdateCheckpoint(cli, local, ordered); err != nil {
		return "err"
	}
	cpi, db, err := GetCheckpoint(cli, local, ids)
	if err != nil {
		return "err"
	}
	if db < 0 {
		return "none"
	}
	return fmt.Sprintf("%d@%d", cpi.Offset, db)
}

// VfListen puts the target double behind a loopback TCP listener (for code that dials with
// client.NewRedis instead of taking a connection): every accepted connection is piped to tg.Dial().
func VfListen(tg *vfdoubles.Target) net.Listener {
	ln, err := net.Listen("tcp", "127.0.0.1:0")
	if err != nil {
		panic(err)
	}
	go func() {
		for {
			c, err := ln.Accept()
			if err != nil {
				return
			}
			up := tg.Dial()
			var once sync.Once
			cl := func() { once.Do(func() { c.Close(); up.Close() }) }
			go func() { io.Copy(up, c); cl() }()
			go func() { io.Copy(c, up); cl() }()
		}
	}()
	return ln
}

// VfDialCfg is a standalone RedisConfig for an address (VfListen).
func VfDialCfg(addr string) config.RedisConfig {
	rc := config.RedisConfig{Addresses: []string{addr}, Type: config.RedisTypeStandalone, Otype: config.RedisTypeStandalone, ClusterOptions: &config.RedisClusterOptions{}}
	rc.SetClusterShards([]*config.RedisClusterShard{{Master: config.RedisNode{Address: addr}}})
	return rc
}
