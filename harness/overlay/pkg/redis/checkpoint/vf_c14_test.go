//go:build verif

package checkpoint

// C14 (part 1) — RebuildBisyncFrontier never passes a missing sequence number.
//
// The real RebuildBisyncFrontier on generated snapshot / record sets (gaps,
// duplicate sequence numbers with different mtimes, seq <= 0, nil snapshot,
// shuffled order, every subset of a small journal) compared with the Lean model
// (lean/GunYu/Model/Frontier.lean `rebuild`), and an independent oracle:
// the result never lies before the snapshot, every sequence number between the
// snapshot and the result is present, the offset is that of a record carrying
// the result's sequence number.

import (
	"errors"
	"fmt"
	"os"
	"strings"
	"sync"
	"testing"

	"github.com/mgtv-tech/redis-GunYu/config"
	redispkg "github.com/mgtv-tech/redis-GunYu/pkg/redis"
	"github.com/mgtv-tech/redis-GunYu/pkg/vfutil"
)

func vfC14RebuildCase(s *vfutil.Session, tag int, snap *BisyncFrontierSnapshot, recs []*BisyncCommitRecord, src string) {
	parts := make([]string, len(recs))
	for i, r := range recs {
		parts[i] = VfRecStr(r)
	}
	rs := "."
	if len(parts) > 0 {
		rs = strings.Join(parts, ";")
	}
	op := fmt.Sprintf("c14r %d %s %s %s", tag, vfutil.HexS(config.Version), VfSnapStr(snap), rs)
	var before BisyncFrontierSnapshot
	if snap != nil {
		before = *snap
	}
	got, err := RebuildBisyncFrontier(snap, recs)
	var line string
	switch {
	case err != nil && errors.Is(err, ErrBisyncJournalGap):
		// "…: min committed seq=N"
		msg := err.Error()
		line = fmt.Sprintf("#%d gap %s", tag, msg[strings.LastIndex(msg, "=")+1:])
		s.Count("rebuild_gap")
	case err != nil:
		line = fmt.Sprintf("#%d err", tag)
	case got == nil:
		line = fmt.Sprintf("#%d ok -", tag)
		s.Count("rebuild_nil")
	default:
		line = fmt.Sprintf("#%d ok %s", tag, VfSnapStr(got))
	}
	s.Op(op, line)
	s.Count("rebuild_" + src)
	if snap != nil && *snap != before {
		s.Violate("rebuild-mutates-snapshot", "the snapshot argument was modified", map[string]interface{}{"op": op})
	}
	if err != nil || got == nil {
		return
	}
	// independent oracle
	base := int64(0)
	if snap != nil {
		base = snap.UnitSeq
	}
	have := map[int64][]*BisyncCommitRecord{}
	for _, r := range recs {
		if r != nil && r.UnitSeq > 0 {
			have[r.UnitSeq] = append(have[r.UnitSeq], r)
		}
	}
	rep := map[string]interface{}{"op": op, "result": VfSnapStr(got)}
	if got.UnitSeq < base {
		s.Violate("rebuild-before-snapshot", fmt.Sprintf("result seq %d < snapshot seq %d", got.UnitSeq, base), rep)
	}
	for m := base + 1; m <= got.UnitSeq && m > base; m++ { // (m > base: no wrap-around at the top of int64)
		if len(have[m]) == 0 {
			s.Violate("rebuild-passes-missing-seq", fmt.Sprintf("result seq %d but seq %d is in no record (snapshot seq %d)", got.UnitSeq, m, base), rep)
			break
		}
	}
	if got.UnitSeq > base {
		ok := false
		for _, r := range have[got.UnitSeq] {
			if r.EndOffset == got.Offset {
				ok = true
			}
		}
		if !ok {
			s.Violate("rebuild-offset-of-no-record", fmt.Sprintf("result offset %d is not the end offset of a record with seq %d", got.Offset, got.UnitSeq), rep)
		}
		s.Distinct(fmt.Sprintf("adv|%d|%d|%d", base, got.UnitSeq-base, len(recs)))
		s.Count("rebuild_advanced")
	} else {
		s.Count("rebuild_stays")
	}
	if got.UnitSeq < 9223372036854775807 && len(have[got.UnitSeq+1]) > 0 && len(recs) > 0 {
		s.Violate("rebuild-stops-early", fmt.Sprintf("seq %d present but result stops at %d", got.UnitSeq+1, got.UnitSeq), rep)
	}
}

func vfC14GenRecs(r *vfutil.Rand, base int64, rid string) []*BisyncCommitRecord {
	n := r.Range(0, 9)
	var recs []*BisyncCommitRecord
	seq := base
	if r.Chance(1, 5) {
		seq = base + int64(r.Range(1, 3)) // gap right after the snapshot
	}
	for i := 0; i < n; i++ {
		seq++
		if r.Chance(1, 6) {
			seq += int64(r.Range(1, 3)) // gap
		}
		off := 1000 + seq*10 + int64(r.Intn(3))
		recs = append(recs, &BisyncCommitRecord{UnitSeq: seq, EndOffset: off, StartOffset: off - 5, MTime: int64(r.Range(1, 50)), RunID: rid, Version: config.Version, Slot: uint16(r.Intn(3))})
		if r.Chance(1, 5) { // duplicate sequence number (another slot's key), other mtime / offset
			recs = append(recs, &BisyncCommitRecord{UnitSeq: seq, EndOffset: off + int64(r.Range(1, 4)), MTime: int64(r.Range(1, 50)), RunID: rid + "x", Version: config.Version, Slot: uint16(r.Intn(3))})
		}
	}
	if r.Chance(1, 4) {
		recs = append(recs, &BisyncCommitRecord{UnitSeq: int64(-r.Intn(3)), EndOffset: 77, MTime: int64(r.Range(1, 50)), RunID: rid})
	}
	if r.Chance(1, 4) && base > 1 { // records the snapshot already covers
		recs = append(recs, &BisyncCommitRecord{UnitSeq: base - int64(r.Intn(2)), EndOffset: 5, MTime: int64(r.Range(1, 50)), RunID: rid})
	}
	for i := len(recs) - 1; i > 0; i-- {
		if r.Bool() {
			j := r.Intn(i + 1)
			recs[i], recs[j] = recs[j], recs[i]
		}
	}
	return recs
}

func TestVerifC14Rebuild(t *testing.T) {
	s := vfutil.NewSession("C14rebuild")
	defer s.Close()
	r := vfutil.NewRand(vfutil.Seed())
	tag := 0
	if os.Getenv("VERIF_REPLAY") != "" {
		b, _ := os.ReadFile(os.Getenv("VERIF_REPLAY"))
		op := string(b)
		if i := strings.Index(op, "c14r "); i >= 0 {
			op = op[i:]
			if j := strings.IndexAny(op, "\"\n"); j >= 0 {
				op = op[:j]
			}
			vfC14RebuildOp(s, op, 0, "replay")
		}
		return
	}
	// FIRST USE of the process-global slot-tag cache (bisyncSlotTagCache / Once / table) under concurrency: this is the
	// first call of BisyncSlotTag in this process; 8 goroutines ask for every slot in different orders, every answer
	// must be a tag whose "{tag}" hashes to the slot, and all must agree (journal / latest keys are built from it)
	{
		const G = 8
		var wg sync.WaitGroup
		res := make([][]string, G)
		for g := 0; g < G; g++ {
			wg.Add(1)
			go func(g int) {
				defer wg.Done()
				out := make([]string, 16384)
				for i := 0; i < 16384; i++ {
					sl := (i*(2*g+1) + g*977) % 16384
					out[sl] = BisyncSlotTag(uint16(sl))
				}
				res[g] = out
			}(g)
		}
		wg.Wait()
		for sl := 0; sl < 16384; sl++ {
			for g := 0; g < G; g++ {
				if res[g][sl] != res[0][sl] || int(redispkg.KeyToSlot("{"+res[g][sl]+"}")) != sl {
					s.Violate("slot-tag-first-use-race", fmt.Sprintf("slot %d: goroutine %d got tag %q, goroutine 0 %q", sl, g, res[g][sl], res[0][sl]), map[string]interface{}{"slot": sl})
					sl = 16384
					break
				}
			}
		}
		s.Count("global_slot_tags_first_use_concurrent")
	}
	for _, l := range vfutil.Corpus("C14") {
		if strings.HasPrefix(l, "c14r ") {
			vfC14RebuildOp(s, l, tag, "corpus")
			tag++
		}
	}
	// every subset (and two orders) of a small journal after a snapshot at seq 2
	full := []*BisyncCommitRecord{}
	for q := int64(1); q <= 6; q++ {
		full = append(full, &BisyncCommitRecord{UnitSeq: q, EndOffset: 100 * q, MTime: q, RunID: "r", Version: config.Version})
	}
	for _, snapSeq := range []int64{-1, 0, 2} {
		for mask := 0; mask < 1<<6; mask++ {
			var sub, rev []*BisyncCommitRecord
			for i := 0; i < 6; i++ {
				if mask&(1<<i) != 0 {
					sub = append(sub, full[i])
					rev = append([]*BisyncCommitRecord{full[i]}, rev...)
				}
			}
			var snap *BisyncFrontierSnapshot
			if snapSeq >= 0 {
				snap = &BisyncFrontierSnapshot{RunID: "r", UnitSeq: snapSeq, Offset: 100 * snapSeq, MTime: 3, Version: config.Version}
			}
			vfC14RebuildCase(s, tag, snap, sub, "exhaustive")
			tag++
			vfC14RebuildCase(s, tag, snap, rev, "exhaustive")
			tag++
		}
	}
	// degenerate but legal inputs, forced (not left to chance): sequence numbers at the top of int64 (nextSeq++ wraps),
	// a snapshot AT the top, offsets 0 / max, equal mtimes of duplicates (the first filed stays), mtime 0 and negative,
	// only non-positive numbers behind no snapshot (minSeq stays 0), one record, the snapshot's own number again
	{
		const mx = int64(9223372036854775807)
		R := func(seq, off, mt int64, rid string) *BisyncCommitRecord {
			return &BisyncCommitRecord{UnitSeq: seq, EndOffset: off, StartOffset: off, MTime: mt, RunID: rid, Version: config.Version}
		}
		S := func(seq, off, mt int64) *BisyncFrontierSnapshot {
			return &BisyncFrontierSnapshot{RunID: "r", UnitSeq: seq, Offset: off, MTime: mt, Version: config.Version}
		}
		forced := []struct {
			snap *BisyncFrontierSnapshot
			recs []*BisyncCommitRecord
		}{
			{S(mx-2, 10, 1), []*BisyncCommitRecord{R(mx, 30, 1, "r"), R(mx-1, 20, 1, "r")}},
			{S(mx, 10, 1), []*BisyncCommitRecord{R(1, 5, 1, "r"), R(mx, 10, 2, "r")}},
			{S(mx-1, 10, 1), []*BisyncCommitRecord{R(mx, mx, mx, "r")}},
			{nil, []*BisyncCommitRecord{R(1, 0, 0, "r"), R(2, mx, -5, "r")}},
			{S(0, 0, 0), []*BisyncCommitRecord{R(1, 0, 0, ""), R(2, 0, 0, "")}},
			{S(3, 30, 7), []*BisyncCommitRecord{R(4, 40, 5, "a"), R(4, 41, 5, "b"), R(4, 42, 5, "c"), R(5, 50, 5, "r")}},
			{S(3, 30, 7), []*BisyncCommitRecord{R(4, 42, 5, "c"), R(4, 41, 6, "b"), R(4, 40, 6, "a")}},
			{nil, []*BisyncCommitRecord{R(0, 5, 1, "r"), R(-1, 6, 1, "r")}},
			{S(0, 0, 0), []*BisyncCommitRecord{R(0, 5, 1, "r")}},
			{nil, []*BisyncCommitRecord{R(1, 1, 1, "r")}},
			{S(5, 50, 1), []*BisyncCommitRecord{R(5, 51, 9, "x")}},
			{S(5, 50, 1), []*BisyncCommitRecord{R(5, 51, 9, "x"), R(6, 60, 0, "r"), R(6, 61, 0, "q")}},
			{S(-3, 1, 1), []*BisyncCommitRecord{R(-2, 2, 1, "r"), R(1, 3, 1, "r")}},
		}
		for _, f := range forced {
			vfC14RebuildCase(s, tag, f.snap, f.recs, "degenerate")
			tag++
		}
	}
	n := vfutil.Scale(3000, 60000)
	for i := 0; i < n; i++ {
		rr := r.Fork()
		var snap *BisyncFrontierSnapshot
		base := int64(0)
		if rr.Chance(3, 4) {
			base = int64(rr.Range(0, 12))
			if rr.Chance(1, 15) {
				base = -int64(rr.Range(1, 3))
			}
			snap = &BisyncFrontierSnapshot{RunID: "rid", UnitSeq: base, Offset: 1000 + base*10, MTime: int64(rr.Range(0, 50)), Version: vfutil.Pick(rr, []string{config.Version, "", "0.9"})}
		}
		recs := vfC14GenRecs(rr, base, "rid")
		if rr.Chance(1, 30) && len(recs) > 0 {
			recs[rr.Intn(len(recs))] = nil
		}
		vfC14RebuildCaseNil(s, tag, snap, recs)
		tag++
	}
}

// nil records are skipped by the real function; the model never sees them
func vfC14RebuildCaseNil(s *vfutil.Session, tag int, snap *BisyncFrontierSnapshot, recs []*BisyncCommitRecord) {
	hasNil := false
	var clean []*BisyncCommitRecord
	for _, r := range recs {
		if r == nil {
			hasNil = true
		} else {
			clean = append(clean, r)
		}
	}
	if !hasNil || len(clean) == 0 {
		vfC14RebuildCase(s, tag, snap, clean, "gen")
		return
	}
	// with a nil entry: same answer as without it
	a, errA := RebuildBisyncFrontier(snap, recs)
	b, errB := RebuildBisyncFrontier(snap, clean)
	if (errA == nil) != (errB == nil) || VfSnapStr(a) != VfSnapStr(b) {
		s.Violate("rebuild-nil-record-matters", "a nil record changed the result", map[string]interface{}{"snap": VfSnapStr(snap)})
	}
	s.Count("rebuild_nil_record")
	vfC14RebuildCase(s, tag, snap, clean, "gen")
}

func vfC14RebuildOp(s *vfutil.Session, op string, tag int, src string) {
	f := strings.Fields(op)
	if len(f) != 5 {
		return
	}
	snap := VfParseSnap(f[3])
	var recs []*BisyncCommitRecord
	if f[4] != "." {
		for _, p := range strings.Split(f[4], ";") {
			recs = append(recs, VfParseRec(p))
		}
	}
	vfC14RebuildCase(s, tag, snap, recs, src)
}
