//go:build verif

package checkpoint

// Line-protocol rendering of bisync commit records / frontier snapshots shared
// by the C14 harnesses (this package and package syncer). Overlay-only.

import (
	"fmt"
	"strconv"
	"strings"

	"github.com/mgtv-tech/redis-GunYu/config"
	"github.com/mgtv-tech/redis-GunYu/pkg/vfutil"
)

func VfRecStr(r *BisyncCommitRecord) string {
	return fmt.Sprintf("%d:%d:%d:%s:%d", r.UnitSeq, r.EndOffset, r.MTime, vfutil.HexS(r.RunID), r.Slot)
}

func VfSnapStr(s *BisyncFrontierSnapshot) string {
	if s == nil {
		return "-"
	}
	return fmt.Sprintf("%s:%d:%d:%d:%s", vfutil.HexS(s.RunID), s.UnitSeq, s.Offset, s.MTime, vfutil.HexS(s.Version))
}

func VfParseRec(s string) *BisyncCommitRecord {
	p := strings.Split(s, ":")
	a, _ := strconv.ParseInt(p[0], 10, 64)
	b, _ := strconv.ParseInt(p[1], 10, 64)
	c, _ := strconv.ParseInt(p[2], 10, 64)
	sl, _ := strconv.ParseUint(p[4], 10, 16)
	return &BisyncCommitRecord{UnitSeq: a, EndOffset: b, StartOffset: b, MTime: c, RunID: string(vfutil.UnHex(p[3])), Slot: uint16(sl), Version: config.Version}
}

func VfParseSnap(s string) *BisyncFrontierSnapshot {
	if s == "-" {
		return nil
	}
	p := strings.Split(s, ":")
	b, _ := strconv.ParseInt(p[1], 10, 64)
	c, _ := strconv.ParseInt(p[2], 10, 64)
	d, _ := strconv.ParseInt(p[3], 10, 64)
	return &BisyncFrontierSnapshot{RunID: string(vfutil.UnHex(p[0])), UnitSeq: b, Offset: c, MTime: d, Version: string(vfutil.UnHex(p[4]))}
}

