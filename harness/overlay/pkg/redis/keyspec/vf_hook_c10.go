//go:build verif

package keyspec

import "sort"

// VerifTableNames lists the command names of the two unexported tables
// (sorted), so the C10 harness draws commands from what the code supports.
func VerifTableNames() (positions []string, extractors []string) {
	for k := range commandKeyPositions {
		positions = append(positions, k)
	}
	for k := range commandKeyExtractors {
		extractors = append(extractors, k)
	}
	sort.Strings(positions)
	sort.Strings(extractors)
	return
}

// VerifKeyPosition returns the (first,last,step) row of a command.
func VerifKeyPosition(name string) (first, last, step int, ok bool) {
	p, ok := commandKeyPositions[name]
	return p.first, p.last, p.step, ok
}
