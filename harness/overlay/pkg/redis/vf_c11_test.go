//go:build verif

package redis

import (
	"fmt"
	"strconv"
	"testing"

	"github.com/mgtv-tech/redis-GunYu/pkg/digest"
	cluster "github.com/mgtv-tech/redis-GunYu/pkg/redis/client/cluster"
	"github.com/mgtv-tech/redis-GunYu/pkg/vfutil"
)

// independent bitwise CRC16/XMODEM + HASH_SLOT (the search oracle)
func vfCrc16(b []byte) uint16 {
	var crc uint16
	for _, c := range b {
		crc ^= uint16(c) << 8
		for i := 0; i < 8; i++ {
			if crc&0x8000 != 0 {
				crc = (crc << 1) ^ 0x1021
			} else {
				crc <<= 1
			}
		}
	}
	return crc
}

func vfHashSlot(k []byte) uint16 {
	s := -1
	for i, c := range k {
		if c == '{' {
			s = i
			break
		}
	}
	if s >= 0 {
		for e := s + 1; e < len(k); e++ {
			if k[e] == '}' {
				if e != s+1 {
					return vfCrc16(k[s+1:e]) % 16384
				}
				break
			}
		}
	}
	return vfCrc16(k) % 16384
}

func vfC11Key(r *vfutil.Rand) []byte {
	switch r.Intn(10) {
	case 0: // plain random bytes
		return r.Bytes(r.Intn(40))
	case 1: // long
		return r.Bytes(r.Range(100, 300))
	case 2: // tiny alphabet, exhaustive-ish
		alpha := []byte{'{', '}', 'a', 0xff, 0xc3, 0xa9, 0xe2}
		n := r.Intn(9)
		b := make([]byte, n)
		for i := range b {
			b[i] = vfutil.Pick(r, alpha)
		}
		return b
	default: // brace grammar: segments of filler separated by 0..4 braces
		var b []byte
		nb := r.Intn(5)
		for i := 0; i <= nb; i++ {
			fl := r.Intn(4)
			if r.Chance(1, 4) {
				fl = 0
			}
			for j := 0; j < fl; j++ {
				switch r.Intn(4) {
				case 0:
					b = append(b, byte(r.U64()))
				case 1:
					b = append(b, byte(0x80+r.Intn(0x80)))
				default:
					b = append(b, byte('a'+r.Intn(26)))
				}
			}
			if i < nb {
				if r.Bool() {
					b = append(b, '{')
				} else {
					b = append(b, '}')
				}
			}
		}
		return b
	}
}

func TestVerifC11(t *testing.T) {
	s := vfutil.NewSession("C11")
	defer s.Close()
	r := vfutil.NewRand(vfutil.Seed())

	one := func(k []byte, src string) {
		a := KeyToSlot(string(k))
		b := cluster.VerifHash(string(k))
		g, _ := cluster.GetSlot(k)
		gs, errS := cluster.GetSlot(string(k))
		want := vfHashSlot(k)
		if g != b || gs != b || errS != nil {
			s.Violate("GetSlot!=hash", "GetSlot([]byte / string) disagrees with hash", map[string]interface{}{"key_hex": vfutil.Hex(k)})
		}
		s.Op("slot "+vfutil.Hex(k), fmt.Sprintf("%d %d %d", a, b, want))
		// coverage classes
		nl, nr := 0, 0
		for _, c := range k {
			if c == '{' {
				nl++
			} else if c == '}' {
				nr++
			}
		}
		cls := fmt.Sprintf("l%d_r%d", vfutil.Min(nl, 3), vfutil.Min(nr, 3))
		s.Count("class_" + cls)
		s.Count("src_" + src)
		if nl > 0 && nr > 0 {
			s.Distinct(string(k))
		}
		if a != want {
			s.Violate("KeyToSlot", fmt.Sprintf("KeyToSlot(%q)=%d, HASH_SLOT=%d", k, a, want),
				map[string]interface{}{"key_hex": vfutil.Hex(k), "function": "redis.KeyToSlot", "got": a, "want": want})
		}
		if b != want {
			s.Violate("cluster.hash", fmt.Sprintf("hash(%q)=%d, HASH_SLOT=%d", k, b, want),
				map[string]interface{}{"key_hex": vfutil.Hex(k), "function": "cluster.hash", "got": b, "want": want})
		}
	}

	// corpus first
	for _, l := range vfutil.Corpus("C11") {
		one(vfutil.UnHex(l), "corpus")
	}
	// long keys: tag at the start / in the middle / at the end / absent / unclosed
	for _, n := range []int{4095, 4096, 4097, 65535, 65537, 1 << 20} {
		for v := 0; v < 5; v++ {
			k := r.Bytes(n)
			for i := range k {
				if k[i] == '{' || k[i] == '}' {
					k[i] = 'x'
				}
			}
			switch v {
			case 0:
				k[0], k[9] = '{', '}'
			case 1:
				k[n/2], k[n-2] = '{', '}'
			case 2:
				k[n-3], k[n-1] = '{', '}'
			case 3:
			case 4:
				k[1] = '{'
			}
			one(k, "long")
			if v == 3 {
				got := digest.Crc16(string(k))
				s.Op("crc16 "+vfutil.Hex(k), fmt.Sprintf("%d %d", got, vfCrc16(k)))
				if got != vfCrc16(k) {
					s.Violate("Crc16", "table CRC16 differs from bitwise XMODEM on a long input", map[string]interface{}{"input_len": n, "got": got, "want": vfCrc16(k)})
				}
			}
		}
	}
	// integer keys: GetSlot hashes their decimal text (what the wire encoder sends)
	for i := 0; i < vfutil.Scale(300, 5000); i++ {
		n := int64(r.U64())
		switch r.Intn(4) {
		case 0:
			n %= 1000
		case 1:
			n %= 1 << 31
		}
		txt := strconv.FormatInt(n, 10)
		want := vfHashSlot([]byte(txt))
		a1, e1 := cluster.GetSlot(n)
		a2, e2 := cluster.GetSlot(int(n))
		a3, e3 := cluster.GetSlot(uint64(n))
		w3 := vfHashSlot([]byte(strconv.FormatUint(uint64(n), 10)))
		a4, e4 := cluster.GetSlot(int32(n))
		w4 := vfHashSlot([]byte(strconv.FormatInt(int64(int32(n)), 10)))
		s.Count("getslot_int")
		if e1 != nil || e2 != nil || e3 != nil || e4 != nil || a1 != want || a2 != want || a3 != w3 || a4 != w4 {
			s.Violate("GetSlot-type", fmt.Sprintf("GetSlot of integer key %d: int64=%d int=%d uint64=%d int32=%d, HASH_SLOT(text)=%d/%d/%d", n, a1, a2, a3, a4, want, w3, w4),
				map[string]interface{}{"n": n})
		}
	}
	// raw CRC on random strings (table vs bitwise)
	for i := 0; i < vfutil.Scale(2000, 100000); i++ {
		b := r.Bytes(r.Intn(64))
		got := digest.Crc16(string(b))
		s.Op("crc16 "+vfutil.Hex(b), fmt.Sprintf("%d %d", got, vfCrc16(b)))
		if got != vfCrc16(b) {
			s.Violate("Crc16", "table CRC16 differs from bitwise XMODEM", map[string]interface{}{"input_hex": vfutil.Hex(b), "got": got, "want": vfCrc16(b)})
		}
	}
	// exhaustive small keys over the brace alphabet
	// incl. a UTF-8 lead byte and a continuation byte: "lead, brace" and "brace inside a would-be rune"
	alpha := []byte{'{', '}', 'a', 0xff, 0xc3, 0xa9}
	maxLen := vfutil.Scale(5, 7)
	var rec func(prefix []byte)
	rec = func(prefix []byte) {
		one(prefix, "exhaustive")
		if len(prefix) == maxLen {
			return
		}
		for _, c := range alpha {
			rec(append(append([]byte{}, prefix...), c))
		}
	}
	rec(nil)
	// generated
	for i := 0; i < vfutil.Scale(20000, 2000000); i++ {
		one(vfC11Key(r), "gen")
	}
}
