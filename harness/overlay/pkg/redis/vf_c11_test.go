//go:build verif

package redis

import (
	"fmt"
	"runtime"
	"strconv"
	"sync"
	"testing"

	"github.com/mgtv-tech/redis-GunYu/pkg/digest"
	cluster "github.com/mgtv-tech/redis-GunYu/pkg/redis/client/cluster"
	"github.com/mgtv-tech/redis-GunYu/pkg/vfutil"
)

// independent bitwise CRC16/XMODEM + HASH_SLOT (the search oracle)
func vfCrc16(b []byte) uint16 {
	var crc uint16
	for _, c := range b {
		crc ^= uint16(c) << 8
		for i := 0; i < 8; i++ {
			if crc&0x8000 != 0 {
				crc = (crc << 1) ^ 0x1021
			} else {
				crc <<= 1
			}
		}
	}
	return crc
}

func vfHashSlot(k []byte) uint16 {
	s := -1
	for i, c := range k {
		if c == '{' {
			s = i
			break
		}
	}
	if s >= 0 {
		for e := s + 1; e < len(k); e++ {
			if k[e] == '}' {
				if e != s+1 {
					return vfCrc16(k[s+1:e]) % 16384
				}
				break
			}
		}
	}
	return vfCrc16(k) % 16384
}

func vfC11Key(r *vfutil.Rand) []byte {
	switch r.Intn(10) {
	case 0: // plain random bytes
		return r.Bytes(r.Intn(40))
	case 1: // long
		return r.Bytes(r.Range(100, 300))
	case 2: // tiny alphabet, exhaustive-ish
		alpha := []byte{'{', '}', 'a', 0xff, 0xc3, 0xa9, 0xe2}
		n := r.Intn(9)
		b := make([]byte, n)
		for i := range b {
			b[i] = vfutil.Pick(r, alpha)
		}
		return b
	default: // brace grammar: segments of filler separated by 0..4 braces
		var b []byte
		nb := r.Intn(5)
		for i := 0; i <= nb; i++ {
			fl := r.Intn(4)
			if r.Chance(1, 4) {
				fl = 0
			}
			for j := 0; j < fl; j++ {
				switch r.Intn(4) {
				case 0:
					b = append(b, byte(r.U64()))
				case 1:
					b = append(b, byte(0x80+r.Intn(0x80)))
				default:
					b = append(b, byte('a'+r.Intn(26)))
				}
			}
			if i < nb {
				if r.Bool() {
					b = append(b, '{')
				} else {
					b = append(b, '}')
				}
			}
		}
		return b
	}
}

func TestVerifC11(t *testing.T) {
	s := vfutil.NewSession("C11")
	defer s.Close()
	r := vfutil.NewRand(vfutil.Seed())

	one := func(k []byte, src string) {
		a := KeyToSlot(string(k))
		b := cluster.VerifHash(string(k))
		g, _ := cluster.GetSlot(k)
		gs, errS := cluster.GetSlot(string(k))
		want := vfHashSlot(k)
		if g != b || gs != b || errS != nil {
			s.Violate("GetSlot!=hash", "GetSlot([]byte / string) disagrees with hash", map[string]interface{}{"key_hex": vfutil.Hex(k)})
		}
		s.Op("slot "+vfutil.Hex(k), fmt.Sprintf("%d %d %d", a, b, want))
		// coverage classes
		nl, nr := 0, 0
		for _, c := range k {
			if c == '{' {
				nl++
			} else if c == '}' {
				nr++
			}
		}
		cls := fmt.Sprintf("l%d_r%d", vfutil.Min(nl, 3), vfutil.Min(nr, 3))
		s.Count("class_" + cls)
		s.Count("src_" + src)
		if nl > 0 && nr > 0 {
			s.Distinct(string(k))
		}
		if a != want {
			s.Violate("KeyToSlot", fmt.Sprintf("KeyToSlot(%q)=%d, HASH_SLOT=%d", k, a, want),
				map[string]interface{}{"key_hex": vfutil.Hex(k), "function": "redis.KeyToSlot", "got": a, "want": want})
		}
		if b != want {
			s.Violate("cluster.hash", fmt.Sprintf("hash(%q)=%d, HASH_SLOT=%d", k, b, want),
				map[string]interface{}{"key_hex": vfutil.Hex(k), "function": "cluster.hash", "got": b, "want": want})
		}
	}

	// corpus first
	for _, l := range vfutil.Corpus("C11") {
		one(vfutil.UnHex(l), "corpus")
	}
	// FORCED degenerate-but-legal keys (dimension audit): the empty key (slot 0), nil, "{}", "{", "}", one byte; a tagged and
	// an untagged key in each of the slots 0, 1, 16382, 16383 (found by search with the bitwise oracle), a tag of one byte
	one(nil, "forced")
	one([]byte{}, "forced")
	for _, k := range []string{"{}", "{", "}", "}{", "{}{}", "a", "\x00", "{a}", "{\x00}", "{{}}", "{}}", "{{}"} {
		one([]byte(k), "forced")
	}
	for _, want := range []uint16{0, 1, 16382, 16383} {
		tagged, plain := false, false
		for a := 0; a < 256 && !(tagged && plain); a++ {
			for b := 0; b < 256 && !(tagged && plain); b++ {
				if a == '{' || a == '}' || b == '{' || b == '}' {
					continue
				}
				if vfCrc16([]byte{byte(a), byte(b)})%16384 == want {
					if !tagged {
						one([]byte{'x', '{', byte(a), byte(b), '}', 'y'}, "forced")
						tagged = true
					}
					if !plain {
						one([]byte{byte(a), byte(b)}, "forced")
						plain = true
					}
				}
			}
		}
		s.Count(fmt.Sprintf("forced_slot_%d", want))
	}
	// GetSlot on argument types it does not know: an error, never a slot (and never a panic)
	for _, arg := range []interface{}{nil, 1.5, struct{}{}, []string{"k"}, true} {
		func() {
			defer func() {
				if p := recover(); p != nil {
					s.Violate("GetSlot-type", fmt.Sprintf("GetSlot(%T) panics: %v", arg, p), map[string]interface{}{"arg_type": fmt.Sprintf("%T", arg)})
				}
			}()
			s.Count("forced_getslot_othertype")
			if _, err := cluster.GetSlot(arg); err == nil {
				if _, isF := arg.(float64); !isF { // float64 is formatted (declared boundary of the check)
					s.Violate("GetSlot-type", fmt.Sprintf("GetSlot(%T) returns a slot without an error", arg), map[string]interface{}{"arg_type": fmt.Sprintf("%T", arg)})
				}
			}
		}()
	}
	// long keys: tag at the start / in the middle / at the end / absent / unclosed
	for _, n := range []int{4095, 4096, 4097, 65535, 65537, 1 << 20} {
		for v := 0; v < 5; v++ {
			k := r.Bytes(n)
			for i := range k {
				if k[i] == '{' || k[i] == '}' {
					k[i] = 'x'
				}
			}
			switch v {
			case 0:
				k[0], k[9] = '{', '}'
			case 1:
				k[n/2], k[n-2] = '{', '}'
			case 2:
				k[n-3], k[n-1] = '{', '}'
			case 3:
			case 4:
				k[1] = '{'
			}
			one(k, "long")
			if v == 3 {
				got := digest.Crc16(string(k))
				s.Op("crc16 "+vfutil.Hex(k), fmt.Sprintf("%d %d", got, vfCrc16(k)))
				if got != vfCrc16(k) {
					s.Violate("Crc16", "table CRC16 differs from bitwise XMODEM on a long input", map[string]interface{}{"input_len": n, "got": got, "want": vfCrc16(k)})
				}
			}
		}
	}
	// integer keys: GetSlot hashes their decimal text (what the wire encoder sends)
	for i := 0; i < vfutil.Scale(300, 5000); i++ {
		n := int64(r.U64())
		switch r.Intn(4) {
		case 0:
			n %= 1000
		case 1:
			n %= 1 << 31
		}
		txt := strconv.FormatInt(n, 10)
		want := vfHashSlot([]byte(txt))
		a1, e1 := cluster.GetSlot(n)
		a2, e2 := cluster.GetSlot(int(n))
		a3, e3 := cluster.GetSlot(uint64(n))
		w3 := vfHashSlot([]byte(strconv.FormatUint(uint64(n), 10)))
		a4, e4 := cluster.GetSlot(int32(n))
		w4 := vfHashSlot([]byte(strconv.FormatInt(int64(int32(n)), 10)))
		s.Count("getslot_int")
		if e1 != nil || e2 != nil || e3 != nil || e4 != nil || a1 != want || a2 != want || a3 != w3 || a4 != w4 {
			s.Violate("GetSlot-type", fmt.Sprintf("GetSlot of integer key %d: int64=%d int=%d uint64=%d int32=%d, HASH_SLOT(text)=%d/%d/%d", n, a1, a2, a3, a4, want, w3, w4),
				map[string]interface{}{"n": n})
		}
	}
	// raw CRC on random strings (table vs bitwise)
	for i := 0; i < vfutil.Scale(2000, 100000); i++ {
		b := r.Bytes(r.Intn(64))
		got := digest.Crc16(string(b))
		s.Op("crc16 "+vfutil.Hex(b), fmt.Sprintf("%d %d", got, vfCrc16(b)))
		if got != vfCrc16(b) {
			s.Violate("Crc16", "table CRC16 differs from bitwise XMODEM", map[string]interface{}{"input_hex": vfutil.Hex(b), "got": got, "want": vfCrc16(b)})
		}
	}
	// exhaustive small keys over the brace alphabet
	// incl. a UTF-8 lead byte and a continuation byte: "lead, brace" and "brace inside a would-be rune"
	alpha := []byte{'{', '}', 'a', 0xff, 0xc3, 0xa9}
	maxLen := vfutil.Scale(5, 7)
	var rec func(prefix []byte)
	rec = func(prefix []byte) {
		one(prefix, "exhaustive")
		if len(prefix) == maxLen {
			return
		}
		for _, c := range alpha {
			rec(append(append([]byte{}, prefix...), c))
		}
	}
	rec(nil)
	// generated
	for i := 0; i < vfutil.Scale(20000, 2000000); i++ {
		one(vfC11Key(r), "gen")
	}
}

// vfC11Concurrent: the property quantifies over keys, not over what else the process is doing: cluster.hash /
// GetSlot / redis.KeyToSlot / digest.Crc16 are called by every cluster client, syncer and checkpoint writer of the
// process at once. G goroutines, each on its OWN keys (distinct slots, equal lengths, long - a comparison or a scan of
// a key takes long enough for another goroutine to get in between), every answer compared with the bitwise oracle;
// then the same keys once more sequentially (state left behind by the concurrent phase). The budget is a COUNT of
// calls, never a duration; on code without shared state no schedule can produce a difference.
// TestVerifC11conc: harness entry C11conc (its own go test run: the thorough tier builds it with -race; the race
// runtime's reports about repository code become VIOLATION data-race through vfutil.StartRaceLog)
func TestVerifC11conc(t *testing.T) {
	s := vfutil.NewSession("C11conc")
	defer s.Close()
	r := vfutil.NewRand(vfutil.Seed() ^ 0xc11c)
	rl := vfutil.StartRaceLog("C11conc")
	vfC11Concurrent(s, r)
	rl.Finish(s, func() map[string]interface{} { return map[string]interface{}{"seed": vfutil.Seed()} })
}

func vfC11Concurrent(s *vfutil.Session, r *vfutil.Rand) {
	const G = 8
	type bad struct {
		fn        string
		g, call   int
		key       []byte
		got, want uint16
	}
	// keys: per goroutine 3 keys of one length, different brace shapes, slots pairwise distinct over the whole set
	shapes := []func(pad, tag []byte) []byte{
		func(pad, tag []byte) []byte { return append(append([]byte("u:{"), tag...), append([]byte("}:"), pad...)...) },
		func(pad, tag []byte) []byte { return append(append([]byte("u:{}{"), tag...), append([]byte("}:"), pad...)...) },
		func(pad, tag []byte) []byte { return append(append(append([]byte{}, pad...), []byte(":}{")...), append(tag, '}', '{', 'x', '}')...) },
		func(pad, tag []byte) []byte { return append(append([]byte("\xff\xfe{"), pad...), append([]byte("}"), tag...)...) },
		func(pad, tag []byte) []byte { return append(append([]byte("}{"), tag...), pad...) },
	}
	padLen := vfutil.Scale(1500, 6000)
	var keys [][]byte
	var want []uint16
	seenSlot := map[uint16]bool{}
	for len(keys) < G*3 {
		pad := r.Bytes(padLen)
		for i := range pad {
			if pad[i] == '{' || pad[i] == '}' {
				pad[i] = 'p'
			}
		}
		tag := []byte(fmt.Sprintf("t%04d", r.Intn(10000)))
		k := shapes[len(keys)%len(shapes)](pad, tag)
		w := vfHashSlot(k)
		if seenSlot[w] {
			continue
		}
		seenSlot[w] = true
		keys, want = append(keys, k), append(want, w)
	}
	for i, k := range keys {
		s.Op("slot "+vfutil.Hex(k), fmt.Sprintf("%d %d %d", KeyToSlot(string(k)), cluster.VerifHash(string(k)), want[i]))
		s.Distinct(string(k))
	}
	fns := []struct {
		name string
		f    func(k []byte) uint16
	}{
		{"cluster.GetSlot([]byte)", func(k []byte) uint16 { v, _ := cluster.GetSlot(k); return v }},
		{"cluster.hash", func(k []byte) uint16 { return cluster.VerifHash(string(k)) }},
		{"cluster.GetSlot(string)", func(k []byte) uint16 { v, _ := cluster.GetSlot(string(k)); return v }},
		{"redis.KeyToSlot", func(k []byte) uint16 { return KeyToSlot(string(k)) }},
	}
	run := func(phase string, calls int, yield bool) *bad {
		var mu sync.Mutex
		var first *bad
		var wg sync.WaitGroup
		start := make(chan struct{})
		for g := 0; g < G; g++ {
			wg.Add(1)
			go func(g int) {
				defer wg.Done()
				<-start
				for c := 0; c < calls; c++ {
					ki := g*3 + (c/4)%3 // the same key four times in a row, then the next of this goroutine's keys
					fi := (c / 12) % 4
					got := fns[fi].f(keys[ki])
					if got != want[ki] {
						mu.Lock()
						if first == nil {
							first = &bad{fns[fi].name, g, c, keys[ki], got, want[ki]}
						}
						mu.Unlock()
						return
					}
					if yield {
						runtime.Gosched()
					}
				}
			}(g)
		}
		close(start)
		wg.Wait()
		s.Add("concurrent_calls_"+phase, G*calls)
		return first
	}
	report := func(phase string, b *bad) {
		whose := "no key of the set"
		for i, w := range want {
			if w == b.got {
				whose = fmt.Sprintf("key #%d of the set (goroutine %d)", i, i/3)
			}
		}
		pre := b.key
		if len(pre) > 48 {
			pre = pre[:48]
		}
		s.Violate("concurrent-slot", fmt.Sprintf("%s phase, goroutine %d call %d: %s(%q... %d bytes) = %d, HASH_SLOT = %d; %d is the slot of %s hashed by another goroutine at the same time: the answer depends on what other callers hash, not only on the key",
			phase, b.g, b.call, b.fn, pre, len(b.key), b.got, b.want, b.got, whose),
			map[string]interface{}{"function": b.fn, "key_hex": vfutil.Hex(b.key), "got": b.got, "want": b.want, "goroutines": G, "phase": phase,
				"concurrent_keys_hex": func() []string {
					var l []string
					for _, k := range keys {
						l = append(l, vfutil.Hex(k[:vfutil.Min(len(k), 32)])+fmt.Sprintf("..%d", len(k)))
					}
					return l
				}()})
	}
	old := runtime.GOMAXPROCS(0)
	if old < 4 {
		runtime.GOMAXPROCS(4)
	}
	b := run("parallel", vfutil.Scale(12000, 120000), false)
	runtime.GOMAXPROCS(1)
	b2 := run("yield", vfutil.Scale(1200, 12000), true)
	runtime.GOMAXPROCS(old)
	if b != nil {
		report("parallel", b)
	} else if b2 != nil {
		report("yield (GOMAXPROCS=1, Gosched between calls)", b2)
	}
	// what the concurrent phase left behind: the same keys, one caller (twice: a memo of the last key answers the second call)
	for round := 0; round < 2; round++ {
		for i := len(keys) - 1; i >= 0; i-- {
			for _, fn := range fns {
				for rep := 0; rep < 2; rep++ {
					if got := fn.f(keys[i]); got != want[i] {
						s.Violate("stale-slot", fmt.Sprintf("after the concurrent phase, ONE caller: %s(key #%d, %d bytes) = %d, HASH_SLOT = %d (state left behind by concurrent callers)", fn.name, i, len(keys[i]), got, want[i]),
							map[string]interface{}{"function": fn.name, "key_hex": vfutil.Hex(keys[i]), "got": got, "want": want[i]})
						return
					}
				}
			}
		}
	}
	s.Count("concurrent_ok")
}
