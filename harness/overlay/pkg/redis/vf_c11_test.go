//go:build verif

package redis

import (
	"fmt"
	"testing"

	"github.com/mgtv-tech/redis-GunYu/pkg/digest"
	cluster "github.com/mgtv-tech/redis-GunYu/pkg/redis/client/cluster"
	"github.com/mgtv-tech/redis-GunYu/pkg/vfutil"
)

// independent bitwise CRC16/XMODEM + HASH_SLOT (the search oracle)
func vfCrc16(b []byte) uint16 {
	var crc uint16
	for _, c := range b {
		crc ^= uint16(c) << 8
		for i := 0; i < 8; i++ {
			if crc&0x8000 != 0 {
				crc = (crc << 1) ^ 0x1021
			} else {
				crc <<= 1
			}
		}
	}
	return crc
}

func vfHashSlot(k []byte) uint16 {
	s := -1
	for i, c := range k {
		if c == '{' {
			s = i
			break
		}
	}
	if s >= 0 {
		for e := s + 1; e < len(k); e++ {
			if k[e] == '}' {
				if e != s+1 {
					return vfCrc16(k[s+1:e]) % 16384
				}
				break
			}
		}
	}
	return vfCrc16(k) % 16384
}

func vfC11Key(r *vfutil.Rand) []byte {
	switch r.Intn(10) {
	case 0: // plain random bytes
		return r.Bytes(r.Intn(40))
	case 1: // long
		return r.Bytes(r.Range(100, 300))
	case 2: // tiny alphabet, exhaustive-ish
		alpha := []byte{'{', '}', 'a', 0xff}
		n := r.Intn(7)
		b := make([]byte, n)
		for i := range b {
			b[i] = vfutil.Pick(r, alpha)
		}
		return b
	default: // brace grammar: segments of filler separated by 0..4 braces
		var b []byte
		nb := r.Intn(5)
		for i := 0; i <= nb; i++ {
			fl := r.Intn(4)
			if r.Chance(1, 4) {
				fl = 0
			}
			for j := 0; j < fl; j++ {
				switch r.Intn(4) {
				case 0:
					b = append(b, byte(r.U64()))
				case 1:
					b = append(b, byte(0x80+r.Intn(0x80)))
				default:
					b = append(b, byte('a'+r.Intn(26)))
				}
			}
			if i < nb {
				if r.Bool() {
					b = append(b, '{')
				} else {
					b = append(b, '}')
				}
			}
		}
		return b
	}
}

func TestVerifC11(t *testing.T) {
	s := vfutil.NewSession("C11")
	defer s.Close()
	r := vfutil.NewRand(vfutil.Seed())

	one := func(k []byte, src string) {
		a := KeyToSlot(string(k))
		b := cluster.VerifHash(string(k))
		g, _ := cluster.GetSlot(k)
		want := vfHashSlot(k)
		if g != b {
			s.Violate("GetSlot!=hash", "GetSlot([]byte) disagrees with hash", map[string]interface{}{"key_hex": vfutil.Hex(k)})
		}
		s.Op("slot "+vfutil.Hex(k), fmt.Sprintf("%d %d %d", a, b, want))
		// coverage classes
		nl, nr := 0, 0
		for _, c := range k {
			if c == '{' {
				nl++
			} else if c == '}' {
				nr++
			}
		}
		cls := fmt.Sprintf("l%d_r%d", vfutil.Min(nl, 3), vfutil.Min(nr, 3))
		s.Count("class_" + cls)
		s.Count("src_" + src)
		if nl > 0 && nr > 0 {
			s.Distinct(string(k))
		}
		if a != want {
			s.Violate("KeyToSlot", fmt.Sprintf("KeyToSlot(%q)=%d, HASH_SLOT=%d", k, a, want),
				map[string]interface{}{"key_hex": vfutil.Hex(k), "function": "redis.KeyToSlot", "got": a, "want": want})
		}
		if b != want {
			s.Violate("cluster.hash", fmt.Sprintf("hash(%q)=%d, HASH_SLOT=%d", k, b, want),
				map[string]interface{}{"key_hex": vfutil.Hex(k), "function": "cluster.hash", "got": b, "want": want})
		}
	}

	// corpus first
	for _, l := range vfutil.Corpus("C11") {
		one(vfutil.UnHex(l), "corpus")
	}
	// raw CRC on random strings (table vs bitwise)
	for i := 0; i < vfutil.Scale(2000, 100000); i++ {
		b := r.Bytes(r.Intn(64))
		got := digest.Crc16(string(b))
		s.Op("crc16 "+vfutil.Hex(b), fmt.Sprintf("%d %d", got, vfCrc16(b)))
		if got != vfCrc16(b) {
			s.Violate("Crc16", "table CRC16 differs from bitwise XMODEM", map[string]interface{}{"input_hex": vfutil.Hex(b), "got": got, "want": vfCrc16(b)})
		}
	}
	// exhaustive small keys over the brace alphabet
	alpha := []byte{'{', '}', 'a', 0xff}
	maxLen := vfutil.Scale(5, 8)
	var rec func(prefix []byte)
	rec = func(prefix []byte) {
		one(prefix, "exhaustive")
		if len(prefix) == maxLen {
			return
		}
		for _, c := range alpha {
			rec(append(append([]byte{}, prefix...), c))
		}
	}
	rec(nil)
	// generated
	for i := 0; i < vfutil.Scale(20000, 2000000); i++ {
		one(vfC11Key(r), "gen")
	}
}
