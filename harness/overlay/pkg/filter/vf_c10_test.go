//go:build verif

package filter

import (
	"fmt"
	"strings"
	"testing"

	"github.com/mgtv-tech/redis-GunYu/pkg/vfc10"
	"github.com/mgtv-tech/redis-GunYu/pkg/vfutil"
)

// vfBuild makes a bare RedisKeyFilter from a configuration: every list is
// inserted once (command lists case-insensitively), as Lean `Filter.build`.
func vfBuild(c vfc10.Cfg) *RedisKeyFilter {
	f := &RedisKeyFilter{}
	f.InsertCmdBlackList(c.CB, true)
	f.InsertCmdWhiteList(c.CW, true)
	f.InsertPrefixKeyBlackList(c.PB)
	f.InsertPrefixKeyWhiteList(c.PW)
	f.InsertSlotWhiteList(c.SW)
	f.InsertSlotBlackList(c.SB)
	f.InsertDbBlackList(c.DB)
	return f
}

func vfDumpRange(rl *RangeList) string {
	if rl == nil {
		return "none"
	}
	p := make([]string, len(rl.list))
	for i, r := range rl.list {
		p[i] = fmt.Sprintf("%d-%d", r.Left, r.Right)
	}
	return fmt.Sprintf("%d:%d:[%s]", rl.minLeft, rl.maxRight, strings.Join(p, ","))
}

func TestVerifC10(t *testing.T) {
	s := vfutil.NewSession("C10")
	defer s.Close()
	r := vfutil.NewRand(vfutil.Seed())
	e := &vfc10.Env{
		S:    s,
		Mode: "F",
		Make: func(c vfc10.Cfg) vfc10.Filter { return vfBuild(c) },
		Ranges: func(f vfc10.Filter) string {
			kf := f.(*RedisKeyFilter)
			return "w=" + vfDumpRange(kf.slotKeyWhiteList) + " b=" + vfDumpRange(kf.slotKeyBlackList)
		},
	}
	// corpus first
	for _, l := range vfutil.Corpus("C10") {
		e.RunLine(l)
	}
	e.RunGolden()
	// every slot against adversarial range sets (nested, overlapping, same
	// left bound, adjacent, single-slot, reversed, malformed)
	sweeps := []vfc10.Cfg{
		{SW: [][]uint16{{0, 16383}, {10, 20}, {30, 40}}},
		{SB: [][]uint16{{100, 9000}, {200, 300}, {250, 12000}, {12001, 12001}, {5, 4}, {}, {1, 2, 3}, {16383}}},
		{SW: [][]uint16{{5000, 5000}, {5000, 6000}, {5000, 5500}, {4000, 5000}}, SB: [][]uint16{{5400, 5600}, {5500}}},
		{SW: [][]uint16{{9, 3}}, SB: [][]uint16{{16000, 65535}, {0}}},
	}
	e.SlotSweep(sweeps, vfutil.Scale(7, 1))
	e.BraceSweep(vfutil.Scale(6, 8))
	e.RunGenerated(r, vfutil.Scale(800, 20000), 40, 60)
}
