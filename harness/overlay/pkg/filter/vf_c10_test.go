//go:build verif

package filter

import (
	"fmt"
	"runtime"
	"strings"
	"sync"
	"testing"

	"github.com/mgtv-tech/redis-GunYu/pkg/vfc10"
	"github.com/mgtv-tech/redis-GunYu/pkg/vfutil"
)

// vfBuild makes a bare RedisKeyFilter from a configuration: every list is
// inserted once (command lists case-insensitively), as Lean `Filter.build`.
func vfBuild(c vfc10.Cfg) *RedisKeyFilter {
	f := &RedisKeyFilter{}
	f.InsertCmdBlackList(c.CB, true)
	f.InsertCmdWhiteList(c.CW, true)
	f.InsertPrefixKeyBlackList(c.PB)
	f.InsertPrefixKeyWhiteList(c.PW)
	f.InsertSlotWhiteList(c.SW)
	f.InsertSlotBlackList(c.SB)
	f.InsertDbBlackList(c.DB)
	return f
}

func vfDumpRange(rl *RangeList) string {
	if rl == nil {
		return "none"
	}
	p := make([]string, len(rl.list))
	for i, r := range rl.list {
		p[i] = fmt.Sprintf("%d-%d", r.Left, r.Right)
	}
	return fmt.Sprintf("%d:%d:[%s]", rl.minLeft, rl.maxRight, strings.Join(p, ","))
}

func TestVerifC10(t *testing.T) {
	s := vfutil.NewSession("C10")
	defer s.Close()
	r := vfutil.NewRand(vfutil.Seed())
	e := &vfc10.Env{
		S:    s,
		Mode: "F",
		Make: func(c vfc10.Cfg) vfc10.Filter { return vfBuild(c) },
		Ranges: func(f vfc10.Filter) string {
			kf := f.(*RedisKeyFilter)
			return "w=" + vfDumpRange(kf.slotKeyWhiteList) + " b=" + vfDumpRange(kf.slotKeyBlackList)
		},
	}
	// corpus first
	for _, l := range vfutil.Corpus("C10") {
		e.RunLine(l)
	}
	e.RunGolden()
	// every slot against adversarial range sets (nested, overlapping, same
	// left bound, adjacent, single-slot, reversed, malformed)
	sweeps := []vfc10.Cfg{
		{SW: [][]uint16{{0, 16383}, {10, 20}, {30, 40}}},
		{SB: [][]uint16{{100, 9000}, {200, 300}, {250, 12000}, {12001, 12001}, {5, 4}, {}, {1, 2, 3}, {16383}}},
		{SW: [][]uint16{{5000, 5000}, {5000, 6000}, {5000, 5500}, {4000, 5000}}, SB: [][]uint16{{5400, 5600}, {5500}}},
		{SW: [][]uint16{{9, 3}}, SB: [][]uint16{{16000, 65535}, {0}}},
	}
	vfOrderSweep(e)
	e.EdgeSlots()
	e.ForcedDims(r)
	e.SlotSweep(sweeps, vfutil.Scale(7, 1))
	e.BraceSweep(vfutil.Scale(6, 8))
	e.RunGenerated(r, vfutil.Scale(800, 20000), 40, 60)
}

// vfOrderSweep: one Trie implementation serves the EXACT lists (commands, Search) and the PREFIX lists (keys,
// IsPrefixMatch). Every pair (word, longer word with that prefix) is inserted in BOTH orders into each of the four
// lists, alone and with a third unrelated word in front / between / behind, and probed with: each word, every proper
// prefix of the longer word, the longer word plus one byte, in the cases the list folds.
func vfOrderSweep(e *vfc10.Env) {
	pairs := [][2]string{{"set", "setex"}, {"incr", "incrby"}, {"incrby", "incrbyfloat"}, {"lpush", "lpushx"}, {"hset", "hsetnx"},
		{"a", "ab"}, {"k:", "k:1:"}, {"\xc3", "\xc3\xa9"}, {"\xff", "\xff\xfe"}, {"{", "{}"}, {"x", "x"}}
	third := "zz"
	for _, p := range pairs {
		orders := [][]string{{p[0], p[1]}, {p[1], p[0]}, {third, p[0], p[1]}, {p[1], third, p[0]}, {p[1], p[0], third}, {p[0]}, {p[1]}}
		var probes []string
		for i := 0; i <= len(p[1]); i++ {
			probes = append(probes, p[1][:i])
		}
		probes = append(probes, p[1]+"x", p[1]+p[1], third, third[:1])
		for _, o := range orders {
			for kind := 0; kind < 4; kind++ {
				if kind < 2 && p[1][0] >= 0x80 {
					continue // command names are ASCII (declared assumption: Go folds case by Unicode rules, invalid UTF-8 becomes U+FFFD)
				}
				var c vfc10.Cfg
				switch kind {
				case 0:
					c.CB = o
				case 1:
					c.CW = o
				case 2:
					c.PB = o
				case 3:
					c.PW = o
				}
				f := e.Make(c)
				for _, q := range probes {
					if kind < 2 {
						e.OpCmd(c, f, q)
						e.OpCmd(c, f, strings.ToUpper(q))
					} else {
						e.OpKey(c, f, []byte(q))
					}
				}
				e.S.Count("order_sweep_cfgs")
			}
		}
	}
}

// TestVerifC10conc: harness entry C10conc (its own go test run: the thorough tier builds it with -race)
func TestVerifC10conc(t *testing.T) {
	s := vfutil.NewSession("C10conc")
	defer s.Close()
	r := vfutil.NewRand(vfutil.Seed() ^ 0xc10c)
	rl := vfutil.StartRaceLog("C10conc")
	vfConcurrentReads(s, r)
	rl.Finish(s, func() map[string]interface{} { return map[string]interface{}{"seed": vfutil.Seed()} })
}

// vfConcurrentReads: a built filter is read by every syncer goroutine at once (parser, snapshot workers): FilterKey /
// FilterSlot / FilterCmd must be functions of (configuration, argument) alone. G goroutines on their own keys against
// one shared filter, answers compared with the oracle; counted budget.
func vfConcurrentReads(s *vfutil.Session, r *vfutil.Rand) {
	const G = 8
	c := vfc10.Cfg{SW: [][]uint16{{0, 16383}, {10, 20}, {30, 40}}, SB: [][]uint16{{100, 9000}, {200, 300}, {12001}}, PB: []string{"bad:", "b"}, PW: []string{"u:", "user:", "{"}, CB: []string{"del", "delex"}}
	f := vfBuild(c)
	e := &vfc10.Env{S: s, Mode: "F", Make: func(c vfc10.Cfg) vfc10.Filter { return vfBuild(c) }}
	for i := 0; i < 200; i++ {
		e.OpKey(c, f, vfc10.GenKey(r, c))
	}
	for _, w := range []string{"del", "DEL", "delex", "dele", "set", "Del"} {
		e.OpCmd(c, f, w)
	}
	type q struct {
		key            []byte
		wk, ws, fk, fs bool
	}
	var mu sync.Mutex
	var first *q
	var wg sync.WaitGroup
	for g := 0; g < G; g++ {
		rr := r.Fork()
		wg.Add(1)
		go func() {
			defer wg.Done()
			for i := 0; i < vfutil.Scale(4000, 60000); i++ {
				k := vfc10.GenKey(rr, c)
				if rr.Chance(1, 3) {
					k = append([]byte("u:{"), append(rr.Bytes(rr.Range(1, 600)), '}')...)
				}
				x := q{key: k, wk: vfc10.WantFilterKey(c, k), ws: vfc10.WantFilterSlot(c, k), fk: f.FilterKey(string(k)), fs: f.FilterSlot(string(k))}
				cmd := vfutil.Pick(rr, []string{"del", "DEL", "delex", "dele", "set", "DELEX", "d"})
				if f.FilterCmd(cmd) != vfc10.WantFilterCmd(c, cmd) {
					x.key = []byte("FilterCmd:" + cmd)
					x.fk = !x.wk
				}
				if x.wk != x.fk || x.ws != x.fs {
					mu.Lock()
					if first == nil {
						first = &x
					}
					mu.Unlock()
					return
				}
				if i%64 == 0 {
					runtime.Gosched()
				}
			}
		}()
	}
	wg.Wait()
	s.Add("concurrent_filter_reads", G*vfutil.Scale(4000, 60000))
	if first != nil {
		s.Violate("concurrent-filter", fmt.Sprintf("with %d goroutines reading one filter: FilterKey(%q)=%v want %v, FilterSlot=%v want %v (slot %d): the decision depends on concurrent callers", G, first.key, first.fk, first.wk, first.fs, first.ws, vfc10.HashSlot(first.key)),
			map[string]interface{}{"cfg": c.Fields(), "key_hex": vfutil.Hex(first.key), "got_fk": first.fk, "want_fk": first.wk, "got_fs": first.fs, "want_fs": first.ws, "goroutines": G})
	}
}
