//go:build verif

// Package vfc20 (overlay-only, tag verif) is shared by the C20 and C04
// harnesses: a small RDB *writer* (specification side: strings, linked list,
// set, hash table, sorted set, expiry, several DBs, AUX, EOF + CRC64), the
// rendering of snapshot entries for the line protocol and a Go-side walker
// that classifies a byte string as inside/outside the opcode grammar of the
// Lean byte model (GunYu.Model.RdbFrame).
package vfc20

import (
	"bytes"
	"encoding/binary"
	"fmt"
	"strconv"
	"strings"

	"github.com/mgtv-tech/redis-GunYu/pkg/digest"
	"github.com/mgtv-tech/redis-GunYu/pkg/rdb"
	"github.com/mgtv-tech/redis-GunYu/pkg/vfutil"
)

// KV is one key of a generated snapshot.
type KV struct {
	DB       int
	Key      []byte
	Type     byte       // 0 string, 1 list, 2 set, 3 zset (ascii score), 4 hash
	ExpireAt uint64     // ms, 0 = none
	Str      []byte     // type 0
	Items    [][]byte   // list/set members; hash: field,value,…; zset: member,score,…
	IntEnc   bool       // type 0: write the value int-encoded when it fits
	Raw      []byte     // other types (e.g. 15 stream): the value bytes as they go on disk
	Ops      [][]string // other types: the native commands the value expands to (monitor's expectation)
}

func EncLen(n uint64) []byte {
	switch {
	case n < 64:
		return []byte{byte(n)}
	case n < 16384:
		return []byte{0x40 | byte(n>>8), byte(n)}
	case n <= 0xFFFFFFFF:
		b := []byte{0x80, 0, 0, 0, 0}
		binary.BigEndian.PutUint32(b[1:], uint32(n))
		return b
	}
	b := make([]byte, 9)
	b[0] = 0x81
	binary.BigEndian.PutUint64(b[1:], n)
	return b
}

func EncStr(s []byte) []byte {
	return append(EncLen(uint64(len(s))), s...)
}

func encIntStr(s []byte) ([]byte, bool) {
	n, err := strconv.ParseInt(string(s), 10, 64)
	if err != nil || strconv.FormatInt(n, 10) != string(s) {
		return nil, false
	}
	switch {
	case n >= -128 && n <= 127:
		return []byte{0xC0, byte(int8(n))}, true
	case n >= -32768 && n <= 32767:
		b := []byte{0xC1, 0, 0}
		binary.LittleEndian.PutUint16(b[1:], uint16(int16(n)))
		return b, true
	case n >= -2147483648 && n <= 2147483647:
		b := []byte{0xC2, 0, 0, 0, 0}
		binary.LittleEndian.PutUint32(b[1:], uint32(int32(n)))
		return b, true
	}
	return nil, false
}

// Options of the snapshot writer.
type Opts struct {
	Aux      bool // write AUX redis-ver / redis-bits
	ResizeDB bool
	Version  int    // header version (default 9)
	NoCRC    bool   // footer all zero ("checksum disabled")
	Lua      []byte // AUX field "lua" (a script the replay must SCRIPT LOAD)
}

// BuildRDB writes a valid snapshot. Keys are written in the given order, a
// SELECTDB whenever the DB changes.
func BuildRDB(kvs []KV, o Opts) []byte {
	var b bytes.Buffer
	v := o.Version
	if v == 0 {
		v = 9
	}
	fmt.Fprintf(&b, "REDIS%04d", v)
	if o.Aux {
		b.WriteByte(0xFA)
		b.Write(EncStr([]byte("redis-ver")))
		b.Write(EncStr([]byte("6.2.6")))
		b.WriteByte(0xFA)
		b.Write(EncStr([]byte("redis-bits")))
		b.Write([]byte{0xC0, 64})
	}
	if o.Lua != nil {
		b.WriteByte(0xFA)
		b.Write(EncStr([]byte("lua")))
		b.Write(EncStr(o.Lua))
	}
	cur := -1
	for i, kv := range kvs {
		if kv.DB != cur {
			cur = kv.DB
			b.WriteByte(0xFE)
			b.Write(EncLen(uint64(cur)))
			if o.ResizeDB {
				n, ne := 0, 0
				for _, x := range kvs[i:] {
					if x.DB != cur {
						break
					}
					n++
					if x.ExpireAt != 0 {
						ne++
					}
				}
				b.WriteByte(0xFB)
				b.Write(EncLen(uint64(n)))
				b.Write(EncLen(uint64(ne)))
			}
		}
		if kv.ExpireAt != 0 {
			b.WriteByte(0xFC)
			var e [8]byte
			binary.LittleEndian.PutUint64(e[:], kv.ExpireAt)
			b.Write(e[:])
		}
		b.WriteByte(kv.Type)
		b.Write(EncStr(kv.Key))
		switch kv.Type {
		case 0:
			if kv.Raw != nil {
				b.Write(kv.Raw)
				break
			}
			if kv.IntEnc {
				if e, ok := encIntStr(kv.Str); ok {
					b.Write(e)
					break
				}
			}
			b.Write(EncStr(kv.Str))
		case 1, 2:
			b.Write(EncLen(uint64(len(kv.Items))))
			for _, it := range kv.Items {
				b.Write(EncStr(it))
			}
		case 3:
			b.Write(EncLen(uint64(len(kv.Items) / 2)))
			for i := 0; i+1 < len(kv.Items); i += 2 {
				b.Write(EncStr(kv.Items[i]))
				b.WriteByte(byte(len(kv.Items[i+1])))
				b.Write(kv.Items[i+1])
			}
		case 4:
			b.Write(EncLen(uint64(len(kv.Items) / 2)))
			for _, it := range kv.Items {
				b.Write(EncStr(it))
			}
		default:
			if kv.Raw == nil {
				panic("vfc20: unsupported type")
			}
			b.Write(kv.Raw)
		}
	}
	b.WriteByte(0xFF)
	if o.NoCRC {
		b.Write(make([]byte, 8))
	} else {
		c := digest.New()
		c.Write(b.Bytes())
		var e [8]byte
		binary.LittleEndian.PutUint64(e[:], c.Sum64())
		b.Write(e[:])
	}
	return b.Bytes()
}

// ArgBytes converts an ExecCmd callback argument the way proto.Writer.WriteArg
// puts it on the wire.
func ArgBytes(v interface{}) []byte {
	switch x := v.(type) {
	case nil:
		return nil
	case string:
		return []byte(x)
	case []byte:
		return append([]byte(nil), x...)
	case int:
		return []byte(strconv.FormatInt(int64(x), 10))
	case int8:
		return []byte(strconv.FormatInt(int64(x), 10))
	case int16:
		return []byte(strconv.FormatInt(int64(x), 10))
	case int32:
		return []byte(strconv.FormatInt(int64(x), 10))
	case int64:
		return []byte(strconv.FormatInt(x, 10))
	case uint:
		return []byte(strconv.FormatUint(uint64(x), 10))
	case uint8:
		return []byte(strconv.FormatUint(uint64(x), 10))
	case uint16:
		return []byte(strconv.FormatUint(uint64(x), 10))
	case uint32:
		return []byte(strconv.FormatUint(uint64(x), 10))
	case uint64:
		return []byte(strconv.FormatUint(x, 10))
	case float32:
		return []byte(strconv.FormatFloat(float64(x), 'f', -1, 64))
	case float64:
		return []byte(strconv.FormatFloat(x, 'f', -1, 64))
	case bool:
		if x {
			return []byte("1")
		}
		return []byte("0")
	}
	return []byte(fmt.Sprint(v))
}

// Cmd is one expanded command: lower-cased name and its arguments.
type Cmd struct {
	Name string
	Args [][]byte
}

// Ent is a snapshot entry as the real loader produced it, flattened for the
// line protocol (the Lean models work on entries, not on bytes).
type Ent struct {
	DB         int
	Key        []byte
	OType      string // d data, m module, f function, a aux
	First      bool
	Splited    bool
	CanRestore bool
	DumpSize   int
	ExpireAt   uint64
	Idle       uint32
	Freq       uint8
	Dump       []byte
	Cmds       []Cmd
}

func b01(b bool) string {
	if b {
		return "1"
	}
	return "0"
}

// Render: db/key/otype/first/splited/canRestore/dumpSize/expireAt/idle/freq/dump/cmds
// cmds = "." or cmd{|cmd}, cmd = hexname{.hexarg}
func (e *Ent) Render(withDump bool) string {
	var cs []string
	for _, c := range e.Cmds {
		parts := []string{vfutil.HexS(c.Name)}
		for _, a := range c.Args {
			parts = append(parts, vfutil.Hex(a))
		}
		cs = append(cs, strings.Join(parts, "."))
	}
	cmds := "."
	if len(cs) > 0 {
		cmds = strings.Join(cs, "|")
	}
	dump := "-"
	if withDump {
		dump = vfutil.Hex(e.Dump)
	}
	return fmt.Sprintf("%d/%s/%s/%s/%s/%s/%d/%d/%d/%d/%s/%s", e.DB, vfutil.Hex(e.Key), e.OType, b01(e.First), b01(e.Splited),
		b01(e.CanRestore), e.DumpSize, e.ExpireAt, e.Idle, e.Freq, dump, cmds)
}

// ---------------------------------------------------------------- walker
//
// Supported reports whether the parse path of `f` stays inside the opcode
// grammar modelled by GunYu.Model.RdbFrame (header, AUX, SELECTDB, RESIZEDB,
// EXPIRETIME(_MS), IDLE, FREQ, SLOTINFO, FUNCTION2, EOF + footer, value types
// whose body is a string / a counted sequence of strings / (string,string)
// pairs / (string, 8 bytes) pairs; length forms 6/14/32/64 bit; strings raw and
// int8/16/32). It mirrors
// only the *classification* (supported / unsupported) of that model, never the
// accept/reject outcome: as soon as the walk meets an LZF string, a float, a
// stream, a module or module-aux it answers false; on any malformed or short
// input inside the grammar it answers true (the model decides the outcome).
// MaxVer: the highest snapshot version the parser under test accepts (the harness sets it from rdb.RdbVersion).
var MaxVer = 13

func Supported(f []byte) bool {
	w := &walker{b: f}
	return w.run()
}

// Classify: supported as above, plus whether running the REAL parser on `f`
// in-process is risky: a length field on the walked path asks for a buffer of
// more than 4 GiB, i.e. a 64-bit length form (Go's make() of an absurd size is a
// fatal, unrecoverable "out of memory"; up to 4 GiB the untouched allocation is
// harmless), or the walk left the modelled grammar and a 64-bit length marker
// follows somewhere.
func Classify(f []byte) (supported bool, risky bool) {
	w := &walker{b: f}
	supported = w.run()
	risky = w.maxAlloc > 1<<32
	if !supported {
		from := w.pos
		if from > len(f) {
			from = len(f)
		}
		if bytes.IndexByte(f[from:], 0x81) >= 0 {
			risky = true
		}
	}
	return
}

type walker struct {
	b        []byte
	pos      int
	bad      bool // malformed or short inside the grammar: supported, model decides
	uns      bool
	maxAlloc uint64 // largest buffer the real reader would make() on this path
}

func (w *walker) u8() byte {
	if w.bad || w.uns {
		return 0
	}
	if w.pos >= len(w.b) {
		w.bad = true
		return 0
	}
	c := w.b[w.pos]
	w.pos++
	return c
}

func (w *walker) skip(n uint64) {
	if w.bad || w.uns {
		return
	}
	if n > w.maxAlloc {
		w.maxAlloc = n
	}
	if uint64(len(w.b)-w.pos) < n {
		w.bad = true
		return
	}
	w.pos += int(n)
}

// encLen: (value, encoded)
func (w *walker) encLen() (uint64, bool) {
	u := w.u8()
	if w.bad || w.uns {
		return 0, false
	}
	switch u >> 6 {
	case 0:
		return uint64(u & 0x3f), false
	case 1:
		u2 := w.u8()
		return uint64(u&0x3f)<<8 | uint64(u2), false
	case 3:
		return uint64(u & 0x3f), true
	}
	switch u {
	case 0x80:
		if len(w.b)-w.pos < 4 {
			w.bad = true
			return 0, false
		}
		v := binary.BigEndian.Uint32(w.b[w.pos:])
		w.pos += 4
		return uint64(v), false
	case 0x81:
		if len(w.b)-w.pos < 8 {
			w.bad = true
			return 0, false
		}
		v := binary.BigEndian.Uint64(w.b[w.pos:])
		w.pos += 8
		return v, false
	}
	w.bad = true
	return 0, false
}

func (w *walker) length() uint64 {
	n, enc := w.encLen()
	if enc {
		w.bad = true
	}
	return n
}

func (w *walker) str() {
	n, enc := w.encLen()
	if w.bad || w.uns {
		return
	}
	if !enc {
		w.skip(n)
		return
	}
	switch n {
	case 0:
		w.skip(1)
	case 1:
		w.skip(2)
	case 2:
		w.skip(4)
	case 3:
		w.uns = true // LZF
	default:
		w.bad = true
	}
}

func (w *walker) run() bool {
	if len(w.b) < 9 {
		return true
	}
	// header problems are decided by the model: with a header that is refused (magic, version) nothing behind it is walked
	if !bytes.Equal(w.b[:5], []byte("REDIS")) {
		return true
	}
	if v, err := strconv.ParseInt(string(w.b[5:9]), 10, 64); err != nil || v <= 0 || v > int64(MaxVer) {
		return true
	}
	w.pos = 9
	for steps := 0; steps <= len(w.b); steps++ {
		t := w.u8()
		if w.bad {
			return true
		}
		if w.uns {
			return false
		}
		switch t {
		case 0xFF:
			return true
		case 0xFE, 0xF8:
			w.length()
		case 0xFB:
			w.length()
			w.length()
		case 0xFC:
			w.skip(8)
		case 0xFD:
			w.skip(4)
		case 0xF9:
			w.skip(1)
		case 0xF4:
			w.length()
			w.length()
			w.length()
		case 0xFA:
			w.str()
			w.str()
		case 0xF5:
			w.str()
		case 0xF7:
			return false
		case 0, 9, 10, 11, 12, 13, 16, 17, 20:
			w.str()
			w.str()
		case 1, 2, 14:
			w.str()
			n := w.length() & 0xFFFFFFFF
			for i := uint64(0); i < n && !w.bad && !w.uns; i++ {
				w.str()
			}
		case 18:
			w.str()
			n := w.length() & 0xFFFFFFFF
			for i := uint64(0); i < n && !w.bad && !w.uns; i++ {
				w.length()
				w.str()
			}
		case 4:
			w.str()
			n := w.length() & 0xFFFFFFFF
			for i := uint64(0); i < n && !w.bad && !w.uns; i++ {
				w.str()
				w.str()
			}
		case 5:
			w.str()
			n := w.length() & 0xFFFFFFFF
			for i := uint64(0); i < n && !w.bad && !w.uns; i++ {
				w.str()
				w.skip(8)
			}
		case 6:
			// key, then "does not support module type 1": the model rejects
			w.str()
			if w.uns {
				return false
			}
			return true
		case 3, 7, 15, 19, 21, 26:
			// text-float zset / module 2 / streams: outside the byte model. The key
			// string is read first; a malformed or short key is an error the model
			// reports, an LZF key is unsupported, otherwise unsupported.
			w.str()
			if w.bad {
				return true
			}
			return false
		default:
			return true // unknown type: the model rejects
		}
		if w.bad {
			return true
		}
		if w.uns {
			return false
		}
	}
	return true
}

// ---------------------------------------------------------------- real loader → entries

// Load runs the REAL rdb.Loader over a snapshot with the chunk threshold `thr`
// (0 = leave the production value) and returns the entries it produced.
func Load(rdbBytes []byte, thr int, ver string) (ents []*rdb.BinEntry, err error) {
	if thr > 0 {
		old := rdb.VerifSetMaxBinEntryBuffer(thr)
		defer rdb.VerifSetMaxBinEntryBuffer(old)
	}
	l := rdb.NewLoader(bytes.NewReader(rdbBytes), rdb.WithTargetRedisVersion(ver))
	if err = l.Header(); err != nil {
		return nil, err
	}
	for {
		e, err := l.Next()
		if err != nil {
			return ents, err
		}
		if e == nil {
			return ents, l.Footer()
		}
		ents = append(ents, e)
	}
}

// Flatten captures what the replay code can observe of an entry.
func Flatten(e *rdb.BinEntry) (out Ent) {
	out.DB = e.DB
	out.Key = append([]byte(nil), e.Key...)
	out.First = e.FirstBin()
	out.CanRestore = e.CanRestore()
	out.ExpireAt = e.ExpireAt
	out.Idle = e.IdleTime
	out.Freq = e.Freq
	out.OType = "d"
	if e.ObjectParser != nil {
		switch e.ObjectParser.Type() {
		case rdb.RdbObjectModule:
			out.OType = "m"
		case rdb.RdbObjectFunction:
			out.OType = "f"
		case rdb.RdbObjectAux:
			out.OType = "a"
		}
		out.Splited = e.ObjectParser.IsSplited()
		out.DumpSize = e.ObjectParser.ValueDumpSize()
		func() {
			defer func() { recover() }()
			e.ObjectParser.ExecCmd(func(cmd string, args ...interface{}) error {
				c := Cmd{Name: strings.ToLower(cmd)}
				for _, a := range args {
					c.Args = append(c.Args, ArgBytes(a))
				}
				out.Cmds = append(out.Cmds, c)
				return nil
			})
		}()
	}
	out.Dump = e.DumpValue()
	return out
}

// ValueBytes is the on-disk encoding of a KV's value as BuildRDB writes it
// (independent recomputation for the monitors: RESTORE payload = type ++ value
// ++ 06 00 ++ crc64).
func ValueBytes(kv KV) []byte {
	var b bytes.Buffer
	switch kv.Type {
	case 0:
		if kv.Raw != nil {
			return kv.Raw // a string written in a chosen encoding (LZF); Str is what it decodes to
		}
		if kv.IntEnc {
			if e, ok := encIntStr(kv.Str); ok {
				return e
			}
		}
		b.Write(EncStr(kv.Str))
	case 1, 2:
		b.Write(EncLen(uint64(len(kv.Items))))
		for _, it := range kv.Items {
			b.Write(EncStr(it))
		}
	case 3:
		b.Write(EncLen(uint64(len(kv.Items) / 2)))
		for i := 0; i+1 < len(kv.Items); i += 2 {
			b.Write(EncStr(kv.Items[i]))
			b.WriteByte(byte(len(kv.Items[i+1])))
			b.Write(kv.Items[i+1])
		}
	case 4:
		b.Write(EncLen(uint64(len(kv.Items) / 2)))
		for _, it := range kv.Items {
			b.Write(EncStr(it))
		}
	default:
		b.Write(kv.Raw)
	}
	return b.Bytes()
}

// lpInt / lpStr: one listpack element (small unsigned integer / short string) with its back-length
func lpInt(v int) []byte { return []byte{byte(v & 0x7f), 1} }
func lpStr(s string) []byte {
	return append(append([]byte{0x80 | byte(len(s))}, s...), byte(1+len(s)))
}

// SmallStream: a stream value in the RDB_TYPE_STREAM_LISTPACKS (15) layout — one
// listpack (master id 1000-0, master entry with the single field "f", two
// SAMEFIELDS entries 1000-1 {f v1} and 1005-0 {f v2}), length 2, last id
// 1005-0, no consumer groups — and the commands it expands to for a 7.x target.
func SmallStream(key string) KV { return SmallStreamG(key, "f", "") }

// SmallStreamF: SmallStream with the master entry's field name chosen (a name
// of >= 2 bytes puts printable bytes behind the num-fields element, which is
// what a damaged count needs to be read as a huge integer).
func SmallStreamF(key, field string) KV { return SmallStreamG(key, field, "") }

// SmallStreamG: SmallStreamF plus (group != "") one consumer group at the last
// id with one pending entry (1000-1, delivered once at time 5) owned by the
// consumer "c1": the expansion ends with XGROUP CREATE (key is the SECOND
// argument) and XCLAIM.
func SmallStreamG(key, field, group string) KV {
	var lp []byte
	for _, e := range [][]byte{lpInt(2), lpInt(0), lpInt(1), lpStr(field), lpInt(0),
		lpInt(2), lpInt(0), lpInt(1), lpStr("v1"), lpInt(4),
		lpInt(2), lpInt(5), lpInt(0), lpStr("v2"), lpInt(4)} {
		lp = append(lp, e...)
	}
	body := make([]byte, 6, 6+len(lp)+1)
	binary.LittleEndian.PutUint32(body[0:], uint32(6+len(lp)+1))
	binary.LittleEndian.PutUint16(body[4:], 15)
	body = append(append(body, lp...), 0xFF)
	master := make([]byte, 16)
	binary.BigEndian.PutUint64(master[0:], 1000)
	var raw bytes.Buffer
	raw.Write(EncLen(1))
	raw.Write(EncStr(master))
	raw.Write(EncStr(body))
	raw.Write(EncLen(2))    // length
	raw.Write(EncLen(1005)) // last id ms
	raw.Write(EncLen(0))    // last id seq
	ops := [][]string{
		{"xadd", key, "1000-1", field, "v1"},
		{"xadd", key, "1005-0", field, "v2"},
		{"xsetid", key, "1005-0", "ENTRIESADDED", "2", "MAXDELETEDID", "0-0"},
	}
	if group == "" {
		raw.Write(EncLen(0)) // consumer groups
	} else {
		id := make([]byte, 16)
		binary.BigEndian.PutUint64(id[0:], 1000)
		binary.BigEndian.PutUint64(id[8:], 1)
		raw.Write(EncLen(1))
		raw.Write(EncStr([]byte(group)))
		raw.Write(EncLen(1005))
		raw.Write(EncLen(0))
		raw.Write(EncLen(1)) // global PEL
		raw.Write(id)
		raw.Write([]byte{5, 0, 0, 0, 0, 0, 0, 0}) // delivery time
		raw.Write(EncLen(1))                      // delivery count
		raw.Write(EncLen(1))                      // consumers
		raw.Write(EncStr([]byte("c1")))
		raw.Write(make([]byte, 8)) // seen time
		raw.Write(EncLen(1))       // consumer PEL
		raw.Write(id)
		ops = append(ops,
			[]string{"xgroup", "CREATE", key, group, "1005-0", "ENTRIESREAD", "2"},
			[]string{"xclaim", key, group, "c1", "0", "1000-1", "TIME", "5", "RETRYCOUNT", "1", "JUSTID", "FORCE"})
	}
	return KV{Key: []byte(key), Type: 15, Raw: raw.Bytes(), Ops: ops}
}

// SmallStreamX (C04): SmallStreamG("…","field","g") with a third entry that carries its OWN field list (flags 0:
// entry-num-fields, field, value) — the decoder's second count-driven loop — and the group at the last id.
func SmallStreamX(key string) KV {
	var lp []byte
	for _, e := range [][]byte{lpInt(3), lpInt(0), lpInt(1), lpStr("field"), lpInt(0),
		lpInt(2), lpInt(0), lpInt(1), lpStr("v1"), lpInt(4),
		lpInt(2), lpInt(5), lpInt(0), lpStr("v2"), lpInt(4),
		lpInt(0), lpInt(7), lpInt(0), lpInt(1), lpStr("g2"), lpStr("v3"), lpInt(6)} {
		lp = append(lp, e...)
	}
	body := make([]byte, 6, 6+len(lp)+1)
	binary.LittleEndian.PutUint32(body[0:], uint32(6+len(lp)+1))
	binary.LittleEndian.PutUint16(body[4:], 22)
	body = append(append(body, lp...), 0xFF)
	master := make([]byte, 16)
	binary.BigEndian.PutUint64(master[0:], 1000)
	id := make([]byte, 16)
	binary.BigEndian.PutUint64(id[0:], 1000)
	binary.BigEndian.PutUint64(id[8:], 1)
	var raw bytes.Buffer
	raw.Write(EncLen(1))
	raw.Write(EncStr(master))
	raw.Write(EncStr(body))
	raw.Write(EncLen(3))    // length
	raw.Write(EncLen(1007)) // last id
	raw.Write(EncLen(0))
	raw.Write(EncLen(1)) // groups
	raw.Write(EncStr([]byte("g")))
	raw.Write(EncLen(1007))
	raw.Write(EncLen(0))
	raw.Write(EncLen(1)) // global PEL
	raw.Write(id)
	raw.Write([]byte{5, 0, 0, 0, 0, 0, 0, 0})
	raw.Write(EncLen(1))
	raw.Write(EncLen(1)) // consumers
	raw.Write(EncStr([]byte("c1")))
	raw.Write(make([]byte, 8))
	raw.Write(EncLen(1))
	raw.Write(id)
	return KV{Key: []byte(key), Type: 15, Raw: raw.Bytes(), Ops: [][]string{
		{"xadd", key, "1000-1", "field", "v1"},
		{"xadd", key, "1005-0", "field", "v2"},
		{"xadd", key, "1007-0", "g2", "v3"},
		{"xsetid", key, "1007-0", "ENTRIESADDED", "3", "MAXDELETEDID", "0-0"},
		{"xgroup", "CREATE", key, "g", "1007-0", "ENTRIESREAD", "3"},
		{"xclaim", key, "g", "c1", "0", "1000-1", "TIME", "5", "RETRYCOUNT", "1", "JUSTID", "FORCE"},
	}}
}

// ModuleValue: a value of a module type (RDB type 7, module id written as a
// 64-bit length, one unsigned and one string field, EOF opcode): replayable
// through RESTORE only.
func ModuleValue(key string) KV {
	raw := []byte{0x81, 0x4d, 0x79, 0x6d, 0x6f, 0x64, 0x2d, 0x61, 0x01} // module id
	raw = append(raw, EncLen(2)...)
	raw = append(raw, EncLen(42)...)
	raw = append(raw, EncLen(5)...)
	raw = append(raw, EncStr([]byte("mv"))...)
	raw = append(raw, EncLen(0)...)
	return KV{Key: []byte(key), Type: 7, Raw: raw}
}

// DumpPayload: what DUMP/RESTORE carry for the value.
func DumpPayload(kv KV) []byte {
	var b bytes.Buffer
	b.WriteByte(kv.Type)
	b.Write(ValueBytes(kv))
	b.Write([]byte{6, 0})
	c := digest.New()
	c.Write(b.Bytes())
	var e [8]byte
	binary.LittleEndian.PutUint64(e[:], c.Sum64())
	b.Write(e[:])
	return b.Bytes()
}

// LZFString: a string key whose value is `n` times the byte c (n >= 4), written
// LZF-compressed (one literal, one back-reference) as Redis does for
// compressible strings.
func LZFString(key string, c byte, n int) KV {
	l := n - 1 - 2 // back-reference of n-1 bytes
	var comp []byte
	if l < 7 {
		comp = []byte{0, c, byte(l << 5), 0}
	} else {
		comp = []byte{0, c, 7 << 5, byte(l - 7), 0}
	}
	raw := append([]byte{0xC3}, EncLen(uint64(len(comp)))...)
	raw = append(raw, EncLen(uint64(n))...)
	raw = append(raw, comp...)
	return KV{Key: []byte(key), Type: 0, Str: bytes.Repeat([]byte{c}, n), Raw: raw}
}
