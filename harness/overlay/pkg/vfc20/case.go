//go:build verif

package vfc20

// C20 cases shared by the pkg/rdbrestore harness (RdbReplay.Replay called
// directly) and the syncer harness (rdbReplay / rdbReplayBisync worker loops):
// case description, generators, line-protocol rendering and the property
// monitor (independent Go oracle).

import (
	"bytes"
	"encoding/json"
	"fmt"
	"reflect"
	"sort"
	"strconv"
	"strings"
	"time"

	"github.com/mgtv-tech/redis-GunYu/config"
	"github.com/mgtv-tech/redis-GunYu/pkg/rdb"
	"github.com/mgtv-tech/redis-GunYu/pkg/redis/checkpoint"
	"github.com/mgtv-tech/redis-GunYu/pkg/vfdoubles"
	"github.com/mgtv-tech/redis-GunYu/pkg/vfutil"
)

// BubbleNowMs: the synctest epoch 2000-01-01T00:00:00Z plus 137 ms — every
// bubble calls SettleClock first, so that the code's time.Now() is NOT a whole
// second (second-granular clock arithmetic would otherwise be unobservable).
const BubbleNowMs = 946684800137

// SettleClock advances the bubble's virtual clock to BubbleNowMs.
func SettleClock() {
	if d := BubbleNowMs - time.Now().UnixMilli(); d > 0 {
		time.Sleep(time.Duration(d) * time.Millisecond)
	}
}

type KVSpec struct {
	DB    int      `json:"db,omitempty"`
	Key   string   `json:"key"` // hex
	Type  int      `json:"type"`
	Exp   int      `json:"exp"` // 0 none, 1 past, 2 future
	Str   string   `json:"str,omitempty"`
	Items []string `json:"items,omitempty"` // hex
	Group string   `json:"group,omitempty"` // Type 15 (stream): consumer group name ("" none)
}

type Pre struct {
	DB   int    `json:"db,omitempty"`
	Key  string `json:"key"`  // hex
	Kind string `json:"kind"` // string|list|hash|set|zset|restored
	TTL  int64  `json:"ttl"`  // ms, 0 = none
}

type Case struct {
	Mode    string   `json:"mode"` // plain | wplain | bisync
	Pol     string   `json:"pol"`  // replace|ignore|error
	Restore bool     `json:"restore"`
	Thr     int      `json:"thr"` // chunk threshold (bytes), 0 = production
	MaxBulk int      `json:"maxbulk"`
	Ver     string   `json:"ver"`
	KVs     []KVSpec `json:"kvs"`
	Pre     []Pre    `json:"pre"`
	// PolRaw: the policy string as configured ("" unless UseRaw); the real code
	// gets config.ReplayConfig.fix(PolRaw).KeyExists, model and monitor get Pol
	// (what the documentation promises for that string)
	PolRaw string `json:"polraw,omitempty"`
	UseRaw bool   `json:"useraw,omitempty"`
	// Bad: keys (hex) whose RESTORE the target answers with "Bad data format"
	Bad []string `json:"bad,omitempty"`
	// Log: keyExistsLog on
	Log bool `json:"log,omitempty"`
	// Window (bisync, restore): a client creates this key (hex) between the
	// EXISTS probe and the unit's MULTI/EXEC
	Window string `json:"window,omitempty"`
	// Parallel > 0: mode "send" runs the real SendRdb with that many workers
	Parallel int `json:"parallel,omitempty"`
	// HashTag: replaceHashTag on — the target key is the snapshot key without its
	// first "{" and first "}"; Pre keys are TARGET keys
	HashTag bool `json:"hashtag,omitempty"`
	// Gate > 0 (mode send): the source delivers the first Gate bytes of the
	// snapshot, everything goes quiescent (the workers replay what was parsed),
	// then the rest arrives — a slow source, deterministically
	Gate int `json:"gate,omitempty"`
	// Cut > 0: a first attempt replays the first Cut entries and ends there (died / cancelled / failed); what is
	// observed is the RESTART: a fresh worker replays the whole snapshot on the target the first attempt left.
	Cut int `json:"cut,omitempty"`
	// Interleave (mode plain): the parser and the replayer alternate — entry n+1
	// is parsed only after entry n was replayed (a legal schedule of the two
	// goroutines of sendRdb; the default harness order parses everything first)
	Interleave bool `json:"interleave,omitempty"`
	// TDB > 0: output TargetDb = TDB-1 (every source DB goes there); DBMap: TargetDbMap
	// (source DB → target DB). Pre DBs are TARGET DBs.
	TDB   int      `json:"tdb,omitempty"`
	DBMap [][2]int `json:"dbmap,omitempty"`
	// output filter: FDB = DB black list (SOURCE DBs), FPre = key prefix black list (hex, SOURCE keys).
	// A filtered entry must touch nothing; a filtered key in a new DB still costs the SELECT.
	FDB  []int    `json:"fdb,omitempty"`
	FPre []string `json:"fpre,omitempty"`
	// back-pressure (mode send): PipeSize > 0 = config.RdbPipeSize for the run (the worker pipes hold PipeSize / Parallel
	// entries, at least 1); Slow > 0 = the target answers every request after Slow ms (virtual): the pipes are full
	// while the distributor sends
	PipeSize int `json:"pipesize,omitempty"`
	Slow     int `json:"slow,omitempty"`
	// dimension audit (session 5): FaultAt > 0 = the request number FaultAt of the run (1-based, counted after the seeds) meets a
	// fault of FaultKind: "err" = the target answers an error that is neither BUSYKEY nor "Bad data format"; "drop" = the target
	// closes the connection instead of executing it; "lose" = it executes the request and closes the connection without the reply
	FaultAt   int    `json:"faultat,omitempty"`
	FaultKind string `json:"faultkind,omitempty"`
	// Tick: the target's clock FOLLOWS the bubble clock (with Slow > 0 time passes between the requests): keys expire on the
	// target DURING the run, every entry computes its TTL at a later `now`
	Tick bool `json:"tick,omitempty"`
}

// ReservedPrefixes: key prefixes every output filters (NewRedisOutput: checkpoint and namespace keys; the bisync control keys).
func ReservedPrefixes() []string {
	return []string{config.CheckpointKey, config.NamespacePrefixKey, checkpoint.BisyncKeyPrefix + ":"}
}

// Filtered: what the configuration documents for the output filter (the harness's reading, independent of pkg/filter).
func (c *Case) Filtered(db int, key []byte) bool {
	for _, d := range c.FDB {
		if d == db {
			return true
		}
	}
	for _, p := range ReservedPrefixes() {
		if strings.HasPrefix(string(key), p) {
			return true
		}
	}
	for _, p := range c.FPre {
		if strings.HasPrefix(string(key), string(vfutil.UnHex(p))) {
			return true
		}
	}
	// bidirectional snapshot replay with replaceHashTag (/repo f9044ee): an entry whose TARGET key lies in one of the
	// tool's own namespaces is withheld like a control key found in the snapshot
	if c.TargetReserved() {
		for _, p := range ReservedPrefixes() {
			if strings.HasPrefix(string(c.TKey(key)), p) {
				return true
			}
		}
	}
	return false
}

// TargetReserved: the worker loops also ask the reserved prefixes of the key an entry is replayed TO (replaceHashTag on):
// rdbReplayBisync since /repo f9044ee, rdbReplay since /repo e867911. Modes: "wplain" / "send" run rdbReplay, "bisync" /
// "sendbisync" run rdbReplayBisync; "plain" is rdbrestore.RdbReplay.Replay called directly - no loop, no filter.
func (c *Case) TargetReserved() bool {
	// … and, since the plain-path repair /repo e867911 (session 5, C13 owner), rdbReplay too: every mode that goes through a
	// worker loop of the syncer; only "plain" (rdbrestore.Replay called directly, no worker loop) does not ask
	return c.HashTag && c.Mode != "plain"
}

func (c *Case) tresTok() string {
	if !c.TargetReserved() {
		return ""
	}
	var ps []string
	for _, p := range ReservedPrefixes() {
		ps = append(ps, vfutil.HexS(p))
	}
	return " tres=" + strings.Join(ps, ",")
}

// Cell: the target cell a snapshot key is replayed to.
func (c *Case) Cell(k KVSpec) DK {
	return DK{c.TDBOf(k.DB), string(c.TKey(vfutil.UnHex(k.Key)))}
}

// Collides: two snapshot keys that pass the filter are replayed to ONE target cell (TargetDb / a non-injective
// TargetDbMap with one key name in two source DBs, `{a}b` + `ab` under replaceHashTag, a key twice in one DB).
func (c *Case) Collides() bool {
	seen := map[DK]bool{}
	for _, k := range c.KVs {
		if c.Filtered(k.DB, vfutil.UnHex(k.Key)) {
			continue
		}
		if seen[c.Cell(k)] {
			return true
		}
		seen[c.Cell(k)] = true
	}
	return false
}

// CollisionCells: target cells that more than one snapshot key (passing the filter) is replayed to.
func (c *Case) CollisionCells() map[DK]bool {
	n := map[DK]int{}
	for _, k := range c.KVs {
		if !c.Filtered(k.DB, vfutil.UnHex(k.Key)) {
			n[c.Cell(k)]++
		}
	}
	out := map[DK]bool{}
	for k, v := range n {
		if v > 1 {
			out[k] = true
		}
	}
	return out
}

// Simple: the sequential oracle (CheckSeq / CheckCells) applies: no injected faults, no module values, no restart.
func (c *Case) Simple() bool {
	if len(c.Bad) > 0 || c.Window != "" || c.Cut > 0 {
		return false
	}
	for _, k := range c.KVs {
		if k.Type == 7 {
			return false
		}
	}
	return true
}

// TDBOf: the target DB of a source DB (RedisOutput.selectDB).
func (c *Case) TDBOf(db int) int {
	if c.TDB > 0 {
		return c.TDB - 1
	}
	for _, m := range c.DBMap {
		if m[0] == db {
			return m[1]
		}
	}
	return db
}

func (c *Case) DBMapGo() map[int]int {
	if len(c.DBMap) == 0 {
		return nil
	}
	m := map[int]int{}
	for _, p := range c.DBMap {
		m[p[0]] = p[1]
	}
	return m
}

// TKey: the key a snapshot key is replayed to.
func (c *Case) TKey(key []byte) []byte {
	if !c.HashTag {
		return key
	}
	k := bytes.Replace(key, []byte("{"), []byte(""), 1)
	return bytes.Replace(k, []byte("}"), []byte(""), 1)
}

// TargetKVs: the snapshot's keys as they are expected on the target.
func (c *Case) TargetKVs() []KV {
	var out []KV
	for i, kv := range c.KVList() {
		if c.Filtered(kv.DB, kv.Key) {
			continue // never replayed
		}
		out = append(out, c.TargetKV(i, kv))
	}
	return out
}

// TargetKV: snapshot key i as it is expected on the target.
func (c *Case) TargetKV(i int, kv KV) KV {
	kv.Key = c.TKey(kv.Key)
	kv.DB = c.TDBOf(kv.DB)
	if kv.Type == 15 {
		kv.Ops = streamOpsFor(SmallStreamG(string(kv.Key), "field", c.KVs[i].Group).Ops, c.Ver) // the commands name the key
	}
	return kv
}

// NormalPolicy: what the configuration documents for a policy string.
func NormalPolicy(raw string) string {
	switch strings.ToLower(raw) {
	case "ignore":
		return "ignore"
	case "error":
		return "error"
	}
	return "replace"
}

// RealPol: the policy string the code under test is configured with — through
// the REAL config.ReplayConfig.fix when the case carries a raw string.
func (c *Case) RealPol() (string, error) {
	if !c.UseRaw {
		return c.Pol, nil
	}
	rc := config.ReplayConfig{KeyExists: c.PolRaw}
	err := config.VerifFixReplay(&rc)
	return rc.KeyExists, err
}

func (c *Case) IsBad(key []byte) bool {
	for _, b := range c.Bad {
		if string(vfutil.UnHex(b)) == string(key) {
			return true
		}
	}
	return false
}

func (c *Case) JSON() string {
	b, _ := json.Marshal(c)
	return string(b)
}

func (c *Case) Replay() map[string]interface{} {
	return map[string]interface{}{"case": c.JSON()}
}

func ExpireAtOf(code int) uint64 {
	switch code {
	case 1:
		return 1000 // long past
	case 2:
		return BubbleNowMs + 3600_123
	case 3:
		return BubbleNowMs // the boundary: expireAt == the replaying tool's now (the bubble clock stands still while no one sleeps)
	case 4:
		return BubbleNowMs + 1 // 1 ms ahead
	case 5:
		return BubbleNowMs - 1 // 1 ms past
	}
	if code >= 10 && code < 100 {
		return BubbleNowMs + uint64(code-10) // a few ms ahead: expires WHILE the value is being replayed (Tick)
	}
	return 0
}

// ExhaustiveEmpty: a collection with NO element (length 0 in the file: a linked list, a set, a hash table - Redis does not
// save one, older versions and other writers could): the real loader delivers one entry whose expansion is EMPTY.
func ExhaustiveEmpty(mode string) []*Case {
	var out []*Case
	for _, ty := range []int{1, 2, 4} {
		for _, pol := range []string{"replace", "ignore", "error"} {
			for _, restore := range []bool{false, true} {
				for _, exp := range []int{0, 2} {
					for _, held := range []int{0, 1} {
						c := &Case{Mode: mode, Pol: pol, Restore: restore, MaxBulk: 1 << 29, Ver: "7.0.0",
							KVs: []KVSpec{{Key: vfutil.HexS("a"), Type: 0, Str: vfutil.HexS("1")}, {Key: vfutil.HexS("em"), Type: ty, Exp: exp},
								{Key: vfutil.HexS("z"), Type: 0, Str: vfutil.HexS("2")}}}
						if held == 1 {
							c.Pre = []Pre{{Key: vfutil.HexS("em"), Kind: "string", TTL: 60000}}
						}
						out = append(out, c)
					}
				}
			}
		}
	}
	return out
}

// ExhaustiveExpiry: the boundary of `now >= e.ExpireAt → ttl 1 ms` on both paths (RESTORE ttl argument / PEXPIRE after the
// expansion), one and several chunks, every policy, key held (with its own TTL) or not: expireAt = now, now + 1, now - 1.
func ExhaustiveExpiry(mode string) []*Case {
	var out []*Case
	for _, exp := range []int{3, 4, 5} {
		for _, pol := range []string{"replace", "ignore", "error"} {
			for _, restore := range []bool{false, true} {
				for _, ty := range []int{0, 4} {
					for _, held := range []int{0, 1, 2} {
						kv := KVSpec{Key: vfutil.HexS("xk"), Type: ty, Exp: exp}
						thr := 0
						if ty == 0 {
							kv.Str = vfutil.HexS("val")
						} else {
							kv.Items = []string{vfutil.HexS("f1"), vfutil.HexS("v1"), vfutil.HexS("f2"), vfutil.HexS("v2"), vfutil.HexS("f3"), vfutil.HexS("v3")}
							if !restore {
								thr = 1
							}
						}
						c := &Case{Mode: mode, Pol: pol, Restore: restore, Thr: thr, MaxBulk: 1 << 29, Ver: "7.0.0", KVs: []KVSpec{kv}}
						switch held {
						case 1:
							c.Pre = []Pre{{Key: vfutil.HexS("xk"), Kind: "string"}}
						case 2:
							c.Pre = []Pre{{Key: vfutil.HexS("xk"), Kind: "hash", TTL: 60000}}
						}
						out = append(out, c)
					}
				}
			}
		}
	}
	return out
}

func (c *Case) KVList() []KV {
	var out []KV
	for _, k := range c.KVs {
		kv := KV{DB: k.DB, Key: vfutil.UnHex(k.Key), Type: byte(k.Type), ExpireAt: ExpireAtOf(k.Exp), Str: vfutil.UnHex(k.Str)}
		for _, it := range k.Items {
			kv.Items = append(kv.Items, vfutil.UnHex(it))
		}
		if k.Type == 7 {
			kv.Raw, kv.Str = ModuleValue(string(kv.Key)).Raw, nil
		}
		if k.Type == 15 {
			g := SmallStreamG(string(kv.Key), "field", k.Group)
			kv.Raw, kv.Ops, kv.Str = g.Raw, streamOpsFor(g.Ops, c.Ver), nil
		}
		out = append(out, kv)
	}
	return out
}

// streamOpsFor: a target older than 7 is not sent the 7.0 arguments (XSETID … ENTRIESADDED / MAXDELETEDID, XGROUP … ENTRIESREAD).
func streamOpsFor(ops [][]string, ver string) [][]string {
	if ver == "" || ver >= "7" {
		return ops
	}
	var out [][]string
	for _, op := range ops {
		switch op[0] {
		case "xsetid":
			op = op[:3]
		case "xgroup":
			op = op[:5]
		}
		out = append(out, op)
	}
	return out
}

func SeedPre(tg *vfdoubles.Target, p Pre) {
	k := string(vfutil.UnHex(p.Key))
	switch p.Kind {
	case "string":
		tg.Seed(p.DB, "set", k, "OLD-string")
	case "list":
		tg.Seed(p.DB, "rpush", k, "OLD-a", "OLD-b")
	case "hash":
		tg.Seed(p.DB, "hset", k, "OLD-f", "OLD-v")
	case "set":
		tg.Seed(p.DB, "sadd", k, "OLD-m")
	case "zset":
		tg.Seed(p.DB, "zadd", k, "7", "OLD-z")
	case "restored":
		tg.Seed(p.DB, "restore", k, "0", "OLD-payload")
	}
	if p.TTL > 0 {
		tg.Seed(p.DB, "pexpire", k, strconv.FormatInt(p.TTL, 10))
	}
}

func CloneVal(v *vfdoubles.Val) *vfdoubles.Val {
	if v == nil {
		return nil
	}
	c := *v
	c.Str = append([]byte(nil), v.Str...)
	if v.Hash != nil {
		c.Hash = map[string][]byte{}
		for k, x := range v.Hash {
			c.Hash[k] = append([]byte(nil), x...)
		}
	}
	c.HOrder = append([]string(nil), v.HOrder...)
	if v.ZSet != nil {
		c.ZSet = map[string]float64{}
		for k, x := range v.ZSet {
			c.ZSet[k] = x
		}
	}
	c.Ops = nil
	for _, o := range v.Ops {
		c.Ops = append(c.Ops, append([]string(nil), o...))
	}
	return &c
}

func SameVal(a, b *vfdoubles.Val) bool {
	if a == nil || b == nil {
		return a == b
	}
	norm := func(v *vfdoubles.Val) *vfdoubles.Val {
		c := CloneVal(v)
		if len(c.Str) == 0 {
			c.Str = nil
		}
		if len(c.HOrder) == 0 {
			c.HOrder = nil
		}
		if len(c.Ops) == 0 {
			c.Ops = nil
		}
		if len(c.Hash) == 0 {
			c.Hash = nil
		}
		if len(c.ZSet) == 0 {
			c.ZSet = nil
		}
		return c
	}
	return reflect.DeepEqual(norm(a), norm(b))
}

func sameValNoExp(a, b *vfdoubles.Val) bool {
	x, y := CloneVal(a), CloneVal(b)
	x.ExpireAt, y.ExpireAt = 0, 0
	return SameVal(x, y)
}

// ErrEnum maps the replay error to the protocol's enum and extracts the key
// the message names.
func ErrEnum(err error) (string, string) {
	if err == nil {
		return "ok", ""
	}
	m := err.Error()
	key := ""
	if i := strings.LastIndex(m, " : "); i >= 0 {
		key = m[i+3:]
	}
	switch {
	case strings.HasPrefix(m, "output key exist"):
		return "err-exists", key
	case strings.HasPrefix(m, "rdb module object requires RESTORE"):
		return "err-module", ""
	case strings.Contains(m, "Bad data format"):
		return "err-bad", ""
	}
	return "err-other", ""
}

type DK struct {
	DB  int
	Key string
}

// Run is what one execution of the real code produced.
type Run struct {
	Bins    []*rdb.BinEntry
	Ents    []Ent
	Log     []vfdoubles.LogEntry // after the seeds
	EntEnd  []int                // plain mode: log length after entry j
	Errs    []string             // plain mode: outcome per replayed entry
	Final   string               // outcome of the whole worker
	FailKey string
	ErrText string
	Before  map[DK]*vfdoubles.Val
	After   map[DK]*vfdoubles.Val
	Orig    map[DK]*vfdoubles.Val // Cut > 0: the target before the FIRST attempt (Before = what the restart finds)
	LoadErr error
	// BinKeyChanged: interleaved mode, a later bin arrived with another key than the first one
	BinKeyChanged string
}

// Prepare builds the snapshot, runs the REAL loader and flattens the entries.
func (c *Case) Prepare() *Run {
	res := &Run{Before: map[DK]*vfdoubles.Val{}, After: map[DK]*vfdoubles.Val{}}
	rdbBytes := BuildRDB(c.KVList(), Opts{Aux: true})
	bins, err := Load(rdbBytes, c.Thr, c.Ver)
	if err != nil {
		res.LoadErr = err
		return res
	}
	res.Bins = bins
	for _, e := range bins {
		res.Ents = append(res.Ents, Flatten(e))
	}
	return res
}

func (c *Case) Keys() []DK {
	m := map[DK]bool{}
	for _, k := range c.KVs {
		m[DK{c.TDBOf(k.DB), string(c.TKey(vfutil.UnHex(k.Key)))}] = true
		if c.HashTag {
			m[DK{c.TDBOf(k.DB), string(vfutil.UnHex(k.Key))}] = true // nothing may appear under the unrewritten key
		}
		if c.TDBOf(k.DB) != k.DB {
			m[DK{k.DB, string(c.TKey(vfutil.UnHex(k.Key)))}] = true // nothing may appear in the unmapped DB
		}
		if c.Filtered(k.DB, vfutil.UnHex(k.Key)) {
			m[DK{k.DB, string(vfutil.UnHex(k.Key))}] = true // nothing of a filtered key may appear anywhere
		}
	}
	for _, p := range c.Pre {
		m[DK{p.DB, string(vfutil.UnHex(p.Key))}] = true
	}
	var out []DK
	for k := range m {
		out = append(out, k)
	}
	sort.Slice(out, func(i, j int) bool {
		if out[i].DB != out[j].DB {
			return out[i].DB < out[j].DB
		}
		return out[i].Key < out[j].Key
	})
	return out
}

func (r *Run) Snapshot(tg *vfdoubles.Target, c *Case, into map[DK]*vfdoubles.Val) {
	for _, k := range c.Keys() {
		into[k] = CloneVal(tg.Get(k.DB, k.Key))
	}
}

func finalLine(before, after *vfdoubles.Val) string {
	if after == nil {
		return "absent"
	}
	if before != nil && sameValNoExp(before, after) {
		return fmt.Sprintf("old:%d", after.ExpireAt)
	}
	kind := "n"
	if after.Kind == "data:restored" {
		kind = "r"
	}
	return fmt.Sprintf("new:%s:%d", kind, after.ExpireAt)
}

func isMarker(e vfdoubles.LogEntry) bool {
	return e.Cmd() == "set" && len(e.Args) >= 2 && strings.Contains(string(e.Args[1]), ":marker:{")
}

func renderReq(e vfdoubles.LogEntry) string {
	if isMarker(e) {
		return "marker"
	}
	return e.String()
}

// OpLine: the op line `<name> tag=<idx> … ents=…` of a case for the Lean driver (mode as given) and the cells it asks for.
func OpLine(name string, idx int, c *Case, r *Run, mode string) (string, []DK) {
	var ents []string
	for _, e := range r.Ents {
		ents = append(ents, e.Render(c.Restore))
	}
	var pre []string
	for _, p := range c.Pre {
		exp := int64(0)
		if p.TTL > 0 {
			exp = BubbleNowMs + p.TTL
		}
		pre = append(pre, fmt.Sprintf("%d:%s:%d", p.DB, p.Key, exp))
	}
	join := func(xs []string, sep string) string {
		if len(xs) == 0 {
			return "."
		}
		return strings.Join(xs, sep)
	}
	ver5 := "0"
	if c.Ver >= "5" {
		ver5 = "1"
	}
	ks := c.Keys()
	var fin []string
	for _, k := range ks {
		fin = append(fin, fmt.Sprintf("%d:%s", k.DB, vfutil.HexS(k.Key)))
	}
	rht := ""
	if c.HashTag {
		rht = " rht=1"
	}
	if c.TDB > 0 {
		rht += fmt.Sprintf(" tdb=%d", c.TDB-1)
	}
	if c.Cut > 0 {
		rht += fmt.Sprintf(" cut=%d", c.Cut)
	}
	if len(c.DBMap) > 0 {
		var ms []string
		for _, m := range c.DBMap {
			ms = append(ms, fmt.Sprintf("%d:%d", m[0], m[1]))
		}
		rht += " dbmap=" + strings.Join(ms, ",")
	}
	if len(c.FDB) > 0 {
		var ds []string
		for _, d := range c.FDB {
			ds = append(ds, strconv.Itoa(d))
		}
		rht += " fdb=" + strings.Join(ds, ",")
	}
	{
		var ps []string
		for _, p := range ReservedPrefixes() {
			ps = append(ps, vfutil.HexS(p))
		}
		rht += " fpre=" + strings.Join(append(ps, c.FPre...), ",")
	}
	rht += c.tresTok()
	op := fmt.Sprintf(name+" tag=%d"+rht+" mode=%s pol=%s restore=%s maxbulk=%d ver5=%s now=%d pre=%s bad=%s fin=%s ents=%s", idx, mode, c.Pol[:1],
		b01(c.Restore), c.MaxBulk, ver5, int64(BubbleNowMs), join(pre, ","), join(c.Bad, ","), join(fin, ","), join(ents, ";"))
	return op, ks
}

// Emit writes the op line and the implementation's answer lines.
func Emit(s *vfutil.Session, idx int, c *Case, r *Run) {
	op, ks := OpLine("c20", idx, c, r, c.Mode)
	var out []string
	li := 0
	if c.Mode == "plain" {
		for j, end := range r.EntEnd {
			for ; li < end; li++ {
				out = append(out, fmt.Sprintf("#%d q %s", idx, renderReq(r.Log[li])))
			}
			out = append(out, fmt.Sprintf("#%d e%d %s", idx, j, r.Errs[j]))
		}
	}
	for ; li < len(r.Log); li++ {
		out = append(out, fmt.Sprintf("#%d q %s", idx, renderReq(r.Log[li])))
	}
	out = append(out, fmt.Sprintf("#%d r %s", idx, r.Final))
	for _, k := range ks {
		out = append(out, fmt.Sprintf("#%d f %d %s %s", idx, k.DB, vfutil.HexS(k.Key), finalLine(r.Before[k], r.After[k])))
	}
	s.Op(op, out...)
}

// expected value of a snapshot key on the target, from the generator's spec
// (never from the code under test)
func ExpectVal(kv KV, viaRestore bool, now int64) *vfdoubles.Val {
	// a collection without elements does not exist in Redis: replayed with native commands (none), the key is ABSENT
	// afterwards - whatever it held before under replace (the snapshot's value is "no value")
	if !viaRestore && kv.Type >= 1 && kv.Type <= 4 && len(kv.Items) == 0 && len(kv.Raw) == 0 {
		return nil
	}
	v := &vfdoubles.Val{}
	if kv.ExpireAt != 0 {
		if int64(kv.ExpireAt) <= now {
			v.ExpireAt = now + 1
		} else {
			v.ExpireAt = int64(kv.ExpireAt)
		}
	}
	if viaRestore {
		v.Kind = "data:restored"
		v.Str = DumpPayload(kv)
		return v
	}
	k := string(kv.Key)
	switch kv.Type {
	case 0:
		v.Kind = "string"
		v.Str = kv.Str
	case 1:
		v.Kind = "data:list"
		for _, it := range kv.Items {
			v.Ops = append(v.Ops, []string{"rpush", k, string(it)})
		}
	case 2:
		v.Kind = "data:set"
		for _, it := range kv.Items {
			v.Ops = append(v.Ops, []string{"sadd", k, string(it)})
		}
	case 3:
		v.Kind = "zset"
		v.ZSet = map[string]float64{}
		for i := 0; i+1 < len(kv.Items); i += 2 {
			f, _ := strconv.ParseFloat(string(kv.Items[i+1]), 64)
			v.ZSet[string(kv.Items[i])] = f
		}
	case 4:
		v.Kind = "hash"
		v.Hash = map[string][]byte{}
		for i := 0; i+1 < len(kv.Items); i += 2 {
			f := string(kv.Items[i])
			if _, ok := v.Hash[f]; !ok {
				v.HOrder = append(v.HOrder, f)
			}
			v.Hash[f] = kv.Items[i+1]
		}
	case 15:
		v.Kind = "data:stream"
		for _, op := range kv.Ops {
			v.Ops = append(v.Ops, append([]string(nil), op...))
		}
	}
	return v
}

func viol(s *vfutil.Session, what, detail string, c *Case) {
	s.Count("viol_" + what)
	s.Violate(what, detail, c.Replay())
}

// Check is the C20 property monitor on what the real code did.
func Check(s *vfutil.Session, c *Case, r *Run) {
	kvs := c.TargetKVs()
	pre := map[DK]bool{}
	for _, p := range c.Pre {
		pre[DK{p.DB, string(vfutil.UnHex(p.Key))}] = true
	}
	failed := r.Final != "ok"
	// entries are replayed in snapshot order by one worker: everything before
	// the failing key was replayed completely, the failing key and everything
	// after it was not.
	reached := map[DK]bool{}
	failIdx := len(kvs)
	if failed {
		failIdx = -1
		for i, kv := range kvs {
			if string(kv.Key) == r.FailKey {
				k := DK{kv.DB, string(kv.Key)}
				if r.Final == "err-exists" && !(pre[k] && r.Before[k] != nil) {
					continue // the same key name in another DB, not held by the target
				}
				failIdx = i
				break
			}
		}
		if failIdx < 0 && r.Final != "err-bad" {
			for i, kv := range kvs {
				if string(kv.Key) == r.FailKey {
					failIdx = i
					break
				}
			}
		}
		if r.Final == "err-bad" {
			// bidirectional replay: the unit's RESTORE was refused inside EXEC — the first key whose payload
			// the target cannot load, that takes the RESTORE path and is not stopped by the probe before
			for i, kv := range kvs {
				k := DK{kv.DB, string(kv.Key)}
				existed := pre[k] && r.Before[k] != nil
				restorePath := false
				for _, e := range r.Ents {
					if string(c.TKey(e.Key)) == string(kv.Key) && c.TDBOf(e.DB) == kv.DB && !c.Filtered(e.DB, e.Key) {
						restorePath = c.Restore && e.CanRestore && e.DumpSize <= c.MaxBulk && !e.Splited
						break
					}
				}
				if c.IsBad(kv.Key) && restorePath && !(existed && c.Pol != "replace") {
					failIdx = i
					break
				}
				if existed && c.Pol == "error" {
					break
				}
			}
		}
		if r.Final == "err-module" {
			// a module value that cannot take the RESTORE path (restore off, payload above the limit, or refused by
			// the target) cannot be replayed at all: the replay stops with this error at the first such key
			failIdx = -1
			for i, kv := range kvs {
				k := DK{kv.DB, string(kv.Key)}
				existed := pre[k] && r.Before[k] != nil
				if kv.Type == 7 {
					restorePath := false
					for _, e := range r.Ents {
						if string(c.TKey(e.Key)) == string(kv.Key) && c.TDBOf(e.DB) == kv.DB && !c.Filtered(e.DB, e.Key) {
							restorePath = c.Restore && e.CanRestore && e.DumpSize <= c.MaxBulk && !e.Splited
						}
					}
					probed := c.Mode == "bisync" || c.Mode == "sendbisync" || restorePath // the existing key is met before the value
					switch {
					case probed && existed && c.Pol == "ignore":
						continue
					case probed && existed && c.Pol == "error":
					case !restorePath || c.IsBad(kv.Key):
						failIdx = i
					}
					if failIdx >= 0 {
						break
					}
				}
				if existed && c.Pol == "error" {
					break
				}
			}
		}
		if failIdx < 0 {
			viol(s, "unexpected-error", fmt.Sprintf("replay failed with %s (%s) although no fault was injected", r.Final, r.ErrText), c)
			return
		}
	}
	for i, kv := range kvs {
		reached[DK{kv.DB, string(kv.Key)}] = i < failIdx
	}
	viaRestore := func(kv KV) bool {
		for _, e := range r.Ents {
			if string(c.TKey(e.Key)) == string(kv.Key) && c.TDBOf(e.DB) == kv.DB && !c.Filtered(e.DB, e.Key) {
				return c.Restore && e.CanRestore && e.DumpSize <= c.MaxBulk && !e.Splited && !c.IsBad(kv.Key)
			}
		}
		return false
	}
	touches := func(k DK) (mod []string) {
		cur := map[int]int{}
		for _, q := range r.Log {
			cmd := q.Cmd()
			_ = cur
			if len(q.Args) < 2 || string(q.Args[1]) != k.Key || q.DB != k.DB {
				continue
			}
			if cmd == "exists" || cmd == "select" {
				continue // EXISTS reads; SELECT's argument is a DB number, not a key
			}
			if cmd == "restore" {
				rep := false
				for _, a := range q.Args[4:] {
					if strings.EqualFold(string(a), "replace") {
						rep = true
					}
				}
				if !rep {
					continue // refused with BUSYKEY when the key exists: not a modification
				}
			}
			mod = append(mod, q.String())
		}
		return
	}
	for i, kv := range kvs {
		k := DK{kv.DB, string(kv.Key)}
		existed := pre[k] && r.Before[k] != nil
		switch {
		case failed && failIdx == i && r.Final == "err-module":
			// not replayable (no RESTORE for a module value): the replay fails, the key is as it was
			s.Count("mon_module_unrestorable")
			if !SameVal(r.Before[k], r.After[k]) {
				viol(s, "module-modified", fmt.Sprintf("module value not replayable: key %q changed although the replay failed: %+v -> %+v", k.Key, r.Before[k], r.After[k]), c)
			}
		case existed && c.Pol == "ignore":
			s.Count("mon_ignore_existing")
			if !SameVal(r.Before[k], r.After[k]) {
				viol(s, "ignore-modified", fmt.Sprintf("policy ignore: existing key %q changed: before=%+v after=%+v", k.Key, r.Before[k], r.After[k]), c)
			} else if m := touches(k); len(m) > 0 {
				viol(s, "ignore-touched", fmt.Sprintf("policy ignore: write request on existing key %q: %v", k.Key, m), c)
			}
			if failed && failIdx == i {
				viol(s, "ignore-failed", fmt.Sprintf("policy ignore: replay failed on existing key %q (%s: %s)", k.Key, r.Final, r.ErrText), c)
			}
		case existed && c.Pol == "error":
			s.Count("mon_error_existing")
			if reached[k] {
				viol(s, "error-not-raised", fmt.Sprintf("policy error: existing key %q replayed without error", k.Key), c)
			}
			if failed && failIdx == i && r.Final != "err-exists" {
				viol(s, "error-wrong-error", fmt.Sprintf("policy error: key %q failed with %s", k.Key, r.Final), c)
			}
			if !SameVal(r.Before[k], r.After[k]) || len(touches(k)) > 0 {
				viol(s, "error-modified", fmt.Sprintf("policy error: existing key %q modified before the error: %v", k.Key, touches(k)), c)
			}
		case failed && failIdx == i && r.Final == "err-bad":
			s.Count("mon_bisync_bad_data")
			if !SameVal(r.Before[k], r.After[k]) || len(touches(k)) > 1 {
				viol(s, "bad-data-modified", fmt.Sprintf("bidirectional replay, payload refused: key %q changed although the replay failed: %+v -> %+v", k.Key, r.Before[k], r.After[k]), c)
			}
		default:
			if failed && failIdx == i {
				viol(s, "unexpected-error", fmt.Sprintf("key %q (existed=%v, policy %s) failed with %s: %s", k.Key, existed, c.Pol, r.Final, r.ErrText), c)
				continue
			}
			if !reached[k] {
				continue // replay stopped earlier (policy error on another key)
			}
			if existed {
				s.Count("mon_replace_existing")
			} else {
				s.Count("mon_fresh_key")
			}
			want := ExpectVal(kv, viaRestore(kv), BubbleNowMs)
			if !SameVal(want, r.After[k]) {
				what := "replace-final"
				if !existed {
					what = "fresh-final"
				}
				viol(s, what, fmt.Sprintf("key %q: target ends with %+v, snapshot says %+v (existed=%v)", k.Key, r.After[k], want, existed), c)
			}
		}
	}
	// pre-existing keys that are not in the snapshot stay as they were
	snap := map[DK]bool{}
	for _, kv := range kvs {
		snap[DK{kv.DB, string(kv.Key)}] = true
	}
	for k := range pre {
		if !snap[k] && !SameVal(r.Before[k], r.After[k]) {
			viol(s, "foreign-key-modified", fmt.Sprintf("key %q (db %d) not in the snapshot changed", k.Key, k.DB), c)
		}
	}
	// TargetDb / TargetDbMap: nothing appears in the unmapped DB
	for _, kv := range c.KVList() {
		if c.TDBOf(kv.DB) != kv.DB {
			k := DK{kv.DB, string(c.TKey(kv.Key))}
			if !snap[k] && !pre[k] && !SameVal(r.Before[k], r.After[k]) {
				viol(s, "unmapped-db-written", fmt.Sprintf("source DB %d is mapped to target DB %d, but key %q was written in DB %d: %+v", kv.DB, c.TDBOf(kv.DB), k.Key, kv.DB, r.After[k]), c)
			}
		}
	}
	if c.HashTag {
		// replaceHashTag: nothing is written under the unrewritten key
		for _, kv := range c.KVList() {
			k := DK{c.TDBOf(kv.DB), string(kv.Key)}
			if !snap[k] && !SameVal(r.Before[k], r.After[k]) {
				viol(s, "hashtag-original-key-written", fmt.Sprintf("replaceHashTag: the snapshot key %q itself (not its rewritten form %q) was written: %+v", k.Key, c.TKey(kv.Key), r.After[k]), c)
			}
		}
	}
	CheckFiltered(s, c, r, snap)
}

// CheckFiltered: a filtered entry touches nothing — neither its own (DB, key), nor the cell it would have been mapped
// to, unless a key that passes the filter is replayed there; no write request names it.
func CheckFiltered(s *vfutil.Session, c *Case, r *Run, snap map[DK]bool) {
	for _, kv := range c.KVList() {
		if !c.Filtered(kv.DB, kv.Key) {
			continue
		}
		s.Count("mon_filtered_key")
		for _, k := range []DK{{kv.DB, string(kv.Key)}, {c.TDBOf(kv.DB), string(c.TKey(kv.Key))}, {c.TDBOf(kv.DB), string(kv.Key)}, {kv.DB, string(c.TKey(kv.Key))}} {
			if snap[k] {
				continue
			}
			if _, ok := r.Before[k]; !ok {
				continue
			}
			if !SameVal(r.Before[k], r.After[k]) {
				viol(s, "filtered-key-written", fmt.Sprintf("key %q of source DB %d is filtered out, but cell (db %d, %q) changed: %+v -> %+v", kv.Key, kv.DB, k.DB, k.Key, r.Before[k], r.After[k]), c)
			}
			for _, q := range r.Log {
				if len(q.Args) >= 2 && string(q.Args[1]) == k.Key && q.DB == k.DB && q.Cmd() != "select" {
					viol(s, "filtered-key-touched", fmt.Sprintf("key %q of source DB %d is filtered out, but a request names it: %s", kv.Key, kv.DB, q.String()), c)
					break
				}
			}
		}
	}
}

// firstBins: the first bin of every keyed value, in stream order (one per snapshot key).
func firstBins(r *Run) []Ent {
	var out []Ent
	for _, e := range r.Ents {
		if (e.OType == "d" || e.OType == "m") && e.First {
			out = append(out, e)
		}
	}
	return out
}

var skipSample []string

// SkipSample: cases the sequential oracle could not judge (diagnostics).
func SkipSample() []string { return skipSample }

type seqState struct {
	val   *vfdoubles.Val
	by    int  // index of the snapshot key that wrote it, -1 = the target's own
	multi bool // more than one snapshot key was replayed to this cell
}

// seqOracle: the key-exists policy applied literally, snapshot key after snapshot key in stream order, to the target
// cell of every key that passes the filter — a key an earlier entry of this run created IS an existing key for a later
// one (Props/C20Collide.lean). Independent of the code under test and of the Lean model.
// Returns the expected final cells, the index of the failing key (-1: none) and, per cell, the failing index (error).
func seqOracle(c *Case, r *Run) (cur map[DK]*seqState, failAt int, ok bool) {
	kvs := c.KVList()
	fb := firstBins(r)
	if len(fb) != len(kvs) {
		if len(skipSample) < 3 {
			skipSample = append(skipSample, fmt.Sprintf("%d first bins, %d keys: %s", len(fb), len(kvs), c.JSON()))
		}
		return nil, -1, false
	}
	cur = map[DK]*seqState{}
	for k, v := range r.Before {
		if v != nil {
			cur[k] = &seqState{val: v, by: -1}
		}
	}
	failAt = -1
	for i, kv := range kvs {
		if c.Filtered(kv.DB, kv.Key) {
			continue
		}
		tkv := c.TargetKV(i, kv)
		cell := DK{tkv.DB, string(tkv.Key)}
		e := fb[i]
		via := c.Restore && e.CanRestore && e.DumpSize <= c.MaxBulk && !e.Splited
		want := &seqState{val: ExpectVal(tkv, via, BubbleNowMs), by: i}
		old := cur[cell]
		if old != nil && (old.by >= 0 || old.multi) {
			want.multi = true
		}
		switch c.Pol {
		case "replace":
			cur[cell] = want
		case "ignore":
			if old == nil {
				cur[cell] = want
			} else {
				old.multi = old.multi || old.by >= 0
			}
		default:
			if old != nil {
				return cur, i, true
			}
			cur[cell] = want
		}
	}
	return cur, -1, true
}

// notMerged: whatever reading is taken for a collision cell, what it ends with is nothing, the target's own value or
// exactly ONE of the snapshot values replayed to it ("exactly the snapshot's value", "nothing is merged") - judged
// only for complete runs.
func notMerged(s *vfutil.Session, c *Case, r *Run, k DK) {
	if r.Final != "ok" || r.After[k] == nil || (r.Before[k] != nil && SameVal(r.Before[k], r.After[k])) {
		return
	}
	for i, kv := range c.KVList() {
		if c.Filtered(kv.DB, kv.Key) {
			continue
		}
		tkv := c.TargetKV(i, kv)
		if tkv.DB != k.DB || string(tkv.Key) != k.Key {
			continue
		}
		for _, via := range []bool{false, true} {
			if SameVal(ExpectVal(tkv, via, BubbleNowMs), r.After[k]) {
				return
			}
		}
	}
	viol(s, "collide-merged", fmt.Sprintf("cell (db %d, %q), which several snapshot keys are replayed to, ends with %+v: none of their values (a merge)", k.DB, k.Key, r.After[k]), c)
}

// CheckSeq: ONE worker (modes plain / wplain / bisync) against the sequential oracle: outcome and the final value of
// every cell the case names.
// What is a VIOLATION and what is a PIN. The property speaks about snapshots whose keys are distinct and about keys the
// target held BEFORE the run. On a COLLISION cell (two snapshot keys replayed to it by configuration) "a key this run
// created is an existing key" is the reading the code implements (Props/C20Collide.lean), not a sentence of the
// property: a difference there is not reported as a violation - it is PINNED by the correspondence (the request diff of
// the c20 op for one worker, the c20pin / c20route ops for N workers: a change shows as a broken tie, "re-read the
// model"). Violations stay: every non-collision cell; cells the target held at the start under ignore / error
// (unchanged, collision or not); the outcome unless the oracle's stop is itself a collision.
func CheckSeq(s *vfutil.Session, c *Case, r *Run) {
	cur, failAt, ok := seqOracle(c, r)
	if !ok {
		s.Count("seq_oracle_skipped")
		return
	}
	s.Count("mon_seq")
	coll := c.CollisionCells()
	if len(coll) > 0 {
		s.Count("mon_seq_colliding_" + c.Pol)
	}
	kvs := c.KVList()
	heldUnchanged := func() {
		if c.Pol == "replace" {
			return
		}
		for k, v := range r.Before {
			if v != nil && !SameVal(v, r.After[k]) {
				viol(s, c.Pol+"-modified", fmt.Sprintf("policy %s: cell (db %d, %q) the target held at the start changed: %+v -> %+v", c.Pol, k.DB, k.Key, v, r.After[k]), c)
			}
		}
	}
	if failAt >= 0 {
		fc := DK{c.TDBOf(kvs[failAt].DB), string(c.TKey(kvs[failAt].Key))}
		if coll[fc] && r.Before[fc] == nil {
			// the stop is the pinned reading (the key met was created by this run): only the held cells are judged
			s.Count("pin_collide_stop")
			heldUnchanged()
			return
		}
	}
	wantFinal := "ok"
	if failAt >= 0 {
		wantFinal = "err-exists"
	}
	if r.Final != wantFinal {
		viol(s, "seq-outcome", fmt.Sprintf("policy %s applied key after key says %s (failing key index %d), the replay ended %s (%s)", c.Pol, wantFinal, failAt, r.Final, r.ErrText), c)
		return
	}
	if failAt >= 0 && r.FailKey != string(c.TKey(kvs[failAt].Key)) {
		viol(s, "seq-outcome", fmt.Sprintf("policy error: the replay must stop at key %q, the error names %q", c.TKey(kvs[failAt].Key), r.FailKey), c)
	}
	for _, k := range c.Keys() {
		var want *vfdoubles.Val
		st := cur[k]
		if st != nil {
			want = st.val
		}
		if coll[k] && !(c.Pol != "replace" && r.Before[k] != nil) {
			s.Count("pin_collide_cell")
			notMerged(s, c, r, k)
			continue // which value: pinned by the request diff, not judged here
		}
		if !SameVal(want, r.After[k]) {
			viol(s, "seq-final", fmt.Sprintf("cell (db %d, %q): policy %s applied key after key leaves %+v, the target holds %+v", k.DB, k.Key, c.Pol, want, r.After[k]), c)
		}
	}
}

// keyConns: the connections that sent a request naming target key `key` (any DB).
func keyConns(r *Run, key string) map[int]bool {
	m := map[int]bool{}
	for _, q := range r.Log {
		cmd := q.Cmd()
		if cmd == "select" || len(q.Args) < 2 {
			continue
		}
		if string(q.Args[1]) == key || (cmd == "xgroup" && len(q.Args) >= 3 && string(q.Args[2]) == key) {
			m[q.Conn] = true
		}
	}
	return m
}

// cellConns: the connections that sent a request naming key `k.Key` while in DB `k.DB`.
func cellConns(r *Run, k DK) map[int]bool {
	m := map[int]bool{}
	for _, q := range r.Log {
		cmd := q.Cmd()
		if cmd == "select" || len(q.Args) < 2 || q.DB != k.DB {
			continue
		}
		if string(q.Args[1]) == k.Key || (cmd == "xgroup" && len(q.Args) >= 3 && string(q.Args[2]) == k.Key) {
			m[q.Conn] = true
		}
	}
	return m
}

// CheckCells: N workers (mode send / sendbisync) against the per-cell sequential oracle. Everything that is replayed
// to one target key must come from ONE connection (routing by the key an entry is replayed to), so every cell sees its
// snapshot keys in stream order whatever the interleaving: replace / ignore - exact final value of every cell; error -
// fails iff the oracle fails somewhere, cells the target held are untouched, and when nothing fails every cell is exact.
// Violation vs pin as in CheckSeq: collision cells and the one-connection rule for COLLIDING target keys are pinned by
// the ops c20pin / c20route (EmitPin, EmitRoute), not reported as violations; for every other key one connection per
// target key is the routing premise of the property's "chunks of one value in order" and stays a violation.
func CheckCells(s *vfutil.Session, c *Case, r *Run) {
	coll := c.CollisionCells()
	for _, kv := range c.TargetKVs() {
		cell := DK{kv.DB, string(kv.Key)}
		if cs := cellConns(r, cell); len(cs) > 1 {
			if coll[cell] {
				s.Count("pin_collide_two_connections")
				continue
			}
			viol(s, "key-on-two-connections", fmt.Sprintf("requests for cell (db %d, %q) - one snapshot value - arrived on %d connections: two workers write one key", kv.DB, kv.Key, len(cs)), c)
			break // the consequences (merged value, error not raised) are reported below when this schedule shows them
		}
		if cs := keyConns(r, string(kv.Key)); len(cs) > 1 {
			s.Count("pin_key_name_on_two_connections") // one key NAME in two cells on two workers: pinned by c20route only
		}
	}
	if !c.Simple() {
		return
	}
	cur, failAt, ok := seqOracle(c, r)
	if !ok {
		s.Count("seq_oracle_skipped")
		return
	}
	s.Count("mon_cells")
	if len(coll) > 0 {
		s.Count("mon_cells_colliding_" + c.Pol)
	}
	kvs := c.KVList()
	if c.Pol != "replace" {
		for k, v := range r.Before {
			if v != nil && !SameVal(v, r.After[k]) {
				viol(s, c.Pol+"-modified", fmt.Sprintf("parallel replay, policy %s: cell (db %d, %q) the target held at the start changed: %+v -> %+v", c.Pol, k.DB, k.Key, v, r.After[k]), c)
			}
		}
	}
	if failAt >= 0 {
		fc := DK{c.TDBOf(kvs[failAt].DB), string(c.TKey(kvs[failAt].Key))}
		if coll[fc] && r.Before[fc] == nil {
			s.Count("pin_collide_stop")
			return
		}
		s.Count("mon_cells_error_fails")
		if r.Final != "err-exists" {
			viol(s, "error-not-raised", fmt.Sprintf("policy error: key index %d meets a key the target held, SendRdb ended %s", failAt, r.Final), c)
		}
		return
	}
	if c.Pol == "error" && len(coll) > 0 {
		return // unreachable: a collision under error stops the oracle
	}
	if r.Final != "ok" {
		viol(s, "unexpected-error", fmt.Sprintf("SendRdb failed with %s: %s", r.Final, r.ErrText), c)
		return
	}
	for _, k := range c.Keys() {
		var want *vfdoubles.Val
		st := cur[k]
		if st != nil {
			want = st.val
		}
		if coll[k] && !(c.Pol != "replace" && r.Before[k] != nil) {
			s.Count("pin_collide_cell")
			notMerged(s, c, r, k)
			continue
		}
		if !SameVal(want, r.After[k]) {
			viol(s, "seq-final", fmt.Sprintf("parallel replay, cell (db %d, %q): policy %s applied key after key leaves %+v, the target holds %+v", k.DB, k.Key, c.Pol, want, r.After[k]), c)
		}
	}
	snap := map[DK]bool{}
	for _, kv := range c.TargetKVs() {
		snap[DK{kv.DB, string(kv.Key)}] = true
	}
	CheckFiltered(s, c, r, snap)
}

// EmitPin: colliding snapshots through N workers. What every cell ends with - nothing / the target's own value / the
// value of snapshot key number i / something else (a merge) - and the outcome, against ONE worker of the model over the
// same stream (driver op c20pin; conc_is_one_worker says they agree under replace / ignore). A difference is a broken
// tie that names the pinned reading, not a violation of the property.
func EmitPin(s *vfutil.Session, idx int, c *Case, r *Run) bool {
	if !c.Simple() || r.Final != "ok" || c.Pol == "error" {
		return false
	}
	kvs := c.KVList()
	fb := firstBins(r)
	if len(fb) != len(kvs) {
		return false
	}
	mode := "wplain"
	if c.Mode == "sendbisync" || c.Mode == "bisync" {
		mode = "bisync"
	}
	op, ks := OpLine("c20pin", idx, c, r, mode)
	out := []string{fmt.Sprintf("#%d r %s", idx, r.Final)}
	for _, k := range ks {
		cls := "other"
		switch {
		case r.After[k] == nil:
			cls = "absent"
		case r.Before[k] != nil && SameVal(r.Before[k], r.After[k]):
			cls = "old"
		default:
			for i, kv := range kvs {
				if c.Filtered(kv.DB, kv.Key) {
					continue
				}
				tkv := c.TargetKV(i, kv)
				if tkv.DB != k.DB || string(tkv.Key) != k.Key {
					continue
				}
				e := fb[i]
				via := c.Restore && e.CanRestore && e.DumpSize <= c.MaxBulk && !e.Splited
				if SameVal(ExpectVal(tkv, via, BubbleNowMs), r.After[k]) {
					cls = fmt.Sprintf("by:%d", i)
					break
				}
			}
		}
		out = append(out, fmt.Sprintf("#%d p %d %s %s", idx, k.DB, vfutil.HexS(k.Key), cls))
	}
	s.Op(op, out...)
	return true
}

// EmitRoute: the partition of the snapshot's keys over the replay workers as the REAL distributor made it (connection
// of the first request naming the key), against the model's `routeAll` (driver op c20route). Only for complete runs.
func EmitRoute(s *vfutil.Session, idx int, c *Case, r *Run) bool {
	if r.Final != "ok" {
		return false
	}
	kvs := c.KVList()
	class := map[int]int{}
	var out []string
	for _, kv := range kvs {
		if c.Filtered(kv.DB, kv.Key) {
			out = append(out, "-")
			continue
		}
		cs := keyConns(r, string(c.TKey(kv.Key)))
		if len(cs) == 0 {
			return false
		}
		if len(cs) > 1 {
			out = append(out, "multi") // the model never says so: shows as a difference
			continue
		}
		for cn := range cs {
			if _, ok := class[cn]; !ok {
				class[cn] = len(class)
			}
			out = append(out, strconv.Itoa(class[cn]))
		}
	}
	var ents []string
	for _, e := range r.Ents {
		ents = append(ents, e.Render(false))
	}
	tok := ""
	if c.HashTag {
		tok += " rht=1"
	}
	if len(c.FDB) > 0 {
		var ds []string
		for _, d := range c.FDB {
			ds = append(ds, strconv.Itoa(d))
		}
		tok += " fdb=" + strings.Join(ds, ",")
	}
	var ps []string
	for _, p := range ReservedPrefixes() {
		ps = append(ps, vfutil.HexS(p))
	}
	tok += " fpre=" + strings.Join(append(ps, c.FPre...), ",")
	tok += c.tresTok()
	s.Op(fmt.Sprintf("c20route tag=%d n=%d%s ents=%s", idx, c.Parallel, tok, strings.Join(ents, ";")),
		fmt.Sprintf("#%d w %s", idx, strings.Join(out, " ")))
	return true
}

// CheckParallel: the monitor for mode "send" (the real SendRdb with several
// workers: no request order to compare, other workers may have applied any
// subset when one of them stops on the `error` policy).
func CheckParallel(s *vfutil.Session, c *Case, r *Run) {
	kvs := c.TargetKVs()
	pre := map[DK]bool{}
	for _, p := range c.Pre {
		pre[DK{p.DB, string(vfutil.UnHex(p.Key))}] = true
	}
	mustFail := false
	for _, kv := range kvs {
		k := DK{kv.DB, string(kv.Key)}
		if c.Pol == "error" && pre[k] && r.Before[k] != nil {
			mustFail = true
		}
	}
	// a module value that cannot take the RESTORE path cannot be replayed: the replay may stop with err-module
	mayFail := false
	for _, kv := range kvs {
		if kv.Type != 7 {
			continue
		}
		restorable := false
		for _, e := range r.Ents {
			if string(c.TKey(e.Key)) == string(kv.Key) && c.TDBOf(e.DB) == kv.DB && !c.Filtered(e.DB, e.Key) {
				restorable = c.Restore && e.CanRestore && e.DumpSize <= c.MaxBulk && !e.Splited && !c.IsBad(kv.Key)
			}
		}
		if !restorable {
			mayFail = true
		}
	}
	if mustFail && r.Final == "ok" {
		viol(s, "error-not-raised", "policy error with an existing key: SendRdb returned nil", c)
	}
	if !mustFail && r.Final != "ok" && !(mayFail && r.Final == "err-module") {
		viol(s, "unexpected-error", fmt.Sprintf("SendRdb failed with %s: %s", r.Final, r.ErrText), c)
		return
	}
	if mayFail && r.Final != "ok" {
		s.Count("mon_parallel_module_unrestorable")
		mustFail = true // the other keys are complete or untouched or cut between chunks — not judged
	}
	for _, kv := range kvs {
		k := DK{kv.DB, string(kv.Key)}
		existed := pre[k] && r.Before[k] != nil
		var mods []string
		for _, q := range r.Log {
			if len(q.Args) < 2 || string(q.Args[1]) != k.Key || q.DB != k.DB {
				continue
			}
			cmd := q.Cmd()
			if cmd == "exists" || cmd == "select" {
				continue
			}
			if cmd == "restore" {
				rep := false
				for _, a := range q.Args[4:] {
					if strings.EqualFold(string(a), "replace") {
						rep = true
					}
				}
				if !rep {
					continue
				}
			}
			mods = append(mods, q.String())
		}
		viaRestore := false
		for _, e := range r.Ents {
			if string(c.TKey(e.Key)) == k.Key && c.TDBOf(e.DB) == k.DB && !c.Filtered(e.DB, e.Key) {
				viaRestore = c.Restore && e.CanRestore && e.DumpSize <= c.MaxBulk && !e.Splited && !c.IsBad(kv.Key)
				break
			}
		}
		want := ExpectVal(kv, viaRestore, BubbleNowMs)
		switch {
		case existed && (c.Pol == "ignore" || c.Pol == "error"):
			s.Count("mon_parallel_" + c.Pol + "_existing")
			if !SameVal(r.Before[k], r.After[k]) {
				viol(s, c.Pol+"-modified", fmt.Sprintf("parallel replay, policy %s: existing key %q (db %d) changed: before=%+v after=%+v", c.Pol, k.Key, k.DB, r.Before[k], r.After[k]), c)
			} else if len(mods) > 0 {
				viol(s, c.Pol+"-touched", fmt.Sprintf("parallel replay, policy %s: write request on existing key %q: %v", c.Pol, k.Key, mods), c)
			}
		case mustFail:
			// another worker stopped the replay: this key is complete or untouched or cut between chunks — not judged
		default:
			s.Count("mon_parallel_final")
			if !SameVal(want, r.After[k]) {
				viol(s, "replace-final", fmt.Sprintf("parallel replay: key %q (db %d) ends with %+v, snapshot says %+v (existed=%v)", k.Key, k.DB, r.After[k], want, existed), c)
			}
		}
	}
}

// CheckWindow: a client created the key between the EXISTS probe and the
// unit's EXEC (bidirectional replay, RESTORE path).
func CheckWindow(s *vfutil.Session, c *Case, r *Run) {
	kv := c.TargetKVs()[0]
	k := DK{kv.DB, string(kv.Key)}
	conc := &vfdoubles.Val{Kind: "string", Str: []byte("CONCURRENT")}
	switch c.Pol {
	case "ignore":
		if r.Final != "ok" {
			// the transaction batcher reports the BUSYKEY slot of the EXEC reply as an
			// error before validateBisyncRdbExecReplies' tolerance is reached: the
			// replay fails (and is repeated) — the key itself must be intact
			s.Count("observed_window_ignore_busykey_fails_the_replay")
		}
		if !SameVal(conc, r.After[k]) {
			viol(s, "ignore-modified", fmt.Sprintf("key %q created between the probe and the EXEC was overwritten under policy ignore: %+v", k.Key, r.After[k]), c)
		}
	case "error":
		if r.Final == "ok" {
			viol(s, "error-not-raised", fmt.Sprintf("key %q created between the probe and the EXEC: no error", k.Key), c)
		}
		if !SameVal(conc, r.After[k]) {
			viol(s, "error-modified", fmt.Sprintf("key %q created between the probe and the EXEC was overwritten under policy error: %+v", k.Key, r.After[k]), c)
		}
	default:
		want := ExpectVal(kv, true, BubbleNowMs)
		if r.Final != "ok" || !SameVal(want, r.After[k]) {
			viol(s, "replace-final", fmt.Sprintf("key %q created between the probe and the EXEC: final %+v, want %+v (err %s)", k.Key, r.After[k], want, r.ErrText), c)
		}
	}
	s.Count("mon_window_" + c.Pol)
}

// ---------------------------------------------------------------- generators

func genKV(r *vfutil.Rand, i int, dbs int) KVSpec {
	key := fmt.Sprintf("k%d", i)
	if r.Chance(1, 6) {
		key = string(r.Bytes(r.Range(1, 5)))
	}
	if r.Chance(1, 30) {
		key = "" // the empty string is a valid Redis key
	}
	kv := KVSpec{Key: vfutil.HexS(key), Type: vfutil.Pick(r, []int{0, 0, 1, 2, 3, 4, 4, 4}), Exp: vfutil.Pick(r, []int{0, 0, 0, 1, 1, 2, 2, 2, 3, 4, 5})}
	if r.Chance(1, 25) {
		kv.Type = 7 // a module value: RESTORE or nothing
		return kv
	}
	if r.Chance(1, 12) {
		// a stream, mostly with a consumer group (XGROUP CREATE names the key as its SECOND argument)
		kv.Type, kv.Group = 15, vfutil.Pick(r, []string{"g", "g", ""})
		return kv
	}
	item := func() string {
		if r.Chance(1, 5) {
			return vfutil.Hex(r.Bytes(r.Range(1, 12)))
		}
		return vfutil.HexS(fmt.Sprintf("v%d", r.Intn(1000)))
	}
	n := r.Range(1, 5)
	switch kv.Type {
	case 0:
		kv.Str = item()
	case 1:
		for j := 0; j < n; j++ {
			kv.Items = append(kv.Items, item())
		}
	case 2:
		for j := 0; j < n; j++ {
			kv.Items = append(kv.Items, vfutil.HexS(fmt.Sprintf("m%d", j)))
		}
	case 3:
		for j := 0; j < n; j++ {
			kv.Items = append(kv.Items, vfutil.HexS(fmt.Sprintf("z%d", j)), vfutil.HexS(strconv.Itoa(r.Range(-50, 50))))
		}
	case 4:
		n = r.Range(1, 7)
		for j := 0; j < n; j++ {
			kv.Items = append(kv.Items, vfutil.HexS(fmt.Sprintf("f%d", j)), item())
		}
	}
	return kv
}

var Kinds = []string{"string", "list", "hash", "set", "zset", "restored"}

func kindOf(t int) string {
	if t == 15 || t == 7 {
		return "list" // the double has no stream type of its own: any other existing key
	}
	return []string{"string", "list", "set", "zset", "hash"}[t]
}

// GenCase: 1–4 keys (sorted by DB when dbs=2), any subset pre-populated with
// the same or another type, with or without TTL.
func GenCase(r *vfutil.Rand, mode string, dbs int) *Case {
	c := &Case{Mode: mode, Pol: vfutil.Pick(r, []string{"replace", "ignore", "error"}), Restore: r.Bool(), MaxBulk: 512 * 1024 * 1024, Ver: vfutil.Pick(r, []string{"7.0.0", "4.0.0"})}
	switch r.Intn(4) {
	case 0:
		c.Thr = 1 // every hash field its own chunk
	case 1:
		c.Thr = r.Range(4, 30)
	}
	if r.Chance(1, 8) {
		c.MaxBulk = r.Range(5, 40) // forces expansion of larger values although restore is on
	}
	n := r.Range(1, 4)
	seen := map[string]bool{}
	for i := 0; i < n; i++ {
		kv := genKV(r, i, dbs)
		if seen[kv.Key] {
			continue
		}
		seen[kv.Key] = true
		if dbs > 1 && i >= n/2 && r.Bool() {
			kv.DB = 1
		}
		c.KVs = append(c.KVs, kv)
	}
	hasTwin := false
	if dbs > 1 && len(c.KVs) > 0 && r.Chance(1, 3) {
		// the same key NAME as a snapshot key of both DBs (the remembered ignore
		// decision of one must not leak into the other)
		src := c.KVs[r.Intn(len(c.KVs))]
		twin := genKV(r, 9, dbs)
		twin.Key = src.Key
		twin.DB = 1 - src.DB
		if r.Bool() {
			twin.Type = src.Type
			if twin.Type == 0 {
				twin.Str, twin.Items = vfutil.HexS("twin"), nil
			} else if twin.Type == 4 {
				twin.Items = []string{vfutil.HexS("t1"), vfutil.HexS("w1"), vfutil.HexS("t2"), vfutil.HexS("w2"), vfutil.HexS("t3"), vfutil.HexS("w3")}
			} else if twin.Type == 3 {
				twin.Items = []string{vfutil.HexS("tz"), vfutil.HexS("9")}
			} else {
				twin.Items = []string{vfutil.HexS("t1"), vfutil.HexS("t2")}
			}
			twin.Str = map[bool]string{true: twin.Str, false: ""}[twin.Type == 0]
		}
		dup := false
		for _, kv := range c.KVs {
			if kv.DB == twin.DB && kv.Key == twin.Key {
				dup = true
			}
		}
		if !dup {
			c.KVs = append(c.KVs, twin)
			hasTwin = true
		}
	}
	sort.SliceStable(c.KVs, func(i, j int) bool { return c.KVs[i].DB < c.KVs[j].DB })
	if r.Chance(1, 4) {
		// the policy as a user may write it; the real code gets what config's fix() makes of it
		c.UseRaw = true
		switch c.Pol {
		case "replace":
			c.PolRaw = vfutil.Pick(r, []string{"", "Replace", "REPLACE", "bogus", "replace ", "rep"})
		case "ignore":
			c.PolRaw = vfutil.Pick(r, []string{"Ignore", "IGNORE", "iGnore"})
		default:
			c.PolRaw = vfutil.Pick(r, []string{"Error", "ERROR", "eRRor"})
		}
	}
	c.Log = r.Chance(1, 5)
	if r.Chance(1, 4) {
		// replaceHashTag with tagged keys; the rewritten keys stay distinct
		c.HashTag = true
		used := map[string]bool{}
		for i := range c.KVs {
			base := fmt.Sprintf("k%d", i)
			key := vfutil.Pick(r, []string{"{t}" + base, base + "{t}", "a{" + base + "}z", "}" + base + "{", "{{" + base + "}}", base, "{" + base, "{}" + base, "{}", "}{"})
			// distinct over ALL DBs: with TargetDb / TargetDbMap two source DBs may share a target DB
			if used[string(c.TKey([]byte(key)))] {
				key = base
			}
			used[string(c.TKey([]byte(key)))] = true
			c.KVs[i].Key = vfutil.HexS(key)
		}
	}
	if c.Restore && r.Chance(1, 4) {
		// a target that cannot load some payloads ("Bad data format"); keys as RESTORE names them
		for _, kv := range c.KVs {
			if r.Bool() {
				c.Bad = append(c.Bad, vfutil.Hex(c.TKey(vfutil.UnHex(kv.Key))))
			}
		}
	}
	if dbs > 1 && !hasTwin && r.Chance(1, 4) {
		// TargetDb / TargetDbMap (key names are distinct across the source DBs here)
		switch r.Intn(3) {
		case 0:
			c.TDB = 1 + r.Intn(3)
		case 1:
			c.DBMap = [][2]int{{1, 0}}
		default:
			c.DBMap = [][2]int{{0, 2}, {1, 0}}
		}
	}
	for _, kv := range c.KVs {
		if r.Chance(3, 5) {
			kind := kindOf(kv.Type)
			if r.Bool() {
				kind = vfutil.Pick(r, Kinds)
			}
			p := Pre{DB: c.TDBOf(kv.DB), Key: vfutil.Hex(c.TKey(vfutil.UnHex(kv.Key))), Kind: kind}
			if r.Chance(1, 3) {
				p.TTL = int64(r.Range(1000, 900000))
			}
			c.Pre = append(c.Pre, p)
		} else if dbs > 1 && r.Chance(1, 4) {
			// the same key name in the OTHER db must not matter
			if c.TDB == 0 && len(c.DBMap) == 0 {
				c.Pre = append(c.Pre, Pre{DB: 1 - kv.DB, Key: vfutil.Hex(c.TKey(vfutil.UnHex(kv.Key))), Kind: vfutil.Pick(r, Kinds)})
			}
		}
	}
	if r.Chance(1, 4) {
		c.Pre = append(c.Pre, Pre{Key: vfutil.HexS("foreign"), Kind: vfutil.Pick(r, Kinds), TTL: int64(r.Intn(2) * 5000)})
	}
	// one prior value per (db, key)
	seenPre := map[string]bool{}
	var pre []Pre
	for _, p := range c.Pre {
		id := fmt.Sprintf("%d/%s", p.DB, p.Key)
		if !seenPre[id] {
			seenPre[id] = true
			pre = append(pre, p)
		}
	}
	c.Pre = pre
	return c
}

// Monitors: the property monitors for one run of ONE worker (modes plain / wplain / bisync).
func Monitors(s *vfutil.Session, c *Case, r *Run) {
	if !c.Collides() {
		Check(s, c, r) // assumes one snapshot key per target cell
	}
	if c.Simple() {
		CheckSeq(s, c, r)
	}
}

func simpleKV(db int, key string, ty int, tag string, exp int) KVSpec {
	kv := KVSpec{DB: db, Key: vfutil.HexS(key), Type: ty, Exp: exp}
	switch ty {
	case 0:
		kv.Str = vfutil.HexS("val-" + tag)
	case 1:
		kv.Items = []string{vfutil.HexS(tag + "1"), vfutil.HexS(tag + "2")}
	default:
		kv.Type = 4
		kv.Items = []string{vfutil.HexS(tag + "f1"), vfutil.HexS("v1"), vfutil.HexS(tag + "f2"), vfutil.HexS("v2"), vfutil.HexS(tag + "f3"), vfutil.HexS("v3")}
	}
	return kv
}

// CollideKinds: how two snapshot keys come to be replayed to one target cell.
var CollideKinds = []string{"targetdb", "dbmap", "hashtag", "dupkey"}

// collideBase: two snapshot keys A (first in the stream) and B on one target cell, plus a bystander.
// The tagged pair hashes to different workers (of 3) when routed by the SOURCE key.
func collideBase(mode, kind string, tyA, tyB int, exp int) *Case {
	c := &Case{Mode: mode, MaxBulk: 1 << 29, Ver: "7.0.0"}
	switch kind {
	case "targetdb":
		c.TDB = 2 // every source DB goes to DB 1
		c.KVs = []KVSpec{simpleKV(0, "k", tyA, "A", exp), simpleKV(0, "other", 0, "O", 0), simpleKV(1, "k", tyB, "B", 0)}
	case "dbmap":
		c.DBMap = [][2]int{{0, 2}, {1, 2}}
		c.KVs = []KVSpec{simpleKV(0, "k", tyA, "A", exp), simpleKV(0, "other", 0, "O", 0), simpleKV(1, "k", tyB, "B", 0)}
	case "hashtag":
		c.HashTag = true
		c.KVs = []KVSpec{simpleKV(0, "{a}b0", tyA, "A", exp), simpleKV(0, "other", 0, "O", 0), simpleKV(0, "ab0", tyB, "B", 0)}
	default: // a key twice in one DB: not a file Redis writes, not refused by the parser
		c.KVs = []KVSpec{simpleKV(0, "k", tyA, "A", exp), simpleKV(0, "other", 0, "O", 0), simpleKV(0, "k", tyB, "B", 0)}
	}
	return c
}

// ExhaustiveCollide: two snapshot keys on one target cell: kind x policy x restore on/off x (string + hash | split hash +
// list | hash + split hash) x the cell held by the target or not.
func ExhaustiveCollide(mode string) []*Case {
	var out []*Case
	for _, kind := range CollideKinds {
		for _, pol := range []string{"replace", "ignore", "error"} {
			for _, restore := range []bool{false, true} {
				for shape := 0; shape < 3; shape++ {
					for pm := 0; pm < 2; pm++ {
						tyA, tyB, thr := 0, 4, 0
						switch shape {
						case 1:
							tyA, tyB, thr = 4, 1, 1
						case 2:
							tyA, tyB, thr = 4, 4, 1
						}
						c := collideBase(mode, kind, tyA, tyB, []int{0, 2}[shape%2])
						c.Pol, c.Restore, c.Thr = pol, restore, thr
						if pm == 1 {
							cell := c.Cell(c.KVs[0])
							c.Pre = []Pre{{DB: cell.DB, Key: vfutil.HexS(cell.Key), Kind: "string", TTL: 60000}}
						}
						out = append(out, c)
					}
				}
			}
		}
	}
	return out
}

// ExhaustiveFilter: `a` and a split hash `h` in DB 0, `z` and `y` in DB 1 (a filtered `z` is the FIRST entry of its DB: the
// SELECT it costs is the one `y` relies on); an output filter (DB black list / key prefix
// black list) x policy x restore x (nothing held | the filtered key's cells held | a kept key's cell held) x TargetDbMap.
func ExhaustiveFilter(mode string) []*Case {
	var out []*Case
	type flt struct {
		fdb  []int
		fpre []string
	}
	for _, f := range []flt{{fdb: []int{0}}, {fdb: []int{1}}, {fpre: []string{"h"}}, {fpre: []string{"a", "z"}}, {fdb: []int{1}, fpre: []string{"a"}}} {
		for _, pol := range []string{"replace", "ignore", "error"} {
			for _, restore := range []bool{false, true} {
				for pm := 0; pm < 3; pm++ {
					for _, dm := range [][][2]int{nil, {{1, 0}}} {
						c := &Case{Mode: mode, Pol: pol, Restore: restore, Thr: 1, MaxBulk: 1 << 29, Ver: "7.0.0", FDB: f.fdb, DBMap: dm,
							KVs: []KVSpec{simpleKV(0, "a", 0, "A", 2), simpleKV(0, "h", 4, "H", 0), simpleKV(1, "z", 1, "Z", 0), simpleKV(1, "y", 0, "Y", 0)}}
						for _, p := range f.fpre {
							c.FPre = append(c.FPre, vfutil.HexS(p))
						}
						for _, k := range c.KVs {
							filtered := c.Filtered(k.DB, vfutil.UnHex(k.Key))
							if (pm == 1 && filtered) || (pm == 2 && !filtered) {
								cell := c.Cell(k)
								c.Pre = append(c.Pre, Pre{DB: cell.DB, Key: vfutil.HexS(cell.Key), Kind: "list"})
								if filtered && cell.DB != k.DB {
									c.Pre = append(c.Pre, Pre{DB: k.DB, Key: k.Key, Kind: "set"})
								}
							}
						}
						out = append(out, c)
					}
				}
			}
		}
	}
	return out
}

// BackPressure: many keys (strings, lists, split hashes; two DBs; a tagged pair on one target key when replaceHashTag is
// on) through the real SendRdb with pipes of 1-2 entries per worker and a slow target: every send of the distributor
// meets a full pipe. Everything of one target key must still come from ONE connection, in order.
func BackPressure(mode string) []*Case {
	var out []*Case
	for _, pol := range []string{"replace", "ignore", "error"} {
		for _, par := range []int{2, 3, 4} {
			for _, mult := range []int{1, 2} {
				for _, ht := range []bool{false, true} {
					c := &Case{Mode: mode, Pol: pol, Restore: par%2 == 0, Thr: 1, MaxBulk: 1 << 29, Ver: "7.0.0", Parallel: par,
						PipeSize: par * mult, Slow: 1, HashTag: ht}
					for i := 0; i < 14; i++ {
						db := 0
						if i >= 9 {
							db = 1
						}
						key := fmt.Sprintf("bp%d", i)
						if ht && i%3 == 0 {
							key = fmt.Sprintf("{t%d}bp", i)
						}
						c.KVs = append(c.KVs, simpleKV(db, key, []int{0, 4, 1}[i%3], fmt.Sprintf("V%d", i), 0))
						if pol != "error" && i%4 == 1 {
							cell := c.Cell(c.KVs[i])
							c.Pre = append(c.Pre, Pre{DB: cell.DB, Key: vfutil.HexS(cell.Key), Kind: "list"})
						}
					}
					if ht {
						c.KVs = append(c.KVs, simpleKV(1, "{a}b0", 4, "A", 0), simpleKV(1, "ab0", 4, "B", 0))
					}
					out = append(out, c)
				}
			}
		}
	}
	return out
}

// BackPressureFail: a replay worker FAILS (policy error on a held key early in the stream; a module value that cannot be
// RESTOREd) while the pipes hold 1-2 entries per worker, the target is slow and 20+ entries are still to be distributed:
// the distributor is blocked on the failed worker's full pipe (or any other) at that moment. SendRdb must RETURN (the
// cancel reaches the blocked send), the worker's error must be what it returns, held cells stay untouched.
func BackPressureFail(mode string) []*Case {
	var out []*Case
	for _, kind := range []string{"exists", "module"} {
		for _, par := range []int{1, 2, 3, 4} {
			for _, mult := range []int{1, 2} {
				for _, at := range []int{0, 3} {
					pol := "error"
					if kind == "module" {
						pol = []string{"replace", "ignore"}[(par+mult)%2]
					}
					c := &Case{Mode: mode, Pol: pol, Restore: false, Thr: 1, MaxBulk: 1 << 29, Ver: "7.0.0", Parallel: par,
						PipeSize: par * mult, Slow: 1}
					for i := 0; i < 24; i++ {
						db := 0
						if i >= 15 {
							db = 1
						}
						c.KVs = append(c.KVs, simpleKV(db, fmt.Sprintf("bf%d", i), []int{0, 4, 1}[i%3], fmt.Sprintf("W%d", i), 0))
					}
					if kind == "exists" {
						cell := c.Cell(c.KVs[at])
						c.Pre = append(c.Pre, Pre{DB: cell.DB, Key: vfutil.HexS(cell.Key), Kind: "list", TTL: 5000})
						cell2 := c.Cell(c.KVs[20]) // a second held key far behind: must stay untouched whoever reaches it
						c.Pre = append(c.Pre, Pre{DB: cell2.DB, Key: vfutil.HexS(cell2.Key), Kind: "hash"})
					} else {
						c.KVs[at] = KVSpec{Key: vfutil.HexS(fmt.Sprintf("bf%d", at)), Type: 7}
					}
					out = append(out, c)
				}
			}
		}
	}
	return out
}

// CheckTerminated: the real SendRdb returned (Final "hang" = it had not returned after 10 minutes of VIRTUAL time, i.e.
// every goroutine of the run was blocked for good), and a failure it had to report is the worker's own error.
func CheckTerminated(s *vfutil.Session, c *Case, r *Run, wantErr string) bool {
	if r.Final == "hang" {
		viol(s, "sendrdb-hang", "SendRdb did not return: distributor / workers blocked for ever after a worker's failure (virtual time ran 10 minutes with no progress)", c)
		return false
	}
	if wantErr != "" {
		s.Count("mon_fail_backpressure_" + wantErr)
		if r.Final == "ok" {
			viol(s, "error-not-raised", "a replay worker failed ("+wantErr+") under back-pressure: SendRdb returned nil", c)
			return false
		}
		if r.Final != wantErr {
			viol(s, "error-lost", fmt.Sprintf("a replay worker failed (%s) under back-pressure: SendRdb returned %s: %s", wantErr, r.Final, r.ErrText), c)
			return false
		}
	}
	return true
}

// Ladder: the dimension audit's table for ONE snapshot key (followed by a key "z" that must never be reached after a
// failure): policy x what the target holds under the key (nothing / the same type with a TTL / another type without) x path
// (RESTORE / RESTORE refused with Bad data format / restore off / split value / dump above MaxProtoBulkLen) x where the key
// goes (as it is / replaceHashTag / TargetDb / the EMPTY key).
func Ladder(mode string) []*Case {
	var out []*Case
	for _, pol := range []string{"replace", "ignore", "error"} {
		for held := 0; held < 3; held++ {
			for _, path := range []string{"restore", "bad", "expand", "split", "big"} {
				for _, where := range []string{"key", "hashtag", "tdb", "empty"} {
					key := "lk"
					c := &Case{Mode: mode, Pol: pol, Restore: path != "expand", MaxBulk: 1 << 29, Ver: "7.0.0"}
					switch where {
					case "hashtag":
						key, c.HashTag = "{l}k", true
					case "tdb":
						c.TDB = 2
					case "empty":
						key = ""
					}
					kv := KVSpec{Key: vfutil.HexS(key), Type: 4, Exp: 2,
						Items: []string{vfutil.HexS("f1"), vfutil.HexS("v1"), vfutil.HexS("f2"), vfutil.HexS("v2"), vfutil.HexS("f3"), vfutil.HexS("v3")}}
					switch path {
					case "split":
						c.Thr = 1
					case "big":
						c.MaxBulk = 8
					}
					c.KVs = []KVSpec{kv, {Key: vfutil.HexS("z"), Type: 0, Str: vfutil.HexS("2")}}
					cell := c.Cell(kv)
					if path == "bad" {
						c.Bad = []string{vfutil.HexS(cell.Key)}
					}
					switch held {
					case 1:
						c.Pre = []Pre{{DB: cell.DB, Key: vfutil.HexS(cell.Key), Kind: "hash", TTL: 60000}}
					case 2:
						c.Pre = []Pre{{DB: cell.DB, Key: vfutil.HexS(cell.Key), Kind: "string"}}
					}
					out = append(out, c)
				}
			}
		}
	}
	return out
}

// ExpiryBetweenChunks: a split hash (one field per chunk) whose expiry lies d = 1..9 ms ahead while every request takes 1 ms
// and the target's clock runs (Tick): the key expires on the target BETWEEN its chunks / the later chunks compute "already
// past". Whatever the timing, a snapshot key with an expiry must never be left PERSISTENT (CheckExpiryKept).
func ExpiryBetweenChunks(mode string) []*Case {
	var out []*Case
	for _, d := range []int{1, 2, 3, 4, 5, 6, 7, 8, 9, 12, 16, 25, 60} {
		for _, pol := range []string{"replace", "ignore", "error"} {
			for _, held := range []bool{false, true} {
				if held && pol != "replace" {
					continue
				}
				c := &Case{Mode: mode, Pol: pol, Restore: d%2 == 0, Thr: 1, MaxBulk: 1 << 29, Ver: "7.0.0", Slow: 1, Tick: true,
					KVs: []KVSpec{{Key: vfutil.HexS("xb"), Type: 4, Exp: 10 + d,
						Items: []string{vfutil.HexS("f1"), vfutil.HexS("v1"), vfutil.HexS("f2"), vfutil.HexS("v2"), vfutil.HexS("f3"), vfutil.HexS("v3"), vfutil.HexS("f4"), vfutil.HexS("v4")}},
						{Key: vfutil.HexS("z"), Type: 0, Str: vfutil.HexS("2")}}}
				if held {
					c.Pre = []Pre{{Key: vfutil.HexS("xb"), Kind: "hash"}}
				}
				out = append(out, c)
			}
		}
	}
	return out
}

// CheckExpiryKept (clock running): the run succeeds; a snapshot key with an expiry is, at the end, gone or carries an expiry -
// never persistent (the policy stated at bisyncRdbTTLms); the key behind it is replayed.
func CheckExpiryKept(s *vfutil.Session, c *Case, r *Run) {
	s.Count("mon_expiry_between_chunks")
	if r.Final != "ok" {
		viol(s, "unexpected-error", fmt.Sprintf("clock running, expiry a few ms ahead: replay failed with %s: %s", r.Final, r.ErrText), c)
		return
	}
	for i, kv := range c.TargetKVs() {
		k := DK{kv.DB, string(kv.Key)}
		after := r.After[k]
		if kv.ExpireAt != 0 {
			if after == nil {
				s.Count("observed_key_expired_during_run")
			} else if after.ExpireAt == 0 {
				viol(s, "expiry-lost", fmt.Sprintf("snapshot key %d %q has expiry %d; the target ends with the key PERSISTENT: %+v", i, k.Key, kv.ExpireAt, after), c)
			} else {
				s.Count("observed_key_alive_with_expiry")
			}
		} else if !SameVal(ExpectVal(kv, false, BubbleNowMs), after) && !SameVal(ExpectVal(kv, true, BubbleNowMs), after) {
			viol(s, "fresh-final", fmt.Sprintf("clock running: key %q ends with %+v", k.Key, after), c)
		}
	}
}

// CheckFault: a request of the run met a fault (an error reply that is neither BUSYKEY nor Bad data format, a cut
// connection, a lost reply). `clean` = the same case without the fault. (1) the replay must FAIL; (2) up to and including the
// faulted request it sent exactly what the clean run sent; what it sent afterwards continues the clean run and names no
// LATER snapshot key (the run stops at that entry); (3) ignore / error: a key the target held is unchanged; (4) under any
// policy a cell the clean run leaves untouched is untouched.
func CheckFault(s *vfutil.Session, c *Case, clean, r *Run) {
	s.Count("mon_fault_" + c.FaultKind)
	k := c.FaultAt
	if len(r.Log) < k {
		viol(s, "fault-not-reached", fmt.Sprintf("fault at request %d, the run sent %d", k, len(r.Log)), c)
		return
	}
	for i := 0; i < len(r.Log); i++ {
		if i >= len(clean.Log) || renderReq(r.Log[i]) != renderReq(clean.Log[i]) {
			if i < k {
				viol(s, "fault-prefix-differs", fmt.Sprintf("request %d before the fault differs from the clean run: %s", i+1, r.Log[i].String()), c)
			} else {
				viol(s, "fault-continued", fmt.Sprintf("after the fault at request %d the run sent %s, which the clean run does not send there", k, r.Log[i].String()), c)
			}
			return
		}
	}
	// every request belongs to one snapshot key (SELECT / MULTI / marker: the key of the next request that names one; EXEC:
	// of the last one before it); nothing that belongs to a LATER key than the faulted request's may follow the fault
	order := map[string]int{}
	for i, kv := range c.TargetKVs() {
		if _, ok := order[string(kv.Key)]; !ok {
			order[string(kv.Key)] = i
		}
	}
	named := func(q vfdoubles.LogEntry) (int, bool) {
		if q.Cmd() == "select" || isMarker(q) || len(q.Args) < 2 {
			return 0, false
		}
		if q.Cmd() == "xgroup" && len(q.Args) >= 3 {
			o, ok := order[string(q.Args[2])]
			return o, ok
		}
		o, ok := order[string(q.Args[1])]
		return o, ok
	}
	owner := func(i int) int {
		if o, ok := named(clean.Log[i]); ok {
			return o
		}
		if clean.Log[i].Cmd() == "exec" {
			for j := i - 1; j >= 0; j-- {
				if o, ok := named(clean.Log[j]); ok {
					return o
				}
			}
		}
		for j := i + 1; j < len(clean.Log); j++ {
			if o, ok := named(clean.Log[j]); ok {
				return o
			}
		}
		return len(order)
	}
	faulted := r.Log[k-1]
	for i := k; i < len(r.Log); i++ {
		if owner(i) > owner(k-1) {
			viol(s, "fault-continued", fmt.Sprintf("after the fault at request %d (%s) the run went on to the next key: %s", k, faulted.String(), r.Log[i].String()), c)
			return
		}
	}
	cmd := faulted.Cmd()
	swallowOK := cmd == "ping"
	if r.Final == "ok" && !swallowOK {
		viol(s, "fault-swallowed", fmt.Sprintf("request %d (%s) met a fault (%s), the replay reported success", k, faulted.String(), c.FaultKind), c)
		return
	}
	pre := map[DK]bool{}
	for _, p := range c.Pre {
		pre[DK{p.DB, string(vfutil.UnHex(p.Key))}] = true
	}
	for _, dk := range c.Keys() {
		if pre[dk] && r.Before[dk] != nil && (c.Pol == "ignore" || c.Pol == "error") && !SameVal(r.Before[dk], r.After[dk]) {
			viol(s, c.Pol+"-modified", fmt.Sprintf("fault at request %d: policy %s, held key %q changed: %+v -> %+v", k, c.Pol, dk.Key, r.Before[dk], r.After[dk]), c)
			return
		}
		if SameVal(clean.Before[dk], clean.After[dk]) && !SameVal(r.Before[dk], r.After[dk]) {
			viol(s, "fault-touched", fmt.Sprintf("fault at request %d: cell %q, which the clean run leaves as it is, changed: %+v -> %+v", k, dk.Key, r.Before[dk], r.After[dk]), c)
			return
		}
	}
}

// CfgStats: one counter per value of every configuration option that reaches the replay code (dimension audit).
func CfgStats(s *vfutil.Session, c *Case) {
	b := func(name string, v bool) { s.Count(fmt.Sprintf("cfg_%s_%v", name, v)) }
	pol := c.Pol
	if c.UseRaw {
		pol = "raw:" + c.PolRaw
	}
	s.Count("cfg_keyExists_" + pol)
	b("keyExistsLog", c.Log)
	b("replayRdbEnableRestore", c.Restore)
	b("replaceHashTag", c.HashTag)
	b("bisync", c.Mode == "bisync" || c.Mode == "sendbisync")
	if c.MaxBulk < 1<<20 {
		s.Count("cfg_maxProtoBulkLen_small")
	} else {
		s.Count("cfg_maxProtoBulkLen_large")
	}
	s.Count("cfg_redisVersion_" + strings.SplitN(c.Ver, ".", 2)[0])
	switch {
	case c.TDB > 0:
		s.Count(fmt.Sprintf("cfg_targetDb_%d", c.TDB-1))
	default:
		s.Count("cfg_targetDb_unset")
	}
	s.Count(fmt.Sprintf("cfg_targetDbMap_%d_pairs", len(c.DBMap)))
	s.Count(fmt.Sprintf("cfg_replayRdbParallel_%d", c.Parallel))
	s.Count(fmt.Sprintf("cfg_rdbPipeSize_%d", c.PipeSize))
	s.Count(fmt.Sprintf("cfg_dbBlacklist_%d", len(c.FDB)))
	s.Count(fmt.Sprintf("cfg_keyPrefixBlacklist_%d", len(c.FPre)))
	switch {
	case c.Thr == 0:
		s.Count("cfg_chunkThreshold_production")
	case c.Thr == 1:
		s.Count("cfg_chunkThreshold_1")
	default:
		s.Count("cfg_chunkThreshold_small")
	}
	for _, k := range c.KVs {
		if len(vfutil.UnHex(k.Key)) == 0 {
			s.Count("in_empty_key")
		}
		if k.Type >= 1 && k.Type <= 4 && len(k.Items) == 0 {
			s.Count("in_empty_collection")
		}
		s.Count(fmt.Sprintf("in_expiry_code_%d", k.Exp))
	}
	for _, p := range c.Pre {
		if len(vfutil.UnHex(p.Key)) == 0 {
			s.Count("tgt_holds_empty_key")
		}
		s.Count("tgt_holds_" + p.Kind)
		b("tgt_held_has_ttl", p.TTL != 0)
		s.Count(fmt.Sprintf("tgt_held_in_db_%d", p.DB))
	}
	if len(c.Pre) == 0 {
		s.Count("tgt_empty")
	}
}

// GenCollide: random colliding snapshots and filters (simple values: string / list / hash).
func GenCollide(r *vfutil.Rand, mode string) *Case {
	ty := func() int { return vfutil.Pick(r, []int{0, 1, 4, 4}) }
	c := collideBase(mode, vfutil.Pick(r, CollideKinds), ty(), ty(), vfutil.Pick(r, []int{0, 2}))
	c.Pol = vfutil.Pick(r, []string{"replace", "ignore", "error"})
	c.Restore = r.Bool()
	c.Ver = vfutil.Pick(r, []string{"7.0.0", "4.0.0"})
	if r.Bool() {
		c.Thr = 1
	}
	if r.Chance(1, 3) {
		// a third key on the same cell / a second colliding pair
		k := c.KVs[len(c.KVs)-1]
		k2 := simpleKV(k.DB, string(vfutil.UnHex(k.Key)), ty(), "C", 0)
		if c.HashTag {
			k2.Key = vfutil.HexS("a{b0}")
		} else if c.TDB > 0 || len(c.DBMap) > 0 {
			k2.DB = 2
			if len(c.DBMap) > 0 {
				c.DBMap = append(c.DBMap, [2]int{2, 2})
			}
		}
		c.KVs = append(c.KVs, k2)
	}
	switch r.Intn(4) {
	case 0:
		c.FDB = []int{vfutil.Pick(r, []int{0, 1})}
	case 1:
		c.FPre = []string{vfutil.HexS(vfutil.Pick(r, []string{"o", "k", "ab", "{a"}))}
	}
	for _, k := range c.KVs {
		cell := c.Cell(k)
		if r.Chance(1, 3) {
			p := Pre{DB: cell.DB, Key: vfutil.HexS(cell.Key), Kind: vfutil.Pick(r, Kinds)}
			if r.Chance(1, 3) {
				p.TTL = int64(r.Range(1000, 900000))
			}
			c.Pre = append(c.Pre, p)
		}
		if c.Filtered(k.DB, vfutil.UnHex(k.Key)) && r.Bool() {
			c.Pre = append(c.Pre, Pre{DB: k.DB, Key: k.Key, Kind: vfutil.Pick(r, Kinds)})
		}
	}
	seenPre := map[string]bool{}
	var pre []Pre
	for _, p := range c.Pre {
		id := fmt.Sprintf("%d/%s", p.DB, p.Key)
		if !seenPre[id] {
			seenPre[id] = true
			pre = append(pre, p)
		}
	}
	c.Pre = pre
	return c
}

// ExhaustiveTwins: a split hash `h` in DB 0 and another split hash `h` in DB 1,
// the target holding none / DB 0's / DB 1's / both, every policy, restore on/off.
func ExhaustiveTwins(mode string) []*Case {
	var out []*Case
	h0 := KVSpec{DB: 0, Key: vfutil.HexS("h"), Type: 4, Exp: 2, Items: []string{vfutil.HexS("f1"), vfutil.HexS("v1"), vfutil.HexS("f2"), vfutil.HexS("v2"), vfutil.HexS("f3"), vfutil.HexS("v3")}}
	h1 := KVSpec{DB: 1, Key: vfutil.HexS("h"), Type: 4, Exp: 0, Items: []string{vfutil.HexS("g1"), vfutil.HexS("w1"), vfutil.HexS("g2"), vfutil.HexS("w2"), vfutil.HexS("g3"), vfutil.HexS("w3")}}
	for _, pol := range []string{"replace", "ignore", "error"} {
		for _, restore := range []bool{false, true} {
			for _, thr := range []int{1, 0} {
				for pm := 0; pm < 4; pm++ {
					c := &Case{Mode: mode, Pol: pol, Restore: restore, Thr: thr, MaxBulk: 1 << 29, Ver: "7.0.0", KVs: []KVSpec{h0, h1}}
					if pm&1 != 0 {
						c.Pre = append(c.Pre, Pre{DB: 0, Key: h0.Key, Kind: "hash", TTL: 60000})
					}
					if pm&2 != 0 {
						c.Pre = append(c.Pre, Pre{DB: 1, Key: h1.Key, Kind: "hash"})
					}
					out = append(out, c)
				}
			}
		}
	}
	return out
}

// ExhaustiveHashTag: replaceHashTag with a tagged key: a string, a list and a
// split hash × prior (none / rewritten key held / unrewritten key held) ×
// policy × restore.
func ExhaustiveHashTag(mode string) []*Case {
	var out []*Case
	// the last three are rewritten INTO the tool's namespaces: withheld by rdbReplayBisync (f9044ee) and rdbReplay (e867911), replayed only by RdbReplay.Replay called directly (mode plain)
	for _, key := range []string{"{tag}key", "ke{y}", "}k{", "{}", "}{", "{redis-gunyu-bisync:}x", "{/redis-gunyu}y", "redis-gunyu-{checkpoint}z"} {
		for _, ty := range []int{0, 1, 4, 15} {
			for _, pol := range []string{"replace", "ignore", "error"} {
				for _, restore := range []bool{false, true} {
					for pm := 0; pm < 3; pm++ {
						kv := KVSpec{Key: vfutil.HexS(key), Type: ty, Exp: 2}
						thr := 0
						switch ty {
						case 15:
							kv.Group = "g"
						case 0:
							kv.Str = vfutil.HexS("val")
						case 1:
							kv.Items = []string{vfutil.HexS("a"), vfutil.HexS("b")}
						case 4:
							kv.Items = []string{vfutil.HexS("f1"), vfutil.HexS("v1"), vfutil.HexS("f2"), vfutil.HexS("v2"), vfutil.HexS("f3"), vfutil.HexS("v3")}
							thr = 1
						}
						c := &Case{Mode: mode, Pol: pol, Restore: restore, Thr: thr, MaxBulk: 1 << 29, Ver: "7.0.0", KVs: []KVSpec{kv}, HashTag: true}
						tk := vfutil.Hex(c.TKey([]byte(key)))
						switch pm {
						case 1:
							c.Pre = []Pre{{Key: tk, Kind: kindOf(ty), TTL: 60000}}
						case 2:
							c.Pre = []Pre{{Key: vfutil.HexS(key), Kind: kindOf(ty)}} // the unrewritten name is somebody else's key
						}
						out = append(out, c)
					}
				}
			}
		}
	}
	return out
}

// ExhaustiveRerun: the restart of an interrupted full sync. Snapshot: a string, a hash in three chunks, a list; the first
// attempt is cut after EVERY number of entries (also between the chunks of the hash); policy × restore on/off × the hash
// held by the original target or not.
func ExhaustiveRerun(mode string) []*Case {
	var out []*Case
	for _, pol := range []string{"replace", "ignore", "error"} {
		for _, restore := range []bool{false, true} {
			for pm := 0; pm < 2; pm++ {
				for cut := 1; cut <= 6; cut++ {
					c := &Case{Mode: mode, Pol: pol, Restore: restore, Thr: 1, MaxBulk: 1 << 29, Ver: "7.0.0", Cut: cut,
						KVs: []KVSpec{{Key: vfutil.HexS("a"), Type: 0, Str: vfutil.HexS("1"), Exp: 2},
							{Key: vfutil.HexS("h"), Type: 4, Exp: 2, Items: []string{vfutil.HexS("f1"), vfutil.HexS("v1"), vfutil.HexS("f2"), vfutil.HexS("v2"), vfutil.HexS("f3"), vfutil.HexS("v3")}},
							{Key: vfutil.HexS("z"), Type: 1, Items: []string{vfutil.HexS("x"), vfutil.HexS("y")}}}}
					if pm == 1 {
						c.Pre = []Pre{{Key: vfutil.HexS("h"), Kind: "string", TTL: 60000}}
					}
					out = append(out, c)
				}
			}
		}
	}
	return out
}

// CheckRerun: the property on the restart. The leftovers of the first attempt are prior target content like any
// other: the rerun must treat every key it finds as the policy says (Check, with the target the first attempt left
// as the starting point). Counted, not judged: a key the ORIGINAL target did not hold and that ends different from
// the snapshot although the rerun succeeded (ignore keeps what a dead first attempt wrote of a chunked value).
func CheckRerun(s *vfutil.Session, c *Case, r *Run, orig map[DK]*vfdoubles.Val) {
	c2 := *c
	c2.Pre = nil
	for k, v := range r.Before { // r.Before = the target as the first attempt left it
		if v != nil {
			c2.Pre = append(c2.Pre, Pre{DB: k.DB, Key: vfutil.HexS(k.Key), Kind: "restored"})
		}
	}
	sort.Slice(c2.Pre, func(i, j int) bool { return c2.Pre[i].Key < c2.Pre[j].Key })
	Check(s, &c2, r)
	s.Count("mon_rerun_" + c.Pol)
	if r.Final == "ok" {
		for _, kv := range c.TargetKVs() {
			k := DK{kv.DB, string(kv.Key)}
			if orig[k] == nil && r.After[k] != nil && r.Before[k] != nil {
				full := false
				for _, via := range []bool{false, true} {
					if SameVal(ExpectVal(kv, via, BubbleNowMs), r.After[k]) {
						full = true
					}
				}
				if !full {
					s.Count("observed_rerun_" + c.Pol + "_ok_with_truncated_value_of_first_attempt")
				}
			}
		}
	} else if r.Final == "err-exists" && c.Pol == "error" {
		own := true
		for k, v := range r.Before {
			if v != nil && orig[k] != nil {
				own = false
			}
		}
		if own {
			s.Count("observed_rerun_error_fails_on_keys_of_first_attempt")
		}
	}
}

// ExhaustiveBig: a list of 120 elements (the expansion is pipelined and flushed every 100 commands) × policy × prior key.
func ExhaustiveBig(mode string) []*Case {
	var out []*Case
	var items []string
	for i := 0; i < 120; i++ {
		items = append(items, vfutil.HexS(fmt.Sprintf("i%03d", i)))
	}
	for _, pol := range []string{"replace", "ignore", "error"} {
		for pm := 0; pm < 2; pm++ {
			c := &Case{Mode: mode, Pol: pol, Restore: false, MaxBulk: 1 << 29, Ver: "7.0.0",
				KVs: []KVSpec{{Key: vfutil.HexS("big"), Type: 1, Exp: 2, Items: items}, {Key: vfutil.HexS("z"), Type: 0, Str: vfutil.HexS("2")}}}
			if pm == 1 {
				c.Pre = []Pre{{Key: vfutil.HexS("big"), Kind: "list", TTL: 60000}}
			}
			out = append(out, c)
		}
	}
	return out
}

// ExhaustiveModule: a module value (RESTORE or nothing) × policy × restore on/off × prior key × payload refused.
func ExhaustiveModule(mode string) []*Case {
	var out []*Case
	for _, key := range []string{"mk", "{m}k"} {
		for _, pol := range []string{"replace", "ignore", "error"} {
			for _, restore := range []bool{false, true} {
				for pm := 0; pm < 2; pm++ {
					for _, bad := range []bool{false, true} {
						if bad && !restore {
							continue
						}
						c := &Case{Mode: mode, Pol: pol, Restore: restore, MaxBulk: 1 << 29, Ver: "7.0.0", HashTag: key != "mk",
							KVs: []KVSpec{{Key: vfutil.HexS("a"), Type: 0, Str: vfutil.HexS("1")}, {Key: vfutil.HexS(key), Type: 7, Exp: 2}, {Key: vfutil.HexS("z"), Type: 0, Str: vfutil.HexS("2")}}}
						tk := vfutil.Hex(c.TKey([]byte(key)))
						if pm == 1 {
							c.Pre = []Pre{{Key: tk, Kind: "hash", TTL: 60000}}
						}
						if bad {
							c.Bad = []string{tk}
						}
						out = append(out, c)
					}
				}
			}
		}
	}
	return out
}

// ExhaustiveBad: the RESTORE path against a target that answers "Bad data
// format": every value type × prior kind × policy × snapshot expiry.
func ExhaustiveBad(mode string) []*Case {
	var out []*Case
	for _, c := range Exhaustive(mode) {
		if !c.Restore || c.Thr != 0 {
			continue
		}
		if len(c.Pre) > 0 && c.Pre[0].TTL != 0 {
			continue
		}
		c.Bad = []string{c.KVs[0].Key}
		out = append(out, c)
	}
	return out
}

// ExhaustivePolicyStrings: what config's fix() makes of the configured string.
func ExhaustivePolicyStrings(mode string) []*Case {
	var out []*Case
	for _, raw := range []string{"", "replace", "Replace", "REPLACE", "ignore", "Ignore", "IGNORE", "error", "Error", "ERROR", "bogus", "ignore ", "errorr"} {
		for _, restore := range []bool{false, true} {
			c := &Case{Mode: mode, Pol: NormalPolicy(raw), PolRaw: raw, UseRaw: true, Restore: restore, MaxBulk: 1 << 29, Ver: "7.0.0",
				KVs: []KVSpec{{Key: vfutil.HexS("key"), Type: 1, Items: []string{vfutil.HexS("a"), vfutil.HexS("b")}}},
				Pre: []Pre{{Key: vfutil.HexS("key"), Kind: "list"}}}
			out = append(out, c)
		}
	}
	return out
}

// Exhaustive small scope: one key of every type × pre-existing kind × TTL ×
// policy × restore × chunking × snapshot expiry
func Exhaustive(mode string) []*Case {
	var out []*Case
	kvOf := func(t int, exp int) KVSpec {
		kv := KVSpec{Key: vfutil.HexS("key"), Type: t, Exp: exp}
		switch t {
		case 0:
			kv.Str = vfutil.HexS("val")
		case 1, 2:
			kv.Items = []string{vfutil.HexS("a"), vfutil.HexS("b"), vfutil.HexS("c")}
		case 3:
			kv.Items = []string{vfutil.HexS("a"), vfutil.HexS("1"), vfutil.HexS("b"), vfutil.HexS("2.5")}
		case 4:
			kv.Items = []string{vfutil.HexS("f1"), vfutil.HexS("v1"), vfutil.HexS("f2"), vfutil.HexS("v2"), vfutil.HexS("f3"), vfutil.HexS("v3")}
		}
		return kv
	}
	for _, pol := range []string{"replace", "ignore", "error"} {
		for _, restore := range []bool{false, true} {
			for t := 0; t <= 4; t++ {
				for _, thr := range []int{0, 1} {
					if thr == 1 && t != 4 {
						continue
					}
					for _, exp := range []int{0, 1, 2} {
						for _, kind := range append([]string{""}, Kinds...) {
							for _, ttl := range []int64{0, 60000} {
								if kind == "" && ttl != 0 {
									continue
								}
								c := &Case{Mode: mode, Pol: pol, Restore: restore, Thr: thr, MaxBulk: 1 << 29, Ver: "7.0.0", KVs: []KVSpec{kvOf(t, exp)}}
								if kind != "" {
									c.Pre = []Pre{{Key: vfutil.HexS("key"), Kind: kind, TTL: ttl}}
								}
								out = append(out, c)
							}
						}
					}
				}
			}
		}
	}
	return out
}

// Stats registers coverage counters for one executed case.
func Stats(s *vfutil.Session, c *Case, r *Run, src string) {
	s.Count("case_" + src)
	CfgStats(s, c)
	s.Count("mode_" + c.Mode)
	s.Count("pol_" + c.Pol)
	if c.Restore {
		s.Count("restore_on")
	} else {
		s.Count("restore_off")
	}
	chunked := false
	for _, e := range r.Ents {
		if e.Splited {
			chunked = true
		}
	}
	if chunked {
		s.Count("chunked_value")
	}
	if len(c.Pre) > 0 {
		s.Distinct(c.JSON())
	}
	if c.Collides() {
		s.Count("collide_" + c.Pol)
		switch {
		case c.TDB > 0:
			s.Count("collide_by_targetdb")
		case len(c.DBMap) > 0:
			s.Count("collide_by_dbmap")
		case c.HashTag:
			s.Count("collide_by_hashtag")
		default:
			s.Count("collide_by_dupkey")
		}
	}
	if c.PipeSize > 0 {
		per := 1
		if c.Parallel > 0 && c.PipeSize/c.Parallel > 1 {
			per = c.PipeSize / c.Parallel
		}
		s.Count(fmt.Sprintf("backpressure_pipe_%d_per_worker", per))
	}
	if len(c.FDB) > 0 {
		s.Count("filter_db")
	}
	if len(c.FPre) > 0 {
		s.Count("filter_key_prefix")
	}
}
