//go:build verif

package rdbrestore

// C20 — pre-existing target keys are handled as the configured policy says, on
// any path. The REAL RdbReplay.Replay runs (inside a testing/synctest bubble,
// so that time.Now() is the fixed bubble epoch) over the entries the REAL
// rdb.Loader produces from a generated snapshot, against the shared target
// double pre-populated with same-type / other-type keys with and without TTL.
//
// Line protocol (driver GunYu.Drive.C20), see pkg/vfc20/case.go (Emit):
//   c20 tag=<i> mode=plain pol=<r|i|e> restore=<0|1> maxbulk=<n> ver5=<0|1> now=<ms>
//       pre=<.|db:hexkey:exp{,…}> fin=<.|db:hexkey{,…}> ents=<entry{;entry}>
//   → "#<i> q <cmd> <hexargs…>"   one line per request the target received
//     "#<i> e<j> <ok|err-exists|err-module|err-other>"  after the requests of entry j (stops at the first error)
//     "#<i> r <outcome>"           outcome of the whole replay
//     "#<i> f <db> <hexkey> <absent|old:<exp>|new:<r|n>:<exp>>"  final state of every snapshot / pre-existing key
//
// Monitor (independent of the Lean model): vfc20.Check.

import (
	"bytes"
	"encoding/json"
	"fmt"
	"os"
	"strings"
	"testing"
	"testing/synctest"
	"time"

	"github.com/mgtv-tech/redis-GunYu/config"
	"github.com/mgtv-tech/redis-GunYu/pkg/rdb"
	"github.com/mgtv-tech/redis-GunYu/pkg/redis/client/conn"
	"github.com/mgtv-tech/redis-GunYu/pkg/vfc20"
	"github.com/mgtv-tech/redis-GunYu/pkg/vfdoubles"
	"github.com/mgtv-tech/redis-GunYu/pkg/vfutil"
)

func vfRunCase(t *testing.T, c *vfc20.Case) *vfc20.Run {
	res := c.Prepare()
	if res.LoadErr != nil {
		return res
	}
	synctest.Test(t, func(t *testing.T) {
		vfc20.SettleClock()
		tg := vfdoubles.NewTarget()
		tg.XGroupKey = true
		tg.SetNow(time.Now().UnixMilli())
		for _, p := range c.Pre {
			vfc20.SeedPre(tg, p)
		}
		for _, b := range c.Bad {
			tg.BadRestore[string(vfutil.UnHex(b))] = true
		}
		res.Snapshot(tg, c, res.Before)
		if c.Cut > 0 {
			// the first attempt: a replayer of its own replays the first Cut entries and is gone
			first := c.Prepare()
			cli0 := conn.VerifNewRedisConn(tg.Dial(), config.RedisConfig{})
			pol0, _ := c.RealPol()
			rr0 := &RdbReplay{Client: cli0, RedisVersion: c.Ver, EnableRestore: c.Restore, MaxProtoBulkLen: c.MaxBulk,
				KeyExists: pol0, KeyExistsLog: c.Log, ReplaceHashTag: c.HashTag}
			for i, e := range first.Bins {
				if i >= c.Cut || rr0.Replay(e) != nil {
					break
				}
			}
			cli0.Close()
			synctest.Wait()
			res.Orig = res.Before
			res.Before = map[vfc20.DK]*vfdoubles.Val{}
			res.Snapshot(tg, c, res.Before) // what the restart finds
		}
		nSeed := tg.LogLen()
		rc := config.RedisConfig{}
		cli := conn.VerifNewRedisConn(tg.Dial(), rc)
		pol, perr := c.RealPol()
		if perr != nil {
			res.LoadErr = perr
			return
		}
		rr := &RdbReplay{Client: cli, RedisVersion: c.Ver, EnableRestore: c.Restore, MaxProtoBulkLen: c.MaxBulk,
			KeyExists: pol, KeyExistsLog: c.Log, ReplaceHashTag: c.HashTag}
		res.Final = "ok"
		next := func(i int) *rdb.BinEntry {
			if i < len(res.Bins) {
				return res.Bins[i]
			}
			return nil
		}
		if c.Interleave {
			// parse entry n+1 only after entry n has been replayed
			if c.Thr > 0 {
				old := rdb.VerifSetMaxBinEntryBuffer(c.Thr)
				defer rdb.VerifSetMaxBinEntryBuffer(old)
			}
			l := rdb.NewLoader(bytes.NewReader(vfc20.BuildRDB(c.KVList(), vfc20.Opts{Aux: true})), rdb.WithTargetRedisVersion(c.Ver))
			if err := l.Header(); err != nil {
				res.LoadErr = err
				return
			}
			res.Ents = nil
			var firstKey []byte
			next = func(i int) *rdb.BinEntry {
				e, err := l.Next()
				if err != nil || e == nil {
					return nil
				}
				res.Ents = append(res.Ents, vfc20.Flatten(e))
				if e.FirstBin() {
					firstKey = append([]byte(nil), e.Key...)
				} else if !bytes.Equal(firstKey, e.Key) {
					res.BinKeyChanged = fmt.Sprintf("a later bin of %q was delivered by the loader with key %q", firstKey, e.Key)
				}
				return e
			}
		}
		for i := 0; ; i++ {
			e := next(i)
			if e == nil {
				break
			}
			srcKey := append([]byte(nil), e.Key...) // read BEFORE the call: the monitor never depends on what Replay does to its argument
			err := rr.Replay(e)
			res.EntEnd = append(res.EntEnd, tg.LogLen()-nSeed)
			en, key := vfc20.ErrEnum(err)
			res.Errs = append(res.Errs, en)
			if err != nil {
				res.Final, res.FailKey, res.ErrText = en, string(c.TKey(srcKey)), err.Error()
				if key != "" {
					res.FailKey = key // the key the error message names
				}
				break
			}
		}
		cli.Close()
		synctest.Wait()
		tg.CloseAll()
		res.Log = tg.LogCopy()[nSeed:]
		res.Snapshot(tg, c, res.After)
	})
	return res
}

func TestVerifC20(t *testing.T) {
	s := vfutil.NewSession("C20")
	defer s.Close()
	idx := 0
	run := func(c *vfc20.Case, src string) {
		c.Mode = "plain"
		// Replay itself never selects a DB and has no filter: one keyspace; one value per key name, unless the case is
		// about two snapshot keys on one target key (then they all stay: a key twice in one DB)
		collide := c.Collides()
		c.TDB, c.DBMap, c.FDB, c.FPre = 0, nil, nil, nil
		seenK := map[string]bool{}
		var kvs []vfc20.KVSpec
		for _, kv := range c.KVs {
			kv.DB = 0
			tk := string(c.TKey(vfutil.UnHex(kv.Key)))
			if !seenK[tk] || collide {
				seenK[tk] = true
				kvs = append(kvs, kv)
			}
		}
		c.KVs = kvs
		seenP := map[string]bool{}
		var pre []vfc20.Pre
		for _, pr := range c.Pre {
			pr.DB = 0
			if !seenP[pr.Key] {
				seenP[pr.Key] = true
				pre = append(pre, pr)
			}
		}
		c.Pre = pre
		r := vfRunCase(t, c)
		if r.LoadErr != nil {
			s.Violate("generator-rdb-rejected", r.LoadErr.Error(), c.Replay())
			return
		}
		if c.Cut > 0 {
			found := r.Before
			r.Before = r.Orig // the model's answer lines speak about the original target
			vfc20.Emit(s, idx, c, r)
			idx++
			r.Before = found
			vfc20.CheckRerun(s, c, r, r.Orig)
			vfc20.Stats(s, c, r, src)
			return
		}
		vfc20.Emit(s, idx, c, r)
		idx++
		if r.BinKeyChanged != "" {
			s.Count("viol_bin-key-changed")
			s.Violate("bin-key-changed", "the bins of one value must carry the same key (it routes them to one worker and is rewritten per bin): "+r.BinKeyChanged, c.Replay())
		}
		vfc20.Monitors(s, c, r)
		vfc20.Stats(s, c, r, src)
	}
	if p := os.Getenv("VERIF_REPLAY"); p != "" {
		if b, err := os.ReadFile(p); err == nil {
			var rp struct {
				Replay struct {
					Case string `json:"case"`
				} `json:"replay"`
			}
			if json.Unmarshal(b, &rp) == nil && rp.Replay.Case != "" {
				var c vfc20.Case
				if json.Unmarshal([]byte(rp.Replay.Case), &c) == nil {
					run(&c, "replay")
				}
			}
		}
	}
	for _, l := range vfutil.Corpus("C20") {
		if !strings.HasPrefix(l, "plain ") {
			continue
		}
		var c vfc20.Case
		if err := json.Unmarshal([]byte(strings.TrimPrefix(l, "plain ")), &c); err != nil {
			t.Fatalf("corpus line: %v", err)
		}
		run(&c, "corpus")
	}
	for _, c := range vfc20.Exhaustive("plain") {
		run(c, "exhaustive")
	}
	for _, c := range vfc20.ExhaustiveBad("plain") {
		run(c, "exhaustive-bad-data")
	}
	for _, c := range vfc20.ExhaustiveModule("plain") {
		run(c, "exhaustive-module")
	}
	for _, c := range vfc20.ExhaustiveEmpty("plain") {
		run(c, "exhaustive-empty-collection")
	}
	for _, c := range vfc20.ExhaustiveExpiry("plain") {
		run(c, "exhaustive-expiry-boundary")
	}
	for _, c := range vfc20.ExhaustiveBig("plain") {
		run(c, "exhaustive-big")
	}
	for _, c := range vfc20.ExhaustiveRerun("plain") {
		run(c, "exhaustive-rerun")
	}
	for _, c := range vfc20.ExhaustivePolicyStrings("plain") {
		run(c, "exhaustive-policy-strings")
	}
	for _, c := range vfc20.ExhaustiveHashTag("plain") {
		run(c, "exhaustive-hashtag")
	}
	// two snapshot keys replayed to one key ({a}b0 + ab0 under replaceHashTag; a key twice)
	for _, c := range vfc20.ExhaustiveCollide("plain") {
		run(c, "exhaustive-collide")
	}
	// the same scopes with parser and replayer alternating (entry n+1 parsed after entry n was replayed)
	for _, c := range vfc20.ExhaustiveHashTag("plain") {
		c.Interleave = true
		run(c, "exhaustive-hashtag-interleaved")
	}
	for _, key := range []string{"{{k0}}", "{k1", "{a}{b}", "k"} {
		for _, pol := range []string{"replace", "ignore", "error"} {
			for _, ht := range []bool{true, false} {
				for pm := 0; pm < 2; pm++ {
					c := &vfc20.Case{Mode: "plain", Pol: pol, Thr: 1, MaxBulk: 1 << 29, Ver: "7.0.0", HashTag: ht, Interleave: true,
						KVs: []vfc20.KVSpec{{Key: vfutil.HexS(key), Type: 4, Exp: 2, Items: []string{vfutil.HexS("f0"), vfutil.HexS("a"), vfutil.HexS("f1"), vfutil.HexS("b"), vfutil.HexS("f2"), vfutil.HexS("c")}},
							{Key: vfutil.HexS("z"), Type: 0, Str: vfutil.HexS("v")}}}
					if pm == 1 {
						c.Pre = []vfc20.Pre{{Key: vfutil.Hex(c.TKey([]byte(key))), Kind: "hash", TTL: 60000}}
					}
					run(c, "interleaved-split")
				}
			}
		}
	}
	r := vfutil.NewRand(vfutil.Seed())
	n := vfutil.Scale(1500, 30000)
	for i := 0; i < n; i++ {
		if i%8 == 7 {
			run(vfc20.GenCollide(r.Fork(), "plain"), "random-collide")
			continue
		}
		run(vfc20.GenCase(r.Fork(), "plain", 1), "random")
	}
}
