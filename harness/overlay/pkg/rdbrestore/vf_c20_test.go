//go:build verif

package rdbrestore

// C20 — pre-existing target keys are handled as the configured policy says, on
// any path. The REAL RdbReplay.Replay runs (inside a testing/synctest bubble,
// so that time.Now() is the fixed bubble epoch) over the entries the REAL
// rdb.Loader produces from a generated snapshot, against the shared target
// double pre-populated with same-type / other-type keys with and without TTL.
//
// Line protocol (driver GunYu.Drive.C20), see pkg/vfc20/case.go (Emit):
//   c20 tag=<i> mode=plain pol=<r|i|e> restore=<0|1> maxbulk=<n> ver5=<0|1> now=<ms>
//       pre=<.|db:hexkey:exp{,…}> fin=<.|db:hexkey{,…}> ents=<entry{;entry}>
//   → "#<i> q <cmd> <hexargs…>"   one line per request the target received
//     "#<i> e<j> <ok|err-exists|err-module|err-other>"  after the requests of entry j (stops at the first error)
//     "#<i> r <outcome>"           outcome of the whole replay
//     "#<i> f <db> <hexkey> <absent|old:<exp>|new:<r|n>:<exp>>"  final state of every snapshot / pre-existing key
//
// Monitor (independent of the Lean model): vfc20.Check.

import (
	"encoding/json"
	"os"
	"strings"
	"testing"
	"testing/synctest"
	"time"

	"github.com/mgtv-tech/redis-GunYu/config"
	"github.com/mgtv-tech/redis-GunYu/pkg/redis/client/conn"
	"github.com/mgtv-tech/redis-GunYu/pkg/vfc20"
	"github.com/mgtv-tech/redis-GunYu/pkg/vfdoubles"
	"github.com/mgtv-tech/redis-GunYu/pkg/vfutil"
)

func vfRunCase(t *testing.T, c *vfc20.Case) *vfc20.Run {
	res := c.Prepare()
	if res.LoadErr != nil {
		return res
	}
	synctest.Test(t, func(t *testing.T) {
		vfc20.SettleClock()
		tg := vfdoubles.NewTarget()
		tg.SetNow(time.Now().UnixMilli())
		for _, p := range c.Pre {
			vfc20.SeedPre(tg, p)
		}
		for _, b := range c.Bad {
			tg.BadRestore[string(vfutil.UnHex(b))] = true
		}
		res.Snapshot(tg, c, res.Before)
		nSeed := tg.LogLen()
		rc := config.RedisConfig{}
		cli := conn.VerifNewRedisConn(tg.Dial(), rc)
		pol, perr := c.RealPol()
		if perr != nil {
			res.LoadErr = perr
			return
		}
		rr := &RdbReplay{Client: cli, RedisVersion: c.Ver, EnableRestore: c.Restore, MaxProtoBulkLen: c.MaxBulk,
			KeyExists: pol, KeyExistsLog: c.Log, ReplaceHashTag: c.HashTag}
		res.Final = "ok"
		for _, e := range res.Bins {
			err := rr.Replay(e)
			res.EntEnd = append(res.EntEnd, tg.LogLen()-nSeed)
			en, key := vfc20.ErrEnum(err)
			res.Errs = append(res.Errs, en)
			if err != nil {
				res.Final, res.FailKey, res.ErrText = en, string(e.Key), err.Error()
				_ = key
				break
			}
		}
		cli.Close()
		synctest.Wait()
		tg.CloseAll()
		res.Log = tg.LogCopy()[nSeed:]
		res.Snapshot(tg, c, res.After)
	})
	return res
}

func TestVerifC20(t *testing.T) {
	s := vfutil.NewSession("C20")
	defer s.Close()
	idx := 0
	run := func(c *vfc20.Case, src string) {
		c.Mode = "plain"
		// Replay itself never selects a DB: one keyspace, one value per key name
		seenK := map[string]bool{}
		var kvs []vfc20.KVSpec
		for _, kv := range c.KVs {
			kv.DB = 0
			tk := string(c.TKey(vfutil.UnHex(kv.Key)))
			if !seenK[tk] {
				seenK[tk] = true
				kvs = append(kvs, kv)
			}
		}
		c.KVs = kvs
		seenP := map[string]bool{}
		var pre []vfc20.Pre
		for _, pr := range c.Pre {
			pr.DB = 0
			if !seenP[pr.Key] {
				seenP[pr.Key] = true
				pre = append(pre, pr)
			}
		}
		c.Pre = pre
		r := vfRunCase(t, c)
		if r.LoadErr != nil {
			s.Violate("generator-rdb-rejected", r.LoadErr.Error(), c.Replay())
			return
		}
		vfc20.Emit(s, idx, c, r)
		idx++
		vfc20.Check(s, c, r)
		vfc20.Stats(s, c, r, src)
	}
	if p := os.Getenv("VERIF_REPLAY"); p != "" {
		if b, err := os.ReadFile(p); err == nil {
			var rp struct {
				Replay struct {
					Case string `json:"case"`
				} `json:"replay"`
			}
			if json.Unmarshal(b, &rp) == nil && rp.Replay.Case != "" {
				var c vfc20.Case
				if json.Unmarshal([]byte(rp.Replay.Case), &c) == nil {
					run(&c, "replay")
				}
			}
		}
	}
	for _, l := range vfutil.Corpus("C20") {
		if !strings.HasPrefix(l, "plain ") {
			continue
		}
		var c vfc20.Case
		if err := json.Unmarshal([]byte(strings.TrimPrefix(l, "plain ")), &c); err != nil {
			t.Fatalf("corpus line: %v", err)
		}
		run(&c, "corpus")
	}
	for _, c := range vfc20.Exhaustive("plain") {
		run(c, "exhaustive")
	}
	for _, c := range vfc20.ExhaustiveBad("plain") {
		run(c, "exhaustive-bad-data")
	}
	for _, c := range vfc20.ExhaustivePolicyStrings("plain") {
		run(c, "exhaustive-policy-strings")
	}
	for _, c := range vfc20.ExhaustiveHashTag("plain") {
		run(c, "exhaustive-hashtag")
	}
	r := vfutil.NewRand(vfutil.Seed())
	n := vfutil.Scale(1500, 30000)
	for i := 0; i < n; i++ {
		run(vfc20.GenCase(r.Fork(), "plain", 1), "random")
	}
}
