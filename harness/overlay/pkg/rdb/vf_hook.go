//go:build verif

package rdb

// VerifSetMaxBinEntryBuffer lowers (or restores) the value-chunking threshold
// `maxBinEntryBuffer` (16 MiB in production) so that split values can be
// explored cheaply. Returns the previous value.
func VerifSetMaxBinEntryBuffer(n int) int {
	old := maxBinEntryBuffer
	maxBinEntryBuffer = n
	return old
}

// VerifMaxBinEntryBuffer reads the current threshold.
func VerifMaxBinEntryBuffer() int { return maxBinEntryBuffer }
