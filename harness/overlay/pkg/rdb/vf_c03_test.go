//go:build verif

package rdb

// C03, decoder-level correspondence (L1): the real ParseRdb / Loader.Next /
// ReadBuffer / ExecCmd / CreateValueDump against the Lean decoder model on
//   * snapshot files the Lean encoder (the format specification) produces
//     from generated dataset descriptions,
//   * the Redis-produced fixture blobs of loader_test.go,
//   * truncated / byte-altered variants,
// plus digest.New() and CreateValueDump against an independent bitwise CRC64.

import (
	"bytes"
	"fmt"
	"os"
	"regexp"
	"strings"
	"sync/atomic"
	"testing"
	"time"

	"github.com/mgtv-tech/redis-GunYu/pkg/digest"
	"github.com/mgtv-tech/redis-GunYu/pkg/vfc03"
	"github.com/mgtv-tech/redis-GunYu/pkg/vfutil"
)

type vfC03L1Cfg struct {
	thr    int
	tgt    int
	minor  int
	fnex   int // 0 replace, 1 flush, 2 append
	modaux bool
}

func (c vfC03L1Cfg) tgtTok() string {
	if c.minor == 0 {
		return fmt.Sprint(c.tgt)
	}
	return fmt.Sprintf("%d.%d", c.tgt, c.minor)
}

func (c vfC03L1Cfg) String() string {
	m := 0
	if c.modaux {
		m = 1
	}
	return fmt.Sprintf("%d %s %d %d", c.thr, c.tgtTok(), c.fnex, m)
}

// vfC03L1 runs the real parser on data and renders the decoder view.
func vfC03L1(data []byte, c vfC03L1Cfg) (lines []string, timedOut bool) {
	old := VerifSetMaxBinEntryBuffer(c.thr)
	defer VerifSetMaxBinEntryBuffer(old)
	fe := []string{"replace", "flush", "append"}[c.fnex]
	// WithStreamIdleConsumers: what both production call sites pass (syncer/output.go rdbParseOptions, cmd/rdb.go;
	// source fact idle_consumer_option_sites) - the model is of the tool as it runs (repair of C03-F1)
	opts := []RdbParseOption{WithTargetRedisVersion(fmt.Sprintf("%d.%d.0", c.tgt, c.minor)), WithFunctionExists(fe), WithStreamIdleConsumers()}
	if c.modaux {
		opts = append(opts, WithFailOnModuleAux())
	}
	done := make(chan []string, 1)
	// progress: bytes the parser has read, entries and commands it has produced
	var rbytes, steps atomic.Int64
	go func() {
		var out []string
		pipe := ParseRdb(bytes.NewReader(data), &rbytes, 4, opts...)
		for e := range pipe {
			steps.Add(1)
			if e.Err != nil {
				out = append(out, "err")
				break
			}
			if e.Done {
				out = append(out, "done")
				break
			}
			b2i := func(b bool) int {
				if b {
					return 1
				}
				return 0
			}
			out = append(out, fmt.Sprintf("e db=%d key=%s t=%d exp=%d idle=%d freq=%d first=%d split=%d dumpsz=%d dump=%s",
				e.DB, vfutil.Hex(e.Key), e.Type, e.ExpireAt, e.IdleTime, e.Freq, b2i(e.FirstBin()),
				b2i(e.ObjectParser.IsSplited()), e.ObjectParser.ValueDumpSize(), vfutil.Hex(e.DumpValue())))
			// a listpack-typed value whose blob is an integer-encoded string: the outcome depends on
			// the capacity of the byte slice Go built for it (see capDependent in Drive/C03.lean)
			if dv := e.DumpValue(); (e.Type == 16 || e.Type == 17 || e.Type == 20) && len(dv) > 1 &&
				(dv[1] == 0xC0 || dv[1] == 0xC1 || dv[1] == 0xC2) {
				out = append(out, "xcap")
				continue
			}
			var cmds []string
			ok := func() (ok bool) {
				defer func() {
					if r := recover(); r != nil {
						ok = false
					}
				}()
				e.ObjectParser.ExecCmd(func(cmd string, args ...interface{}) error {
					steps.Add(1)
					cmds = append(cmds, "c "+vfc03.CanonCmd(cmd, args))
					return nil
				})
				return true
			}()
			if ok {
				out = append(out, cmds...)
			} else {
				out = append(out, "xerr")
			}
		}
		// drain (the producer goroutine must not block forever)
		go func() {
			for range pipe {
			}
		}()
		done <- out
	}()
	// No wall-clock bound on a parse that makes progress (a loaded machine is slow, not wrong):
	// the parser is declared hung only when, over two consecutive 60 s windows, it has neither
	// read a byte nor produced an entry or a command.
	last, idle := int64(-1), 0
	for {
		select {
		case out := <-done:
			return out, false
		case <-time.After(60 * time.Second):
			cur := rbytes.Load() + steps.Load()
			if cur == last {
				idle++
				if idle >= 2 {
					return nil, true
				}
			} else {
				idle, last = 0, cur
			}
		}
	}
}

func vfC03Fixtures() [][]byte {
	src, err := os.ReadFile("loader_test.go")
	if err != nil {
		return nil
	}
	re := regexp.MustCompile(`"(5245444953[0-9a-fA-F]+)"`)
	var out [][]byte
	for _, m := range re.FindAllSubmatch(src, -1) {
		if len(m[1])%2 == 0 {
			out = append(out, vfutil.UnHex(strings.ToLower(string(m[1]))))
		}
	}
	return out
}

func TestVerifC03Dec(t *testing.T) {
	s := vfutil.NewSession("C03dec")
	defer s.Close()
	r := vfutil.NewRand(vfutil.Seed())
	idx := 0
	// tagged op: "<name> <idx> <rest>", output lines prefixed "#<idx> "
	top := func(name, rest string, out []string) {
		tagged := make([]string, len(out))
		for i, l := range out {
			tagged[i] = fmt.Sprintf("#%d %s", idx, l)
		}
		s.Op(fmt.Sprintf("%s %d %s", name, idx, rest), tagged...)
		idx++
	}
	plain := func(op string, out ...string) { s.Op(op, out...); idx++ }

	// ---- CRC64 and DUMP framing against the bitwise oracle
	for i := 0; i < vfutil.Scale(300, 20000); i++ {
		b := r.Bytes(r.Intn(80))
		d := digest.New()
		// split writes: the digest must not depend on fragmentation
		cut := r.Intn(len(b) + 1)
		d.Write(b[:cut])
		d.Write(b[cut:])
		got, want := d.Sum64(), vfc03.Crc64(b)
		plain("crc64 "+vfutil.Hex(b), fmt.Sprintf("%d %d", got, want))
		if got != want {
			s.Violate("crc64", "digest differs from bitwise CRC-64/Jones",
				map[string]interface{}{"input_hex": vfutil.Hex(b), "got": got, "want": want})
		}
	}
	for i := 0; i < vfutil.Scale(200, 5000); i++ {
		tp := byte(r.Intn(27))
		raw := r.Bytes(r.Intn(60))
		p := CreateValueDump(tp, raw)
		plain(fmt.Sprintf("dump %d %s", tp, vfutil.Hex(raw)), vfutil.Hex(p))
		body := append(append([]byte{tp}, raw...), 6, 0)
		c := vfc03.Crc64(body)
		want := append([]byte{}, body...)
		for k := 0; k < 8; k++ {
			want = append(want, byte(c>>(8*uint(k))))
		}
		if !bytes.Equal(p, want) {
			s.Violate("dump-framing", "CreateValueDump is not type+raw+version+crc64",
				map[string]interface{}{"type": tp, "raw_hex": vfutil.Hex(raw), "got": vfutil.Hex(p), "want": vfutil.Hex(want)})
		}
		s.Count("dump")
	}

	runL1 := func(rest string, data []byte, c vfC03L1Cfg, src string) []string {
		out, to := vfC03L1(data, c)
		if to {
			s.Count("hang_" + src)
			// a hang on a well-formed snapshot means the sync never completes (C03);
			// on a damaged one it belongs to C04 (truncation/alteration) and is only counted here
			if src != "damaged" {
				s.Violate("parser-hang", "the parser made no progress (no byte read, no entry, no command) for 120 s",
					map[string]interface{}{"cfg": c.String(), "file_hex": vfutil.Hex(data)})
			}
			return nil
		}
		top("l1", c.String()+" "+rest, out)
		s.Count("l1_" + src)
		for _, l := range out {
			if strings.HasPrefix(l, "e ") {
				f := strings.Fields(l)
				s.Count("type_" + strings.TrimPrefix(f[3], "t="))
				if strings.Contains(l, "split=1") {
					s.Count("split_entries")
				}
			} else if l == "xerr" || l == "err" {
				s.Count("l1_" + l)
			}
		}
		return out
	}
	cfgs := func() vfC03L1Cfg {
		c := vfC03L1Cfg{thr: vfutil.Pick(r, []int{1, 5, 20, 100, 16 << 20}), tgt: vfutil.Pick(r, []int{4, 5, 6, 7, 8}),
			fnex: r.Intn(3), modaux: r.Bool()}
		if c.tgt == 6 && r.Bool() {
			c.minor = 2
		}
		return c
	}

	// ---- corpus: "l1 <cfg…> raw <hex>" / "l1 <cfg…> v …" lines
	for _, l := range append(vfc03.ReplayOps(), vfutil.Corpus("C03")...) {
		f := strings.Fields(l)
		if len(f) < 7 || f[0] != "l1" {
			continue
		}
		var c vfC03L1Cfg
		var m int
		var tgtTok string
		fmt.Sscanf(strings.Join(f[1:5], " "), "%d %s %d %d", &c.thr, &tgtTok, &c.fnex, &m)
		if p := strings.SplitN(tgtTok, ".", 2); len(p) == 2 {
			fmt.Sscanf(p[0], "%d", &c.tgt)
			fmt.Sscanf(p[1], "%d", &c.minor)
		} else {
			fmt.Sscanf(tgtTok, "%d", &c.tgt)
		}
		c.modaux = m == 1
		rest := strings.Join(f[5:], " ")
		var data []byte
		if f[5] == "raw" {
			data = vfutil.UnHex(f[6])
		} else {
			outs, err := vfc03.Encode([]string{rest})
			if err != nil {
				t.Fatalf("corpus line not encodable: %v %q", err, l)
			}
			if outs[0].Bad {
				s.Count("corpus_or_replay_not_wellformed")
				continue
			}
			data = outs[0].File
		}
		runL1(rest, data, c, "corpus")
	}

	// ---- Redis-produced fixtures of loader_test.go (second corpus: guards the encoders)
	fx := vfC03Fixtures()
	s.Add("fixtures", len(fx))
	for _, d := range fx {
		for _, c := range []vfC03L1Cfg{{16 << 20, 7, 0, 0, false}, {16 << 20, 4, 0, 1, true}, {3, 7, 0, 2, false}} {
			runL1("raw "+vfutil.Hex(d), d, c, "fixture")
		}
	}

	// ---- generated descriptions, encoded by the Lean specification
	g := vfc03.NewGen(r.Fork())
	n := vfutil.Scale(250, 5200)
	var dss []*vfc03.Dataset
	var descs []string
	for i := 0; i < n; i++ {
		force := 0
		if i%3 == 1 {
			force = i/3 + 1 // forced degenerate-but-legal shapes in turn (vfc03.FileOpts.Force)
		}
		ds := g.File(vfc03.FileOpts{MaxKeys: 5, Now: 946684800000, MultiDB: true, Modules: true, Huge: i == n/2, Force: force,
			Many: map[int]string{n/3: "slpmany", 2*n/3: "hlpmany"}[i], Streams: i%5 == 1,
			Versions: []int{1, 6, 7, 8, 9, 10, 11, 12, 13}})
		dss = append(dss, ds)
		descs = append(descs, ds.Desc)
	}
	outs, err := vfc03.Encode(descs)
	if err != nil {
		t.Fatalf("encode: %v", err)
	}
	for i, o := range outs {
		if o.Bad || o.File == nil {
			t.Fatalf("generator produced a description the encoder rejects: %s", descs[i])
		}
		c := cfgs()
		out := runL1(descs[i], o.File, c, "gen")
		for _, k := range dss[i].Keys {
			s.Count("kind_" + k.Kind)
		}
		for _, d := range dss[i].Dims {
			s.Count("dim_forced_" + d)
		}
		if dss[i].Functions > 0 {
			s.Count("dim_function_libraries")
		}
		s.Count(fmt.Sprintf("cfg_maxBinEntryBuffer_%d", c.thr))
		s.Count(fmt.Sprintf("cfg_targetVersion_%d.%d", c.tgt, c.minor))
		s.Count(fmt.Sprintf("cfg_moduleAuxPolicyFail_%d", map[bool]int{false: 0, true: 1}[c.modaux]))
		// monitor (decoder level): every key of the dataset is emitted, in order, with
		// its DB, absolute expiry and — when not split — a payload equal to
		// type + serialization + footer (independent CRC64)
		vfC03CheckL1(s, dss[i], o, out, c, descs[i])
		// ---- streams: the SPECIFICATION's expected expansion (Lean StreamE.cmds, proved equal to the
		// model's execStream and replayed through the oracle by stream_roundtrip) against the real
		// StreamParser.ExecCmd, key by key ("svc" op), for every stream that passes the verified
		// soundness test; coverage classes of the generated streams
		if !(dss[i].ModuleAux && c.modaux) {
			var blocks [][]string // the "c" lines of every key entry, in file order
			for _, l := range out {
				if strings.HasPrefix(l, "e ") {
					if strings.Contains(l, " t=250 ") || strings.Contains(l, " t=245 ") {
						blocks = append(blocks, nil) // placeholder, dropped below
						blocks[len(blocks)-1] = []string{"#skip"}
						continue
					}
					if strings.Contains(l, " first=1 ") {
						blocks = append(blocks, []string{})
					}
					continue
				}
				if len(blocks) > 0 && strings.HasPrefix(l, "c ") && (len(blocks[len(blocks)-1]) == 0 || blocks[len(blocks)-1][0] != "#skip") {
					blocks[len(blocks)-1] = append(blocks[len(blocks)-1], l)
				}
			}
			var keyBlocks [][]string
			for _, b := range blocks {
				if len(b) == 1 && b[0] == "#skip" {
					continue
				}
				keyBlocks = append(keyBlocks, b)
			}
			if len(keyBlocks) != len(dss[i].Keys) {
				s.Count("svc_skipped_entry_blocks_do_not_match_keys")
			}
			if len(keyBlocks) == len(dss[i].Keys) {
				for j, k := range dss[i].Keys {
					if k.Kind != "stream" {
						continue
					}
					for _, cn := range k.Val.Shape.Counters() {
						s.Count(cn)
					}
					if !o.Keys[j].Sound {
						s.Count("stream_not_sound_skipped")
						continue
					}
					top("svc", fmt.Sprintf("%s %s %s", c.tgtTok(), vfutil.Hex(k.Key), k.ObjDesc), keyBlocks[j])
					s.Count("svc_stream_expansions_vs_spec")
				}
			}
		}
		// ---- damaged variants (decoder model on malformed input)
		// (files with old-format zset scores are left out: the model covers only
		// integer / inf / nan score strings, a damaged digit may still parse in Go)
		if i%3 == 0 && len(o.File) > 10 && !strings.Contains(descs[i], " zs1 ") {
			d := append([]byte{}, o.File...)
			switch r.Intn(3) {
			case 0:
				d = d[:r.Intn(len(d))]
			default:
				p := 9 + r.Intn(len(d)-9)
				safe := true
				for q := p - 8; q < p; q++ {
					if q >= 0 && (d[q] == 0x80 || d[q] == 0x81) {
						safe = false
					}
				}
				nb := byte(r.U64())
				if safe && nb != 0x80 && nb != 0x81 {
					d[p] = nb
				}
			}
			runL1("raw "+vfutil.Hex(d), d, c, "damaged")
		}
	}
}

// vfC03CheckL1 is the decoder-level monitor.
func vfC03CheckL1(s *vfutil.Session, ds *vfc03.Dataset, o vfc03.GenOut, out []string, c vfC03L1Cfg, desc string) {
	replay := map[string]interface{}{"op": "l1 " + c.String() + " " + desc}
	if ds.ModuleAux && c.modaux {
		// module aux data is refused under the fail policy: the parse must end in an error
		if len(out) == 0 || out[len(out)-1] != "err" {
			s.Violate("module-aux-not-refused", "module aux data was accepted under the fail policy", replay)
		}
		return
	}
	if len(out) == 0 || out[len(out)-1] != "done" {
		s.Violate("valid-snapshot-rejected", "a well-formed snapshot did not parse to Done", replay)
		return
	}
	// first entry line of each key
	type ent struct {
		db, key, exp, dump string
		split              bool
	}
	var ents []ent
	for _, l := range out {
		if !strings.HasPrefix(l, "e ") {
			continue
		}
		f := strings.Fields(l)
		kv := map[string]string{}
		for _, x := range f[1:] {
			p := strings.SplitN(x, "=", 2)
			kv[p[0]] = p[1]
		}
		if kv["t"] == "250" || kv["t"] == "245" {
			continue
		}
		if kv["first"] != "1" {
			// continuation chunk: must carry the same expiry as its first chunk
			last := ents[len(ents)-1]
			if kv["key"] != last.key || kv["exp"] != last.exp || kv["db"] != last.db {
				s.Violate("chunk-metadata", fmt.Sprintf("continuation chunk differs from first chunk: %s vs exp=%s db=%s", l[:vfutil.Min(len(l), 120)], last.exp, last.db), replay)
			}
			continue
		}
		ents = append(ents, ent{kv["db"], kv["key"], kv["exp"], kv["dump"], kv["split"] == "1"})
	}
	if len(ents) != len(ds.Keys) {
		s.Violate("entry-count", fmt.Sprintf("dataset has %d keys, parser emitted %d", len(ds.Keys), len(ents)), replay)
		return
	}
	for i, k := range ds.Keys {
		e := ents[i]
		if e.key != vfutil.Hex(k.Key) || e.db != fmt.Sprint(k.DB) || e.exp != fmt.Sprint(k.ExpireAt) {
			s.Violate("entry-metadata", fmt.Sprintf("key %d: want db=%d key=%x exp=%d, got db=%s key=%s exp=%s", i, k.DB, k.Key, k.ExpireAt, e.db, e.key, e.exp), replay)
		}
		if !e.split {
			m := o.Keys[i]
			body := append(append([]byte{byte(m.Type)}, m.Ser...), 6, 0)
			crc := vfc03.Crc64(body)
			for b := 0; b < 8; b++ {
				body = append(body, byte(crc>>(8*uint(b))))
			}
			if e.dump != vfutil.Hex(body) {
				s.Violate("payload", fmt.Sprintf("key %x: RESTORE payload is not type+serialization+footer", k.Key), replay)
			}
		}
	}
}
