//go:build verif

package rdb

// C04: the step by which the repaired ReadBytes grows its buffer (D22).
const VerifReadBytesStep = readBytesStep
