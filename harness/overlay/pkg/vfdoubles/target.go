//go:build verif

// Package vfdoubles holds the hand-written doubles of the verification harness
// (overlay-only, tag verif). target.go: a minimal standalone Redis ("target
// double") speaking RESP over net.Pipe connections, so that the real
// conn.RedisConn / batchers / checkpoint code run unmodified against it.
//
// Bookkeeping data structures (string, hash, zset) are interpreted fully; data
// commands are logged and interpreted only as far as key existence / type tag /
// expiry go. Every request is logged with the DB it executed in. The state is a
// pure function of the request log (Replay), which is what crash-prefix
// exploration uses.
package vfdoubles

import (
	"bufio"
	"bytes"
	"fmt"
	"io"
	"math"
	"net"
	"sort"
	"strconv"
	"strings"
	"sync"
)

type Val struct {
	Kind     string // "string" | "hash" | "zset" | "data:<type>"
	Str      []byte
	Hash     map[string][]byte
	HOrder   []string // insertion order of hash fields (HGETALL order)
	ZSet     map[string]float64
	Ops      [][]string // data commands applied (for data kinds)
	ExpireAt int64      // ms on the logical clock; 0 = none
}

// LogEntry is one request as the target received it.
type LogEntry struct {
	Conn   int
	DB     int      // DB the connection had selected when the request arrived
	Args   [][]byte // args[0] = command as sent
	Queued bool     // received inside MULTI (applied at EXEC)
}

func (e LogEntry) Cmd() string { return strings.ToLower(string(e.Args[0])) }

// String renders canonically: "<cmd> <hexarg>…" (command lower-cased, printable).
func (e LogEntry) String() string {
	var sb strings.Builder
	sb.WriteString(e.Cmd())
	for _, a := range e.Args[1:] {
		sb.WriteByte(' ')
		if len(a) == 0 {
			sb.WriteByte('-')
		} else {
			sb.WriteString(fmt.Sprintf("%x", a))
		}
	}
	return sb.String()
}

type connState struct {
	id      int
	db      int
	inMulti bool
	queue   [][][]byte
	dirty   bool // a queued command was rejected (EXECABORT)
	qidx    []int // request index of each queued command (FailInner)
	curIdx  int   // index of the request being handled
}

type Target struct {
	mu    sync.Mutex
	Dbs   map[int]map[string]*Val
	Log   []LogEntry
	NowMs int64
	// fault injection: request index (0-based, counted over Log) → error reply
	FailAt map[int]string
	// CutAt >= 0: once len(Log) == CutAt all connections are closed and every
	// later request is ignored (the process "crashed" after CutAt requests).
	CutAt int
	// Hook, if set, is called (without the lock) after a request was logged
	// and before it is executed; it may block (to hold a worker inside a call).
	Hook func(idx int, e LogEntry)
	// HookFail (opt-in, C04 session 5; nil changes nothing): asked right after Hook returned, under the lock
	// (must not block nor call the Target): a non-empty text is the error reply of THIS request - the decision to
	// fail a request can then be taken while the request is held inside Hook.
	HookFail func(idx int, e LogEntry) string

	conns   map[int]*connState
	nextID  int
	closers []io.Closer
	// Version reported by INFO server
	Version string
	// Lenient: data commands never fail with WRONGTYPE (streams generated
	// without regard to key types stay "healthy")
	Lenient bool

	// --- opt-in fault injection added for C04/C20 (defaults change nothing) ---
	// FailFrom >= 0: every request with index >= FailFrom is answered with
	// FailFromMsg (a persistently failing target); inside MULTI the command is
	// rejected (EXECABORT at EXEC).
	FailFrom    int
	FailFromMsg string
	// FailInner: request index of a command QUEUED inside MULTI → it is queued
	// normally, but at EXEC its slot in the reply array is this error and the
	// command is not applied (a command failing at execution time).
	FailInner map[int]string
	// FailExecToo: FailAt/FailFrom hitting an EXEC request discards the queue and
	// answers the error (by default EXEC is executed regardless of FailAt).
	FailExecToo bool
	// BadRestore: keys for which RESTORE answers "ERR Bad data format" once it
	// has passed the BUSYKEY test (a payload the target's version cannot load).
	BadRestore map[string]bool
	// AcceptScripts: SCRIPT LOAD / FUNCTION … answer success instead of "unsupported"
	AcceptScripts bool
	// DropAt (opt-in, C04): the connection that sends request #idx is closed by
	// the target without a reply to it (the request is logged, not executed);
	// every other connection lives on — a dropped connection, not a crash.
	DropAt map[int]bool
	// LoseReplyAt (opt-in, C14): request #idx is EXECUTED (an EXEC applies its transaction), then the
	// connection that sent it is closed by the target without the reply - a reply lost on the way
	// (connection reset / timeout between EXEC and its answer). A replay of the log applies the request.
	LoseReplyAt map[int]bool
	// XGroupKey (opt-in, C20): XGROUP <sub> <key> … is filed under its key (the
	// second argument) instead of under the generic "first argument".
	XGroupKey bool
	// SockBuf (opt-in, sender session 5; false changes nothing): connections dialled while it is set get
	// an unbounded RECEIVE buffer like a kernel socket buffer - a pump goroutine takes everything the
	// client writes at once, the request loop reads from the buffer. A client that pipelines can then be
	// any number of batches ahead of a target that is slow to execute (with a bare net.Pipe its next
	// write blocks until the target has finished the previous batch).
	SockBuf bool
}

func NewTarget() *Target {
	return &Target{Dbs: map[int]map[string]*Val{}, FailAt: map[int]string{}, CutAt: -1, FailFrom: -1, FailInner: map[int]string{}, BadRestore: map[string]bool{},
		conns: map[int]*connState{}, NowMs: 1_000_000, Version: "7.0.0"}
}

// ---------------------------------------------------------------- replies

type reply struct {
	kind byte // '+', '-', ':', '$', '*', 'n' (nil bulk), 'N' (nil array)
	s    []byte
	n    int64
	arr  []reply
}

func ok() reply                  { return reply{kind: '+', s: []byte("OK")} }
func simple(s string) reply      { return reply{kind: '+', s: []byte(s)} }
func errR(s string) reply        { return reply{kind: '-', s: []byte(s)} }
func intR(n int64) reply         { return reply{kind: ':', n: n} }
func bulk(b []byte) reply        { return reply{kind: '$', s: b} }
func nilBulk() reply             { return reply{kind: 'n'} }
func arrR(a []reply) reply       { return reply{kind: '*', arr: a} }
func (r reply) isErr() bool      { return r.kind == '-' }
func (r reply) write(w *bufio.Writer) {
	switch r.kind {
	case '+', '-':
		w.WriteByte(r.kind)
		w.Write(r.s)
		w.WriteString("\r\n")
	case ':':
		w.WriteString(":" + strconv.FormatInt(r.n, 10) + "\r\n")
	case '$':
		w.WriteString("$" + strconv.Itoa(len(r.s)) + "\r\n")
		w.Write(r.s)
		w.WriteString("\r\n")
	case 'n':
		w.WriteString("$-1\r\n")
	case 'N':
		w.WriteString("*-1\r\n")
	case '*':
		w.WriteString("*" + strconv.Itoa(len(r.arr)) + "\r\n")
		for _, x := range r.arr {
			x.write(w)
		}
	}
}

// ---------------------------------------------------------------- keyspace

func (t *Target) db(n int) map[string]*Val {
	d, ok := t.Dbs[n]
	if !ok {
		d = map[string]*Val{}
		t.Dbs[n] = d
	}
	return d
}

func (t *Target) get(db int, key string) *Val {
	d := t.db(db)
	v, ok := d[key]
	if !ok {
		return nil
	}
	if v.ExpireAt != 0 && v.ExpireAt <= t.NowMs {
		delete(d, key)
		return nil
	}
	return v
}

// Get is the exported lookup for harness monitors (takes the lock).
func (t *Target) Get(db int, key string) *Val {
	t.mu.Lock()
	defer t.mu.Unlock()
	return t.get(db, key)
}

func (t *Target) Keys(db int) []string {
	t.mu.Lock()
	defer t.mu.Unlock()
	var ks []string
	for k := range t.db(db) {
		if t.get(db, k) != nil {
			ks = append(ks, k)
		}
	}
	sort.Strings(ks)
	return ks
}

func (t *Target) LogLen() int {
	t.mu.Lock()
	defer t.mu.Unlock()
	return len(t.Log)
}

func (t *Target) LogCopy() []LogEntry {
	t.mu.Lock()
	defer t.mu.Unlock()
	return append([]LogEntry(nil), t.Log...)
}

// dataType maps a data command to the type tag of the key it creates.
func dataType(cmd string) string {
	switch cmd {
	case "set", "setex", "psetex", "setnx", "append", "incr", "incrby", "decr", "setrange", "mset", "getset", "incrbyfloat":
		return "string"
	case "rpush", "lpush", "rpushx", "lpushx", "linsert", "lset":
		return "list"
	case "sadd":
		return "set"
	case "zadd", "zincrby":
		return "zset"
	case "hset", "hmset", "hsetnx", "hincrby":
		return "hash"
	case "xadd", "xgroup", "xsetid", "xclaim":
		return "stream"
	case "restore", "restore-asking":
		return "restored"
	}
	return "other"
}

func wrongType() reply {
	return errR("WRONGTYPE Operation against a key holding the wrong kind of value")
}

// exec applies one command (not MULTI/EXEC/SELECT handling) in database db.
func (t *Target) exec(c *connState, args [][]byte) reply {
	cmd := strings.ToLower(string(args[0]))
	a := args[1:]
	s := func(i int) string { return string(a[i]) }
	switch cmd {
	case "ping":
		return simple("PONG")
	case "echo":
		return bulk(a[0])
	case "select":
		n, err := strconv.Atoi(s(0))
		if err != nil || n < 0 || n > 63 {
			return errR("ERR DB index is out of range")
		}
		c.db = n
		return ok()
	case "info":
		sec := ""
		if len(a) > 0 {
			sec = strings.ToLower(s(0))
		}
		var sb strings.Builder
		if sec == "" || sec == "server" {
			sb.WriteString("# Server\r\nredis_version:" + t.Version + "\r\nredis_mode:standalone\r\n")
		}
		if sec == "" || sec == "keyspace" {
			sb.WriteString("# Keyspace\r\n")
			var dbs []int
			for n := range t.Dbs {
				dbs = append(dbs, n)
			}
			sort.Ints(dbs)
			for _, n := range dbs {
				cnt := 0
				for k := range t.Dbs[n] {
					if t.get(n, k) != nil {
						cnt++
					}
				}
				if cnt > 0 {
					sb.WriteString(fmt.Sprintf("db%d:keys=%d,expires=0,avg_ttl=0\r\n", n, cnt))
				}
			}
		}
		return bulk([]byte(sb.String()))
	case "exists":
		n := int64(0)
		for i := range a {
			if t.get(c.db, s(i)) != nil {
				n++
			}
		}
		return intR(n)
	case "del", "unlink":
		n := int64(0)
		for i := range a {
			if t.get(c.db, s(i)) != nil {
				delete(t.db(c.db), s(i))
				n++
			}
		}
		return intR(n)
	case "type":
		v := t.get(c.db, s(0))
		if v == nil {
			return simple("none")
		}
		k := v.Kind
		if strings.HasPrefix(k, "data:") {
			k = k[5:]
		}
		return simple(k)
	case "get":
		v := t.get(c.db, s(0))
		if v == nil {
			return nilBulk()
		}
		if v.Kind != "string" {
			return wrongType()
		}
		return bulk(v.Str)
	case "pexpire", "expire", "pexpireat", "expireat":
		v := t.get(c.db, s(0))
		if v == nil {
			return intR(0)
		}
		n, err := strconv.ParseInt(s(1), 10, 64)
		if err != nil {
			return errR("ERR value is not an integer or out of range")
		}
		switch cmd {
		case "pexpire":
			n = t.NowMs + n
		case "expire":
			n = t.NowMs + n*1000
		case "expireat":
			n = n * 1000
		}
		v.ExpireAt = n
		if n <= t.NowMs {
			delete(t.db(c.db), s(0))
		}
		return intR(1)
	case "persist":
		v := t.get(c.db, s(0))
		if v == nil || v.ExpireAt == 0 {
			return intR(0)
		}
		v.ExpireAt = 0
		return intR(1)
	case "pttl", "ttl":
		v := t.get(c.db, s(0))
		if v == nil {
			return intR(-2)
		}
		if v.ExpireAt == 0 {
			return intR(-1)
		}
		if cmd == "ttl" {
			return intR((v.ExpireAt - t.NowMs + 999) / 1000)
		}
		return intR(v.ExpireAt - t.NowMs)
	case "hset", "hmset", "hsetnx":
		v := t.get(c.db, s(0))
		if v == nil || (v.Kind != "hash" && t.Lenient) {
			v = &Val{Kind: "hash", Hash: map[string][]byte{}}
			t.db(c.db)[s(0)] = v
		}
		if v.Kind != "hash" {
			return wrongType()
		}
		if (len(a)-1)%2 != 0 || len(a) < 3 {
			return errR("ERR wrong number of arguments for '" + cmd + "' command")
		}
		added := int64(0)
		for i := 1; i+1 < len(a); i += 2 {
			if _, ok := v.Hash[s(i)]; !ok {
				added++
				v.HOrder = append(v.HOrder, s(i))
			} else if cmd == "hsetnx" {
				continue
			}
			v.Hash[s(i)] = append([]byte(nil), a[i+1]...)
		}
		if cmd == "hmset" {
			return ok()
		}
		return intR(added)
	case "hget":
		v := t.get(c.db, s(0))
		if v == nil {
			return nilBulk()
		}
		if v.Kind != "hash" {
			return wrongType()
		}
		b, ok := v.Hash[s(1)]
		if !ok {
			return nilBulk()
		}
		return bulk(b)
	case "hgetall":
		v := t.get(c.db, s(0))
		if v == nil {
			return arrR(nil)
		}
		if v.Kind != "hash" {
			return wrongType()
		}
		var out []reply
		for _, f := range v.HOrder {
			out = append(out, bulk([]byte(f)), bulk(v.Hash[f]))
		}
		return arrR(out)
	case "hdel":
		v := t.get(c.db, s(0))
		if v == nil {
			return intR(0)
		}
		if v.Kind != "hash" {
			return wrongType()
		}
		n := int64(0)
		for i := 1; i < len(a); i++ {
			if _, ok := v.Hash[s(i)]; ok {
				delete(v.Hash, s(i))
				for j, f := range v.HOrder {
					if f == s(i) {
						v.HOrder = append(v.HOrder[:j:j], v.HOrder[j+1:]...)
						break
					}
				}
				n++
			}
		}
		if len(v.Hash) == 0 {
			delete(t.db(c.db), s(0))
		}
		return intR(n)
	case "hlen":
		v := t.get(c.db, s(0))
		if v == nil {
			return intR(0)
		}
		return intR(int64(len(v.Hash)))
	case "zadd":
		v := t.get(c.db, s(0))
		if v == nil || (v.Kind != "zset" && t.Lenient) {
			v = &Val{Kind: "zset", ZSet: map[string]float64{}}
			t.db(c.db)[s(0)] = v
		}
		if v.Kind != "zset" {
			return wrongType()
		}
		added := int64(0)
		for i := 1; i+1 < len(a); i += 2 {
			f, err := strconv.ParseFloat(s(i), 64)
			if err != nil {
				return errR("ERR value is not a valid float")
			}
			if _, ok := v.ZSet[s(i+1)]; !ok {
				added++
			}
			v.ZSet[s(i+1)] = f
		}
		return intR(added)
	case "zrem":
		v := t.get(c.db, s(0))
		if v == nil {
			return intR(0)
		}
		if v.Kind != "zset" {
			return wrongType()
		}
		n := int64(0)
		for i := 1; i < len(a); i++ {
			if _, ok := v.ZSet[s(i)]; ok {
				delete(v.ZSet, s(i))
				n++
			}
		}
		if len(v.ZSet) == 0 {
			delete(t.db(c.db), s(0))
		}
		return intR(n)
	case "zcard":
		v := t.get(c.db, s(0))
		if v == nil {
			return intR(0)
		}
		return intR(int64(len(v.ZSet)))
	case "zrangebyscore":
		v := t.get(c.db, s(0))
		if v == nil {
			return arrR(nil)
		}
		if v.Kind != "zset" {
			return wrongType()
		}
		parse := func(x string) (float64, bool) { // value, exclusive
			ex := false
			if strings.HasPrefix(x, "(") {
				ex = true
				x = x[1:]
			}
			switch strings.ToLower(x) {
			case "-inf":
				return math.Inf(-1), ex
			case "+inf", "inf":
				return math.Inf(1), ex
			}
			f, _ := strconv.ParseFloat(x, 64)
			return f, ex
		}
		lo, loEx := parse(s(1))
		hi, hiEx := parse(s(2))
		type ms struct {
			m string
			s float64
		}
		var all []ms
		for m, sc := range v.ZSet {
			if (sc > lo || (!loEx && sc == lo)) && (sc < hi || (!hiEx && sc == hi)) {
				all = append(all, ms{m, sc})
			}
		}
		sort.Slice(all, func(i, j int) bool {
			if all[i].s != all[j].s {
				return all[i].s < all[j].s
			}
			return all[i].m < all[j].m
		})
		withScores := false
		off, cnt := 0, -1
		for i := 3; i < len(a); i++ {
			switch strings.ToLower(s(i)) {
			case "withscores":
				withScores = true
			case "limit":
				if i+2 < len(a) {
					off, _ = strconv.Atoi(s(i + 1))
					cnt, _ = strconv.Atoi(s(i + 2))
					i += 2
				}
			}
		}
		if off > len(all) {
			off = len(all)
		}
		all = all[off:]
		if cnt >= 0 && cnt < len(all) {
			all = all[:cnt]
		}
		var out []reply
		for _, x := range all {
			out = append(out, bulk([]byte(x.m)))
			if withScores {
				out = append(out, bulk([]byte(strconv.FormatFloat(x.s, 'g', -1, 64))))
			}
		}
		return arrR(out)
	case "set":
		v := &Val{Kind: "string", Str: append([]byte(nil), a[1]...)}
		for i := 2; i < len(a); i++ {
			switch strings.ToLower(s(i)) {
			case "nx":
				if t.get(c.db, s(0)) != nil {
					return nilBulk()
				}
			case "xx":
				if t.get(c.db, s(0)) == nil {
					return nilBulk()
				}
			case "ex", "px", "exat", "pxat":
				if i+1 < len(a) {
					n, _ := strconv.ParseInt(s(i+1), 10, 64)
					switch strings.ToLower(s(i)) {
					case "ex":
						v.ExpireAt = t.NowMs + n*1000
					case "px":
						v.ExpireAt = t.NowMs + n
					case "exat":
						v.ExpireAt = n * 1000
					case "pxat":
						v.ExpireAt = n
					}
					i++
				}
			case "keepttl":
				if old := t.get(c.db, s(0)); old != nil {
					v.ExpireAt = old.ExpireAt
				}
			}
		}
		t.db(c.db)[s(0)] = v
		return ok()
	case "restore", "restore-asking":
		// RESTORE key ttl payload [REPLACE] [ABSTTL] [IDLETIME n] [FREQ n]
		replace, abs := false, false
		for i := 3; i < len(a); i++ {
			switch strings.ToLower(s(i)) {
			case "replace":
				replace = true
			case "absttl":
				abs = true
			}
		}
		if t.get(c.db, s(0)) != nil && !replace {
			return errR("BUSYKEY Target key name already exists.")
		}
		if t.BadRestore[s(0)] {
			return errR("ERR Bad data format")
		}
		ttl, err := strconv.ParseInt(s(1), 10, 64)
		if err != nil || ttl < 0 {
			return errR("ERR Invalid TTL value, must be >= 0")
		}
		v := &Val{Kind: "data:restored", Str: append([]byte(nil), a[2]...)}
		if ttl > 0 {
			if abs {
				v.ExpireAt = ttl
			} else {
				v.ExpireAt = t.NowMs + ttl
			}
		}
		t.db(c.db)[s(0)] = v
		if v.ExpireAt != 0 && v.ExpireAt <= t.NowMs {
			delete(t.db(c.db), s(0))
		}
		return ok()
	case "flushall":
		t.Dbs = map[int]map[string]*Val{}
		return ok()
	case "dbsize":
		n := 0
		for k := range t.db(c.db) {
			if t.get(c.db, k) != nil {
				n++
			}
		}
		return intR(int64(n))
	case "cluster":
		return errR("ERR This instance has cluster support disabled")
	case "publish":
		return intR(0)
	case "script", "eval", "evalsha", "function":
		if t.AcceptScripts && (cmd == "script" || cmd == "function") {
			// opt-in: SCRIPT LOAD / FUNCTION RESTORE are accepted (logged, not interpreted)
			if cmd == "script" {
				return bulk([]byte("da39a3ee5e6b4b0d3255bfef95601890afd80709"))
			}
			return ok()
		}
		return errR("ERR unsupported in target double")
	}
	// generic data command on key a[0]
	if len(a) == 0 {
		return ok()
	}
	ty := dataType(cmd)
	if t.XGroupKey && cmd == "xgroup" && len(a) >= 2 {
		a = append([][]byte{a[1]}, a...) // s(0) is the key below; the logged op keeps the request as sent
	}
	v := t.get(c.db, s(0))
	if v == nil {
		v = &Val{Kind: "data:" + ty}
		t.db(c.db)[s(0)] = v
	} else if t.Lenient {
		// data commands are logged, not interpreted: never a type error
	} else if !strings.HasPrefix(v.Kind, "data:") && !(v.Kind == "string" && ty == "string") {
		if ty != "other" {
			return wrongType()
		}
	} else if strings.HasPrefix(v.Kind, "data:") && ty != "other" && v.Kind != "data:"+ty && v.Kind != "data:restored" {
		return wrongType()
	}
	op := make([]string, len(args))
	op[0] = cmd
	for i := 1; i < len(args); i++ {
		op[i] = string(args[i])
	}
	v.Ops = append(v.Ops, op)
	if cmd == "mset" {
		for i := 2; i+1 < len(a); i += 2 {
			t.db(c.db)[s(i)] = &Val{Kind: "string", Str: append([]byte(nil), a[i+1]...)}
		}
		return ok()
	}
	return intR(1)
}

// handle runs the connection-level state machine for one request.
func (t *Target) handle(c *connState, args [][]byte, failMsg string) reply {
	cmd := strings.ToLower(string(args[0]))
	if c.inMulti {
		switch cmd {
		case "exec":
			c.inMulti = false
			q := c.queue
			qi := c.qidx
			c.queue = nil
			c.qidx = nil
			if t.FailExecToo && failMsg != "" {
				c.dirty = false
				return errR(failMsg)
			}
			if c.dirty {
				c.dirty = false
				return errR("EXECABORT Transaction discarded because of previous errors.")
			}
			out := make([]reply, 0, len(q))
			for j, qa := range q {
				if j < len(qi) {
					if m, ok := t.FailInner[qi[j]]; ok {
						out = append(out, errR(m))
						continue
					}
				}
				out = append(out, t.exec(c, qa))
			}
			return arrR(out)
		case "discard":
			c.inMulti = false
			c.queue = nil
			c.qidx = nil
			c.dirty = false
			return ok()
		case "multi":
			return errR("ERR MULTI calls can not be nested")
		}
		if failMsg != "" {
			c.dirty = true
			return errR(failMsg)
		}
		c.queue = append(c.queue, args)
		c.qidx = append(c.qidx, c.curIdx)
		return simple("QUEUED")
	}
	if failMsg != "" {
		return errR(failMsg)
	}
	switch cmd {
	case "multi":
		c.inMulti = true
		c.queue = nil
		c.qidx = nil
		c.dirty = false
		return ok()
	case "exec":
		return errR("ERR EXEC without MULTI")
	case "discard":
		return errR("ERR DISCARD without MULTI")
	}
	return t.exec(c, args)
}

// Request feeds one request (used by the server loop and by Replay).
// Returns the reply and whether the target is "crashed" (cut).
func (t *Target) request(connID int, args [][]byte) (reply, bool) {
	t.mu.Lock()
	if t.CutAt >= 0 && len(t.Log) >= t.CutAt {
		t.mu.Unlock()
		return reply{}, true
	}
	c := t.conns[connID]
	if c == nil {
		c = &connState{id: connID}
		t.conns[connID] = c
	}
	idx := len(t.Log)
	cmd := strings.ToLower(string(args[0]))
	e := LogEntry{Conn: connID, DB: c.db, Args: args, Queued: c.inMulti && cmd != "exec" && cmd != "discard"}
	t.Log = append(t.Log, e)
	if t.DropAt[idx] {
		t.mu.Unlock()
		return reply{}, true
	}
	hook := t.Hook
	fail := t.FailAt[idx]
	if fail == "" && t.FailFrom >= 0 && idx >= t.FailFrom {
		fail = t.FailFromMsg
		if fail == "" {
			fail = "ERR persistent failure injected"
		}
	}
	c.curIdx = idx
	if hook != nil {
		t.mu.Unlock()
		hook(idx, e)
		t.mu.Lock()
		if t.HookFail != nil {
			if m := t.HookFail(idx, e); m != "" {
				fail = m
			}
		}
	}
	r := t.handle(c, args, fail)
	lose := t.LoseReplyAt[idx]
	t.mu.Unlock()
	return r, lose
}

// Replay builds a fresh target whose state is the result of the given request
// prefix (requests still queued inside an open MULTI have no effect).
func Replay(entries []LogEntry, nowMs int64) *Target { return ReplayWith(entries, nowMs, false) }

// ReplayWith is Replay with the Lenient setting of the crashed target.
func ReplayWith(entries []LogEntry, nowMs int64, lenient bool) *Target {
	t := NewTarget()
	t.Lenient = lenient
	if nowMs != 0 {
		t.NowMs = nowMs
	}
	for _, e := range entries {
		t.request(e.Conn, e.Args)
	}
	// connections of the dead process are gone
	t.conns = map[int]*connState{}
	t.nextID = 1 << 20
	return t
}

// ---------------------------------------------------------------- RESP server side

func readRequest(r *bufio.Reader) ([][]byte, error) {
	line, err := r.ReadBytes('\n')
	if err != nil {
		return nil, err
	}
	line = bytes.TrimRight(line, "\r\n")
	if len(line) == 0 {
		return readRequest(r)
	}
	if line[0] != '*' {
		// inline command
		parts := bytes.Fields(line)
		return parts, nil
	}
	n, err := strconv.Atoi(string(line[1:]))
	if err != nil || n < 0 {
		return nil, fmt.Errorf("bad multibulk %q", line)
	}
	args := make([][]byte, 0, n)
	for i := 0; i < n; i++ {
		l, err := r.ReadBytes('\n')
		if err != nil {
			return nil, err
		}
		l = bytes.TrimRight(l, "\r\n")
		if len(l) == 0 || l[0] != '$' {
			return nil, fmt.Errorf("bad bulk header %q", l)
		}
		sz, err := strconv.Atoi(string(l[1:]))
		if err != nil || sz < 0 {
			return nil, fmt.Errorf("bad bulk len %q", l)
		}
		buf := make([]byte, sz+2)
		if _, err := io.ReadFull(r, buf); err != nil {
			return nil, err
		}
		args = append(args, buf[:sz])
	}
	if len(args) == 0 {
		return readRequest(r)
	}
	return args, nil
}

// Dial returns the client side of an in-memory connection served by the
// target. Works inside a testing/synctest bubble (net.Pipe is channel based).
func (t *Target) Dial() net.Conn {
	cli, _ := t.DialID()
	return cli
}

// DialID is Dial that also tells the connection id the log will carry.
func (t *Target) DialID() (net.Conn, int) {
	cli, srv := net.Pipe()
	t.mu.Lock()
	t.nextID++
	id := t.nextID
	t.closers = append(t.closers, srv)
	t.mu.Unlock()
	go t.serve(id, srv)
	return cli, id
}

// sockBuf is the receive buffer of a SockBuf connection: fill() pumps the connection into it, Read
// hands the bytes out in order (blocking on a sync.Cond, which testing/synctest treats as durable).
type sockBuf struct {
	mu   sync.Mutex
	cond *sync.Cond
	buf  []byte
	err  error
}

func newSockBuf(c net.Conn) *sockBuf {
	b := &sockBuf{}
	b.cond = sync.NewCond(&b.mu)
	go func() {
		tmp := make([]byte, 1<<16)
		for {
			n, err := c.Read(tmp)
			b.mu.Lock()
			b.buf = append(b.buf, tmp[:n]...)
			if err != nil {
				b.err = err
			}
			b.cond.Broadcast()
			b.mu.Unlock()
			if err != nil {
				return
			}
		}
	}()
	return b
}

func (b *sockBuf) Read(p []byte) (int, error) {
	b.mu.Lock()
	defer b.mu.Unlock()
	for len(b.buf) == 0 && b.err == nil {
		b.cond.Wait()
	}
	if len(b.buf) == 0 {
		return 0, b.err
	}
	n := copy(p, b.buf)
	b.buf = b.buf[n:]
	return n, nil
}

func (t *Target) serve(id int, c net.Conn) {
	defer c.Close()
	var src io.Reader = c
	t.mu.Lock()
	sb := t.SockBuf
	t.mu.Unlock()
	if sb {
		src = newSockBuf(c)
	}
	r := bufio.NewReaderSize(src, 1<<16)
	// replies go through an unbounded queue drained by a writer goroutine, so
	// that a client that pipelines more than the pipe can hold never deadlocks
	// (a real socket has kernel buffers; net.Pipe has none).
	var mu sync.Mutex
	cond := sync.NewCond(&mu)
	var pending []byte
	closed := false
	done := make(chan struct{})
	go func() {
		defer close(done)
		for {
			mu.Lock()
			for len(pending) == 0 && !closed {
				cond.Wait()
			}
			if len(pending) == 0 && closed {
				mu.Unlock()
				return
			}
			out := pending
			pending = nil
			mu.Unlock()
			if _, err := c.Write(out); err != nil {
				return
			}
		}
	}()
	defer func() {
		mu.Lock()
		closed = true
		cond.Signal()
		mu.Unlock()
	}()
	var bb bytes.Buffer
	w := bufio.NewWriter(&bb)
	for {
		args, err := readRequest(r)
		if err != nil {
			return
		}
		rep, dead := t.request(id, args)
		if dead {
			return
		}
		rep.write(w)
		w.Flush()
		mu.Lock()
		pending = append(pending, bb.Bytes()...)
		bb.Reset()
		cond.Signal()
		mu.Unlock()
	}
}

// CloseAll closes every server-side connection.
func (t *Target) CloseAll() {
	t.mu.Lock()
	cs := t.closers
	t.closers = nil
	t.mu.Unlock()
	for _, c := range cs {
		c.Close()
	}
}

// SetNow moves the logical clock.
func (t *Target) SetNow(ms int64) {
	t.mu.Lock()
	t.NowMs = ms
	t.mu.Unlock()
}

// HashFields returns a copy of a hash in DB db (nil when absent).
func (t *Target) HashFields(db int, key string) map[string]string {
	t.mu.Lock()
	defer t.mu.Unlock()
	v := t.get(db, key)
	if v == nil || v.Kind != "hash" {
		return nil
	}
	m := map[string]string{}
	for k, b := range v.Hash {
		m[k] = string(b)
	}
	return m
}

// Seed executes requests directly (initial state set-up by a harness), logged
// under connection id 0 which is never used by Dial.
func (t *Target) Seed(db int, args ...string) {
	t.request(0, [][]byte{[]byte("select"), []byte(strconv.Itoa(db))})
	bs := make([][]byte, len(args))
	for i, a := range args {
		bs[i] = []byte(a)
	}
	t.request(0, bs)
}

// ReplayFaults is ReplayWith for a log that was recorded under fault injection: the
// requests listed in failAt (index over the log) fail again — they are not applied, a
// failing queued command aborts its transaction — exactly as when they were received.
// The faults are transient: the returned target has none.
func ReplayFaults(entries []LogEntry, nowMs int64, lenient bool, failAt map[int]string) *Target {
	t := NewTarget()
	t.Lenient = lenient
	if nowMs != 0 {
		t.NowMs = nowMs
	}
	for k, v := range failAt {
		t.FailAt[k] = v
	}
	for _, e := range entries {
		t.request(e.Conn, e.Args)
	}
	t.FailAt = map[int]string{}
	t.conns = map[int]*connState{}
	t.nextID = 1 << 20
	return t
}
