//go:build verif

package vfdoubles

// cluster.go — the C19 cluster double: N RESP listeners on 127.0.0.1 sharing one
// slot table with per-slot migrating/importing state. Part of the trusted base
// (DESIGN §2.4). Used by the cluster-client harness
// (pkg/redis/client/cluster/vf_c19_test.go) and by the sender harness
// (syncer/vf_c19_test.go). Data commands are logged, not interpreted; the only
// key-level state is "this key has already been transferred to the importing
// node" (atDst), which decides between serving and -ASK on a migrating slot
// exactly like key presence does in Redis (`getNodeByQuery`).
//
// Redis rules transcribed (cluster.c getNodeByQuery, networking.c resetClient):
//   * keys of one command in different slots            -> -CROSSSLOT
//   * slot owned by me, not migrating                   -> serve
//   * slot owned by me, migrating: no key transferred   -> serve
//                                  all keys transferred -> -ASK slot dst
//                                  some                 -> -TRYAGAIN
//   * slot not mine, importing here, client ASKING      -> serve (single key or
//                                  all keys present), else -TRYAGAIN
//   * otherwise                                         -> -MOVED slot owner
//   * ASKING flag is cleared after the next command unless the connection is
//     inside MULTI (so ASKING MULTI … EXEC covers the whole transaction)
//   * a redirect/error while queueing (single-command check) marks the
//     transaction dirty (EXECABORT); EXEC re-checks the transaction as ONE
//     multi-key request over all queued keys (same slot; on a migrating or
//     importing slot: all keys present or all missing, else -TRYAGAIN).
// Every request is processed atomically under one mutex; the order in which the
// mutex is taken is the global order of the trace.
// A node can be taken down (listener and connections closed): the slot table
// may still name it (MOVED to an unreachable address).

import (
	"bufio"
	"fmt"
	"io"
	"net"
	"strconv"
	"strings"
	"sync"
	"syscall"
	"time"
)

func clusterCrc16(b []byte) uint16 {
	var crc uint16
	for _, c := range b {
		crc ^= uint16(c) << 8
		for i := 0; i < 8; i++ {
			if crc&0x8000 != 0 {
				crc = (crc << 1) ^ 0x1021
			} else {
				crc <<= 1
			}
		}
	}
	return crc
}

// independent HASH_SLOT
func ClusterSlot(k string) int {
	b := []byte(k)
	s := -1
	for i, c := range b {
		if c == '{' {
			s = i
			break
		}
	}
	if s >= 0 {
		for e := s + 1; e < len(b); e++ {
			if b[e] == '}' {
				if e != s+1 {
					return int(clusterCrc16(b[s+1:e]) % 16384)
				}
				break
			}
		}
	}
	return int(clusterCrc16(b) % 16384)
}

type MigEv struct {
	Kind string // g setMigrating slot dst | k migrateKey key | f finish slot | v assign slot dst
	Slot int
	Dst  int
	Key  string
}

type Sched struct {
	At int // fires before the At-th data request (0-based global counter) is processed
	Ev MigEv
}

type ClusterExec struct {
	Node   int
	ID     int // command id (from the "#id" argument)
	Keys   []string
	Txn    int // txn id or -1
	Asking bool
	Holder []int // key-level holder of every key at execution time
	Seg    int
	Field  string // second argument of the command as received (hash field of an HSET)
	Value  string // third argument (value of that field)
}

type Cluster struct {
	mu     sync.Mutex
	n      int
	lns    []net.Listener
	addrs  []string
	owner  [16384]int16
	mig    map[int]int     // slot -> importing node
	atDst  map[string]bool // keys already transferred (of migrating slots)
	keyIdx map[string]int

	trace   []string
	nodeLog [][]string
	execs   []ClusterExec
	seen    map[int]bool // command ids whose first arrival was processed
	seg     int

	reqCount int
	sched    []Sched

	parkOn     bool
	parkSkip   int // CLUSTER SLOTS requests still to be served before parking starts
	parked     chan struct{}
	down       map[int]bool // nodes taken down
	reserve    map[int]int  // node -> fd of a bound, NOT listening socket that keeps a downed node's port (dials are refused, nobody else gets the port)
	arrivals   map[int]int  // command id -> how many times a node processed it (any outcome)
	connOf     map[net.Conn]int
	fault      string                // injected fault for the next plain data request: er | cb | ac
	faultNode  int                   // -1: at any node, else only at this node
	stalled    map[int]chan struct{} // node -> release channel: data requests to it are held unprocessed
	held       int                   // data requests currently held by a stalled node
	parkReleases int                 // parked requests released by the schedule (event kind "p")
	parkedConn net.Conn              // the connection whose CLUSTER SLOTS request is parked (kept open when its node goes down)
	closed     bool
	conns      map[net.Conn]struct{}
	wg         sync.WaitGroup
	nServed    int
}

func NewCluster(n int, keys []string) (*Cluster, error) {
	d := &Cluster{n: n, mig: map[int]int{}, atDst: map[string]bool{}, keyIdx: map[string]int{},
		seen: map[int]bool{}, conns: map[net.Conn]struct{}{}, down: map[int]bool{}, arrivals: map[int]int{},
		connOf: map[net.Conn]int{}}
	for i, k := range keys {
		d.keyIdx[k] = i
	}
	d.nodeLog = make([][]string, n)
	for i := 0; i < n; i++ {
		ln, err := net.Listen("tcp", "127.0.0.1:0")
		if err != nil {
			return nil, err
		}
		d.lns = append(d.lns, ln)
		d.addrs = append(d.addrs, ln.Addr().String())
	}
	for i := 0; i < n; i++ {
		d.acceptLoop(i, d.lns[i])
	}
	return d, nil
}

func (d *Cluster) acceptLoop(i int, ln net.Listener) {
	d.wg.Add(1)
	go func() {
		defer d.wg.Done()
		for {
			c, err := ln.Accept()
			if err != nil {
				return
			}
			d.mu.Lock()
			if d.closed {
				d.mu.Unlock()
				c.Close()
				return
			}
			if d.down[i] {
				d.mu.Unlock()
				c.Close()
				continue
			}
			d.conns[c] = struct{}{}
			d.connOf[c] = i
			d.mu.Unlock()
			d.wg.Add(1)
			go func() {
				defer d.wg.Done()
				d.serve(i, c)
				d.mu.Lock()
				delete(d.conns, c)
				delete(d.connOf, c)
				d.mu.Unlock()
				c.Close()
			}()
		}
	}()
}

func (d *Cluster) Close() {
	d.mu.Lock()
	d.closed = true
	if d.parked != nil {
		close(d.parked)
		d.parked = nil
	}
	for n, ch := range d.stalled {
		close(ch)
		delete(d.stalled, n)
	}
	for c := range d.conns {
		c.Close()
	}
	d.mu.Unlock()
	for _, ln := range d.lns {
		ln.Close()
	}
	d.mu.Lock()
	for n := range d.reserve {
		d.releasePortLocked(n)
	}
	d.mu.Unlock()
	d.wg.Wait()
}

func (d *Cluster) NodeOfAddr(a string) int {
	for i, x := range d.addrs {
		if x == a {
			return i
		}
	}
	return -1
}

// holder: the node where the key's data lives (key-level refinement of owner)
func (d *Cluster) holderLocked(k string) int {
	s := ClusterSlot(k)
	if dst, ok := d.mig[s]; ok && d.atDst[k] {
		return dst
	}
	return int(d.owner[s])
}

// Log appends a client-side event to the global trace.
func (d *Cluster) Log(ev string) {
	d.mu.Lock()
	d.trace = append(d.trace, ev)
	d.mu.Unlock()
}

// Apply a migration event now (between batches) — returns false if it is not
// applicable in the current state (then nothing happens and nothing is logged).
func (d *Cluster) Apply(ev MigEv) bool {
	d.mu.Lock()
	defer d.mu.Unlock()
	return d.applyLocked(ev)
}

func (d *Cluster) applyLocked(ev MigEv) bool {
	switch ev.Kind {
	case "g":
		if _, ok := d.mig[ev.Slot]; ok || int(d.owner[ev.Slot]) == ev.Dst || ev.Dst < 0 || ev.Dst >= d.n {
			return false
		}
		d.mig[ev.Slot] = ev.Dst
		d.trace = append(d.trace, fmt.Sprintf("g:%d:%d", ev.Slot, ev.Dst))
	case "k":
		s := ClusterSlot(ev.Key)
		if _, ok := d.mig[s]; !ok || d.atDst[ev.Key] {
			return false
		}
		d.atDst[ev.Key] = true
		d.trace = append(d.trace, fmt.Sprintf("k:%d", d.keyIdx[ev.Key]))
	case "f":
		dst, ok := d.mig[ev.Slot]
		if !ok {
			return false
		}
		d.owner[ev.Slot] = int16(dst)
		delete(d.mig, ev.Slot)
		for k := range d.atDst {
			if ClusterSlot(k) == ev.Slot {
				delete(d.atDst, k)
			}
		}
		d.trace = append(d.trace, fmt.Sprintf("f:%d", ev.Slot))
	case "v":
		if _, ok := d.mig[ev.Slot]; ok || int(d.owner[ev.Slot]) == ev.Dst || ev.Dst < 0 || ev.Dst >= d.n {
			return false
		}
		d.owner[ev.Slot] = int16(ev.Dst)
		d.trace = append(d.trace, fmt.Sprintf("v:%d:%d", ev.Slot, ev.Dst))
	case "h": // session 5 (C19, dimension audit): the slot becomes UNASSIGNED (a hole in the slot map: `CLUSTER DELSLOTS`, a failed
		// master without a replica); every node answers -CLUSTERDOWN for it, CLUSTER SLOTS leaves it out
		if _, ok := d.mig[ev.Slot]; ok || d.owner[ev.Slot] < 0 {
			return false
		}
		d.owner[ev.Slot] = -1
		d.trace = append(d.trace, fmt.Sprintf("h:%d", ev.Slot))
	case "p": // session 5 (C19): release the parked CLUSTER SLOTS request NOW (at a request count: while a batch is in
		// flight); the refresh goroutine of the client gets its reply (trace token `r` when it is computed) and installs it
		if d.parked == nil {
			return false
		}
		close(d.parked)
		d.parked = nil
		d.parkReleases++
	case "F": // fault injection: the next plain data request is answered -ERR without executing (er),
		// its connection is closed before it is applied (cb), or after it was applied, without a reply (ac)
		if ev.Key != "er" && ev.Key != "cb" && ev.Key != "ac" {
			return false
		}
		d.fault = ev.Key
		d.faultNode = ev.Slot - 1 // Slot = node+1 restricts the fault to that node, 0 = any node
		d.trace = append(d.trace, "F:"+ev.Key)
	case "u": // node Dst comes back (same address)
		if ev.Dst < 0 || ev.Dst >= d.n || !d.down[ev.Dst] {
			return false
		}
		d.releasePortLocked(ev.Dst)
		ln, err := net.Listen("tcp", d.addrs[ev.Dst])
		if err != nil {
			return false
		}
		d.lns[ev.Dst] = ln
		d.down[ev.Dst] = false
		d.acceptLoop(ev.Dst, ln)
		d.trace = append(d.trace, fmt.Sprintf("u:%d", ev.Dst))
	case "x": // node Dst goes down: listener and connections closed, slot table unchanged
		if ev.Dst < 0 || ev.Dst >= d.n || d.down[ev.Dst] {
			return false
		}
		d.down[ev.Dst] = true
		d.lns[ev.Dst].Close()
		d.reservePortLocked(ev.Dst)
		for c, n := range d.connOf {
			if n == ev.Dst && c != d.parkedConn {
				c.Close()
			}
		}
		d.trace = append(d.trace, fmt.Sprintf("x:%d", ev.Dst))
	default:
		return false
	}
	return true
}

// ---------------------------------------------------------------- RESP

func clusterReadCmd(br *bufio.Reader) ([]string, error) {
	line, err := br.ReadString('\n')
	if err != nil {
		return nil, err
	}
	line = strings.TrimRight(line, "\r\n")
	if len(line) == 0 || line[0] != '*' {
		return nil, fmt.Errorf("bad request line %q", line)
	}
	n, err := strconv.Atoi(line[1:])
	if err != nil || n < 1 {
		return nil, fmt.Errorf("bad array len %q", line)
	}
	out := make([]string, 0, n)
	for i := 0; i < n; i++ {
		l, err := br.ReadString('\n')
		if err != nil {
			return nil, err
		}
		l = strings.TrimRight(l, "\r\n")
		if len(l) == 0 || l[0] != '$' {
			return nil, fmt.Errorf("bad bulk header %q", l)
		}
		ln, err := strconv.Atoi(l[1:])
		if err != nil || ln < 0 {
			return nil, fmt.Errorf("bad bulk len %q", l)
		}
		buf := make([]byte, ln+2)
		if _, err := io.ReadFull(br, buf); err != nil {
			return nil, err
		}
		out = append(out, string(buf[:ln]))
	}
	return out, nil
}

func (d *Cluster) slotsReplyLocked() string {
	type rng struct{ a, b, n int }
	var rs []rng
	start := 0
	for s := 1; s <= 16384; s++ {
		if s == 16384 || d.owner[s] != d.owner[start] {
			if d.owner[start] >= 0 { // an unassigned range is not listed
				rs = append(rs, rng{start, s - 1, int(d.owner[start])})
			}
			start = s
		}
	}
	var sb strings.Builder
	fmt.Fprintf(&sb, "*%d\r\n", len(rs))
	for _, r := range rs {
		host, port, _ := net.SplitHostPort(d.addrs[r.n])
		id := fmt.Sprintf("node%d", r.n)
		fmt.Fprintf(&sb, "*3\r\n:%d\r\n:%d\r\n*3\r\n$%d\r\n%s\r\n:%s\r\n$%d\r\n%s\r\n", r.a, r.b, len(host), host, port, len(id), id)
	}
	return sb.String()
}

func (d *Cluster) nodesReplyLocked(me int) string {
	var sb strings.Builder
	for n := 0; n < d.n; n++ {
		flags := "master"
		if n == me {
			flags = "myself,master"
		}
		fmt.Fprintf(&sb, "node%d %s@0 %s - 0 0 %d connected", n, d.addrs[n], flags, n+1)
		start := -1
		for s := 0; s <= 16384; s++ {
			mine := s < 16384 && int(d.owner[s]) == n
			if mine && start < 0 {
				start = s
			}
			if !mine && start >= 0 {
				if start == s-1 {
					fmt.Fprintf(&sb, " %d", start)
				} else {
					fmt.Fprintf(&sb, " %d-%d", start, s-1)
				}
				start = -1
			}
		}
		sb.WriteString("\n")
	}
	body := sb.String()
	return fmt.Sprintf("$%d\r\n%s\r\n", len(body), body)
}

// ---------------------------------------------------------------- per-connection server

type clQueued struct {
	id   int
	keys []string
}

type clConnState struct {
	asking   bool
	inMulti  bool
	queued   []clQueued
	dirty    bool
	decided  bool // outcome of this transaction attempt already logged
	txnAsk   bool
	firstErr string
	conn     net.Conn
}

// keysOf extracts (keys, id) of a data command. Commands used by the harness:
//
//	set/append/lpush/sadd k #id | hset k f #id | smove src dst #id
func clusterKeysOf(args []string) ([]string, int) {
	id := -1
	last := args[len(args)-1]
	if strings.HasPrefix(last, "#") {
		id, _ = strconv.Atoi(last[1:])
	}
	if len(args) < 2 {
		return []string{""}, id
	}
	switch strings.ToLower(args[0]) {
	case "mset":
		var ks []string
		for i := 1; i < len(args); i += 2 {
			ks = append(ks, args[i])
		}
		return ks, id
	case "smove":
		if len(args) < 3 {
			return []string{args[1]}, id
		}
		return []string{args[1], args[2]}, id
	default:
		return []string{args[1]}, id
	}
}

// decide what this node answers for a command on `keys` (mutex held)
// returns out token ("x", "m<d>", "a<d>", "e") and the error reply ("" when served)
func (d *Cluster) decideLocked(node int, keys []string, asking bool) (string, string) {
	slot := ClusterSlot(keys[0])
	for _, k := range keys[1:] {
		if ClusterSlot(k) != slot {
			return "e", "-CROSSSLOT Keys in request don't hash to the same slot\r\n"
		}
	}
	own := int(d.owner[slot])
	if own < 0 {
		return "e", "-CLUSTERDOWN Hash slot not served\r\n"
	}
	dst, migrating := d.mig[slot]
	moved := 0
	for _, k := range keys {
		if d.atDst[k] {
			moved++
		}
	}
	if own == node {
		if migrating && moved > 0 {
			if moved == len(keys) {
				return fmt.Sprintf("a%d", dst), fmt.Sprintf("-ASK %d %s\r\n", slot, d.addrs[dst])
			}
			return "e", "-TRYAGAIN Multiple keys request during rehashing of slot\r\n"
		}
		return "x", ""
	}
	if migrating && dst == node && asking {
		if len(keys) > 1 && moved != len(keys) {
			return "e", "-TRYAGAIN Multiple keys request during rehashing of slot\r\n"
		}
		return "x", ""
	}
	return fmt.Sprintf("m%d", own), fmt.Sprintf("-MOVED %d %s\r\n", slot, d.addrs[own])
}

func (d *Cluster) fireSchedLocked() {
	for len(d.sched) > 0 && d.sched[0].At <= d.reqCount {
		d.applyLocked(d.sched[0].Ev)
		d.sched = d.sched[1:]
	}
	d.reqCount++
}

func (d *Cluster) recordExecLocked(node int, id int, keys []string, txn int, asking bool, field ...string) {
	h := make([]int, len(keys))
	for i, k := range keys {
		h[i] = d.holderLocked(k)
		// the importing node serving an ASKING request for a key not yet
		// transferred would create the key in two places; holder stays the
		// owner then and the monitor reports it.
	}
	f, v := "", ""
	if len(field) > 0 {
		f = field[0]
	}
	if len(field) > 1 {
		v = field[1]
	}
	d.execs = append(d.execs, ClusterExec{Node: node, ID: id, Keys: keys, Txn: txn, Asking: asking, Holder: h, Seg: d.seg, Field: f, Value: v})
}

func clB2i(b bool) int {
	if b {
		return 1
	}
	return 0
}

func (d *Cluster) serve(node int, c net.Conn) {
	br := bufio.NewReader(c)
	bw := bufio.NewWriter(c)
	st := &clConnState{conn: c}
	abandonTxn := func() {
		// connection ended inside MULTI: nothing of it executes
		d.mu.Lock()
		if st.inMulti && !st.decided && len(st.queued) > 0 {
			d.trace = append(d.trace, fmt.Sprintf("t:%d:%d:%d:e", node, st.queued[0].id, clB2i(st.txnAsk)))
			d.nodeLog[node] = append(d.nodeLog[node], fmt.Sprintf("T%d:e", st.queued[0].id))
			for _, q := range st.queued {
				d.seen[q.id] = true
			}
		}
		d.mu.Unlock()
	}
	defer abandonTxn()
	for {
		args, err := clusterReadCmd(br)
		if err != nil {
			return
		}
		d.holdIfStalled(node, args)
		reply := d.handle(node, st, args)
		if reply == "" {
			bw.Flush() // replies already produced on this connection are delivered
			return
		}
		bw.WriteString(reply)
		if br.Buffered() == 0 {
			if err := bw.Flush(); err != nil {
				// keep reading what was already received: the server does not
				// un-execute because the client went away
				bw.Reset(io.Discard)
			}
		}
	}
}

func (d *Cluster) handle(node int, st *clConnState, args []string) string {
	cmd := strings.ToLower(args[0])
	switch cmd {
	case "cluster":
		sub := ""
		if len(args) > 1 {
			sub = strings.ToLower(args[1])
		}
		switch sub {
		case "slots":
			d.mu.Lock()
			if d.parkOn && d.parkSkip > 0 {
				d.parkSkip--
				d.trace = append(d.trace, "S")
			} else if d.parkOn && d.parked == nil && !d.closed {
				ch := make(chan struct{})
				d.parked = ch
				d.parkedConn = st.conn
				d.mu.Unlock()
				<-ch
				d.mu.Lock()
				d.parkedConn = nil
				if d.closed {
					d.mu.Unlock()
					return ""
				}
				d.trace = append(d.trace, "r")
			} else {
				d.trace = append(d.trace, "S")
			}
			d.nServed++
			r := d.slotsReplyLocked()
			d.mu.Unlock()
			return r
		case "nodes":
			d.mu.Lock()
			r := d.nodesReplyLocked(node)
			d.mu.Unlock()
			return r
		}
		return "-ERR unknown subcommand\r\n"
	case "ping":
		return "+PONG\r\n"
	case "asking":
		st.asking = true
		return "+OK\r\n"
	case "multi":
		if st.inMulti {
			return "-ERR MULTI calls can not be nested\r\n"
		}
		st.inMulti, st.queued, st.dirty, st.decided, st.firstErr = true, nil, false, false, ""
		st.txnAsk = st.asking
		return "+OK\r\n"
	case "exec":
		if !st.inMulti {
			st.asking = false
			return "-ERR EXEC without MULTI\r\n"
		}
		d.mu.Lock()
		defer d.mu.Unlock()
		defer func() { st.inMulti, st.queued, st.asking = false, nil, false }()
		if len(st.queued) == 0 {
			return "*0\r\n"
		}
		tid := st.queued[0].id
		for _, q := range st.queued {
			d.seen[q.id] = true
			d.arrivals[q.id]++
		}
		if st.dirty {
			return "-EXECABORT Transaction discarded because of previous errors.\r\n"
		}
		d.fireSchedLocked()
		// EXEC re-checks the transaction as ONE multi-key request (cluster.c
		// getNodeByQuery walks every queued command's keys: same slot, and on a
		// migrating/importing slot all keys present or all missing)
		var all []string
		dup := map[string]bool{}
		for _, q := range st.queued {
			for _, k := range q.keys {
				if !dup[k] {
					dup[k] = true
					all = append(all, k)
				}
			}
		}
		if out, errReply := d.decideLocked(node, all, st.asking); out != "x" {
			d.trace = append(d.trace, fmt.Sprintf("t:%d:%d:%d:%s", node, tid, clB2i(st.txnAsk), out))
			d.nodeLog[node] = append(d.nodeLog[node], fmt.Sprintf("T%d:%s", tid, out))
			st.decided = true
			return errReply
		}
		d.trace = append(d.trace, fmt.Sprintf("t:%d:%d:%d:x", node, tid, clB2i(st.txnAsk)))
		d.nodeLog[node] = append(d.nodeLog[node], fmt.Sprintf("T%d:x", tid))
		st.decided = true
		var sb strings.Builder
		fmt.Fprintf(&sb, "*%d\r\n", len(st.queued))
		for _, q := range st.queued {
			d.recordExecLocked(node, q.id, q.keys, tid, st.txnAsk)
			sb.WriteString("+OK\r\n")
		}
		return sb.String()
	case "command":
		// COMMAND GETKEYS <cmd> <args…>: the two harness-only commands the static key
		// table of the client does not know
		if len(args) >= 4 && strings.ToLower(args[1]) == "getkeys" {
			switch strings.ToLower(args[2]) {
			case "vfgk":
				return fmt.Sprintf("*1\r\n$%d\r\n%s\r\n", len(args[3]), args[3])
			case "vffb":
				return "*0\r\n"
			}
			return "-ERR The command has no key arguments\r\n"
		}
		return "-ERR unknown subcommand\r\n"
	case "set", "append", "lpush", "sadd", "hset", "smove", "mset", "vfgk", "vffb":
		keys, id := clusterKeysOf(args)
		d.mu.Lock()
		defer d.mu.Unlock()
		if st.inMulti {
			st.queued = append(st.queued, clQueued{id, keys})
			if st.dirty {
				return "+QUEUED\r\n" // Redis still answers per command; keep it simple: already dirty
			}
			out, errReply := d.decideLocked(node, keys, st.asking)
			if out != "x" {
				st.dirty = true
				if !st.decided {
					st.decided = true
					tid := st.queued[0].id
					d.trace = append(d.trace, fmt.Sprintf("t:%d:%d:%d:%s", node, tid, clB2i(st.txnAsk), out))
					d.nodeLog[node] = append(d.nodeLog[node], fmt.Sprintf("T%d:%s", tid, out))
				}
				return errReply
			}
			return "+QUEUED\r\n"
		}
		d.fireSchedLocked()
		asking := st.asking
		st.asking = false
		flt := ""
		if d.fault != "" && (d.faultNode < 0 || d.faultNode == node) {
			flt, d.fault = d.fault, ""
		}
		if flt == "er" || flt == "cb" {
			d.trace = append(d.trace, fmt.Sprintf("q:%d:%d:%d:e", node, id, clB2i(asking)))
			d.nodeLog[node] = append(d.nodeLog[node], fmt.Sprintf("%d:e", id))
			d.seen[id] = true
			d.arrivals[id]++
			if flt == "cb" {
				return ""
			}
			return "-ERR injected fault\r\n"
		}
		out, errReply := d.decideLocked(node, keys, asking)
		d.trace = append(d.trace, fmt.Sprintf("q:%d:%d:%d:%s", node, id, clB2i(asking), out))
		d.nodeLog[node] = append(d.nodeLog[node], fmt.Sprintf("%d:%s", id, out))
		d.seen[id] = true
		d.arrivals[id]++
		if out == "x" {
			fld, val := "", ""
			if len(args) > 2 {
				fld = args[2]
			}
			if len(args) > 3 {
				val = args[3]
			}
			d.recordExecLocked(node, id, keys, -1, asking, fld, val)
			if flt == "ac" {
				return ""
			}
			return "+OK\r\n"
		}
		return errReply
	}
	st.asking = false
	return "-ERR unknown command '" + cmd + "'\r\n"
}

// ---------------------------------------------------------------- refresh gate

func (d *Cluster) WaitParked(timeout time.Duration) bool {
	dl := time.Now().Add(timeout)
	for time.Now().Before(dl) {
		d.mu.Lock()
		p := d.parked != nil
		d.mu.Unlock()
		if p {
			return true
		}
		time.Sleep(50 * time.Microsecond)
	}
	return false
}

// ParkReleases: how many parked CLUSTER SLOTS requests the schedule (event kind "p") has released
func (d *Cluster) ParkReleases() int {
	d.mu.Lock()
	defer d.mu.Unlock()
	return d.parkReleases
}

func (d *Cluster) ReleaseParked() bool {
	d.mu.Lock()
	defer d.mu.Unlock()
	if d.parked == nil {
		return false
	}
	close(d.parked)
	d.parked = nil
	return true
}

// waitSeen waits until every id has been processed by some node.
func (d *Cluster) WaitSeen(ids []int, timeout time.Duration) bool {
	dl := time.Now().Add(timeout)
	for {
		d.mu.Lock()
		all := true
		for _, id := range ids {
			if !d.seen[id] {
				all = false
				break
			}
		}
		d.mu.Unlock()
		if all {
			return true
		}
		if time.Now().After(dl) {
			return false
		}
		time.Sleep(50 * time.Microsecond)
	}
}

// ---------------------------------------------------------------- exported accessors

func (d *Cluster) Addrs() []string { return append([]string(nil), d.addrs...) }
func (d *Cluster) N() int          { return d.n }

// SetBaseLayout assigns the 16384 slots in equal ranges to the first m nodes.
func (d *Cluster) SetBaseLayout(m int) {
	d.mu.Lock()
	for s := 0; s < 16384; s++ {
		d.owner[s] = int16(s * m / 16384)
	}
	d.mu.Unlock()
}

func (d *Cluster) OwnerOf(slot int) int {
	d.mu.Lock()
	defer d.mu.Unlock()
	return int(d.owner[slot])
}

// EnablePark: park CLUSTER SLOTS requests (one at a time) after serving `skip`
// of them normally.
func (d *Cluster) EnablePark(skip int) {
	d.mu.Lock()
	d.parkOn, d.parkSkip = true, skip
	d.mu.Unlock()
}

func (d *Cluster) ResetTrace() {
	d.mu.Lock()
	d.trace = nil
	d.mu.Unlock()
}

func (d *Cluster) SetSchedule(sc []Sched) {
	d.mu.Lock()
	d.sched = append([]Sched(nil), sc...)
	d.mu.Unlock()
}

func (d *Cluster) Seg() int {
	d.mu.Lock()
	defer d.mu.Unlock()
	return d.seg
}

// NextSegment: the sender retries after a failed batch.
func (d *Cluster) NextSegment() {
	d.mu.Lock()
	d.seg++
	d.trace = append(d.trace, "X")
	d.mu.Unlock()
}

// Unseen returns the ids no node has processed yet.
func (d *Cluster) Unseen(ids []int) []int {
	d.mu.Lock()
	defer d.mu.Unlock()
	var out []int
	for _, id := range ids {
		if !d.seen[id] {
			out = append(out, id)
		}
	}
	return out
}

func (d *Cluster) Arrivals() map[int]int {
	d.mu.Lock()
	defer d.mu.Unlock()
	out := map[int]int{}
	for k, v := range d.arrivals {
		out[k] = v
	}
	return out
}

// Snapshot copies the trace, the execution log and the per-node request logs.
func (d *Cluster) Snapshot() (trace []string, execs []ClusterExec, nodeLog [][]string) {
	d.mu.Lock()
	defer d.mu.Unlock()
	trace = append([]string(nil), d.trace...)
	execs = append([]ClusterExec(nil), d.execs...)
	for _, l := range d.nodeLog {
		nodeLog = append(nodeLog, append([]string(nil), l...))
	}
	return
}

// WaitProgress waits until every id has been processed more often than in
// `before` (a copy of Arrivals taken before the attempt) and returns the ids
// that made no progress within the timeout.
func (d *Cluster) WaitProgress(ids []int, before map[int]int, timeout time.Duration) []int {
	dl := time.Now().Add(timeout)
	for {
		d.mu.Lock()
		var rest []int
		for _, id := range ids {
			if d.arrivals[id] <= before[id] {
				rest = append(rest, id)
			}
		}
		d.mu.Unlock()
		if len(rest) == 0 || time.Now().After(dl) {
			return rest
		}
		time.Sleep(50 * time.Microsecond)
	}
}

// AllExecuted: has every id been executed at least once?
func (d *Cluster) AllExecuted(ids []int) bool {
	d.mu.Lock()
	defer d.mu.Unlock()
	done := map[int]bool{}
	for _, e := range d.execs {
		done[e.ID] = true
	}
	for _, id := range ids {
		if !done[id] {
			return false
		}
	}
	return true
}

// ---------------------------------------------------------------- stalling a node

// Stall makes node n hold every data request it receives (the bytes are read,
// nothing is processed or answered) until Unstall: a slow node / stalled
// connection. Connections opened later are held as well while the stall lasts.
func (d *Cluster) Stall(n int) {
	d.mu.Lock()
	if d.stalled == nil {
		d.stalled = map[int]chan struct{}{}
	}
	if _, ok := d.stalled[n]; !ok {
		d.stalled[n] = make(chan struct{})
	}
	d.mu.Unlock()
}

func (d *Cluster) Unstall(n int) {
	d.mu.Lock()
	if ch, ok := d.stalled[n]; ok {
		close(ch)
		delete(d.stalled, n)
	}
	d.mu.Unlock()
}

// HeldCount: data requests received by a stalled node and not processed yet.
func (d *Cluster) HeldCount() int {
	d.mu.Lock()
	defer d.mu.Unlock()
	return d.held
}

func (d *Cluster) holdIfStalled(node int, args []string) {
	switch strings.ToLower(args[0]) {
	case "cluster", "command", "ping", "asking", "multi", "exec":
		return
	}
	d.mu.Lock()
	ch, ok := d.stalled[node]
	if ok {
		d.held++
	}
	d.mu.Unlock()
	if ok {
		<-ch
		d.mu.Lock()
		d.held--
		d.mu.Unlock()
	}
}

// reservePortLocked keeps the address of a downed node out of everybody's hands: a socket
// bound to it but never listening. A dial is refused (what "node unreachable" means for the
// client) and no other process - other harnesses run concurrently on this host - can be handed
// the port by the kernel and answer in the node's place.
func (d *Cluster) reservePortLocked(n int) {
	if d.reserve == nil {
		d.reserve = map[int]int{}
	}
	host, portS, err := net.SplitHostPort(d.addrs[n])
	if err != nil {
		return
	}
	port, _ := strconv.Atoi(portS)
	ip := net.ParseIP(host).To4()
	if ip == nil {
		return
	}
	fd, err := syscall.Socket(syscall.AF_INET, syscall.SOCK_STREAM, 0)
	if err != nil {
		return
	}
	sa := &syscall.SockaddrInet4{Port: port}
	copy(sa.Addr[:], ip)
	if err := syscall.Bind(fd, sa); err != nil {
		syscall.Close(fd)
		return
	}
	d.reserve[n] = fd
}

func (d *Cluster) releasePortLocked(n int) {
	if fd, ok := d.reserve[n]; ok {
		syscall.Close(fd)
		delete(d.reserve, n)
	}
}

// ---------------------------------------------------------------- operational-model expectations (C19, op c19x)

// ExecSeg is one closed segment event as the harness's own bookkeeping sees it: an attempt on the
// stream positions [P,Q) that was acknowledged (Kind 'o') or cut (Kind 'c'), the positions it
// executed in the target's order, whether the position Q was stored; Kind 's' = a new segment starts.
type ExecSeg struct {
	Kind  byte
	P, Q  int
	Store bool
	App   []int
}

// ExecExpect prints the `segs` and `auto` lines of op c19x from the segments observed by the harness:
// auto = every event is admissible for the segment automaton (within its range, nothing twice; an
// acknowledged one executed everything, per group in order), disc = no cut event stores, prefix =
// every cut event executed per group a prefix of its part. Computed here from the observations, by
// the Lean driver from the model's run.
func ExecExpect(grp []string, segs []ExecSeg) (string, string) {
	var parts []string
	auto, disc, prefix := true, true, true
	part := func(p, q int, g string) []int {
		var out []int
		for i := p; i < q; i++ {
			if grp[i] == g {
				out = append(out, i)
			}
		}
		return out
	}
	for _, sg := range segs {
		if sg.Kind == 's' {
			parts = append(parts, "s")
			continue
		}
		a := "."
		if len(sg.App) > 0 {
			x := make([]string, len(sg.App))
			for i, v := range sg.App {
				x[i] = fmt.Sprint(v)
			}
			a = strings.Join(x, ",")
		}
		st := 0
		if sg.Store {
			st = 1
		}
		parts = append(parts, fmt.Sprintf("%c:%d:%d:%s", sg.Kind, sg.Q, st, a))
		seen := map[int]bool{}
		for _, v := range sg.App {
			if seen[v] || v < sg.P || v >= sg.Q {
				auto = false
			}
			seen[v] = true
		}
		groups := map[string]bool{}
		for i := sg.P; i < sg.Q && i < len(grp); i++ {
			groups[grp[i]] = true
		}
		for g := range groups {
			want := part(sg.P, sg.Q, g)
			var got []int
			for _, v := range sg.App {
				if v >= 0 && v < len(grp) && grp[v] == g {
					got = append(got, v)
				}
			}
			isPrefix := len(got) <= len(want)
			for i := 0; isPrefix && i < len(got); i++ {
				if got[i] != want[i] {
					isPrefix = false
				}
			}
			switch sg.Kind {
			case 'o':
				if !isPrefix || len(got) != len(want) {
					auto = false
				}
			case 'c':
				if !isPrefix {
					prefix = false
				}
			}
		}
		if sg.Kind == 'c' && sg.Store {
			disc = false
		}
	}
	sl := "."
	if len(parts) > 0 {
		sl = strings.Join(parts, ";")
	}
	a := "none"
	if auto {
		a = "ok"
	}
	return sl, fmt.Sprintf("auto %s disc=%v prefix=%v", a, disc, prefix)
}
