//go:build verif

package vfc03

// Output filter of a replay case: what is configured on the real RedisOutput,
// its rendering on the op line, and an independent decision procedure for the
// monitor (prefix tests with bytes.HasPrefix, HASH_SLOT by a bitwise CRC16).

import (
	"bytes"
	"fmt"
	"strings"
)

type FilterSpec struct {
	DbBlack []int
	PBlack  [][]byte
	PWhite  [][]byte
	SBlack  [][2]int
	SWhite  [][2]int
	// RHT: ReplaceHashTag is configured. Since /repo e867911 the replay loop also withholds an entry whose
	// TARGET key (first '{' and first '}' removed) lies in one of the tool's own namespaces (not rendered
	// by Tokens: the op line carries rht already)
	RHT bool
}

var reservedTargetPrefixes = [][]byte{[]byte("redis-gunyu-bisync:"), []byte("redis-gunyu-checkpoint"), []byte("/redis-gunyu")}

var reservedPrefixes = [][]byte{[]byte("redis-gunyu-checkpoint"), []byte("/redis-gunyu")}

func crc16x(b []byte) uint16 {
	var crc uint16
	for _, c := range b {
		crc ^= uint16(c) << 8
		for i := 0; i < 8; i++ {
			if crc&0x8000 != 0 {
				crc = (crc << 1) ^ 0x1021
			} else {
				crc <<= 1
			}
		}
	}
	return crc
}

// HashSlot is Redis Cluster HASH_SLOT (first {...} tag, if not empty).
func HashSlot(k []byte) int {
	s := bytes.IndexByte(k, '{')
	if s >= 0 {
		if e := bytes.IndexByte(k[s+1:], '}'); e > 0 {
			return int(crc16x(k[s+1:s+1+e]) % 16384)
		}
	}
	return int(crc16x(k) % 16384)
}

func inRanges(rs [][2]int, slot int) bool {
	for _, r := range rs {
		if r[0] <= slot && slot <= r[1] {
			return true
		}
	}
	return false
}

// DbFiltered: the source DB is black-listed.
func (f *FilterSpec) DbFiltered(db int) bool {
	for _, d := range f.DbBlack {
		if d == db {
			return true
		}
	}
	return false
}

// KeyFiltered: reserved prefix, configured prefix black/white list, slot black/white list.
func (f *FilterSpec) KeyFiltered(k []byte) bool {
	if f.RHT {
		t := bytes.Replace(k, []byte("{"), nil, 1)
		t = bytes.Replace(t, []byte("}"), nil, 1)
		for _, p := range reservedTargetPrefixes {
			if bytes.HasPrefix(t, p) {
				return true
			}
		}
	}
	for _, p := range append(append([][]byte{}, reservedPrefixes...), f.PBlack...) {
		if bytes.HasPrefix(k, p) {
			return true
		}
	}
	if len(f.PWhite) > 0 {
		ok := false
		for _, p := range f.PWhite {
			if bytes.HasPrefix(k, p) {
				ok = true
			}
		}
		if !ok {
			return true
		}
	}
	slot := HashSlot(k)
	if inRanges(f.SBlack, slot) {
		return true
	}
	if len(f.SWhite) > 0 && !inRanges(f.SWhite, slot) {
		return true
	}
	return false
}

func rangesTok(rs [][2]int) string {
	if len(rs) == 0 {
		return "-"
	}
	var p []string
	for _, r := range rs {
		p = append(p, fmt.Sprintf("%d:%d", r[0], r[1]))
	}
	return strings.Join(p, ",")
}

func hexListTok(bs [][]byte) string {
	if len(bs) == 0 {
		return "-"
	}
	var p []string
	for _, b := range bs {
		p = append(p, hx(b))
	}
	return strings.Join(p, ",")
}

// Tokens renders "<dbBlack> <prefixBlack> <prefixWhite> <slotBlack> <slotWhite>".
func (f *FilterSpec) Tokens() string {
	db := "-"
	if len(f.DbBlack) > 0 {
		var p []string
		for _, d := range f.DbBlack {
			p = append(p, fmt.Sprint(d))
		}
		db = strings.Join(p, ",")
	}
	return fmt.Sprintf("%s %s %s %s %s", db, hexListTok(f.PBlack), hexListTok(f.PWhite), rangesTok(f.SBlack), rangesTok(f.SWhite))
}

// ParseFilter reads the five tokens back (corpus lines).
func ParseFilter(t []string) (*FilterSpec, error) {
	if len(t) != 5 {
		return nil, fmt.Errorf("filter: want 5 tokens")
	}
	f := &FilterSpec{}
	if t[0] != "-" {
		for _, x := range strings.Split(t[0], ",") {
			var d int
			if _, err := fmt.Sscanf(x, "%d", &d); err != nil {
				return nil, err
			}
			f.DbBlack = append(f.DbBlack, d)
		}
	}
	hl := func(s string) [][]byte {
		if s == "-" {
			return nil
		}
		var out [][]byte
		for _, x := range strings.Split(s, ",") {
			out = append(out, unhx(x))
		}
		return out
	}
	rl := func(s string) [][2]int {
		if s == "-" {
			return nil
		}
		var out [][2]int
		for _, x := range strings.Split(s, ",") {
			var a, b int
			fmt.Sscanf(x, "%d:%d", &a, &b)
			out = append(out, [2]int{a, b})
		}
		return out
	}
	f.PBlack, f.PWhite, f.SBlack, f.SWhite = hl(t[1]), hl(t[2]), rl(t[3]), rl(t[4])
	return f, nil
}
