//go:build verif

package vfc03

// Dataset descriptions: the generator emits, for every value, the token
// string of the description grammar (read by the Lean driver, which encodes
// it into snapshot bytes) together with the logical value the harness-side
// monitor expects to find on the target.
//
// Grammar (space separated tokens; <f> is a length form: 0=6 bit, 1=14 bit,
// 2=32 bit, 3=64 bit, a=the minimal one):
//
//   FILE  := "v" <version> ITEM* "end" ("good"|"zero"|"bad")
//   ITEM  := "aux" SE SE | "db" <f> <n> | "resize" <f> <a> <f> <b> | "slot" a b c | "fn" SE
//          | "k" EXP IDLE FREQ SE OBJ
//   EXP   := "-" | "ms:<n>" | "s:<n>"      IDLE := "-" | "<f>:<n>"     FREQ := "-" | "<n>"
//   SE    := "r<f>:<hex>" | "i8:<int>" | "i16:<int>" | "i32:<int>" | "z<f><f>:<op>,<op>…"
//   op    := "l<hex>" (literal run, 1..32 bytes) | "m<dist>.<len>" (back reference)
//   W     := "w<f>" (blob saved as a raw string) | "wz" (blob saved LZF-compressed)
//   ZL    := ("U"|"K") <n> ZE*n      ZE := ["!"]("s6"|"s14"|"s32"):<hex> | ["!"]("i4"|"i8"|"i16"|"i24"|"i32"|"i64"):<int>
//   LP    := <n> LE*n                LE := ("s6"|"s12"|"s32"):<hex> | ("u7"|"i13"|"i16"|"i24"|"i32"|"i64"):<int>
//   OBJ   := "str" SE | "list" <f> <n> SE*n | "lzl" W ZL | "ql" <f> <n> (W ZL)*n
//          | "ql2" <f> <n> ("p" SE | "k" W LP)*n
//          | "set" <f> <n> SE*n | "iset" W <width> <n> <int>*n | "slp" W LP
//          | "zs1" <f> <n> (SE ("nan"|"pinf"|"ninf"|"a:<hex>"))*n | "zs2" <f> <n> (SE <bits>)*n | "zzl" W ZL | "zlp" W LP
//          | "hash" <f> <n> (SE SE)*n | "hzm" W <n> (<hex> <hex> <free>)*n | "hzl" W ZL | "hlp" W LP
//          | "stream" … (see stream.go) | "raw" <type> <hex>

import (
	"bytes"
	"fmt"
	"math"
	"math/big"
	"strconv"
	"strings"

	"github.com/mgtv-tech/redis-GunYu/pkg/vfutil"
)

type Gen struct {
	R    *vfutil.Rand
	used map[string]bool
	// Kinds restricts the object kinds generated (nil = all)
	Kinds []string
	// bigLeft: how many large elements (>= 16 KiB) the current file may still get;
	// hugeLeft: how many >= 2 MiB ones (set per file by File)
	bigLeft, hugeLeft int
}

func NewGen(r *vfutil.Rand) *Gen { return &Gen{R: r, used: map[string]bool{}} }

// ExpKey is what the monitor expects for one key of the dataset.
type ExpKey struct {
	DB       int
	Key      []byte
	Idle     int // 0 = none
	Freq     int // 0 = none
	ExpireAt uint64
	Val      *Val
	Kind     string // description kind (str, lzl, …) for coverage counters
	// ObjDesc: the value's description tokens (what follows the key token in the file description)
	ObjDesc string
}

type Dataset struct {
	Desc string
	Keys []ExpKey
	// Scripts expected to be loaded (aux "lua")
	Scripts [][]byte
	Footer  string
	// ModuleAux: the file carries module aux data (refused or skipped by policy)
	ModuleAux bool
	// Many: the file carries a listpack of >= 65535 elements
	Many bool
	// Functions: function libraries (RDB type 245) in the file, in order (session 5 dimension audit)
	Functions int
	// Dims: the forced dimensions this file draws (coverage counters dim_*)
	Dims []string
}

func (g *Gen) lenForm(n int) string {
	// mostly minimal; sometimes a wider (legal, non-minimal) form
	if g.R.Chance(4, 5) {
		return "a"
	}
	min := 0
	switch {
	case n >= 1<<14:
		min = 2
	case n >= 64:
		min = 1
	}
	return strconv.Itoa(g.R.Range(min, 3))
}

func (g *Gen) bytesVal(maxLen int) []byte {
	n := 0
	switch g.R.Intn(6) {
	case 0:
		n = 0
	case 1:
		n = g.R.Intn(4)
	case 2:
		n = g.R.Intn(70) // around the 6-bit boundary
	default:
		n = g.R.Intn(maxLen + 1)
	}
	b := make([]byte, n)
	mode := g.R.Intn(3)
	for i := range b {
		switch mode {
		case 0:
			b[i] = byte(g.R.U64())
		case 1:
			b[i] = byte('a' + g.R.Intn(26))
		default:
			b[i] = []byte("ab \x00\xff{}")[g.R.Intn(7)]
		}
	}
	return b
}

var edgeInts = []int64{0, 1, -1, 12, 13, 127, 128, -128, -129, 255, 256, 4095, 4096, -4096, -4097, 32767, 32768, -32768, -32769,
	65535, 65536, 8388607, 8388608, -8388608, -8388609, 16777214, 16777215, 16777216, 2147483647, 2147483648, -2147483648, -2147483649,
	4294967295, 4294967296, math.MaxInt64, math.MinInt64, -2, -3, 2, 100, -100}

func (g *Gen) intVal() int64 {
	switch g.R.Intn(4) {
	case 0:
		return vfutil.Pick(g.R, edgeInts)
	case 1:
		return int64(g.R.Intn(30)) - 10
	case 2:
		bits := g.R.Range(1, 63)
		v := int64(g.R.U64() >> uint(64-bits))
		if g.R.Bool() {
			v = -v
		}
		return v
	default:
		e := vfutil.Pick(g.R, edgeInts)
		d := int64(g.R.Intn(5)) - 2
		if (d > 0 && e > math.MaxInt64-d) || (d < 0 && e < math.MinInt64-d) {
			return e
		}
		return e + d
	}
}

func fits(v int64, bits uint) bool {
	return v >= -(1<<(bits-1)) && v <= (1<<(bits-1))-1
}

// lzfOps generates an op list and the string it expands to.
func (g *Gen) lzfOps() (string, []byte) {
	var out []byte
	var ops []string
	if g.R.Chance(1, 50) {
		// a long, repetitive value (9-12 KiB) whose back references reach 2048..8192 bytes back
		for i := 0; i < 3; i++ {
			lit := g.R.Bytes(32)
			out = append(out, lit...)
			ops = append(ops, "l"+hx(lit))
		}
		for len(out) < 9000+g.R.Intn(3000) {
			maxd := vfutil.Min(len(out), 8192)
			dist := 1 + g.R.Intn(maxd)
			if maxd > 2048 && g.R.Chance(3, 4) {
				dist = 2048 + g.R.Intn(maxd-2047)
			}
			if g.R.Chance(1, 10) {
				dist = maxd
			}
			ln := vfutil.Pick(g.R, []int{264, 264, 100, 9, 3})
			for k := 0; k < ln; k++ {
				out = append(out, out[len(out)-dist])
			}
			ops = append(ops, fmt.Sprintf("m%d.%d", dist, ln))
			if g.R.Chance(1, 6) {
				lit := g.R.Bytes(1 + g.R.Intn(32))
				out = append(out, lit...)
				ops = append(ops, "l"+hx(lit))
			}
		}
		return strings.Join(ops, ","), out
	}
	n := g.R.Range(1, 6)
	for i := 0; i < n; i++ {
		if len(out) > 0 && g.R.Chance(1, 2) {
			maxd := len(out)
			if maxd > 8192 {
				maxd = 8192
			}
			dist := 1 + g.R.Intn(maxd)
			if g.R.Chance(1, 3) {
				dist = 1 + g.R.Intn(vfutil.Min(maxd, 4))
			}
			ln := 3 + g.R.Intn(10)
			switch g.R.Intn(6) {
			case 0:
				ln = 8
			case 1:
				ln = 9
			case 2:
				ln = 264
			case 3:
				ln = 3
			}
			for k := 0; k < ln; k++ {
				out = append(out, out[len(out)-dist])
			}
			ops = append(ops, fmt.Sprintf("m%d.%d", dist, ln))
		} else {
			ln := 1 + g.R.Intn(32)
			if g.R.Chance(1, 5) {
				ln = 32
			}
			lit := g.R.Bytes(ln)
			if g.R.Bool() {
				for j := range lit {
					lit[j] = 'a' + lit[j]%4
				}
			}
			out = append(out, lit...)
			ops = append(ops, "l"+hx(lit))
		}
	}
	return strings.Join(ops, ","), out
}

// SE generates one string object: token and logical value.
func (g *Gen) SE() (string, []byte) {
	switch g.R.Intn(10) {
	case 0, 1: // integer encodings
		v := g.intVal()
		s := []byte(strconv.FormatInt(v, 10))
		var opts []string
		if fits(v, 8) {
			opts = append(opts, "i8")
		}
		if fits(v, 16) {
			opts = append(opts, "i16")
		}
		if fits(v, 32) {
			opts = append(opts, "i32")
		}
		if len(opts) == 0 || g.R.Chance(1, 4) {
			return "r" + g.lenForm(len(s)) + ":" + hx(s), s
		}
		return vfutil.Pick(g.R, opts) + ":" + strconv.FormatInt(v, 10), s
	case 2: // LZF
		ops, val := g.lzfOps()
		return "z" + vfutil.Pick(g.R, []string{"a", "a", "a", "2", "3"}) + g.lenForm(len(val)) + ":" + ops, val
	default:
		s := g.bytesVal(90)
		if g.R.Chance(1, 40) {
			s = g.R.Bytes(g.R.Range(16380, 16390)) // around the 14-bit boundary
		}
		return "r" + g.lenForm(len(s)) + ":" + hx(s), s
	}
}

// Key generates a fresh key.
func (g *Gen) Key() (string, []byte) {
	for {
		var tok string
		var k []byte
		if g.R.Chance(1, 6) {
			tok, k = g.SE()
		} else {
			k = g.bytesVal(20)
			tok = "r" + g.lenForm(len(k)) + ":" + hx(k)
		}
		if g.used[string(k)] || (len(k) == 0 && !g.R.Chance(1, 10)) {
			continue // ("" is a valid key: kept now and then)
		}
		if strings.HasPrefix(string(k), "redis-gunyu") || strings.HasPrefix(string(k), "/redis-gunyu") {
			continue
		}
		g.used[string(k)] = true
		return tok, k
	}
}

// wrap picks how a blob is saved: raw (the blob's size is not known here, so
// only the minimal form or the always-fitting 32/64-bit forms) or LZF.
// KeyReserved generates a fresh key under one of the tool's reserved prefixes
// (always black-listed by the output filter).
func (g *Gen) KeyReserved() (string, []byte) {
	for {
		k := append([]byte{}, vfutil.Pick(g.R, reservedPrefixes)...)
		k = append(k, g.bytesVal(6)...)
		if g.used[string(k)] {
			continue
		}
		g.used[string(k)] = true
		return "r" + g.lenForm(len(k)) + ":" + hx(k), k
	}
}

func (g *Gen) wrap() string {
	if g.R.Chance(1, 3) {
		return "wz"
	}
	return "w" + vfutil.Pick(g.R, []string{"a", "a", "a", "a", "2", "3"})
}

// ---------------------------------------------------------------- ziplist / listpack entries

// bigElem: a large element as a repeat token "*<n>.<hexbyte>" (sizes around the
// listpack back-length steps 16383 and 2097151)
func (g *Gen) bigElem() (string, []byte, bool) {
	n := 0
	switch {
	case g.hugeLeft > 0 && g.R.Chance(1, 3):
		g.hugeLeft--
		n = g.R.Range(2097140, 2097160)
	case g.bigLeft > 0 && g.R.Chance(1, 3):
		g.bigLeft--
		n = g.R.Range(16370, 16400)
	default:
		return "", nil, false
	}
	b := byte('a' + g.R.Intn(26))
	return fmt.Sprintf("*%d.%02x", n, b), bytes.Repeat([]byte{b}, n), true
}

func (g *Gen) zlEntry() (string, []byte) {
	if t, v, ok := g.bigElem(); ok {
		return "s32:" + t, v
	}
	big := ""
	if g.R.Chance(1, 6) {
		big = "!"
	}
	switch g.R.Intn(7) {
	case 0, 1, 2:
		v := g.intVal()
		var opts []string
		if v >= 0 && v <= 12 {
			opts = append(opts, "i4")
		}
		for _, w := range []uint{8, 16, 24, 32, 64} {
			if fits(v, w) {
				opts = append(opts, fmt.Sprintf("i%d", w))
			}
		}
		// canonical (narrowest) most of the time
		o := opts[0]
		if g.R.Chance(1, 4) {
			o = vfutil.Pick(g.R, opts)
		}
		return big + o + ":" + strconv.FormatInt(v, 10), []byte(strconv.FormatInt(v, 10))
	case 3:
		s := g.R.Bytes(g.R.Range(250, 300)) // makes the next prevlen 5 bytes
		return big + "s14:" + hx(s), s
	default:
		s := g.bytesVal(70)
		opts := []string{"s32"}
		if len(s) < 64 {
			opts = append(opts, "s6", "s6", "s6")
		}
		if len(s) < 16384 {
			opts = append(opts, "s14")
		}
		return big + vfutil.Pick(g.R, opts) + ":" + hx(s), s
	}
}

func (g *Gen) lpEntry() (string, []byte) {
	if t, v, ok := g.bigElem(); ok {
		return "s32:" + t, v
	}
	switch g.R.Intn(7) {
	case 0, 1, 2:
		v := g.intVal()
		var opts []string
		if v >= 0 && v <= 127 {
			opts = append(opts, "u7")
		}
		for _, w := range []uint{13, 16, 24, 32, 64} {
			if fits(v, w) {
				opts = append(opts, fmt.Sprintf("i%d", w))
			}
		}
		o := opts[0]
		if g.R.Chance(1, 4) {
			o = vfutil.Pick(g.R, opts)
		}
		return o + ":" + strconv.FormatInt(v, 10), []byte(strconv.FormatInt(v, 10))
	case 3:
		s := g.R.Bytes(g.R.Range(120, 135)) // entry length around the 1/2-byte back-length boundary
		return "s12:" + hx(s), s
	default:
		s := g.bytesVal(70)
		if g.R.Chance(1, 30) {
			s = g.R.Bytes(g.R.Range(4090, 4100))
		}
		opts := []string{"s32"}
		if len(s) < 64 {
			opts = append(opts, "s6", "s6", "s6")
		}
		if len(s) < 4096 {
			opts = append(opts, "s12")
		}
		return vfutil.Pick(g.R, opts) + ":" + hx(s), s
	}
}

func (g *Gen) count() int {
	switch g.R.Intn(16) {
	case 0, 1, 2, 3:
		return 1
	case 4, 5:
		return g.R.Range(60, 70)
	case 6:
		// around the 100-command pipeline batches of the expansion path
		return vfutil.Pick(g.R, []int{99, 100, 101, 200, 201, 250})
	default:
		return g.R.Range(1, 9)
	}
}

// distinct calls f until it yields a value not seen before.
func distinct(seen map[string]bool, f func() (string, []byte)) (string, []byte) {
	for {
		t, v := f()
		if !seen[string(v)] {
			seen[string(v)] = true
			return t, v
		}
	}
}

// ZL generates a ziplist of n entries (n forced even when pairs).
func (g *Gen) ZL(n int, distinctEvery int) (string, [][]byte) {
	u := "K"
	if g.R.Chance(1, 4) {
		u = "U"
	}
	var toks []string
	var vals [][]byte
	seen := map[string]bool{}
	for i := 0; i < n; i++ {
		var t string
		var v []byte
		if distinctEvery > 0 && i%distinctEvery == 0 {
			t, v = distinct(seen, g.zlEntry)
		} else {
			t, v = g.zlEntry()
		}
		toks = append(toks, t)
		vals = append(vals, v)
	}
	return strings.TrimSpace(fmt.Sprintf("%s %d %s", u, n, strings.Join(toks, " "))), vals
}

func (g *Gen) LP(n int, distinctEvery int) (string, [][]byte) {
	var toks []string
	var vals [][]byte
	seen := map[string]bool{}
	for i := 0; i < n; i++ {
		var t string
		var v []byte
		if distinctEvery > 0 && i%distinctEvery == 0 {
			t, v = distinct(seen, g.lpEntry)
		} else {
			t, v = g.lpEntry()
		}
		toks = append(toks, t)
		vals = append(vals, v)
	}
	return strings.TrimSpace(fmt.Sprintf("%d %s", n, strings.Join(toks, " "))), vals
}

// scoreText: the ASCII text of an old-format sorted-set score - one that strconv accepts (a text with
// too few digits of a double near the largest one rounds up beyond it: ErrRange, the read fails by
// design; such a text is not a score a server can have written)
func (g *Gen) scoreText() string {
	for {
		t := g.scoreText1()
		if _, err := strconv.ParseFloat(t, 64); err == nil && len(t) <= 252 {
			return t
		}
	}
}

func (g *Gen) scoreText1() string {
	var f float64
	switch g.R.Intn(6) {
	case 0:
		f = vfutil.Pick(g.R, []float64{0.1, -0.1, 3.14, 1.5, 1e22, 1e23, 5e-324, 2.2250738585072014e-308, 2.225073858507201e-308,
			math.MaxFloat64, -math.MaxFloat64, 9007199254740993, 0.30000000000000004, 1e-7, 123456789012345680000, 4503599627370496.5})
	case 1:
		// a double near an integer / a short decimal fraction
		f = float64(g.intVal()%1000000) / vfutil.Pick(g.R, []float64{10, 100, 1000, 3, 7, 1 << 20})
	default:
		for {
			f = math.Float64frombits(g.R.U64())
			if !math.IsNaN(f) && !math.IsInf(f, 0) {
				break
			}
		}
	}
	switch g.R.Intn(8) {
	case 0:
		return strconv.FormatFloat(f, 'g', -1, 64) // shortest text that reads back
	case 1:
		return strconv.FormatFloat(f, 'e', g.R.Range(0, 20), 64) // fewer / more digits than needed: real rounding
	case 2:
		if math.Abs(f) < 1e40 && math.Abs(f) > 1e-40 {
			return strconv.FormatFloat(f, 'f', g.R.Range(0, 30), 64)
		}
		return strconv.FormatFloat(f, 'g', 17, 64)
	case 3:
		// a text exactly half way between two doubles (ties to even), or one digit beside it
		if math.Abs(f) < 1e15 && math.Abs(f) >= 1 {
			u := math.Float64bits(f)
			lo, hi := new(big.Float).SetFloat64(f), new(big.Float).SetFloat64(math.Float64frombits(u+1))
			mid := new(big.Float).SetPrec(200).Add(lo, hi)
			mid.Quo(mid, big.NewFloat(2))
			t := mid.Text('f', 80)
			t = strings.TrimRight(t, "0")
			if strings.HasSuffix(t, ".") {
				t += "0"
			}
			if g.R.Chance(1, 2) {
				t += "1"
			}
			if len(t) <= 252 {
				return t
			}
		}
		return strconv.FormatFloat(f, 'g', 17, 64)
	default:
		return strconv.FormatFloat(f, 'g', 17, 64) // C's %.17g
	}
}

// ---------------------------------------------------------------- objects

var AllKinds = []string{"str", "list", "lzl", "ql", "ql2", "set", "iset", "slp", "zs1", "zs2", "zzl", "zlp",
	"hash", "hzm", "hzl", "hlp", "stream"}

func (g *Gen) Obj() (string, *Val, string) {
	kinds := g.Kinds
	if kinds == nil {
		kinds = AllKinds
	}
	kind := vfutil.Pick(g.R, kinds)
	return g.ObjKind(kind)
}

func (g *Gen) ObjKind(kind string) (string, *Val, string) {
	switch kind {
	case "str":
		t, v := g.SE()
		return "str " + t, &Val{Kind: "string", Str: v}, kind
	case "list":
		n := g.count()
		v := &Val{Kind: "list"}
		toks := []string{"list", g.lenForm(n), strconv.Itoa(n)}
		for i := 0; i < n; i++ {
			t, e := g.SE()
			toks = append(toks, t)
			v.List = append(v.List, e)
		}
		return strings.Join(toks, " "), v, kind
	case "lzl":
		zt, vals := g.ZL(g.count(), 0)
		return "lzl " + g.wrap() + " " + zt, &Val{Kind: "list", List: vals}, kind
	case "ql":
		n := g.R.Range(1, 3)
		v := &Val{Kind: "list"}
		toks := []string{"ql", g.lenForm(n), strconv.Itoa(n)}
		for i := 0; i < n; i++ {
			zt, vals := g.ZL(g.R.Range(1, 6), 0)
			toks = append(toks, g.wrap(), zt)
			v.List = append(v.List, vals...)
		}
		return strings.Join(toks, " "), v, kind
	case "ql2":
		n := g.R.Range(1, 3)
		v := &Val{Kind: "list"}
		toks := []string{"ql2", g.lenForm(n), strconv.Itoa(n)}
		for i := 0; i < n; i++ {
			if g.R.Chance(1, 3) {
				t, e := g.SE()
				toks = append(toks, "p", t)
				v.List = append(v.List, e)
			} else {
				lt, vals := g.LP(g.R.Range(1, 6), 0)
				toks = append(toks, "k", g.wrap(), lt)
				v.List = append(v.List, vals...)
			}
		}
		return strings.Join(toks, " "), v, kind
	case "set":
		n := g.count()
		v := &Val{Kind: "set"}
		toks := []string{"set", g.lenForm(n), strconv.Itoa(n)}
		seen := map[string]bool{}
		for i := 0; i < n; i++ {
			t, e := distinct(seen, g.SE)
			toks = append(toks, t)
			v.Set = append(v.Set, e)
		}
		return strings.Join(toks, " "), v, kind
	case "iset":
		width := vfutil.Pick(g.R, []int{2, 4, 8})
		n := g.count()
		v := &Val{Kind: "set"}
		toks := []string{"iset", g.wrap(), strconv.Itoa(width), strconv.Itoa(n)}
		seen := map[int64]bool{}
		for i := 0; i < n; i++ {
			var x int64
			for {
				x = g.intVal()
				if !fits(x, uint(8*width)) {
					x = x % (1 << uint(8*width-1))
				}
				if !seen[x] {
					break
				}
			}
			seen[x] = true
			toks = append(toks, strconv.FormatInt(x, 10))
			v.Set = append(v.Set, []byte(strconv.FormatInt(x, 10)))
		}
		return strings.Join(toks, " "), v, kind
	case "slp":
		lt, vals := g.LP(g.count(), 1)
		return "slp " + g.wrap() + " " + lt, &Val{Kind: "set", Set: vals}, kind
	case "zs1":
		n := g.count()
		v := &Val{Kind: "zset"}
		toks := []string{"zs1", g.lenForm(n), strconv.Itoa(n)}
		seen := map[string]bool{}
		for i := 0; i < n; i++ {
			t, m := distinct(seen, g.SE)
			var st string
			var f float64
			switch g.R.Intn(8) {
			case 0:
				st, f = "pinf", math.Inf(1)
			case 1:
				st, f = "ninf", math.Inf(-1)
			case 2, 3:
				x := g.intVal() % (1 << 53)
				a := strconv.FormatInt(x, 10)
				st = "a:" + hx([]byte(a))
				f, _ = strconv.ParseFloat(a, 64)
			default:
				// session 5: every decimal text rdbSaveDoubleValue (Redis < 4.0) can write (`%.17g`) and other
				// forms strconv accepts; the expectation is what strconv.ParseFloat makes of the text, the Lean
				// model rounds the same text with exact rational arithmetic (Model/Rdb/Float.lean)
				a := g.scoreText()
				kind = "zs1_decimal_text"
				st = "a:" + hx([]byte(a))
				var err error
				f, err = strconv.ParseFloat(a, 64)
				if err != nil || len(a) > 252 {
					panic("vfc03: generated score text not parseable: " + a)
				}
			}
			toks = append(toks, t, st)
			v.Zset = append(v.Zset, ZMember{m, fmt.Sprintf("f:%d", math.Float64bits(f))})
		}
		return strings.Join(toks, " "), v, kind
	case "zs2":
		n := g.count()
		v := &Val{Kind: "zset"}
		toks := []string{"zs2", g.lenForm(n), strconv.Itoa(n)}
		seen := map[string]bool{}
		for i := 0; i < n; i++ {
			t, m := distinct(seen, g.SE)
			var bits uint64
			switch g.R.Intn(5) {
			case 0:
				bits = math.Float64bits(float64(g.intVal()))
			case 1:
				bits = vfutil.Pick(g.R, []uint64{0, 1 << 63, math.Float64bits(math.Inf(1)), math.Float64bits(math.Inf(-1)),
					math.Float64bits(1.5), math.Float64bits(-0.1), math.Float64bits(1e300), math.Float64bits(5e-324)})
			default:
				bits = g.R.U64()
			}
			toks = append(toks, t, strconv.FormatUint(bits, 10))
			v.Zset = append(v.Zset, ZMember{m, fmt.Sprintf("f:%d", bits)})
		}
		return strings.Join(toks, " "), v, kind
	case "zzl", "zlp", "hzl", "hlp":
		n := 2 * g.count()
		var ct string
		var vals [][]byte
		if kind == "zzl" || kind == "hzl" {
			ct, vals = g.ZL(n, 2)
		} else {
			ct, vals = g.LP(n, 2)
		}
		if kind[0] == 'z' {
			v := &Val{Kind: "zset"}
			for i := 0; i+1 < len(vals); i += 2 {
				v.Zset = append(v.Zset, ZMember{vals[i], "s:" + hx(vals[i+1])})
			}
			return kind + " " + g.wrap() + " " + ct, v, kind
		}
		v := &Val{Kind: "hash"}
		for i := 0; i+1 < len(vals); i += 2 {
			v.Hash = append(v.Hash, HField{vals[i], vals[i+1]})
		}
		return kind + " " + g.wrap() + " " + ct, v, kind
	case "hash":
		n := g.count()
		v := &Val{Kind: "hash"}
		toks := []string{"hash", g.lenForm(n), strconv.Itoa(n)}
		seen := map[string]bool{}
		for i := 0; i < n; i++ {
			t, f := distinct(seen, g.SE)
			t2, val := g.SE()
			toks = append(toks, t, t2)
			v.Hash = append(v.Hash, HField{f, val})
		}
		return strings.Join(toks, " "), v, kind
	case "hzm":
		// session 5: zipmaps with item lengths on both sides of the one-byte / five-byte length form
		// (253 = the largest one-byte length, 254.. = `254` + 4 bytes little endian) and with 254 or
		// more pairs (the <zmlen> byte saturates at 254: the reader has to walk the map)
		n := g.R.Range(1, 6)
		shape := "hzm"
		switch g.R.Intn(10) {
		case 0, 1, 2:
			shape = "hzm_biglen"
		case 3:
			shape = "hzm_manypairs"
			n = vfutil.Pick(g.R, []int{253, 254, 255, 256, 300})
		}
		v := &Val{Kind: "hash"}
		toks := []string{"hzm", g.wrap(), strconv.Itoa(n)}
		seen := map[string]bool{}
		bigAt := g.R.Intn(2 * n)
		bigLen := vfutil.Pick(g.R, []int{252, 253, 254, 255, 256, 257, 300, 1000})
		if shape == "hzm_biglen" && g.bigLeft > 0 {
			g.bigLeft--
			bigLen = 70000 // the length needs three of the four bytes
		}
		mk := func(i, maxLen int) []byte {
			if shape == "hzm_biglen" && (i == bigAt || g.R.Chance(1, 6)) {
				l := bigLen
				if i != bigAt {
					l = vfutil.Pick(g.R, []int{253, 254, 255, 256})
				}
				b := make([]byte, l)
				for j := range b {
					b[j] = byte('a' + (i+j)%26)
				}
				// distinct fields: the index goes in front
				copy(b, []byte(strconv.Itoa(i)+":"))
				return b
			}
			if shape == "hzm_manypairs" {
				return append([]byte(strconv.Itoa(i)+":"), g.bytesVal(6)...)
			}
			return g.bytesVal(maxLen)
		}
		for i := 0; i < n; i++ {
			_, f := distinct(seen, func() (string, []byte) { return "", mk(2*i, 40) })
			val := mk(2*i+1, 60)
			free := 0
			if g.R.Chance(1, 3) {
				free = g.R.Intn(5)
			}
			toks = append(toks, hx(f), hx(val), strconv.Itoa(free))
			v.Hash = append(v.Hash, HField{f, val})
		}
		return strings.Join(toks, " "), v, shape
	case "stream":
		return g.Stream()
	case "slpmany", "hlpmany":
		// a listpack of 65535 or more elements: its count field says 65535 = "unknown"
		n := 65535 + g.R.Intn(40)
		if kind == "hlpmany" {
			n = 2 * (32768 + g.R.Intn(20))
		}
		toks := make([]string, 0, n+3)
		vals := make([][]byte, 0, n)
		for i := 0; i < n; i++ {
			enc := "i24"
			switch {
			case i < 128:
				enc = "u7"
			case i < 4096:
				enc = "i13"
			case i < 32768:
				enc = "i16"
			}
			d := strconv.Itoa(i)
			toks = append(toks, enc+":"+d)
			vals = append(vals, []byte(d))
		}
		head := "slp"
		v := &Val{Kind: "set", Set: vals}
		if kind == "hlpmany" {
			head = "hlp"
			v = &Val{Kind: "hash"}
			for i := 0; i+1 < n; i += 2 {
				v.Hash = append(v.Hash, HField{vals[i], vals[i+1]})
			}
		}
		return head + " w" + vfutil.Pick(g.R, []string{"a", "2", "3"}) + " " + strconv.Itoa(n) + " " + strings.Join(toks, " "), v, kind
	case "mod2":
		t := g.modulePayload()
		return "mod2 " + t, &Val{Kind: "module"}, kind
	}
	panic("unknown kind " + kind)
}

// modulePayload: "<id> <n> OP*" (module value or module aux data)
func (g *Gen) modulePayload() string {
	n := g.R.Intn(5)
	toks := []string{strconv.FormatUint(g.R.U64(), 10), strconv.Itoa(n)}
	for i := 0; i < n; i++ {
		switch g.R.Intn(5) {
		case 0:
			toks = append(toks, "i:"+strconv.FormatUint(g.R.U64()>>uint(g.R.Intn(64)), 10))
		case 1:
			toks = append(toks, "u:"+strconv.FormatUint(g.R.U64()>>uint(g.R.Intn(64)), 10))
		case 2:
			toks = append(toks, "f:"+hx(g.R.Bytes(4)))
		case 3:
			toks = append(toks, "d:"+hx(g.R.Bytes(8)))
		default:
			t, _ := g.SE()
			toks = append(toks, "s", t)
		}
	}
	return strings.Join(toks, " ")
}

// ---------------------------------------------------------------- file

type FileOpts struct {
	// Modules: module values (type 7) and module aux data may be generated
	Modules bool
	// Huge: the file may carry one element >= 2 MiB
	Huge bool
	// Tagged: most keys carry a {hash tag} and every third value is a stream with
	// groups (the ReplaceHashTag lane: key arguments in other than the first position)
	Tagged bool
	// Streams: every second value is a stream (the lane of the svc / svv ops: stream
	// expansions and replayed stream values against the Lean specification)
	Streams bool
	// Many: "slpmany" / "hlpmany": the first key is a listpack set / hash of >= 65535 elements
	Many string
	// Reserved: keys under the reserved prefixes are generated too, preferably as the
	// first key of a database
	Reserved bool
	MaxKeys  int
	// Force (session 5 dimension audit): the file number; selects the forced degenerate-but-legal shapes
	// (0 = none): the empty key "" as first key of a DB, an empty string value, database numbers above 15
	// in every length form, an EMPTY database between two used ones, function libraries before the first
	// database and between keys, LFU and LRU info on one key
	Force    int
	// NearExpiry: some keys expire 1..40 ms after Now - WHILE the replay runs when the clock advances
	// with every request (between two bins of a split value, between the value and its PEXPIRE)
	NearExpiry bool
	Now      uint64 // replay clock (ms), to place expiries around it
	MultiDB  bool
	Versions []int
}

func (g *Gen) File(o FileOpts) *Dataset {
	g.used = map[string]bool{}
	ds := &Dataset{}
	g.bigLeft, g.hugeLeft = 0, 0
	ds.Many = o.Many != ""
	if g.R.Chance(1, 8) {
		g.bigLeft = 1
	}
	if o.Huge {
		g.hugeLeft = 1
	}
	ver := 9
	if len(o.Versions) > 0 {
		ver = vfutil.Pick(g.R, o.Versions)
	}
	toks := []string{"v", strconv.Itoa(ver)}
	if g.R.Chance(2, 3) {
		toks = append(toks, "aux", "ra:"+hx([]byte("redis-ver")), "ra:"+hx([]byte("7.0.0")))
		toks = append(toks, "aux", "ra:"+hx([]byte("redis-bits")), "i8:64")
	}
	if g.R.Chance(1, 8) {
		t, v := g.SE()
		toks = append(toks, "aux", "ra:"+hx([]byte("lua")), t)
		ds.Scripts = append(ds.Scripts, v)
	}
	if o.Modules && g.R.Chance(1, 12) {
		toks = append(toks, "modaux", g.modulePayload())
		ds.ModuleAux = true
	}
	db := 0
	nk := g.R.Intn(o.MaxKeys + 1)
	if (o.Huge || o.Many != "") && nk == 0 {
		nk = 1
	}
	force := map[string]bool{}
	if o.Force > 0 {
		switch o.Force % 6 {
		case 0:
			force["emptykey"] = true
		case 1:
			force["emptyvalue"] = true
		case 2:
			force["highdb"] = true
		case 3:
			force["emptydb"] = true
		case 4:
			force["functions"] = true
		case 5:
			force["lfulru"] = true
		}
		if nk < 2 {
			nk = 2
		}
		for d := range force {
			ds.Dims = append(ds.Dims, d)
		}
	}
	fnItem := func() {
		t, _ := g.SE()
		toks = append(toks, "fn", t)
		ds.Functions++
	}
	if ver >= 10 && (force["functions"] || g.R.Chance(1, 10)) {
		// function libraries are saved before the first database
		for j := g.R.Range(1, 2); j > 0; j-- {
			fnItem()
		}
	}
	first := true
	for i := 0; i < nk; i++ {
		newDB := false
		if force["functions"] && ver >= 10 && i == 1 {
			fnItem() // (not where a server writes it, but the loader accepts the opcode anywhere)
		}
		if first || (o.MultiDB && g.R.Chance(1, 4)) || ((force["highdb"] || force["emptydb"] || force["emptykey"]) && i == 1) {
			newDB = true
			if !first || g.R.Chance(3, 4) {
				if !first {
					db += g.R.Range(1, 3)
				} else if o.MultiDB && g.R.Chance(1, 3) {
					db = g.R.Range(1, 3)
				}
				if force["highdb"] && i == 1 {
					db = vfutil.Pick(g.R, []int{16, 63, 64, 255, 16383, 16384, 100000})
				}
				if force["emptydb"] && i == 1 {
					// a database that is selected (and sized) but holds no key
					toks = append(toks, "db", g.lenForm(db), strconv.Itoa(db), "resize", "a", "0", "a", "0")
					db += g.R.Range(1, 3)
				}
				toks = append(toks, "db", g.lenForm(db), strconv.Itoa(db))
				if g.R.Chance(2, 3) {
					a, b := g.R.Intn(100), g.R.Intn(100)
					toks = append(toks, "resize", g.lenForm(a), strconv.Itoa(a), g.lenForm(b), strconv.Itoa(b))
				}
				if g.R.Chance(1, 10) {
					toks = append(toks, "slot", strconv.Itoa(g.R.Intn(16384)), strconv.Itoa(g.R.Intn(100)), strconv.Itoa(g.R.Intn(100)))
				}
			}
			first = false
		}
		exp := "-"
		var expAt uint64
		switch g.R.Intn(8) {
		case 0: // future, ms (far enough ahead that it stays in the future while the replay runs)
			expAt = o.Now + uint64(g.R.Range(5000, 100000))
			exp = "ms:" + strconv.FormatUint(expAt, 10)
		case 1: // past, ms
			expAt = o.Now - uint64(g.R.Range(1, 100000))
			exp = "ms:" + strconv.FormatUint(expAt, 10)
		case 2: // exactly now
			expAt = o.Now
			exp = "ms:" + strconv.FormatUint(expAt, 10)
		case 4, 5:
			if o.NearExpiry {
				expAt = o.Now + uint64(g.R.Range(1, 40))
				exp = "ms:" + strconv.FormatUint(expAt, 10)
			}
		case 3: // seconds form
			off := g.R.Range(5, 200)
			if g.R.Bool() {
				off = -g.R.Range(5, 100)
			}
			s := uint64(int64(o.Now/1000) + int64(off))
			expAt = s * 1000
			exp = "s:" + strconv.FormatUint(s, 10)
		}
		idle, freq := "-", "-"
		idleN, freqN := 0, 0
		if g.R.Chance(1, 6) {
			idleN = g.R.Intn(100000)
			idle = g.lenForm(idleN) + ":" + strconv.Itoa(idleN)
		}
		if g.R.Chance(1, 6) {
			freqN = g.R.Intn(256)
			freq = strconv.Itoa(freqN)
		}
		if force["lfulru"] && i == 0 {
			idleN, freqN = g.R.Range(1, 100000), g.R.Range(1, 255)
			idle, freq = g.lenForm(idleN)+":"+strconv.Itoa(idleN), strconv.Itoa(freqN)
		}
		kt, k := g.Key()
		if force["emptykey"] && i == 1 && !g.used[fmt.Sprintf("%d/", db)] {
			kt, k = "r"+g.lenForm(0)+":-", []byte{}
		} else if o.Reserved && ((newDB && g.R.Chance(1, 3)) || g.R.Chance(1, 20)) {
			kt, k = g.KeyReserved()
		} else if o.MultiDB && len(ds.Keys) > 0 && g.R.Chance(1, 6) {
			// the same key name in another source DB
			prev := vfutil.Pick(g.R, ds.Keys)
			if prev.DB != db && !g.used[fmt.Sprintf("%d/%s", db, prev.Key)] {
				k = prev.Key
				kt = "r" + g.lenForm(len(k)) + ":" + hx(k)
			}
		}
		if o.Tagged && g.R.Chance(2, 3) && !g.used["tag/"+string(k)] {
			// insert a {tag}: at the front, inside, or unbalanced
			tag := vfutil.Pick(g.R, []string{"{t}", "{}", "{", "}{", "{a}{b}"})
			pos := g.R.Intn(len(k) + 1)
			nk := append(append(append([]byte{}, k[:pos]...), tag...), k[pos:]...)
			if !g.used[string(nk)] {
				g.used[string(nk)], g.used["tag/"+string(nk)] = true, true
				k = nk
				kt = "r" + g.lenForm(len(k)) + ":" + hx(k)
			}
		}
		g.used[fmt.Sprintf("%d/%s", db, k)] = true
		var ot, kind string
		var val *Val
		if o.Many != "" && i == 0 {
			ot, val, kind = g.ObjKind(o.Many)
		} else if o.NearExpiry && i == 0 {
			// a hash TABLE of several pairs (split into bins under a small chunk threshold) that expires a few
			// requests after the replay has started: BETWEEN two of its bins when the clock advances per request
			for {
				ot, val, kind = g.ObjKind("hash")
				if len(val.Hash) >= 6 {
					break
				}
			}
			kind = "hash_expiring_between_bins"
			expAt = o.Now + uint64(g.R.Range(3, 12))
			exp = "ms:" + strconv.FormatUint(expAt, 10)
		} else if force["emptyvalue"] && i == 0 {
			ot, val, kind = "str r"+g.lenForm(0)+":-", &Val{Kind: "string", Str: []byte{}}, "str_empty"
		} else if (o.Tagged && g.R.Chance(1, 3)) || (o.Streams && g.R.Chance(1, 2)) {
			ot, val, kind = g.ObjKind("stream")
		} else if o.Modules && g.R.Chance(1, 25) {
			ot, val, kind = g.ObjKind("mod2")
		} else {
			ot, val, kind = g.Obj()
		}
		toks = append(toks, "k", exp, idle, freq, kt, ot)
		ds.Keys = append(ds.Keys, ExpKey{DB: db, Key: k, Idle: idleN, Freq: freqN, ExpireAt: expAt, Val: val, Kind: kind, ObjDesc: ot})
	}
	ds.Footer = "good"
	if g.R.Chance(1, 6) {
		ds.Footer = "zero"
	}
	toks = append(toks, "end", ds.Footer)
	ds.Desc = strings.Join(toks, " ")
	return ds
}
