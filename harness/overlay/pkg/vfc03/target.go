//go:build verif

// Package vfc03 is the harness side of property C03 (overlay-only, tag verif):
// dataset descriptions and their generator, the bridge to the Lean driver
// (which turns a description into snapshot bytes), an independent bitwise
// CRC64, and the target double — a minimal Redis interpreter that receives the
// typed requests of the replay, answers them, and reconstructs the keyspace.
package vfc03

import (
	"bytes"
	"encoding/hex"
	"fmt"
	"math"
	"sort"
	"strconv"
	"strings"
	"sync"
)

// ---------------------------------------------------------------- bitwise CRC-64/Jones

// Crc64 is an independent bit-by-bit implementation (reflected polynomial).
func Crc64(b []byte) uint64 {
	const polyRev = 0x95ac9329ac4bc9b5
	var crc uint64
	for _, c := range b {
		crc ^= uint64(c)
		for i := 0; i < 8; i++ {
			if crc&1 != 0 {
				crc = (crc >> 1) ^ polyRev
			} else {
				crc >>= 1
			}
		}
	}
	return crc
}

// ---------------------------------------------------------------- canonical arguments

// CanonArg renders one argument as handed to client.Redis: strings and byte
// slices in hex, integers as the hex of their decimal rendering (that is what
// the wire encoder sends), float64 as f:<bits>.
func CanonArg(a interface{}) string {
	switch v := a.(type) {
	case nil:
		return "-"
	case string:
		return hx([]byte(v))
	case []byte:
		return hx(v)
	case int:
		return hx([]byte(strconv.FormatInt(int64(v), 10)))
	case int8:
		return hx([]byte(strconv.FormatInt(int64(v), 10)))
	case int16:
		return hx([]byte(strconv.FormatInt(int64(v), 10)))
	case int32:
		return hx([]byte(strconv.FormatInt(int64(v), 10)))
	case int64:
		return hx([]byte(strconv.FormatInt(v, 10)))
	case uint:
		return hx([]byte(strconv.FormatUint(uint64(v), 10)))
	case uint8:
		return hx([]byte(strconv.FormatUint(uint64(v), 10)))
	case uint16:
		return hx([]byte(strconv.FormatUint(uint64(v), 10)))
	case uint32:
		return hx([]byte(strconv.FormatUint(uint64(v), 10)))
	case uint64:
		return hx([]byte(strconv.FormatUint(v, 10)))
	case float64:
		return fmt.Sprintf("f:%d", math.Float64bits(v))
	case float32:
		return fmt.Sprintf("f:%d", math.Float64bits(float64(v)))
	case bool:
		if v {
			return hx([]byte("1"))
		}
		return hx([]byte("0"))
	}
	return fmt.Sprintf("?%T", a)
}

func hx(b []byte) string {
	if len(b) == 0 {
		return "-"
	}
	return hex.EncodeToString(b)
}

func unhx(s string) []byte {
	if s == "-" {
		return nil
	}
	b, err := hex.DecodeString(s)
	if err != nil {
		panic("bad hex " + s)
	}
	return b
}

// CanonCmd renders "<cmd> <arg>…" (the command name as the code passed it).
func CanonCmd(cmd string, args []interface{}) string {
	parts := make([]string, 0, len(args)+1)
	parts = append(parts, cmd)
	for _, a := range args {
		parts = append(parts, CanonArg(a))
	}
	return strings.Join(parts, " ")
}

// ---------------------------------------------------------------- values

type ZMember struct {
	Member []byte
	Score  string // canonical score token: "f:<bits>" (binary double) or "s:<hex>" (string as stored)
}
type HField struct{ Field, Value []byte }
type SEntry struct {
	ID     string
	Fields [][]byte // f1 v1 f2 v2 …
}
type SNack struct {
	ID       string
	Consumer []byte
	Time     string
	Count    string
}
type SGroup struct {
	Name        []byte
	LastID      string
	EntriesRead string // "" when not given
	Pel         []SNack
	// Consumers: the group's consumers by name, in creation order (XGROUP CREATECONSUMER, or the
	// first XCLAIM that really claims an entry for the name)
	Consumers [][]byte
	// ConsumersWithPending: (expected values) the consumers that own a pending entry whose item
	// is still in the stream - all that commands can carry to a target older than 6.2
	ConsumersWithPending [][]byte
}
type StreamVal struct {
	Entries      []SEntry
	LastID       string
	EntriesAdded string // "" when not given
	MaxDeleted   string
	Groups       []SGroup
}

// Val is a logical Redis value.
type Val struct {
	Kind    string // string | list | set | zset | hash | stream | restored
	Str     []byte
	List    [][]byte
	Set     [][]byte
	Zset    []ZMember
	Hash    []HField
	Stream  *StreamVal
	// StreamVer is the RDB stream format version (1..4) of an expected value
	StreamVer int
	// Shape: (generated streams) what the stream exercises, for the coverage counters
	Shape *StreamShape
	Payload   []byte // kind restored: the RESTORE payload
	TTL     int64  // milliseconds handed to RESTORE / PEXPIRE; 0 = none
	ExpAt   int64 // absolute expiry the request established (target clock at the request + TTL), ms; 0 = none
	Allow   int64 // ms the entry's own requests had taken when the expiry was set (the lateness C03 tolerates)
	// ExpSet: the expiry was established by a request of THIS replay (PEXPIRE / PEXPIREAT / RESTORE ttl): such a
	// key is gone once the target's clock has reached ExpAt and the next request touches it (lazy expiry, as a
	// server does) - the "key expires between two bins of a split value" dimension (session 5 audit)
	ExpSet bool
	Idle    string
	Freq    string
}

// Canon renders a value for comparison (sets and zsets/hashes by sorted member).
func (v *Val) Canon() string {
	var sb strings.Builder
	sb.WriteString(v.Kind)
	sb.WriteString(fmt.Sprintf(" exp=%d", v.ExpAt))
	switch v.Kind {
	case "string":
		sb.WriteString(" " + hx(v.Str))
	case "list":
		for _, e := range v.List {
			sb.WriteString(" " + hx(e))
		}
	case "set":
		var ms []string
		for _, e := range v.Set {
			ms = append(ms, hx(e))
		}
		sort.Strings(ms)
		sb.WriteString(" " + strings.Join(ms, " "))
	case "zset":
		var ms []string
		for _, e := range v.Zset {
			ms = append(ms, hx(e.Member)+"="+e.Score)
		}
		sort.Strings(ms)
		sb.WriteString(" " + strings.Join(ms, " "))
	case "hash":
		var ms []string
		for _, e := range v.Hash {
			ms = append(ms, hx(e.Field)+"="+hx(e.Value))
		}
		sort.Strings(ms)
		sb.WriteString(" " + strings.Join(ms, " "))
	case "stream":
		s := v.Stream
		sb.WriteString(fmt.Sprintf(" last=%s added=%s maxdel=%s", s.LastID, s.EntriesAdded, s.MaxDeleted))
		for _, e := range s.Entries {
			sb.WriteString(" [" + e.ID)
			for _, f := range e.Fields {
				sb.WriteString(" " + hx(f))
			}
			sb.WriteString("]")
		}
		gs := append([]SGroup{}, s.Groups...)
		sort.Slice(gs, func(i, j int) bool { return bytes.Compare(gs[i].Name, gs[j].Name) < 0 })
		for _, g := range gs {
			sb.WriteString(fmt.Sprintf(" {g=%s last=%s read=%s", hx(g.Name), g.LastID, g.EntriesRead))
			pel := append([]SNack{}, g.Pel...)
			sort.Slice(pel, func(i, j int) bool { return cmpIDs(pel[i].ID, pel[j].ID) < 0 })
			for _, n := range pel {
				sb.WriteString(fmt.Sprintf(" (%s %s %s %s)", n.ID, hx(n.Consumer), n.Time, n.Count))
			}
			var cs []string
			for _, cn := range g.Consumers {
				cs = append(cs, hx(cn))
			}
			sort.Strings(cs)
			sb.WriteString(" consumers=" + strings.Join(cs, ","))
			sb.WriteString("}")
		}
	case "restored":
		sb.WriteString(" " + hx(v.Payload) + " idle=" + v.Idle + " freq=" + v.Freq)
	}
	return sb.String()
}

// OrderedStream renders a stream value WITHOUT sorting (entries, groups in creation order,
// pending entries in the order XCLAIM created them) in the format of the Lean driver's
// `svv` op (showXStream): the denotation StreamE.xval is compared with it verbatim.
func OrderedStream(s *StreamVal) string {
	opt := func(x string) string {
		if x == "" {
			return "-"
		}
		return x
	}
	var sb strings.Builder
	sb.WriteString(fmt.Sprintf("last=%s added=%s maxdel=%s", s.LastID, opt(s.EntriesAdded), opt(s.MaxDeleted)))
	for _, e := range s.Entries {
		sb.WriteString(" [" + e.ID)
		for _, f := range e.Fields {
			sb.WriteString(" " + hx(f))
		}
		sb.WriteString("]")
	}
	for _, g := range s.Groups {
		sb.WriteString(fmt.Sprintf(" {g=%s last=%s read=%s", hx(g.Name), g.LastID, opt(g.EntriesRead)))
		for _, n := range g.Pel {
			sb.WriteString(fmt.Sprintf(" (%s %s %s %s)", n.ID, hx(n.Consumer), n.Time, n.Count))
		}
		var cs []string
		for _, cn := range g.Consumers {
			cs = append(cs, hx(cn))
		}
		sb.WriteString(" consumers=" + strings.Join(cs, ","))
		sb.WriteString("}")
	}
	return sb.String()
}

func parseID(s string) (uint64, uint64, bool) {
	p := strings.SplitN(s, "-", 2)
	if len(p) != 2 {
		return 0, 0, false
	}
	a, e1 := strconv.ParseUint(p[0], 10, 64)
	b, e2 := strconv.ParseUint(p[1], 10, 64)
	return a, b, e1 == nil && e2 == nil
}

func cmpIDs(a, b string) int {
	am, as, _ := parseID(a)
	bm, bs, _ := parseID(b)
	switch {
	case am < bm:
		return -1
	case am > bm:
		return 1
	case as < bs:
		return -1
	case as > bs:
		return 1
	}
	return 0
}

// ---------------------------------------------------------------- target double

// Target is the minimal interpreter: DB -> key -> value.
type Target struct {
	mu      sync.Mutex
	DBs     map[int]map[string]*Val
	Scripts [][]byte
	Funcs   []string
	// LastClock: the target's clock at the last request; ExpiredByClock: keys removed because the clock had
	// reached the expiry a request of this replay had set
	LastClock      int64
	ExpiredByClock int
	Errors  []string // replies that were errors other than BUSYKEY / Bad data format
	// Now is the target's clock in ms (nil = 0); Tick runs once per request
	// (the harness lets virtual time pass there)
	Now  func() int64
	Tick func()
	// TickMs is how much the clock advances per request: the replayer reads its clock
	// once per entry, before the entry's requests, so the absolute expiry a request
	// establishes is judged from the clock at the entry's first request
	TickMs int64
	// Major is the target's major version: RESTORE refuses value types this
	// version cannot load with "ERR Bad data format" (0 = accepts everything)
	Major int
	// Minor is the target's minor version (XGROUP CREATECONSUMER exists from 6.2 on)
	Minor int
	// XclaimNoEntry counts the XCLAIM ... FORCE requests that named an id that is not an entry
	// of the stream (no pending entry is created: t_stream.c xclaimCommand); XclaimClamped the
	// TIME arguments above the target's clock (stored as now)
	XclaimNoEntry, XclaimClamped int
	// BadFormat counts the RESTOREs refused with "Bad data format"
	BadFormat int
}

// typeLoadable: can a server of this major version load an RDB value type?
// 4.x: up to quicklist (14); 5/6: + stream listpacks (15); 7.x: + listpack
// hash/zset, quicklist 2, stream 2, set listpack, stream 3 (16..21); 8.x: all.
func typeLoadable(major int, t byte) bool {
	switch {
	case major == 0 || major >= 8:
		return true
	case major >= 7:
		return t <= 21
	case major >= 5:
		return t <= 15
	default:
		return t <= 14
	}
}

// sinceEntryStart counts the requests of the current entry that precede the one
// being applied on this connection. An entry's requests are, in order: [restore
// [restore … REPLACE]] [exists [del]] data commands… [pexpire]; a split value's
// later chunks have no probe but follow the previous chunk's PEXPIRE.
func (c *Conn) sinceEntryStart(key string) int64 {
	hk := hx([]byte(key))
	parse := func(i int) (cmd, k string, replace bool) {
		f := strings.Fields(c.Log[i])
		if len(f) < 2 {
			return "", "", false
		}
		cmd, k = strings.ToLower(f[0]), f[1]
		if cmd == "pexpireat" {
			cmd = "pexpire"
		}
		if cmd == "xgroup" && len(f) > 2 {
			k = f[2]
		}
		return cmd, k, cmd == "restore" && f[len(f)-1] == hx([]byte("REPLACE"))
	}
	cur, _, curRepl := parse(len(c.Log) - 1) // the request being applied
	if cur == "restore" && !curRepl {
		return 0 // first request of its entry
	}
	n := int64(0)
	i := len(c.Log) - 2
	if cur != "restore" {
		for ; i >= 0; i-- {
			cmd, k, _ := parse(i)
			if k != hk || cmd == "pexpire" || cmd == "restore" || cmd == "" {
				break
			}
			n++
			if cmd == "exists" {
				i--
				break
			}
		}
	}
	// the failed RESTORE attempt(s) that precede a fall-back expansion / the REPLACE retry
	for ; i >= 0; i-- {
		cmd, k, repl := parse(i)
		if cmd != "restore" || k != hk {
			break
		}
		n++
		if !repl {
			break
		}
	}
	return n
}

func (t *Target) now() int64 {
	if t.Now == nil {
		return 0
	}
	return t.Now()
}

func NewTarget() *Target { return &Target{DBs: map[int]map[string]*Val{}} }

func (t *Target) db(n int) map[string]*Val {
	d := t.DBs[n]
	if d == nil {
		d = map[string]*Val{}
		t.DBs[n] = d
	}
	return d
}

// Put pre-populates a key.
func (t *Target) Put(db int, key []byte, v *Val) { t.db(db)[string(key)] = v }

// Conn is one connection to the target: current DB and ordered request log.
type Conn struct {
	T   *Target
	Cur int
	Log []string
}

func (t *Target) NewConn() *Conn { return &Conn{T: t} }

type RedisError string

func (e RedisError) Error() string { return string(e) }

func argBytes(a interface{}) []byte {
	switch v := a.(type) {
	case nil:
		return nil
	case string:
		return []byte(v)
	case []byte:
		return v
	case float64:
		return []byte(strconv.FormatFloat(v, 'f', -1, 64))
	}
	return unhx(CanonArg(a))
}

func wrongType() (interface{}, error) {
	return nil, RedisError("WRONGTYPE Operation against a key holding the wrong kind of value")
}

// Do logs and interprets one request and returns the reply.
func (c *Conn) Do(cmd string, args ...interface{}) (interface{}, error) {
	c.T.mu.Lock()
	c.Log = append(c.Log, CanonCmd(cmd, args))
	r, err := c.apply(strings.ToLower(cmd), args)
	if err != nil && !strings.HasPrefix(err.Error(), "BUSYKEY") && !strings.Contains(err.Error(), "Bad data format") {
		c.T.Errors = append(c.T.Errors, CanonCmd(cmd, args)+" => "+err.Error())
	}
	c.T.mu.Unlock()
	if c.T.Tick != nil {
		c.T.Tick() // outside the lock: the harness lets (virtual) time pass here
	}
	return r, err
}

func (c *Conn) apply(cmd string, args []interface{}) (interface{}, error) {
	d := c.T.db(c.Cur)
	key := func(i int) string {
		if i < len(args) {
			return string(argBytes(args[i]))
		}
		return ""
	}
	// logical clock: a key whose TTL is 1 ms ("already past its expiry") is
	// gone by the time the next request touching it arrives
	if cmd != "select" && cmd != "ping" && cmd != "script" && cmd != "function" && len(args) > 0 {
		k := key(0)
		if cmd == "xgroup" {
			k = key(1)
		}
		if v := d[k]; v != nil && (v.TTL == 1 || (v.ExpSet && v.ExpAt != 0 && c.T.now() >= v.ExpAt)) {
			if v.TTL != 1 {
				c.T.ExpiredByClock++
			}
			delete(d, k)
		}
		if n := c.T.now(); n > c.T.LastClock {
			c.T.LastClock = n
		}
	}
	get := func(k, kind string) (*Val, bool) {
		v := d[k]
		if v == nil {
			v = &Val{Kind: kind}
			if kind == "stream" {
				v.Stream = &StreamVal{LastID: "0-0"}
			}
			d[k] = v
			return v, true
		}
		return v, v.Kind == kind
	}
	switch cmd {
	case "ping":
		return "PONG", nil
	case "select":
		n, err := strconv.Atoi(key(0))
		if err != nil {
			return nil, RedisError("ERR invalid DB index")
		}
		c.Cur = n
		return "OK", nil
	case "exists":
		if _, ok := d[key(0)]; ok {
			return int64(1), nil
		}
		return int64(0), nil
	case "del":
		if _, ok := d[key(0)]; ok {
			delete(d, key(0))
			return int64(1), nil
		}
		return int64(0), nil
	case "pexpire":
		v := d[key(0)]
		if v == nil {
			return int64(0), nil
		}
		n, err := strconv.ParseInt(key(1), 10, 64)
		if err != nil {
			return nil, RedisError("ERR value is not an integer or out of range")
		}
		v.TTL = n
		v.ExpAt = c.T.now() + n
		v.ExpSet = true
		v.Allow = c.T.TickMs * c.sinceEntryStart(key(0))
		return int64(1), nil
	case "pexpireat":
		v := d[key(0)]
		if v == nil {
			return int64(0), nil
		}
		n, err := strconv.ParseInt(key(1), 10, 64)
		if err != nil {
			return nil, RedisError("ERR value is not an integer or out of range")
		}
		v.ExpAt, v.TTL = n, n-c.T.now()
		v.ExpSet = true
		if v.TTL <= 1 {
			v.TTL = 1 // already past: gone before the next request
		}
		v.Allow = c.T.TickMs * c.sinceEntryStart(key(0))
		return int64(1), nil
	case "restore":
		if len(args) < 3 {
			return nil, RedisError("ERR wrong number of arguments")
		}
		replace, absttl := false, false
		nv := &Val{Kind: "restored", Payload: append([]byte{}, argBytes(args[2])...)}
		for i := 3; i < len(args); i++ {
			switch strings.ToUpper(key(i)) {
			case "REPLACE":
				replace = true
			case "ABSTTL":
				absttl = true
			case "IDLETIME":
				i++
				nv.Idle = key(i)
			case "FREQ":
				i++
				nv.Freq = key(i)
			default:
				return nil, RedisError("ERR syntax error")
			}
		}
		if _, ok := d[key(0)]; ok && !replace {
			return nil, RedisError("BUSYKEY Target key name already exists.")
		}
		n, err := strconv.ParseInt(key(1), 10, 64)
		if err != nil || n < 0 {
			return nil, RedisError("ERR Invalid TTL value, must be >= 0")
		}
		if len(nv.Payload) < 11 || !typeLoadable(c.T.Major, nv.Payload[0]) {
			c.T.BadFormat++
			return nil, RedisError("ERR Bad data format")
		}
		nv.TTL = n
		if n != 0 {
			nv.ExpSet = true
			nv.ExpAt = c.T.now() + n
			if absttl {
				nv.ExpAt = n
				nv.TTL = n - c.T.now()
				if nv.TTL <= 1 {
					nv.TTL = 1
				}
			}
			nv.Allow = c.T.TickMs * c.sinceEntryStart(key(0))
		}
		d[key(0)] = nv
		return "OK", nil
	case "set":
		d[key(0)] = &Val{Kind: "string", Str: append([]byte{}, argBytes(args[1])...)}
		return "OK", nil
	case "rpush":
		v, ok := get(key(0), "list")
		if !ok {
			return wrongType()
		}
		for _, a := range args[1:] {
			v.List = append(v.List, append([]byte{}, argBytes(a)...))
		}
		return int64(len(v.List)), nil
	case "sadd":
		v, ok := get(key(0), "set")
		if !ok {
			return wrongType()
		}
		added := int64(0)
		for _, a := range args[1:] {
			m := argBytes(a)
			dup := false
			for _, e := range v.Set {
				if bytes.Equal(e, m) {
					dup = true
				}
			}
			if !dup {
				v.Set = append(v.Set, append([]byte{}, m...))
				added++
			}
		}
		return added, nil
	case "zadd":
		v, ok := get(key(0), "zset")
		if !ok {
			return wrongType()
		}
		if len(args) != 3 {
			return nil, RedisError("ERR syntax error")
		}
		var score string
		switch s := args[1].(type) {
		case float64:
			score = fmt.Sprintf("f:%d", math.Float64bits(s))
		default:
			score = "s:" + hx(argBytes(args[1]))
		}
		m := argBytes(args[2])
		for i := range v.Zset {
			if bytes.Equal(v.Zset[i].Member, m) {
				v.Zset[i].Score = score
				return int64(0), nil
			}
		}
		v.Zset = append(v.Zset, ZMember{append([]byte{}, m...), score})
		return int64(1), nil
	case "hset":
		v, ok := get(key(0), "hash")
		if !ok {
			return wrongType()
		}
		if len(args) != 3 {
			return nil, RedisError("ERR wrong number of arguments for 'hset' command")
		}
		f, val := argBytes(args[1]), argBytes(args[2])
		for i := range v.Hash {
			if bytes.Equal(v.Hash[i].Field, f) {
				v.Hash[i].Value = append([]byte{}, val...)
				return int64(0), nil
			}
		}
		v.Hash = append(v.Hash, HField{append([]byte{}, f...), append([]byte{}, val...)})
		return int64(1), nil
	case "xadd":
		return c.xadd(d, args, key, get)
	case "xsetid":
		v, ok := d[key(0)]
		if !ok {
			return nil, RedisError("ERR no such key")
		}
		if v.Kind != "stream" {
			return wrongType()
		}
		s := v.Stream
		if _, _, ok := parseID(key(1)); !ok {
			return nil, RedisError("ERR Invalid stream ID specified as stream command argument")
		}
		if c.T.Major < 7 && len(args) != 2 {
			// Redis 5 / 6: XSETID key id, arity exactly 3 (ENTRIESADDED / MAXDELETEDID are 7.0)
			return nil, RedisError("ERR wrong number of arguments for 'xsetid' command")
		}
		// t_stream.c xsetidCommand (7.0+): options first, then the checks against the stream
		added, maxDel := "", ""
		for i := 2; i < len(args); i++ {
			switch strings.ToUpper(key(i)) {
			case "ENTRIESADDED":
				i++
				if i >= len(args) {
					return nil, RedisError("ERR syntax error")
				}
				n, err := strconv.ParseInt(key(i), 10, 64) // a long long: at most 2^63-1
				if err != nil {
					return nil, RedisError("ERR value is not an integer or out of range")
				}
				if n < 0 {
					return nil, RedisError("ERR entries_added must be positive")
				}
				added = key(i)
			case "MAXDELETEDID":
				i++
				if i >= len(args) {
					return nil, RedisError("ERR syntax error")
				}
				if _, _, ok := parseID(key(i)); !ok {
					return nil, RedisError("ERR Invalid stream ID specified as stream command argument")
				}
				if cmpIDs(key(1), key(i)) < 0 {
					return nil, RedisError("ERR The ID specified in XSETID is smaller than the provided max_deleted_entry_id")
				}
				maxDel = key(i)
			default:
				return nil, RedisError("ERR syntax error")
			}
		}
		if len(s.Entries) > 0 {
			if cmpIDs(key(1), s.Entries[len(s.Entries)-1].ID) < 0 {
				return nil, RedisError("ERR The ID specified in XSETID is smaller than the target stream top item")
			}
			if added != "" {
				if n, _ := strconv.ParseInt(added, 10, 64); int64(len(s.Entries)) > n {
					return nil, RedisError("ERR The entries_added specified in XSETID is smaller than the target stream length")
				}
			}
		}
		s.LastID = key(1)
		if added != "" {
			s.EntriesAdded = added
		}
		if maxDel != "" {
			// (a 0-0 MAXDELETEDID leaves the field as it is: 0-0 on a stream that never had one)
			if cmpIDs(maxDel, "0-0") != 0 || s.MaxDeleted == "" {
				s.MaxDeleted = maxDel
			}
		}
		return "OK", nil
	case "xgroup":
		if strings.ToUpper(key(0)) == "CREATECONSUMER" {
			// XGROUP CREATECONSUMER key group consumer (Redis 6.2): 1 = created, 0 = it existed
			if c.T.Major < 6 || (c.T.Major == 6 && c.T.Minor < 2) {
				return nil, RedisError("ERR Unknown subcommand or wrong number of arguments for 'CREATECONSUMER'. Try XGROUP HELP.")
			}
			if len(args) != 4 {
				return nil, RedisError("ERR Unknown subcommand or wrong number of arguments for 'CREATECONSUMER'. Try XGROUP HELP.")
			}
			v, ok := d[key(1)]
			if !ok || v.Kind != "stream" {
				return nil, RedisError("ERR The XGROUP subcommand requires the key to exist.")
			}
			for i := range v.Stream.Groups {
				g := &v.Stream.Groups[i]
				if string(g.Name) == key(2) {
					for _, cn := range g.Consumers {
						if string(cn) == key(3) {
							return int64(0), nil
						}
					}
					g.Consumers = append(g.Consumers, []byte(key(3)))
					return int64(1), nil
				}
			}
			return nil, RedisError("NOGROUP No such consumer group '" + key(2) + "' for key name '" + key(1) + "'")
		}
		if strings.ToUpper(key(0)) != "CREATE" || len(args) < 4 {
			return nil, RedisError("ERR syntax error")
		}
		v, ok := d[key(1)]
		if !ok {
			return nil, RedisError("ERR The XGROUP subcommand requires the key to exist.")
		}
		if v.Kind != "stream" {
			return wrongType()
		}
		s := v.Stream
		for _, g := range s.Groups {
			if string(g.Name) == key(2) {
				return nil, RedisError("BUSYGROUP Consumer Group name already exists")
			}
		}
		if _, _, ok := parseID(key(3)); !ok {
			return nil, RedisError("ERR Invalid stream ID specified as stream command argument")
		}
		g := SGroup{Name: []byte(key(2)), LastID: key(3)}
		for i := 4; i < len(args); i++ {
			switch strings.ToUpper(key(i)) {
			case "ENTRIESREAD":
				if c.T.Major < 7 {
					// Redis 5 / 6 know MKSTREAM only
					return nil, RedisError("ERR syntax error")
				}
				i++
				n, err := strconv.ParseInt(key(i), 10, 64)
				if err != nil {
					return nil, RedisError("ERR value is not an integer or out of range")
				}
				if n < -1 {
					return nil, RedisError("ERR value for ENTRIESREAD must be positive or -1")
				}
				g.EntriesRead = key(i)
			case "MKSTREAM":
			default:
				return nil, RedisError("ERR syntax error")
			}
		}
		s.Groups = append(s.Groups, g)
		return "OK", nil
	case "xclaim":
		// XCLAIM key group consumer min-idle id TIME t RETRYCOUNT n JUSTID FORCE
		v, ok := d[key(0)]
		if !ok || v.Kind != "stream" {
			return nil, RedisError("NOGROUP No such key or consumer group")
		}
		s := v.Stream
		var g *SGroup
		for i := range s.Groups {
			if string(s.Groups[i].Name) == key(1) {
				g = &s.Groups[i]
			}
		}
		if g == nil {
			return nil, RedisError("NOGROUP No such key or consumer group")
		}
		// XCLAIM key group consumer min-idle id TIME ms RETRYCOUNT n JUSTID FORCE [LASTID id]
		// (the one-id forms the tool and a repaired tool may send; option words are inspected)
		if (len(args) != 11 && len(args) != 13) || strings.ToUpper(key(5)) != "TIME" || strings.ToUpper(key(7)) != "RETRYCOUNT" ||
			strings.ToUpper(key(9)) != "JUSTID" || strings.ToUpper(key(10)) != "FORCE" ||
			(len(args) == 13 && strings.ToUpper(key(11)) != "LASTID") {
			return nil, RedisError("ERR syntax error")
		}
		if _, err := strconv.ParseInt(key(3), 10, 64); err != nil {
			return nil, RedisError("ERR Invalid min-idle-time argument for XCLAIM")
		}
		id := key(4)
		if _, _, ok := parseID(id); !ok {
			return nil, RedisError("ERR Invalid stream ID specified as stream command argument")
		}
		tm, err := strconv.ParseInt(key(6), 10, 64)
		if err != nil {
			return nil, RedisError("ERR Invalid TIME option argument for XCLAIM")
		}
		rc, err := strconv.ParseInt(key(8), 10, 64)
		if err != nil || rc < 0 {
			return nil, RedisError("ERR Invalid RETRYCOUNT option argument for XCLAIM")
		}
		if len(args) == 13 {
			if _, _, ok := parseID(key(12)); !ok {
				return nil, RedisError("ERR Invalid stream ID specified as stream command argument")
			}
			if cmpIDs(key(12), g.LastID) > 0 {
				g.LastID = key(12)
			}
		}
		// "if the value is bogus" (negative or in the future of this server) the delivery time is now
		if now := c.T.now(); c.T.Now != nil && (tm < 0 || tm > now) {
			tm = now
			c.T.XclaimClamped++
		}
		// "Item must exist for us to transfer it to another consumer" / FORCE creates the pending
		// entry only "if at least the entry exists in the Stream" (all versions); since 7.0 a pending
		// entry whose item is gone is dropped here
		exists := false
		for _, e := range s.Entries {
			if e.ID == id {
				exists = true
			}
		}
		if !exists {
			c.T.XclaimNoEntry++
			if c.T.Major == 0 || c.T.Major >= 7 {
				for i := range g.Pel {
					if g.Pel[i].ID == id {
						g.Pel = append(g.Pel[:i], g.Pel[i+1:]...)
						break
					}
				}
			}
			return []interface{}{}, nil
		}
		known := false
		for _, cn := range g.Consumers {
			if string(cn) == key(2) {
				known = true
			}
		}
		if !known {
			g.Consumers = append(g.Consumers, []byte(key(2)))
		}
		n := SNack{ID: id, Consumer: []byte(key(2)), Time: strconv.FormatInt(tm, 10), Count: key(8)}
		for i := range g.Pel {
			if g.Pel[i].ID == id {
				g.Pel[i] = n
				return []interface{}{id}, nil
			}
		}
		g.Pel = append(g.Pel, n)
		return []interface{}{id}, nil
	case "script":
		if len(args) == 2 {
			c.T.Scripts = append(c.T.Scripts, argBytes(args[1]))
		}
		return "sha", nil
	case "function":
		c.T.Funcs = append(c.T.Funcs, CanonCmd(cmd, args))
		return "OK", nil
	}
	return nil, RedisError("ERR unknown command '" + cmd + "'")
}

func (c *Conn) xadd(d map[string]*Val, args []interface{}, key func(int) string,
	get func(string, string) (*Val, bool)) (interface{}, error) {
	v, ok := get(key(0), "stream")
	if !ok {
		return wrongType()
	}
	s := v.Stream
	i := 1
	maxlen := -1
	if strings.ToUpper(key(i)) == "MAXLEN" {
		n, err := strconv.Atoi(key(i + 1))
		if err != nil {
			return nil, RedisError("ERR value is not an integer or out of range")
		}
		maxlen = n
		i += 2
	}
	id := key(i)
	if _, _, ok := parseID(id); !ok {
		return nil, RedisError("ERR Invalid stream ID specified as stream command argument")
	}
	if cmpIDs(id, s.LastID) <= 0 {
		return nil, RedisError("ERR The ID specified in XADD is equal or smaller than the target stream top item")
	}
	i++
	if (len(args)-i)%2 != 0 || len(args)-i == 0 {
		return nil, RedisError("ERR wrong number of arguments for 'xadd' command")
	}
	e := SEntry{ID: id}
	for ; i < len(args); i++ {
		e.Fields = append(e.Fields, append([]byte{}, argBytes(args[i])...))
	}
	s.Entries = append(s.Entries, e)
	s.LastID = id
	if maxlen >= 0 && len(s.Entries) > maxlen {
		s.Entries = s.Entries[len(s.Entries)-maxlen:]
	}
	return id, nil
}

// Snapshot renders the whole keyspace canonically: "db/<hexkey> <value>"; keys
// about to expire (TTL 1 ms) count as expired.
func (t *Target) Snapshot() []string {
	t.mu.Lock()
	defer t.mu.Unlock()
	var out []string
	for db, m := range t.DBs {
		for k, v := range m {
			if v.TTL == 1 {
				continue // expires at once
			}
			out = append(out, fmt.Sprintf("%d/%s %s", db, hx([]byte(k)), v.Canon()))
		}
	}
	sort.Strings(out)
	return out
}
