//go:build verif

package vfc03

// Stream descriptions.
//
//   "stream" <ver 1..4> <nNodes> NODE* <length> <lastMs> <lastSeq> <firstMs> <firstSeq> <maxDelMs> <maxDelSeq>
//            <entriesAdded> <nGroups> GROUP* <idmpDuration> <idmpMax> <nProducers> PRODUCER* <added> <dups>
//   NODE  := W <masterMs> <masterSeq> LP(master fields) <nEntries> ENTRY*
//   ENTRY := <flags: +1 deleted, +2 same fields> LE(ms delta) LE(seq delta) LP(values | field value …)
//   GROUP := SE <lastMs> <lastSeq> <entriesRead> <nPel> (<ms> <seq> <time> <count>)* <nConsumers> CONSUMER*
//   CONSUMER := SE <seen> <active> <nPel> (<ms> <seq>)*
//   PRODUCER := SE <n> (SE <ms> <seq>)*

import (
	"fmt"
	"strconv"
	"strings"

	"github.com/mgtv-tech/redis-GunYu/pkg/vfutil"
)

func (g *Gen) lpIntTok(v int64) string {
	var opts []string
	if v >= 0 && v <= 127 {
		opts = append(opts, "u7")
	}
	for _, w := range []uint{13, 16, 24, 32, 64} {
		if fits(v, w) {
			opts = append(opts, fmt.Sprintf("i%d", w))
		}
	}
	o := opts[0]
	if g.R.Chance(1, 5) {
		o = vfutil.Pick(g.R, opts)
	}
	return o + ":" + strconv.FormatInt(v, 10)
}

// StreamShape is what a generated stream exercises (coverage counters of the harness).
type StreamShape struct {
	Ver            int
	Nodes, Live    int
	Deleted        int
	BigIDs         bool // ids at or above 2^63
	Groups         int
	Pending        int  // PEL entries over all groups
	EmptyConsumers int  // consumers without pending entries (NOT carried by the expansion)
	PendingGone    int  // pending ids whose entry is deleted or trimmed (NOT recreatable by commands: lost on the expansion path)
	ReadInvalid    int  // groups whose entries-read is -1 (SCG_INVALID_ENTRIES_READ), stored (v2+)
	GroupAhead     int  // groups whose last-delivered id lies beyond the stream's last id
	LastAhead      bool // last id above the last entry (entries deleted at the tail)
}

type sid struct{ ms, seq uint64 }

func (a sid) String() string { return fmt.Sprintf("%d-%d", a.ms, a.seq) }
func (a sid) less(b sid) bool {
	return a.ms < b.ms || (a.ms == b.ms && a.seq < b.seq)
}

// Stream generates a stream value of a random format version.
func (g *Gen) Stream() (string, *Val, string) {
	ver := g.R.Range(1, 4)
	sv := &StreamVal{}
	shape := &StreamShape{Ver: ver}
	var toks []string
	nNodes := g.R.Intn(4)
	// first id
	cur := sid{uint64(g.R.Intn(1000)), uint64(g.R.Intn(10))}
	switch g.R.Intn(8) {
	case 0:
		cur = sid{1 << 63, 5} // IDs beyond int64
	case 1:
		cur = sid{^uint64(0) - 1000, ^uint64(0) - 5000}
	case 2:
		cur = sid{0, 1}
	}
	if cur.ms == 0 && cur.seq == 0 {
		cur.seq = 1 // 0-0 is not a valid entry id
	}
	type live struct {
		id sid
	}
	var lives, dels []sid
	firstEver := cur
	var maxDel sid
	total := 0
	var last sid
	var nodeToks []string
	for n := 0; n < nNodes; n++ {
		master := cur
		// master fields
		nmf := g.R.Intn(4)
		var mfTok []string
		var mf [][]byte
		for i := 0; i < nmf; i++ {
			t, v := g.lpEntry()
			mfTok = append(mfTok, t)
			mf = append(mf, v)
		}
		ne := g.R.Range(1, 5)
		var eToks []string
		for e := 0; e < ne; e++ {
			id := cur
			flags := 0
			deleted := g.R.Chance(1, 5)
			if deleted {
				flags |= 1
			}
			same := g.R.Chance(1, 2)
			var items []string
			var fv [][]byte
			if same {
				flags |= 2
				for i := 0; i < nmf; i++ {
					t, v := g.lpEntry()
					items = append(items, t)
					fv = append(fv, mf[i], v)
				}
				if nmf == 0 {
					// XADD needs at least one pair; an entry with the (empty) master field set cannot exist
					same = false
					flags &^= 2
				}
			}
			if !same {
				nf := g.R.Range(1, 4)
				for i := 0; i < nf; i++ {
					t, v := g.lpEntry()
					t2, v2 := g.lpEntry()
					items = append(items, t, t2)
					fv = append(fv, v, v2)
				}
			}
			msd := int64(id.ms - master.ms)
			sqd := int64(id.seq - master.seq)
			eToks = append(eToks, fmt.Sprintf("%d %s %s %s", flags, g.lpIntTok(msd), g.lpIntTok(sqd),
				strings.TrimSpace(fmt.Sprintf("%d %s", len(items), strings.Join(items, " ")))))
			total++
			last = id
			if id.ms >= 1<<63 || id.seq >= 1<<63 {
				shape.BigIDs = true
			}
			if deleted {
				dels = append(dels, id)
				shape.Deleted++
				if maxDel.less(id) {
					maxDel = id
				}
			} else {
				lives = append(lives, id)
				sv.Entries = append(sv.Entries, SEntry{ID: id.String(), Fields: fv})
			}
			// next id
			switch g.R.Intn(4) {
			case 0:
				cur = sid{cur.ms, cur.seq + 1}
			case 1:
				cur = sid{cur.ms + uint64(g.R.Range(1, 70000)), 0}
			case 2:
				cur = sid{cur.ms + 1, uint64(g.R.Intn(5))}
			default:
				cur = sid{cur.ms, cur.seq + uint64(g.R.Range(1, 300))}
			}
			if cur.less(id) || cur == id { // wrapped around
				cur = sid{id.ms, id.seq + 1}
				if cur.less(id) {
					cur = id
					ne = e + 1
				}
			}
		}
		nodeToks = append(nodeToks, fmt.Sprintf("%s %d %d %s %d %s", g.wrap(), master.ms, master.seq,
			strings.TrimSpace(fmt.Sprintf("%d %s", len(mfTok), strings.Join(mfTok, " "))), ne, strings.Join(eToks, " ")))
	}
	if g.R.Chance(1, 4) && last.ms < ^uint64(0)-10 {
		nl := sid{last.ms + uint64(g.R.Intn(5)), last.seq + uint64(g.R.Intn(3))}
		shape.LastAhead = nl != last
		last = nl
	}
	if total == 0 && g.R.Bool() {
		last = sid{}
	}
	var first sid
	if len(lives) > 0 {
		first = lives[0]
	}
	added := uint64(total + g.R.Intn(3))
	sv.LastID = last.String()
	sv.EntriesAdded = strconv.FormatUint(added, 10)
	sv.MaxDeleted = maxDel.String()
	if ver == 1 {
		sv.EntriesAdded = strconv.Itoa(len(lives))
		sv.MaxDeleted = "0-0"
	}
	toks = append(toks, "stream", strconv.Itoa(ver), strconv.Itoa(nNodes))
	toks = append(toks, nodeToks...)
	toks = append(toks, strconv.Itoa(len(lives)), u(last.ms), u(last.seq), u(first.ms), u(first.seq), u(maxDel.ms), u(maxDel.seq), u(added))
	// groups
	ng := g.R.Intn(3)
	toks = append(toks, strconv.Itoa(ng))
	seenG := map[string]bool{}
	for i := 0; i < ng; i++ {
		nt, name := distinct(seenG, g.SE)
		gl := last
		switch g.R.Intn(4) {
		case 0:
			gl = sid{}
		case 1:
			if len(lives) > 0 {
				gl = vfutil.Pick(g.R, lives)
			}
		case 2:
			// XGROUP SETID to an id the stream has not reached yet
			if last.ms < ^uint64(0)-10 && g.R.Bool() {
				gl = sid{last.ms + 1 + uint64(g.R.Intn(3)), uint64(g.R.Intn(3))}
				shape.GroupAhead++
			}
		}
		er := uint64(g.R.Intn(int(added) + 1))
		erStr := strconv.FormatUint(er, 10)
		if g.R.Chance(1, 5) {
			// entries read unknown: SCG_INVALID_ENTRIES_READ (-1), saved as 2^64-1
			er, erStr = ^uint64(0), "-1"
			if ver >= 2 {
				shape.ReadInvalid++
			}
		}
		sg := SGroup{Name: name, LastID: gl.String(), EntriesRead: erStr}
		// PEL: a subset of the live entries, partitioned over consumers
		var pel []sid
		for _, id := range lives {
			if g.R.Chance(1, 3) {
				pel = append(pel, id)
			}
		}
		// pending ids whose entry is gone - XDEL of a delivered entry, or MAXLEN trimming under a slow
		// consumer: ordinary production data. No command recreates them (XCLAIM FORCE needs the entry)
		gone := map[sid]bool{}
		for _, id := range dels {
			if g.R.Chance(1, 4) {
				pel = append(pel, id)
				gone[id] = true
			}
		}
		if trimmed := (sid{0, 1}); nNodes > 0 && trimmed.less(firstEver) && g.R.Chance(1, 6) {
			pel = append(pel, trimmed)
			gone[trimmed] = true
		}
		nc := g.R.Intn(3)
		if nc == 0 {
			pel = nil
		}
		gt := []string{nt, u(gl.ms), u(gl.seq), u(er), strconv.Itoa(len(pel))}
		type nack struct {
			id        sid
			tm, count uint64
			cons      int
		}
		var nacks []nack
		for _, id := range pel {
			nk := nack{id, uint64(946684000000 + g.R.Intn(100000)), uint64(g.R.Intn(5) + 1), g.R.Intn(vfutil.Max(nc, 1))}
			nacks = append(nacks, nk)
			gt = append(gt, u(id.ms), u(id.seq), u(nk.tm), u(nk.count))
		}
		gt = append(gt, strconv.Itoa(nc))
		seenC := map[string]bool{}
		for c := 0; c < nc; c++ {
			ct, cname := distinct(seenC, g.SE)
			var mine []nack
			for _, nk := range nacks {
				if nk.cons == c {
					mine = append(mine, nk)
				}
			}
			gt = append(gt, ct, u(uint64(946684000000+g.R.Intn(1000))), u(uint64(946684000000+g.R.Intn(1000))), strconv.Itoa(len(mine)))
			if len(mine) == 0 {
				shape.EmptyConsumers++
			}
			livePending := 0
			for _, nk := range mine {
				gt = append(gt, u(nk.id.ms), u(nk.id.seq))
				if gone[nk.id] {
					shape.PendingGone++
					continue
				}
				livePending++
				shape.Pending++
				sg.Pel = append(sg.Pel, SNack{ID: nk.id.String(), Consumer: cname, Time: u(nk.tm), Count: u(nk.count)})
			}
			if livePending > 0 {
				sg.ConsumersWithPending = append(sg.ConsumersWithPending, cname)
			}
			if livePending > 0 || len(mine) == 0 {
				// what commands CAN carry to a 6.2+ target: XCLAIM creates the owner of a live pending
				// entry, XGROUP CREATECONSUMER an idle consumer; a consumer all of whose pending ids are
				// gone is recreated by nothing
				sg.Consumers = append(sg.Consumers, cname)
			}
		}
		toks = append(toks, gt...)
		sv.Groups = append(sv.Groups, sg)
	}
	// IDMP state (v4 only; always present in the description)
	np := 0
	if ver == 4 {
		np = g.R.Intn(3)
	}
	toks = append(toks, strconv.Itoa(g.R.Intn(1000)), strconv.Itoa(g.R.Intn(1000)), strconv.Itoa(np))
	for p := 0; p < np; p++ {
		pt, _ := g.SE()
		ne := g.R.Intn(3)
		toks = append(toks, pt, strconv.Itoa(ne))
		for e := 0; e < ne; e++ {
			it, _ := g.SE()
			toks = append(toks, it, strconv.Itoa(g.R.Intn(1000)), strconv.Itoa(g.R.Intn(1000)))
		}
	}
	toks = append(toks, strconv.Itoa(g.R.Intn(100)), strconv.Itoa(g.R.Intn(100)))
	shape.Nodes, shape.Live, shape.Groups = nNodes, len(lives), ng
	return strings.Join(strings.Fields(strings.Join(toks, " ")), " "), &Val{Kind: "stream", Stream: sv, StreamVer: ver, Shape: shape}, "stream"
}

func u(x uint64) string { return strconv.FormatUint(x, 10) }

// Counters names the coverage classes a stream shape falls into.
func (sh *StreamShape) Counters() []string {
	if sh == nil {
		return nil
	}
	c := []string{fmt.Sprintf("stream_ver_%d", sh.Ver)}
	add := func(cond bool, name string) {
		if cond {
			c = append(c, name)
		}
	}
	add(sh.Live == 0, "stream_empty")
	add(sh.Nodes > 1, "stream_multi_node")
	add(sh.Deleted > 0, "stream_with_deleted_entries")
	add(sh.BigIDs, "stream_ids_above_2^63")
	add(sh.LastAhead, "stream_last_id_above_last_entry")
	add(sh.Groups > 0, "stream_with_groups")
	add(sh.Groups > 1, "stream_with_several_groups")
	add(sh.Pending > 0, "stream_with_pending_entries")
	add(sh.EmptyConsumers > 0, "stream_with_consumer_without_pending")
	add(sh.PendingGone > 0, "stream_with_pending_id_of_deleted_or_trimmed_entry")
	add(sh.ReadInvalid > 0, "stream_group_entries_read_unknown")
	add(sh.GroupAhead > 0, "stream_group_last_id_ahead_of_stream")
	return c
}

// NormalizeStream blanks, on both the expected and the observed stream, the
// metadata the property does not name and the replay cannot carry: counters
// are only sent to a target ≥ 7; for a version-1 stream `entries read` is an
// estimate.
func NormalizeStream(exp, got *Val, tgt, minor int) {
	if exp == nil || got == nil || exp.Kind != "stream" || got.Kind != "stream" {
		return
	}
	if tgt < 6 || (tgt == 6 && minor < 2) {
		// no XGROUP CREATECONSUMER before 6.2: a consumer without (live) pending entries cannot be
		// carried by commands to such a target (declared limit; the RESTORE path keeps it)
		for i := range exp.Stream.Groups {
			exp.Stream.Groups[i].Consumers = exp.Stream.Groups[i].ConsumersWithPending
		}
	}
	if tgt < 7 {
		exp.Stream.EntriesAdded, exp.Stream.MaxDeleted = "", ""
		for i := range exp.Stream.Groups {
			exp.Stream.Groups[i].EntriesRead = ""
		}
	}
	if exp.StreamVer == 1 {
		for i := range exp.Stream.Groups {
			exp.Stream.Groups[i].EntriesRead = ""
		}
		for i := range got.Stream.Groups {
			got.Stream.Groups[i].EntriesRead = ""
		}
	}
}
