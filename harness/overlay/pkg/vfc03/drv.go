//go:build verif

package vfc03

import (
	"bufio"
	"bytes"
	"encoding/json"
	"fmt"
	"os"
	"os/exec"
	"path/filepath"
	"strconv"
	"strings"
)

// DriverPath is the native Lean driver of C03 (built by the check before the
// harness runs).
func DriverPath() string {
	root := os.Getenv("VERIF_ROOT")
	if root == "" {
		root = "/verif"
	}
	return filepath.Join(root, "lean", ".lake", "build", "bin", "drv_C03")
}

// RunDriver feeds op lines to the Lean driver and returns its output lines.
func RunDriver(ops []string) ([]string, error) {
	cmd := exec.Command(DriverPath())
	cmd.Stdin = strings.NewReader(strings.Join(ops, "\n") + "\n")
	var out, errb bytes.Buffer
	cmd.Stdout = &out
	cmd.Stderr = &errb
	if err := cmd.Run(); err != nil {
		return nil, fmt.Errorf("driver: %v: %s", err, errb.String())
	}
	var lines []string
	sc := bufio.NewScanner(&out)
	sc.Buffer(make([]byte, 1<<20), 1<<30)
	for sc.Scan() {
		lines = append(lines, sc.Text())
	}
	return lines, nil
}

// KeyMeta is what the encoder reports for one key of a description.
type KeyMeta struct {
	DB       int
	Key      []byte
	Type     int
	Ser      []byte // the value's serialization
	ExpireAt uint64
	// Sound: (stream values) the Lean description passes StreamE.soundB, the verified test
	// of the hypothesis `sound` of stream_roundtrip / full_sync_streams
	Sound bool
}

type GenOut struct {
	File []byte
	Keys []KeyMeta
	Bad  bool
}

// Encode asks the Lean encoder (the specification of the on-disk format) for
// the snapshot bytes of every description.
func Encode(descs []string) ([]GenOut, error) {
	ops := make([]string, len(descs))
	for i, d := range descs {
		ops[i] = fmt.Sprintf("gen %d %s", i, d)
	}
	lines, err := RunDriver(ops)
	if err != nil {
		return nil, err
	}
	outs := make([]GenOut, len(descs))
	for _, l := range lines {
		f := strings.Fields(l)
		if len(f) < 2 || !strings.HasPrefix(f[0], "#") {
			return nil, fmt.Errorf("driver: unexpected line %q", l)
		}
		i, err := strconv.Atoi(f[0][1:])
		if err != nil || i < 0 || i >= len(outs) {
			return nil, fmt.Errorf("driver: bad index in %q", l)
		}
		switch f[1] {
		case "file":
			outs[i].File = unhx(f[2])
		case "key":
			db, _ := strconv.Atoi(f[2])
			tp, _ := strconv.Atoi(f[4])
			ex, _ := strconv.ParseUint(f[6], 10, 64)
			outs[i].Keys = append(outs[i].Keys, KeyMeta{DB: db, Key: unhx(f[3]), Type: tp, Ser: unhx(f[5]), ExpireAt: ex,
				Sound: len(f) > 7 && f[7] == "sound"})
		case "bad-desc":
			outs[i].Bad = true
		default:
			return nil, fmt.Errorf("driver: unexpected line %q", l)
		}
	}
	return outs, nil
}

// ReplayOps returns the op lines ("l1 …" / "l2 …", without index) of the replay
// file named by VERIF_REPLAY (./check <ID> --replay FILE), if any.
func ReplayOps() []string {
	p := os.Getenv("VERIF_REPLAY")
	if p == "" {
		return nil
	}
	b, err := os.ReadFile(p)
	if err != nil {
		return nil
	}
	var d struct {
		Replay map[string]interface{} `json:"replay"`
	}
	if json.Unmarshal(b, &d) != nil {
		return nil
	}
	if op, ok := d.Replay["op"].(string); ok {
		return []string{op}
	}
	return nil
}
