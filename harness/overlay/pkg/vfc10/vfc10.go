//go:build verif

// Package vfc10 is the shared part of the C10 (filters) harness: configuration
// type + line-protocol rendering, generators, the independent oracle (union of
// ranges by linear scan, byte-wise prefix, bitwise CRC16), and the op runner.
// It exists only in the go build overlay. It must not import pkg/filter or
// syncer (their in-package tests import it).
package vfc10

import (
	"bytes"
	"fmt"
	"sort"
	"strconv"
	"strings"

	"github.com/mgtv-tech/redis-GunYu/pkg/redis/keyspec"
	"github.com/mgtv-tech/redis-GunYu/pkg/vfutil"
)

// ---------------------------------------------------------------- configuration

// Cfg mirrors config.FilterConfig (+ a command whitelist for the bare filter).
type Cfg struct {
	CB, CW []string // command black / white list
	DB     []int
	PW, PB []string   // prefix white / black list
	SW, SB [][]uint16 // slot white / black list entries ([x] or [l r]; other lengths are skipped by the code)
}

// Filter is the method set of *filter.RedisKeyFilter the property is about.
type Filter interface {
	FilterCmd(cmd string) bool
	FilterKey(key string) bool
	FilterSlot(key string) bool
	FilterDb(db int) bool
	FilterCmdKey(cmd string, args [][]byte) ([][]byte, bool)
}

func strList(l []string) string {
	if len(l) == 0 {
		return "."
	}
	p := make([]string, len(l))
	for i, s := range l {
		p[i] = vfutil.HexS(s)
	}
	return strings.Join(p, ",")
}

func ArgList(l [][]byte) string {
	if len(l) == 0 {
		return "."
	}
	p := make([]string, len(l))
	for i, s := range l {
		p[i] = vfutil.Hex(s)
	}
	return strings.Join(p, ",")
}

func intList(l []int) string {
	if len(l) == 0 {
		return "."
	}
	p := make([]string, len(l))
	for i, v := range l {
		p[i] = strconv.Itoa(v)
	}
	return strings.Join(p, ",")
}

func slotList(l [][]uint16) string {
	if len(l) == 0 {
		return "."
	}
	p := make([]string, len(l))
	for i, e := range l {
		if len(e) == 0 {
			p[i] = "e"
			continue
		}
		q := make([]string, len(e))
		for j, v := range e {
			q[j] = strconv.Itoa(int(v))
		}
		p[i] = strings.Join(q, "_")
	}
	return strings.Join(p, ";")
}

// Fields renders "cb cw db pw pb sw sb".
func (c Cfg) Fields() string {
	return strings.Join([]string{strList(c.CB), strList(c.CW), intList(c.DB), strList(c.PW), strList(c.PB),
		slotList(c.SW), slotList(c.SB)}, " ")
}

func parseStrList(s string) ([]string, error) {
	if s == "." {
		return nil, nil
	}
	var r []string
	for _, h := range strings.Split(s, ",") {
		if h == "-" {
			r = append(r, "")
			continue
		}
		b, err := hexDecode(h)
		if err != nil {
			return nil, err
		}
		r = append(r, string(b))
	}
	return r, nil
}

func hexDecode(h string) ([]byte, error) {
	if h == "-" {
		return nil, nil
	}
	if len(h)%2 != 0 {
		return nil, fmt.Errorf("odd hex")
	}
	b := make([]byte, len(h)/2)
	for i := 0; i < len(b); i++ {
		v, err := strconv.ParseUint(h[2*i:2*i+2], 16, 8)
		if err != nil {
			return nil, err
		}
		b[i] = byte(v)
	}
	return b, nil
}

func ParseArgList(s string) ([][]byte, error) {
	if s == "." {
		return nil, nil
	}
	var r [][]byte
	for _, h := range strings.Split(s, ",") {
		b, err := hexDecode(h)
		if err != nil {
			return nil, err
		}
		if b == nil {
			b = []byte{}
		}
		r = append(r, b)
	}
	return r, nil
}

func parseIntList(s string) ([]int, error) {
	if s == "." {
		return nil, nil
	}
	var r []int
	for _, h := range strings.Split(s, ",") {
		v, err := strconv.Atoi(h)
		if err != nil {
			return nil, err
		}
		r = append(r, v)
	}
	return r, nil
}

func parseSlotList(s string) ([][]uint16, error) {
	if s == "." {
		return nil, nil
	}
	var r [][]uint16
	for _, e := range strings.Split(s, ";") {
		if e == "e" {
			r = append(r, []uint16{})
			continue
		}
		var ent []uint16
		for _, h := range strings.Split(e, "_") {
			v, err := strconv.ParseUint(h, 10, 16)
			if err != nil {
				return nil, err
			}
			ent = append(ent, uint16(v))
		}
		r = append(r, ent)
	}
	return r, nil
}

// ParseCfg reads the seven configuration fields of an op line.
func ParseCfg(f []string) (c Cfg, err error) {
	if len(f) != 7 {
		return c, fmt.Errorf("cfg: want 7 fields")
	}
	if c.CB, err = parseStrList(f[0]); err != nil {
		return
	}
	if c.CW, err = parseStrList(f[1]); err != nil {
		return
	}
	if c.DB, err = parseIntList(f[2]); err != nil {
		return
	}
	if c.PW, err = parseStrList(f[3]); err != nil {
		return
	}
	if c.PB, err = parseStrList(f[4]); err != nil {
		return
	}
	if c.SW, err = parseSlotList(f[5]); err != nil {
		return
	}
	c.SB, err = parseSlotList(f[6])
	return
}

// ---------------------------------------------------------------- independent oracle

// Crc16 is bitwise CRC16/XMODEM.
func Crc16(b []byte) uint16 {
	var crc uint16
	for _, c := range b {
		crc ^= uint16(c) << 8
		for i := 0; i < 8; i++ {
			if crc&0x8000 != 0 {
				crc = (crc << 1) ^ 0x1021
			} else {
				crc <<= 1
			}
		}
	}
	return crc
}

// HashSlot is Redis Cluster HASH_SLOT.
func HashSlot(k []byte) uint16 {
	s := -1
	for i, c := range k {
		if c == '{' {
			s = i
			break
		}
	}
	if s >= 0 {
		for e := s + 1; e < len(k); e++ {
			if k[e] == '}' {
				if e != s+1 {
					return Crc16(k[s+1:e]) % 16384
				}
				break
			}
		}
	}
	return Crc16(k) % 16384
}

// InUnion: slot lies in the union of the configured ranges (linear scan over
// the configuration as written; reversed and malformed entries denote nothing).
func InUnion(entries [][]uint16, slot uint16) bool {
	for _, e := range entries {
		var l, r uint16
		switch len(e) {
		case 1:
			l, r = e[0], e[0]
		case 2:
			l, r = e[0], e[1]
		default:
			continue
		}
		if l <= r && l <= slot && slot <= r {
			return true
		}
	}
	return false
}

// AnyPrefix: some non-empty configured prefix is a byte-wise prefix of key.
func AnyPrefix(ps []string, key []byte) bool {
	for _, p := range ps {
		if p != "" && bytes.HasPrefix(key, []byte(p)) {
			return true
		}
	}
	return false
}

func WantFilterKey(c Cfg, key []byte) bool {
	return AnyPrefix(c.PB, key) || (len(c.PW) > 0 && !AnyPrefix(c.PW, key))
}

func WantFilterSlot(c Cfg, key []byte) bool {
	s := HashSlot(key)
	return InUnion(c.SB, s) || (len(c.SW) > 0 && !InUnion(c.SW, s))
}

func asciiLower(s string) string {
	b := []byte(s)
	for i, c := range b {
		if 'A' <= c && c <= 'Z' {
			b[i] = c + 32
		}
	}
	return string(b)
}

func asciiUpper(s string) string {
	b := []byte(s)
	for i, c := range b {
		if 'a' <= c && c <= 'z' {
			b[i] = c - 32
		}
	}
	return string(b)
}

func cmdListed(l []string, cmd string) bool {
	for _, b := range l {
		if cmd == asciiLower(b) || cmd == asciiUpper(b) {
			return true
		}
	}
	return false
}

func WantFilterCmd(c Cfg, cmd string) bool {
	return cmdListed(c.CB, cmd) || (len(c.CW) > 0 && !cmdListed(c.CW, cmd))
}

func WantFilterDb(c Cfg, db int) bool {
	if db == -1 {
		return false
	}
	for _, d := range c.DB {
		if d == db {
			return true
		}
	}
	return false
}

// WantFilterCmdKey evaluates the property's rule for one command: key
// positions as the command table resolves them; all keys accepted ⇒ unchanged;
// DEL/UNLINK ⇒ the accepted keys; MSET ⇒ the accepted pairs; otherwise (or no
// accepted key) ⇒ withheld. Commands the table does not resolve pass.
func WantFilterCmdKey(c Cfg, cmd string, args [][]byte) (out [][]byte, reject bool, class string) {
	if len(c.PB) == 0 && len(c.PW) == 0 && len(c.SB) == 0 && len(c.SW) == 0 {
		return args, false, "norules"
	}
	idx, ok, _ := safeKeyIndexes(cmd, args)
	if !ok || len(idx) == 0 {
		return args, false, "unresolved"
	}
	var kept []int
	for _, i := range idx {
		if i < 0 || i >= len(args) {
			return args, true, "badindex"
		}
		if !(WantFilterKey(c, args[i]) || WantFilterSlot(c, args[i])) {
			kept = append(kept, i)
		}
	}
	if len(kept) == len(idx) {
		return args, false, "all_accepted"
	}
	if len(kept) == 0 {
		return args, true, "none_accepted"
	}
	switch asciiLower(cmd) {
	case "del", "unlink":
		for _, i := range kept {
			out = append(out, args[i])
		}
		return out, false, "projected_del"
	case "mset":
		for _, i := range kept {
			if i+1 >= len(args) {
				return args, true, "mset_missing_value"
			}
			out = append(out, args[i], args[i+1])
		}
		return out, false, "projected_mset"
	}
	return args, true, "partial_withheld"
}

func safeFilterCmdKey(f Filter, cmd string, args [][]byte) (out [][]byte, rej bool, pan string) {
	defer func() {
		if r := recover(); r != nil {
			pan = fmt.Sprint(r)
		}
	}()
	out, rej = f.FilterCmdKey(cmd, args)
	return
}

func safeKeyIndexes(cmd string, args [][]byte) (idx []int, ok bool, pan string) {
	defer func() {
		if r := recover(); r != nil {
			idx, ok, pan = nil, false, fmt.Sprint(r)
		}
	}()
	idx, ok = keyspec.CommandKeyIndexes(cmd, args)
	return
}

func eqArgs(a, b [][]byte) bool {
	if len(a) != len(b) {
		return false
	}
	for i := range a {
		if !bytes.Equal(a[i], b[i]) {
			return false
		}
	}
	return true
}

// The tool's bookkeeping namespaces as its documentation lists them
// (docs/bisync.md 4.1), independent of what the code happens to blacklist.
var BookkeepingNamespaces = []string{"redis-gunyu-checkpoint", "/redis-gunyu", "redis-gunyu-bisync:"}

// ---------------------------------------------------------------- env / ops

type Env struct {
	S      *vfutil.Session
	Mode   string                // "F" bare filter, "O" NewRedisOutput wiring
	Make   func(c Cfg) Filter    // builds the real filter
	Ranges func(f Filter) string // dumps the two RangeLists (in-package access), may be nil
	// what the mode inserts in addition to the configuration (mode O: NoRouteCmds, reserved prefixes)
	ExtraCB []string
	ExtraPB []string
	nViol   map[string]int
	held    []heldRes // results of earlier FilterCmdKey calls, kept by "the caller" across later calls (aliasing monitor)
}

// heldRes: a result FilterCmdKey returned, the slice itself and a deep copy taken at that moment
type heldRes struct {
	out  [][]byte
	snap [][]byte
	line string
}

func deepCopy(a [][]byte) [][]byte {
	o := make([][]byte, len(a))
	for i := range a {
		o[i] = append([]byte{}, a[i]...)
	}
	return o
}

// Eff is the rule set the property speaks about for this mode.
func (e *Env) Eff(c Cfg) Cfg {
	x := c
	x.CB = append(append([]string{}, e.ExtraCB...), c.CB...)
	x.PB = append(append([]string{}, e.ExtraPB...), c.PB...)
	if e.Mode == "O" {
		x.CW = nil
	}
	return x
}

// violate forwards at most 5 violations per kind, so that one flood does not
// hide another kind behind the Session's overall cap.
func (e *Env) violate(what, detail string, replay map[string]interface{}) {
	if e.nViol == nil {
		e.nViol = map[string]int{}
	}
	e.nViol[what]++
	e.S.Count("viol_" + what)
	if e.nViol[what] <= 5 {
		e.S.Violate(what, detail, replay)
	}
}

func b01(b bool) string {
	if b {
		return "1"
	}
	return "0"
}

func (e *Env) head(op string, c Cfg) string {
	return "c10 " + op + " " + e.Mode + " " + c.Fields()
}

func (e *Env) replay(c Cfg, more map[string]interface{}) map[string]interface{} {
	m := map[string]interface{}{"mode": e.Mode, "cfg": c.Fields()}
	for k, v := range more {
		m[k] = v
	}
	return m
}

func (e *Env) OpKey(c Cfg, f Filter, key []byte) {
	fk, fs := f.FilterKey(string(key)), f.FilterSlot(string(key))
	slot := HashSlot(key)
	line := e.head("key", c) + " " + vfutil.Hex(key)
	e.S.Op(line, fmt.Sprintf("fk=%s fs=%s slot=%d", b01(fk), b01(fs), slot))
	eff := e.Eff(c)
	wk, ws := WantFilterKey(eff, key), WantFilterSlot(eff, key)
	e.S.Count("key_fk" + b01(fk) + "_fs" + b01(fs))
	if fk != wk {
		e.violate("FilterKey", fmt.Sprintf("FilterKey(%q)=%v, prefix rules say %v (white=%q black=%q)", key, fk, wk, eff.PW, eff.PB),
			e.replay(c, map[string]interface{}{"op": line, "key_hex": vfutil.Hex(key), "got": fk, "want": wk}))
	}
	if fs != ws {
		e.violate("FilterSlot", fmt.Sprintf("FilterSlot(%q)=%v, slot %d vs union of ranges says %v (white=%v black=%v)", key, fs, slot, ws, eff.SW, eff.SB),
			e.replay(c, map[string]interface{}{"op": line, "key_hex": vfutil.Hex(key), "slot": slot, "got": fs, "want": ws}))
	}
	if len(eff.SW)+len(eff.SB) > 1 || len(eff.PW)+len(eff.PB) > 1 {
		e.S.Distinct("k:" + c.Fields() + ":" + string(key))
	}
}

func (e *Env) OpCmd(c Cfg, f Filter, cmd string) {
	got := f.FilterCmd(cmd)
	line := e.head("cmd", c) + " " + vfutil.HexS(cmd)
	e.S.Op(line, "fc="+b01(got))
	want := WantFilterCmd(e.Eff(c), cmd)
	e.S.Count("cmd_fc" + b01(got))
	if got != want {
		e.violate("FilterCmd", fmt.Sprintf("FilterCmd(%q)=%v, lists say %v", cmd, got, want),
			e.replay(c, map[string]interface{}{"op": line, "cmd": cmd, "got": got, "want": want}))
	}
}

func (e *Env) OpDb(c Cfg, f Filter, db int) {
	got := f.FilterDb(db)
	line := e.head("db", c) + " " + strconv.Itoa(db)
	e.S.Op(line, "fd="+b01(got))
	want := WantFilterDb(c, db)
	e.S.Count("db_fd" + b01(got))
	if got != want {
		e.violate("FilterDb", fmt.Sprintf("FilterDb(%d)=%v, list %v says %v", db, got, c.DB, want),
			e.replay(c, map[string]interface{}{"op": line, "db": db, "got": got, "want": want}))
	}
}

func (e *Env) OpFck(c Cfg, f Filter, cmd string, args [][]byte) {
	in := make([][]byte, len(args))
	for i := range args {
		in[i] = append([]byte{}, args[i]...)
	}
	line := e.head("fck", c) + " " + vfutil.HexS(cmd) + " " + ArgList(args)
	out, rej, pan := safeFilterCmdKey(f, cmd, in)
	if pan == "" {
		// the caller's arguments are not rewritten in place
		if !eqArgs(in, args) {
			e.violate("FilterCmdKey-mutates-args", fmt.Sprintf("FilterCmdKey(%q, %q) changed the caller's argument slice to %q", cmd, args, in),
				e.replay(c, map[string]interface{}{"op": line, "cmd": cmd, "args": ArgList(args), "after": ArgList(in)}))
		}
		// what earlier calls returned is still what they returned (the sender queues it): a result built in a buffer the
		// filter reuses would change under the holder
		for _, h := range e.held {
			if !eqArgs(h.out, h.snap) {
				e.violate("FilterCmdKey-alias", fmt.Sprintf("a result FilterCmdKey returned earlier (%s -> %q) reads %q after the later call %s: the returned slice is not the caller's alone", h.line, h.snap, h.out, line),
					e.replay(c, map[string]interface{}{"op": h.line, "later_op": line, "returned": ArgList(h.snap), "now": ArgList(h.out)}))
				e.held = nil
				break
			}
		}
		if !rej && len(out) != len(in) {
			if len(e.held) >= 6 {
				e.held = e.held[1:]
			}
			e.held = append(e.held, heldRes{out, deepCopy(out), line})
			e.S.Count("fck_held_projection")
		}
	}
	if pan != "" {
		// the process would have died: nothing is filtered "exactly" any more
		e.S.Op(line, "panic")
		e.S.Count("fck_panic")
		e.violate("FilterCmdKey-panic", fmt.Sprintf("FilterCmdKey(%q, %q) panics: %s", cmd, args, pan),
			e.replay(c, map[string]interface{}{"op": line, "cmd": cmd, "args": ArgList(args), "panic": pan}))
		return
	}
	idx, ok, ipan := safeKeyIndexes(cmd, args)
	if ipan != "" {
		e.S.Op(line, "panic")
		e.S.Count("fck_panic")
		e.violate("FilterCmdKey-panic", fmt.Sprintf("CommandKeyIndexes(%q, %q) panics: %s", cmd, args, ipan),
			e.replay(c, map[string]interface{}{"op": line, "cmd": cmd, "args": ArgList(args), "panic": ipan}))
		return
	}
	idxS := "none"
	if ok && len(idx) > 0 {
		p := make([]string, len(idx))
		for i, v := range idx {
			p[i] = strconv.Itoa(v)
		}
		idxS = strings.Join(p, ",")
	}
	if rej {
		e.S.Op(line, "idx="+idxS+" reject")
	} else {
		e.S.Op(line, "idx="+idxS+" pass "+ArgList(out))
	}
	want, wrej, class := WantFilterCmdKey(e.Eff(c), cmd, args)
	if asciiLower(cmd) == "mset" && len(args)%2 == 1 && class != "norules" && class != "all_accepted" && class != "none_accepted" {
		// a key without a value: no source propagates it and the property does not say what
		// its projection is; left to the model diff
		e.S.Count("fck_malformed_mset")
		return
	}
	e.S.Count("fck_" + class)
	if ok {
		e.S.Count("cmdshape_" + asciiLower(cmd))
	}
	if class != "norules" && class != "unresolved" && class != "all_accepted" {
		e.S.Distinct("c:" + c.Fields() + ":" + cmd + ":" + ArgList(args))
	}
	if rej != wrej || (!rej && !eqArgs(out, want)) {
		gs, ws := "reject", "reject"
		if !rej {
			gs = "pass " + ArgList(out)
		}
		if !wrej {
			ws = "pass " + ArgList(want)
		}
		e.violate("FilterCmdKey", fmt.Sprintf("FilterCmdKey(%q, %q): got %s, rules say %s (%s)", cmd, args, gs, ws, class),
			e.replay(c, map[string]interface{}{"op": line, "cmd": cmd, "args": ArgList(args), "got": gs, "want": ws}))
	}
}

func (e *Env) OpRanges(c Cfg, f Filter) {
	if e.Ranges == nil {
		return
	}
	e.S.Op(e.head("ranges", c), e.Ranges(f))
}

// RunLine replays one corpus / replay line ("c10 <op> <mode> <7 cfg fields> <operands>").
// Lines of another mode (or ops this runner does not know) are skipped.
func (e *Env) RunLine(line string) bool {
	t := strings.Fields(line)
	if len(t) < 10 || t[0] != "c10" || t[2] != e.Mode {
		return false
	}
	c, err := ParseCfg(t[3:10])
	if err != nil {
		panic("corpus line: " + err.Error() + ": " + line)
	}
	rest := t[10:]
	f := e.Make(c)
	switch {
	case t[1] == "key" && len(rest) == 1:
		k, err := hexDecode(rest[0])
		if err != nil {
			panic(err)
		}
		e.OpKey(c, f, k)
	case t[1] == "cmd" && len(rest) == 1:
		k, err := hexDecode(rest[0])
		if err != nil {
			panic(err)
		}
		e.OpCmd(c, f, string(k))
	case t[1] == "db" && len(rest) == 1:
		n, err := strconv.Atoi(rest[0])
		if err != nil {
			panic(err)
		}
		e.OpDb(c, f, n)
	case t[1] == "fck" && len(rest) == 2:
		k, err := hexDecode(rest[0])
		if err != nil {
			panic(err)
		}
		a, err := ParseArgList(rest[1])
		if err != nil {
			panic(err)
		}
		e.OpFck(c, f, string(k), a)
	case t[1] == "ranges" && len(rest) == 0:
		e.OpRanges(c, f)
	default:
		return false
	}
	e.S.Count("src_corpus")
	return true
}

// ---------------------------------------------------------------- generators

// slotTag[s] is a 2-byte string (no '{', '}') whose CRC16 mod 16384 is s:
// CRC16 restricted to 2-byte inputs is a bijection onto 16 bits, so every slot
// has four preimages; "{"+tag+"}" steers a key into a chosen slot.
var slotTag [16384][2]byte

func init() {
	var have [16384]bool
	for a := 0; a < 256; a++ {
		for b := 0; b < 256; b++ {
			if a == '{' || a == '}' || b == '{' || b == '}' {
				continue
			}
			s := Crc16([]byte{byte(a), byte(b)}) % 16384
			if !have[s] {
				have[s] = true
				slotTag[s] = [2]byte{byte(a), byte(b)}
			}
		}
	}
	for s, h := range have {
		if !h {
			panic(fmt.Sprintf("no 2-byte tag for slot %d", s))
		}
	}
}

// KeyInSlot builds prefix + "{tag}" + suffix landing in slot s (when prefix has no '{').
func KeyInSlot(prefix []byte, s uint16, suffix []byte) []byte {
	t := slotTag[s%16384]
	k := append([]byte{}, prefix...)
	k = append(k, '{', t[0], t[1], '}')
	return append(k, suffix...)
}

func genRanges(r *vfutil.Rand) [][]uint16 {
	n := r.Intn(7)
	if r.Chance(1, 3) {
		n = 0
	}
	var out [][]uint16
	small := r.Chance(1, 4) // dense universe: many overlaps
	pick := func() uint16 {
		if small {
			return uint16(r.Intn(64))
		}
		if r.Chance(1, 20) {
			return uint16(r.Intn(65536))
		}
		return uint16(r.Intn(16384))
	}
	clamp := func(v int) uint16 {
		if v < 0 {
			return 0
		}
		if v > 65535 {
			return 65535
		}
		return uint16(v)
	}
	var last []uint16
	for i := 0; i < n; i++ {
		var e []uint16
		k := r.Intn(12)
		switch {
		case k == 0: // single slot
			e = []uint16{pick()}
		case k == 1: // single slot as [x,x]
			x := pick()
			e = []uint16{x, x}
		case k == 2: // reversed (skipped by the code)
			a, b := pick(), pick()
			if a < b {
				a, b = b, a
			}
			if a == b {
				a++
			}
			e = []uint16{a, b}
		case k == 3: // malformed length
			if r.Bool() {
				e = []uint16{}
			} else {
				e = []uint16{pick(), pick(), pick()}
			}
		case k == 4: // everything
			e = []uint16{0, 16383}
		case k <= 9 && len(last) == 2 && last[0] <= last[1]: // relative to the previous valid range
			l, rr := int(last[0]), int(last[1])
			w := rr - l
			switch r.Intn(6) {
			case 0: // nested strictly inside
				a := l + r.Intn(w/2+1)
				b := a + r.Intn(rr-a+1)
				e = []uint16{clamp(a), clamp(b)}
			case 1: // encloses
				e = []uint16{clamp(l - r.Intn(50)), clamp(rr + r.Intn(50))}
			case 2: // overlaps on the right
				a := l + r.Intn(w+1)
				e = []uint16{clamp(a), clamp(rr + 1 + r.Intn(50))}
			case 3: // overlaps on the left
				b := l + r.Intn(w+1)
				e = []uint16{clamp(l - 1 - r.Intn(50)), clamp(b)}
			case 4: // touches on the right
				e = []uint16{clamp(rr + 1), clamp(rr + 1 + r.Intn(30))}
			default: // same left bound, different right
				e = []uint16{clamp(l), clamp(l + r.Intn(2*w+2))}
			}
			if len(e) == 2 && e[0] > e[1] {
				e[0], e[1] = e[1], e[0]
			}
		default:
			a, b := pick(), pick()
			if a > b {
				a, b = b, a
			}
			if !small && r.Chance(2, 3) { // keep most ranges short so that "outside" is common
				b = clamp(int(a) + r.Intn(200))
			}
			e = []uint16{a, b}
		}
		out = append(out, e)
		if len(e) == 2 && e[0] <= e[1] {
			last = e
		} else if len(e) == 1 {
			last = []uint16{e[0], e[0]}
		}
	}
	return out
}

var prefixAtoms = []string{"a", "ab", "abc", "abd", "user:", "user:1", "\xff", "\xfe", "\xc3", "\xc3\xa9", "\xe4\xb8", "\xe4\xb8\xad",
	"{", "{a}", "x{", "k", "key", "", "\x00", "\xef\xbf\xbd", "redis-gunyu", "/redis", "\x80"}

func genPrefixes(r *vfutil.Rand) []string {
	n := r.Intn(5)
	if r.Chance(1, 3) {
		n = 0
	}
	var out []string
	for i := 0; i < n; i++ {
		switch r.Intn(6) {
		case 0:
			out = append(out, string(r.Bytes(r.Range(1, 3))))
		case 1:
			if len(out) > 0 { // extend / shorten an existing one
				p := out[r.Intn(len(out))]
				if r.Bool() || len(p) == 0 {
					out = append(out, p+string(r.Bytes(1)))
				} else {
					out = append(out, p[:len(p)-1])
				}
				continue
			}
			fallthrough
		default:
			out = append(out, vfutil.Pick(r, prefixAtoms))
		}
	}
	return out
}

func randCase(r *vfutil.Rand, s string) string {
	switch r.Intn(4) {
	case 0:
		return asciiLower(s)
	case 1:
		return asciiUpper(s)
	}
	b := []byte(s)
	for i, c := range b {
		if r.Bool() {
			if 'a' <= c && c <= 'z' {
				b[i] = c - 32
			} else if 'A' <= c && c <= 'Z' {
				b[i] = c + 32
			}
		}
	}
	return string(b)
}

var (
	posNames, extNames []string
	multiKeyNames      []string
)

func init() {
	posNames, extNames = keyspec.VerifTableNames()
	for _, n := range posNames {
		f, l, st, _ := keyspec.VerifKeyPosition(n)
		if !(f == 1 && l == 1 && st == 1) {
			multiKeyNames = append(multiKeyNames, n)
		}
	}
}

var otherNames = []string{"get", "ping", "select", "publish", "flushall", "exec", "multi", "foo", "script", "xread", "mget", "cluster", "swapdb"}

// names with non-ASCII bytes: only ever used as query / command names, never in a
// configured list (configured command names are assumed ASCII)
var nonASCIINames = []string{"d\xe9l", "\xffset", "se\xc3\xa9"}

func genCmdNames(r *vfutil.Rand, max int) []string {
	n := r.Intn(max + 1)
	if r.Chance(1, 2) {
		n = 0
	}
	var out []string
	for i := 0; i < n; i++ {
		switch r.Intn(4) {
		case 0:
			out = append(out, randCase(r, vfutil.Pick(r, otherNames)))
		case 1:
			out = append(out, randCase(r, vfutil.Pick(r, extNames)))
		default:
			out = append(out, randCase(r, vfutil.Pick(r, posNames)))
		}
	}
	return out
}

// GenCfg draws a configuration; mode O never has a command whitelist.
func GenCfg(r *vfutil.Rand, mode string) Cfg {
	var c Cfg
	c.CB = genCmdNames(r, 3)
	if mode == "F" && r.Chance(1, 6) {
		c.CW = genCmdNames(r, 4)
	}
	if r.Chance(1, 2) {
		for i, n := 0, r.Intn(4); i < n; i++ {
			c.DB = append(c.DB, r.Range(-1, 16))
		}
	}
	switch r.Intn(8) {
	case 0: // no key rule at all
	case 1: // slot rules only
		c.SW, c.SB = genRanges(r), genRanges(r)
	case 2: // prefix rules only
		c.PW, c.PB = genPrefixes(r), genPrefixes(r)
	default:
		c.SW, c.SB = genRanges(r), genRanges(r)
		c.PW, c.PB = genPrefixes(r), genPrefixes(r)
	}
	return c
}

func rangeBounds(entries [][]uint16) (out [][2]int) {
	for _, e := range entries {
		switch len(e) {
		case 1:
			out = append(out, [2]int{int(e[0]), int(e[0])})
		case 2:
			out = append(out, [2]int{int(e[0]), int(e[1])})
		}
	}
	return
}

// GenKey draws a key steered by the configuration: onto / next to range bounds
// (through a 2-byte hash tag), onto / next to configured prefixes, reserved
// prefixes, brace arrangements, random bytes.
func GenKey(r *vfutil.Rand, eff Cfg) []byte {
	filler := func(n int) []byte {
		b := make([]byte, n)
		for i := range b {
			switch r.Intn(4) {
			case 0:
				b[i] = byte(r.U64())
			default:
				b[i] = byte('a' + r.Intn(26))
			}
		}
		return b
	}
	prefixPart := func() []byte {
		all := append(append([]string{}, eff.PW...), eff.PB...)
		if len(all) == 0 || r.Chance(1, 3) {
			if r.Chance(1, 3) {
				return []byte(vfutil.Pick(r, prefixAtoms))
			}
			return filler(r.Intn(3))
		}
		p := []byte(vfutil.Pick(r, all))
		switch r.Intn(6) {
		case 0: // one byte short
			if len(p) > 0 {
				p = p[:len(p)-1]
			}
		case 1: // last byte off by one
			if len(p) > 0 {
				p = append([]byte{}, p...)
				p[len(p)-1]++
			}
		case 2: // first byte replaced by a byte that decodes to the same rune class (invalid UTF-8)
			if len(p) > 0 && p[0] >= 0x80 {
				p = append([]byte{}, p...)
				p[0] ^= 0x01
			}
		}
		return append([]byte{}, p...)
	}
	slotPart := func() (uint16, bool) {
		bs := append(rangeBounds(eff.SW), rangeBounds(eff.SB)...)
		if len(bs) == 0 {
			return 0, false
		}
		b := bs[r.Intn(len(bs))]
		var v int
		switch r.Intn(6) {
		case 0:
			v = b[0]
		case 1:
			v = b[1]
		case 2:
			v = b[0] - 1
		case 3:
			v = b[1] + 1
		case 4:
			if b[1] >= b[0] {
				v = b[0] + r.Intn(b[1]-b[0]+1)
			} else {
				v = b[1] + r.Intn(b[0]-b[1]+1)
			}
		default:
			v = r.Intn(16384)
		}
		if v < 0 || v > 16383 {
			return 0, false
		}
		return uint16(v), true
	}
	switch r.Intn(10) {
	case 0:
		return r.Bytes(r.Intn(12))
	case 1: // brace arrangements
		alpha := []byte{'{', '}', 'a', 'b', 0xff}
		b := make([]byte, r.Intn(8))
		for i := range b {
			b[i] = vfutil.Pick(r, alpha)
		}
		return append(prefixPart(), b...)
	case 2: // reserved bookkeeping keys
		p := vfutil.Pick(r, []string{"redis-gunyu-checkpoint", "/redis-gunyu", "redis-gunyu-checkpoin", "/redis-gunyv", "redis-gunyu-checkpoint-x", "/redis-gunyu/a/b",
			// the bisync control namespace (docs/bisync.md 4.1) and near misses
			"redis-gunyu-bisync:cp:latest:{slot-1}", "redis-gunyu-bisync:cp:marker:", "redis-gunyu-bisync:cp:commit:{slot-2}:00000000000000000007",
			"redis-gunyu-bisync:", "redis-gunyu-bisync", "redis-gunyu-bisyncx:", "redis-gunyu-bisync:cp:index:", "redis-gunyu-bisync:cp:rdb:"})
		if s, ok := slotPart(); ok && r.Bool() {
			return KeyInSlot([]byte(p), s, nil)
		}
		return append([]byte(p), filler(r.Intn(4))...)
	case 3, 4: // prefix steering only
		return append(prefixPart(), filler(r.Intn(5))...)
	default: // prefix + slot steering
		p := prefixPart()
		if s, ok := slotPart(); ok {
			switch r.Intn(8) {
			case 0: // an empty first tag: Redis hashes the WHOLE key, the later tag (steered) must not count
				return KeyInSlot(append(p, '{', '}'), s, filler(r.Intn(3)))
			case 1: // an unterminated first brace after the steered tag / a second tag after it
				return append(KeyInSlot(p, s, filler(r.Intn(2))), []byte(vfutil.Pick(r, []string{"{", "{x}", "{}", "}{y}"}))...)
			}
			return KeyInSlot(p, s, filler(r.Intn(3)))
		}
		return append(p, filler(r.Intn(5))...)
	}
}

func num(n int) []byte { return []byte(strconv.Itoa(n)) }

// GenCommand draws a command name (random ASCII case) and an argument list:
// names from the two extracted tables with arity at / below / above what the
// row expects, extractor commands in their documented shapes and broken
// variants, and commands the tables do not know.
func GenCommand(r *vfutil.Rand, eff Cfg) (string, [][]byte) {
	key := func() []byte { return GenKey(r, eff) }
	val := func() []byte {
		switch r.Intn(5) {
		case 0:
			return key() // values that look like keys must not be treated as keys
		case 1:
			return []byte{}
		default:
			return r.Bytes(r.Intn(6))
		}
	}
	word := func(w string) []byte { return []byte(randCase(r, w)) }
	mixed := func(n int) [][]byte {
		a := make([][]byte, n)
		for i := range a {
			if r.Chance(2, 3) {
				a[i] = key()
			} else {
				a[i] = val()
			}
		}
		return a
	}
	arity := func() int {
		switch r.Intn(6) {
		case 0:
			return 0
		case 1:
			return 1
		case 2:
			return 2
		default:
			return r.Range(1, 8)
		}
	}
	k := r.Intn(20)
	if r.Chance(1, 60) { // long key lists: positions beyond any machine-word mask, one or two rejected keys near the ends
		name := vfutil.Pick(r, []string{"del", "unlink", "mset", "msetnx", "sinterstore"})
		n := vfutil.Pick(r, []int{63, 64, 65, 66, 130, 257})
		var a [][]byte
		for i := 0; i < n; i++ {
			kk := append([]byte("lk"), []byte(strconv.Itoa(i))...)
			if i == 0 || i == 1 || i == 62 || i == 63 || i == 64 || i == n-1 || r.Chance(1, 40) {
				if r.Bool() {
					kk = key()
				}
			}
			a = append(a, kk)
			if name == "mset" || name == "msetnx" {
				a = append(a, []byte("v"+strconv.Itoa(i)))
			}
		}
		return randCase(r, name), a
	}
	switch {
	case k < 5: // projection commands
		name := vfutil.Pick(r, []string{"del", "unlink", "mset", "mset", "msetnx"})
		return randCase(r, name), mixed(arity())
	case k < 9: // other multi-key rows
		return randCase(r, vfutil.Pick(r, multiKeyNames)), mixed(arity())
	case k < 12: // any row
		return randCase(r, vfutil.Pick(r, posNames)), mixed(arity())
	case k < 13: // unknown to the tables
		if r.Chance(1, 5) {
			return vfutil.Pick(r, nonASCIINames), mixed(arity())
		}
		return randCase(r, vfutil.Pick(r, otherNames)), mixed(arity())
	}
	// extractor commands
	name := vfutil.Pick(r, extNames)
	var a [][]byte
	numkeys := func(n int) []byte {
		switch r.Intn(12) {
		case 0:
			return num(0)
		case 1:
			return num(n + r.Range(1, 3))
		case 2:
			return []byte("x")
		case 3:
			return []byte{}
		case 4:
			return []byte("+" + strconv.Itoa(n))
		case 5:
			return []byte("00" + strconv.Itoa(n))
		case 6:
			return []byte("-1")
		case 8: // huge but still an int64: the key range computed from it must not overflow
			return []byte(vfutil.Pick(r, []string{"9223372036854775807", "4611686018427387905", "4611686018427387904",
				"9223372036854775806", "3074457345618258603", strconv.FormatUint(uint64(1)<<62+r.U64()%(uint64(1)<<61), 10)}))
		case 7:
			d := make([]byte, r.Range(2, 18))
			for i := range d {
				d[i] = byte('0' + r.Intn(10))
			}
			return d
		}
		return num(n)
	}
	switch name {
	case "eval", "evalsha", "fcall", "fcall_ro", "bzmpop", "blmpop":
		n := r.Intn(4)
		a = append(a, val(), numkeys(n))
		for i := 0; i < n; i++ {
			a = append(a, key())
		}
		a = append(a, mixed(r.Intn(3))...)
	case "zmpop", "lmpop":
		n := r.Intn(4)
		a = append(a, numkeys(n))
		for i := 0; i < n; i++ {
			a = append(a, key())
		}
		a = append(a, mixed(r.Intn(3))...)
	case "msetex":
		n := r.Intn(4)
		a = append(a, numkeys(n))
		for i := 0; i < n; i++ {
			a = append(a, key(), val())
		}
		if r.Chance(1, 3) && len(a) > 1 {
			a = a[:len(a)-1]
		}
		a = append(a, mixed(r.Intn(2))...)
	case "zunionstore", "zinterstore", "zdiffstore", "cms.merge", "tdigest.merge":
		n := r.Intn(4)
		a = append(a, key(), numkeys(n))
		for i := 0; i < n; i++ {
			a = append(a, key())
		}
		a = append(a, mixed(r.Intn(3))...)
	case "georadius", "georadiusbymember":
		a = append(a, key(), val(), val(), val())
		for i, n := 0, r.Intn(4); i < n; i++ {
			switch r.Intn(5) {
			case 0:
				a = append(a, word("store"), key())
			case 1:
				a = append(a, word("storedist"), key())
			case 2:
				a = append(a, word("store")) // possibly last: no destination
			case 3:
				a = append(a, word("count"), num(r.Intn(9)))
			default:
				a = append(a, word("asc"))
			}
		}
	case "xgroup":
		sub := vfutil.Pick(r, []string{"create", "setid", "destroy", "createconsumer", "delconsumer", "help", "creat", ""})
		a = append(a, word(sub))
		a = append(a, mixed(r.Intn(4))...)
	case "xreadgroup":
		a = append(a, word("group"), val(), val())
		if r.Bool() {
			a = append(a, word("count"), num(r.Intn(9)))
		}
		if r.Chance(5, 6) {
			a = append(a, word(vfutil.Pick(r, []string{"streams", "streams", "stream"})))
		}
		n := r.Intn(4)
		for i := 0; i < n; i++ {
			a = append(a, key())
		}
		ids := n
		if r.Chance(1, 4) {
			ids = r.Intn(5)
		}
		for i := 0; i < ids; i++ {
			a = append(a, []byte(">"))
		}
	case "sort":
		a = append(a, key())
		for i, n := 0, r.Intn(5); i < n; i++ {
			switch r.Intn(8) {
			case 0:
				a = append(a, word("by"), []byte(vfutil.Pick(r, []string{"#", "nosort", "NoSort", "w_*", ""})))
			case 1:
				a = append(a, word("get"), []byte(vfutil.Pick(r, []string{"#", "#", "obj_*"})))
			case 2:
				a = append(a, word("store"), key())
			case 3:
				a = append(a, word(vfutil.Pick(r, []string{"store", "by", "get"}))) // possibly dangling
			case 4:
				a = append(a, word("limit"), num(0), num(r.Intn(9)))
			default:
				a = append(a, word(vfutil.Pick(r, []string{"asc", "desc", "alpha"})))
			}
		}
	default:
		a = mixed(arity())
	}
	if r.Chance(1, 25) {
		a = nil
	}
	return randCase(r, name), a
}

// RunGenerated: nCfg configurations, each with nKey key ops and nCmd command ops.
func (e *Env) RunGenerated(r *vfutil.Rand, nCfg, nKey, nCmd int) {
	for i := 0; i < nCfg; i++ {
		c := GenCfg(r, e.Mode)
		f := e.Make(c)
		eff := e.Eff(c)
		e.S.Count("cfg")
		e.S.Count(fmt.Sprintf("cfg_ranges_%d", vfutil.Min(len(c.SW)+len(c.SB), 8)))
		e.CountCfg(c)
		e.OpRanges(c, f)
		for j := 0; j < nKey; j++ {
			e.OpKey(c, f, GenKey(r, eff))
		}
		for j := 0; j < nCmd; j++ {
			cmd, args := GenCommand(r, eff)
			e.OpFck(c, f, cmd, args)
		}
		// command list: listed names in both cases, mixed case, unlisted
		var names []string
		for _, b := range eff.CB {
			if r.Chance(1, 4) || len(eff.CB) < 8 {
				names = append(names, asciiLower(b), asciiUpper(b), randCase(r, b))
			}
		}
		for _, b := range c.CW {
			names = append(names, asciiLower(b), asciiUpper(b))
		}
		names = append(names, "set", "GET", vfutil.Pick(r, posNames), "", string(r.Bytes(r.Intn(4))), vfutil.Pick(r, nonASCIINames))
		sort.Strings(names)
		for _, n := range names {
			e.OpCmd(c, f, n)
		}
		for _, d := range []int{-1, 0, r.Range(-2, 17), r.Range(0, 16)} {
			e.OpDb(c, f, d)
		}
	}
}

// SlotSweep asks, for a handful of adversarial range configurations, about one
// key in every slot 0..16383 (exhaustive in the slot dimension).
func (e *Env) SlotSweep(cfgs []Cfg, step int) {
	for _, c := range cfgs {
		f := e.Make(c)
		e.OpRanges(c, f)
		for s := 0; s < 16384; s += step {
			e.OpKey(c, f, KeyInSlot(nil, uint16(s), nil))
		}
	}
}

// ---------------------------------------------------------------- golden key positions

type golden struct {
	cmd  string
	args []string
	want []int
}

// Key positions of well-formed commands as the Redis command reference
// documents them (trusted transcription, independent of the repo's tables).
// An edited row of a multi-key command shows up here as a concrete input.
var goldenCmds = []golden{
	{"set", []string{"k", "v"}, []int{0}},
	{"setex", []string{"k", "10", "v"}, []int{0}},
	{"hset", []string{"k", "f", "v"}, []int{0}},
	{"expire", []string{"k", "10"}, []int{0}},
	{"restore", []string{"k", "0", "blob"}, []int{0}},
	{"del", []string{"a", "b", "c"}, []int{0, 1, 2}},
	{"unlink", []string{"a", "b"}, []int{0, 1}},
	{"mset", []string{"a", "1", "b", "2", "c", "3"}, []int{0, 2, 4}},
	{"msetnx", []string{"a", "1", "b", "2"}, []int{0, 2}},
	{"rename", []string{"a", "b"}, []int{0, 1}},
	{"renamenx", []string{"a", "b"}, []int{0, 1}},
	{"copy", []string{"a", "b", "REPLACE"}, []int{0, 1}},
	{"rpoplpush", []string{"a", "b"}, []int{0, 1}},
	{"brpoplpush", []string{"a", "b", "0"}, []int{0, 1}},
	{"lmove", []string{"a", "b", "LEFT", "RIGHT"}, []int{0, 1}},
	{"blmove", []string{"a", "b", "LEFT", "RIGHT", "0"}, []int{0, 1}},
	{"smove", []string{"a", "b", "m"}, []int{0, 1}},
	{"sinterstore", []string{"d", "a", "b"}, []int{0, 1, 2}},
	{"sunionstore", []string{"d", "a"}, []int{0, 1}},
	{"sdiffstore", []string{"d", "a", "b"}, []int{0, 1, 2}},
	{"pfmerge", []string{"d", "a", "b"}, []int{0, 1, 2}},
	{"bitop", []string{"AND", "d", "a", "b"}, []int{1, 2, 3}},
	{"brpop", []string{"a", "b", "0"}, []int{0, 1}},
	{"blpop", []string{"a", "0"}, []int{0}},
	{"bzpopmin", []string{"a", "b", "0"}, []int{0, 1}},
	{"zrangestore", []string{"d", "s", "0", "-1"}, []int{0, 1}},
	{"geosearchstore", []string{"d", "s", "FROMMEMBER", "m", "BYRADIUS", "1", "m"}, []int{0, 1}},
	{"json.mset", []string{"a", "$", "1", "b", "$", "2"}, []int{0, 3}},
	{"eval", []string{"return 1", "2", "a", "b", "x"}, []int{2, 3}},
	{"evalsha", []string{"sha", "1", "a"}, []int{2}},
	{"fcall", []string{"f", "2", "a", "b"}, []int{2, 3}},
	{"zunionstore", []string{"d", "2", "a", "b", "WEIGHTS", "1", "2"}, []int{0, 2, 3}},
	{"zinterstore", []string{"d", "1", "a"}, []int{0, 2}},
	{"zdiffstore", []string{"d", "2", "a", "b"}, []int{0, 2, 3}},
	{"lmpop", []string{"2", "a", "b", "LEFT"}, []int{1, 2}},
	{"blmpop", []string{"0", "2", "a", "b", "LEFT"}, []int{2, 3}},
	{"zmpop", []string{"1", "a", "MIN"}, []int{1}},
	{"bzmpop", []string{"0", "1", "a", "MIN"}, []int{2}},
	{"xgroup", []string{"CREATE", "s", "g", "$"}, []int{1}},
	{"xreadgroup", []string{"GROUP", "g", "c", "COUNT", "1", "STREAMS", "a", "b", ">", ">"}, []int{6, 7}},
	{"sort", []string{"k", "LIMIT", "0", "5", "STORE", "d"}, []int{0, 5}},
	{"georadius", []string{"k", "0", "0", "1", "m", "STORE", "d"}, []int{0, 6}},
	{"georadiusbymember", []string{"k", "m", "1", "km", "STOREDIST", "d"}, []int{0, 5}},
	// session 5 (repair 975110c of finding C18-F1): positions as Redis's georadiusGetKeys / sortGetKeys name them -
	// the LAST store option, option words looked for behind the fixed arguments only, LIMIT's arguments stepped over
	{"georadius", []string{"k", "0", "0", "1", "m", "STORE", "a", "STOREDIST", "d"}, []int{0, 8}},
	{"georadius", []string{"k", "0", "0", "1", "m", "COUNT", "3", "ASC", "STOREDIST", "a", "STORE", "d"}, []int{0, 11}},
	{"georadiusbymember", []string{"k", "store", "1", "km", "STORE", "d"}, []int{0, 5}},
	{"georadiusbymember", []string{"k", "STOREDIST", "1", "km", "WITHCOORD", "STOREDIST", "d"}, []int{0, 6}},
	{"sort", []string{"k", "STORE", "a", "STORE", "d"}, []int{0, 4}},
	{"sort", []string{"k", "BY", "nosort", "LIMIT", "0", "10", "GET", "#", "DESC", "STORE", "d"}, []int{0, 10}},
}

// RunGolden checks the table against the golden positions and ties the model
// to the code on them (under a rule that rejects keys starting with "b").
func (e *Env) RunGolden() {
	c := Cfg{PB: []string{"b"}}
	f := e.Make(c)
	for _, g := range goldenCmds {
		args := make([][]byte, len(g.args))
		for i, a := range g.args {
			args[i] = []byte(a)
		}
		for _, name := range []string{g.cmd, asciiUpper(g.cmd)} {
			idx, ok, _ := safeKeyIndexes(name, args)
			same := ok && len(idx) == len(g.want)
			if same {
				for i := range idx {
					same = same && idx[i] == g.want[i]
				}
			}
			e.S.Count("golden")
			if !same {
				e.violate("KeyPositions", fmt.Sprintf("CommandKeyIndexes(%q, %q) = %v (ok=%v), the command reference says %v", name, g.args, idx, ok, g.want),
					e.replay(c, map[string]interface{}{"cmd": name, "args": ArgList(args), "got": fmt.Sprint(idx), "want": fmt.Sprint(g.want)}))
			}
			e.OpFck(c, f, name, args)
		}
	}
}

// BraceSweep asks about every string of length <= maxLen over {'{','}','a','b'} (all brace
// arrangements: empty first tag followed by a tag, nested, unterminated, ...) under slot rules
// that cut the slot space in halves and quarters, so that a wrongly computed slot flips the
// decision with probability 1/2.
func (e *Env) BraceSweep(maxLen int) {
	cfgs := []Cfg{
		{SW: [][]uint16{{0, 8191}}},
		{SB: [][]uint16{{0, 4095}, {8192, 12287}}},
	}
	alpha := []byte{'{', '}', 'a', 'b'}
	for _, c := range cfgs {
		f := e.Make(c)
		var rec func(k []byte)
		rec = func(k []byte) {
			if len(k) > 0 {
				e.OpKey(c, f, k)
			}
			if len(k) == maxLen {
				return
			}
			for _, ch := range alpha {
				rec(append(append([]byte{}, k...), ch))
			}
		}
		rec(nil)
	}
}

// EdgeSlots: the ends of the slot space and the EMPTY key. "" is a legal Redis key and HASH_SLOT("") = CRC16 of zero
// bytes mod 16384 = 0: a slot list that contains / excludes slot 0 decides it like every other key of slot 0. Keys:
// "", keys steered into slots 0, 1, 16382, 16383 (tagged, and "hia" = 16383 untagged); lists: black / white with and
// without the end slots; through FilterKey/FilterSlot (key op) and FilterCmdKey (SET, DEL with a second key of another
// slot, MSET, RENAME).
func (e *Env) EdgeSlots() {
	cfgs := []Cfg{
		{SB: [][]uint16{{0}}}, {SB: [][]uint16{{0, 0}, {16383}}}, {SB: [][]uint16{{1, 16382}}}, {SB: [][]uint16{{0, 16383}}},
		{SW: [][]uint16{{0}}}, {SW: [][]uint16{{1, 16383}}}, {SW: [][]uint16{{0, 16382}}}, {SW: [][]uint16{{0, 16383}}},
		{SW: [][]uint16{{0, 100}}, SB: [][]uint16{{0}}}, {SW: [][]uint16{{16383}}, SB: [][]uint16{{5}}}, {SB: [][]uint16{{0}}, PW: []string{"k"}},
	}
	keys := [][]byte{{}, KeyInSlot(nil, 0, nil), KeyInSlot([]byte("a"), 0, []byte("b")), KeyInSlot(nil, 1, nil), KeyInSlot(nil, 16382, nil),
		KeyInSlot([]byte("k"), 16383, nil), []byte("hia"), []byte("{}"), []byte("k")}
	for _, c := range cfgs {
		f := e.Make(c)
		for _, k := range keys {
			e.OpKey(c, f, k)
			other := KeyInSlot([]byte("o"), 7000, nil)
			e.OpFck(c, f, "set", [][]byte{k, []byte("v")})
			e.OpFck(c, f, "DEL", [][]byte{k, other})
			e.OpFck(c, f, "del", [][]byte{other, k})
			e.OpFck(c, f, "mset", [][]byte{other, []byte("1"), k, []byte("2")})
			e.OpFck(c, f, "rename", [][]byte{k, other})
			e.S.Count("edge_slot_ops")
		}
	}
}

func sz(n int) string {
	switch {
	case n == 0:
		return "0"
	case n == 1:
		return "1"
	}
	return "many"
}

// CountCfg: one coverage counter per list and size class, and per degenerate entry kind
func (e *Env) CountCfg(c Cfg) {
	e.S.Count("cfg_cmdBlacklist_" + sz(len(c.CB)))
	e.S.Count("cfg_cmdWhitelist_" + sz(len(c.CW)))
	e.S.Count("cfg_dbBlacklist_" + sz(len(c.DB)))
	e.S.Count("cfg_prefixWhitelist_" + sz(len(c.PW)))
	e.S.Count("cfg_prefixBlacklist_" + sz(len(c.PB)))
	e.S.Count("cfg_slotWhitelist_" + sz(len(c.SW)))
	e.S.Count("cfg_slotBlacklist_" + sz(len(c.SB)))
	for _, l := range [][]string{c.PW, c.PB} {
		for i, p := range l {
			if p == "" {
				e.S.Count("cfg_prefix_emptystring")
			}
			for _, b := range []byte(p) {
				if b >= 0x80 {
					e.S.Count("cfg_prefix_nonascii")
					break
				}
			}
			for j, q := range l {
				if i != j && p != "" && strings.HasPrefix(q, p) {
					e.S.Count("cfg_prefix_of_another")
				}
			}
		}
	}
	for _, l := range [][]string{c.CB, c.CW} {
		for _, p := range l {
			if p == "" {
				e.S.Count("cfg_cmdname_emptystring")
			}
		}
	}
	for _, l := range [][][]uint16{c.SW, c.SB} {
		for _, en := range l {
			switch {
			case len(en) == 0 || len(en) > 2:
				e.S.Count("cfg_slotentry_malformed")
			case len(en) == 1:
				e.S.Count("cfg_slotentry_single")
			case en[0] > en[1]:
				e.S.Count("cfg_slotentry_reversed")
			case en[0] == en[1]:
				e.S.Count("cfg_slotentry_onepoint")
			}
			if len(en) > 0 && (en[0] == 0 || en[len(en)-1] == 0) {
				e.S.Count("cfg_slotentry_slot0")
			}
			if len(en) > 0 && en[len(en)-1] >= 16383 {
				e.S.Count("cfg_slotentry_slot16383plus")
			}
		}
	}
}

// ForcedDims: the degenerate-but-legal corners, FORCED rather than left to the generators (session 5 dimension audit):
// every list empty / one entry / the same entry twice / entries that are prefixes of one another / the empty string as a
// prefix and as a command name / non-ASCII prefixes; slot lists with one-point, adjacent, overlapping, reversed, malformed
// entries and the end slots; commands with NO argument, with the empty key alone and among several keys, with 1000 keys
// and one rejected key at the front / middle / end, in lower, upper and mixed case.
func (e *Env) ForcedDims(r *vfutil.Rand) {
	rej := []byte("bad:1")
	cfgs := []Cfg{
		{}, // every list empty
		{PB: []string{"bad:"}}, {PB: []string{"bad:", "bad:"}}, {PB: []string{"bad", "bad:", "b"}}, {PB: []string{"", "bad:"}}, {PB: []string{""}},
		{PW: []string{"k"}}, {PW: []string{"", "k"}}, {PW: []string{""}}, {PW: []string{"k", "k:", "ke"}, PB: []string{"k:bad", "bad:"}}, {PW: []string{"\xc3\xa9", "k"}, PB: []string{"\xff", "bad:"}},
		{CB: []string{""}}, {CB: []string{"", "del"}}, {CB: []string{"del", "DEL", "Del"}}, {CB: []string{"mset"}, PB: []string{"bad:"}},
		{SB: [][]uint16{{5, 5}}, PB: []string{"bad:"}}, {SB: [][]uint16{{0, 10}, {11, 20}}}, {SB: [][]uint16{{0, 10}, {10, 20}, {5, 15}}}, {SW: [][]uint16{{9, 3}}}, {SW: [][]uint16{{}, {1, 2, 3}}},
		{SW: [][]uint16{{0, 16383}}, PB: []string{"bad:"}}, {SB: [][]uint16{{16383, 16383}, {0}}, PB: []string{"bad:"}}, {SW: [][]uint16{{0}, {16383}}, SB: [][]uint16{{0}}},
	}
	if e.Mode == "F" {
		cfgs = append(cfgs, Cfg{CW: []string{"set"}}, Cfg{CW: []string{"", "set"}}, Cfg{CW: []string{"set", "setex"}, CB: []string{"setex"}})
	}
	names := func(n string) []string { return []string{asciiLower(n), asciiUpper(n), randCase(r, n)} }
	many := func(n int, at int) [][]byte {
		a := make([][]byte, n)
		for i := range a {
			a[i] = []byte(fmt.Sprintf("k:%d", i))
		}
		if at >= 0 {
			a[at] = rej
		}
		return a
	}
	for _, c := range cfgs {
		f := e.Make(c)
		e.S.Count("forced_cfgs")
		e.CountCfg(c)
		for _, k := range [][]byte{{}, []byte("k"), []byte("k:1"), rej, []byte("bad"), []byte("b"), {0xc3, 0xa9, 'x'}, {0xff}, KeyInSlot([]byte("k"), 5, nil), KeyInSlot(nil, 10, nil), KeyInSlot(nil, 11, nil), KeyInSlot([]byte("k"), 16383, nil)} {
			e.OpKey(c, f, k)
		}
		for _, n := range []string{"", "del", "DEL", "dEl", "mset", "MSET", "set", "SETEX", "setex", "sete", "ping"} {
			e.OpCmd(c, f, n)
		}
		for _, base := range []string{"del", "unlink", "mset", "set", "rename", "sunionstore", "exists"} {
			for _, n := range names(base) {
				e.OpFck(c, f, n, nil)                                            // no argument at all
				e.OpFck(c, f, n, [][]byte{{}})                                   // the empty key alone
				e.OpFck(c, f, n, [][]byte{[]byte("k:1"), {}, []byte("k:2"), {}}) // the empty key among several
				e.OpFck(c, f, n, [][]byte{rej, {}, []byte("k:2"), []byte("v")})
				e.S.Count("forced_case_" + map[bool]string{true: "lower", false: "notlower"}[n == asciiLower(n)])
			}
		}
		for _, at := range []int{-1, 0, 499, 998, 999} {
			e.OpFck(c, f, "DEL", many(1000, at))
			e.OpFck(c, f, "unlink", many(1000, at))
			ms := many(2000, -1)
			if at >= 0 {
				ms[2*(at/2)] = rej
			}
			e.OpFck(c, f, "MsEt", ms)
			e.S.Count("forced_1000keys")
		}
	}
}
