//go:build verif

package vfutil

// Load-scaled budgets (C05/C08 harnesses).
//
// A verdict must never depend on wall-clock time: on a loaded machine a
// goroutine of the code under test may not be scheduled for seconds. A Budget is
// measured in POLLS of a reference goroutine that does what the code's own wait
// loops do (sleep 10 ms, wake, yield): under load the reference is slowed like
// the code under test, so "N reference polls went by and the code made no
// progress" is a statement about the code, not about the machine. The nominal
// duration is spent twice (the retry), and a generous hard wall-clock limit
// exists only to end the run: its expiry is an INFRASTRUCTURE failure (the test
// fails, the runner reports a broken tie), never a property violation.

import (
	"fmt"
	"os"
	"runtime"
	"sync"
	"sync/atomic"
	"time"
)

const budgetPoll = 10 * time.Millisecond

type Budget struct {
	expired atomic.Bool
	hard    atomic.Bool
	ch      chan struct{} // closed at expiry (scaled or hard)
	stop    chan struct{}
	once    sync.Once
}

// StartBudget starts a budget of 2 x nominal/10ms reference polls (never less
// than 2 x nominal of wall-clock time), with a hard limit of 10 minutes.
func StartBudget(nominal time.Duration) *Budget {
	b := &Budget{ch: make(chan struct{}), stop: make(chan struct{})}
	polls := 2 * int(nominal/budgetPoll)
	if polls < 20 {
		polls = 20
	}
	t0 := time.Now()
	hard := 10 * time.Minute
	go func() {
		for i := 0; ; i++ {
			select {
			case <-b.stop:
				return
			default:
			}
			if i >= polls && time.Since(t0) >= 2*nominal {
				b.expired.Store(true)
				close(b.ch)
				return
			}
			if time.Since(t0) > hard {
				b.hard.Store(true)
				b.expired.Store(true)
				close(b.ch)
				return
			}
			time.Sleep(budgetPoll)
			runtime.Gosched()
		}
	}()
	return b
}

func (b *Budget) Stop()                   { b.once.Do(func() { close(b.stop) }) }
func (b *Budget) Expired() bool           { return b.expired.Load() }
func (b *Budget) Hard() bool              { return b.hard.Load() }
func (b *Budget) Done() <-chan struct{}   { return b.ch }

// Wait waits for done within the budget. ok: done fired. hard: the hard
// wall-clock limit expired (an infrastructure failure, already recorded).
func Wait(done <-chan struct{}, nominal time.Duration) (ok bool) {
	b := StartBudget(nominal)
	defer b.Stop()
	select {
	case <-done:
		return true
	case <-b.Done():
		// one last look: the event may have happened together with the expiry
		select {
		case <-done:
			return true
		default:
		}
		if b.Hard() {
			Infra(fmt.Sprintf("hard wall-clock limit expired while waiting (nominal budget %v)", nominal))
		}
		return false
	}
}

// ---- infrastructure failures: they fail the test (broken tie), they are not violations

var infraMu sync.Mutex
var infraMsgs []string

func Infra(msg string) {
	infraMu.Lock()
	infraMsgs = append(infraMsgs, msg)
	infraMu.Unlock()
	fmt.Fprintln(os.Stderr, "HARNESS INFRASTRUCTURE (no statement about the code under test): "+msg)
}

// InfraFailures returns what Infra recorded; a test ends with
// `for _, m := range vfutil.InfraFailures() { t.Errorf(...) }`.
func InfraFailures() []string {
	infraMu.Lock()
	defer infraMu.Unlock()
	return append([]string(nil), infraMsgs...)
}

// WatchdogExit ends a harness that did not finish: an infrastructure failure
// (exit code 3 -> the runner reports a broken tie), not a violation.
func WatchdogExit(s *Session, what string) {
	fmt.Fprintln(os.Stderr, "HARNESS WATCHDOG (no statement about the code under test): "+what)
	s.Close()
	os.Exit(3)
}
