//go:build !race

package vfutil

const RaceEnabled = false
