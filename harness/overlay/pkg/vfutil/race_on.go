//go:build race

package vfutil

// RaceEnabled: the test binary was built with -race (thorough tier of the checks that ask for it)
const RaceEnabled = true
