package vfutil

// Race-detector reports as harness results (session 5, C05).
//
// The Go race runtime writes its reports to file descriptor 2 and the testing package only
// says "race detected during execution of test" at the end. StartRaceLog points descriptor 2
// at a file for the duration of a harness; Finish restores it, copies what was written to the
// real stderr (so the runner's output tail still shows it), parses the reports and classifies
// each one:
//   * BOTH conflicting accesses are made by code of the repository (innermost frame outside
//     GOROOT that is not a harness file vf_* / zz_* / pkg/vf*): a data race of the code under
//     test -> Session.Violate("data-race", ...) with the scenario trace as the replay;
//   * otherwise (the harness itself touches shared state unsynchronised): an infrastructure
//     fault -> Infra(...); the testing package fails the test anyway (broken tie).
// Without -race both calls do nothing.

import (
	"fmt"
	"os"
	"path/filepath"
	"runtime"
	"strings"
	"syscall"
)

type RaceLog struct {
	name  string
	path  string
	f     *os.File
	saved int
	marks []raceMark
}

type raceMark struct {
	off   int64
	label string
}

// Mark: everything the race runtime writes from now on belongs to `label` (a scenario of the
// harness: backend, kind, number) - a report is attributed to the scenario it appeared in.
func (r *RaceLog) Mark(label string) {
	if r == nil {
		return
	}
	var off int64
	if st, err := os.Stat(r.path); err == nil {
		off = st.Size()
	}
	r.marks = append(r.marks, raceMark{off, label})
}

func (r *RaceLog) labelAt(off int64) string {
	l := ""
	for _, m := range r.marks {
		if m.off <= off {
			l = m.label
		}
	}
	return l
}

type RaceReport struct {
	Pos    int64 // byte offset of the report in the log
	Text   string
	Frames []string // innermost non-runtime frame of each of the two conflicting accesses: "func file:line"
	InRepo bool
}

func StartRaceLog(name string) *RaceLog {
	if !RaceEnabled {
		return nil
	}
	path := filepath.Join(OutDir(), name+".race.log")
	f, err := os.Create(path)
	if err != nil {
		return nil
	}
	saved, err := syscall.Dup(2)
	if err != nil {
		f.Close()
		return nil
	}
	if err := syscall.Dup3(int(f.Fd()), 2, 0); err != nil {
		syscall.Close(saved)
		f.Close()
		return nil
	}
	return &RaceLog{name: name, path: path, f: f, saved: saved}
}

func isHarnessFile(file string) bool {
	b := filepath.Base(file)
	if strings.HasPrefix(b, "vf_") || strings.HasPrefix(b, "zz_") {
		return true
	}
	return strings.Contains(file, "/pkg/vf")
}

// ParseRaceReports splits the race runtime's output into reports.
func ParseRaceReports(text string) []RaceReport {
	goroot := runtime.GOROOT()
	var out []RaceReport
	pieces := strings.Split(text, "WARNING: DATA RACE")
	pos := int64(len(pieces[0]))
	for _, blk := range pieces[1:] {
		here := pos
		pos += int64(len("WARNING: DATA RACE") + len(blk))
		if i := strings.Index(blk, "=================="); i >= 0 {
			blk = blk[:i]
		}
		rep := RaceReport{Pos: here, Text: "WARNING: DATA RACE" + blk}
		lines := strings.Split(blk, "\n")
		inAccess := false
		found := false
		fn := ""
		for _, l := range lines {
			t := strings.TrimSpace(l)
			switch {
			case t == "":
				inAccess = false
			case strings.Contains(t, " by goroutine ") || strings.Contains(t, " by main goroutine"):
				// "Write at 0x.. by goroutine 7:" / "Previous read at 0x.. by goroutine 8:"
				inAccess, found, fn = true, false, ""
			case strings.HasPrefix(t, "Goroutine "):
				inAccess = false
			case inAccess && !found:
				if strings.HasPrefix(l, "      ") || strings.HasPrefix(l, "\t") && strings.Contains(t, ".go:") {
					// a file line: "<path>:<line> +0x.."
					file := t
					if j := strings.Index(file, " "); j >= 0 {
						file = file[:j]
					}
					if goroot != "" && strings.HasPrefix(file, goroot) {
						continue
					}
					if strings.Contains(file, "/src/runtime/") || strings.Contains(file, "/src/sync/") || strings.Contains(file, "/src/internal/") {
						continue
					}
					rep.Frames = append(rep.Frames, fn+" "+file)
					found = true
				} else {
					fn = t
				}
			}
		}
		rep.InRepo = len(rep.Frames) >= 2
		for _, fr := range rep.Frames {
			parts := strings.Fields(fr)
			if isHarnessFile(parts[len(parts)-1]) {
				rep.InRepo = false
			}
		}
		out = append(out, rep)
	}
	return out
}

// Finish restores stderr and turns the reports into violations / infrastructure faults.
func (r *RaceLog) Finish(s *Session, replay func() map[string]interface{}) {
	if r == nil {
		return
	}
	syscall.Dup3(r.saved, 2, 0)
	syscall.Close(r.saved)
	r.f.Close()
	b, _ := os.ReadFile(r.path)
	if len(b) > 0 {
		os.Stderr.Write(b)
	}
	reps := ParseRaceReports(string(b))
	s.Add("race_detector_on", 1)
	s.Add("race_reports", len(reps))
	for _, rep := range reps {
		txt := rep.Text
		if len(txt) > 2500 {
			txt = txt[:2500]
		}
		if rep.InRepo {
			rp := map[string]interface{}{}
			if replay != nil {
				for k, v := range replay() {
					rp[k] = v
				}
			}
			rp["harness"] = r.name
			if l := r.labelAt(rep.Pos); l != "" {
				rp["scenario"] = l
			}
			rp["race"] = fmt.Sprint(rep.Frames)
			s.Violate("data-race", "the race detector reports unsynchronised conflicting accesses by the code under test: "+
				fmt.Sprint(rep.Frames)+"\n"+txt, rp)
		} else {
			Infra("race report involving harness code (no statement about the cache): " + fmt.Sprint(rep.Frames))
		}
	}
}
