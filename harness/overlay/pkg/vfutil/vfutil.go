//go:build verif

// Package vfutil is the shared part of the verification harness. It exists
// only in the go build overlay (never in /repo) and only under tag `verif`.
package vfutil

import (
	"bufio"
	"encoding/hex"
	"encoding/json"
	"fmt"
	"os"
	"path/filepath"
	"sort"
	"strconv"
	"strings"
	"sync"
)

// ---------------------------------------------------------------- PRNG

// Rand is splitmix64: every random choice of a run derives from VERIF_SEED.
type Rand struct{ s uint64 }

func NewRand(seed uint64) *Rand {
	// mix the seed so that neighbouring seeds give unrelated streams (seed*golden alone made
	// NewRand(s+1) the stream of NewRand(s) shifted by one step)
	z := seed + 0x9E3779B97F4A7C15
	z = (z ^ (z >> 30)) * 0xBF58476D1CE4E5B9
	z = (z ^ (z >> 27)) * 0x94D049BB133111EB
	z ^= z >> 31
	return &Rand{s: z ^ 0x1234567}
}

func (r *Rand) U64() uint64 {
	r.s += 0x9E3779B97F4A7C15
	z := r.s
	z = (z ^ (z >> 30)) * 0xBF58476D1CE4E5B9
	z = (z ^ (z >> 27)) * 0x94D049BB133111EB
	return z ^ (z >> 31)
}
func (r *Rand) Intn(n int) int {
	if n <= 0 {
		return 0
	}
	return int(r.U64() % uint64(n))
}
func (r *Rand) Range(lo, hi int) int { return lo + r.Intn(hi-lo+1) } // inclusive
func (r *Rand) Bool() bool           { return r.U64()&1 == 1 }
func (r *Rand) Chance(num, den int) bool {
	return r.Intn(den) < num
}
func (r *Rand) Bytes(n int) []byte {
	b := make([]byte, n)
	for i := range b {
		b[i] = byte(r.U64())
	}
	return b
}
func (r *Rand) Fork() *Rand { return NewRand(r.U64()) }

// Pick returns a random element.
func Pick[T any](r *Rand, xs []T) T { return xs[r.Intn(len(xs))] }

// ---------------------------------------------------------------- env

func Seed() uint64 {
	v, err := strconv.ParseUint(os.Getenv("VERIF_SEED"), 10, 64)
	if err != nil {
		return 1
	}
	return v
}
func Tier() string {
	if os.Getenv("VERIF_TIER") == "thorough" {
		return "thorough"
	}
	return "quick"
}
func Thorough() bool { return Tier() == "thorough" }
func OutDir() string {
	d := os.Getenv("VERIF_OUT")
	if d == "" {
		d = os.TempDir()
	}
	os.MkdirAll(d, 0o755)
	return d
}

// Scale picks the quick or thorough size.
func Scale(quick, thorough int) int {
	if Thorough() {
		return thorough
	}
	return quick
}

// ---------------------------------------------------------------- hex

// Hex is the line-protocol rendering of a byte string ("-" when empty).
func Hex(b []byte) string {
	if len(b) == 0 {
		return "-"
	}
	return hex.EncodeToString(b)
}
func HexS(s string) string { return Hex([]byte(s)) }
func HexList(bs [][]byte) string {
	if len(bs) == 0 {
		return "."
	}
	parts := make([]string, len(bs))
	for i, b := range bs {
		parts[i] = Hex(b)
	}
	return strings.Join(parts, ",")
}
func UnHex(s string) []byte {
	if s == "-" {
		return nil
	}
	b, err := hex.DecodeString(s)
	if err != nil {
		panic(err)
	}
	return b
}

// ---------------------------------------------------------------- session

// Session collects ops (input to the Lean driver), the implementation's
// output lines, coverage counters, samples and monitor violations.
type Session struct {
	mu     sync.Mutex
	Prop   string
	ops    *bufio.Writer
	impl   *bufio.Writer
	opsF   *os.File
	implF  *os.File
	Stats  map[string]int
	Seen   map[string]struct{} // distinct non-trivial cases
	Sample []string
	Viol   []Violation
	nOps   int
}

type Violation struct {
	What   string                 `json:"what"`   // short stable identifier of the failing behaviour
	Detail string                 `json:"detail"` // human readable
	Replay map[string]interface{} `json:"replay"` // concrete input / schedule / history
}

func NewSession(prop string) *Session {
	d := OutDir()
	o, err := os.Create(filepath.Join(d, prop+".ops"))
	if err != nil {
		panic(err)
	}
	i, err := os.Create(filepath.Join(d, prop+".impl"))
	if err != nil {
		panic(err)
	}
	return &Session{Prop: prop, ops: bufio.NewWriterSize(o, 1<<20), impl: bufio.NewWriterSize(i, 1<<20),
		opsF: o, implF: i, Stats: map[string]int{}, Seen: map[string]struct{}{}}
}

// Op records one op line for the model driver and the implementation's
// answer lines for it.
func (s *Session) Op(op string, implOut ...string) {
	s.mu.Lock()
	defer s.mu.Unlock()
	s.ops.WriteString(op)
	s.ops.WriteByte('\n')
	for _, l := range implOut {
		s.impl.WriteString(l)
		s.impl.WriteByte('\n')
	}
	s.nOps++
	if len(s.Sample) < 5 {
		sm := op
		if len(sm) > 300 {
			sm = sm[:300] + "…"
		}
		if len(implOut) > 0 {
			o := strings.Join(implOut, " ; ")
			if len(o) > 300 {
				o = o[:300] + "…"
			}
			sm += "  =>  " + o
		}
		s.Sample = append(s.Sample, sm)
	}
}

func (s *Session) Count(k string) { s.mu.Lock(); s.Stats[k]++; s.mu.Unlock() }
func (s *Session) Add(k string, n int) {
	s.mu.Lock()
	s.Stats[k] += n
	s.mu.Unlock()
}

// Distinct registers a non-trivial case under a canonical key.
func (s *Session) Distinct(key string) {
	s.mu.Lock()
	s.Seen[key] = struct{}{}
	s.mu.Unlock()
}

func (s *Session) Violate(what, detail string, replay map[string]interface{}) {
	s.mu.Lock()
	defer s.mu.Unlock()
	if len(s.Viol) < 50 {
		s.Viol = append(s.Viol, Violation{what, detail, replay})
	}
	s.Stats["monitor_violations"]++
}

type summary struct {
	Prop       string         `json:"property_id"`
	Ops        int            `json:"ops"`
	Distinct   int            `json:"distinct_nontrivial"`
	Stats      map[string]int `json:"stats"`
	Samples    []string       `json:"samples"`
	Violations []Violation    `json:"violations"`
	Seed       uint64         `json:"seed"`
	Tier       string         `json:"tier"`
}

func (s *Session) Close() {
	s.ops.Flush()
	s.impl.Flush()
	s.opsF.Close()
	s.implF.Close()
	sum := summary{s.Prop, s.nOps, len(s.Seen), s.Stats, s.Sample, s.Viol, Seed(), Tier()}
	if sum.Violations == nil {
		sum.Violations = []Violation{}
	}
	b, _ := json.MarshalIndent(sum, "", " ")
	if err := os.WriteFile(filepath.Join(OutDir(), s.Prop+".summary.json"), b, 0o644); err != nil {
		panic(err)
	}
}

// ---------------------------------------------------------------- corpus

// Corpus returns the lines of every file under /verif/corpus/<prop>/ (sorted),
// skipping blank lines and lines starting with '#'.
func Corpus(prop string) []string {
	root := os.Getenv("VERIF_ROOT")
	if root == "" {
		root = "/verif"
	}
	dir := filepath.Join(root, "corpus", prop)
	ents, err := os.ReadDir(dir)
	if err != nil {
		return nil
	}
	var names []string
	for _, e := range ents {
		if !e.IsDir() {
			names = append(names, e.Name())
		}
	}
	sort.Strings(names)
	var out []string
	for _, n := range names {
		b, err := os.ReadFile(filepath.Join(dir, n))
		if err != nil {
			continue
		}
		for _, l := range strings.Split(string(b), "\n") {
			l = strings.TrimSpace(l)
			if l == "" || strings.HasPrefix(l, "#") {
				continue
			}
			out = append(out, l)
		}
	}
	return out
}

func Sprintf(format string, a ...interface{}) string { return fmt.Sprintf(format, a...) }

func Min(a, b int) int {
	if a < b {
		return a
	}
	return b
}
func Max(a, b int) int {
	if a > b {
		return a
	}
	return b
}
