//go:build verif

package cmd

// C15loop: the REAL (*SyncerCmd).run() / runCluster BEYOND its first campaign, against the C15 lease-store
// double (the real Lua scripts through the real client), restarted the way Run() restarts it, through
//   campaign → lead (real NewSyncer / RunLeader, real clusterTicker renewing) → the lease is lost (the store's
//   clock passes its end and another contender's value is written) → failed renewal → ticker closes the
//   syncer's wait → sy.Stop / WgWait → Resign (must leave the foreign lease alone) → run ends (break) →
//   run again: campaign refused → follow / candidate, campaigning again and again → the foreign lease
//   runs out on the store's clock → campaign won → lead again → (the leader syncer ends: its source is a
//   double that refuses SELECT) → stop → Resign (own lease released).
// Time: the lease lives on the store's LOGICAL clock (moved only by the harness); the wall clock only paces
// the ticker (1 s) and RunLeader's own failure (~5 s). No verdict depends on a wait: monitors are statements
// about the ORDER and the replies of the EVALs the store saw; a condition that does not come within a
// generous limit is a broken tie (t.Fatalf), not a violation.
// Op: `loop <idx> <now0> <ttl s> <key hex> <events>` with events C:<id hex> (campaign script = Campaign and
// Renew) | X:<id hex> (resign script) | I:<advance ms>:<val hex>:<ttl ms> (injection; val empty = only the
// clock), consecutive equal requests collapsed; impl line = the integer replies; the Lean driver replays the
// requests on Model/Lease.lean (regenerated scripts).

import (
	"fmt"
	"os"
	"path/filepath"
	"strings"
	"testing"
	"time"

	"github.com/mgtv-tech/redis-GunYu/config"
	"github.com/mgtv-tech/redis-GunYu/pkg/cluster"
	"github.com/mgtv-tech/redis-GunYu/pkg/vfutil"
)

func TestVerifC15Loop(t *testing.T) {
	s := vfutil.NewSession("C15loop")
	defer s.Close()
	st, err := cluster.VerifNewLeaseStore()
	if err != nil {
		t.Fatal(err)
	}
	defer st.Close()
	const now0 = 1000
	st.VerifReset(now0)
	dir := t.TempDir()
	h := vfC15Host{listen: "10.0.0.1:18001"}
	const me, foreign = "10.0.0.1:18001", "127.0.0.1:1"
	*config.GetSyncerConfig() = config.SyncConfig{}
	path := filepath.Join(dir, "cfg.yaml")
	if err := os.WriteFile(path, []byte(h.yaml(st.Addr(), true, "")), 0o644); err != nil {
		t.Fatal(err)
	}
	if err := config.InitSyncerConfig(path); err != nil {
		t.Fatal(err)
	}
	cmd := NewSyncerCmd()
	if err := cmd.fixConfig(); err != nil {
		t.Fatal(err)
	}
	st.VerifEvalLog(true)

	// the restart loop of Run() (without its server / cron and its 2 s pause)
	runs := make(chan string, 64)
	stop := make(chan struct{})
	loopDone := make(chan struct{})
	go func() {
		defer close(loopDone)
		for i := 0; i < 12; i++ {
			err := cmd.run()
			runs <- fmt.Sprint(err)
			select {
			case <-stop:
				return
			default:
			}
			if cmd.waitCloser.IsClosed() {
				return
			}
		}
	}()
	waitFor := func(what string, cond func(log []string) bool) []string {
		deadline := time.Now().Add(60 * time.Second)
		for time.Now().Before(deadline) {
			log := st.VerifEvalLogSnapshot()
			if cond(log) {
				return log
			}
			time.Sleep(20 * time.Millisecond)
		}
		close(stop)
		if rw := cmd.getRunWait(); rw != nil {
			rw.Close(nil)
		}
		t.Fatalf("C15loop: %s did not happen within the limit; EVALs so far: %s", what, strings.Join(st.VerifEvalLogSnapshot(), " "))
		return nil
	}
	count := func(log []string, from int, e string) int {
		n := 0
		for _, l := range log[from:] {
			if l == e {
				n++
			}
		}
		return n
	}
	// 1. leader, renewed at least once
	waitFor("campaign won and renewed once", func(l []string) bool { return count(l, 0, "C:"+me+":1") >= 2 })
	key := ""
	if keys, _, _, _ := st.VerifLastEval(); len(keys) == 1 {
		key = keys[0]
	} else {
		t.Fatalf("C15loop: no election key seen")
	}
	// 2. the lease is lost: the store's clock passes its end, another contender holds the key for 60 s
	p1 := st.VerifInject(3001, key, foreign, 60000)
	// 3. … the instance resigns (it has stopped leading) and the foreign lease is untouched
	log := waitFor("resign after the lost lease", func(l []string) bool { return count(l, p1, "X:"+me+":0")+count(l, p1, "X:"+me+":1") >= 1 })
	if v, _, live := st.VerifLive(key); !live || v != foreign {
		s.Violate("resign-released-foreign-lease", fmt.Sprintf("after the loop's Resign the store holds %q live=%v, the foreign lease %q is gone", v, live, foreign),
			map[string]interface{}{"loop": strings.Join(log, " ")})
	}
	// 4. campaigns again and is refused while the foreign lease lasts
	pX := len(log)
	waitFor("a refused campaign after the resign", func(l []string) bool { return count(l, pX, "C:"+me+":0") >= 1 })
	// 5. the foreign lease runs out on the store's clock
	p2 := st.VerifInject(60001, key, "", 0)
	// 6. … the next campaign wins, the instance leads again, and resigns its OWN lease when its syncer ends
	log = waitFor("campaign won after the foreign lease ran out, then resign", func(l []string) bool {
		return count(l, p2, "C:"+me+":1") >= 1 && count(l, p2, "X:"+me+":1") >= 1
	})
	close(stop)
	if rw := cmd.getRunWait(); rw != nil {
		rw.Close(nil)
	}
	select {
	case <-loopDone:
	case <-time.After(60 * time.Second):
		t.Fatalf("C15loop: run() did not return after its scope was closed")
	}
	log = st.VerifEvalLogSnapshot()
	nRuns := len(runs)

	// ---- monitors on the order of the EVALs (each a clause of C15 at the level of the loop)
	replay := map[string]interface{}{"loop": strings.Join(log, " "), "inject_lost_at": p1, "inject_expired_at": p2}
	// (a) between the loss of the lease and the foreign lease's end nobody may be told leader
	for i := p1; i < p2 && i < len(log); i++ {
		if strings.HasPrefix(log[i], "C:") && strings.HasSuffix(log[i], ":1") {
			s.Violate("success-over-foreign-lease", fmt.Sprintf("EVAL %d %q answered 1 while %q held the key", i, log[i], foreign), replay)
		}
	}
	// (b) a failed renewal is followed by Resign before any further campaign of that term is answered 1, and
	//     every Resign comes after a campaign / renewal of the same instance (it led or tried to)
	seenC := false
	for i, l := range log {
		if strings.HasPrefix(l, "C:") {
			seenC = true
		}
		if strings.HasPrefix(l, "X:") && !seenC {
			s.Violate("resign-without-campaign", fmt.Sprintf("EVAL %d is a Resign before any campaign", i), replay)
		}
	}
	// (c) a Resign answered 1 while the key was foreign would have deleted it: covered by step 3; after the last
	//     Resign the own lease is gone
	if v, _, live := st.VerifLive(key); live && v == me && strings.HasPrefix(log[len(log)-1], "X:") {
		s.Violate("resign-kept-own-lease", fmt.Sprintf("after the last Resign the store still holds %q", v), replay)
	}

	// ---- op + impl line (consecutive equal entries collapsed; the injections at their exact places)
	var evs, outs []string
	prev := ""
	for i, l := range log {
		if i == p1 {
			evs = append(evs, fmt.Sprintf("I:3001:%s:60000", vfutil.HexS(foreign)))
			prev = ""
		}
		if i == p2 {
			evs = append(evs, "I:60001::0")
			prev = ""
		}
		if l == prev {
			continue
		}
		prev = l
		f := strings.Split(l, ":") // kind : id (may contain ':') : reply
		kind, reply := f[0], f[len(f)-1]
		id := strings.Join(f[1:len(f)-1], ":")
		evs = append(evs, kind+":"+vfutil.HexS(id))
		outs = append(outs, kind+"="+reply)
	}
	s.Op(fmt.Sprintf("loop 0 %d 3 %s %s", now0, vfutil.HexS(key), strings.Join(evs, " ")), "#0 "+strings.Join(outs, " "))
	s.Count("loop_real_runs_of_run")
	s.Add("loop_run_returns", nRuns)
	s.Add("loop_evals", len(log))
	s.Add("loop_renewals_answered_1", count(log, 0, "C:"+me+":1")-2)
	s.Add("loop_refused_campaigns", count(log, 0, "C:"+me+":0"))
	s.Add("loop_resigns", count(log, 0, "X:"+me+":0")+count(log, 0, "X:"+me+":1"))
	s.Distinct("loop")
}
