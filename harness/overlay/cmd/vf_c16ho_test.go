//go:build verif

package cmd

// C16 hand-over, executed: the REAL (*SyncerCmd).runCluster of two instances in one process —
// A leads, B follows and holds more than A — through the whole hand-over:
//   B: real NewSyncer / RunFollower / ReplicaFollower.Run over real gRPC to A's real
//      SyncerCmd.Sync -> ServiceReplica -> HANDOVER; take-over error after Run's 2 s; sy.Stop;
//      1 s pause; Campaign (or its clusterTicker's Campaign first, which cuts the pauses short);
//      NewSyncer (a new channel object over the same directory); RunLeader.
//   A: real NewSyncer / RunLeader (real RedisInput PSYNC from a source double, real RedisOutput
//      to the target double); Sync closes its syncer wait on the role error; clusterTicker
//      returns; sy.Stop; Resign; 10 s pause; Campaign; RunFollower(B).
// Doubles: the lease (cluster.Cluster/Election in memory, TTL on the wall clock, scripted
// failures, every call recorded with its instant), a replication source (INFO, REPLCONF,
// PSYNC with FULLRESYNC/CONTINUE, a deterministic stream), the target double of pkg/vfdoubles
// behind a loopback listener.
//
// Time: real. testing/synctest cannot carry this run — the instances talk over real loopback
// sockets (gRPC, RESP), which never become durably blocked for the virtual clock, and the disk
// reader of the channel sleeps while holding its mutex. So the scenarios run in parallel on the
// wall clock (10 s of it is runCluster's own pause) and NO verdict depends on a wait: every
// monitor is a statement about the ORDER of recorded calls or a LOWER bound between two
// recorded instants of the monotonic clock (a pause that the code must make cannot come out
// shorter under load, only longer). Conditions that are waited for have a generous limit and
// are reported as a broken tie, not as a violation, when they do not come.

import (
	"bufio"
	"bytes"
	"context"
	"errors"
	"fmt"
	"io"
	"net"
	"os"
	"path/filepath"
	"runtime"
	"runtime/pprof"
	"sort"
	"strconv"
	"strings"
	"sync"
	"testing"
	"time"

	"google.golang.org/grpc"

	"github.com/mgtv-tech/redis-GunYu/config"
	pb "github.com/mgtv-tech/redis-GunYu/pkg/api/golang"
	"github.com/mgtv-tech/redis-GunYu/pkg/cluster"
	"github.com/mgtv-tech/redis-GunYu/pkg/log"
	usync "github.com/mgtv-tech/redis-GunYu/pkg/sync"
	"github.com/mgtv-tech/redis-GunYu/pkg/vfdoubles"
	"github.com/mgtv-tech/redis-GunYu/pkg/vfutil"
	"github.com/mgtv-tech/redis-GunYu/syncer"
)

// ---------------------------------------------------------------- timeline

type vfHoEvent struct {
	at   time.Duration
	who  string // "A", "B", "src", …
	what string
}

type vfHoLog struct {
	mu    sync.Mutex
	start time.Time
	evs   []vfHoEvent
}

func (l *vfHoLog) add(who, what string) {
	l.mu.Lock()
	l.evs = append(l.evs, vfHoEvent{time.Since(l.start), who, what})
	l.mu.Unlock()
}

func (l *vfHoLog) snapshot() []vfHoEvent {
	l.mu.Lock()
	defer l.mu.Unlock()
	return append([]vfHoEvent(nil), l.evs...)
}

// first instant of an event of `who` whose text starts with `prefix`, at or after `from`
func vfHoFind(evs []vfHoEvent, who, prefix string, from time.Duration) (time.Duration, bool) {
	for _, e := range evs {
		if e.who == who && strings.HasPrefix(e.what, prefix) && e.at >= from {
			return e.at, true
		}
	}
	return 0, false
}

// ---------------------------------------------------------------- the lease double

type vfHoLease struct {
	mu     sync.Mutex
	log    *vfHoLog
	ttl    time.Duration
	holder string
	expiry time.Time
	addr   map[string]string // instance -> its peer (gRPC) address
	// scripted failures: "<who>:<call>" -> how many of the next calls fail
	fail map[string]int
	scn  string
	seen [][2]string
}

// goroutines started from an instance's runCluster carry its labels (children inherit them):
// "is the leader syncer of instance X still running" is read from the goroutine profile at the
// very instant of a lease call — no waiting, no guessing from when a peer noticed a closed socket.
func vfHoLabelled(scn, who string, f func()) {
	pprof.Do(context.Background(), pprof.Labels("vfscn", scn, "vfinst", who), func(context.Context) { f() })
}

// instances of the scenario with a goroutine inside (*syncer).runLeader: from before the input
// and the output exist until both are closed — the model's `sending`
func vfHoSending(scn string) map[string]bool {
	var buf bytes.Buffer
	pprof.Lookup("goroutine").WriteTo(&buf, 1)
	out := map[string]bool{}
	for _, blk := range strings.Split(buf.String(), "\n\n") {
		if !strings.Contains(blk, "syncer.(*syncer).runLeader") || !strings.Contains(blk, `"vfscn":"`+scn+`"`) {
			continue
		}
		for _, who := range []string{"A", "B"} {
			if strings.Contains(blk, `"vfinst":"`+who+`"`) {
				out[who] = true
			}
		}
	}
	return out
}

func (l *vfHoLease) live() bool { return l.holder != "" && time.Now().Before(l.expiry) }

type vfHoCluster struct {
	l   *vfHoLease
	who string
}

func (c *vfHoCluster) Close() error                                          { return nil }
func (c *vfHoCluster) Register(ctx context.Context, s, i string) error       { return nil }
func (c *vfHoCluster) Discover(ctx context.Context, s string) ([]string, error) { return nil, nil }
func (c *vfHoCluster) NewElection(ctx context.Context, key, id string) cluster.Election {
	return &vfHoElection{l: c.l, who: c.who}
}

type vfHoElection struct {
	l   *vfHoLease
	who string
}

func (e *vfHoElection) failing(call string) bool {
	k := e.who + ":" + call
	if e.l.fail[k] > 0 {
		e.l.fail[k]--
		return true
	}
	return false
}

// which of runCluster's two call sites is asking: the loop (a candidate) or clusterTicker (a
// follower whose syncer runs) — read from the call stack, not guessed from the timing
func vfHoCaller() string {
	pcs := make([]uintptr, 16)
	n := runtime.Callers(2, pcs)
	fr := runtime.CallersFrames(pcs[:n])
	for {
		f, more := fr.Next()
		if strings.HasSuffix(f.Function, ".clusterTicker") || strings.Contains(f.Function, ".clusterTicker.") {
			return "tcampaign"
		}
		if !more {
			return "campaign"
		}
	}
}

func (e *vfHoElection) Campaign(ctx context.Context) (cluster.ClusterRole, error) {
	call := vfHoCaller()
	l := e.l
	l.mu.Lock()
	defer l.mu.Unlock()
	if e.failing(call) {
		l.log.add(e.who, call+" failed")
		return cluster.RoleCandidate, errors.New("vf: lease store unreachable")
	}
	if !l.live() || l.holder == e.who {
		for who := range vfHoSending(l.scn) {
			if who != e.who {
				l.seen = append(l.seen, [2]string{"two-instances-sending", fmt.Sprintf("%v: %s is given the lease while the leader syncer of %s is still running (its input and output are open)", time.Since(l.log.start), e.who, who)})
			}
		}
		l.holder, l.expiry = e.who, time.Now().Add(l.ttl)
		l.log.add(e.who, call+" won")
		return cluster.RoleLeader, nil
	}
	l.log.add(e.who, call+" lost")
	return cluster.RoleFollower, nil
}

func (e *vfHoElection) Renew(ctx context.Context) error {
	l := e.l
	l.mu.Lock()
	defer l.mu.Unlock()
	if e.failing("renew") {
		l.log.add(e.who, "renew failed")
		return errors.New("vf: lease store unreachable")
	}
	if l.live() && l.holder == e.who {
		l.expiry = time.Now().Add(l.ttl)
		l.log.add(e.who, "renew ok")
		return nil
	}
	l.log.add(e.who, "renew notleader")
	return cluster.ErrNotLeader
}

func (e *vfHoElection) Resign(ctx context.Context) error {
	l := e.l
	l.mu.Lock()
	defer l.mu.Unlock()
	if vfHoSending(l.scn)[e.who] {
		l.seen = append(l.seen, [2]string{"resign-before-stop", fmt.Sprintf("%v: %s calls Resign while its leader syncer is still running (its input and output are open)", time.Since(l.log.start), e.who)})
	}
	if e.failing("resign") {
		l.log.add(e.who, "resign failed")
		return errors.New("vf: lease store unreachable")
	}
	if l.holder == e.who {
		l.holder = ""
	}
	l.log.add(e.who, "resign ok")
	return nil
}

func (e *vfHoElection) Leader(ctx context.Context) (*cluster.RoleInfo, error) {
	l := e.l
	l.mu.Lock()
	defer l.mu.Unlock()
	if !l.live() {
		return nil, cluster.ErrNoLeader
	}
	return &cluster.RoleInfo{Address: l.addr[l.holder], Role: cluster.RoleLeader}, nil
}

// ---------------------------------------------------------------- the replication source

// 28 bytes: the offsets used below (base + 280, base + 420) are command boundaries
const vfHoPattern = "*3\r\n$3\r\nSET\r\n$1\r\nk\r\n$2\r\nvv\r\n"

// stream byte at replication offset o (o > base)
func vfHoStream(base, from, to int64) []byte {
	b := make([]byte, 0, to-from)
	for o := from; o < to; o++ {
		b = append(b, vfHoPattern[int((o-base))%len(vfHoPattern)])
	}
	return b
}

type vfHoSource struct {
	ln   net.Listener
	log  *vfHoLog
	id   string
	base int64 // offset of the snapshot
	mu   sync.Mutex
	// how far each replica is fed: the leader A lags (limitLow), whoever resumes beyond gets all
	limitLow int64
	end      int64
	conns    int
}

func vfHoReadCmd(rd *bufio.Reader) ([]string, error) {
	line, err := rd.ReadString('\n')
	if err != nil {
		return nil, err
	}
	line = strings.TrimRight(line, "\r\n")
	if line == "" {
		return nil, nil
	}
	if line[0] != '*' {
		return strings.Fields(line), nil
	}
	n, _ := strconv.Atoi(line[1:])
	var out []string
	for i := 0; i < n; i++ {
		h, err := rd.ReadString('\n')
		if err != nil {
			return nil, err
		}
		sz, _ := strconv.Atoi(strings.TrimRight(h, "\r\n")[1:])
		buf := make([]byte, sz+2)
		if _, err := io.ReadFull(rd, buf); err != nil {
			return nil, err
		}
		out = append(out, string(buf[:sz]))
	}
	return out, nil
}

func (s *vfHoSource) info() string {
	return "# Server\r\nredis_version:6.2.6\r\nredis_mode:standalone\r\nrun_id:" + s.id + "\r\n# Replication\r\nrole:master\r\nconnected_slaves:0\r\nmaster_replid:" + s.id +
		"\r\nmaster_replid2:0000000000000000000000000000000000000000\r\nmaster_repl_offset:" + strconv.FormatInt(s.end, 10) +
		"\r\nsecond_repl_offset:-1\r\nrepl_backlog_active:1\r\nrepl_backlog_size:1048576\r\nrepl_backlog_first_byte_offset:" + strconv.FormatInt(s.base+1, 10) +
		"\r\nrepl_backlog_histlen:" + strconv.FormatInt(s.end-s.base, 10) + "\r\n# Keyspace\r\n"
}

func vfHoListenSource(log *vfHoLog, id string, base, limitLow, end int64) *vfHoSource {
	ln, err := net.Listen("tcp", "127.0.0.1:0")
	if err != nil {
		panic(err)
	}
	s := &vfHoSource{ln: ln, log: log, id: id, base: base, limitLow: limitLow, end: end}
	go func() {
		for {
			c, err := ln.Accept()
			if err != nil {
				return
			}
			go s.serve(c)
		}
	}()
	return s
}

func (s *vfHoSource) serve(c net.Conn) {
	defer c.Close()
	rd := bufio.NewReader(c)
	for {
		args, err := vfHoReadCmd(rd)
		if err != nil {
			return
		}
		if len(args) == 0 {
			continue
		}
		switch strings.ToLower(args[0]) {
		case "ping":
			c.Write([]byte("+PONG\r\n"))
		case "info":
			in := s.info()
			fmt.Fprintf(c, "$%d\r\n%s\r\n", len(in), in)
		case "role":
			fmt.Fprintf(c, "*3\r\n$6\r\nmaster\r\n:%d\r\n*0\r\n", s.end)
		case "cluster":
			c.Write([]byte("-ERR This instance has cluster support disabled\r\n"))
		case "psync":
			s.mu.Lock()
			s.conns++
			n := s.conns
			s.mu.Unlock()
			off, _ := strconv.ParseInt(args[2], 10, 64)
			s.log.add("src", fmt.Sprintf("psync#%d %s %d", n, args[1], off))
			from := s.base
			limit := s.limitLow
			if strings.EqualFold(args[1], s.id) && off-1 >= s.base && off-1 <= s.end {
				from = off - 1
				c.Write([]byte("+CONTINUE\r\n"))
				if from > s.limitLow {
					limit = s.end
				}
			} else {
				fmt.Fprintf(c, "+FULLRESYNC %s %d\r\n", s.id, s.base)
				rdb := append([]byte("REDIS0009\xff"), make([]byte, 8)...)
				fmt.Fprintf(c, "$%d\r\n", len(rdb))
				c.Write(rdb)
			}
			if limit > from {
				c.Write(vfHoStream(s.base, from, limit))
			}
			// the replica now only sends REPLCONF ACK; the connection ends when it goes away
			for {
				if _, err := vfHoReadCmd(rd); err != nil {
					s.log.add("src", fmt.Sprintf("psync#%d closed", n))
					return
				}
			}
		default:
			c.Write([]byte("+OK\r\n"))
		}
	}
}

// the offset of the checkpoint the target holds for run id `id` (-1: none), replayed from its
// request log: HSET/HDEL of the checkpoint hash, queued ones when their EXEC arrives
func vfHoCkpt(tg *vfdoubles.Target, id string) int64 {
	off := int64(-1)
	queued := map[int][]vfdoubles.LogEntry{}
	apply := func(e vfdoubles.LogEntry) {
		if len(e.Args) < 2 || string(e.Args[1]) != config.CheckpointKey {
			return
		}
		switch e.Cmd() {
		case "hset":
			for i := 2; i+1 < len(e.Args); i += 2 {
				if string(e.Args[i]) == id+"_offset" {
					off, _ = strconv.ParseInt(string(e.Args[i+1]), 10, 64)
				}
			}
		case "hdel":
			for _, a := range e.Args[2:] {
				if string(a) == id+"_offset" {
					off = -1
				}
			}
		case "del":
			off = -1
		}
	}
	for _, e := range tg.LogCopy() {
		switch {
		case e.Cmd() == "exec":
			for _, q := range queued[e.Conn] {
				apply(q)
			}
			delete(queued, e.Conn)
		case e.Cmd() == "discard":
			delete(queued, e.Conn)
		case e.Queued:
			queued[e.Conn] = append(queued[e.Conn], e)
		default:
			apply(e)
		}
	}
	return off
}

// the target double behind a loopback listener (client.NewRedis dials TCP)
func vfHoTargetListen(tg *vfdoubles.Target) net.Listener {
	ln, err := net.Listen("tcp", "127.0.0.1:0")
	if err != nil {
		panic(err)
	}
	go func() {
		for {
			c, err := ln.Accept()
			if err != nil {
				return
			}
			up := tg.Dial()
			var once sync.Once
			cl := func() { once.Do(func() { c.Close(); up.Close() }) }
			go func() { io.Copy(up, c); cl() }()
			go func() { io.Copy(c, up); cl() }()
		}
	}()
	return ln
}

func vfHoStandalone(addr string) *config.RedisConfig {
	rc := &config.RedisConfig{Addresses: []string{addr}, Type: config.RedisTypeStandalone, ClusterOptions: &config.RedisClusterOptions{}}
	rc.SetClusterShards([]*config.RedisClusterShard{{Master: config.RedisNode{Address: addr}}})
	return rc
}

// ---------------------------------------------------------------- one scenario

type vfHoScenario struct {
	name       string
	ttl        time.Duration
	failResign int // how many Resign calls of A fail
	horizon    time.Duration
}

type vfHoInst struct {
	who  string
	sc   *SyncerCmd
	cfg  syncer.SyncerConfig
	gs   *grpc.Server
	addr string
	dir  string
}

// end offset and contiguity of what the directory of run id `id` holds
func vfHoCacheEnd(dir, id string) (int64, bool) {
	files, err := os.ReadDir(filepath.Join(dir, id))
	if err != nil {
		return -1, true
	}
	type seg struct{ left, size int64 }
	var segs []seg
	for _, f := range files {
		if !strings.HasSuffix(f.Name(), ".aof") {
			continue
		}
		left, err := strconv.ParseInt(strings.TrimSuffix(f.Name(), ".aof"), 10, 64)
		st, err2 := f.Info()
		if err != nil || err2 != nil || st.Size() <= 16 {
			continue
		}
		segs = append(segs, seg{left, st.Size() - 16})
	}
	sort.Slice(segs, func(i, j int) bool { return segs[i].left < segs[j].left })
	end, contiguous := int64(-1), true
	for i, s := range segs {
		if i > 0 && s.left != end {
			contiguous = false
		}
		end = s.left + s.size
	}
	return end, contiguous
}

func vfHoNewInst(t *testing.T, who string, lg *vfHoLog, tmpl syncer.SyncerConfig, srcAddr, tgtAddr, dir string) *vfHoInst {
	in := &vfHoInst{who: who, dir: dir}
	in.cfg = tmpl
	in.cfg.Input = *vfHoStandalone(srcAddr)
	in.cfg.Output = *vfHoStandalone(tgtAddr)
	ch := tmpl.Channel.Clone()
	ch.Storer.DirPath = dir
	in.cfg.Channel = *ch
	in.sc = &SyncerCmd{logger: log.WithLogger("[vf-" + who + "] "), syncers: map[string]syncerInfo{}, waitCloser: usync.NewWaitCloser(nil)}
	in.sc.runWait = usync.NewWaitCloserFromParent(in.sc.waitCloser, nil)
	lis, err := net.Listen("tcp", "127.0.0.1:0")
	if err != nil {
		t.Fatal(err)
	}
	in.addr = lis.Addr().String()
	in.gs = grpc.NewServer(grpc.StreamInterceptor(func(srv interface{}, ss grpc.ServerStream, info *grpc.StreamServerInfo, h grpc.StreamHandler) error {
		return h(srv, &vfHoStreamTap{ServerStream: ss, who: who, lg: lg})
	}))
	pb.RegisterApiServiceServer(in.gs, in.sc)
	go in.gs.Serve(lis)
	return in
}

// records the offer BEFORE the HANDOVER answer leaves the leader: the instant precedes
// everything the follower does about it (its 2 s + 1 s pauses are lower bounds from here)
type vfHoStreamTap struct {
	grpc.ServerStream
	who string
	lg  *vfHoLog
}

func (s *vfHoStreamTap) SendMsg(m interface{}) error {
	if r, ok := m.(*pb.SyncResponse); ok && r.GetCode() == pb.SyncResponse_HANDOVER {
		s.lg.add(s.who, "offer")
	}
	return s.ServerStream.SendMsg(m)
}

type vfHoResult struct {
	op      string
	impl    []string
	tie     []string    // conditions of the harness that did not come (never a violation)
	seen    [][2]string // violations read inside the lease calls
	viol    [][2]string // what, detail
	events  []vfHoEvent
	aheadBy int64
}

func vfHoRun(t *testing.T, scn vfHoScenario, tmpl syncer.SyncerConfig, seedId string) vfHoResult {
	var res vfHoResult
	lg := &vfHoLog{start: time.Now()}
	const base, low, end = int64(1000), int64(1280), int64(1420)
	src := vfHoListenSource(lg, seedId, base, low, end)
	defer src.ln.Close()
	tg := vfdoubles.NewTarget()
	tln := vfHoTargetListen(tg)
	defer tln.Close()
	root := t.TempDir()
	A := vfHoNewInst(t, "A", lg, tmpl, src.ln.Addr().String(), tln.Addr().String(), filepath.Join(root, "A"))
	B := vfHoNewInst(t, "B", lg, tmpl, src.ln.Addr().String(), tln.Addr().String(), filepath.Join(root, "B"))
	defer A.gs.Stop()
	defer B.gs.Stop()
	lease := &vfHoLease{log: lg, scn: scn.name, ttl: scn.ttl, addr: map[string]string{"A": A.addr, "B": B.addr}, fail: map[string]int{}}
	if scn.failResign > 0 {
		lease.fail["A:resign"] = scn.failResign
	}

	// B was leader in an earlier life: its disk cache holds the source's stream up to `end`
	{
		ch := syncer.NewChannel(B.cfg.Channel, B.cfg.Input.Address())
		if err := ch.SetRunId(seedId); err != nil {
			t.Fatal(err)
		}
		pr, pw := io.Pipe()
		w, err := ch.NewAofWritter(bufio.NewReader(pr), base)
		if err != nil {
			t.Fatal(err)
		}
		w.Start()
		pw.Write(vfHoStream(base, base, end))
		vfC16Wait(func() bool { sp, _ := ch.StartPoint(nil); return sp.Offset == end })
		w.Close()
		pw.Close()
		ch.Close()
	}

	// A leads first …
	vfHoLabelled(scn.name, "A", func() {
		A.sc.runCluster(A.sc.runWait, &vfHoCluster{l: lease, who: "A"}, []syncer.SyncerConfig{A.cfg})
	})
	// … has written what the source gave it (and the checkpoint for it) to the target …
	leadsAndFed := func() bool {
		si := A.sc.getSyncer(A.cfg.Input.Address())
		if si.sync == nil || !si.sync.IsLeader() {
			return false
		}
		if e, _ := vfHoCacheEnd(A.dir, seedId); e != low {
			return false
		}
		return vfHoCkpt(tg, seedId) == low
	}
	if !vfC16Wait(leadsAndFed) {
		res.tie = append(res.tie, "instance A did not become a leader that has fed the target")
		A.sc.waitCloser.Close(nil)
		A.sc.runWait.WgWait()
		return res
	}
	// … then B joins, holding more
	vfHoLabelled(scn.name, "B", func() {
		B.sc.runCluster(B.sc.runWait, &vfHoCluster{l: lease, who: "B"}, []syncer.SyncerConfig{B.cfg})
	})

	// until B leads and A has come back and caught up as its follower (a state, not a time; the
	// limit is generous and passing it is a broken tie)
	done := func() bool {
		sb := B.sc.getSyncer(B.cfg.Input.Address())
		sa := A.sc.getSyncer(A.cfg.Input.Address())
		if sb.sync == nil || !sb.sync.IsLeader() || sa.sync == nil || sa.sync.IsLeader() {
			return false
		}
		lease.mu.Lock()
		ok := lease.live() && lease.holder == "B"
		lease.mu.Unlock()
		e, _ := vfHoCacheEnd(A.dir, seedId)
		return ok && e == end && vfHoCkpt(tg, seedId) == end
	}
	dl := time.Now().Add(scn.horizon)
	for !done() && time.Now().Before(dl) {
		time.Sleep(20 * time.Millisecond)
	}
	finished := done()
	// final observation (the log first: what comes later belongs to the shutdown), then stop everything
	res.events = lg.snapshot()
	roleOf := func(in *vfHoInst) string {
		si := in.sc.getSyncer(in.cfg.Input.Address())
		switch {
		case si.sync == nil:
			return "cand"
		case si.sync.IsLeader():
			return "lead"
		}
		return "foll"
	}
	phases := roleOf(A) + "," + roleOf(B)
	lease.mu.Lock()
	holder := "-"
	if lease.live() {
		holder = map[string]string{"A": "0", "B": "1"}[lease.holder]
	}
	lease.mu.Unlock()
	endA, contA := vfHoCacheEnd(A.dir, seedId)
	endB, contB := vfHoCacheEnd(B.dir, seedId)
	ckpt := vfHoCkpt(tg, seedId)
	A.sc.waitCloser.Close(nil)
	B.sc.waitCloser.Close(nil)
	A.sc.runWait.WgWait()
	B.sc.runWait.WgWait()
	if d := os.Getenv("VF_HO_DEBUG"); d != "" {
		var sb strings.Builder
		for i, e := range tg.LogCopy() {
			fmt.Fprintf(&sb, "%d %s\n", i, e.String())
		}
		os.WriteFile(filepath.Join(d, "tg_"+scn.name+".log"), []byte(sb.String()), 0o644)
		sb.Reset()
		for _, e := range res.events {
			if !strings.Contains(e.what, "renew ok") && !strings.Contains(e.what, "tcampaign lost") {
				fmt.Fprintf(&sb, "%dms %s %s\n", e.at.Milliseconds(), e.who, e.what)
			}
		}
		os.WriteFile(filepath.Join(d, "tl_"+scn.name+".log"), []byte(sb.String()), 0o644)
	}
	lease.mu.Lock()
	res.seen = append(res.seen, lease.seen...)
	lease.mu.Unlock()

	// ---- the model op
	idx := map[string]int{"A": 0, "B": 1}
	var toks []string
	last := time.Duration(0)
	for _, e := range res.events {
		i, isInst := idx[e.who]
		if !isInst {
			continue
		}
		tok, out := "", ""
		f := strings.Fields(e.what)
		switch f[0] {
		case "campaign", "tcampaign":
			k := map[string]string{"campaign": "c", "tcampaign": "k"}[f[0]]
			sign := "+"
			if f[1] == "failed" {
				sign = "-"
			}
			tok, out = fmt.Sprintf("%s%d%s", k, i, sign), fmt.Sprintf("%s%d %s", k, i, f[1])
		case "renew":
			switch f[1] {
			case "ok":
				tok, out = fmt.Sprintf("r%d+", i), fmt.Sprintf("r%d ok", i)
			case "notleader":
				tok, out = fmt.Sprintf("r%d+", i), fmt.Sprintf("r%d stop", i)
			default:
				tok, out = fmt.Sprintf("r%d-", i), fmt.Sprintf("r%d stop", i)
			}
		case "resign":
			if f[1] == "ok" {
				tok, out = fmt.Sprintf("g%d+", i), fmt.Sprintf("g%d ok", i)
			} else {
				tok, out = fmt.Sprintf("g%d-", i), fmt.Sprintf("g%d failed", i)
			}
		case "offer":
			tok, out = fmt.Sprintf("o%d.%d", i, 1-i), fmt.Sprintf("o%d.%d yes", i, 1-i)
		default:
			continue
		}
		if d := (e.at - last).Milliseconds(); d > 0 {
			toks = append(toks, fmt.Sprintf("t%d", d))
			last += time.Duration(d) * time.Millisecond
		}
		toks = append(toks, tok)
		res.impl = append(res.impl, out)
	}
	// follower sessions that moved a cache (A catching up as B's follower)
	if endA != low {
		toks = append(toks, fmt.Sprintf("f0=%d", endA))
	}
	if endB != end {
		toks = append(toks, fmt.Sprintf("f1=%d", endB))
	}
	senders := strings.Count(phases, "lead")
	res.impl = append(res.impl, fmt.Sprintf("end lease=%s phases=%s caches=%d,%d senders=%d", holder, phases, endA, endB, senders))
	res.op = fmt.Sprintf("hand 2 %d %d,%d %s", scn.ttl.Milliseconds(), low, end, strings.Join(toks, ","))
	res.aheadBy = end - low

	// ---- monitors on what was observed (independent of the model)
	bad := func(what, detail string) { res.viol = append(res.viol, [2]string{what, detail}) }
	if !finished {
		res.tie = append(res.tie, fmt.Sprintf("within %v of the scenario %q the follower that was offered leadership does not lead with the old leader following it: roles %s, lease %s, caches %d,%d, the target's checkpoint %d (the new leader held up to %d)",
			scn.horizon, scn.name, phases, holder, endA, endB, ckpt, end))
	}
	// (1), (3): read synchronously inside the lease calls (vfHoLease.seen)
	for _, v := range res.seen {
		bad(v[0], v[1])
	}
	// pauses: lower bounds between two recorded instants of the monotonic clock
	for _, who := range []string{"A", "B"} {
		other := map[string]string{"A": "B", "B": "A"}[who]
		offered := false // `who` answered HANDOVER since it last won
		for k, e := range res.events {
			if e.who != who {
				continue
			}
			switch {
			case e.what == "campaign won":
				offered = false
			case e.what == "offer":
				offered = true
			case strings.HasPrefix(e.what, "resign") && offered:
				for _, e2 := range res.events[k+1:] {
					if e2.who == who && strings.HasPrefix(e2.what, "campaign") {
						if e2.at-e.at < 10*time.Second {
							bad("handover-pause-too-short", fmt.Sprintf("%s campaigned %v after the resign (%v) that followed its offer: the offered follower had less than 10 s", who, e2.at-e.at, e.at))
						}
						break
					}
				}
			}
		}
		for k, e := range res.events {
			if e.who != other || e.what != "offer" {
				continue
			}
			for _, e2 := range res.events[k+1:] {
				if e2.who != who {
					continue
				}
				if e2.what == "tcampaign won" {
					break // its ticker got the key first: the pauses are cut short, as runCluster says
				}
				if strings.HasPrefix(e2.what, "campaign") {
					if e2.at-e.at < 3*time.Second {
						bad("takeover-pause-too-short", fmt.Sprintf("%s campaigned from the loop %v after it was offered leadership (2 s in Run, 1 s in the loop are due)", who, e2.at-e.at))
					}
					break
				}
			}
		}
	}
	// (4) the cache the new leader serves from: what it held when it was offered leadership. The
	// input resumes behind it when the target's checkpoint lies within it (C06's rule; the
	// scenario waits for that checkpoint before B joins).
	if to, ok := vfHoFind(res.events, "A", "offer", 0); ok {
		if tw, ok := vfHoFind(res.events, "B", "campaign won", to); ok {
			for _, e := range res.events {
				if e.who == "src" && strings.HasPrefix(e.what, "psync#") && !strings.HasSuffix(e.what, "closed") && e.at >= tw {
					f := strings.Fields(e.what)
					if off, _ := strconv.ParseInt(f[2], 10, 64); f[1] != seedId || off != end+1 {
						bad("promoted-cache-not-intact", fmt.Sprintf("the new leader resumed replication with PSYNC %s %s: not behind the end (%d) of the cache it held when it was offered leadership", f[1], f[2], end))
					}
					break
				}
			}
		}
	}
	if !contA || !contB || endB < end {
		bad("promoted-cache-not-intact", fmt.Sprintf("caches after the hand-over: A ends at %d (contiguous %v), B at %d (contiguous %v); B held up to %d when it was offered leadership", endA, contA, endB, contB, end))
	}
	return res
}

// ---------------------------------------------------------------- the test

func TestVerifC16Handover(t *testing.T) {
	s := vfutil.NewSession("C16ho")
	defer s.Close()
	r := vfutil.NewRand(vfutil.Seed()*104729 + 5)

	// one global configuration (cmd/syncer.go reads the cluster and server sections from it);
	// sources, targets, directories and gRPC addresses are per instance
	dir := t.TempDir()
	bootSrc := vfHoListenSource(&vfHoLog{start: time.Now()}, strings.Repeat("0", 40), 1000, 1000, 1000)
	defer bootSrc.ln.Close()
	bootTgt := vfHoTargetListen(vfdoubles.NewTarget())
	defer bootTgt.Close()
	yaml := "server:\n  listen: 127.0.0.1:18001\n  listenPeer: 127.0.0.1:18001\ninput:\n  redis:\n    addresses: [" + bootSrc.ln.Addr().String() +
		"]\noutput:\n  redis:\n    addresses: [" + bootTgt.Addr().String() + "]\n" +
		"channel:\n  storer:\n    dirPath: " + filepath.Join(dir, "unused") + "\nlog:\n  level: error\ncluster:\n  groupName: g1\n  leaseTimeout: 9s\n  leaseRenewInterval: 1s\n"
	path := filepath.Join(dir, "cfg.yaml")
	if err := os.WriteFile(path, []byte(yaml), 0o644); err != nil {
		t.Fatal(err)
	}
	*config.GetSyncerConfig() = config.SyncConfig{}
	if err := config.InitSyncerConfig(path); err != nil {
		t.Fatal(err)
	}
	boot := &SyncerCmd{logger: log.WithLogger("[vf] "), syncers: map[string]syncerInfo{}, waitCloser: usync.NewWaitCloser(nil)}
	if err := boot.fixConfig(); err != nil {
		t.Fatal(err)
	}
	cfgs, _, _, _, err := boot.syncerConfigs()
	if err != nil || len(cfgs) != 1 {
		t.Fatalf("syncerConfigs: %v", err)
	}

	scns := []vfHoScenario{
		{name: "resign-ok", ttl: 9 * time.Second, horizon: 120 * time.Second},
		{name: "resign-fails-once", ttl: 9 * time.Second, failResign: 1, horizon: 120 * time.Second},
	}
	if vfutil.Thorough() {
		// the lease outlives the 10 s pause and Resign fails: the old leader is back, offers again
		scns = append(scns, vfHoScenario{name: "resign-fails-lease-longer-than-pause", ttl: 25 * time.Second, failResign: 1, horizon: 240 * time.Second})
	}
	results := make([]vfHoResult, len(scns))
	var wg sync.WaitGroup
	for i := range scns {
		wg.Add(1)
		id := fmt.Sprintf("%040x", r.U64())
		go func(i int, id string) {
			defer wg.Done()
			results[i] = vfHoRun(t, scns[i], cfgs[0], id)
		}(i, id)
	}
	wg.Wait()
	for i, res := range results {
		for _, m := range res.tie {
			t.Errorf("c16 hand-over harness: scenario %s: %s", scns[i].name, m)
		}
		if res.op == "" {
			continue
		}
		s.Op(res.op, res.impl...)
		s.Count("scenario_" + scns[i].name)
		s.Distinct(scns[i].name)
		var tl []string
		for _, e := range res.events {
			tl = append(tl, fmt.Sprintf("%dms %s %s", e.at.Milliseconds(), e.who, e.what))
		}
		for _, v := range res.viol {
			s.Violate(v[0], v[1], map[string]interface{}{"scenario": scns[i].name, "lease_ttl": scns[i].ttl.String(), "timeline": strings.Join(tl, " | ")})
		}
		for _, e := range res.events {
			if e.who != "src" {
				s.Count("call_" + strings.ReplaceAll(e.what, " ", "_"))
			}
		}
	}
}
