//go:build verif

package cmd

// C16, the part that lives in cmd/syncer_api.go, executed for real: (*SyncerCmd).Sync —
// the gRPC handler every follower request goes through — around the real
// syncer.ServiceReplica / ReplicaLeader.Handle on a real MemoryChannel.
//
//   react <Ls> <view> <rid> <roff>  ->  first=<CODE|none> react=<nothing|syncer|all>
//
// (formats: lean/GunYu/Drive/C16.lean). What is observed: the first answer, and what Sync
// did with ServiceReplica's error: closed this input's syncer wait (role error — the
// leader that answered HANDOVER steps down, runCluster then resigns the lease) or the
// run-wide wait (break error). Monitor, independent of the model: HANDOVER <=> this
// input's syncer is stopped with ErrLeaderHandover. One end-to-end case per run: the real
// ReplicaFollower.Run of an ahead follower over real gRPC against the registered
// SyncerCmd returns ErrLeaderTakeover while the leader's syncer wait is closed.

import (
	"bufio"
	"context"
	"errors"
	"fmt"
	"io"
	"net"
	"strings"
	"testing"
	"time"

	"google.golang.org/grpc"
	"google.golang.org/grpc/metadata"

	"github.com/mgtv-tech/redis-GunYu/config"
	pb "github.com/mgtv-tech/redis-GunYu/pkg/api/golang"
	"github.com/mgtv-tech/redis-GunYu/pkg/cluster"
	"github.com/mgtv-tech/redis-GunYu/pkg/log"
	usync "github.com/mgtv-tech/redis-GunYu/pkg/sync"
	"github.com/mgtv-tech/redis-GunYu/pkg/vfutil"
	"github.com/mgtv-tech/redis-GunYu/syncer"
)

// hard limit of waits for a state the code must reach (they end when it is reached)
const vfC16Patience = 120 * time.Second

func vfC16Wait(cond func() bool) bool {
	dl := time.Now().Add(vfC16Patience)
	for !cond() {
		if time.Now().After(dl) {
			return false
		}
		time.Sleep(200 * time.Microsecond)
	}
	return true
}

type vfC16Leader struct {
	serving, started bool
	ids              []string
	cur              string
	base             int64
	bytes            []byte // nil: the channel holds nothing
}

func (l vfC16Leader) spec() string {
	b := func(x bool) string {
		if x {
			return "1"
		}
		return "0"
	}
	ids := "."
	if len(l.ids) > 0 {
		ids = strings.Join(l.ids, ",")
	}
	data := "-"
	if l.bytes != nil {
		data = fmt.Sprintf("%d/%s/~", l.base, vfutil.Hex(l.bytes))
	}
	return fmt.Sprintf("%s:%s:%s:%s:%s:%s:-:-", b(l.serving), b(l.started), ids, l.cur, data, b(l.bytes != nil))
}

// a real memory channel holding l's stream, writer left open (a live leader)
func vfC16Channel(l vfC16Leader) (syncer.Channel, func(), error) {
	ch := syncer.NewMemoryChannel(syncer.MemoryConf{InputId: "vf", MaxSize: 1 << 30, LogSize: 1 << 20})
	if l.cur != "" {
		if err := ch.SetRunId(l.cur); err != nil {
			return nil, nil, err
		}
	}
	closeFn := func() { ch.Close() }
	if l.bytes != nil {
		pr, pw := io.Pipe()
		w, err := ch.NewAofWritter(bufio.NewReader(pr), l.base)
		if err != nil {
			return nil, nil, err
		}
		w.Start()
		if len(l.bytes) > 0 {
			pw.Write(l.bytes)
		}
		want := l.base + int64(len(l.bytes))
		if !vfC16Wait(func() bool { sp, _ := ch.StartPoint(nil); return sp.Offset == want }) {
			return nil, nil, fmt.Errorf("fill: channel did not reach %d", want)
		}
		closeFn = func() { w.Close(); pw.Close(); ch.Close() }
	}
	return ch, closeFn, nil
}

// server stream that records the first answer and fails afterwards (the follower went away)
type vfC16Stream struct {
	ctx   context.Context
	first *pb.SyncResponse
	stop  func() // ends a handler that tails the stream for ever
}

func (s *vfC16Stream) Send(r *pb.SyncResponse) error {
	if s.first == nil {
		s.first = r
		if r.GetCode() == pb.SyncResponse_META && r.GetMeta().GetAof() {
			go s.stop()
		}
		return nil
	}
	return errors.New("vf: stream closed")
}
func (s *vfC16Stream) SetHeader(metadata.MD) error  { return nil }
func (s *vfC16Stream) SendHeader(metadata.MD) error { return nil }
func (s *vfC16Stream) SetTrailer(metadata.MD)       {}
func (s *vfC16Stream) Context() context.Context     { return s.ctx }
func (s *vfC16Stream) SendMsg(m interface{}) error  { return nil }
func (s *vfC16Stream) RecvMsg(m interface{}) error  { return nil }

func vfC16Cmd() (*SyncerCmd, usync.WaitCloser) {
	sc := &SyncerCmd{logger: log.WithLogger("[vf-cmd] "), syncers: map[string]syncerInfo{}, waitCloser: usync.NewWaitCloser(nil)}
	sc.runWait = usync.NewWaitCloserFromParent(sc.waitCloser, nil)
	return sc, usync.NewWaitCloserFromParent(sc.runWait, nil)
}

func vfC16Code(c pb.SyncResponse_Code) string {
	return map[pb.SyncResponse_Code]string{pb.SyncResponse_META: "META", pb.SyncResponse_CONTINUE: "CONTINUE", pb.SyncResponse_HANDOVER: "HANDOVER",
		pb.SyncResponse_CLEAR: "CLEAR", pb.SyncResponse_FAULT: "FAULT", pb.SyncResponse_ERROR: "ERROR", pb.SyncResponse_FAILURE: "FAILURE"}[c]
}

func TestVerifC16Cmd(t *testing.T) {
	config.GetSyncerConfig().Channel = &config.ChannelConfig{}
	s := vfutil.NewSession("C16cmd")
	defer s.Close()
	r := vfutil.NewRand(vfutil.Seed()*7919 + 17)

	data := func(n int) []byte { return r.Bytes(n) }
	var leaders []vfC16Leader
	for i := 0; i < vfutil.Scale(6, 40); i++ {
		base := int64(r.Range(1, 5000))
		leaders = append(leaders, vfC16Leader{serving: true, started: true, ids: []string{"idA"}, cur: "idA", base: base, bytes: data(r.Range(0, 200))})
	}
	base := int64(1000)
	leaders = append(leaders,
		vfC16Leader{serving: true, started: true, ids: []string{"idA"}, cur: "idA"},                                 // nothing yet
		vfC16Leader{serving: false, started: true, ids: []string{"idA"}, cur: "idA", base: base, bytes: data(50)},  // not leader (gate)
		vfC16Leader{serving: true, started: false, ids: []string{"idA"}, cur: "idA", base: base, bytes: data(50)},  // replica leader not started
		vfC16Leader{serving: true, started: true, ids: nil, cur: "idA", base: base, bytes: data(50)},               // no input ids: restart
		vfC16Leader{serving: true, started: true, ids: []string{"idC", "idA"}, cur: "idA", base: base, bytes: data(50)}, // input moved on: CLEAR
		vfC16Leader{serving: true, started: true, ids: []string{"idA", "idB"}, cur: "idA", base: base, bytes: data(50)},
	)
	for _, l := range leaders {
		right := l.base + int64(len(l.bytes))
		if l.bytes == nil {
			right = -1
		}
		type rq struct {
			rid string
			off int64
		}
		reqs := []rq{{"", 0}, {"?", 0}, {"idA", right}, {"idA", right + 1}, {"idA", right + int64(r.Range(2, 500))}, {"idA", l.base}, {"idA", l.base - 1},
			{"idA", right - int64(r.Intn(len(l.bytes)+1))}, {"idB", right}, {"idB", right + 100}}
		for _, q := range reqs {
			ch, closeCh, err := vfC16Channel(l)
			if err != nil {
				s.Count("skip_build_leader")
				t.Logf("c16cmd: %v", err)
				continue
			}
			sc, syncerWait := vfC16Cmd()
			sy, stopInner := syncer.VerifC16Syncer(ch, l.ids, l.serving, l.started)
			sc.setSyncer("vf-addr", sy, syncerWait)
			st := &vfC16Stream{ctx: context.Background(), stop: stopInner}
			err = sc.Sync(&pb.SyncRequest{Node: &pb.Node{RunId: q.rid, Address: "vf-addr"}, Offset: q.off}, st)
			first := "none"
			if st.first != nil {
				first = vfC16Code(st.first.GetCode())
			}
			react := "nothing"
			switch {
			case sc.runWait.IsClosed():
				react = "all"
			case syncerWait.IsClosed():
				react = "syncer"
			}
			s.Op(fmt.Sprintf("react %s 0.0.0.0 %s %d", l.spec(), map[bool]string{true: "_", false: q.rid}[q.rid == ""], q.off),
				fmt.Sprintf("first=%s react=%s", first, react))
			s.Count("first_" + first)
			s.Count("react_" + react)
			replay := map[string]interface{}{"leader": l.spec(), "run_id": q.rid, "offset": q.off, "error": fmt.Sprint(err)}
			// the last clause of the property on the leader's side: offering leadership means stepping down
			handover := first == "HANDOVER"
			stepped := syncerWait.IsClosed() && errors.Is(syncerWait.Error(), syncer.ErrLeaderHandover)
			if handover && !stepped {
				s.Violate("handover-leader-keeps-running", "the leader answered HANDOVER but its syncer is not stopped: it keeps the lease, the follower can never take over", replay)
			}
			if !handover && syncerWait.IsClosed() && !sc.runWait.IsClosed() {
				s.Violate("leader-stopped-without-handover", "this input's syncer was stopped although no HANDOVER was answered", replay)
			}
			if len(r.Bytes(0)) == 0 && first != "none" && q.rid != "" && q.rid != "?" {
				s.Distinct(first + "|" + react + "|" + l.spec()[:7])
			}
			sc.waitCloser.Close(nil)
			closeCh()
		}
	}

	// ---- end to end: the real Run of an ahead follower against the registered SyncerCmd
	for i := 0; i < 2; i++ {
		l := vfC16Leader{serving: true, started: true, ids: []string{"idA"}, cur: "idA", base: 1000, bytes: data(40)}
		ch, closeCh, err := vfC16Channel(l)
		if err != nil {
			t.Errorf("c16cmd: %v", err)
			continue
		}
		sc, syncerWait := vfC16Cmd()
		sy, _ := syncer.VerifC16Syncer(ch, l.ids, true, true)
		sc.setSyncer("vf-addr", sy, syncerWait)
		lis, err := net.Listen("tcp", "127.0.0.1:0")
		if err != nil {
			t.Fatal(err)
		}
		gs := grpc.NewServer()
		pb.RegisterApiServiceServer(gs, sc)
		go gs.Serve(lis)
		// the follower holds [1000, 1040 + extra): more than the leader
		fl := l
		fl.bytes = append(append([]byte(nil), l.bytes...), data(1+i*7)...)
		fch, closeF, err := vfC16Channel(fl)
		if err != nil {
			t.Errorf("c16cmd: %v", err)
			continue
		}
		rf := syncer.NewReplicaFollower(1, "vf-addr", fch, &cluster.RoleInfo{Address: lis.Addr().String()})
		done := make(chan error, 1)
		go func() { done <- rf.Run() }()
		var runErr error
		select {
		case runErr = <-done:
		case <-time.After(vfC16Patience):
			runErr = errors.New("Run did not return")
			rf.Stop()
		}
		replay := map[string]interface{}{"leader": l.spec(), "follower_right": fl.base + int64(len(fl.bytes)), "run_error": fmt.Sprint(runErr)}
		s.Count("e2e_ahead")
		if !errors.Is(runErr, syncer.ErrLeaderTakeover) {
			s.Violate("ahead-not-offered", "an ahead follower's Run did not end with the take-over error: "+fmt.Sprint(runErr), replay)
		}
		// (Sync closes the wait before its handler returns, i.e. before the follower's Run — which pauses
		// 2 s on the role error — can have returned: no waiting needed here)
		if !syncerWait.IsClosed() || !errors.Is(syncerWait.Error(), syncer.ErrLeaderHandover) {
			s.Violate("handover-leader-keeps-running", "the leader answered HANDOVER but its syncer is not stopped", replay)
		}
		_, right := fch.GetOffsetRange("idA")
		if right != fl.base+int64(len(fl.bytes)) {
			s.Violate("ahead-overwritten", fmt.Sprintf("the ahead follower's cache ends at %d after the session", right), replay)
		}
		gs.Stop()
		sc.waitCloser.Close(nil)
		closeF()
		closeCh()
	}
	skips := s.Stats["skip_build_leader"]
	if skips*20 > len(leaders)*10 {
		t.Errorf("c16cmd harness: %d cases could not be built", skips)
	}
}
