//go:build verif

package cmd

// C17 - the stale-checkpoint gc BESIDE a failover relabel (harness C17gr; Props/C17GcRelabel.lean).
//
// SyncerCmd.gcStaleCheckpoint first polls the sources for their replication ids (`info replication`) and only then
// reads redis-gunyu-checkpoint-hash. Between the two the source may fail over and the running link relabel the position
// (PSYNC CONTINUE newId -> RedisOutput.SetRunId -> UpdateCheckpoint -> SetCheckpoint): the gc then meets a hash entry of
// an id that is NOT in its snapshot of live ids, and the only thing that protects that record is the time the relabel
// stored it with (`<id>_mtime` = time.Now() of SetCheckpoint, younger than staleCheckpointDuration).
//
// Everything is the real code: gcStaleCheckpoint (loopback source double, the target double behind a loopback listener),
// and - fired by the target double's Hook when the gc's `hgetall redis-gunyu-checkpoint-hash` arrives, i.e. after the
// poll and before the hash is read - the real RedisOutput.SetRunId(new id) of a RedisOutput built as the link's.
// The stored position is OLD (older than the stale duration in three cases of four, as a long-running link leaves it: the
// replay rewrites only the offset field), in 1-3 databases.
// Tie: the gc's requests after the relabel and the position after every prefix vs the model gcReqs on the dumped
// post-relabel state with live = the ids polled BEFORE the relabel (op c17g).
// Monitor gc-beside-relabel-loses-live-position: after the relabel the next start (ids [new, old]) read the position; after
// every request prefix of the gc pass it must still read a position not smaller in the same database.
// Monitor relabel-stores-stale-mtime: the record the relabel wrote carries an mtime older than the moment the relabel
// began (the model's cpEntries writes `now`): reported when the gc then deleted it.

import (
	"context"
	"fmt"
	"os"
	"strconv"
	"strings"
	"sync"
	"testing"
	"time"

	"github.com/mgtv-tech/redis-GunYu/config"
	"github.com/mgtv-tech/redis-GunYu/pkg/log"
	"github.com/mgtv-tech/redis-GunYu/pkg/redis/checkpoint"
	"github.com/mgtv-tech/redis-GunYu/pkg/vfdoubles"
	"github.com/mgtv-tech/redis-GunYu/pkg/vfutil"
	"github.com/mgtv-tech/redis-GunYu/syncer"
)

func vfGrParse(op string) (uint64, bool) {
	if !strings.HasPrefix(op, "c17grcase ") {
		return 0, false
	}
	for _, tok := range strings.Fields(op)[1:] {
		if strings.HasPrefix(tok, "seed=") {
			v, err := strconv.ParseUint(tok[5:], 10, 64)
			return v, err == nil
		}
	}
	return 0, false
}

func vfC17GcRelabel(t *testing.T, s *vfutil.Session, seed uint64, tag int, src string) {
	r := vfutil.NewRand(seed)
	id := func() string { return fmt.Sprintf("%x", r.Bytes(20)) }
	old, new, other := id(), id(), id()
	staleMin := []int{60, 720}[r.Intn(2)]
	stale := time.Duration(staleMin) * time.Minute
	top := int64(r.Range(1000, 900000))
	dbs := []int{[]int{0, 1, 2, 5}[r.Intn(4)]}
	for _, d := range []int{3, 9} {
		if r.Chance(1, 3) {
			dbs = append(dbs, d)
		}
	}
	now := time.Now()
	st := &checkpoint.VfState{}
	st.Hash = append(st.Hash, [2]string{old, config.CheckpointKey})
	var ages []int
	for i, d := range dbs {
		age := staleMin + 30 + r.Intn(600) // older than the stale duration
		if r.Chance(1, 4) {
			age = r.Intn(staleMin / 2)
		}
		if r.Chance(1, 8) {
			age = -1 // no _mtime field (what the replay path writes into a database it reaches first)
		}
		ages = append(ages, age)
		var fs [][2]string
		if age >= 0 {
			fs = append(fs, [2]string{old + checkpoint.CheckpointMtimeSuffix, strconv.FormatInt(now.Add(-time.Duration(age)*time.Minute).UnixNano(), 10)})
		}
		fs = append(fs, [2]string{old + checkpoint.CheckpointRunIdSuffix, old}, [2]string{old + checkpoint.CheckpointVersionSuffix, config.Version},
			[2]string{old + checkpoint.CheckpointOffsetSuffix, strconv.FormatInt(top-int64(i)*100, 10)})
		st.Items = append(st.Items, checkpoint.VfItem{Db: d, Key: config.CheckpointKey, Fields: fs})
	}
	caseOp := fmt.Sprintf("c17grcase seed=%d", seed)

	src1 := vfSrcListen(old, other)
	defer src1.ln.Close()
	in := vfStandalone(src1.ln.Addr().String())
	sc := config.GetSyncerConfig()
	oldIn, oldOut, oldCh := sc.Input, sc.Output, sc.Channel
	defer func() { sc.Input, sc.Output, sc.Channel = oldIn, oldOut, oldCh }()

	tg := vfdoubles.NewTarget()
	st.Seed(tg)
	seedLen := tg.LogLen()
	tln := vfTargetListen(tg)
	defer tln.Close()
	outCfg := vfStandalone(tln.Addr().String())
	sc.Input = &config.InputConfig{Redis: in}
	sc.Output = &config.OutputConfig{Redis: outCfg}
	sc.Channel = &config.ChannelConfig{Type: "memory", StaleCheckpointDuration: stale}

	// the running link of the same process
	link := syncer.NewRedisOutput(syncer.RedisOutputConfig{InputName: "vf", RunId: old, CheckpointName: config.CheckpointKey, Redis: *outCfg, EnableResumeFromBreakPoint: true})
	var mu sync.Mutex
	fired, gcConn, hgetallIdx, relabelEnd := false, -1, -1, -1
	var relabelErr error
	var relabelBegan time.Time
	// where the relabel lands: at the gc's read of the hash (two cases of three: the model's gc pass on the post-relabel
	// state is compared), or `late` requests of the gc's connection later - in the middle of its scan / its deletes
	// (sampled, monitors only: the pass then runs on pairs it read BEFORE the relabel)
	late := 0
	if r.Chance(1, 3) {
		late = r.Range(1, 10)
	}
	seenGc := 0
	tg.Hook = func(idx int, e vfdoubles.LogEntry) {
		mu.Lock()
		if fired {
			mu.Unlock()
			return
		}
		if gcConn < 0 {
			if e.Cmd() != "hgetall" || len(e.Args) < 2 || string(e.Args[1]) != config.CheckpointKeyHashKey {
				mu.Unlock()
				return
			}
			gcConn, hgetallIdx = e.Conn, idx
		} else if e.Conn == gcConn {
			seenGc++
		}
		if e.Conn != gcConn || seenGc < late {
			mu.Unlock()
			return
		}
		fired = true
		mu.Unlock()
		// the gc has polled the sources; before it reads the hash the source fails over and the link relabels
		relabelBegan = time.Now()
		err := link.SetRunId(context.Background(), new)
		mu.Lock()
		relabelErr = err
		relabelEnd = tg.LogLen()
		mu.Unlock()
	}
	before := time.Now().Add(-stale).UnixNano()
	(&SyncerCmd{logger: log.WithLogger("[vf] ")}).gcStaleCheckpoint(context.Background())
	tg.Hook = nil
	tg.CloseAll()
	logAll := tg.LogCopy()
	s.Count("gcrelabel_" + src)
	if late > 0 && !fired {
		s.Count("gcrelabel_late_point_beyond_pass")
		return
	}
	if !fired || relabelErr != nil || relabelEnd < 0 {
		s.Violate("C17gr:scenario-did-not-run", fmt.Sprintf("fired=%v relabel error=%v", fired, relabelErr), map[string]interface{}{"op": caseOp})
		return
	}
	if os.Getenv("VERIF_DEBUG") != "" {
		for i, e := range logAll[seedLen:] {
			fmt.Println("GRLOG", seedLen+i, e.Conn, e.DB, e.String())
		}
	}
	ids := []string{new, old}
	live := []string{old, other}
	afterRelabel := vfdoubles.Replay(logAll[:relabelEnd], 0)
	dump := checkpoint.VfDumpState(afterRelabel)
	first := checkpoint.VfNextStart(afterRelabel, config.CheckpointKey, ids)
	afterRelabel.CloseAll()
	want := fmt.Sprintf("%d@%d", top, dbs[0])
	if !vfPosGe(first, want) {
		s.Violate("C17gr:relabel-lost-position", fmt.Sprintf("position %s labelled %s..: after the real SetRunId(%s..) the next start reads %s", want, old[:6], new[:6], first), map[string]interface{}{"op": caseOp})
		return
	}
	// the gc's own requests after the relabel
	var ws []int
	var lines []string
	var orders []string
	for i := relabelEnd; i < len(logAll); i++ {
		e := logAll[i]
		if e.Conn != gcConn {
			continue
		}
		switch e.Cmd() {
		case "info":
			orders = append(orders, "")
		case "exists":
			if len(orders) > 0 {
				if orders[len(orders)-1] != "" {
					orders[len(orders)-1] += ","
				}
				orders[len(orders)-1] += strconv.Itoa(e.DB)
			}
		}
		if l, ok := checkpoint.VfRenderWrite(e); ok {
			ws = append(ws, i)
			lines = append(lines, l)
		}
	}
	for i := range orders {
		if orders[i] == "" {
			orders[i] = "."
		}
	}
	ord := "."
	if len(orders) > 0 {
		ord = strings.Join(orders, ";")
	}
	sp := []string{checkpoint.VfStartPoint(vfdoubles.Replay(logAll[:relabelEnd], 0), ids)}
	for _, w := range ws {
		sp = append(sp, checkpoint.VfStartPoint(vfdoubles.Replay(logAll[:w+1], 0), ids))
	}
	if late > 0 {
		s.Count("gcrelabel_relabel_inside_pass")
	} else {
		s.Count("gcrelabel_relabel_before_hash_read")
	}
	op := fmt.Sprintf("c17g %d %s %s %s %d %s %s", tag, vfutil.HexS(config.Version), checkpoint.VfHexList(ids), checkpoint.VfHexList(live), before, ord, dump.Encode())
	out := []string{fmt.Sprintf("#%d n=%d sp=%s", tag, len(lines), sp[0])}
	for i, l := range lines {
		out = append(out, fmt.Sprintf("#%d %s sp=%s", tag, l, sp[i+1]))
	}
	if late == 0 {
		s.Op(op, out...)
	}
	s.Add("gcrelabel_gc_requests", len(lines))
	if ages[0] > staleMin {
		s.Count("gcrelabel_stored_mtime_stale")
	} else if ages[0] < 0 {
		s.Count("gcrelabel_stored_without_mtime")
	} else {
		s.Count("gcrelabel_stored_mtime_young")
	}
	// the mtime the relabel stored
	newMtime := int64(-1)
	for _, it := range dump.Items {
		if it.Db == dbs[0] && it.Key == config.CheckpointKey {
			for _, fv := range it.Fields {
				if fv[0] == new+checkpoint.CheckpointMtimeSuffix {
					newMtime, _ = strconv.ParseInt(fv[1], 10, 64)
				}
			}
		}
	}
	detail := ""
	if newMtime < relabelBegan.UnixNano() {
		detail = fmt.Sprintf("; the record the relabel wrote carries _mtime %d, %s BEFORE the relabel began (SetCheckpoint is modelled to stamp the time of the write: cpEntries now)", newMtime, relabelBegan.Sub(time.Unix(0, newMtime)).Round(time.Second))
		s.Count("gcrelabel_relabel_mtime_not_fresh")
	}
	for k := 0; k <= len(ws); k++ {
		end := relabelEnd
		if k > 0 {
			end = ws[k-1] + 1
		}
		got := checkpoint.VfNextStart(vfdoubles.Replay(logAll[:end], 0), config.CheckpointKey, ids)
		if !vfPosGe(got, first) {
			s.Violate("gc-beside-relabel-loses-live-position", fmt.Sprintf("position %s labelled %s.. (stored %d min ago, staleCheckpointDuration %d min, databases %v); gcStaleCheckpoint polled the source (ids %s.. / %s..), then the source failed over and the link's real SetRunId(%s..) relabelled the position (hash read by the gc only afterwards, request #%d): the next start (ids [%s.., %s..]) read %s after the relabel and reads %s after gc request #%d (%s)%s",
				want, old[:6], ages[0], staleMin, dbs, old[:6], other[:6], new[:6], hgetallIdx, new[:6], old[:6], first, got, k, lines[k-1], detail),
				map[string]interface{}{"op": caseOp, "before": first, "after": got, "crash_after_request": k})
			break
		}
		s.Count("gcrelabel_next_start_checked")
	}
	s.Distinct(fmt.Sprintf("gr|%d|%d|%v|%d", len(dbs), len(lines), ages[0] > staleMin, dbs[0]))
}

func TestVerifC17GcRelabel(t *testing.T) {
	s := vfutil.NewSession("C17gr")
	defer s.Close()
	r := vfutil.NewRand(vfutil.Seed() ^ 0x6772)
	tag := 0
	if rp := os.Getenv("VERIF_REPLAY"); rp != "" {
		b, _ := os.ReadFile(rp)
		op := string(b)
		if i := strings.Index(op, "c17grcase "); i >= 0 {
			op = op[i:]
			if j := strings.IndexAny(op, "\"\n"); j >= 0 {
				op = op[:j]
			}
			if seed, ok := vfGrParse(op); ok {
				vfC17GcRelabel(t, s, seed, tag, "replay")
			}
		}
		return
	}
	for _, l := range vfutil.Corpus("C17") {
		if seed, ok := vfGrParse(l); ok {
			vfC17GcRelabel(t, s, seed, tag, "corpus")
			tag++
		}
	}
	for i, n := 0, vfutil.Scale(40, 600); i < n; i++ {
		vfC17GcRelabel(t, s, r.U64(), tag, "gen")
		tag++
	}
}
