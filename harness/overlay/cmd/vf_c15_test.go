//go:build verif

package cmd

// C15, the part that lives in cmd/syncer.go, executed for real:
//
//   * contend/ident: two hosts' configurations go through the real
//     config.InitSyncerConfig (whole-config fix) and the real
//     (*SyncerCmd).runCluster, which derives election key and id and campaigns
//     through the real redis election against the lease-store double. Monitor:
//     two different hosts must never both be told leader for the same source
//     at the same instant (this is where the election identity comes from).
//   * ticker: the real (*SyncerCmd).clusterTicker under testing/synctest with a
//     scripted Election; calls, their instants and when/how the syncer's wait
//     is closed are compared with the Lean model (tickerRun). Monitors: a
//     renewal that failed (after the retry) must close the wait before the
//     next tick; a follower that wins must close the wait.
//   * a probe measuring whether Renew honours its context deadline when the
//     lease store stalls (recorded, see the property's assumptions).

import (
	"context"
	"encoding/json"
	"errors"
	"fmt"
	"net"
	"os"
	"path/filepath"
	"strings"
	"sync"
	"testing"
	"testing/synctest"
	"time"

	"github.com/mgtv-tech/redis-GunYu/config"
	"github.com/mgtv-tech/redis-GunYu/pkg/cluster"
	usync "github.com/mgtv-tech/redis-GunYu/pkg/sync"
	"github.com/mgtv-tech/redis-GunYu/pkg/vfutil"
	"github.com/mgtv-tech/redis-GunYu/syncer"
)

// ------------------------------------------------------------ recording Cluster / Election

type vfC15Cluster struct {
	inner cluster.Cluster
	mu    sync.Mutex
	keys  []string
	ids   []string
	after func(role cluster.ClusterRole, err error) // called after the first Campaign
	roles []cluster.ClusterRole
	errs  []error
}

func (c *vfC15Cluster) Close() error { return c.inner.Close() }
func (c *vfC15Cluster) Register(ctx context.Context, s, i string) error {
	return c.inner.Register(ctx, s, i)
}
func (c *vfC15Cluster) Discover(ctx context.Context, s string) ([]string, error) {
	return c.inner.Discover(ctx, s)
}
func (c *vfC15Cluster) NewElection(ctx context.Context, key, id string) cluster.Election {
	c.mu.Lock()
	c.keys = append(c.keys, key)
	c.ids = append(c.ids, id)
	c.mu.Unlock()
	return &vfC15Election{c: c, inner: c.inner.NewElection(ctx, key, id)}
}

type vfC15Election struct {
	c     *vfC15Cluster
	inner cluster.Election
}

func (e *vfC15Election) Renew(ctx context.Context) error { return e.inner.Renew(ctx) }
func (e *vfC15Election) Leader(ctx context.Context) (*cluster.RoleInfo, error) {
	return e.inner.Leader(ctx)
}
func (e *vfC15Election) Resign(ctx context.Context) error { return e.inner.Resign(ctx) }
func (e *vfC15Election) Campaign(ctx context.Context) (cluster.ClusterRole, error) {
	role, err := e.inner.Campaign(ctx)
	e.c.mu.Lock()
	e.c.roles = append(e.c.roles, role)
	e.c.errs = append(e.c.errs, err)
	first := len(e.c.roles) == 1
	e.c.mu.Unlock()
	if first && e.c.after != nil {
		e.c.after(role, err)
	}
	return role, err
}

// ------------------------------------------------------------ one host

type vfC15Host struct {
	listen string // "" = not configured
	peer   string
}

func (h vfC15Host) yaml(store string, clusterMode bool) string {
	var sb strings.Builder
	if h.listen != "" || h.peer != "" {
		sb.WriteString("server:\n")
		if h.listen != "" {
			fmt.Fprintf(&sb, "  listen: %s\n", h.listen)
		}
		if h.peer != "" {
			fmt.Fprintf(&sb, "  listenPeer: %s\n", h.peer)
		}
	}
	fmt.Fprintf(&sb, "input:\n  redis:\n    addresses: [%s]\n", store)
	sb.WriteString("output:\n  redis:\n    addresses: [127.0.0.1:1]\n")
	sb.WriteString("channel:\n  type: memory\n")
	sb.WriteString("log:\n  level: error\n")
	if clusterMode {
		sb.WriteString("cluster:\n  groupName: g1\n  leaseTimeout: 3s\n")
	}
	return sb.String()
}

type vfC15HostRun struct {
	accepted bool
	cfgErr   string
	peer     string // Server.ListenPeer after fix
	id       string // what runCluster passed to NewElection
	key      string
	role     cluster.ClusterRole
	err      error
	ran      bool // runCluster reached a campaign
}

func vfC15Unspec(addr string) bool {
	host, _, err := net.SplitHostPort(addr)
	if err != nil || host == "" {
		return true
	}
	ip := net.ParseIP(host)
	return ip != nil && ip.IsUnspecified()
}

// runHost loads the host's configuration with the real whole-config fix and,
// in cluster mode, runs the real runCluster until its first campaign returned.
func vfC15RunHost(t *testing.T, st *cluster.VerifLeaseStore, dir string, h vfC15Host, clusterMode bool) vfC15HostRun {
	var r vfC15HostRun
	*config.GetSyncerConfig() = config.SyncConfig{}
	path := filepath.Join(dir, "cfg.yaml")
	if err := os.WriteFile(path, []byte(h.yaml(st.Addr(), clusterMode)), 0o644); err != nil {
		t.Fatal(err)
	}
	if err := config.InitSyncerConfig(path); err != nil {
		r.cfgErr = err.Error()
		return r
	}
	r.accepted = true
	sc := config.GetSyncerConfig()
	r.peer = sc.Server.ListenPeer
	if sc.Cluster == nil {
		return r
	}
	// cmd/syncer.go run(): ttl := int(LeaseTimeout / time.Second); NewRedisCluster(ctx, *Input.Redis, ttl)
	runWait := usync.NewWaitCloser(nil)
	ttl := int(sc.Cluster.LeaseTimeout / time.Second)
	inner, err := cluster.NewRedisCluster(runWait.Context(), *sc.Input.Redis, ttl)
	if err != nil {
		t.Fatalf("NewRedisCluster: %v", err)
	}
	rec := &vfC15Cluster{inner: inner}
	rec.after = func(role cluster.ClusterRole, err error) { runWait.Close(nil) }
	in := *sc.Input.Redis
	in.SetClusterShards([]*config.RedisClusterShard{{Master: config.RedisNode{Address: in.Address()}}})
	cmd := NewSyncerCmd()
	cmd.runCluster(runWait, rec, []syncer.SyncerConfig{{Input: in, Output: *sc.Output.Redis, Channel: *sc.Channel}})
	done := make(chan struct{})
	go func() { runWait.WgWait(); close(done) }()
	select {
	case <-done:
	case <-time.After(20 * time.Second):
		t.Fatalf("runCluster did not return")
	}
	inner.Close()
	rec.mu.Lock()
	defer rec.mu.Unlock()
	if len(rec.ids) > 0 {
		r.id, r.key = rec.ids[0], rec.keys[0]
	}
	if len(rec.roles) > 0 {
		r.ran, r.role, r.err = true, rec.roles[0], rec.errs[0]
	}
	return r
}

// ------------------------------------------------------------ scripted election for the ticker

type vfC15Fake struct {
	mu     sync.Mutex
	start  time.Time
	script []string
	pos    int
	calls  []int64 // ms since start
	kinds  []string
	fails  []bool
}

func (f *vfC15Fake) next(dflt string) string {
	if f.pos < len(f.script) {
		f.pos++
		return f.script[f.pos-1]
	}
	return dflt
}

func (f *vfC15Fake) rec(kind string) {
	f.calls = append(f.calls, time.Since(f.start).Milliseconds())
	f.kinds = append(f.kinds, kind)
}

func (f *vfC15Fake) Renew(ctx context.Context) error {
	f.mu.Lock()
	defer f.mu.Unlock()
	f.rec("r")
	var err error
	switch f.next("ok") {
	case "nl", "fl":
		err = cluster.ErrNotLeader
	case "err":
		err = errors.New("connection reset")
	}
	f.fails = append(f.fails, err != nil)
	return err
}

func (f *vfC15Fake) Campaign(ctx context.Context) (cluster.ClusterRole, error) {
	f.mu.Lock()
	defer f.mu.Unlock()
	f.rec("c")
	switch f.next("fl") {
	case "ld", "ok":
		f.fails = append(f.fails, false)
		return cluster.RoleLeader, nil
	case "err":
		f.fails = append(f.fails, true)
		return cluster.RoleCandidate, errors.New("connection reset")
	}
	f.fails = append(f.fails, false)
	return cluster.RoleFollower, nil
}

func (f *vfC15Fake) Leader(ctx context.Context) (*cluster.RoleInfo, error) {
	return nil, cluster.ErrNoLeader
}
func (f *vfC15Fake) Resign(ctx context.Context) error { return nil }

func vfC15ErrClass(err error) string {
	switch {
	case err == nil:
		return "ok"
	case errors.Is(err, cluster.ErrNotLeader):
		return "err-notleader"
	}
	return "err-other"
}

// ------------------------------------------------------------ test

func TestVerifC15Cmd(t *testing.T) {
	s := vfutil.NewSession("C15cmd")
	defer s.Close()
	r := vfutil.NewRand(vfutil.Seed())
	idx := 0
	dir := t.TempDir()

	st, err := cluster.VerifNewLeaseStore()
	if err != nil {
		t.Fatal(err)
	}
	defer st.Close()

	// ---- election identity: every pair of host configurations
	type pair struct{ a, b vfC15Host }
	listens := func(h int) []string {
		// explicitly configured addresses are host specific (two hosts that are
		// explicitly given the same address are an operator error outside the claim)
		return []string{"", fmt.Sprintf("10.0.0.%d:18001", h+1), "0.0.0.0:18001", fmt.Sprintf("127.0.0.1:1800%d", h+1), ":18001"}
	}
	peers := func(h int) []string { return []string{"", fmt.Sprintf("10.0.0.%d:18002", h+1), "0.0.0.0:18002"} }
	var hostsA, hostsB []vfC15Host
	for _, l := range listens(0) {
		for _, p := range peers(0) {
			hostsA = append(hostsA, vfC15Host{l, p})
		}
	}
	for _, l := range listens(1) {
		for _, p := range peers(1) {
			hostsB = append(hostsB, vfC15Host{l, p})
		}
	}
	ident := func(h vfC15Host, clusterMode bool, run vfC15HostRun) {
		cl := 0
		if clusterMode {
			cl = 1
		}
		unspec := 0
		if vfC15Unspec(run.peerOrDerived(h)) {
			unspec = 1
		}
		out := "refused"
		if run.accepted {
			id := run.peer
			if clusterMode && run.ran {
				id = run.id
			}
			out = "id=" + vfutil.HexS(id)
		}
		s.Op(fmt.Sprintf("ident %d %d %s %s %d", idx, cl, vfutil.HexS(h.listen), vfutil.HexS(h.peer), unspec), fmt.Sprintf("#%d %s", idx, out))
		idx++
	}
	// replay of a recorded violation: only that pair of hosts / that ticker script
	var replayPair *pair
	replayTicker := ""
	if p := os.Getenv("VERIF_REPLAY"); p != "" {
		var rec struct {
			Replay map[string]interface{} `json:"replay"`
		}
		if b, err := os.ReadFile(p); err == nil && json.Unmarshal(b, &rec) == nil {
			ha, okA := rec.Replay["hostA"].(map[string]interface{})
			hb, okB := rec.Replay["hostB"].(map[string]interface{})
			if okA && okB {
				str := func(m map[string]interface{}, k string) string { v, _ := m[k].(string); return v }
				replayPair = &pair{vfC15Host{str(ha, "server.listen"), str(ha, "server.listenPeer")},
					vfC15Host{str(hb, "server.listen"), str(hb, "server.listenPeer")}}
			}
			if op, ok := rec.Replay["ticker"].(string); ok {
				replayTicker = op
			}
			if !okA && replayTicker == "" {
				return // a replay for another C15 harness
			}
		}
	}
	if replayPair != nil || replayTicker != "" {
		hostsA, hostsB = nil, nil
	}
	for _, clusterMode := range []bool{true, false} {
		for _, h := range hostsA {
			st.VerifReset(1000)
			ident(h, clusterMode, vfC15RunHost(t, st, dir, h, clusterMode))
		}
	}
	var pairs []pair
	if replayPair != nil {
		pairs = append(pairs, *replayPair)
	}
	for _, l := range vfutil.Corpus("C15") { // witnesses first
		if replayPair != nil || replayTicker != "" {
			break
		}
		f := strings.Fields(l)
		if len(f) == 5 && f[0] == "contend" {
			pairs = append(pairs, pair{vfC15Host{string(vfutil.UnHex(f[1])), string(vfutil.UnHex(f[2]))},
				vfC15Host{string(vfutil.UnHex(f[3])), string(vfutil.UnHex(f[4]))}})
		}
	}
	for _, a := range hostsA {
		for _, b := range hostsB {
			pairs = append(pairs, pair{a, b})
		}
	}
	{
		for _, pr := range pairs {
			a, b := pr.a, pr.b
			st.VerifReset(1000)
			ra := vfC15RunHost(t, st, dir, a, true)
			rb := vfC15RunHost(t, st, dir, b, true) // same instant on the store's clock: a's lease is unexpired
			replay := map[string]interface{}{
				"hostA": map[string]string{"server.listen": a.listen, "server.listenPeer": a.peer},
				"hostB": map[string]string{"server.listen": b.listen, "server.listenPeer": b.peer},
				"cluster": "groupName g1, leaseTimeout 3s", "idA": ra.id, "idB": rb.id, "key": ra.key,
			}
			s.Op(fmt.Sprintf("contend %d %s %s %s %s", idx, vfutil.HexS(a.listen), vfutil.HexS(a.peer), vfutil.HexS(b.listen), vfutil.HexS(b.peer)))
			idx++
			switch {
			case !ra.accepted || !rb.accepted:
				s.Count("contend_config_refused")
			case !ra.ran || !rb.ran:
				s.Violate("runcluster-did-not-campaign", "runCluster returned without campaigning", replay)
			default:
				s.Count("contend_both_campaigned")
				s.Distinct(fmt.Sprintf("%v|%v", a, b))
				aLead := ra.err == nil && ra.role == cluster.RoleLeader
				bLead := rb.err == nil && rb.role == cluster.RoleLeader
				if ra.key == rb.key && aLead && bLead {
					s.Violate("two-hosts-told-leader",
						fmt.Sprintf("host A (listen=%q listenPeer=%q) and host B (listen=%q listenPeer=%q) both campaigned for %q and were both told leader at the same instant; election ids %q / %q",
							a.listen, a.peer, b.listen, b.peer, ra.key, ra.id, rb.id), replay)
				}
				if ra.key != rb.key {
					s.Violate("election-key-differs", fmt.Sprintf("same source, keys %q / %q", ra.key, rb.key), replay)
				}
				if !aLead {
					s.Violate("first-campaign-on-free-key-refused", fmt.Sprintf("role=%v err=%v", ra.role, ra.err), replay)
				}
			}
		}
	}

	// ---- Renew vs its context deadline when the lease store stalls (recorded only)
	if replayPair == nil && replayTicker == "" {
		st.VerifReset(1000)
		cl, err := cluster.NewRedisCluster(context.Background(), config.RedisConfig{Addresses: []string{st.Addr()}, Type: config.RedisTypeStandalone}, 3)
		if err != nil {
			t.Fatal(err)
		}
		el := cl.NewElection(context.Background(), "probe", "p")
		el.Campaign(context.Background())
		st.VerifHoldNext()
		ctx, cancel := context.WithTimeout(context.Background(), 50*time.Millisecond)
		done := make(chan error, 1)
		go func() { done <- el.Renew(ctx) }()
		<-st.VerifHeld()
		select {
		case <-done:
			s.Count("renew_returns_at_ctx_deadline")
		case <-time.After(300 * time.Millisecond):
			s.Count("renew_ignores_ctx_deadline")
		}
		cancel()
		st.VerifRelease()
		<-done
		cl.Close()
	}

	// ---- clusterTicker with a scripted election, virtual time
	tick := func(leader bool, R time.Duration, n int, script []string, src string) {
		*config.GetSyncerConfig() = config.SyncConfig{Cluster: &config.ClusterConfig{GroupName: "g1", LeaseTimeout: 3 * R, LeaseRenewInterval: R}}
		fake := &vfC15Fake{script: script}
		var closedAt int64 = -1
		var closedErr error
		synctest.Test(t, func(t *testing.T) {
			fake.start = time.Now()
			cmd := NewSyncerCmd()
			wait := usync.NewWaitCloser(nil)
			role := cluster.RoleFollower
			if leader {
				role = cluster.RoleLeader
			}
			fin := make(chan struct{})
			go func() {
				cmd.clusterTicker(wait, role, fake, "in", "key")
				close(fin)
			}()
			forced := false
			go func() {
				<-wait.Context().Done()
				if !forced {
					closedAt = time.Since(fake.start).Milliseconds()
					closedErr = wait.Error()
				}
			}()
			time.Sleep(time.Duration(n)*R + R/2)
			synctest.Wait()
			if !wait.IsClosed() {
				forced = true
				wait.Close(nil)
			}
			<-fin
			synctest.Wait()
		})
		sc := "."
		if len(script) > 0 {
			sc = strings.Join(script, ",")
		}
		role := "F"
		if leader {
			role = "L"
		}
		op := fmt.Sprintf("ticker %d %s %d %d %s", idx, role, R.Milliseconds(), n, sc)
		replay := map[string]interface{}{"ticker": op}
		calls := "."
		if len(fake.calls) > 0 {
			p := make([]string, len(fake.calls))
			for i, c := range fake.calls {
				p[i] = fmt.Sprint(c)
			}
			calls = strings.Join(p, ",")
		}
		closed := "never"
		if closedAt >= 0 {
			closed = fmt.Sprintf("%d:%s", closedAt, vfC15ErrClass(closedErr))
		}
		s.Op(op, fmt.Sprintf("#%d calls=%s closed=%s", idx, calls, closed))
		idx++
		s.Count("ticker_" + src)
		// monitors (independent of Lean): group the calls by instant = by tick
		for i := 0; i < len(fake.calls); {
			j := i
			allFail := true
			for j < len(fake.calls) && fake.calls[j] == fake.calls[i] {
				allFail = allFail && fake.fails[j]
				j++
			}
			tickAt := fake.calls[i]
			if leader && allFail {
				s.Count("ticker_renew_failed")
				if closedAt < 0 || closedAt > tickAt || closedErr == nil {
					s.Violate("failed-renewal-not-acted-on", fmt.Sprintf("every renewal attempt of the tick at %d ms failed, but the syncer's wait was closed=%s (the instance keeps leading)", tickAt, closed), replay)
				}
				if j < len(fake.calls) {
					s.Violate("failed-renewal-not-acted-on", fmt.Sprintf("renewal failed at %d ms, yet the ticker called the election again at %d ms", tickAt, fake.calls[j]), replay)
				}
			}
			if !leader && fake.kinds[i] == "c" && !fake.fails[i] && i < len(script) && (script[i] == "ld" || script[i] == "ok") {
				s.Count("ticker_follower_won")
				if closedAt != tickAt || closedErr != nil {
					s.Violate("follower-win-not-acted-on", fmt.Sprintf("campaign won at %d ms but wait closed=%s", tickAt, closed), replay)
				}
			}
			if i > 0 && tickAt-fake.calls[i-1] != R.Milliseconds() {
				s.Violate("ticker-period", fmt.Sprintf("calls at %d and %d ms, LeaseRenewInterval=%v", fake.calls[i-1], tickAt, R), replay)
			}
			i = j
		}
		if len(fake.calls) > 0 && fake.calls[0] != R.Milliseconds() {
			s.Violate("ticker-period", fmt.Sprintf("first call at %d ms, LeaseRenewInterval=%v", fake.calls[0], R), replay)
		}
	}
	if replayTicker != "" {
		f := strings.Fields(replayTicker)
		if len(f) == 6 {
			var rms, n int
			fmt.Sscan(f[3], &rms)
			fmt.Sscan(f[4], &n)
			var sc []string
			if f[5] != "." {
				sc = strings.Split(f[5], ",")
			}
			tick(f[2] == "L", time.Duration(rms)*time.Millisecond, n, sc, "replay")
		}
		return
	}
	if replayPair != nil {
		return
	}
	// all scripts of length <= 4 (quick) / 6 (thorough)
	for _, leader := range []bool{true, false} {
		alpha := []string{"ok", "nl", "err"}
		if !leader {
			alpha = []string{"fl", "ld", "err"}
		}
		maxLen := vfutil.Scale(4, 6)
		var rec func(p []string)
		rec = func(p []string) {
			tick(leader, time.Second, len(p)+2, append([]string{}, p...), "exhaustive")
			if len(p) == maxLen {
				return
			}
			for _, a := range alpha {
				rec(append(p, a))
			}
		}
		rec(nil)
	}
	for i := 0; i < vfutil.Scale(300, 5000); i++ {
		leader := r.Bool()
		alpha := []string{"ok", "ok", "ok", "nl", "err"}
		if !leader {
			alpha = []string{"fl", "fl", "fl", "ld", "err"}
		}
		n := r.Intn(12)
		sc := make([]string, n)
		for j := range sc {
			sc[j] = vfutil.Pick(r, alpha)
		}
		R := time.Duration(r.Range(1000, 200000)) * time.Millisecond
		tick(leader, R, r.Range(1, n+2), sc, "gen")
	}
}

// peerOrDerived is the peer address the configuration resolves to (for the
// `unspec` flag of the ident op, computed without the code under test).
func (run vfC15HostRun) peerOrDerived(h vfC15Host) string {
	switch {
	case h.peer != "":
		return h.peer
	case h.listen != "":
		return h.listen
	}
	return "127.0.0.1:18001"
}
