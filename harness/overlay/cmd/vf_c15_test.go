//go:build verif

package cmd

// C15, the part that lives in cmd/syncer.go, executed for real:
//
//   * contend/ident/leasettl: hosts' configurations go through the real
//     config.InitSyncerConfig (whole-config fix), the real fixConfig and the
//     REAL (*SyncerCmd).run(): it builds the lease-store client with its own
//     ttl, registers, and runCluster derives election key and id and campaigns
//     through the real redis election against the lease-store double (which
//     holds the reply of that first EVAL while the harness reads the store
//     and closes the run). Monitors: two different hosts must never both be
//     told leader for the same source at the same instant; the lease written
//     to the store must outlast the renew period the ticker uses.
//   * ticker: the real (*SyncerCmd).clusterTicker (with the real clusterRenew /
//     clusterCampaign) under testing/synctest with a scripted Election; calls,
//     their instants and when/how the syncer's wait is closed are compared
//     with the Lean model (tickerRun) — exact values live in that diff only.
//     Monitor (what C15 needs, nothing more): while the wait is open, the
//     instance is never more than one ttl past its last successful renewal.
//   * shared: one instance's client shared by two elections used concurrently
//     while a reply is stalled: every caller gets the answer for ITS key.
//   * a probe measuring whether Renew honours its context deadline when the
//     lease store stalls (recorded, see the property's assumptions).

import (
	"context"
	"encoding/json"
	"errors"
	"fmt"
	"os"
	"path/filepath"
	"strings"
	"sync"
	"testing"
	"testing/synctest"
	"time"

	"github.com/mgtv-tech/redis-GunYu/config"
	"github.com/mgtv-tech/redis-GunYu/pkg/cluster"
	usync "github.com/mgtv-tech/redis-GunYu/pkg/sync"
	"github.com/mgtv-tech/redis-GunYu/pkg/vfutil"
)

// ------------------------------------------------------------ one host

type vfC15Host struct {
	listen string // "" = not configured
	peer   string
}

func (h vfC15Host) yaml(store string, clusterMode bool, extra string) string {
	var sb strings.Builder
	if h.listen != "" || h.peer != "" {
		sb.WriteString("server:\n")
		if h.listen != "" {
			fmt.Fprintf(&sb, "  listen: \"%s\"\n", h.listen)
		}
		if h.peer != "" {
			fmt.Fprintf(&sb, "  listenPeer: \"%s\"\n", h.peer)
		}
	}
	fmt.Fprintf(&sb, "input:\n  redis:\n    addresses: [%s]\n", store)
	fmt.Fprintf(&sb, "output:\n  redis:\n    addresses: [%s]\n", store)
	sb.WriteString("channel:\n  type: memory\n")
	sb.WriteString("log:\n  level: error\n")
	if clusterMode {
		sb.WriteString("cluster:\n  groupName: g1\n")
		if extra == "" {
			extra = "  leaseTimeout: 3s\n"
		}
		sb.WriteString(extra)
	}
	return sb.String()
}

type vfC15HostRun struct {
	accepted bool
	cfgErr   string
	peer     string // Server.ListenPeer after fix
	ran      bool   // run() reached its first campaign
	key      string // KEYS[1] of that campaign
	id       string // ARGV[1]
	leader   bool   // the script answered 1 (the glue turns exactly that into RoleLeader: pkg/cluster harness)
	ttlMs    int64  // lifetime of the lease as written to the store
	renew    time.Duration
}

// runHost loads the host's configuration with the real whole-config fix and,
// in cluster mode, runs the REAL fixConfig + run() until the reply of its
// first campaign, which the lease store holds while the run is closed.
func vfC15RunHost(t *testing.T, st *cluster.VerifLeaseStore, dir string, yaml string) vfC15HostRun {
	var r vfC15HostRun
	*config.GetSyncerConfig() = config.SyncConfig{}
	path := filepath.Join(dir, "cfg.yaml")
	if err := os.WriteFile(path, []byte(yaml), 0o644); err != nil {
		t.Fatal(err)
	}
	if err := config.InitSyncerConfig(path); err != nil {
		r.cfgErr = err.Error()
		return r
	}
	r.accepted = true
	sc := config.GetSyncerConfig()
	r.peer = sc.Server.ListenPeer
	if sc.Cluster == nil {
		return r
	}
	r.renew = sc.Cluster.LeaseRenewInterval
	cmd := NewSyncerCmd()
	if err := cmd.fixConfig(); err != nil {
		t.Fatalf("fixConfig: %v", err)
	}
	evalsBefore := st.VerifEvals()
	held, release := st.VerifHoldEvalReply()
	done := make(chan error, 1)
	go func() { done <- cmd.run() }()
	select {
	case <-held:
		keys, argv, reply, ok := st.VerifLastEval()
		if len(keys) == 1 && len(argv) >= 1 {
			r.ran, r.key, r.id = true, keys[0], argv[0]
			r.leader = ok && reply == 1
			if _, exp, live := st.VerifLive(r.key); live {
				r.ttlMs = exp - st.VerifNow()
			}
		}
		cmd.getRunWait().Close(nil)
		release()
		select {
		case <-done:
		case <-time.After(20 * time.Second):
			t.Fatalf("run() did not return after its run scope was closed")
		}
	case err := <-done:
		release()
		if st.VerifEvals() != evalsBefore {
			t.Fatalf("run() returned (%v) although a campaign was in flight", err)
		}
	case <-time.After(20 * time.Second):
		t.Fatalf("run() neither campaigned nor returned")
	}
	return r
}

// ------------------------------------------------------------ scripted election for the ticker

type vfC15Fake struct {
	nOver   int           // number of calls when the scenario was wound up (-1: not yet)
	release chan struct{} // closed at the end of a scenario: blocked calls return then
	mu     sync.Mutex
	start  time.Time
	script []string
	pos    int
	calls  []int64 // ms since start
	kinds  []string
	fails  []bool
}

func (f *vfC15Fake) next(dflt string) string {
	if f.pos < len(f.script) {
		f.pos++
		return f.script[f.pos-1]
	}
	return dflt
}

func (f *vfC15Fake) rec(kind string) {
	f.calls = append(f.calls, time.Since(f.start).Milliseconds())
	f.kinds = append(f.kinds, kind)
}

// block: the call does not return (and, like redisElection.Campaign, does not
// look at its context: see the renew_ignores_ctx_deadline probe) until the
// scenario is over.
func (f *vfC15Fake) block() {
	f.fails = append(f.fails, true)
	f.mu.Unlock()
	<-f.release
	f.mu.Lock()
}

func (f *vfC15Fake) Renew(ctx context.Context) error {
	f.mu.Lock()
	defer f.mu.Unlock()
	f.rec("r")
	var err error
	a := f.next("ok")
	if a == "blk" {
		f.block()
		return errors.New("connection reset (after blocking)")
	}
	switch a {
	case "nl", "fl":
		err = cluster.ErrNotLeader
	case "err":
		err = errors.New("connection reset")
	}
	f.fails = append(f.fails, err != nil)
	return err
}

func (f *vfC15Fake) Campaign(ctx context.Context) (cluster.ClusterRole, error) {
	f.mu.Lock()
	defer f.mu.Unlock()
	f.rec("c")
	a := f.next("fl")
	if a == "blk" {
		f.block()
		return cluster.RoleCandidate, errors.New("connection reset (after blocking)")
	}
	switch a {
	case "ld", "ok":
		f.fails = append(f.fails, false)
		return cluster.RoleLeader, nil
	case "err":
		f.fails = append(f.fails, true)
		return cluster.RoleCandidate, errors.New("connection reset")
	}
	f.fails = append(f.fails, false)
	return cluster.RoleFollower, nil
}

func (f *vfC15Fake) Leader(ctx context.Context) (*cluster.RoleInfo, error) {
	return nil, cluster.ErrNoLeader
}
func (f *vfC15Fake) Resign(ctx context.Context) error { return nil }

func vfC15ErrClass(err error) string {
	switch {
	case err == nil:
		return "ok"
	case errors.Is(err, cluster.ErrNotLeader):
		return "err-notleader"
	}
	return "err-other"
}

// ------------------------------------------------------------ test

func TestVerifC15Cmd(t *testing.T) {
	s := vfutil.NewSession("C15cmd")
	defer s.Close()
	r := vfutil.NewRand(vfutil.Seed())
	idx := 0
	dir := t.TempDir()

	st, err := cluster.VerifNewLeaseStore()
	if err != nil {
		t.Fatal(err)
	}
	defer st.Close()

	// ---- election identity: every pair of host configurations
	type pair struct{ a, b vfC15Host }
	listens := func(h int) []string {
		// explicitly configured strings are host specific: the election id IS the
		// configured peer string, two hosts given the same string (say both
		// `localhost:18001`) are one contender — an assumption of the property,
		// not something a configuration check can see.
		return []string{"", fmt.Sprintf("10.0.0.%d:18001", h+1), "0.0.0.0:18001", fmt.Sprintf("127.0.0.1:1800%d", h+1), ":18001",
			fmt.Sprintf("localhost:1800%d", h+1)}
	}
	peers := func(h int) []string {
		return []string{"", fmt.Sprintf("10.0.0.%d:18002", h+1), "0.0.0.0:18002", fmt.Sprintf("gunyu-%d.internal:18002", h+1), "[::]:18002"}
	}
	var hostsA, hostsB []vfC15Host
	for _, l := range listens(0) {
		for _, p := range peers(0) {
			hostsA = append(hostsA, vfC15Host{l, p})
		}
	}
	for _, l := range listens(1) {
		for _, p := range peers(1) {
			hostsB = append(hostsB, vfC15Host{l, p})
		}
	}
	ident := func(h vfC15Host, clusterMode bool, run vfC15HostRun) {
		cl := 0
		if clusterMode {
			cl = 1
		}
		out := "refused"
		if run.accepted {
			id := run.peer
			if clusterMode && run.ran {
				id = run.id
			}
			out = "id=" + vfutil.HexS(id)
		}
		s.Op(fmt.Sprintf("ident %d %d %s %s", idx, cl, vfutil.HexS(h.listen), vfutil.HexS(h.peer)), fmt.Sprintf("#%d %s", idx, out))
		idx++
	}
	// replay of a recorded violation: only that pair of hosts / ticker script / lease configuration
	var replayPair *pair
	replayTicker, replayYaml := "", ""
	var replaySrc []int
	if p := os.Getenv("VERIF_REPLAY"); p != "" {
		var rec struct {
			Replay map[string]interface{} `json:"replay"`
		}
		if b, err := os.ReadFile(p); err == nil && json.Unmarshal(b, &rec) == nil {
			ha, okA := rec.Replay["hostA"].(map[string]interface{})
			hb, okB := rec.Replay["hostB"].(map[string]interface{})
			if okA && okB {
				str := func(m map[string]interface{}, k string) string { v, _ := m[k].(string); return v }
				replayPair = &pair{vfC15Host{str(ha, "server.listen"), str(ha, "server.listenPeer")},
					vfC15Host{str(hb, "server.listen"), str(hb, "server.listenPeer")}}
			}
			if op, ok := rec.Replay["ticker"].(string); ok {
				replayTicker = op
			}
			if v, ok := rec.Replay["contendsrc"].([]interface{}); ok && len(v) == 2 {
				a, _ := v[0].(float64)
				b, _ := v[1].(float64)
				replaySrc = []int{int(a), int(b)}
			}
			if y, ok := rec.Replay["cluster_yaml"].(string); ok {
				replayYaml = y
			}
			if replayPair == nil && replayTicker == "" && replayYaml == "" && replaySrc == nil {
				return // a replay for another C15 harness
			}
		}
	}
	replaying := replayPair != nil || replayTicker != "" || replayYaml != "" || replaySrc != nil
	if replaying {
		hostsA, hostsB = nil, nil
	}
	for _, clusterMode := range []bool{true, false} {
		for _, h := range hostsA {
			st.VerifReset(1000)
			ident(h, clusterMode, vfC15RunHost(t, st, dir, h.yaml(st.Addr(), clusterMode, "")))
		}
	}
	var pairs []pair
	if replayPair != nil {
		pairs = append(pairs, *replayPair)
	}
	if !replaying {
		for _, l := range vfutil.Corpus("C15") { // witnesses first
			f := strings.Fields(l)
			if len(f) == 5 && f[0] == "contend" {
				pairs = append(pairs, pair{vfC15Host{string(vfutil.UnHex(f[1])), string(vfutil.UnHex(f[2]))},
					vfC15Host{string(vfutil.UnHex(f[3])), string(vfutil.UnHex(f[4]))}})
			}
		}
	}
	// pairs: thorough = every combination; quick = a representative sub-matrix
	// (every single configuration is still covered by the ident ops above)
	keep := func(h vfC15Host) bool {
		if vfutil.Thorough() {
			return true
		}
		return !strings.HasPrefix(h.listen, ":") && !strings.HasPrefix(h.listen, "localhost") && !strings.HasPrefix(h.peer, "[")
	}
	for _, a := range hostsA {
		for _, b := range hostsB {
			if keep(a) && keep(b) {
				pairs = append(pairs, pair{a, b})
			}
		}
	}
	for _, pr := range pairs {
		a, b := pr.a, pr.b
		st.VerifReset(1000)
		ra := vfC15RunHost(t, st, dir, a.yaml(st.Addr(), true, ""))
		rb := vfC15RunHost(t, st, dir, b.yaml(st.Addr(), true, "")) // same instant on the store's clock: a's lease is unexpired
		replay := map[string]interface{}{
			"hostA": map[string]string{"server.listen": a.listen, "server.listenPeer": a.peer},
			"hostB": map[string]string{"server.listen": b.listen, "server.listenPeer": b.peer},
			"cluster": "groupName g1, leaseTimeout 3s", "idA": ra.id, "idB": rb.id, "key": ra.key,
		}
		s.Op(fmt.Sprintf("contend %d %s %s %s %s", idx, vfutil.HexS(a.listen), vfutil.HexS(a.peer), vfutil.HexS(b.listen), vfutil.HexS(b.peer)))
		idx++
		switch {
		case !ra.accepted || !rb.accepted:
			s.Count("contend_config_refused")
		case !ra.ran || !rb.ran:
			s.Count("contend_run_did_not_campaign") // nobody leads: not a safety clause; ident/leasettl ops show it
		default:
			s.Count("contend_both_campaigned")
			s.Distinct(fmt.Sprintf("%v|%v", a, b))
			if ra.leader && rb.leader { // one source: whatever keys and ids the code derives
				s.Violate("two-hosts-told-leader",
					fmt.Sprintf("host A (listen=%q listenPeer=%q) and host B (listen=%q listenPeer=%q) both campaigned for the same source and were both told leader at the same instant; keys %q / %q, election ids %q / %q",
						a.listen, a.peer, b.listen, b.peer, ra.key, rb.key, ra.id, rb.id), replay)
			}
			if ra.key != rb.key {
				s.Count("contend_keys_differ") // same source double => same key; recorded, not a C15 clause
			}
		}
	}

	// ---- OBSERVATION (no clause of C15; stated in the assumptions): two hosts given the SAME peer string are ONE
	// contender - the second one's campaign extends the first one's lease and both are told leader. Drawn by force
	// (an IP literal and a host name), counted, never reported.
	for _, same := range []vfC15Host{{listen: "10.0.0.5:18001"}, {listen: "0.0.0.0:18001", peer: "syncer.internal:18001"}} {
		st.VerifReset(1000)
		ra := vfC15RunHost(t, st, dir, same.yaml(st.Addr(), true, ""))
		rb := vfC15RunHost(t, st, dir, same.yaml(st.Addr(), true, ""))
		s.Op(fmt.Sprintf("contend %d %s %s %s %s", idx, vfutil.HexS(same.listen), vfutil.HexS(same.peer), vfutil.HexS(same.listen), vfutil.HexS(same.peer)))
		idx++
		switch {
		case ra.ran && rb.ran && ra.id == rb.id && ra.leader && rb.leader:
			s.Count("contend_equal_ids_both_told_leader_observed")
		case ra.ran && rb.ran && ra.id == rb.id:
			s.Count("contend_equal_ids_one_told_leader")
		default:
			s.Count("contend_equal_ids_not_run")
		}
	}

	// ---- OBSERVATION (no clause of C15): one source, spelled differently in two hosts' configurations
	// (input.redis.addresses). The election key is built from the source's ADDRESS STRING as each instance knows it
	// (runCluster: shard.Master.Address), so such hosts contend on two different keys = through two different leases, and
	// both are told leader. A configuration divergence outside the property's quantifier (same class as two hosts both
	// configured localhost:18001); counted (contendsrc_*), stated in the assumptions, never reported. Two leaders under ONE
	// spelling are the property's first sentence and are reported (two-hosts-told-leader).
	if !replaying || replaySrc != nil {
		_, port, _ := strings.Cut(st.Addr(), ":")
		spell := []string{"127.0.0.1:" + port, "localhost:" + port, "[::ffff:127.0.0.1]:" + port}
		type sp struct{ a, b string }
		var sps []sp
		if replaySrc != nil {
			sps = append(sps, sp{spell[replaySrc[0]], spell[replaySrc[1]]})
		} else {
			for i := range spell {
				for j := range spell {
					sps = append(sps, sp{spell[i], spell[j]})
				}
			}
		}
		ha, hb := vfC15Host{listen: "10.0.0.1:18001"}, vfC15Host{listen: "10.0.0.2:18001"}
		for _, p := range sps {
			st.VerifReset(1000)
			ra := vfC15RunHost(t, st, dir, ha.yaml(p.a, true, ""))
			rb := vfC15RunHost(t, st, dir, hb.yaml(p.b, true, ""))
			idxOf := func(x string) int {
				for i, y := range spell {
					if x == y {
						return i
					}
				}
				return -1
			}
			// the port of the double changes from run to run: the replay names the spellings, not the strings
			replay := map[string]interface{}{"contendsrc": []int{idxOf(p.a), idxOf(p.b)},
				"sourceA": strings.Replace(p.a, port, "<port>", 1), "sourceB": strings.Replace(p.b, port, "<port>", 1),
				"same_spelling": p.a == p.b}
			s.Op(fmt.Sprintf("contendsrc %d %d %d", idx, idxOf(p.a), idxOf(p.b)))
			idx++
			switch {
			case !ra.accepted || !rb.accepted:
				s.Count("contendsrc_config_refused")
			case !ra.ran || !rb.ran:
				s.Count("contendsrc_run_did_not_campaign")
			default:
				s.Count("contendsrc_both_campaigned")
				if ra.key != rb.key {
					s.Count("contendsrc_keys_differ")
				}
				if ra.leader && rb.leader && p.a != p.b {
					s.Count("contendsrc_observed_two_leaders_on_two_keys_spellings_differ")
				}
				if ra.leader && rb.leader && p.a == p.b {
					s.Violate("two-hosts-told-leader", fmt.Sprintf("two hosts of one group replicate ONE source, written %q in one configuration and %q in the other; both were told leader at the same instant (election keys %q / %q)",
						replay["sourceA"], replay["sourceB"], strings.Replace(ra.key, port, "<port>", 1), strings.Replace(rb.key, port, "<port>", 1)), replay)
				}
			}
		}
	}

	// ---- the lease as the REAL run() writes it vs the renew period the REAL ticker uses
	leaseTTL := func(extra string, lease, renew int64, src string) {
		st.VerifReset(1000)
		h := vfC15Host{listen: "10.0.0.1:18001"}
		y := h.yaml(st.Addr(), true, extra)
		run := vfC15RunHost(t, st, dir, y)
		replay := map[string]interface{}{"cluster_yaml": extra}
		out := "refused"
		if run.accepted && run.ran {
			out = fmt.Sprintf("ttl=%d renew=%d", run.ttlMs/1000, int64(run.renew))
			s.Count("leasettl_" + src)
			// what C15 needs: a leader learns of a failed renewal one renew period
			// after its last success; its lease must not be takeable before that
			if run.ttlMs <= run.renew.Milliseconds() {
				s.Violate("lease-ends-before-next-renewal",
					fmt.Sprintf("run() wrote a lease of %d ms to the store while the ticker renews every %v: the lease can be taken between two renewals of a healthy leader", run.ttlMs, run.renew), replay)
			}
			if !run.leader {
				s.Count("leasettl_not_leader")
			}
		} else if run.accepted {
			out = "nocampaign"
			s.Count("leasettl_run_did_not_campaign")
		}
		s.Op(fmt.Sprintf("leasettl %d %d %d", idx, lease, renew), fmt.Sprintf("#%d %s", idx, out))
		idx++
	}
	if replayYaml != "" {
		leaseTTL(replayYaml, 0, 0, "replay")
		return
	}
	if !replaying {
		sec := int64(time.Second)
		for _, l := range []int64{0, 1, sec, 3 * sec, 3*sec + sec/2, 4 * sec, 5 * sec, 9 * sec, 10 * sec, 60 * sec, 600 * sec, 700 * sec} {
			for _, rv := range []int64{0, 1, sec, 2 * sec, 3 * sec, l / 3, l/3 + 1, l} {
				extra := ""
				if l != 0 {
					extra += fmt.Sprintf("  leaseTimeout: %dns\n", l)
				}
				if rv != 0 {
					extra += fmt.Sprintf("  leaseRenewInterval: %dns\n", rv)
				}
				if extra == "" {
					extra = "  # defaults\n"
				}
				leaseTTL(extra, l, rv, "grid")
			}
		}
	}

	// ---- one instance, its client shared by two elections used concurrently, a reply stalled
	if !replaying {
		for round := 0; round < vfutil.Scale(20, 200); round++ {
			st.VerifReset(int64(1000 + round))
			cfg := config.RedisConfig{Addresses: []string{st.Addr()}, Type: config.RedisTypeStandalone}
			other, err := cluster.NewRedisCluster(context.Background(), cfg, 3)
			if err != nil {
				t.Fatal(err)
			}
			mine, err := cluster.NewRedisCluster(context.Background(), cfg, 3)
			if err != nil {
				t.Fatal(err)
			}
			// k2 is held by somebody else; k1 is free
			other.NewElection(context.Background(), "k2", "other").Campaign(context.Background())
			e1 := mine.NewElection(context.Background(), "k1", "me")
			e2 := mine.NewElection(context.Background(), "k2", "me")
			first, second := e1, e2
			swap := round%2 == 1
			if swap {
				first, second = e2, e1
			}
			held, release := st.VerifHoldEvalReply()
			type res struct {
				role cluster.ClusterRole
				err  error
			}
			c1, c2 := make(chan res, 1), make(chan res, 1)
			go func() { ro, er := first.Campaign(context.Background()); c1 <- res{ro, er} }()
			<-held
			go func() { ro, er := second.Campaign(context.Background()); c2 <- res{ro, er} }()
			time.Sleep(time.Duration(r.Intn(3)) * time.Millisecond)
			release()
			r1, r2 := <-c1, <-c2
			rk1, rk2 := r1, r2
			if swap {
				rk1, rk2 = r2, r1
			}
			s.Op(fmt.Sprintf("shared %d %d", idx, round))
			idx++
			s.Count("shared_client_rounds")
			replay := map[string]interface{}{"shared": fmt.Sprintf("round %d swap=%v", round, swap)}
			if rk2.err == nil && rk2.role == cluster.RoleLeader {
				s.Violate("success-over-foreign-lease", "instance was told leader for k2 (held by another instance) by an answer that belongs to its concurrent campaign for k1", replay)
			}
			if rk1.err != nil || rk1.role != cluster.RoleLeader {
				s.Count("shared_client_k1_not_leader")
			}
			other.Close()
			mine.Close()
		}
	}

	// ---- Renew vs its context deadline when the lease store stalls (recorded only)
	if !replaying {
		st.VerifReset(1000)
		cl, err := cluster.NewRedisCluster(context.Background(), config.RedisConfig{Addresses: []string{st.Addr()}, Type: config.RedisTypeStandalone}, 3)
		if err != nil {
			t.Fatal(err)
		}
		el := cl.NewElection(context.Background(), "probe", "p")
		el.Campaign(context.Background())
		st.VerifHoldNext()
		ctx, cancel := context.WithTimeout(context.Background(), 50*time.Millisecond)
		done := make(chan error, 1)
		go func() { done <- el.Renew(ctx) }()
		<-st.VerifHeld()
		select {
		case <-done:
			s.Count("renew_returns_at_ctx_deadline")
		case <-time.After(300 * time.Millisecond):
			s.Count("renew_ignores_ctx_deadline")
		}
		cancel()
		st.VerifRelease()
		<-done
		cl.Close()
	}

	// ---- clusterTicker with a scripted election, virtual time
	// R = renew period, lease = LeaseTimeout, ago = how long before the ticker
	// starts the campaign that made the instance leader was SENT (the lease
	// runs from there), n ticks are observed.
	tick := func(leader bool, R, lease, ago time.Duration, n int, script []string, src string) {
		*config.GetSyncerConfig() = config.SyncConfig{Cluster: &config.ClusterConfig{GroupName: "g1", LeaseTimeout: lease, LeaseRenewInterval: R}}
		ttlMs := int64(lease/time.Second) * 1000 // the lease the store holds (cmd/syncer.go run(): whole seconds)
		fake := &vfC15Fake{script: script}
		var closedAt, returnedAt int64 = -1, -1
		var closedErr error
		horizon := time.Duration(n)*R + R/2
		synctest.Test(t, func(t *testing.T) {
			fake.release = make(chan struct{}) // made inside the bubble: waiting on it is durable
			time.Sleep(ago)                     // the campaign was sent `ago` before the ticker starts
			fake.start = time.Now()
			leaseFrom := fake.start.Add(-ago)
			cmd := NewSyncerCmd()
			wait := usync.NewWaitCloser(nil)
			role := cluster.RoleFollower
			if leader {
				role = cluster.RoleLeader
			}
			fin := make(chan struct{})
			forced := false
			go func() {
				vfC15Ticker(cmd, wait, role, fake, leaseFrom)
				if !forced {
					returnedAt = time.Since(fake.start).Milliseconds()
				}
				close(fin)
			}()
			go func() {
				<-wait.Context().Done()
				if !forced {
					closedAt = time.Since(fake.start).Milliseconds()
					closedErr = wait.Error()
				}
			}()
			time.Sleep(horizon)
			synctest.Wait()
			forced = true
			fake.mu.Lock()
			fake.nOver = len(fake.calls) // calls of goroutines released below are not part of the scenario
			fake.mu.Unlock()
			if !wait.IsClosed() {
				wait.Close(nil)
			}
			close(fake.release)
			<-fin
			synctest.Wait()
		})
		fake.calls, fake.kinds, fake.fails = fake.calls[:fake.nOver], fake.kinds[:fake.nOver], fake.fails[:fake.nOver]
		sc := "."
		if len(script) > 0 {
			sc = strings.Join(script, ",")
		}
		role := "F"
		if leader {
			role = "L"
		}
		op := fmt.Sprintf("ticker %d %s %d %d %d %d %s", idx, role, R.Milliseconds(), lease.Milliseconds(), ago.Milliseconds(), n, sc)
		replay := map[string]interface{}{"ticker": op}
		calls := "."
		if len(fake.calls) > 0 {
			p := make([]string, len(fake.calls))
			for i, c := range fake.calls {
				p[i] = fmt.Sprint(c)
			}
			calls = strings.Join(p, ",")
		}
		closed := "never"
		if closedAt >= 0 {
			closed = fmt.Sprintf("%d:%s", closedAt, vfC15ErrClass(closedErr))
		}
		returned := "never"
		if returnedAt >= 0 {
			returned = fmt.Sprint(returnedAt)
		}
		// exact instants and the close reason are compared with the model only (tie)
		s.Op(op, fmt.Sprintf("#%d calls=%s closed=%s returned=%s", idx, calls, closed, returned))
		idx++
		s.Count("ticker_" + src)
		if closedAt >= 0 {
			s.Count("ticker_closed_" + vfC15ErrClass(closedErr))
		}
		// monitor (independent of Lean; only what C15 needs): the instance keeps
		// leading until clusterTicker RETURNS (only then runCluster stops the
		// syncer). At no time before that may it be more than one ttl past the
		// SEND of its last successful campaign/renewal — whatever the election
		// calls do (fail, succeed late, never return). How often it renews, how
		// many attempts it makes and when exactly it reacts is its own business.
		if leader {
			last := -ago.Milliseconds()
			end := horizon.Milliseconds()
			if returnedAt >= 0 {
				end = returnedAt
			}
			for i, c := range fake.calls {
				if c > end || (returnedAt < 0 && c >= end) { // calls made after the scenario was wound up
					break
				}
				if !fake.fails[i] {
					if c-last > ttlMs {
						s.Violate("leads-past-its-lease", fmt.Sprintf("no successful renewal between %d ms and %d ms (lease %d ms) while the instance kept leading", last, c, ttlMs), replay)
					}
					last = c
				} else {
					s.Count("ticker_renew_attempt_failed")
				}
			}
			if end-last > ttlMs {
				s.Violate("leads-past-its-lease", fmt.Sprintf("last successful campaign/renewal sent at %d ms, lease %d ms, but clusterTicker had not returned at %d ms (wait closed=%s, returned=%s): the instance keeps leading after its lease can be taken", last, ttlMs, end, closed, returned), replay)
			}
		}
	}
	if replayTicker != "" {
		f := strings.Fields(replayTicker)
		if len(f) == 8 {
			var rms, lms, ams, n int
			fmt.Sscan(f[3], &rms)
			fmt.Sscan(f[4], &lms)
			fmt.Sscan(f[5], &ams)
			fmt.Sscan(f[6], &n)
			var sc []string
			if f[7] != "." {
				sc = strings.Split(f[7], ",")
			}
			tick(f[2] == "L", time.Duration(rms)*time.Millisecond, time.Duration(lms)*time.Millisecond, time.Duration(ams)*time.Millisecond, n, sc, "replay")
		}
		return
	}
	if replaying {
		return
	}
	for _, l := range vfutil.Corpus("C15") { // witnesses first
		f := strings.Fields(l)
		if len(f) == 8 && f[0] == "ticker" {
			var rms, lms, ams, n int
			fmt.Sscan(f[3], &rms)
			fmt.Sscan(f[4], &lms)
			fmt.Sscan(f[5], &ams)
			fmt.Sscan(f[6], &n)
			var sc []string
			if f[7] != "." {
				sc = strings.Split(f[7], ",")
			}
			tick(f[2] == "L", time.Duration(rms)*time.Millisecond, time.Duration(lms)*time.Millisecond, time.Duration(ams)*time.Millisecond, n, sc, "corpus")
		}
	}
	// all scripts of length <= 4 (quick) / 6 (thorough) over {ok, ErrNotLeader, error, call that
	// never returns}; each short leader script also followed by a long run of failures (a lease
	// that is really gone / a store that stays down). R = 1.5 s, lease 5 s, campaign sent 200 ms
	// before the ticker starts (no two timers of the scenario coincide).
	const tR, tLease, tAgo = 1500 * time.Millisecond, 5 * time.Second, 200 * time.Millisecond
	for _, leader := range []bool{true, false} {
		alpha := []string{"blk", "ok", "nl", "err"}
		if !leader {
			alpha = []string{"blk", "fl", "ld", "err"}
		}
		maxLen := vfutil.Scale(4, 5)
		var rec func(p []string)
		rec = func(p []string) {
			tick(leader, tR, tLease, tAgo, len(p)+5, append([]string{}, p...), "exhaustive")
			if leader && len(p) <= 2 {
				for _, f := range []string{"nl", "err"} {
					long := append([]string{}, p...)
					for i := 0; i < 10; i++ {
						long = append(long, f)
					}
					tick(leader, tR, tLease, tAgo, len(long)+2, long, "exhaustive_then_down")
				}
			}
			if len(p) == maxLen || (len(p) > 0 && p[len(p)-1] == "blk") {
				return // nothing is consumed after a call that never returns
			}
			for _, a := range alpha {
				rec(append(p, a))
			}
		}
		rec(nil)
	}
	for i := 0; i < vfutil.Scale(300, 5000); i++ {
		leader := r.Bool()
		alpha := []string{"ok", "ok", "ok", "ok", "nl", "err"}
		if !leader {
			alpha = []string{"fl", "fl", "fl", "ld", "err"}
		}
		n := r.Intn(12)
		sc := make([]string, n)
		for j := range sc {
			sc[j] = vfutil.Pick(r, alpha)
		}
		switch r.Intn(4) {
		case 0:
			if leader {
				for j := 0; j < 10; j++ {
					sc = append(sc, "nl")
				}
			}
		case 1:
			sc = append(sc, "blk")
		}
		// renew period 1..200 s, lease >= 3 periods (as ClusterConfig.fix guarantees), odd milliseconds so that
		// the lease watchdog and the ticker never fire in the same instant
		R := time.Duration(r.Range(1, 200))*time.Second + time.Duration(r.Range(1, 9))*100*time.Millisecond
		lease := 3*R + time.Duration(r.Range(0, 5000))*time.Millisecond
		ago := time.Duration(r.Range(1, 99)) * 7 * time.Millisecond
		tick(leader, R, lease, ago, r.Range(1, len(sc)+4), sc, "gen")
	}
}

// vfC15Ticker calls the real clusterTicker.
func vfC15Ticker(cmd *SyncerCmd, wait usync.WaitCloser, role cluster.ClusterRole, el cluster.Election, leaseFrom time.Time) {
	cmd.clusterTicker(wait, role, el, "in", "key", leaseFrom)
}
