//go:build verif

package cmd

// C17 (part 3) — the REAL SyncerCmd.gcStaleCheckpoint, frame included: it asks every source
// node (loopback RESP doubles answering INFO replication with master_replid AND
// master_replid2) for its replication ids, builds the set of live ids, and runs the stale
// checkpoint deletion on the output (the target double behind a loopback listener).
//
// Scenarios: the stored position is labelled with the source's CURRENT id, or — a failover is
// pending, a restart never relabels — with the id the source reports as master_replid2; the
// position is younger / older than staleCheckpointDuration, with or without an _mtime field
// (the replay path writes none); several databases; entries of dead ids; one source node
// unreachable (gc must give up, an unreachable source is not a dead one).
//
//   correspondence: the requests and the position after every prefix vs the Lean model of
//     gcStaleCp (op c17g) with live = every id a source reported;
//   monitor: after every request prefix the next start (id ordering + UpdateCheckpoint run to
//     completion + GetCheckpoint under the local key) finds a position not smaller, same database.

import (
	"bufio"
	"context"
	"fmt"
	"io"
	"net"
	"os"
	"strconv"
	"strings"
	"sync"
	"testing"
	"time"

	"github.com/mgtv-tech/redis-GunYu/config"
	"github.com/mgtv-tech/redis-GunYu/pkg/log"
	"github.com/mgtv-tech/redis-GunYu/pkg/redis/checkpoint"
	"github.com/mgtv-tech/redis-GunYu/pkg/vfdoubles"
	"github.com/mgtv-tech/redis-GunYu/pkg/vfutil"
)

// a source node: answers INFO replication, OK to everything else
type vfSrc struct {
	ln   net.Listener
	info string
}

func vfSrcListen(id1, id2 string) *vfSrc {
	ln, err := net.Listen("tcp", "127.0.0.1:0")
	if err != nil {
		panic(err)
	}
	s := &vfSrc{ln: ln, info: "# Replication\r\nrole:master\r\nconnected_slaves:0\r\nmaster_replid:" + id1 + "\r\nmaster_replid2:" + id2 +
		"\r\nmaster_repl_offset:5000\r\nsecond_repl_offset:4001\r\n"}
	go func() {
		for {
			c, err := ln.Accept()
			if err != nil {
				return
			}
			go func(c net.Conn) {
				defer c.Close()
				rd := bufio.NewReader(c)
				for {
					args, err := vfReadCmd(rd)
					if err != nil {
						return
					}
					rep := "+OK\r\n"
					if len(args) > 0 && strings.EqualFold(args[0], "info") {
						rep = fmt.Sprintf("$%d\r\n%s\r\n", len(s.info), s.info)
					}
					if len(args) > 0 && strings.EqualFold(args[0], "ping") {
						rep = "+PONG\r\n"
					}
					if _, err := io.WriteString(c, rep); err != nil {
						return
					}
				}
			}(c)
		}
	}()
	return s
}

func vfReadCmd(rd *bufio.Reader) ([]string, error) {
	line, err := rd.ReadString('\n')
	if err != nil {
		return nil, err
	}
	line = strings.TrimRight(line, "\r\n")
	if !strings.HasPrefix(line, "*") {
		return strings.Fields(line), nil
	}
	n, _ := strconv.Atoi(line[1:])
	var out []string
	for i := 0; i < n; i++ {
		h, err := rd.ReadString('\n')
		if err != nil {
			return nil, err
		}
		sz, _ := strconv.Atoi(strings.TrimRight(h, "\r\n")[1:])
		buf := make([]byte, sz+2)
		if _, err := io.ReadFull(rd, buf); err != nil {
			return nil, err
		}
		out = append(out, string(buf[:sz]))
	}
	return out, nil
}

// the target double behind a loopback listener (client.NewRedis dials TCP)
func vfTargetListen(tg *vfdoubles.Target) net.Listener {
	ln, err := net.Listen("tcp", "127.0.0.1:0")
	if err != nil {
		panic(err)
	}
	go func() {
		for {
			c, err := ln.Accept()
			if err != nil {
				return
			}
			up := tg.Dial()
			var once sync.Once
			cl := func() { once.Do(func() { c.Close(); up.Close() }) }
			go func() { io.Copy(up, c); cl() }()
			go func() { io.Copy(c, up); cl() }()
		}
	}()
	return ln
}

func vfStandalone(addr string) *config.RedisConfig {
	rc := &config.RedisConfig{Addresses: []string{addr}, Type: config.RedisTypeStandalone, ClusterOptions: &config.RedisClusterOptions{}}
	rc.SetClusterShards([]*config.RedisClusterShard{{Master: config.RedisNode{Address: addr}}})
	return rc
}

type vfGFCase struct {
	cur, prev string // what the source reports: master_replid, master_replid2
	label     string // id the stored position is labelled with
	dbs       []int  // databases holding entries of `label`, first = newest
	ages      []int  // minutes; -1 = no _mtime field
	top       int64
	dead      bool // an entry of an id nobody reports shares the key
	down      bool // a second source node that cannot be reached
	staleMin  int
	extra     int // further reachable source nodes, listed BEFORE the one whose ids label the position (0 / 1 / 3)
}

func (c *vfGFCase) op() string {
	return fmt.Sprintf("c17gf cur=%s prev=%s label=%s dbs=%s ages=%s top=%d dead=%v down=%v stale=%d extra=%d", c.cur, c.prev, c.label,
		checkpoint.VfInts(c.dbs), checkpoint.VfInts(c.ages), c.top, c.dead, c.down, c.staleMin, c.extra)
}

func vfC17GcFrame(t *testing.T, s *vfutil.Session, c *vfGFCase, tag int, src string) {
	now := time.Now()
	st := &checkpoint.VfState{}
	st.Hash = append(st.Hash, [2]string{c.label, config.CheckpointKey})
	deadId := "dddddddddddddddddddddddddddddddddddddddd"
	if c.dead {
		st.Hash = append(st.Hash, [2]string{deadId, config.CheckpointKey})
	}
	for i, d := range c.dbs {
		var fs [][2]string
		if c.ages[i] >= 0 {
			fs = append(fs, [2]string{c.label + checkpoint.CheckpointMtimeSuffix, strconv.FormatInt(now.Add(-time.Duration(c.ages[i])*time.Minute).UnixNano(), 10)})
		}
		fs = append(fs, [2]string{c.label + checkpoint.CheckpointRunIdSuffix, c.label}, [2]string{c.label + checkpoint.CheckpointVersionSuffix, config.Version},
			[2]string{c.label + checkpoint.CheckpointOffsetSuffix, strconv.FormatInt(c.top-int64(i)*100, 10)})
		if c.dead && i == 0 {
			fs = append(fs, [2]string{deadId + checkpoint.CheckpointMtimeSuffix, strconv.FormatInt(now.Add(-100*time.Hour).UnixNano(), 10)},
				[2]string{deadId + checkpoint.CheckpointRunIdSuffix, deadId}, [2]string{deadId + checkpoint.CheckpointOffsetSuffix, "77"})
		}
		st.Items = append(st.Items, checkpoint.VfItem{Db: d, Key: config.CheckpointKey, Fields: fs})
	}
	src1 := vfSrcListen(c.cur, c.prev)
	defer src1.ln.Close()
	in := vfStandalone(src1.ln.Addr().String())
	var liveExtra []string
	if c.extra > 0 {
		// several sources: every node's ids must end up in the live set, whatever its place in the list
		addrs := []string{}
		shards := []*config.RedisClusterShard{}
		for i := 0; i < c.extra; i++ {
			e1 := fmt.Sprintf("%02x", 0xe0+i) + c.cur[2:]
			e2 := fmt.Sprintf("%02x", 0xf0+i) + c.cur[2:]
			liveExtra = append(liveExtra, e1, e2)
			es := vfSrcListen(e1, e2)
			defer es.ln.Close()
			addrs = append(addrs, es.ln.Addr().String())
			shards = append(shards, &config.RedisClusterShard{Master: config.RedisNode{Address: es.ln.Addr().String()}})
		}
		in.Addresses = append(addrs, in.Addresses...)
		in.SetClusterShards(append(shards, &config.RedisClusterShard{Master: config.RedisNode{Address: src1.ln.Addr().String()}}))
	}
	s.Count(fmt.Sprintf("cfg_sources_%d", 1+c.extra))
	if c.down {
		// an unreachable node: a listener we keep (so nobody else can get the port) that hangs up on
		// every connection before answering anything
		dead, _ := net.Listen("tcp", "127.0.0.1:0")
		addr := dead.Addr().String()
		defer dead.Close()
		go func() {
			for {
				c, err := dead.Accept()
				if err != nil {
					return
				}
				c.Close()
			}
		}()
		in.Addresses = append(in.Addresses, addr)
		sh := []*config.RedisClusterShard{}
		for _, a := range in.Addresses {
			sh = append(sh, &config.RedisClusterShard{Master: config.RedisNode{Address: a}})
		}
		in.SetClusterShards(sh)
		s.Count("cfg_sources_one_unreachable")
	}
	sc := config.GetSyncerConfig()
	oldIn, oldOut, oldCh := sc.Input, sc.Output, sc.Channel
	defer func() { sc.Input, sc.Output, sc.Channel = oldIn, oldOut, oldCh }()
	stale := time.Duration(c.staleMin) * time.Minute
	var before int64
	// one run of the real gcStaleCheckpoint on a fresh copy of the state; failAt: request index (over the
	// target's log) -> error reply (the connection stays usable)
	runGc := func(failAt map[int]string) (*vfdoubles.Target, int) {
		tg := vfdoubles.NewTarget()
		st.Seed(tg)
		seedLen := tg.LogLen()
		for k, v := range failAt {
			tg.FailAt[k] = v
		}
		tln := vfTargetListen(tg)
		defer tln.Close()
		sc.Input = &config.InputConfig{Redis: in}
		sc.Output = &config.OutputConfig{Redis: vfStandalone(tln.Addr().String())}
		sc.Channel = &config.ChannelConfig{Type: "memory", StaleCheckpointDuration: stale}
		before = time.Now().Add(-stale).UnixNano()
		(&SyncerCmd{logger: log.WithLogger("[vf] ")}).gcStaleCheckpoint(context.Background())
		tg.CloseAll()
		return tg, seedLen
	}
	tg, seedLen := runGc(nil)
	logAll := tg.LogCopy()
	if os.Getenv("VERIF_DEBUG") != "" {
		for _, e := range logAll[seedLen:] {
			fmt.Println("GCLOG", e.DB, e.String())
		}
	}

	ids := []string{c.cur, c.prev}
	var ws []int
	var lines []string
	for i := seedLen; i < len(logAll); i++ {
		if l, ok := checkpoint.VfRenderWrite(logAll[i]); ok {
			ws = append(ws, i)
			lines = append(lines, l)
		}
	}
	sp := []string{checkpoint.VfStartPoint(vfdoubles.Replay(logAll[:seedLen], 0), ids)}
	for _, w := range ws {
		sp = append(sp, checkpoint.VfStartPoint(vfdoubles.Replay(logAll[:w+1], 0), ids))
	}
	// database order of each scan: the EXISTS requests after each INFO
	var orders []string
	for i := seedLen; i < len(logAll); i++ {
		switch logAll[i].Cmd() {
		case "info":
			orders = append(orders, "")
		case "exists":
			if len(orders) > 0 {
				if orders[len(orders)-1] != "" {
					orders[len(orders)-1] += ","
				}
				orders[len(orders)-1] += strconv.Itoa(logAll[i].DB)
			}
		}
	}
	for i := range orders {
		if orders[i] == "" {
			orders[i] = "."
		}
	}
	ord := "."
	if len(orders) > 0 {
		ord = strings.Join(orders, ";")
	}
	if !c.down {
		// the model of gcStaleCp with live = every id the sources reported
		op := fmt.Sprintf("c17g %d %s %s %s %d %s %s", tag, vfutil.HexS(config.Version), checkpoint.VfHexList(ids), checkpoint.VfHexList(append(append([]string{}, ids...), liveExtra...)), before, ord, st.Encode())
		out := []string{fmt.Sprintf("#%d n=%d sp=%s", tag, len(lines), sp[0])}
		for i, l := range lines {
			out = append(out, fmt.Sprintf("#%d %s sp=%s", tag, l, sp[i+1]))
		}
		s.Op(op, out...)
	} else if len(lines) > 0 {
		s.Violate("gc-runs-with-unreachable-source", fmt.Sprintf("a source node was unreachable (its ids unknown) but gc issued %d delete requests: %s", len(lines), lines[0]),
			map[string]interface{}{"op": c.op()})
	}
	s.Count("gcframe_" + src)
	if c.label == c.prev {
		s.Count("gcframe_pending_failover")
	}
	// monitor: the next start after every prefix
	first := checkpoint.VfNextStart(vfdoubles.Replay(logAll[:seedLen], 0), config.CheckpointKey, ids)
	for k := 1; k <= len(ws); k++ {
		got := checkpoint.VfNextStart(vfdoubles.Replay(logAll[:ws[k-1]+1], 0), config.CheckpointKey, ids)
		if !vfPosGe(got, first) {
			s.Violate("gc-loses-live-position", fmt.Sprintf("the source reports %s / %s, the position is labelled %s: next start before gc reads %s; after gc request #%d (%s) it reads %s",
				c.cur[:6], c.prev[:6], c.label[:6], first, k, lines[k-1], got), map[string]interface{}{"op": c.op(), "crash_after_request": k, "before": first, "after": got})
			break
		}
		s.Count("gcframe_next_start_checked")
	}
	// error path: each request of the gc pass (scan requests included: hgetall of the checkpoint hash, info
	// keyspace, select, exists, hgetall of the entries, hdel) gets an error reply in turn - a transient
	// -BUSY / -LOADING style answer, the connection stays usable - then the syncer restarts: the next start
	// on what that gc run left (the failed request not applied) must read a position not smaller, same DB
	if !c.down {
		var pts []int
		for i := seedLen; i < len(logAll); i++ {
			pts = append(pts, i)
		}
		if max := vfutil.Scale(8, 1000); len(pts) > max && src != "corpus" {
			var sel []int
			for j := 0; j < max; j++ {
				sel = append(sel, pts[(j*len(pts)+int(c.top)%len(pts))/max%len(pts)])
			}
			pts = sel
		}
		for _, k := range pts {
			fa := map[int]string{k: "BUSY vf injected error reply"}
			tf, _ := runGc(fa)
			logF := tf.LogCopy()
			if k >= len(logF) {
				continue
			}
			got := checkpoint.VfNextStart(vfdoubles.ReplayFaults(logF, 0, false, fa), config.CheckpointKey, ids)
			s.Count("gcframe_fault_points")
			if !vfPosGe(got, first) {
				var wr []string
				for i := seedLen; i < len(logF); i++ {
					if l, ok := checkpoint.VfRenderWrite(logF[i]); ok && i != k {
						wr = append(wr, l)
					}
				}
				s.Violate("gc-error-reply-loses-live-position", fmt.Sprintf("the source reports %s / %s, the position is labelled %s: next start before gc reads %s; gc request #%d (%s) got an error reply, the run went on and issued [%s]; the next start reads %s",
					c.cur[:6], c.prev[:6], c.label[:6], first, k-seedLen+1, logF[k].String(), strings.Join(wr, " ; "), got),
					map[string]interface{}{"op": c.op(), "failed_request": k - seedLen + 1, "request": logF[k].String(), "before": first, "after": got})
				break
			}
		}
	}
	s.Distinct(fmt.Sprintf("gf|%v|%d|%d|%v", c.label == c.prev, len(c.dbs), len(lines), c.down))
}

func vfPosGe(a, b string) bool {
	p := func(x string) (int64, int, bool) {
		ab := strings.Split(x, "@")
		if len(ab) != 2 {
			return 0, 0, false
		}
		o, _ := strconv.ParseInt(ab[0], 10, 64)
		d, _ := strconv.Atoi(ab[1])
		return o, d, true
	}
	bo, bd, bok := p(b)
	if !bok {
		return true
	}
	ao, ad, aok := p(a)
	return aok && ao >= bo && ad == bd
}

func vfC17GcFrameGen(r *vfutil.Rand) *vfGFCase {
	c := &vfGFCase{cur: fmt.Sprintf("%x", r.Bytes(20)), prev: fmt.Sprintf("%x", r.Bytes(20)), top: int64(r.Range(1000, 90000)), staleMin: 60}
	c.label = c.cur
	if r.Bool() {
		c.label = c.prev // failover pending: the position still carries the previous id
	}
	n := r.Range(1, 3)
	dbs := []int{0, 1, 3, 5, 9}
	for i := 0; i < n; i++ {
		j := r.Intn(len(dbs))
		c.dbs = append(c.dbs, dbs[j])
		dbs = append(dbs[:j], dbs[j+1:]...)
		c.ages = append(c.ages, vfutil.Pick(r, []int{-1, 10, 180, 180, 3000}))
	}
	c.dead = r.Chance(1, 3)
	c.down = r.Chance(1, 6)
	c.extra = vfutil.Pick(r, []int{0, 0, 1, 3})
	if r.Chance(1, 3) { // the position in DB 0: where the placeholder of a start that finds nothing is written
		for i := range c.dbs {
			if c.dbs[i] == 0 {
				c.dbs[i] = 7
			}
		}
		c.dbs[0] = 0
	}
	return c
}

func vfC17GcFrameParse(op string) *vfGFCase {
	if !strings.HasPrefix(op, "c17gf ") {
		return nil
	}
	kv := map[string]string{}
	for _, tok := range strings.Fields(op)[1:] {
		if i := strings.IndexByte(tok, '='); i > 0 {
			kv[tok[:i]] = tok[i+1:]
		}
	}
	atoi := func(s string) int { n, _ := strconv.Atoi(s); return n }
	top, _ := strconv.ParseInt(kv["top"], 10, 64)
	return &vfGFCase{cur: kv["cur"], prev: kv["prev"], label: kv["label"], dbs: checkpoint.VfUnInts(kv["dbs"]), ages: checkpoint.VfUnInts(kv["ages"]),
		top: top, dead: kv["dead"] == "true", down: kv["down"] == "true", staleMin: atoi(kv["stale"]), extra: atoi(kv["extra"])}
}

func TestVerifC17GcFrame(t *testing.T) {
	s := vfutil.NewSession("C17gf")
	defer s.Close()
	r := vfutil.NewRand(vfutil.Seed())
	tag := 0
	for _, l := range vfutil.Corpus("C17") {
		if c := vfC17GcFrameParse(l); c != nil {
			vfC17GcFrame(t, s, c, tag, "corpus")
			tag++
		}
	}
	n := vfutil.Scale(60, 1500)
	for i := 0; i < n; i++ {
		vfC17GcFrame(t, s, vfC17GcFrameGen(r.Fork()), tag, "gen")
		tag++
	}
}
