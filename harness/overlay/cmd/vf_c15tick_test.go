//go:build verif

package cmd

// C15, clusterTicker with election calls of ANY duration: the REAL
// (*SyncerCmd).clusterTicker (+ real clusterRenew / clusterCampaign / leaseHold /
// util.Retry) under testing/synctest with a scripted Election whose answers
// take a scripted amount of virtual time (or never return), optionally with
// the wait closed by somebody else at a given instant or before the ticker
// starts. Calls with their send instants, when/how the wait is closed and
// when clusterTicker returns are compared with Lean `tickerRunD` (`tickd`).
// Every branch of clusterTicker is counted (tickd_branch_*: printed into the
// evidence). Monitor, independent of Lean: at no instant before clusterTicker
// returns is the send of the last successful (and answered) campaign/renewal
// more than one lease back.
//
// A Go select with two ready cases picks at random, so scenarios in which two
// instants coincide would not be reproducible. Construction that rules it
// out: R, hold, ago are multiples of 100 ms with hold and hold-ago not
// multiples of R; the i-th slow answer of a script lasts (a multiple of 100) +
// 2^i ms, so the residue mod 100 of every instant names the slow calls it
// descends from: a return always carries its own call's bit, which no tick and
// no lease-timer deadline standing at that moment carries; an outside close is
// at ≡ 77. Failing answers are instantaneous (a slow failing attempt could
// leave a tick waiting in the channel beside the closed context).

import (
	"context"
	"encoding/json"
	"errors"
	"fmt"
	"os"
	"strconv"
	"strings"
	"sync"
	"testing"
	"testing/synctest"
	"time"

	"github.com/mgtv-tech/redis-GunYu/config"
	"github.com/mgtv-tech/redis-GunYu/pkg/cluster"
	usync "github.com/mgtv-tech/redis-GunYu/pkg/sync"
	"github.com/mgtv-tech/redis-GunYu/pkg/vfutil"
)

type vfTickAns struct {
	res string
	dur time.Duration
}

type vfTickFake struct {
	release chan struct{}
	mu      sync.Mutex
	start   time.Time
	script  []vfTickAns
	pos     int
	sends   []int64
	rets    []int64 // -1: not returned
	fails   []bool
	kinds   []string
}

func (f *vfTickFake) call(kind, dflt string) (string, int) {
	f.mu.Lock()
	a := vfTickAns{res: dflt}
	if f.pos < len(f.script) {
		a = f.script[f.pos]
		f.pos++
	}
	i := len(f.sends)
	f.sends = append(f.sends, time.Since(f.start).Milliseconds())
	f.rets = append(f.rets, -1)
	f.fails = append(f.fails, true)
	f.kinds = append(f.kinds, kind)
	f.mu.Unlock()
	if a.res == "blk" {
		<-f.release // like redisElection.Campaign the call does not look at its context
		return "blk", i
	}
	if a.dur > 0 {
		time.Sleep(a.dur)
	}
	return a.res, i
}

func (f *vfTickFake) done(i int, failed bool) {
	f.mu.Lock()
	f.rets[i] = time.Since(f.start).Milliseconds()
	f.fails[i] = failed
	f.mu.Unlock()
}

func (f *vfTickFake) Renew(ctx context.Context) error {
	a, i := f.call("r", "ok")
	switch a {
	case "blk":
		return errors.New("connection reset (after blocking)")
	case "nl", "fl":
		f.done(i, true)
		return cluster.ErrNotLeader
	case "err":
		f.done(i, true)
		return errors.New("connection reset")
	}
	f.done(i, false)
	return nil
}

func (f *vfTickFake) Campaign(ctx context.Context) (cluster.ClusterRole, error) {
	a, i := f.call("c", "fl")
	switch a {
	case "blk":
		return cluster.RoleCandidate, errors.New("connection reset (after blocking)")
	case "ld", "ok":
		f.done(i, false)
		return cluster.RoleLeader, nil
	case "err":
		f.done(i, true)
		return cluster.RoleCandidate, errors.New("connection reset")
	}
	f.done(i, false)
	return cluster.RoleFollower, nil
}

func (f *vfTickFake) Leader(ctx context.Context) (*cluster.RoleInfo, error) { return nil, cluster.ErrNoLeader }
func (f *vfTickFake) Resign(ctx context.Context) error                     { return nil }

func vfTickScript(s string) ([]vfTickAns, error) {
	if s == "." {
		return nil, nil
	}
	var out []vfTickAns
	for _, tok := range strings.Split(s, ",") {
		p := strings.Split(tok, "@")
		a := vfTickAns{res: p[0]}
		if len(p) == 2 {
			d, err := strconv.Atoi(p[1])
			if err != nil {
				return nil, err
			}
			a.dur = time.Duration(d) * time.Millisecond
		}
		out = append(out, a)
	}
	return out, nil
}

func TestVerifC15Tick(t *testing.T) {
	s := vfutil.NewSession("C15tick")
	defer s.Close()
	r := vfutil.NewRand(vfutil.Seed() ^ 0x71c4)
	idx := 0

	// ext < 0: nobody else closes the wait
	run := func(leader bool, R, lease, ago, horizon, ext time.Duration, pre bool, scriptS, src string) {
		script, err := vfTickScript(scriptS)
		if err != nil {
			t.Fatalf("script %q: %v", scriptS, err)
		}
		*config.GetSyncerConfig() = config.SyncConfig{Cluster: &config.ClusterConfig{GroupName: "g1", LeaseTimeout: lease, LeaseRenewInterval: R}}
		ttlMs := int64(lease/time.Second) * 1000
		fake := &vfTickFake{script: script}
		var closedAt, returnedAt int64 = -1, -1
		var closedErr error
		nOver := 0
		synctest.Test(t, func(t *testing.T) {
			fake.release = make(chan struct{})
			time.Sleep(ago)
			fake.start = time.Now()
			leaseFrom := fake.start.Add(-ago)
			cmd := NewSyncerCmd()
			wait := usync.NewWaitCloser(nil)
			if pre {
				wait.Close(nil)
			}
			role := cluster.RoleFollower
			if leader {
				role = cluster.RoleLeader
			}
			fin := make(chan struct{})
			forced := false
			go func() {
				cmd.clusterTicker(wait, role, fake, "in", "key", leaseFrom)
				if !forced {
					returnedAt = time.Since(fake.start).Milliseconds()
				}
				close(fin)
			}()
			go func() {
				<-wait.Context().Done()
				if !forced {
					closedAt = time.Since(fake.start).Milliseconds()
					closedErr = wait.Error()
				}
			}()
			if ext >= 0 && !pre {
				go func() { // the syncer ends on its own
					time.Sleep(ext)
					if !forced {
						wait.Close(nil)
					}
				}()
			}
			time.Sleep(horizon)
			synctest.Wait()
			forced = true
			fake.mu.Lock()
			nOver = len(fake.sends)
			fake.mu.Unlock()
			if !wait.IsClosed() {
				wait.Close(nil)
			}
			close(fake.release)
			<-fin
			time.Sleep(24 * time.Hour) // let slow calls of abandoned goroutines end inside the bubble
			synctest.Wait()
		})
		sends, rets, fails := fake.sends[:nOver], fake.rets[:nOver], fake.fails[:nOver]
		// calls of a Retry goroutine the ticker had already abandoned are not the ticker's
		if returnedAt >= 0 {
			k := len(sends)
			for k > 0 && sends[k-1] > returnedAt {
				k--
			}
			sends, rets, fails = sends[:k], rets[:k], fails[:k]
		}
		role := "F"
		if leader {
			role = "L"
		}
		extS := "-"
		if ext >= 0 {
			extS = fmt.Sprint(ext.Milliseconds())
		}
		preS := 0
		if pre {
			preS = 1
		}
		op := fmt.Sprintf("tickd %d %s %d %d %d %d %s %d %s", idx, role, R.Milliseconds(), lease.Milliseconds(), ago.Milliseconds(),
			horizon.Milliseconds(), extS, preS, scriptS)
		replay := map[string]interface{}{"tickd": op}
		calls := "."
		if len(sends) > 0 {
			p := make([]string, len(sends))
			for i, c := range sends {
				p[i] = fmt.Sprint(c)
			}
			calls = strings.Join(p, ",")
		}
		closed := "never"
		if closedAt >= 0 {
			closed = fmt.Sprintf("%d:%s", closedAt, vfC15ErrClass(closedErr))
		}
		returned := "never"
		if returnedAt >= 0 {
			returned = fmt.Sprint(returnedAt)
		}
		s.Op(op, fmt.Sprintf("#%d calls=%s closed=%s returned=%s", idx, calls, closed, returned))
		idx++
		s.Count("tickd_" + src)
		if len(script) >= 3 {
			s.Distinct(op)
		}

		// ---- branch coverage of clusterTicker, from what was observed
		end := horizon.Milliseconds()
		if returnedAt >= 0 {
			end = returnedAt
		}
		inFlight := false
		for i := range sends {
			if rets[i] < 0 || rets[i] > end {
				inFlight = true
			}
		}
		Rms := R.Milliseconds()
		switch {
		case pre:
			s.Count("tickd_branch_wait_closed_at_entry")
		case returnedAt < 0:
			s.Count("tickd_branch_still_running_at_horizon")
		case closedAt == returnedAt && ext >= 0 && closedAt == ext.Milliseconds() && inFlight:
			s.Count("tickd_branch_ctx_done_while_call_in_flight_outside_close")
		case closedAt == returnedAt && ext >= 0 && closedAt == ext.Milliseconds():
			s.Count("tickd_branch_ctx_done_while_waiting_for_tick_outside_close")
		case leader && vfC15ErrClass(closedErr) == "err-notleader" && inFlight:
			s.Count("tickd_branch_lease_timer_fired_while_call_in_flight")
		case leader && vfC15ErrClass(closedErr) == "err-notleader" && (len(sends) == 0 || !fails[len(sends)-1] || rets[len(sends)-1] != closedAt):
			s.Count("tickd_branch_lease_timer_fired_while_waiting_for_tick")
		case leader:
			s.Count("tickd_branch_leader_renew_failed_closes_" + vfC15ErrClass(closedErr))
		case vfC15ErrClass(closedErr) == "ok":
			s.Count("tickd_branch_follower_won_closes_nil")
		default:
			s.Count("tickd_branch_follower_error_closes")
		}
		for i := range sends {
			if rets[i] < 0 || rets[i] > end {
				continue
			}
			if leader && !fails[i] {
				s.Count("tickd_branch_leader_renew_ok_rearm")
				if i > 0 && fails[i-1] && rets[i-1] == sends[i] {
					s.Count("tickd_branch_leader_retry_second_attempt_ok")
				}
			}
			if leader && fails[i] {
				s.Count("tickd_branch_leader_attempt_failed")
			}
			if !leader && !fails[i] && (closedAt < 0 || rets[i] != closedAt) {
				s.Count("tickd_branch_follower_stays_follower")
			}
			if rets[i] > sends[i] {
				s.Count("tickd_call_slow")
				if rets[i]/Rms > sends[i]/Rms {
					s.Count("tickd_call_spans_a_tick")
				}
				if rets[i]/Rms > sends[i]/Rms+1 {
					s.Count("tickd_branch_tick_dropped")
				}
			}
			if sends[i]%Rms != 0 && (i == 0 || rets[i-1] != sends[i] || !fails[i-1]) {
				s.Count("tickd_branch_tick_taken_from_channel_after_slow_call")
			}
		}

		// ---- monitor: never more than one lease past the send of the last answered success
		if leader {
			last := -ago.Milliseconds()
			type ev struct{ at, send int64 }
			var succ []ev
			for i := range sends {
				if !fails[i] && rets[i] >= 0 && rets[i] <= end {
					succ = append(succ, ev{rets[i], sends[i]})
				}
			}
			for _, e := range succ { // in call order = in return order (one call at a time)
				if e.at-last > ttlMs {
					s.Violate("leads-past-its-lease", fmt.Sprintf("at %d ms the instance still leads; its last answered successful campaign/renewal was sent at %d ms (lease %d ms)", e.at, last, ttlMs), replay)
				}
				last = e.send
			}
			if end-last > ttlMs {
				s.Violate("leads-past-its-lease", fmt.Sprintf("last answered successful campaign/renewal sent at %d ms, lease %d ms, but clusterTicker had not returned at %d ms (wait closed=%s, returned=%s): the instance keeps leading after its lease can be taken", last, ttlMs, end, closed, returned), replay)
			}
		}
	}

	parse := func(l string) bool {
		f := strings.Fields(l)
		if len(f) != 10 || f[0] != "tickd" {
			return false
		}
		ms := func(s string) time.Duration {
			v, _ := strconv.Atoi(s)
			return time.Duration(v) * time.Millisecond
		}
		ext := time.Duration(-1)
		if f[7] != "-" {
			ext = ms(f[7])
		}
		run(f[2] == "L", ms(f[3]), ms(f[4]), ms(f[5]), ms(f[6]), ext, f[8] == "1", f[9], "corpus")
		return true
	}
	if rp := os.Getenv("VERIF_REPLAY"); rp != "" { // replay of a recorded violation: only that scenario
		var rec struct {
			Replay map[string]interface{} `json:"replay"`
		}
		if b, err := os.ReadFile(rp); err == nil && json.Unmarshal(b, &rec) == nil {
			if op, ok := rec.Replay["tickd"].(string); ok {
				parse(op)
			}
		}
		return
	}
	for _, l := range vfutil.Corpus("C15") {
		parse(l)
	}

	// ALL scripts of length <= N over instantaneous and slow answers (the i-th slow answer gets +2^i ms),
	// R = 1.5 s, lease 5 s, campaign sent 200 ms before the ticker starts; with and without an outside close
	const tR, tLease, tAgo = 1500 * time.Millisecond, 5 * time.Second, 200 * time.Millisecond
	render := func(p []string) string {
		if len(p) == 0 {
			return "."
		}
		out := make([]string, len(p))
		slow := 0
		for i, a := range p {
			if j := strings.IndexByte(a, '@'); j >= 0 {
				base, _ := strconv.Atoi(a[j+1:])
				out[i] = fmt.Sprintf("%s@%d", a[:j], base+(1<<slow))
				slow++
			} else {
				out[i] = a
			}
		}
		return strings.Join(out, ",")
	}
	for _, leader := range []bool{true, false} {
		alpha := []string{"ok", "ok@300", "ok@1600", "ok@3100", "nl", "err", "blk"}
		if !leader {
			alpha = []string{"fl", "fl@300", "fl@1600", "fl@3100", "ld", "err", "blk"}
		}
		maxLen := vfutil.Scale(3, 4)
		var rec func(p []string)
		rec = func(p []string) {
			hor := time.Duration(len(p)+5)*tR + tR/2
			run(leader, tR, tLease, tAgo, hor, -1, false, render(p), "exhaustive")
			if len(p) <= 2 {
				for _, ext := range []time.Duration{777 * time.Millisecond, 2077 * time.Millisecond, 3577 * time.Millisecond, 5277 * time.Millisecond} {
					run(leader, tR, tLease, tAgo, hor, ext, false, render(p), "exhaustive_outside_close")
				}
			}
			if len(p) == maxLen || (len(p) > 0 && p[len(p)-1] == "blk") {
				return
			}
			for _, a := range alpha {
				rec(append(p, a))
			}
		}
		rec(nil)
		// the campaign's answer came late: little of the hold is left when the ticker starts
		for _, ago := range []time.Duration{2100 * time.Millisecond, 3400 * time.Millisecond} {
			for _, sc := range []string{".", "ok", "ok@301,ok", "blk", "err,err"} {
				run(leader, tR, tLease, ago, 5*tR, -1, false, sc, "late_start")
			}
		}
		run(leader, tR, tLease, tAgo, 4*tR, -1, true, "ok,ok", "pre_closed")
		run(leader, tR, tLease, tAgo, 4*tR, 2077*time.Millisecond, true, ".", "pre_closed")
	}

	for i := 0; i < vfutil.Scale(400, 6000); i++ {
		leader := r.Chance(2, 3)
		// renew period, lease >= 3 periods (ClusterConfig.fix), multiples of 100 ms
		R := time.Duration(r.Range(10, 300)) * 100 * time.Millisecond
		lease := 3*R + time.Duration(r.Range(0, 60))*100*time.Millisecond
		holdMs := int64(lease/time.Second)*1000 - R.Milliseconds()
		ago := time.Duration(r.Range(1, 9)) * 100 * time.Millisecond
		if holdMs <= 0 || holdMs%R.Milliseconds() == 0 || (holdMs-ago.Milliseconds())%R.Milliseconds() == 0 || ago.Milliseconds() >= holdMs {
			continue
		}
		n := r.Intn(9)
		var p []string
		slow := 0
		for j := 0; j < n; j++ {
			good, bad := "ok", []string{"nl", "err"}
			if !leader {
				good, bad = "fl", []string{"ld", "err"}
			}
			switch x := r.Intn(10); {
			case x < 4:
				p = append(p, good)
			case x < 7 && slow < 6:
				// a slow answer: a fraction of the period up to a few periods (also longer than the hold)
				d := int64(r.Range(1, 45)) * R.Milliseconds() / 10 / 100 * 100
				p = append(p, fmt.Sprintf("%s@%d", good, d))
				slow++
			case x < 9:
				p = append(p, vfutil.Pick(r, bad))
			default:
				p = append(p, "blk")
			}
			if p[len(p)-1] == "blk" {
				break
			}
		}
		ext := time.Duration(-1)
		if r.Chance(1, 5) {
			ext = time.Duration(r.Range(0, 8*int(R.Milliseconds())/100))*100*time.Millisecond + 77*time.Millisecond
		}
		hor := time.Duration(r.Range(1, len(p)+6))*R + R/2
		run(leader, R, lease, ago, hor, ext, false, render(p), "gen")
	}
}
