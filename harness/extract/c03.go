package main

// C03: regenerates the CRC64 table of pkg/digest/crc64.go and the constants
// the snapshot model depends on (RdbVersion, maxBinEntryBuffer, opcodes).

import (
	"fmt"
	"go/ast"
	"go/token"
	"os"
	"path/filepath"
	"sort"
	"strconv"
	"strings"
)

func genC03() {
	_, f := parseFile("pkg/digest/crc64.go")
	e := findVar(f, "crc64_table")
	if e == nil {
		die("crc64_table not found")
	}
	vals := intLits(e, "crc64_table")
	var sb strings.Builder
	sb.WriteString(header)
	sb.WriteString("namespace GunYu.Gen\n\n")
	sb.WriteString(fmt.Sprintf("/-- pkg/digest/crc64.go `crc64_table` (%d entries) -/\n", len(vals)))
	sb.WriteString("def crc64Table : Array (BitVec 64) := #[\n")
	for i, v := range vals {
		sb.WriteString(fmt.Sprintf("  0x%016x#64", v))
		if i != len(vals)-1 {
			sb.WriteString(",")
		}
		if i%4 == 3 {
			sb.WriteString("\n")
		}
	}
	sb.WriteString("]\n\nend GunYu.Gen\n")
	writeIfChanged(filepath.Join(*out, "Crc64Table.lean"), sb.String())
	facts["crc64tab_len"] = len(vals)

	// constants: every `Rdb*`/`rdb*` integer constant of pkg/rdb/const.go and
	// RdbVersion; compared with the expectation in checks/p/C03.py and written
	// to Gen/RdbConst.lean for the model.
	_, cf := parseFile("pkg/rdb/const.go")
	consts := map[string]int64{}
	var order []string
	for _, d := range cf.Decls {
		gd, ok := d.(*ast.GenDecl)
		if !ok {
			continue
		}
		if gd.Tok == token.VAR {
			for _, s := range gd.Specs {
				vs := s.(*ast.ValueSpec)
				for i, n := range vs.Names {
					if n.Name == "RdbVersion" && i < len(vs.Values) {
						if bl, ok := vs.Values[i].(*ast.BasicLit); ok {
							v, _ := strconv.ParseInt(bl.Value, 0, 64)
							consts["RdbVersion"] = v
							order = append(order, "RdbVersion")
						}
					}
				}
			}
			continue
		}
		if gd.Tok != token.CONST {
			continue
		}
		for _, s := range gd.Specs {
			vs := s.(*ast.ValueSpec)
			for i, n := range vs.Names {
				if i >= len(vs.Values) {
					continue
				}
				bl, ok := vs.Values[i].(*ast.BasicLit)
				if !ok || bl.Kind != token.INT {
					continue // iota block / strings
				}
				v, err := strconv.ParseInt(bl.Value, 0, 64)
				if err != nil {
					continue
				}
				consts[n.Name] = v
				order = append(order, n.Name)
			}
		}
	}
	// maxBinEntryBuffer = 16 * 1024 * 1024 (a constant expression)
	_, of := parseFile("pkg/rdb/rdb_object.go")
	if mb := findVar(of, "maxBinEntryBuffer"); mb != nil {
		if v, ok := evalConstInt(mb); ok {
			consts["maxBinEntryBuffer"] = v
			order = append(order, "maxBinEntryBuffer")
		}
	}
	var cb strings.Builder
	cb.WriteString(header)
	cb.WriteString("namespace GunYu.Gen.Rdb\n\n")
	for _, n := range order {
		cb.WriteString(fmt.Sprintf("def c_%s : Nat := %d\n", n, consts[n]))
	}
	cb.WriteString("\nend GunYu.Gen.Rdb\n")
	writeIfChanged(filepath.Join(*out, "RdbConst.lean"), cb.String())
	fc := map[string]interface{}{}
	for k, v := range consts {
		fc[k] = v
	}
	facts["rdb_consts"] = fc

	// the stream expansion keeps idle consumers only when the loader is built with
	// rdb.WithStreamIdleConsumers() (repair of C03-F1): the model assumes it, so every production
	// call site that parses a snapshot (rdb.ParseRdb / rdb.NewLoader outside tests) must pass it -
	// directly in the enclosing function or through RedisOutput.rdbParseOptions
	var optSites, parseSites []string
	for _, dir := range []string{"syncer", "cmd"} {
		ents, err := os.ReadDir(filepath.Join(*repo, dir))
		if err != nil {
			die("read %s: %v", dir, err)
		}
		for _, e := range ents {
			n := e.Name()
			if e.IsDir() || !strings.HasSuffix(n, ".go") || strings.HasSuffix(n, "_test.go") {
				continue
			}
			_, f := parseFile(filepath.Join(dir, n))
			for _, d := range f.Decls {
				fd, ok := d.(*ast.FuncDecl)
				if !ok || fd.Body == nil {
					continue
				}
				ast.Inspect(fd.Body, func(nd ast.Node) bool {
					c, ok := nd.(*ast.CallExpr)
					if !ok {
						return true
					}
					if sel, ok := c.Fun.(*ast.SelectorExpr); ok {
						if x, ok := sel.X.(*ast.Ident); ok && x.Name == "rdb" {
							switch sel.Sel.Name {
							case "WithStreamIdleConsumers":
								optSites = append(optSites, dir+"/"+n+":"+fd.Name.Name)
							case "ParseRdb", "NewLoader":
								parseSites = append(parseSites, dir+"/"+n+":"+fd.Name.Name+":"+sel.Sel.Name)
							}
						}
					}
					return true
				})
			}
		}
	}
	if optSites == nil {
		optSites = []string{}
	}
	if parseSites == nil {
		parseSites = []string{}
	}
	facts["idle_consumer_option_sites"] = optSites
	facts["rdb_parse_sites"] = parseSites

	// process-global state reached from the snapshot path (dimension audit, session 5): every
	// package-level `var` of the packages the property's anchors live in, and every statement outside a
	// declaration that assigns one (`pkg:func:name`). The models treat them as constants.
	var pkgVars, pkgVarWrites []string
	for _, dir := range []string{"pkg/rdb", "pkg/rdbrestore", "pkg/redis/types", "pkg/digest"} {
		ents, err := os.ReadDir(filepath.Join(*repo, dir))
		if err != nil {
			die("read %s: %v", dir, err)
		}
		names := map[string]bool{}
		var files []*ast.File
		for _, e := range ents {
			n := e.Name()
			if e.IsDir() || !strings.HasSuffix(n, ".go") || strings.HasSuffix(n, "_test.go") {
				continue
			}
			_, f := parseFile(filepath.Join(dir, n))
			files = append(files, f)
			for _, d := range f.Decls {
				if gd, ok := d.(*ast.GenDecl); ok && gd.Tok == token.VAR {
					for _, sp := range gd.Specs {
						for _, id := range sp.(*ast.ValueSpec).Names {
							if id.Name != "_" {
								names[id.Name] = true
								pkgVars = append(pkgVars, dir+":"+id.Name)
							}
						}
					}
				}
			}
		}
		for _, f := range files {
			for _, d := range f.Decls {
				fd, ok := d.(*ast.FuncDecl)
				if !ok || fd.Body == nil {
					continue
				}
				note := func(e ast.Expr) {
					for {
						switch x := e.(type) {
						case *ast.IndexExpr:
							e = x.X
							continue
						case *ast.ParenExpr:
							e = x.X
							continue
						case *ast.StarExpr:
							e = x.X
							continue
						}
						break
					}
					id, ok := e.(*ast.Ident)
					if !ok || !names[id.Name] {
						return
					}
					if id.Obj != nil && id.Obj.Pos() >= fd.Pos() && id.Obj.Pos() < fd.End() {
						return // a local of that name
					}
					pkgVarWrites = append(pkgVarWrites, dir+":"+fd.Name.Name+":"+id.Name)
				}
				ast.Inspect(fd.Body, func(nd ast.Node) bool {
					switch x := nd.(type) {
					case *ast.AssignStmt:
						if x.Tok != token.DEFINE {
							for _, l := range x.Lhs {
								note(l)
							}
						}
					case *ast.IncDecStmt:
						note(x.X)
					case *ast.UnaryExpr:
						if x.Op == token.AND {
							note(x.X) // address taken: may be written elsewhere
						}
					}
					return true
				})
			}
		}
	}
	sort.Strings(pkgVars)
	sort.Strings(pkgVarWrites)
	if pkgVarWrites == nil {
		pkgVarWrites = []string{}
	}
	facts["c03_pkg_vars"] = pkgVars
	facts["c03_pkg_var_writes"] = pkgVarWrites
}

func evalConstInt(e ast.Expr) (int64, bool) {
	switch x := e.(type) {
	case *ast.BasicLit:
		if x.Kind != token.INT {
			return 0, false
		}
		v, err := strconv.ParseInt(x.Value, 0, 64)
		return v, err == nil
	case *ast.ParenExpr:
		return evalConstInt(x.X)
	case *ast.BinaryExpr:
		a, ok1 := evalConstInt(x.X)
		b, ok2 := evalConstInt(x.Y)
		if !ok1 || !ok2 {
			return 0, false
		}
		switch x.Op {
		case token.MUL:
			return a * b, true
		case token.ADD:
			return a + b, true
		case token.SUB:
			return a - b, true
		case token.SHL:
			return a << uint(b), true
		}
	}
	return 0, false
}
