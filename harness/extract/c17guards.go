package main

// C17: the DECISIONS of GetCheckpoint / DelStaleCheckpoint regenerated as Lean Bool functions
// (lean/GunYu/Gen/CheckpointGuards.lean; equivalence with the hand model: Props/C17Gen.lean):
//   cpBetter      GetCheckpoint: the condition under which the record of a database replaces the best one so far
//   staleNewer    DelStaleCheckpoint, first loop: the record becomes the newest
//   staleFound    … the record is a candidate for deletion
//   staleSkip     … second loop: the candidate is spared (`continue`)
//   staleNewest0  the initial value of `newest`
// The functions do I/O between these decisions, so gofn (whole pure functions) does not apply; the conditions are
// translated expression by expression (comparisons of int64 values, && || !, parentheses); anything else - also a
// condition moved into a helper - makes this generator fail (gen_errors[c17guards]: a broken tie, never a guess).

import (
	"fmt"
	"go/ast"
	"go/token"
	"strings"
)

type c17gEnv struct {
	ints  map[string]string // printed Go expression -> Lean variable (Int)
	bools map[string]string // printed Go expression -> Lean variable (Bool)
}

func c17gExpr(fset *token.FileSet, env *c17gEnv, e ast.Expr) (string, bool) { // (lean, isBool)
	key := c17Print(fset, e)
	if v, ok := env.bools[key]; ok {
		return v, true
	}
	if v, ok := env.ints[key]; ok {
		return v, false
	}
	switch x := e.(type) {
	case *ast.ParenExpr:
		s, b := c17gExpr(fset, env, x.X)
		return "(" + s + ")", b
	case *ast.BasicLit:
		if x.Kind == token.INT {
			return "(" + x.Value + " : Int)", false
		}
	case *ast.UnaryExpr:
		if x.Op == token.NOT {
			s, b := c17gExpr(fset, env, x.X)
			if !b {
				die("guard: ! applied to a non-boolean %s", key)
			}
			return "(!" + s + ")", true
		}
		if x.Op == token.SUB {
			if bl, ok := x.X.(*ast.BasicLit); ok && bl.Kind == token.INT {
				return "(-" + bl.Value + " : Int)", false
			}
		}
	case *ast.CallExpr: // int64(<int literal>)
		if id, ok := x.Fun.(*ast.Ident); ok && id.Name == "int64" && len(x.Args) == 1 {
			s, b := c17gExpr(fset, env, x.Args[0])
			if !b {
				return s, false
			}
		}
	case *ast.BinaryExpr:
		l, lb := c17gExpr(fset, env, x.X)
		r, rb := c17gExpr(fset, env, x.Y)
		switch x.Op {
		case token.LAND, token.LOR:
			if !lb || !rb {
				die("guard: %s of non-booleans in %s", x.Op, key)
			}
			op := "&&"
			if x.Op == token.LOR {
				op = "||"
			}
			return "(" + l + " " + op + " " + r + ")", true
		case token.GTR, token.LSS, token.GEQ, token.LEQ, token.EQL, token.NEQ:
			if lb || rb {
				die("guard: comparison of booleans in %s", key)
			}
			op := map[token.Token]string{token.GTR: ">", token.LSS: "<", token.GEQ: "≥", token.LEQ: "≤", token.EQL: "=", token.NEQ: "≠"}[x.Op]
			return "decide (" + l + " " + op + " " + r + ")", true
		}
	}
	die("guard: cannot translate %s", key)
	return "", false
}

func c17gFunc(f *ast.File, name string) *ast.FuncDecl {
	for _, d := range f.Decls {
		if fd, ok := d.(*ast.FuncDecl); ok && fd.Name.Name == name && fd.Recv == nil && fd.Body != nil {
			return fd
		}
	}
	die("checkpoint.go: func %s not found", name)
	return nil
}

// the if statements directly inside the body of a range loop over `mp` / a slice
func c17gIfs(body *ast.BlockStmt) []*ast.IfStmt {
	var out []*ast.IfStmt
	for _, st := range body.List {
		if is, ok := st.(*ast.IfStmt); ok {
			out = append(out, is)
		}
	}
	return out
}

func genC17Guards() {
	fset, f := parseFile("pkg/redis/checkpoint/checkpoint.go")

	// ---- GetCheckpoint
	gc := c17gFunc(f, "GetCheckpoint")
	var loop *ast.RangeStmt
	for _, st := range gc.Body.List {
		if rs, ok := st.(*ast.RangeStmt); ok {
			if loop != nil {
				die("GetCheckpoint: more than one range loop")
			}
			loop = rs
		}
	}
	if loop == nil {
		die("GetCheckpoint: range loop not found")
	}
	fetched, acc := "", ""
	var sel *ast.IfStmt
	for _, st := range loop.Body.List {
		if as, ok := st.(*ast.AssignStmt); ok && len(as.Rhs) == 1 {
			if ce, ok := as.Rhs[0].(*ast.CallExpr); ok {
				if id, ok := ce.Fun.(*ast.Ident); ok && id.Name == "fetchCheckpoint" {
					fetched = c17Print(fset, as.Lhs[0])
				}
			}
		}
	}
	for _, is := range c17gIfs(loop.Body) {
		for _, st := range is.Body.List {
			as, ok := st.(*ast.AssignStmt)
			if !ok || len(as.Lhs) != 1 {
				continue
			}
			if l, ok := as.Lhs[0].(*ast.StarExpr); ok {
				if r, ok := as.Rhs[0].(*ast.StarExpr); ok && c17Print(fset, r.X) == fetched {
					acc = c17Print(fset, l.X)
					if sel != nil {
						die("GetCheckpoint: two selecting if statements")
					}
					sel = is
				}
			}
		}
	}
	if fetched == "" || acc == "" || sel == nil || sel.Else != nil || sel.Init != nil {
		die("GetCheckpoint: `<fetched>, err := fetchCheckpoint(…)` / `if <cond> { recDb = db; *<best> = *<fetched> }` not found")
	}
	env := &c17gEnv{ints: map[string]string{fetched + ".Offset": "tOff", fetched + ".Mtime": "tMt", acc + ".Offset": "cOff", acc + ".Mtime": "cMt"}, bools: map[string]string{}}
	better, b := c17gExpr(fset, env, sel.Cond)
	if !b {
		die("GetCheckpoint: the selecting condition is not boolean")
	}

	// ---- DelStaleCheckpoint
	ds := c17gFunc(f, "DelStaleCheckpoint")
	var loops []*ast.RangeStmt
	newest0 := ""
	for _, st := range ds.Body.List {
		if rs, ok := st.(*ast.RangeStmt); ok {
			loops = append(loops, rs)
		}
		if as, ok := st.(*ast.AssignStmt); ok && as.Tok == token.DEFINE && len(as.Lhs) == 1 && c17Print(fset, as.Lhs[0]) == "newest" {
			s, isb := c17gExpr(fset, &c17gEnv{ints: map[string]string{}, bools: map[string]string{}}, as.Rhs[0])
			if isb {
				die("DelStaleCheckpoint: newest is boolean")
			}
			newest0 = s
		}
	}
	if len(loops) != 2 || newest0 == "" {
		die("DelStaleCheckpoint: expected `newest := …` and two range loops, found %d loops", len(loops))
	}
	rec := ""
	for _, st := range loops[0].Body.List {
		if as, ok := st.(*ast.AssignStmt); ok && len(as.Rhs) == 1 {
			if ce, ok := as.Rhs[0].(*ast.CallExpr); ok {
				if id, ok := ce.Fun.(*ast.Ident); ok && id.Name == "fetchCheckpoint" {
					rec = c17Print(fset, as.Lhs[0])
				}
			}
		}
	}
	if rec == "" {
		die("DelStaleCheckpoint: fetchCheckpoint call not found in the first loop")
	}
	env1 := &c17gEnv{ints: map[string]string{rec + ".Offset": "off", "newest": "newest"}, bools: map[string]string{}}
	newer, found := "", ""
	for _, is := range c17gIfs(loops[0].Body) {
		if is.Else != nil {
			die("DelStaleCheckpoint: else branch in the first loop")
		}
		body := c17Print(fset, is.Body)
		switch {
		case strings.Contains(body, "newestDb = "):
			if !strings.Contains(body, "newest = "+rec+".Offset") {
				die("DelStaleCheckpoint: the newest branch does not record the offset: %s", body)
			}
			newer, _ = c17gExpr(fset, env1, is.Cond)
		case strings.Contains(body, "append("):
			found, _ = c17gExpr(fset, env1, is.Cond)
		case strings.Contains(body, "return"):
			// the error return of fetchCheckpoint
		default:
			die("DelStaleCheckpoint: unexpected if in the first loop: %s", body)
		}
	}
	var skipIf *ast.IfStmt
	for _, is := range c17gIfs(loops[1].Body) {
		if len(is.Body.List) == 1 {
			if bs, ok := is.Body.List[0].(*ast.BranchStmt); ok && bs.Tok == token.CONTINUE {
				if skipIf != nil {
					die("DelStaleCheckpoint: two `continue` guards in the second loop")
				}
				skipIf = is
			}
		}
	}
	if newer == "" || found == "" || skipIf == nil || skipIf.Else != nil {
		die("DelStaleCheckpoint: guards not found (newer %q, found %q)", newer, found)
	}
	// the loop variables: `for i, db := range dbs { cpi := cpis[i]`
	dbVar := c17Print(fset, loops[1].Value)
	rec2 := ""
	for _, st := range loops[1].Body.List {
		if as, ok := st.(*ast.AssignStmt); ok && as.Tok == token.DEFINE && len(as.Lhs) == 1 {
			if _, ok := as.Rhs[0].(*ast.IndexExpr); ok {
				rec2 = c17Print(fset, as.Lhs[0])
			}
		}
	}
	if rec2 == "" || dbVar == "" {
		die("DelStaleCheckpoint: second loop `for i, db := range dbs { cpi := cpis[i] …` not found")
	}
	env2 := &c17gEnv{ints: map[string]string{rec2 + ".Mtime": "mt", "before": "before"},
		bools: map[string]string{dbVar + " == newestDb": "isNewestDb", "newestDb == " + dbVar: "isNewestDb", "exceptNewest": "exceptNewest"}}
	skip, _ := c17gExpr(fset, env2, skipIf.Cond)

	// ---- SetCheckpoint stamps the time of the WRITE (Model/Checkpoint.lean cpEntries: `now`), never a time it was handed:
	// every statement of its body that mentions MTimeKey, and every mention of `.Mtime` in it (none expected)
	sc := c17gFunc(f, "SetCheckpoint")
	var mt []string
	for _, st := range sc.Body.List {
		txt := c17Print(fset, st)
		if strings.Contains(txt, "MTimeKey") || strings.Contains(txt, ".Mtime") || strings.Contains(txt, "mtime") {
			mt = append(mt, txt)
		}
	}
	facts["c17_setcheckpoint_mtime"] = mt

	var sb strings.Builder
	sb.WriteString(header)
	sb.WriteString("namespace GunYu.Gen\n\n")
	sb.WriteString(fmt.Sprintf("/-- GetCheckpoint: `if %s` — the record (tOff, tMt) of a database replaces the best so far (cOff, cMt) -/\n", c17Print(fset, sel.Cond)))
	sb.WriteString("def cpBetter (tOff tMt cOff cMt : Int) : Bool := " + better + "\n\n")
	sb.WriteString("/-- DelStaleCheckpoint: `newest := …` -/\ndef staleNewest0 : Int := " + newest0 + "\n\n")
	sb.WriteString("/-- DelStaleCheckpoint, first loop: the record becomes the newest -/\ndef staleNewer (off newest : Int) : Bool := " + newer + "\n\n")
	sb.WriteString("/-- DelStaleCheckpoint, first loop: the record is a candidate -/\ndef staleFound (off : Int) : Bool := " + found + "\n\n")
	sb.WriteString(fmt.Sprintf("/-- DelStaleCheckpoint, second loop: `if %s { continue }` -/\n", c17Print(fset, skipIf.Cond)))
	sb.WriteString("def staleSkip (isNewestDb exceptNewest : Bool) (mt before : Int) : Bool := " + skip + "\n\n")
	sb.WriteString("end GunYu.Gen\n")
	writeIfChanged(*out+"/CheckpointGuards.lean", sb.String())
}
