package main

// C18: the slot-grouping decision of buildBisyncReplayUnitWithMode
// (syncer/bisync.go) translated to Lean (Gen/FnBisyncUnitBuild.lean). A small
// dedicated translator: it walks the function's control skeleton and turns
// the guards, the assignments to the three loop variables, the error returns
// and the returned literal into Lean text. Whatever it does not recognise makes
// the generator fail (die) — nothing is approximated.
//
// Locals are resolved by DEFINITION, not by spelling: the parameters by their
// declared types, the three variables of the var block by their types (uint16 /
// bool / int), the range variables by position, the key slot by its
// `:= redispkg.KeyToSlot(<range value>)`, the resolver's answer by the position
// in `a, b, c := resolver(cmd.Cmd, cmd.Args)`. Each is given a fixed Lean name.

import (
	"fmt"
	"go/ast"
	"go/token"
	"path/filepath"
	"strconv"
	"strings"
)

const c18sFn = "buildBisyncReplayUnitWithMode"

type c18sVar struct {
	lean string // fixed Lean name
	typ  string // "bool", "nat", "list", "mode", "err", "resolver", "cmd", "key"
}

type c18sScope struct {
	vars    map[string]c18sVar
	derefOK bool // inside `if slotMode.forceSlot != nil { … }`
}

func (s *c18sScope) with(name string, v c18sVar) *c18sScope {
	n := &c18sScope{vars: map[string]c18sVar{}, derefOK: s.derefOK}
	for k, x := range s.vars {
		n.vars[k] = x
	}
	if name != "_" {
		// a new Go name that shadows an older one takes its place
		n.vars[name] = v
	}
	return n
}

type c18sTr struct {
	fset     *token.FileSet
	literals []string // error literals, source order
}

func (t *c18sTr) pos(n ast.Node) string {
	p := t.fset.Position(n.Pos())
	return fmt.Sprintf("%s:%d", filepath.Base(p.Filename), p.Line)
}

func (t *c18sTr) src(n ast.Node) string { return c10Render(t.fset, n) }

func c18sIsNil(e ast.Expr) bool {
	id, ok := e.(*ast.Ident)
	return ok && id.Name == "nil"
}

// modeField recognises `<slotMode>.<field>`.
func (t *c18sTr) modeField(sc *c18sScope, e ast.Expr) (string, bool) {
	sel, ok := e.(*ast.SelectorExpr)
	if !ok {
		return "", false
	}
	id, ok := sel.X.(*ast.Ident)
	if !ok {
		return "", false
	}
	v, ok := sc.vars[id.Name]
	if !ok || v.typ != "mode" {
		return "", false
	}
	return sel.Sel.Name, true
}

// expr translates an expression of the closed vocabulary; returns Lean text and "bool" / "nat".
func (t *c18sTr) expr(sc *c18sScope, e ast.Expr) (string, string) {
	switch x := e.(type) {
	case *ast.ParenExpr:
		return t.expr(sc, x.X)
	case *ast.Ident:
		if x.Name == "true" || x.Name == "false" {
			if _, shadow := sc.vars[x.Name]; !shadow {
				return x.Name, "bool"
			}
		}
		v, ok := sc.vars[x.Name]
		if !ok {
			die("%s: %s: identifier `%s` is not one this translator knows", c18sFn, t.pos(x), x.Name)
		}
		if v.typ != "bool" && v.typ != "nat" {
			die("%s: %s: `%s` used as a plain value", c18sFn, t.pos(x), x.Name)
		}
		return strings.TrimPrefix(v.lean, "st:"), v.typ
	case *ast.BasicLit:
		if x.Kind != token.INT {
			die("%s: %s: literal %s", c18sFn, t.pos(x), x.Value)
		}
		n, err := strconv.ParseUint(strings.ReplaceAll(x.Value, "_", ""), 0, 63)
		if err != nil {
			die("%s: %s: literal %s: %v", c18sFn, t.pos(x), x.Value, err)
		}
		return strconv.FormatUint(n, 10), "nat"
	case *ast.CallExpr:
		if id, ok := x.Fun.(*ast.Ident); ok && id.Name == "len" && len(x.Args) == 1 {
			if _, shadow := sc.vars["len"]; shadow {
				die("%s: %s: `len` is shadowed", c18sFn, t.pos(x))
			}
			if a, ok := x.Args[0].(*ast.Ident); ok {
				if v, ok := sc.vars[a.Name]; ok && v.typ == "list" {
					return v.lean + ".length", "nat"
				}
			}
		}
		die("%s: %s: call `%s` in a guard", c18sFn, t.pos(x), t.src(x))
	case *ast.SelectorExpr:
		if f, ok := t.modeField(sc, x); ok {
			if f == "allowCrossSlot" {
				return "m.allowCrossSlot", "bool"
			}
			die("%s: %s: slot-mode field `%s` used as a value", c18sFn, t.pos(x), f)
		}
		die("%s: %s: selector `%s`", c18sFn, t.pos(x), t.src(x))
	case *ast.StarExpr:
		if f, ok := t.modeField(sc, x.X); ok && f == "forceSlot" {
			if !sc.derefOK {
				die("%s: %s: `%s` outside `if <mode>.forceSlot != nil`", c18sFn, t.pos(x), t.src(x))
			}
			return "(m.forceSlot.getD 0)", "nat"
		}
		die("%s: %s: dereference `%s`", c18sFn, t.pos(x), t.src(x))
	case *ast.UnaryExpr:
		if x.Op != token.NOT {
			die("%s: %s: unary operator %s", c18sFn, t.pos(x), x.Op)
		}
		a, ty := t.expr(sc, x.X)
		if ty != "bool" {
			die("%s: %s: `!` on a non-boolean", c18sFn, t.pos(x))
		}
		return "(!" + a + ")", "bool"
	case *ast.BinaryExpr:
		switch x.Op {
		case token.LAND, token.LOR:
			a, ta := t.expr(sc, x.X)
			b, tb := t.expr(sc, x.Y)
			if ta != "bool" || tb != "bool" {
				die("%s: %s: `%s` on non-booleans", c18sFn, t.pos(x), x.Op)
			}
			op := "&&"
			if x.Op == token.LOR {
				op = "||"
			}
			return "(" + a + " " + op + " " + b + ")", "bool"
		case token.EQL, token.NEQ:
			// comparisons with nil: <mode>.forceSlot, the resolver's error
			other := ast.Expr(nil)
			if c18sIsNil(x.Y) {
				other = x.X
			} else if c18sIsNil(x.X) {
				other = x.Y
			}
			if other != nil {
				if _, shadow := sc.vars["nil"]; shadow {
					die("%s: %s: `nil` is shadowed", c18sFn, t.pos(x))
				}
				if f, ok := t.modeField(sc, other); ok && f == "forceSlot" {
					if x.Op == token.EQL {
						return "m.forceSlot.isNone", "bool"
					}
					return "m.forceSlot.isSome", "bool"
				}
				if id, ok := other.(*ast.Ident); ok {
					if v, ok := sc.vars[id.Name]; ok && v.typ == "err" {
						if x.Op == token.EQL {
							return "(!" + v.lean + ")", "bool"
						}
						return v.lean, "bool"
					}
				}
				die("%s: %s: comparison with nil `%s`", c18sFn, t.pos(x), t.src(x))
			}
			a, ta := t.expr(sc, x.X)
			b, tb := t.expr(sc, x.Y)
			if ta != tb {
				die("%s: %s: `%s` compares a %s with a %s", c18sFn, t.pos(x), t.src(x), ta, tb)
			}
			op := "=="
			if x.Op == token.NEQ {
				op = "!="
			}
			return "(" + a + " " + op + " " + b + ")", "bool"
		}
		die("%s: %s: operator `%s` in `%s`", c18sFn, t.pos(x), x.Op, t.src(x))
	}
	die("%s: %s: expression `%s`", c18sFn, t.pos(e), t.src(e))
	return "", ""
}

func (t *c18sTr) cond(sc *c18sScope, e ast.Expr) string {
	s, ty := t.expr(sc, e)
	if ty != "bool" {
		die("%s: %s: condition `%s` is not boolean", c18sFn, t.pos(e), t.src(e))
	}
	return s
}

var c18sErrTable = []struct{ needle, ctor string }{
	{"empty replay unit", "empty"},
	{"resolve keys for command", "resolve"},
	{"is not slot-routable", "notRoutable"},
	{"has no routed keys", "noKeys"},
	{"is cross-slot", "crossSlot"},
	{"no business keys", "noBusinessKeys"},
}

// errReturn recognises `return nil, fmt.Errorf("<literal>", …)`.
func (t *c18sTr) errReturn(rs *ast.ReturnStmt) (string, bool) {
	if len(rs.Results) != 2 || !c18sIsNil(rs.Results[0]) {
		return "", false
	}
	ce, ok := rs.Results[1].(*ast.CallExpr)
	if !ok {
		return "", false
	}
	sel, ok := ce.Fun.(*ast.SelectorExpr)
	if !ok || sel.Sel.Name != "Errorf" || len(ce.Args) < 1 {
		return "", false
	}
	if id, ok := sel.X.(*ast.Ident); !ok || id.Name != "fmt" {
		return "", false
	}
	lit := c10Str(ce.Args[0], c18sFn+": "+t.pos(rs)+": fmt.Errorf format")
	ctor := ""
	for _, e := range c18sErrTable {
		if strings.Contains(lit, e.needle) {
			if ctor != "" {
				die("%s: %s: error literal %q matches two error classes", c18sFn, t.pos(rs), lit)
			}
			ctor = e.ctor
		}
	}
	if ctor == "" {
		die("%s: %s: unknown error literal %q", c18sFn, t.pos(rs), lit)
	}
	t.literals = append(t.literals, lit)
	return ctor, true
}

// block translates a statement list. `end` gives the Lean text (indented lines)
// for falling off the end of the list; `ret` translates a return statement that is not an error
// return (nil: none allowed); `errOK`: error returns allowed; `tail` translates
// a statement the generic part does not know (must say whether it consumed it;
// it is only offered the LAST statement of the outermost list).
type c18sCtx struct {
	errOK bool
	ret   func(sc *c18sScope, rs *ast.ReturnStmt, ind string) string
	tail  func(sc *c18sScope, s ast.Stmt, ind string) (string, bool)
}

func (t *c18sTr) block(sc *c18sScope, cx *c18sCtx, list []ast.Stmt, ind string, end func(ind string) string, outer bool) string {
	if len(list) == 0 {
		return end(ind)
	}
	s := list[0]
	rest := func(ind string) string { return t.block(sc, cx, list[1:], ind, end, outer) }
	switch x := s.(type) {
	case *ast.ReturnStmt:
		if len(list) != 1 {
			die("%s: %s: statements after a return", c18sFn, t.pos(x))
		}
		if ctor, ok := t.errReturn(x); ok {
			if !cx.errOK {
				die("%s: %s: error return where the translation has no error result", c18sFn, t.pos(x))
			}
			return ind + ".error ." + ctor + "\n"
		}
		if cx.ret != nil {
			return cx.ret(sc, x, ind)
		}
		die("%s: %s: return `%s`", c18sFn, t.pos(x), t.src(x))
	case *ast.AssignStmt:
		if x.Tok != token.ASSIGN || len(x.Lhs) != 1 || len(x.Rhs) != 1 {
			break
		}
		id, ok := x.Lhs[0].(*ast.Ident)
		if !ok {
			break
		}
		v, ok := sc.vars[id.Name]
		if !ok || !strings.HasPrefix(v.lean, "st:") {
			die("%s: %s: assignment to `%s`, not one of the three loop variables", c18sFn, t.pos(x), id.Name)
		}
		r, ty := t.expr(sc, x.Rhs[0])
		if ty != v.typ {
			die("%s: %s: `%s` assigns a %s to a %s", c18sFn, t.pos(x), t.src(x), ty, v.typ)
		}
		return ind + "let " + strings.TrimPrefix(v.lean, "st:") + " := " + r + "\n" + rest(ind)
	case *ast.IncDecStmt:
		id, ok := x.X.(*ast.Ident)
		if !ok || x.Tok != token.INC {
			break
		}
		v, ok := sc.vars[id.Name]
		if !ok || !strings.HasPrefix(v.lean, "st:") || v.typ != "nat" {
			die("%s: %s: `%s` is not the key counter", c18sFn, t.pos(x), t.src(x))
		}
		n := strings.TrimPrefix(v.lean, "st:")
		return ind + "let " + n + " := " + n + " + 1\n" + rest(ind)
	case *ast.IfStmt:
		if x.Init != nil {
			die("%s: %s: if with an init statement", c18sFn, t.pos(x))
		}
		c := t.cond(sc, x.Cond)
		thenSc := sc
		if be, ok := x.Cond.(*ast.BinaryExpr); ok && be.Op == token.NEQ && c == "m.forceSlot.isSome" {
			thenSc = sc.with("_", c18sVar{})
			thenSc.derefOK = true
		}
		// a branch that does not return continues with the statements after the if
		out := ind + "if " + c + " then\n"
		out += t.block(thenSc, cx, x.Body.List, ind+"  ", rest, false)
		cur := x.Else
		for cur != nil {
			// `else { if … }` reads as `else if …`
			if b, ok := cur.(*ast.BlockStmt); ok && len(b.List) == 1 {
				if in, ok := b.List[0].(*ast.IfStmt); ok {
					cur = in
				}
			}
			if ei, ok := cur.(*ast.IfStmt); ok {
				if ei.Init != nil {
					die("%s: %s: if with an init statement", c18sFn, t.pos(ei))
				}
				out += ind + "else if " + t.cond(sc, ei.Cond) + " then\n"
				out += t.block(sc, cx, ei.Body.List, ind+"  ", rest, false)
				cur = ei.Else
				continue
			}
			b := cur.(*ast.BlockStmt)
			out += ind + "else\n" + t.block(sc, cx, b.List, ind+"  ", rest, false)
			return out
		}
		out += ind + "else\n" + rest(ind+"  ")
		return out
	}
	if outer && len(list) == 1 && cx.tail != nil {
		if s, ok := cx.tail(sc, s, ind); ok {
			return s
		}
	}
	die("%s: %s: statement `%s` is not one this translator knows", c18sFn, t.pos(s), t.src(s))
	return ""
}

const c18sState = "(slot, slotKnown, keysSeen)"

func genC18Slot() {
	fset, f := parseFile("syncer/bisync.go")
	t := &c18sTr{fset: fset}
	fd := c10FindFunc(f, c18sFn)
	if fd == nil || fd.Body == nil || fd.Recv != nil {
		die("%s not found (as a plain function)", c18sFn)
	}
	// the import names of redispkg / checkpoint
	importName := func(suffix, def string) string {
		for _, im := range f.Imports {
			if strings.HasSuffix(strings.Trim(im.Path.Value, "\""), suffix) {
				if im.Name != nil {
					return im.Name.Name
				}
				return def
			}
		}
		die("%s: syncer/bisync.go does not import …%s", c18sFn, suffix)
		return ""
	}
	redisPkg := importName("/pkg/redis", "redis")
	cpPkg := importName("/pkg/redis/checkpoint", "checkpoint")

	// ---- parameters, by declared type
	top := &c18sScope{vars: map[string]c18sVar{}}
	found := map[string]string{}
	for _, fl := range fd.Type.Params.List {
		ty := c10Render(fset, fl.Type)
		var v c18sVar
		switch ty {
		case "bisyncCommandKeyResolver":
			v = c18sVar{"r", "resolver"}
		case "[]bisyncAofCommand":
			v = c18sVar{"cmds", "list"}
		case "bisyncSlotMode":
			v = c18sVar{"m", "mode"}
		default:
			continue
		}
		if len(fl.Names) != 1 {
			die("%s: expected one parameter of type %s", c18sFn, ty)
		}
		if _, dup := found[v.typ]; dup {
			die("%s: two parameters of type %s", c18sFn, ty)
		}
		found[v.typ] = fl.Names[0].Name
		top = top.with(fl.Names[0].Name, v)
	}
	for _, k := range []string{"resolver", "list", "mode"} {
		if found[k] == "" {
			die("%s: parameter of kind %s not found", c18sFn, k)
		}
	}
	if rs := fd.Type.Results; rs == nil || len(rs.List) != 2 || c10Render(fset, rs.List[0].Type) != "*bisyncReplayUnit" || c10Render(fset, rs.List[1].Type) != "error" {
		die("%s: result type is not (*bisyncReplayUnit, error)", c18sFn)
	}

	// ---- split the body: prefix | var block | init | range cmds | post
	body := fd.Body.List
	varAt, rangeAt := -1, -1
	for i, s := range body {
		if ds, ok := s.(*ast.DeclStmt); ok {
			if gd, ok := ds.Decl.(*ast.GenDecl); ok && gd.Tok == token.VAR {
				if varAt >= 0 {
					die("%s: %s: a second var block", c18sFn, t.pos(s))
				}
				varAt = i
			}
		}
		if _, ok := s.(*ast.RangeStmt); ok {
			if rangeAt >= 0 {
				die("%s: %s: a second top-level range loop", c18sFn, t.pos(s))
			}
			rangeAt = i
		}
	}
	if varAt < 0 || rangeAt < 0 || rangeAt < varAt {
		die("%s: expected a var block followed by a `for … range` over the commands", c18sFn)
	}

	// prefix: guards with error returns; `if resolver == nil { resolver = default }` is skipped and recorded
	var prefix []ast.Stmt
	resolverDefault := []string{}
	for _, s := range body[:varAt] {
		if is, ok := s.(*ast.IfStmt); ok && is.Init == nil && is.Else == nil && len(is.Body.List) == 1 {
			if be, ok := is.Cond.(*ast.BinaryExpr); ok && be.Op == token.EQL && c18sIsNil(be.Y) {
				if id, ok := be.X.(*ast.Ident); ok && top.vars[id.Name].typ == "resolver" {
					as, ok := is.Body.List[0].(*ast.AssignStmt)
					if !ok || as.Tok != token.ASSIGN || len(as.Lhs) != 1 || len(as.Rhs) != 1 {
						die("%s: %s: unexpected body of the resolver default", c18sFn, t.pos(is))
					}
					l, ok1 := as.Lhs[0].(*ast.Ident)
					r, ok2 := as.Rhs[0].(*ast.Ident)
					if !ok1 || !ok2 || l.Name != id.Name || r.Name != "defaultBisyncCommandKeyResolver" {
						die("%s: %s: unexpected resolver default `%s`", c18sFn, t.pos(is), t.src(is))
					}
					resolverDefault = append(resolverDefault, t.src(is))
					continue
				}
			}
		}
		prefix = append(prefix, s)
	}

	// var block: one uint16, one bool, one int, no initial values
	stSc := top
	gd := body[varAt].(*ast.DeclStmt).Decl.(*ast.GenDecl)
	seen := map[string]bool{}
	for _, sp := range gd.Specs {
		vs := sp.(*ast.ValueSpec)
		if len(vs.Values) != 0 || vs.Type == nil {
			die("%s: %s: var block entry with an initial value or without a type", c18sFn, t.pos(vs))
		}
		for _, n := range vs.Names {
			var v c18sVar
			switch ty := c10Render(fset, vs.Type); ty {
			case "uint16":
				v = c18sVar{"st:slot", "nat"}
			case "bool":
				v = c18sVar{"st:slotKnown", "bool"}
			case "int":
				v = c18sVar{"st:keysSeen", "nat"}
			default:
				die("%s: %s: var `%s` of type %s", c18sFn, t.pos(vs), n.Name, ty)
			}
			if seen[v.lean] {
				die("%s: %s: two variables of the type of `%s`", c18sFn, t.pos(vs), n.Name)
			}
			seen[v.lean] = true
			stSc = stSc.with(n.Name, v)
		}
	}
	if len(seen) != 3 {
		die("%s: the var block does not declare one uint16, one bool and one int", c18sFn)
	}

	// ---- init: statements between the var block and the loop
	pureCx := &c18sCtx{errOK: false}
	initBody := t.blockState(stSc, pureCx, body[varAt+1:rangeAt], "  ", func(ind string) string { return ind + c18sState + "\n" })

	// ---- the outer loop
	outer := body[rangeAt].(*ast.RangeStmt)
	if outer.Tok != token.DEFINE {
		die("%s: %s: range without :=", c18sFn, t.pos(outer))
	}
	if id, ok := outer.X.(*ast.Ident); !ok || stSc.vars[id.Name].lean != "cmds" {
		die("%s: %s: the outer loop does not range over the commands", c18sFn, t.pos(outer))
	}
	if k, ok := outer.Key.(*ast.Ident); !ok || k.Name != "_" {
		die("%s: %s: the outer loop uses its index", c18sFn, t.pos(outer))
	}
	cmdId, ok := outer.Value.(*ast.Ident)
	if !ok || cmdId.Name == "_" {
		die("%s: %s: the outer loop has no value variable", c18sFn, t.pos(outer))
	}
	cmdSc := stSc.with(cmdId.Name, c18sVar{"cmd", "cmd"})
	ob := outer.Body.List
	if len(ob) < 2 {
		die("%s: %s: outer loop body too short", c18sFn, t.pos(outer))
	}
	// keys, ok, err := resolver(cmd.Cmd, cmd.Args)
	ra, ok := ob[0].(*ast.AssignStmt)
	if !ok || ra.Tok != token.DEFINE || len(ra.Lhs) != 3 || len(ra.Rhs) != 1 {
		die("%s: %s: expected `keys, ok, err := resolver(cmd.Cmd, cmd.Args)`", c18sFn, t.pos(ob[0]))
	}
	rc, ok := ra.Rhs[0].(*ast.CallExpr)
	if !ok || len(rc.Args) != 2 || rc.Ellipsis != token.NoPos {
		die("%s: %s: expected a resolver call with two arguments", c18sFn, t.pos(ra))
	}
	if id, ok := rc.Fun.(*ast.Ident); !ok || cmdSc.vars[id.Name].typ != "resolver" {
		die("%s: %s: the call `%s` is not a call of the resolver parameter", c18sFn, t.pos(ra), t.src(rc))
	}
	for i, fld := range []string{"Cmd", "Args"} {
		sel, ok := rc.Args[i].(*ast.SelectorExpr)
		if !ok || sel.Sel.Name != fld {
			die("%s: %s: resolver argument %d is not <cmd>.%s", c18sFn, t.pos(ra), i, fld)
		}
		if id, ok := sel.X.(*ast.Ident); !ok || cmdSc.vars[id.Name].typ != "cmd" {
			die("%s: %s: resolver argument %d is not a field of the loop's command", c18sFn, t.pos(ra), i)
		}
	}
	stepSc := cmdSc
	for i, v := range []c18sVar{{"keys", "list"}, {"ok", "bool"}, {"resErr", "err"}} {
		id, ok := ra.Lhs[i].(*ast.Ident)
		if !ok {
			die("%s: %s: resolver result %d is not bound to an identifier", c18sFn, t.pos(ra), i)
		}
		stepSc = stepSc.with(id.Name, v)
	}

	// the inner loop must be the last statement of the outer loop's body
	var keyStepBody string
	cmdCx := &c18sCtx{errOK: true}
	cmdCx.tail = func(sc *c18sScope, s ast.Stmt, ind string) (string, bool) {
		inner, ok := s.(*ast.RangeStmt)
		if !ok {
			return "", false
		}
		if inner.Tok != token.DEFINE {
			die("%s: %s: range without :=", c18sFn, t.pos(inner))
		}
		if id, ok := inner.X.(*ast.Ident); !ok || sc.vars[id.Name].lean != "keys" {
			die("%s: %s: the inner loop does not range over the resolver's keys", c18sFn, t.pos(inner))
		}
		ksc := sc
		if inner.Key != nil {
			k, ok := inner.Key.(*ast.Ident)
			if !ok {
				die("%s: %s: odd range key", c18sFn, t.pos(inner))
			}
			ksc = ksc.with(k.Name, c18sVar{"idx", "nat"})
		}
		keyId, ok := inner.Value.(*ast.Ident)
		if !ok || keyId.Name == "_" {
			die("%s: %s: the inner loop has no value variable", c18sFn, t.pos(inner))
		}
		ksc = ksc.with(keyId.Name, c18sVar{"key", "key"})
		ib := inner.Body.List
		if len(ib) < 1 {
			die("%s: %s: empty inner loop", c18sFn, t.pos(inner))
		}
		// keySlot := redispkg.KeyToSlot(key)
		ka, ok := ib[0].(*ast.AssignStmt)
		if !ok || ka.Tok != token.DEFINE || len(ka.Lhs) != 1 || len(ka.Rhs) != 1 {
			die("%s: %s: expected `keySlot := %s.KeyToSlot(key)`", c18sFn, t.pos(ib[0]), redisPkg)
		}
		kc, ok := ka.Rhs[0].(*ast.CallExpr)
		if !ok || len(kc.Args) != 1 {
			die("%s: %s: expected `%s.KeyToSlot(key)`", c18sFn, t.pos(ka), redisPkg)
		}
		ksel, ok := kc.Fun.(*ast.SelectorExpr)
		if !ok || ksel.Sel.Name != "KeyToSlot" {
			die("%s: %s: `%s` is not %s.KeyToSlot", c18sFn, t.pos(ka), t.src(kc.Fun), redisPkg)
		}
		if p, ok := ksel.X.(*ast.Ident); !ok || p.Name != redisPkg || ksc.vars[p.Name].lean != "" {
			die("%s: %s: `%s` is not %s.KeyToSlot", c18sFn, t.pos(ka), t.src(kc.Fun), redisPkg)
		}
		if a, ok := kc.Args[0].(*ast.Ident); !ok || ksc.vars[a.Name].typ != "key" {
			die("%s: %s: KeyToSlot is not applied to the loop's key: `%s`", c18sFn, t.pos(ka), t.src(kc))
		}
		ksId, ok := ka.Lhs[0].(*ast.Ident)
		if !ok {
			die("%s: %s: odd left side", c18sFn, t.pos(ka))
		}
		ksc = ksc.with(ksId.Name, c18sVar{"keySlot", "nat"})
		keyCx := &c18sCtx{errOK: true}
		keyStepBody = "    let keySlot := GunYu.Slot.keyToSlot key\n" +
			t.blockState(ksc, keyCx, ib[1:], "    ", func(ind string) string { return ind + ".ok " + c18sState + "\n" })
		return ind + "keysLoop m 0 keys " + c18sState + "\n", true
	}
	cmdStepBody := t.blockTop(stepSc, cmdCx, ob[1:], "    ", func(string) string {
		die("%s: %s: the loop over the keys is not the last statement of the loop over the commands", c18sFn, t.pos(outer))
		return ""
	})
	if keyStepBody == "" {
		die("%s: %s: no loop over the resolver's keys found", c18sFn, t.pos(outer))
	}

	// ---- post: guards, then the returned literal
	var fields []string
	postCx := &c18sCtx{errOK: true}
	postCx.ret = func(sc *c18sScope, rs *ast.ReturnStmt, ind string) string {
		if len(rs.Results) != 2 || !c18sIsNil(rs.Results[1]) {
			die("%s: %s: return `%s`", c18sFn, t.pos(rs), t.src(rs))
		}
		ue, ok := rs.Results[0].(*ast.UnaryExpr)
		if !ok || ue.Op != token.AND {
			die("%s: %s: the success return is not `&bisyncReplayUnit{…}`", c18sFn, t.pos(rs))
		}
		cl, ok := ue.X.(*ast.CompositeLit)
		if !ok || c10Render(fset, cl.Type) != "bisyncReplayUnit" {
			die("%s: %s: the success return is not `&bisyncReplayUnit{…}`", c18sFn, t.pos(rs))
		}
		got := map[string]string{}
		for _, el := range cl.Elts {
			kv, ok := el.(*ast.KeyValueExpr)
			if !ok {
				die("%s: %s: positional field in the unit literal", c18sFn, t.pos(el))
			}
			k, ok := kv.Key.(*ast.Ident)
			if !ok {
				die("%s: %s: odd field key", c18sFn, t.pos(el))
			}
			fields = append(fields, k.Name)
			switch k.Name {
			case "Slot":
				e, ty := t.expr(sc, kv.Value)
				if ty != "nat" {
					die("%s: %s: Slot is not a number", c18sFn, t.pos(el))
				}
				got["Slot"] = e
			case "SlotTag":
				ce, ok := kv.Value.(*ast.CallExpr)
				if !ok || len(ce.Args) != 1 || c10Render(fset, ce.Fun) != cpPkg+".BisyncSlotTag" || sc.vars[cpPkg].lean != "" {
					die("%s: %s: SlotTag is not %s.BisyncSlotTag(…): `%s`", c18sFn, t.pos(el), cpPkg, t.src(kv.Value))
				}
				e, ty := t.expr(sc, ce.Args[0])
				if ty != "nat" {
					die("%s: %s: BisyncSlotTag of a non-number", c18sFn, t.pos(el))
				}
				got["SlotTag"] = "GunYu.BisyncUnit.slotTag " + e
			case "Commands":
				id, ok := kv.Value.(*ast.Ident)
				if !ok || sc.vars[id.Name].lean != "cmds" {
					die("%s: %s: Commands is not the command slice: `%s`", c18sFn, t.pos(el), t.src(kv.Value))
				}
				got["Commands"] = "cmds"
			}
		}
		for _, k := range []string{"Slot", "SlotTag", "Commands"} {
			if got[k] == "" {
				die("%s: %s: the unit literal does not set %s", c18sFn, t.pos(rs), k)
			}
		}
		return ind + ".ok { slot := " + got["Slot"] + ", slotTag := " + got["SlotTag"] + ", cmds := " + got["Commands"] + " }\n"
	}
	postBody := t.blockState(stSc, postCx, body[rangeAt+1:], "      ", func(string) string {
		die("%s: the function body does not end in a return", c18sFn)
		return ""
	})

	// prefix guards wrap the rest of `build`
	preCx := &c18sCtx{errOK: true}
	buildBody := t.blockTop(top, preCx, prefix, "  ", func(ind string) string {
		s := ind + "match cmdsLoop m r cmds (initSt m) with\n"
		s += ind + "| .error e => .error e\n"
		s += ind + "| .ok " + c18sState + " =>\n"
		// re-indent the post body relative to ind
		for _, ln := range strings.Split(strings.TrimSuffix(postBody, "\n"), "\n") {
			s += ind + strings.TrimPrefix(ln, "    ") + "\n"
		}
		return s
	})

	// the error literals are collected in the order the translation met them; report in source order
	facts["c18_build_error_literals"] = c18sLiteralsInSourceOrder(fd)
	facts["c18_build_unit_fields"] = fields
	facts["c18_build_resolver_default"] = resolverDefault

	p := fset.Position(fd.Pos())
	var sb strings.Builder
	sb.WriteString(header)
	sb.WriteString("/-\n")
	sb.WriteString(fmt.Sprintf("  TRANSLATED by harness/extract/c18slot.go from /repo/syncer/bisync.go:%d %s: the slot-grouping\n", p.Line, c18sFn))
	sb.WriteString("  decision (guards, assignments to the three loop variables, error returns, the returned literal's\n")
	sb.WriteString("  Slot / SlotTag / Commands). Anything the translator does not recognise makes the generator fail.\n")
	sb.WriteString("  * locals are resolved by definition (parameter types, the var block's uint16 / bool / int, range\n")
	sb.WriteString("    variables, `:= KeyToSlot(key)`, the positions in `:= resolver(cmd.Cmd, cmd.Args)`) and given fixed names.\n")
	sb.WriteString("  * the resolver is a PARAMETER here: the source's `if resolver == nil { resolver = defaultBisyncCommandKeyResolver }`\n")
	sb.WriteString("    is recognised, skipped and recorded as a fact; the resolver's answer `(keys, ok, err)` is the triple\n")
	sb.WriteString("    `(resErr, ok, keys)` with `resErr` = `err != nil`, so that the ORDER of the three tests is the source's.\n")
	sb.WriteString("  * `slot` (uint16) and `keysSeen`, `idx` (int) are Nat: KeyToSlot < 16384, forceSlot is a *uint16, the counters\n")
	sb.WriteString("    only grow by one per key. `*slotMode.forceSlot` is accepted only inside `if slotMode.forceSlot != nil`.\n")
	sb.WriteString("  * types `SlotMode`, `Cmd`, `BuildErr`, `RUnit` and `slotTag` (checkpoint.BisyncSlotTag) are the model's\n")
	sb.WriteString("    (GunYu.Model.BisyncUnit); error literals are mapped to `BuildErr` constructors by their text.\n")
	sb.WriteString("-/\n")
	sb.WriteString("import GunYu.Model.BisyncUnit\n\n")
	sb.WriteString("set_option linter.unusedVariables false\n\n")
	sb.WriteString("namespace GunYu.Gen.FnUnit\nopen GunYu GunYu.BisyncUnit\n\n")
	sb.WriteString("/-- the var block: `(slot, slotKnown, keysSeen)` -/\nabbrev St := Nat × Bool × Nat\n\n")
	sb.WriteString(fmt.Sprintf("/-- the var block (zero values) and the statements before the loop (bisync.go:%d) -/\n", fset.Position(body[varAt].Pos()).Line))
	sb.WriteString("def initSt (m : SlotMode) : St :=\n  let slot : Nat := 0\n  let slotKnown : Bool := false\n  let keysSeen : Nat := 0\n")
	sb.WriteString(initBody + "\n")
	sb.WriteString("/-- one round of the loop over the keys -/\n")
	sb.WriteString("def keyStep (m : SlotMode) (idx : Nat) (key : Bytes) (st : St) : Except BuildErr St :=\n  match st with\n  | " + c18sState + " =>\n")
	sb.WriteString(keyStepBody + "\n")
	sb.WriteString("/-- `for idx, key := range keys` -/\n")
	sb.WriteString("def keysLoop (m : SlotMode) : Nat → List Bytes → St → Except BuildErr St\n  | _, [], st => .ok st\n  | idx, key :: rest, st =>\n    match keyStep m idx key st with\n    | .error e => .error e\n    | .ok st' => keysLoop m (idx + 1) rest st'\n\n")
	sb.WriteString("/-- one round of the loop over the commands, after the resolver call -/\n")
	sb.WriteString("def cmdStep (m : SlotMode) (resErr ok : Bool) (keys : List Bytes) (st : St) : Except BuildErr St :=\n  match st with\n  | " + c18sState + " =>\n")
	sb.WriteString(cmdStepBody + "\n")
	sb.WriteString("/-- `for _, cmd := range cmds` -/\n")
	sb.WriteString("def cmdsLoop (m : SlotMode) (r : Bytes → List Bytes → Bool × Bool × List Bytes) : List Cmd → St → Except BuildErr St\n  | [], st => .ok st\n  | cmd :: rest, st =>\n    match r cmd.name cmd.args with\n    | (resErr, ok, keys) =>\n      match cmdStep m resErr ok keys st with\n      | .error e => .error e\n      | .ok st' => cmdsLoop m r rest st'\n\n")
	sb.WriteString("/-- " + c18sFn + " -/\n")
	sb.WriteString("def build (m : SlotMode) (r : Bytes → List Bytes → Bool × Bool × List Bytes) (cmds : List Cmd) : Except BuildErr RUnit :=\n")
	sb.WriteString(buildBody + "\n")
	sb.WriteString("end GunYu.Gen.FnUnit\n")
	writeIfChanged(filepath.Join(*out, "FnBisyncUnitBuild.lean"), sb.String())
}

// blockState: a statement list in which the three loop variables are readable
// (their scope entries carry the marker "st:" for assignments; reading strips it).
func (t *c18sTr) blockState(sc *c18sScope, cx *c18sCtx, list []ast.Stmt, ind string, end func(string) string) string {
	return t.block(sc, cx, list, ind, end, false)
}

func (t *c18sTr) blockTop(sc *c18sScope, cx *c18sCtx, list []ast.Stmt, ind string, end func(string) string) string {
	return t.block(sc, cx, list, ind, end, true)
}

func c18sLiteralsInSourceOrder(fd *ast.FuncDecl) []string {
	lits := []string{}
	ast.Inspect(fd.Body, func(n ast.Node) bool {
		ce, ok := n.(*ast.CallExpr)
		if !ok {
			return true
		}
		if sel, ok := ce.Fun.(*ast.SelectorExpr); ok && sel.Sel.Name == "Errorf" && len(ce.Args) >= 1 {
			if bl, ok := ce.Args[0].(*ast.BasicLit); ok && bl.Kind == token.STRING {
				if s, err := strconv.Unquote(bl.Value); err == nil {
					lits = append(lits, s)
				}
			}
		}
		return true
	})
	return lits
}
