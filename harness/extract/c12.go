package main

// C12 source facts: where the decoder reads and where it counts, who uses the
// decoder, and how the parsers turn the decoder's offset into a stream offset.

import (
	"bytes"
	"fmt"
	"go/ast"
	"go/parser"
	"go/printer"
	"go/token"
	"os"
	"path/filepath"
	"sort"
	"strings"
)

func c12Render(fset *token.FileSet, n ast.Node) string {
	var b bytes.Buffer
	printer.Fprint(&b, fset, n)
	return strings.Join(strings.Fields(b.String()), " ")
}

func c12IsSel(e ast.Expr, x, sel string) bool {
	s, ok := e.(*ast.SelectorExpr)
	if !ok || s.Sel.Name != sel {
		return false
	}
	id, ok := s.X.(*ast.Ident)
	return ok && id.Name == x
}

func genC12() {
	// ---- decoder.go: read sites and offset updates, per method, in source order
	fset, f := parseFile("pkg/redis/client/decoder.go")
	var sites []string
	for _, d := range f.Decls {
		fd, ok := d.(*ast.FuncDecl)
		if !ok || fd.Body == nil {
			continue
		}
		ast.Inspect(fd.Body, func(n ast.Node) bool {
			switch x := n.(type) {
			case *ast.IncDecStmt:
				if c12IsSel(x.X, "d", "offset") {
					sites = append(sites, fd.Name.Name+": "+c12Render(fset, x))
				}
			case *ast.AssignStmt:
				for _, l := range x.Lhs {
					if c12IsSel(l, "d", "offset") {
						sites = append(sites, fd.Name.Name+": "+c12Render(fset, x))
					}
				}
			case *ast.ReturnStmt:
				// what the entry points hand to the parsers (MustDecodeOpt returns d.offset itself)
				if fd.Name.Name == "MustDecodeOpt" || fd.Name.Name == "NewDecoder" {
					sites = append(sites, fd.Name.Name+": "+c12Render(fset, x))
				}
			case *ast.CallExpr:
				// d.r.<Method>(…) and io.ReadFull(d.r, …)
				if s, ok := x.Fun.(*ast.SelectorExpr); ok {
					if c12IsSel(s.X, "d", "r") {
						sites = append(sites, fd.Name.Name+": read "+s.Sel.Name)
					}
					if len(x.Args) > 0 && c12IsSel(x.Args[0], "d", "r") {
						sites = append(sites, fd.Name.Name+": read "+c12Render(fset, x.Fun))
					}
				}
			}
			return true
		})
	}
	facts["c12_decoder_sites"] = sites

	// ---- users of the stream decoder and their offset arithmetic
	var users, uses, reassigned []string
	filepath.Walk(*repo, func(p string, info os.FileInfo, err error) error {
		if err != nil {
			return nil
		}
		rel, _ := filepath.Rel(*repo, p)
		if info.IsDir() {
			if rel == "tests" || rel == ".git" || rel == "vendor" || rel == "docs" || rel == "deploy" {
				return filepath.SkipDir
			}
			return nil
		}
		if !strings.HasSuffix(p, ".go") || strings.HasSuffix(p, "_test.go") || rel == "pkg/redis/client/decoder.go" {
			return nil
		}
		fs := token.NewFileSet()
		af, err := parser.ParseFile(fs, p, nil, 0)
		if err != nil {
			return nil
		}
		for _, d := range af.Decls {
			fd, ok := d.(*ast.FuncDecl)
			if !ok || fd.Body == nil {
				continue
			}
			offVar := ""
			ast.Inspect(fd.Body, func(n ast.Node) bool {
				as, ok := n.(*ast.AssignStmt)
				if ok && len(as.Rhs) == 1 {
					if c, ok := as.Rhs[0].(*ast.CallExpr); ok {
						isMDO := false
						switch fn := c.Fun.(type) {
						case *ast.SelectorExpr:
							isMDO = fn.Sel.Name == "MustDecodeOpt"
						case *ast.Ident:
							isMDO = fn.Name == "MustDecodeOpt"
						}
						if isMDO && len(as.Lhs) == 3 {
							if id, ok := as.Lhs[1].(*ast.Ident); ok {
								offVar = id.Name
							}
						}
					}
				}
				if c, ok := n.(*ast.CallExpr); ok {
					name := ""
					switch fn := c.Fun.(type) {
					case *ast.SelectorExpr: // any package identifier / alias
						name = fn.Sel.Name
					case *ast.Ident: // in-package callers (pkg/redis/client)
						if strings.HasPrefix(rel, "pkg/redis/client/") {
							name = fn.Name
						}
					}
					switch name {
					case "NewDecoder", "MustDecodeOpt":
						users = append(users, fmt.Sprintf("%s:%s:%s", rel, fd.Name.Name, name))
					}
				}
				return true
			})
			if offVar == "" || offVar == "_" {
				continue
			}
			// every use of the offset variable, rendered with its enclosing
			// binary expression (or the enclosing call when it is an argument)
			var stack []ast.Node
			ast.Inspect(fd.Body, func(n ast.Node) bool {
				if n == nil {
					stack = stack[:len(stack)-1]
					return true
				}
				if id, ok := n.(*ast.Ident); ok && id.Name == offVar && len(stack) > 0 {
					par := stack[len(stack)-1]
					switch px := par.(type) {
					case *ast.AssignStmt:
						def := false
						for _, l := range px.Lhs {
							if l == ast.Expr(id) {
								def = true
							}
						}
						if !def {
							uses = append(uses, fmt.Sprintf("%s:%s:%s", rel, fd.Name.Name, c12Render(fs, px)))
						}
					case *ast.BinaryExpr:
						uses = append(uses, fmt.Sprintf("%s:%s:%s", rel, fd.Name.Name, c12Render(fs, px)))
					case *ast.CallExpr:
						uses = append(uses, fmt.Sprintf("%s:%s:arg of %s", rel, fd.Name.Name, c12Render(fs, px.Fun)))
					default:
						uses = append(uses, fmt.Sprintf("%s:%s:%T", rel, fd.Name.Name, par))
					}
				}
				stack = append(stack, n)
				return true
			})
			// the start offset must stay what the caller passed
			ast.Inspect(fd.Body, func(n ast.Node) bool {
				switch x := n.(type) {
				case *ast.AssignStmt:
					for _, l := range x.Lhs {
						if id, ok := l.(*ast.Ident); ok && id.Name == "startOffset" {
							reassigned = append(reassigned, fmt.Sprintf("%s:%s:%s", rel, fd.Name.Name, c12Render(fs, x)))
						}
					}
				case *ast.IncDecStmt:
					if id, ok := x.X.(*ast.Ident); ok && id.Name == "startOffset" {
						reassigned = append(reassigned, fmt.Sprintf("%s:%s:%s", rel, fd.Name.Name, c12Render(fs, x)))
					}
				}
				return true
			})
		}
		return nil
	})
	// ---- one hop further on the bidirectional path: how endOffset (=
	// startOffset + incrOffset) flows into unit boundaries. Distinct statements only.
	// (C13 checks the resulting unit offsets on the real parser; this is the textual tie.)
	flow := map[string]bool{}
	bfs, bf := parseFile("syncer/bisync.go")
	for _, d := range bf.Decls {
		fd, ok := d.(*ast.FuncDecl)
		if !ok || fd.Body == nil || fd.Name.Name != "parseAofReplayUnits" {
			continue
		}
		ast.Inspect(fd.Body, func(n ast.Node) bool {
			switch x := n.(type) {
			case *ast.AssignStmt:
				for _, l := range x.Lhs {
					if id, ok := l.(*ast.Ident); ok && (id.Name == "endOffset" || id.Name == "prevOffset" || id.Name == "txnStart") {
						flow[c12Render(bfs, x)] = true
					}
				}
			case *ast.ValueSpec:
				for i, id := range x.Names {
					if (id.Name == "prevOffset" || id.Name == "txnStart" || id.Name == "endOffset") && i < len(x.Values) {
						flow[id.Name+" = "+c12Render(bfs, x.Values[i])] = true
					}
				}
			case *ast.CallExpr:
				if id, ok := x.Fun.(*ast.Ident); ok {
					if id.Name == "buildBisyncReplayUnitWithMode" && len(x.Args) >= 3 {
						flow[fmt.Sprintf("unit(%s, %s)", c12Render(bfs, x.Args[1]), c12Render(bfs, x.Args[2]))] = true
					}
					if id.Name == "makeCmd" && len(x.Args) >= 3 {
						flow[fmt.Sprintf("makeCmd(.., %s)", c12Render(bfs, x.Args[2]))] = true
					}
				}
			}
			return true
		})
	}
	var flowL []string
	for k := range flow {
		flowL = append(flowL, k)
	}
	sort.Strings(flowL)
	facts["c12_bisync_offset_flow"] = flowL

	// distinct forms only: how often a parser uses the sum is the sender properties' business
	seenUse := map[string]bool{}
	var du []string
	for _, u := range uses {
		if !seenUse[u] {
			seenUse[u] = true
			du = append(du, u)
		}
	}
	uses = du
	sort.Strings(users)
	sort.Strings(uses)
	sort.Strings(reassigned)
	if reassigned == nil {
		reassigned = []string{}
	}
	facts["c12_decoder_users"] = users
	facts["c12_offset_uses"] = uses
	facts["c12_start_offset_reassigned"] = reassigned
}
