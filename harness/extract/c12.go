package main

// C12 source facts: where the decoder reads and where it counts, who uses the
// decoder, and how the parsers turn the decoder's offset into a stream offset.

import (
	"bytes"
	"crypto/sha256"
	"encoding/hex"
	"fmt"
	"go/ast"
	"go/parser"
	"go/printer"
	"go/token"
	"os"
	"path/filepath"
	"sort"
	"strings"
)

func c12Render(fset *token.FileSet, n ast.Node) string {
	var b bytes.Buffer
	printer.Fprint(&b, fset, n)
	return strings.Join(strings.Fields(b.String()), " ")
}

func c12IsSel(e ast.Expr, x, sel string) bool {
	s, ok := e.(*ast.SelectorExpr)
	if !ok || s.Sel.Name != sel {
		return false
	}
	id, ok := s.X.(*ast.Ident)
	return ok && id.Name == x
}

func c12DefaultClause(fd *ast.FuncDecl) *ast.CaseClause {
	var r *ast.CaseClause
	ast.Inspect(fd.Body, func(n ast.Node) bool {
		if cc, ok := n.(*ast.CaseClause); ok && cc.List == nil && r == nil {
			r = cc
		}
		return true
	})
	return r
}

func c12Digest(s string) string {
	h := sha256.Sum256([]byte(s))
	return hex.EncodeToString(h[:6])
}

// the reading functions tied structurally, and every function of decoder.go the facts know by name (any other
// function is a helper the reading functions may have been split into: its constants count with theirs)
var c12Reading = map[string]bool{"decodeType": true, "decodeText": true, "decodeBulkBytes": true}
var c12Listed = map[string]bool{"NewDecoder": true, "Decode": true, "MustDecodeOpt": true, "MustDecode": true, "DecodeFromBytes": true,
	"MustDecodeFromBytes": true, "decodeResp": true, "decodeType": true, "decodeText": true, "decodeInt": true, "decodeBulkBytes": true,
	"decodeArray": true, "decodeSingleLineBulkBytesArray": true}

func genC12() {
	// ---- decoder.go: read sites and offset updates, per method, in source order
	fset, f := parseFile("pkg/redis/client/decoder.go")
	var sites, inlineSites []string
	var constFds []*ast.FuncDecl
	for _, d := range f.Decls {
		fd, ok := d.(*ast.FuncDecl)
		if !ok || fd.Body == nil {
			continue
		}
		c12Normalize(fd) // receiver -> d, locals -> v<i>: a renamed local or receiver is the same site (c12_norm.go)
		// the inline-command path (decodeSingleLineBulkBytesArray and the `default:` clause of
		// decodeResp's type switch) is outside C12's quantifier: listed, not pinned
		var inlineFrom, inlineTo token.Pos
		if fd.Name.Name == "decodeSingleLineBulkBytesArray" {
			inlineFrom, inlineTo = fd.Body.Pos(), fd.Body.End()
		}
		if fd.Name.Name == "decodeResp" {
			ast.Inspect(fd.Body, func(n ast.Node) bool {
				if cc, ok := n.(*ast.CaseClause); ok && cc.List == nil {
					inlineFrom, inlineTo = cc.Pos(), cc.End()
				}
				return true
			})
		}
		all := sites
		sites = nil
		defs := c12Defs(fd)
		if c12Reading[fd.Name.Name] || !c12Listed[fd.Name.Name] {
			constFds = append(constFds, fd)
		}
		ast.Inspect(fd.Body, func(n ast.Node) bool {
			if n != nil && inlineFrom.IsValid() && n.Pos() >= inlineFrom && n.End() <= inlineTo {
				if _, isStmt := n.(ast.Stmt); isStmt || n.Pos() != inlineFrom {
					// handled by the second pass below
				}
			}
			switch x := n.(type) {
			case *ast.IncDecStmt:
				if c12IsSel(x.X, "d", "offset") {
					sites = append(sites, fd.Name.Name+": "+c12Render(fset, x))
				}
			case *ast.AssignStmt:
				for _, l := range x.Lhs {
					if c12IsSel(l, "d", "offset") {
						if len(x.Lhs) == 1 && len(x.Rhs) == 1 { // by def-use (c12_flow.go)
							sites = append(sites, fd.Name.Name+": d.offset "+x.Tok.String()+" "+c12Resolve(fset, x.Rhs[0], defs, 0))
						} else {
							sites = append(sites, fd.Name.Name+": "+c12Render(fset, x))
						}
					}
				}
			case *ast.ReturnStmt:
				// what the entry points hand to the parsers (MustDecodeOpt returns d.offset itself)
				if fd.Name.Name == "MustDecodeOpt" || fd.Name.Name == "NewDecoder" {
					sites = append(sites, fd.Name.Name+": "+c12Render(fset, x))
				}
			case *ast.CallExpr:
				// d.r.<Method>(…) and io.ReadFull(d.r, …), arguments by def-use (c12_flow.go)
				if rs := c12ReadSite(fset, x, defs); rs != "" {
					sites = append(sites, fd.Name.Name+": "+rs)
				}
			}
			return true
		})
		// split what was collected for this function by position is not possible from strings;
		// redo cheaply: a site belongs to the inline path iff the function is the inline reader or
		// the statement text is found inside the default clause
		var dflt string
		if inlineFrom.IsValid() && fd.Name.Name == "decodeResp" {
			var b bytes.Buffer
			printer.Fprint(&b, fset, &ast.BlockStmt{List: c12DefaultClause(fd).Body})
			dflt = strings.Join(strings.Fields(b.String()), " ")
		}
		for _, st := range sites {
			body := strings.TrimPrefix(st, fd.Name.Name+": ")
			isInline := fd.Name.Name == "decodeSingleLineBulkBytesArray" ||
				(dflt != "" && (strings.Contains(dflt, body) || strings.Contains(dflt, strings.TrimPrefix(body, "read "))))
			if isInline {
				inlineSites = append(inlineSites, st)
			} else {
				all = append(all, st)
			}
		}
		sites = all
	}
	facts["c12_decoder_sites"] = sites
	facts["c12_decoder_consts"] = c12Consts(fset, constFds)
	facts["c12_decoder_sites_inline"] = inlineSites

	// ---- bodies of the multi-bulk path, pinned by digest (a change there needs the model re-read;
	// decodeResp is pinned without its `default:` (inline) clause)
	bodies := map[string]string{}
	pin := func(rel string, names ...string) {
		fs, af := parseFile(rel)
		for _, d := range af.Decls {
			fd, ok := d.(*ast.FuncDecl)
			if !ok || fd.Body == nil {
				continue
			}
			for _, n := range names {
				if fd.Name.Name != n {
					continue
				}
				var node ast.Node = fd.Body
				c12Normalize(fd) // local names, error / log texts do not enter the digest (c12_norm.go)
				if n == "decodeResp" {
					if cc := c12DefaultClause(fd); cc != nil {
						saved := cc.Body
						cc.Body = nil
						txt := c12Render(fs, fd.Type) + " " + c12Render(fs, fd.Body)
						cc.Body = saved
						bodies[rel+":"+n] = c12Digest(txt)
						continue
					}
				}
				bodies[rel+":"+n] = c12Digest(c12Render(fs, fd.Type) + " " + c12Render(fs, node))
			}
		}
	}
	// decodeType / decodeText / decodeBulkBytes (the functions that read and count) are tied structurally:
	// c12_decoder_sites (reader calls with sizes, offset increments, by def-use) + c12_decoder_consts
	pin("pkg/redis/client/decoder.go", "NewDecoder", "MustDecodeOpt", "decodeResp", "decodeInt", "decodeArray")
	pin("pkg/redis/client/handler.go", "ParseArgs", "ChangeArgsToResp")
	pin("pkg/redis/client/resp.go", "AsBulkBytes", "AsArray")
	pin("pkg/redis/client/encoder.go", "itos", "encodeResp", "encodeType", "encodeString", "encodeInt", "encodeBulkBytes", "encodeArray")
	pin("pkg/redis/client/proto/writer.go", "WriteArgs", "writeLen", "WriteArg", "bytes", "string", "uint", "int", "crlf") // not `float`: its rendering is free, the round trip is checked on the real writer
	pin("pkg/redis/client/conn/redis_conn.go", "Send", "send")
	facts["c12_bodies"] = bodies
	genC12Globals() // c12_globals: package-level variables of the decoder / encoder / writer files and who writes them
	genC12Bufio() // c12_bufio: the standard library functions the bufio model transcribes (c12_bufio.go)

	// ---- users of the stream decoder and their offset arithmetic
	var users, uses, reassigned []string
	filepath.Walk(*repo, func(p string, info os.FileInfo, err error) error {
		if err != nil {
			return nil
		}
		rel, _ := filepath.Rel(*repo, p)
		if info.IsDir() {
			if rel == "tests" || rel == ".git" || rel == "vendor" || rel == "docs" || rel == "deploy" {
				return filepath.SkipDir
			}
			return nil
		}
		if !strings.HasSuffix(p, ".go") || strings.HasSuffix(p, "_test.go") || rel == "pkg/redis/client/decoder.go" {
			return nil
		}
		fs := token.NewFileSet()
		af, err := parser.ParseFile(fs, p, nil, 0)
		if err != nil {
			return nil
		}
		for _, d := range af.Decls {
			fd, ok := d.(*ast.FuncDecl)
			if !ok || fd.Body == nil {
				continue
			}
			offVar := ""
			ast.Inspect(fd.Body, func(n ast.Node) bool {
				as, ok := n.(*ast.AssignStmt)
				if ok && len(as.Rhs) == 1 {
					if c, ok := as.Rhs[0].(*ast.CallExpr); ok {
						isMDO := false
						switch fn := c.Fun.(type) {
						case *ast.SelectorExpr:
							isMDO = fn.Sel.Name == "MustDecodeOpt"
						case *ast.Ident:
							isMDO = fn.Name == "MustDecodeOpt"
						}
						if isMDO && len(as.Lhs) == 3 {
							if id, ok := as.Lhs[1].(*ast.Ident); ok {
								offVar = id.Name
							}
						}
					}
				}
				if c, ok := n.(*ast.CallExpr); ok {
					name := ""
					switch fn := c.Fun.(type) {
					case *ast.SelectorExpr: // any package identifier / alias
						name = fn.Sel.Name
					case *ast.Ident: // in-package callers (pkg/redis/client)
						if strings.HasPrefix(rel, "pkg/redis/client/") {
							name = fn.Name
						}
					}
					switch name {
					case "NewDecoder", "MustDecodeOpt":
						users = append(users, fmt.Sprintf("%s:%s:%s", rel, fd.Name.Name, name))
					}
				}
				return true
			})
			if offVar == "" || offVar == "_" {
				continue
			}
			// every use of the offset variable, rendered with its enclosing
			// binary expression (or the enclosing call when it is an argument)
			var stack []ast.Node
			ast.Inspect(fd.Body, func(n ast.Node) bool {
				if n == nil {
					stack = stack[:len(stack)-1]
					return true
				}
				if id, ok := n.(*ast.Ident); ok && id.Name == offVar && len(stack) > 0 {
					// render the whole enclosing statement (or `Key: value` of a composite literal), so
					// that `startOffset + incrOffset - 1` or an extra term cannot hide behind the innermost sum
					var enc ast.Node
					def := false
					for i := len(stack) - 1; i >= 0 && enc == nil; i-- {
						switch px := stack[i].(type) {
						case *ast.KeyValueExpr:
							enc = px
						case *ast.AssignStmt:
							for _, l := range px.Lhs {
								if l == ast.Expr(id) {
									def = true
								}
							}
							enc = px
						case *ast.BlockStmt, *ast.CaseClause, *ast.CommClause:
							enc = stack[i+1]
						case ast.Stmt:
							switch px.(type) {
							case *ast.IfStmt, *ast.ForStmt, *ast.SwitchStmt, *ast.SelectStmt, *ast.RangeStmt, *ast.LabeledStmt:
								// keep climbing only through simple statements; for a compound one render the
								// nearest expression below it
								enc = stack[i+1]
							default:
								enc = px
							}
						}
					}
					if enc == nil {
						enc = stack[len(stack)-1]
					}
					if !def {
						uses = append(uses, fmt.Sprintf("%s:%s:%s", rel, fd.Name.Name, c12Render(fs, enc)))
					}
				}
				stack = append(stack, n)
				return true
			})
			// the start offset must stay what the caller passed
			ast.Inspect(fd.Body, func(n ast.Node) bool {
				switch x := n.(type) {
				case *ast.AssignStmt:
					for _, l := range x.Lhs {
						if id, ok := l.(*ast.Ident); ok && id.Name == "startOffset" {
							reassigned = append(reassigned, fmt.Sprintf("%s:%s:%s", rel, fd.Name.Name, c12Render(fs, x)))
						}
					}
				case *ast.IncDecStmt:
					if id, ok := x.X.(*ast.Ident); ok && id.Name == "startOffset" {
						reassigned = append(reassigned, fmt.Sprintf("%s:%s:%s", rel, fd.Name.Name, c12Render(fs, x)))
					}
				}
				return true
			})
		}
		return nil
	})
	// ---- one hop further on the bidirectional path: how endOffset (=
	// startOffset + incrOffset) flows into unit boundaries. Distinct statements only.
	// (C13 checks the resulting unit offsets on the real parser; this is the textual tie.)
	flow := map[string]bool{}
	bfs, bf := parseFile("syncer/bisync.go")
	for _, d := range bf.Decls {
		fd, ok := d.(*ast.FuncDecl)
		if !ok || fd.Body == nil || fd.Name.Name != "parseAofReplayUnits" {
			continue
		}
		ast.Inspect(fd.Body, func(n ast.Node) bool {
			switch x := n.(type) {
			case *ast.AssignStmt:
				for _, l := range x.Lhs {
					if id, ok := l.(*ast.Ident); ok && (id.Name == "endOffset" || id.Name == "prevOffset" || id.Name == "txnStart") {
						flow[c12Render(bfs, x)] = true
					}
				}
			case *ast.ValueSpec:
				for i, id := range x.Names {
					if (id.Name == "prevOffset" || id.Name == "txnStart" || id.Name == "endOffset") && i < len(x.Values) {
						flow[id.Name+" = "+c12Render(bfs, x.Values[i])] = true
					}
				}
			case *ast.CallExpr:
				if id, ok := x.Fun.(*ast.Ident); ok {
					if id.Name == "buildBisyncReplayUnitWithMode" && len(x.Args) >= 3 {
						flow[fmt.Sprintf("unit(%s, %s)", c12Render(bfs, x.Args[1]), c12Render(bfs, x.Args[2]))] = true
					}
					if id.Name == "makeCmd" && len(x.Args) >= 3 {
						flow[fmt.Sprintf("makeCmd(.., %s)", c12Render(bfs, x.Args[2]))] = true
					}
				}
			}
			return true
		})
	}
	var flowL []string
	for k := range flow {
		flowL = append(flowL, k)
	}
	sort.Strings(flowL)
	facts["c12_bisync_offset_flow"] = flowL

	// distinct forms only: how often a parser uses the sum is the sender properties' business
	seenUse := map[string]bool{}
	var du []string
	for _, u := range uses {
		if !seenUse[u] {
			seenUse[u] = true
			du = append(du, u)
		}
	}
	uses = du
	sort.Strings(users)
	sort.Strings(uses)
	sort.Strings(reassigned)
	if reassigned == nil {
		reassigned = []string{}
	}
	facts["c12_decoder_users"] = users
	facts["c12_offset_uses"] = uses
	facts["c12_start_offset_reassigned"] = reassigned
}
