package main

// C01/C02/C07/C09: source facts for the replay core. The Lean model of the
// parser and the sender loop is hand-written and tied by differential
// correspondence; these digests pin the source of the functions it transcribes
// so that an edit whose effect lies outside what the generator can produce (a
// 32-bit byte counter, a threshold above the generated sizes, the probe-key
// block, the second run id) at least breaks the tie. Log and metric statements
// are dropped before printing; comments are not part of the AST.

import (
	"crypto/sha256"
	"encoding/hex"
	"go/ast"
	"go/token"
	"sort"
)

// c01Globals: PROCESS-GLOBAL state reached from the replay core (dimension audit, session 5): the package-level
// variables of the files the model transcribes, and every function of those files that WRITES one of them
// (assignment, op-assignment, ++/--, element assignment, address taken) outside a package-level initialiser.
// Metric vectors are only read (method calls on them are their own concurrency-safe business); a variable that
// starts to be written after init - a cache, a lazily built table, a sync.Once - changes this fact, which means:
// add first-use and concurrent-use cases. Name-based (a local that shadows a global counts as the global: the
// fact errs on the side of reporting).
func c01Globals(rels ...string) {
	vars := []string{}
	written := []string{}
	for _, rel := range rels {
		_, f := parseFile(rel)
		names := map[string]bool{}
		for _, d := range f.Decls {
			gd, ok := d.(*ast.GenDecl)
			if !ok || gd.Tok != token.VAR {
				continue
			}
			for _, sp := range gd.Specs {
				for _, n := range sp.(*ast.ValueSpec).Names {
					names[n.Name] = true
					vars = append(vars, rel+":"+n.Name)
				}
			}
		}
		base := func(e ast.Expr) string {
			for {
				switch x := e.(type) {
				case *ast.IndexExpr:
					e = x.X
				case *ast.SelectorExpr:
					e = x.X
				case *ast.ParenExpr:
					e = x.X
				case *ast.StarExpr:
					e = x.X
				case *ast.Ident:
					return x.Name
				default:
					return ""
				}
			}
		}
		for _, d := range f.Decls {
			fd, ok := d.(*ast.FuncDecl)
			if !ok || fd.Body == nil {
				continue
			}
			ast.Inspect(fd.Body, func(n ast.Node) bool {
				hit := func(e ast.Expr) {
					if b := base(e); b != "" && names[b] {
						written = append(written, rel+":"+b+" in "+fd.Name.Name)
					}
				}
				switch x := n.(type) {
				case *ast.AssignStmt:
					if x.Tok != token.DEFINE {
						for _, l := range x.Lhs {
							hit(l)
						}
					}
				case *ast.IncDecStmt:
					hit(x.X)
				case *ast.UnaryExpr:
					if x.Op == token.AND {
						hit(x.X)
					}
				}
				return true
			})
		}
	}
	sort.Strings(vars)
	sort.Strings(written)
	facts["sender_globals"] = map[string]interface{}{"vars": vars, "written_after_init": written}
}

func c01Digest(rel string, names ...string) {
	fset, f := parseFile(rel)
	want := map[string]bool{}
	for _, n := range names {
		want[n] = true
	}
	found := map[string]bool{}
	for _, d := range f.Decls {
		fd, ok := d.(*ast.FuncDecl)
		if !ok || fd.Body == nil || !want[fd.Name.Name] {
			continue
		}
		// drop log / metric statements only (string literals carry command names here and stay)
		ast.Inspect(fd.Body, func(m ast.Node) bool {
			switch x := m.(type) {
			case *ast.BlockStmt:
				x.List = c15FilterStmts(x.List)
			case *ast.CaseClause:
				x.Body = c15FilterStmts(x.Body)
			case *ast.CommClause:
				x.Body = c15FilterStmts(x.Body)
			}
			return true
		})
		txt := c15Print(fset, fd.Type) + " " + c15Print(fset, fd.Body)
		h := sha256.Sum256([]byte(txt))
		m, _ := facts["sender_src"].(map[string]string)
		if m == nil {
			m = map[string]string{}
		}
		m[rel+":"+fd.Name.Name] = hex.EncodeToString(h[:8])
		facts["sender_src"] = m
		found[fd.Name.Name] = true
	}
	for _, n := range names {
		if !found[n] {
			die("%s: function %s not found", rel, n)
		}
	}
}

func genC01() {
	runGen("c01guards", genC01Guards)
	c01Digest("syncer/output.go", "parseAofCommand", "sendCmdsBatch", "sendAof", "selectDB", "StartPoint",
		"checkpoint", "buildSelectCmdExecution")
	c01Digest("syncer/transaction.go", "transactionStatus")
	c01Digest("pkg/redis/checkpoint/checkpoint.go", "GetCheckpoint", "fetchCheckpoint")
	c01Globals("syncer/output.go", "syncer/transaction.go", "pkg/redis/checkpoint/checkpoint.go", "pkg/redis/checkpoint/checkpoint_info.go")
}
