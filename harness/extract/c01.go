package main

// C01/C02/C07/C09: source facts for the replay core. The Lean model of the
// parser and the sender loop is hand-written and tied by differential
// correspondence; these digests pin the source of the functions it transcribes
// so that an edit whose effect lies outside what the generator can produce (a
// 32-bit byte counter, a threshold above the generated sizes, the probe-key
// block, the second run id) at least breaks the tie. Log and metric statements
// are dropped before printing; comments are not part of the AST.

import (
	"crypto/sha256"
	"encoding/hex"
	"go/ast"
)

func c01Digest(rel string, names ...string) {
	fset, f := parseFile(rel)
	want := map[string]bool{}
	for _, n := range names {
		want[n] = true
	}
	found := map[string]bool{}
	for _, d := range f.Decls {
		fd, ok := d.(*ast.FuncDecl)
		if !ok || fd.Body == nil || !want[fd.Name.Name] {
			continue
		}
		// drop log / metric statements only (string literals carry command names here and stay)
		ast.Inspect(fd.Body, func(m ast.Node) bool {
			switch x := m.(type) {
			case *ast.BlockStmt:
				x.List = c15FilterStmts(x.List)
			case *ast.CaseClause:
				x.Body = c15FilterStmts(x.Body)
			case *ast.CommClause:
				x.Body = c15FilterStmts(x.Body)
			}
			return true
		})
		txt := c15Print(fset, fd.Type) + " " + c15Print(fset, fd.Body)
		h := sha256.Sum256([]byte(txt))
		m, _ := facts["sender_src"].(map[string]string)
		if m == nil {
			m = map[string]string{}
		}
		m[rel+":"+fd.Name.Name] = hex.EncodeToString(h[:8])
		facts["sender_src"] = m
		found[fd.Name.Name] = true
	}
	for _, n := range names {
		if !found[n] {
			die("%s: function %s not found", rel, n)
		}
	}
}

func genC01() {
	runGen("c01guards", genC01Guards)
	c01Digest("syncer/output.go", "parseAofCommand", "sendCmdsBatch", "sendAof", "selectDB", "StartPoint",
		"checkpoint", "buildSelectCmdExecution")
	c01Digest("syncer/transaction.go", "transactionStatus")
	c01Digest("pkg/redis/checkpoint/checkpoint.go", "GetCheckpoint", "fetchCheckpoint")
}
