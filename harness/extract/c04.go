package main

// C04: the pieces of pkg/rdb that Model/RdbLzf.lean and Model/RdbFrameX.lean transcribe by hand and that the
// correspondence ops exercise only at chosen sizes are pinned as source facts — an edit fails the tie until the Lean
// transcription (and the expected fact) has been revisited:
//   c04_lzfDecompress / c04_lzfRoom   the decompression loop and the growth policy of its output buffer (D33)
//   c04_consts                        readBytesStep, maxBinEntryBuffer (as written)
//   c04_readBytesP_args               the argument of every call of the UNGUARDED ReadBytesP(n) in pkg/rdb
//   c04_hash_chunk_cond               the condition under which HashPaser.ReadBuffer ends a chunk

import (
	"go/ast"
	"go/token"
	"sort"
)

func genC04() {
	fset, f := parseFile("pkg/rdb/reader.go")
	for _, d := range f.Decls {
		fn, ok := d.(*ast.FuncDecl)
		if !ok {
			continue
		}
		switch fn.Name.Name {
		case "lzfDecompress":
			facts["c04_lzfDecompress"] = c17Print(fset, fn.Body)
		case "lzfRoom":
			facts["c04_lzfRoom"] = c17Print(fset, fn.Body)
		}
	}
	consts := map[string]string{}
	if e := c17ConstExpr(f, "readBytesStep"); e != nil {
		consts["readBytesStep"] = c17Print(fset, e)
	}
	fsetO, fo := parseFile("pkg/rdb/rdb_object.go")
	if e := findVar(fo, "maxBinEntryBuffer"); e != nil {
		consts["maxBinEntryBuffer"] = c17Print(fsetO, e)
	}
	facts["c04_consts"] = consts
	// every call of ReadBytesP in pkg/rdb
	var args []string
	for _, rel := range []string{"pkg/rdb/reader.go", "pkg/rdb/rdb_object.go", "pkg/rdb/loader.go", "pkg/rdb/rdb.go"} {
		fs, ff := parseFile(rel)
		ast.Inspect(ff, func(n ast.Node) bool {
			ce, ok := n.(*ast.CallExpr)
			if !ok {
				return true
			}
			if se, ok := ce.Fun.(*ast.SelectorExpr); ok && se.Sel.Name == "ReadBytesP" && len(ce.Args) == 1 {
				args = append(args, c17Print(fs, ce.Args[0]))
			}
			return true
		})
	}
	sort.Strings(args)
	facts["c04_readBytesP_args"] = args
	// the chunk condition of HashPaser.ReadBuffer: the `if` that holds the `break` of the pair loop
	for _, d := range fo.Decls {
		fn, ok := d.(*ast.FuncDecl)
		if !ok || fn.Name.Name != "ReadBuffer" || fn.Recv == nil || len(fn.Recv.List) != 1 {
			continue
		}
		if c17Print(fsetO, fn.Recv.List[0].Type) != "*HashPaser" {
			continue
		}
		ast.Inspect(fn.Body, func(n ast.Node) bool {
			is, ok := n.(*ast.IfStmt)
			if !ok || len(is.Body.List) != 1 {
				return true
			}
			if bs, ok := is.Body.List[0].(*ast.BranchStmt); ok && bs.Tok == token.BREAK {
				facts["c04_hash_chunk_cond"] = c17Print(fsetO, is.Cond)
			}
			return true
		})
	}
	for _, k := range []string{"c04_lzfDecompress", "c04_lzfRoom", "c04_hash_chunk_cond"} {
		if _, ok := facts[k]; !ok {
			die("%s not found", k)
		}
	}
}
