package main

// C04: the pieces of pkg/rdb that Model/RdbLzf.lean and Model/RdbFrameX.lean transcribe by hand and that the
// correspondence ops exercise only at chosen sizes are pinned as source facts — an edit fails the tie until the Lean
// transcription (and the expected fact) has been revisited:
//   c04_lzfDecompress / c04_lzfRoom   the decompression loop and the growth policy of its output buffer (D33)
//   c04_consts                        readBytesStep, maxBinEntryBuffer (as written)
//   c04_readBytesP_args               the argument of every call of the UNGUARDED ReadBytesP(n) in pkg/rdb
//   c04_hash_chunk_cond               the condition under which HashPaser.ReadBuffer ends a chunk

import (
	"go/ast"
	"go/token"
	"os"
	"path/filepath"
	"sort"
	"strings"
)

func genC04() {
	fset, f := parseFile("pkg/rdb/reader.go")
	for _, d := range f.Decls {
		fn, ok := d.(*ast.FuncDecl)
		if !ok {
			continue
		}
		switch fn.Name.Name {
		case "lzfDecompress":
			facts["c04_lzfDecompress"] = c17Print(fset, fn.Body)
		case "lzfRoom":
			facts["c04_lzfRoom"] = c17Print(fset, fn.Body)
		}
	}
	consts := map[string]string{}
	if e := c17ConstExpr(f, "readBytesStep"); e != nil {
		consts["readBytesStep"] = c17Print(fset, e)
	}
	fsetO, fo := parseFile("pkg/rdb/rdb_object.go")
	if e := findVar(fo, "maxBinEntryBuffer"); e != nil {
		consts["maxBinEntryBuffer"] = c17Print(fsetO, e)
	}
	facts["c04_consts"] = consts
	// every call of ReadBytesP in pkg/rdb
	var args []string
	for _, rel := range []string{"pkg/rdb/reader.go", "pkg/rdb/rdb_object.go", "pkg/rdb/loader.go", "pkg/rdb/rdb.go"} {
		fs, ff := parseFile(rel)
		ast.Inspect(ff, func(n ast.Node) bool {
			ce, ok := n.(*ast.CallExpr)
			if !ok {
				return true
			}
			if se, ok := ce.Fun.(*ast.SelectorExpr); ok && se.Sel.Name == "ReadBytesP" && len(ce.Args) == 1 {
				args = append(args, c17Print(fs, ce.Args[0]))
			}
			return true
		})
	}
	sort.Strings(args)
	facts["c04_readBytesP_args"] = args
	// the chunk condition of HashPaser.ReadBuffer: the `if` that holds the `break` of the pair loop
	for _, d := range fo.Decls {
		fn, ok := d.(*ast.FuncDecl)
		if !ok || fn.Name.Name != "ReadBuffer" || fn.Recv == nil || len(fn.Recv.List) != 1 {
			continue
		}
		if c17Print(fsetO, fn.Recv.List[0].Type) != "*HashPaser" {
			continue
		}
		ast.Inspect(fn.Body, func(n ast.Node) bool {
			is, ok := n.(*ast.IfStmt)
			if !ok || len(is.Body.List) != 1 {
				return true
			}
			if bs, ok := is.Body.List[0].(*ast.BranchStmt); ok && bs.Tok == token.BREAK {
				facts["c04_hash_chunk_cond"] = c17Print(fsetO, is.Cond)
			}
			return true
		})
	}
	for _, k := range []string{"c04_lzfDecompress", "c04_lzfRoom", "c04_hash_chunk_cond"} {
		if _, ok := facts[k]; !ok {
			die("%s not found", k)
		}
	}
	genC04Locals()
}

// session 5 — what makes "two replays of one RedisOutput share nothing" (Props/C04S.lean, later_replay_independent) the
// right model of the code. Facts that survive renaming-free rewrites of the bodies (sets of names, one call expression):
//   c04_sendRdb_nonlocal_channels / c04_sendRdb_unbound_makers   channels / parsers created in sendRdb that are NOT bound to a local
//   c04_rdbPipe_source        the expression rdbPipe is defined from (a fresh rdb.ParseRdb over the reader handed in)
//   c04_parseRdb_pipe         the expression ParseRdb's channel is defined from, inside ParseRdb
//   c04_parseRdb_pkg_vars     package-level VARIABLES of pkg/rdb the body of ParseRdb mentions (shared state of the
//                             leftover parser goroutine with anything else: only the constant-like RdbVersion)
//   c04_parseRdb_sends        number of `pipe <- …` statements in ParseRdb and how many are inside the goroutine's closure
func genC04Locals() {
	fsO, fO := parseFile("syncer/output.go")
	var send *ast.FuncDecl
	for _, d := range fO.Decls {
		if fn, ok := d.(*ast.FuncDecl); ok && fn.Name.Name == "sendRdb" && fn.Recv != nil {
			send = fn
		}
	}
	if send == nil {
		die("sendRdb not found")
	}
	// every channel / parser the replay creates: `make(chan …)` and `rdb.ParseRdb(…)` inside sendRdb must be bound to a name
	// DECLARED in sendRdb (`:=`, `var`, or appended to such a name) — anything else (a field of ro, a package variable) would
	// be state a later replay shares with this one. Robust against renaming the locals.
	declared := map[string]bool{}
	ast.Inspect(send.Body, func(n ast.Node) bool {
		switch x := n.(type) {
		case *ast.AssignStmt:
			if x.Tok == token.DEFINE {
				for _, l := range x.Lhs {
					if id, ok := l.(*ast.Ident); ok {
						declared[id.Name] = true
					}
				}
			}
		case *ast.ValueSpec:
			for _, id := range x.Names {
				declared[id.Name] = true
			}
		}
		return true
	})
	isMaker := func(e ast.Expr) bool {
		ce, ok := e.(*ast.CallExpr)
		if !ok {
			return false
		}
		if id, ok := ce.Fun.(*ast.Ident); ok && id.Name == "make" && len(ce.Args) > 0 {
			_, isChan := ce.Args[0].(*ast.ChanType)
			return isChan
		}
		if se, ok := ce.Fun.(*ast.SelectorExpr); ok && se.Sel.Name == "ParseRdb" {
			return true
		}
		return false
	}
	nonlocal := []string{}
	makers := 0
	ast.Inspect(send.Body, func(n ast.Node) bool {
		as, ok := n.(*ast.AssignStmt)
		if !ok {
			return true
		}
		for i, r := range as.Rhs {
			inner := r
			if ce, ok := r.(*ast.CallExpr); ok { // x = append(x, make(chan …))
				if id, ok := ce.Fun.(*ast.Ident); ok && id.Name == "append" && len(ce.Args) == 2 && isMaker(ce.Args[1]) {
					inner = ce.Args[1]
				}
			}
			if !isMaker(inner) || i >= len(as.Lhs) {
				continue
			}
			makers++
			lhs := as.Lhs[i]
			for {
				ix, ok := lhs.(*ast.IndexExpr) // pipes[i] = make(chan …): bound to the local slice
				if !ok {
					break
				}
				lhs = ix.X
			}
			id, ok := lhs.(*ast.Ident)
			if !ok || !declared[id.Name] {
				nonlocal = append(nonlocal, c17Print(fsO, as.Lhs[i]))
			}
			if se, ok := inner.(*ast.CallExpr).Fun.(*ast.SelectorExpr); ok && se.Sel.Name == "ParseRdb" {
				facts["c04_rdbPipe_source"] = c17Print(fsO, inner)
			}
		}
		return true
	})
	// a maker that is not the right-hand side of an assignment at all (passed along, stored in a literal) is counted too
	total := 0
	ast.Inspect(send.Body, func(n ast.Node) bool {
		if e, ok := n.(ast.Expr); ok && isMaker(e) {
			total++
		}
		return true
	})
	facts["c04_sendRdb_nonlocal_channels"] = nonlocal
	facts["c04_sendRdb_unbound_makers"] = total - makers

	fsR, fR := parseFile("pkg/rdb/rdb.go")
	var parse *ast.FuncDecl
	for _, d := range fR.Decls {
		if fn, ok := d.(*ast.FuncDecl); ok && fn.Name.Name == "ParseRdb" && fn.Recv == nil {
			parse = fn
		}
	}
	if parse == nil {
		die("ParseRdb not found")
	}
	// package-level variables of pkg/rdb (default build, no tests)
	pkgVars := map[string]bool{}
	ents, err := os.ReadDir(filepath.Join(*repo, "pkg/rdb"))
	if err != nil {
		die("pkg/rdb: %v", err)
	}
	for _, e := range ents {
		if e.IsDir() || !strings.HasSuffix(e.Name(), ".go") || strings.HasSuffix(e.Name(), "_test.go") {
			continue
		}
		_, ff := parseFile("pkg/rdb/" + e.Name())
		for _, d := range ff.Decls {
			if gd, ok := d.(*ast.GenDecl); ok && gd.Tok == token.VAR {
				for _, sp := range gd.Specs {
					if vs, ok := sp.(*ast.ValueSpec); ok {
						for _, id := range vs.Names {
							pkgVars[id.Name] = true
						}
					}
				}
			}
		}
	}
	used := map[string]bool{}
	sends, inClosure := 0, 0
	pipeName := ""
	for _, st := range parse.Body.List {
		if as, ok := st.(*ast.AssignStmt); ok && as.Tok == token.DEFINE && len(as.Lhs) == 1 && len(as.Rhs) == 1 && isMaker(as.Rhs[0]) {
			if id, ok := as.Lhs[0].(*ast.Ident); ok {
				pipeName = id.Name
				facts["c04_parseRdb_pipe"] = c17Print(fsR, as.Rhs[0])
			}
		}
	}
	var walk func(n ast.Node, closure bool)
	walk = func(n ast.Node, closure bool) {
		ast.Inspect(n, func(m ast.Node) bool {
			switch x := m.(type) {
			case *ast.FuncLit:
				if m != n {
					walk(x.Body, true)
					return false
				}
			case *ast.SelectorExpr:
				walk(x.X, closure)
				return false
			case *ast.Ident:
				if pkgVars[x.Name] {
					used[x.Name] = true
				}
			case *ast.SendStmt:
				if id, ok := x.Chan.(*ast.Ident); ok && id.Name == pipeName {
					sends++
					if closure {
						inClosure++
					}
				}
			}
			return true
		})
	}
	walk(parse.Body, false)
	var uv []string
	for k := range used {
		uv = append(uv, k)
	}
	sort.Strings(uv)
	facts["c04_parseRdb_pkg_vars"] = uv
	facts["c04_parseRdb_sends"] = []int{sends, inClosure}
	// every run of the input obtains its reader anew: run() defines `reader` from readChannel, readChannel from channel.NewReader
	_, fI := parseFile("syncer/input.go")
	fsI, _ := parseFile("syncer/input.go")
	fresh := map[string]string{}
	for _, d := range fI.Decls {
		fn, ok := d.(*ast.FuncDecl)
		if !ok || fn.Recv == nil || (fn.Name.Name != "run" && fn.Name.Name != "readChannel") {
			continue
		}
		ast.Inspect(fn.Body, func(n ast.Node) bool {
			if as, ok := n.(*ast.AssignStmt); ok && as.Tok == token.DEFINE && len(as.Lhs) >= 1 && len(as.Rhs) == 1 {
				if id, ok := as.Lhs[0].(*ast.Ident); ok && id.Name == "reader" {
					fresh[fn.Name.Name] = c17Print(fsI, as.Rhs[0])
				}
			}
			return true
		})
	}
	facts["c04_reader_per_run"] = fresh
	// dimension audit: PROCESS-GLOBAL state the snapshot parser / replayer could share between concurrent or consecutive
	// replays: package-level variables of pkg/rdb and pkg/rdbrestore that some function ASSIGNS (default build, no tests;
	// a local of the same name declared in the function is not counted). Expected: none but the test hook of the chunk threshold.
	written := map[string]bool{}
	for _, dir := range []string{"pkg/rdb", "pkg/rdbrestore"} {
		des, err := os.ReadDir(filepath.Join(*repo, dir))
		if err != nil {
			die("%s: %v", dir, err)
		}
		var files []*ast.File
		vars := map[string]bool{}
		for _, e := range des {
			if e.IsDir() || !strings.HasSuffix(e.Name(), ".go") || strings.HasSuffix(e.Name(), "_test.go") {
				continue
			}
			_, ff := parseFile(dir + "/" + e.Name())
			files = append(files, ff)
			for _, d := range ff.Decls {
				if gd, ok := d.(*ast.GenDecl); ok && gd.Tok == token.VAR {
					for _, sp := range gd.Specs {
						if vs, ok := sp.(*ast.ValueSpec); ok {
							for _, id := range vs.Names {
								vars[id.Name] = true
							}
						}
					}
				}
			}
		}
		for _, ff := range files {
			for _, d := range ff.Decls {
				fn, ok := d.(*ast.FuncDecl)
				if !ok || fn.Body == nil {
					continue
				}
				local := map[string]bool{}
				if fn.Type.Params != nil {
					for _, fl := range fn.Type.Params.List {
						for _, id := range fl.Names {
							local[id.Name] = true
						}
					}
				}
				ast.Inspect(fn.Body, func(n ast.Node) bool {
					switch x := n.(type) {
					case *ast.AssignStmt:
						for _, l := range x.Lhs {
							if id, ok := l.(*ast.Ident); ok {
								if x.Tok == token.DEFINE {
									local[id.Name] = true
								} else if vars[id.Name] && !local[id.Name] {
									written[dir+"."+id.Name+" in "+fn.Name.Name] = true
								}
							}
						}
					case *ast.ValueSpec:
						for _, id := range x.Names {
							local[id.Name] = true
						}
					case *ast.IncDecStmt:
						if id, ok := x.X.(*ast.Ident); ok && vars[id.Name] && !local[id.Name] {
							written[dir+"."+id.Name+" in "+fn.Name.Name] = true
						}
					}
					return true
				})
			}
		}
	}
	wl := []string{}
	for k := range written {
		wl = append(wl, k)
	}
	sort.Strings(wl)
	facts["c04_pkg_vars_written"] = wl
	for _, k := range []string{"c04_rdbPipe_source", "c04_parseRdb_pipe"} {
		if _, ok := facts[k]; !ok {
			die("%s not found", k)
		}
	}
}
