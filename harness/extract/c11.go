package main

// c11 (session 5): slot arithmetic BY VALUE. The textual fact slot_arith_sites (main.go) recognises `& 0x3fff`,
// `% 16384` and package constants written as one literal; a mask spelled `1<<14 - 1`, a typed constant, a constant of
// another file or package (`% redisClusterSlots`) is invisible to it. Here every package of the repository is
// type-checked (gfLoad: the default build's files, imports outside the module as stand-ins) and every `&`, `%`, `&^`
// expression one of whose operands has the CONSTANT VALUE 16383 or 16384 (go/types constant folding) is listed with
// file, function and text - outside the functions gofn translates for C11 (their arithmetic is regenerated Lean).
// A package that does not type-check this way is listed in slot_value_scan_skipped (compared too), never ignored.

import (
	"fmt"
	"go/ast"
	"go/constant"
	"go/token"
	"go/types"
	"os"
	"path/filepath"
	"sort"
	"strings"
)

func genC11() {
	var dirs []string
	filepath.Walk(*repo, func(p string, info os.FileInfo, err error) error {
		if err != nil || !info.IsDir() {
			return nil
		}
		rel, _ := filepath.Rel(*repo, p)
		b := filepath.Base(p)
		if rel != "." && (strings.HasPrefix(b, ".") || b == "vendor" || b == "tests" || b == "docs" || b == "deploy" || b == "testdata") {
			return filepath.SkipDir
		}
		ents, _ := os.ReadDir(p)
		for _, e := range ents {
			if !e.IsDir() && strings.HasSuffix(e.Name(), ".go") && !strings.HasSuffix(e.Name(), "_test.go") {
				dirs = append(dirs, rel)
				break
			}
		}
		return nil
	})
	sort.Strings(dirs)
	sites, skipped := []string{}, []string{}
	isSlotVal := func(pk *gfPackage, e ast.Expr) bool {
		tv, ok := pk.info.Types[e]
		if !ok || tv.Value == nil || tv.Value.Kind() != constant.Int {
			return false
		}
		n, exact := constant.Int64Val(tv.Value)
		return exact && (n == 16383 || n == 16384)
	}
	for _, rel := range dirs {
		if rel == "." {
			continue
		}
		pk := func() (pk *gfPackage) {
			defer func() {
				if r := recover(); r != nil {
					if ge, ok := r.(genErr); ok {
						_ = ge
						skipped = append(skipped, rel) // the message carries absolute paths: the name only
						pk = nil
						return
					}
					panic(r)
				}
			}()
			return gfLoad(rel)
		}()
		if pk == nil {
			continue
		}
		for _, file := range pk.files {
			fname := filepath.Base(pk.fset.Position(file.Pos()).Filename)
			for _, d := range file.Decls {
				fn := "(package level)"
				if fd, ok := d.(*ast.FuncDecl); ok {
					fn = fd.Name.Name
					if gfTranslated(rel+"/"+fname, fn) {
						continue
					}
				}
				ast.Inspect(d, func(n ast.Node) bool {
					x, ok := n.(*ast.BinaryExpr)
					if !ok || !(x.Op == token.AND || x.Op == token.REM || x.Op == token.AND_NOT) {
						return true
					}
					if _, whole := pk.info.Types[x]; whole && pk.info.Types[x].Value != nil {
						return true // a constant expression as a whole (a declaration like slotMask = slots - 1 & …) computes no slot
					}
					if isSlotVal(pk, x.X) || isSlotVal(pk, x.Y) {
						sites = append(sites, fmt.Sprintf("%s/%s:%s:%s", rel, fname, fn, c15Print(pk.fset, x)))
					}
					return true
				})
			}
		}
	}
	// process-global state reachable from the filter / slot code (dimension audit, item 4): package-level variables of
	// the packages C10 / C11 rest on that are WRITTEN outside init (assigned, ++/--, element or field assigned, address
	// taken) - each is a first-use / concurrent-use dimension the harness would have to draw; today there must be none
	globals := []string{}
	for _, rel := range []string{"pkg/filter", "pkg/redis/keyspec", "pkg/redis", "pkg/digest", "pkg/redis/client/cluster"} {
		pk := func() (pk *gfPackage) {
			defer func() {
				if r := recover(); r != nil {
					if _, ok := r.(genErr); ok {
						globals = append(globals, rel+": package not type-checked")
						pk = nil
						return
					}
					panic(r)
				}
			}()
			return gfLoad(rel)
		}()
		if pk == nil {
			continue
		}
		isGlobal := func(e ast.Expr) (string, bool) {
			for {
				switch x := e.(type) {
				case *ast.ParenExpr:
					e = x.X
					continue
				case *ast.IndexExpr:
					e = x.X
					continue
				case *ast.SelectorExpr:
					if _, isField := pk.info.Selections[x]; isField {
						e = x.X
						continue
					}
					return "", false
				case *ast.StarExpr:
					e = x.X
					continue
				case *ast.Ident:
					if v, ok := pk.info.Uses[x].(*types.Var); ok && !v.IsField() && v.Parent() == pk.pkg.Scope() {
						return x.Name, true
					}
					return "", false
				}
				return "", false
			}
		}
		for _, file := range pk.files {
			fname := filepath.Base(pk.fset.Position(file.Pos()).Filename)
			for _, d := range file.Decls {
				fd, ok := d.(*ast.FuncDecl)
				if !ok || fd.Body == nil || (fd.Name.Name == "init" && fd.Recv == nil) {
					continue
				}
				note := func(e ast.Expr, how string) {
					if n, ok := isGlobal(e); ok {
						globals = append(globals, fmt.Sprintf("%s/%s:%s: %s %s", rel, fname, fd.Name.Name, how, n))
					}
				}
				ast.Inspect(fd.Body, func(n ast.Node) bool {
					switch x := n.(type) {
					case *ast.AssignStmt:
						if x.Tok != token.DEFINE {
							for _, l := range x.Lhs {
								note(l, "assigns")
							}
						}
					case *ast.IncDecStmt:
						note(x.X, "assigns")
					case *ast.UnaryExpr:
						if x.Op == token.AND {
							note(x.X, "takes the address of")
						}
					case *ast.CallExpr:
						// a method called on a package-level variable (atomic.Value.Store, sync.Once.Do, a cache's Put ...)
						if sel, ok := x.Fun.(*ast.SelectorExpr); ok {
							if sl := pk.info.Selections[sel]; sl != nil && sl.Kind() == types.MethodVal {
								note(sel.X, "calls "+sel.Sel.Name+" on")
							} else if sl == nil {
								// a method of a type from a package that is not loaded (sync/atomic ...): no selection is recorded
								if id, ok := sel.X.(*ast.Ident); ok {
									if v, ok := pk.info.Uses[id].(*types.Var); ok && !v.IsField() && v.Parent() == pk.pkg.Scope() {
										globals = append(globals, fmt.Sprintf("%s/%s:%s: calls %s on %s", rel, fname, fd.Name.Name, sel.Sel.Name, id.Name))
									}
								}
							}
						}
					}
					return true
				})
			}
		}
	}
	sort.Strings(globals)
	facts["slot_filter_globals_written"] = globals
	sort.Strings(sites)
	facts["slot_arith_by_value"] = sites
	facts["slot_value_scan_skipped"] = skipped
}
