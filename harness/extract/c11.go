package main

// c11 (session 5): slot arithmetic BY VALUE. The textual fact slot_arith_sites (main.go) recognises `& 0x3fff`,
// `% 16384` and package constants written as one literal; a mask spelled `1<<14 - 1`, a typed constant, a constant of
// another file or package (`% redisClusterSlots`) is invisible to it. Here every package of the repository is
// type-checked (gfLoad: the default build's files, imports outside the module as stand-ins) and every `&`, `%`, `&^`
// expression one of whose operands has the CONSTANT VALUE 16383 or 16384 (go/types constant folding) is listed with
// file, function and text - outside the functions gofn translates for C11 (their arithmetic is regenerated Lean).
// A package that does not type-check this way is listed in slot_value_scan_skipped (compared too), never ignored.

import (
	"fmt"
	"go/ast"
	"go/constant"
	"go/token"
	"os"
	"path/filepath"
	"sort"
	"strings"
)

func genC11() {
	var dirs []string
	filepath.Walk(*repo, func(p string, info os.FileInfo, err error) error {
		if err != nil || !info.IsDir() {
			return nil
		}
		rel, _ := filepath.Rel(*repo, p)
		b := filepath.Base(p)
		if rel != "." && (strings.HasPrefix(b, ".") || b == "vendor" || b == "tests" || b == "docs" || b == "deploy" || b == "testdata") {
			return filepath.SkipDir
		}
		ents, _ := os.ReadDir(p)
		for _, e := range ents {
			if !e.IsDir() && strings.HasSuffix(e.Name(), ".go") && !strings.HasSuffix(e.Name(), "_test.go") {
				dirs = append(dirs, rel)
				break
			}
		}
		return nil
	})
	sort.Strings(dirs)
	sites, skipped := []string{}, []string{}
	isSlotVal := func(pk *gfPackage, e ast.Expr) bool {
		tv, ok := pk.info.Types[e]
		if !ok || tv.Value == nil || tv.Value.Kind() != constant.Int {
			return false
		}
		n, exact := constant.Int64Val(tv.Value)
		return exact && (n == 16383 || n == 16384)
	}
	for _, rel := range dirs {
		if rel == "." {
			continue
		}
		pk := func() (pk *gfPackage) {
			defer func() {
				if r := recover(); r != nil {
					if ge, ok := r.(genErr); ok {
						_ = ge
						skipped = append(skipped, rel) // the message carries absolute paths: the name only
						pk = nil
						return
					}
					panic(r)
				}
			}()
			return gfLoad(rel)
		}()
		if pk == nil {
			continue
		}
		for _, file := range pk.files {
			fname := filepath.Base(pk.fset.Position(file.Pos()).Filename)
			for _, d := range file.Decls {
				fn := "(package level)"
				if fd, ok := d.(*ast.FuncDecl); ok {
					fn = fd.Name.Name
					if gfTranslated(rel+"/"+fname, fn) {
						continue
					}
				}
				ast.Inspect(d, func(n ast.Node) bool {
					x, ok := n.(*ast.BinaryExpr)
					if !ok || !(x.Op == token.AND || x.Op == token.REM || x.Op == token.AND_NOT) {
						return true
					}
					if _, whole := pk.info.Types[x]; whole && pk.info.Types[x].Value != nil {
						return true // a constant expression as a whole (a declaration like slotMask = slots - 1 & …) computes no slot
					}
					if isSlotVal(pk, x.X) || isSlotVal(pk, x.Y) {
						sites = append(sites, fmt.Sprintf("%s/%s:%s:%s", rel, fname, fn, c15Print(pk.fset, x)))
					}
					return true
				})
			}
		}
	}
	sort.Strings(sites)
	facts["slot_arith_by_value"] = sites
	facts["slot_value_scan_skipped"] = skipped
}
