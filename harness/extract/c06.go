package main

// C06 source facts: the skeleton of the decision in RedisInput.syncMeta (its
// if-conditions and the argument of every pSync call, in source order), the
// channel calls of syncMeta / syncData / readChannel, and every statement of
// StandaloneRedis.SendPSync that touches the offset. The hand-written model
// (lean/GunYu/Model/Psync.lean) transcribes exactly this skeleton; a change
// here without a change there is reported as a broken tie.

import (
	"go/ast"
	"go/token"
	"regexp"
	"strconv"
	"strings"
)

func c06Func(f *ast.File, recv, name string) *ast.FuncDecl {
	for _, d := range f.Decls {
		fd, ok := d.(*ast.FuncDecl)
		if !ok || fd.Name.Name != name || fd.Body == nil {
			continue
		}
		if recv == "" {
			return fd
		}
		if fd.Recv != nil && len(fd.Recv.List) == 1 {
			t := fd.Recv.List[0].Type
			if st, ok := t.(*ast.StarExpr); ok {
				t = st.X
			}
			if id, ok := t.(*ast.Ident); ok && id.Name == recv {
				return fd
			}
		}
	}
	die("c06: func %s.%s not found", recv, name)
	return nil
}

// c06Globals (dimension audit, session 5): the process-global state the code of C06's anchors reaches - package-level
// variables assigned inside a function (written after init) and every value read through config.GetSyncerConfig()
// (one configuration object per process), per function. The harness draws / judges what is listed here
// (channel.verifyCrc, the snapshot limiter); a new entry is a broken tie: decide whether it needs drawing.
func c06Globals() {
	var written, cfgReads []string
	for _, rel := range []string{"syncer/input.go", "pkg/redis/psync.go", "syncer/channel.go", "syncer/memory_channel.go"} {
		fset, f := parseFile(rel)
		globals := map[string]bool{}
		for _, d := range f.Decls {
			if gd, ok := d.(*ast.GenDecl); ok && gd.Tok == token.VAR {
				for _, sp := range gd.Specs {
					for _, n := range sp.(*ast.ValueSpec).Names {
						if n.Name != "_" {
							globals[n.Name] = true
						}
					}
				}
			}
		}
		for _, d := range f.Decls {
			fd, ok := d.(*ast.FuncDecl)
			if !ok || fd.Body == nil {
				continue
			}
			seen := map[string]bool{}
			ast.Inspect(fd.Body, func(n ast.Node) bool {
				switch x := n.(type) {
				case *ast.AssignStmt:
					if x.Tok == token.DEFINE {
						return true
					}
					for _, l := range x.Lhs {
						if id, ok := l.(*ast.Ident); ok && globals[id.Name] {
							written = append(written, rel+": "+id.Name+" <- "+fd.Name.Name)
						}
					}
				case *ast.SelectorExpr:
					// the longest selector chain rooted at config.GetSyncerConfig()
					r := c12Render(fset, x)
					if strings.HasPrefix(r, "config.GetSyncerConfig().") {
						r = strings.TrimSuffix(r, "()")
						if !seen[r] {
							seen[r] = true
							cfgReads = append(cfgReads, rel+": "+fd.Name.Name+": "+r)
						}
						return false
					}
				}
				return true
			})
		}
	}
	if written == nil {
		written = []string{}
	}
	facts["c06_globals_written_after_init"] = written
	facts["c06_config_reads"] = cfgReads
}

func genC06() {
	defer c06Globals()
	fset, f := parseFile("syncer/input.go")
	sm := c06Func(f, "RedisInput", "syncMeta")
	var ifs, psyncs []string
	// locals introduced by `a, b := ri.channel.<Call>(…)` are printed as <Call>.0, <Call>.1 in the conditions, so that
	// renaming them is not a tie failure (what they ARE - which result of which channel call - is what the model transcribes)
	canon := map[string]string{}
	ast.Inspect(sm.Body, func(n ast.Node) bool {
		as, ok := n.(*ast.AssignStmt)
		if !ok || as.Tok != token.DEFINE || len(as.Rhs) != 1 {
			return true
		}
		call, ok := as.Rhs[0].(*ast.CallExpr)
		if !ok {
			return true
		}
		sel, ok := call.Fun.(*ast.SelectorExpr)
		if !ok || !c12IsSel(sel.X, "ri", "channel") {
			return true
		}
		for i, l := range as.Lhs {
			if id, ok := l.(*ast.Ident); ok && id.Name != "_" {
				canon[id.Name] = sel.Sel.Name + "." + strconv.Itoa(i)
			}
		}
		return true
	})
	renameLocals := func(c string) string {
		for name, to := range canon {
			c = regexp.MustCompile(`\b`+regexp.QuoteMeta(name)+`\b`).ReplaceAllString(c, to)
		}
		return c
	}
	ast.Inspect(sm.Body, func(n ast.Node) bool {
		switch x := n.(type) {
		case *ast.IfStmt:
			c := renameLocals(c12Render(fset, x.Cond))
			if c != "err != nil" {
				ifs = append(ifs, c)
			}
		case *ast.CallExpr:
			if s, ok := x.Fun.(*ast.SelectorExpr); ok && s.Sel.Name == "pSync" && len(x.Args) == 2 {
				psyncs = append(psyncs, c12Render(fset, x.Args[1]))
			}
		}
		return true
	})
	facts["c06_syncmeta_ifs"] = ifs
	facts["c06_psync_args"] = psyncs

	var chans []string
	for _, fn := range []string{"syncMeta", "syncData", "readChannel", "sendOutput"} {
		fd := c06Func(f, "RedisInput", fn)
		ast.Inspect(fd.Body, func(n ast.Node) bool {
			x, ok := n.(*ast.CallExpr)
			if !ok {
				return true
			}
			if s, ok := x.Fun.(*ast.SelectorExpr); ok {
				if c12IsSel(s.X, "ri", "channel") || c12IsSel(s.X, "ri", "output") {
					chans = append(chans, fn+": "+c12Render(fset, x))
				}
			}
			return true
		})
	}
	facts["c06_channel_calls"] = chans

	fset2, f2 := parseFile("pkg/redis/psync.go")
	sp := c06Func(f2, "StandaloneRedis", "SendPSync")
	var offs []string
	mentions := func(n ast.Node) bool {
		found := false
		ast.Inspect(n, func(m ast.Node) bool {
			if id, ok := m.(*ast.Ident); ok && id.Name == "offset" {
				found = true
			}
			return !found
		})
		return found
	}
	ast.Inspect(sp.Body, func(n ast.Node) bool {
		switch x := n.(type) {
		case *ast.IfStmt:
			if mentions(x.Cond) {
				offs = append(offs, "if "+c12Render(fset2, x.Cond))
			}
		case *ast.AssignStmt:
			if mentions(x) {
				offs = append(offs, c12Render(fset2, x))
			}
		case *ast.IncDecStmt:
			if mentions(x) {
				offs = append(offs, c12Render(fset2, x))
			}
		case *ast.ReturnStmt:
			if mentions(x) {
				offs = append(offs, c12Render(fset2, x))
			}
		case *ast.CallExpr:
			if s, ok := x.Fun.(*ast.SelectorExpr); ok && s.Sel.Name == "SendAndFlush" {
				offs = append(offs, c12Render(fset2, x))
			}
		}
		return true
	})
	facts["c06_sendpsync_offset"] = offs
	// the statements that decide the numbers are regenerated (c06psync.go -> Gen/C06Psync.lean); what stays a
	// textual fact is the wire format of the request
	var wire []string
	for _, o := range offs {
		if strings.HasPrefix(o, "sr.cli.SendAndFlush(") {
			wire = append(wire, o)
		}
	}
	facts["c06_sendpsync_wire"] = wire
	defer genC06Psync(sp) // last: a SendPSync it cannot read must not hide the other facts of this generator

	// the capabilities advertised before PSYNC (`capa eof` would make a diskless master answer
	// `$EOF:<40 bytes>`, which waitRdbDump refuses)
	var capa []string
	ast.Inspect(c06Func(f2, "StandaloneRedis", "SendPSyncCapabilities").Body, func(n ast.Node) bool {
		if x, ok := n.(*ast.CallExpr); ok {
			if sl, ok := x.Fun.(*ast.SelectorExpr); ok && sl.Sel.Name == "NewCommand" {
				capa = append(capa, c12Render(fset2, x))
			}
		}
		return true
	})
	facts["c06_capabilities"] = capa

	// ---- conditions of the run glue, and what every `if err != nil` of syncMeta /
	// fetchInput / sendOutput / readChannel / syncData does with the error
	var flow, errs []string
	for _, fn := range []string{"run", "fetchInput", "syncData", "readChannel", "sendOutput"} {
		fd := c06Func(f, "RedisInput", fn)
		ast.Inspect(fd.Body, func(n ast.Node) bool {
			if x, ok := n.(*ast.IfStmt); ok {
				if c := c12Render(fset, x.Cond); c != "err != nil" {
					flow = append(flow, fn+": "+c)
				}
			}
			return true
		})
	}
	facts["c06_flow_ifs"] = flow
	var walk func(fn string, list []ast.Stmt)
	walk = func(fn string, list []ast.Stmt) {
		for i, st := range list {
			switch x := st.(type) {
			case *ast.IfStmt:
				if c12Render(fset, x.Cond) == "err != nil" {
					prev := "?"
					if i > 0 {
						prev = c12Render(fset, list[i-1])
						if k := strings.Index(prev, "("); k > 0 {
							prev = prev[:k]
						}
					}
					ret := "falls through"
					for _, b := range x.Body.List {
						if _, ok := b.(*ast.ReturnStmt); ok {
							ret = "returns"
						}
					}
					errs = append(errs, fn+": "+prev+" -> "+ret)
				}
				walk(fn, x.Body.List)
				if e, ok := x.Else.(*ast.BlockStmt); ok {
					walk(fn, e.List)
				} else if e, ok := x.Else.(*ast.IfStmt); ok {
					walk(fn, []ast.Stmt{e})
				}
			case *ast.BlockStmt:
				walk(fn, x.List)
			}
		}
	}
	for _, fn := range []string{"syncMeta", "fetchInput", "syncData", "readChannel", "sendOutput"} {
		walk(fn, c06Func(f, "RedisInput", fn).Body.List)
	}
	facts["c06_err_branches"] = errs

	// ---- the snapshot-to-stream hand-off: what SendRdb stores when the replay completed, and
	// what the log sender stores (in-memory mode)
	fset3, f3 := parseFile("syncer/output.go")
	var hand []string
	sr := c06Func(f3, "RedisOutput", "sendRdb")
	if n := len(sr.Body.List); n > 0 {
		hand = append(hand, "sendRdb: "+c12Render(fset3, sr.Body.List[n-1]))
	}
	for _, d := range f3.Decls {
		fd, ok := d.(*ast.FuncDecl)
		if !ok || fd.Body == nil {
			continue
		}
		ast.Inspect(fd.Body, func(n ast.Node) bool {
			if as, ok := n.(*ast.AssignStmt); ok {
				t := c12Render(fset3, as)
				lhs := ""
				if len(as.Lhs) > 0 {
					lhs = c12Render(fset3, as.Lhs[0])
				}
				if lhs == "ro.checkpointInMem" || strings.HasPrefix(lhs, "ro.checkpointInMem.") {
					hand = append(hand, fd.Name.Name+": "+t)
				}
			}
			return true
		})
	}
	facts["c06_handoff_stores"] = hand

	// ---- the attempt model (lean/GunYu/Model/PsyncAtt.lean): sendPsync's size loop, the three
	// tries of output.StartPoint, Run's loop
	var att []string
	spf := c06Func(f, "RedisInput", "sendPsync")
	ast.Inspect(spf.Body, func(n ast.Node) bool {
		switch x := n.(type) {
		case *ast.ForStmt:
			if x.Cond != nil {
				att = append(att, "sendPsync: for "+c12Render(fset, x.Cond))
			}
		case *ast.IfStmt:
			att = append(att, "sendPsync: if "+c12Render(fset, x.Cond))
		}
		return true
	})
	gsp := c06Func(f, "RedisInput", "getOutputStartPoint")
	ast.Inspect(gsp.Body, func(n ast.Node) bool {
		if x, ok := n.(*ast.CallExpr); ok {
			if sl, ok := x.Fun.(*ast.SelectorExpr); ok && (sl.Sel.Name == "RetryLinearJitter" || sl.Sel.Name == "Join") {
				args := []string{}
				for _, a := range x.Args {
					if _, isFn := a.(*ast.FuncLit); isFn {
						args = append(args, "func")
					} else {
						args = append(args, c12Render(fset, a))
					}
				}
				att = append(att, "getOutputStartPoint: "+sl.Sel.Name+"("+strings.Join(args, ", ")+")")
			}
		}
		return true
	})
	runf := c06Func(f, "RedisInput", "Run")
	ast.Inspect(runf.Body, func(n ast.Node) bool {
		switch x := n.(type) {
		case *ast.ForStmt:
			if x.Cond != nil {
				att = append(att, "Run: for "+c12Render(fset, x.Cond))
			}
		case *ast.IfStmt:
			c := c12Render(fset, x.Cond)
			if x.Init != nil {
				c = c12Render(fset, x.Init) + "; " + c
			}
			att = append(att, "Run: if "+c)
		case *ast.BranchStmt:
			att = append(att, "Run: "+x.Tok.String())
		case *ast.CallExpr:
			if sl, ok := x.Fun.(*ast.SelectorExpr); ok && (sl.Sel.Name == "DelRunId" || sl.Sel.Name == "Sleep" || sl.Sel.Name == "Close") {
				att = append(att, "Run: "+c12Render(fset, x))
			}
		}
		return true
	})
	bo := c06Func(f, "RedisInput", "runLoopBackoff")
	ast.Inspect(bo.Body, func(n ast.Node) bool {
		if x, ok := n.(*ast.ReturnStmt); ok {
			att = append(att, "runLoopBackoff: "+c12Render(fset, x))
		}
		return true
	})
	facts["c06_attempt_loop"] = att

	// ---- ResetStartPoint -> DelCheckpoint: the order in which a label's records are deleted
	fset4, f4 := parseFile("pkg/redis/checkpoint/checkpoint.go")
	dc := c06Func(f4, "", "DelCheckpoints")
	var ord []string
	for _, st := range c06Func(f4, "", "DelCheckpoint").Body.List {
		ord = append(ord, "DelCheckpoint: "+c12Render(fset4, st))
	}
	ast.Inspect(dc.Body, func(n ast.Node) bool {
		switch x := n.(type) {
		case *ast.CallExpr:
			if sl, ok := x.Fun.(*ast.SelectorExpr); ok && sl.Sel.Name == "fetchCheckpoint" {
				ord = append(ord, c12Render(fset4, x))
			}
			if id, ok := x.Fun.(*ast.Ident); ok && id.Name == "fetchCheckpoint" {
				ord = append(ord, c12Render(fset4, x))
			}
			if sl, ok := x.Fun.(*ast.SelectorExpr); ok && strings.HasPrefix(c12Render(fset4, sl), "sort.Slice") && len(x.Args) == 2 {
				ord = append(ord, c12Render(fset4, sl)+"("+c12Render(fset4, x.Args[0])+")")
				if fl, ok := x.Args[1].(*ast.FuncLit); ok {
					for _, st := range fl.Body.List {
						ord = append(ord, "less: "+strings.Join(strings.Fields(c12Render(fset4, st)), " "))
					}
				}
			}
		case *ast.RangeStmt:
			ord = append(ord, "range "+c12Render(fset4, x.X))
		case *ast.IfStmt:
			if c12Render(fset4, x.Cond) == "err != nil" && len(x.Body.List) == 1 {
				ord = append(ord, "if err != nil { "+c12Render(fset4, x.Body.List[0])+" }")
			}
		}
		return true
	})
	// ResetStartPoint hands ALL its labels to one deletion
	ast.Inspect(c06Func(f3, "RedisOutput", "ResetStartPoint").Body, func(n ast.Node) bool {
		if x, ok := n.(*ast.CallExpr); ok {
			if sl, ok := x.Fun.(*ast.SelectorExpr); ok && strings.HasPrefix(sl.Sel.Name, "DelCheckpoint") {
				ord = append(ord, "ResetStartPoint: "+c12Render(fset3, x))
			}
		}
		return true
	})
	facts["c06_delcheckpoint_order"] = ord
	_ = token.NoPos
	_ = strings.TrimSpace
}
