package main

// C06 source facts: the skeleton of the decision in RedisInput.syncMeta (its
// if-conditions and the argument of every pSync call, in source order), the
// channel calls of syncMeta / syncData / readChannel, and every statement of
// StandaloneRedis.SendPSync that touches the offset. The hand-written model
// (lean/GunYu/Model/Psync.lean) transcribes exactly this skeleton; a change
// here without a change there is reported as a broken tie.

import (
	"go/ast"
	"go/token"
	"strings"
)

func c06Func(f *ast.File, recv, name string) *ast.FuncDecl {
	for _, d := range f.Decls {
		fd, ok := d.(*ast.FuncDecl)
		if !ok || fd.Name.Name != name || fd.Body == nil {
			continue
		}
		if recv == "" {
			return fd
		}
		if fd.Recv != nil && len(fd.Recv.List) == 1 {
			t := fd.Recv.List[0].Type
			if st, ok := t.(*ast.StarExpr); ok {
				t = st.X
			}
			if id, ok := t.(*ast.Ident); ok && id.Name == recv {
				return fd
			}
		}
	}
	die("c06: func %s.%s not found", recv, name)
	return nil
}

func genC06() {
	fset, f := parseFile("syncer/input.go")
	sm := c06Func(f, "RedisInput", "syncMeta")
	var ifs, psyncs []string
	ast.Inspect(sm.Body, func(n ast.Node) bool {
		switch x := n.(type) {
		case *ast.IfStmt:
			c := c12Render(fset, x.Cond)
			if c != "err != nil" {
				ifs = append(ifs, c)
			}
		case *ast.CallExpr:
			if s, ok := x.Fun.(*ast.SelectorExpr); ok && s.Sel.Name == "pSync" && len(x.Args) == 2 {
				psyncs = append(psyncs, c12Render(fset, x.Args[1]))
			}
		}
		return true
	})
	facts["c06_syncmeta_ifs"] = ifs
	facts["c06_psync_args"] = psyncs

	var chans []string
	for _, fn := range []string{"syncMeta", "syncData", "readChannel", "sendOutput"} {
		fd := c06Func(f, "RedisInput", fn)
		ast.Inspect(fd.Body, func(n ast.Node) bool {
			x, ok := n.(*ast.CallExpr)
			if !ok {
				return true
			}
			if s, ok := x.Fun.(*ast.SelectorExpr); ok {
				if c12IsSel(s.X, "ri", "channel") || c12IsSel(s.X, "ri", "output") {
					chans = append(chans, fn+": "+c12Render(fset, x))
				}
			}
			return true
		})
	}
	facts["c06_channel_calls"] = chans

	fset2, f2 := parseFile("pkg/redis/psync.go")
	sp := c06Func(f2, "StandaloneRedis", "SendPSync")
	var offs []string
	mentions := func(n ast.Node) bool {
		found := false
		ast.Inspect(n, func(m ast.Node) bool {
			if id, ok := m.(*ast.Ident); ok && id.Name == "offset" {
				found = true
			}
			return !found
		})
		return found
	}
	ast.Inspect(sp.Body, func(n ast.Node) bool {
		switch x := n.(type) {
		case *ast.IfStmt:
			if mentions(x.Cond) {
				offs = append(offs, "if "+c12Render(fset2, x.Cond))
			}
		case *ast.AssignStmt:
			if mentions(x) {
				offs = append(offs, c12Render(fset2, x))
			}
		case *ast.IncDecStmt:
			if mentions(x) {
				offs = append(offs, c12Render(fset2, x))
			}
		case *ast.ReturnStmt:
			if mentions(x) {
				offs = append(offs, c12Render(fset2, x))
			}
		case *ast.CallExpr:
			if s, ok := x.Fun.(*ast.SelectorExpr); ok && s.Sel.Name == "SendAndFlush" {
				offs = append(offs, c12Render(fset2, x))
			}
		}
		return true
	})
	facts["c06_sendpsync_offset"] = offs
	_ = token.NoPos
	_ = strings.TrimSpace
}
