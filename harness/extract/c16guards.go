package main

// C16: the offset GUARDS of the handshake regenerated as Lean functions
// (lean/GunYu/Gen/ReplicaGuards.lean; equality with the hand model: Props/C16Guards.lean):
//   handleAhead      ReplicaLeader.Handle: the condition of the branch that sends HANDOVER
//   sendDataFallback ReplicaLeader.sendData: the condition under which the request's offset is replaced
//                    by the leader's newest one
//   preSyncGap       ReplicaFollower.preSync: the definition of the distance variable
//   preSyncGapPos    … the condition of the branch that adopts the leader's id (`gap > 0`)
//   preSyncGapFar    … the condition of the branch inside it that deletes the copy
//   aofSyncDiscard   ReplicaFollower.aofSync: the condition of the branch that deletes the copy
// The methods do I/O between these decisions (gofn's whole-pure-function subset does not apply): the
// statements are found by STRUCTURE (what the branch does, where its operands are defined), the
// conditions are translated expression by expression (int64 comparisons and + - *, constants
// evaluated, && || !, parentheses) with the operands named by their DEFINITION (the local assigned
// from req.GetOffset(), from channel.StartPoint(…), from resp.GetOffset() …), so renamed locals,
// swapped operands (`0 < a-b`), an extracted message helper leave the generated text equal up to
// what the equality proofs absorb; anything that cannot be translated makes THIS generator fail
// (gen_errors[c16guards]: a broken tie, never a guess). int64 wrap-around is not modelled (offsets
// are far below 2^62): the Lean functions are over Int.

import (
	"fmt"
	"go/ast"
	"go/token"
	"strings"
)

type c16gEnv struct {
	ints  map[string]string
	bools map[string]string
}

func c16gExpr(fset *token.FileSet, env *c16gEnv, e ast.Expr) (string, bool) { // (lean, isBool)
	key := c17Print(fset, e)
	if v, ok := env.bools[key]; ok {
		return v, true
	}
	if v, ok := env.ints[key]; ok {
		return v, false
	}
	switch x := e.(type) {
	case *ast.ParenExpr:
		s, b := c16gExpr(fset, env, x.X)
		return "(" + s + ")", b
	case *ast.BasicLit:
		if x.Kind == token.INT {
			return fmt.Sprintf("(%d : Int)", c16Eval(x, "guard literal")), false
		}
	case *ast.UnaryExpr:
		if x.Op == token.NOT {
			s, b := c16gExpr(fset, env, x.X)
			if !b {
				die("guard: ! applied to a non-boolean %s", key)
			}
			return "(!" + s + ")", true
		}
	case *ast.BinaryExpr:
		switch x.Op {
		case token.SHL:
			if c16gConst(x) {
				return fmt.Sprintf("(%d : Int)", c16Eval(x, "guard constant")), false
			}
		case token.ADD, token.SUB, token.MUL:
			if c16gConst(x) {
				return fmt.Sprintf("(%d : Int)", c16Eval(x, "guard constant")), false
			}
			l, lb := c16gExpr(fset, env, x.X)
			r, rb := c16gExpr(fset, env, x.Y)
			if lb || rb {
				die("guard: arithmetic on booleans in %s", key)
			}
			return "(" + l + " " + x.Op.String() + " " + r + ")", false
		case token.LAND, token.LOR:
			l, lb := c16gExpr(fset, env, x.X)
			r, rb := c16gExpr(fset, env, x.Y)
			if !lb || !rb {
				die("guard: %s of non-booleans in %s", x.Op, key)
			}
			op := "&&"
			if x.Op == token.LOR {
				op = "||"
			}
			return "(" + l + " " + op + " " + r + ")", true
		case token.GTR, token.LSS, token.GEQ, token.LEQ, token.EQL, token.NEQ:
			l, lb := c16gExpr(fset, env, x.X)
			r, rb := c16gExpr(fset, env, x.Y)
			if lb || rb {
				die("guard: comparison of booleans in %s", key)
			}
			op := map[token.Token]string{token.GTR: ">", token.LSS: "<", token.GEQ: "≥", token.LEQ: "≤", token.EQL: "=", token.NEQ: "≠"}[x.Op]
			return "decide (" + l + " " + op + " " + r + ")", true
		}
	}
	die("guard: cannot translate %s", key)
	return "", false
}

// an expression of integer literals only
func c16gConst(e ast.Expr) bool {
	switch x := e.(type) {
	case *ast.BasicLit:
		return x.Kind == token.INT
	case *ast.ParenExpr:
		return c16gConst(x.X)
	case *ast.BinaryExpr:
		return (x.Op == token.ADD || x.Op == token.SUB || x.Op == token.MUL || x.Op == token.SHL) && c16gConst(x.X) && c16gConst(x.Y)
	}
	return false
}

func c16gMethod(f *ast.File, name string) *ast.FuncDecl {
	for _, d := range f.Decls {
		if fd, ok := d.(*ast.FuncDecl); ok && fd.Name.Name == name && fd.Recv != nil && fd.Body != nil {
			return fd
		}
	}
	die("replica.go: method %s not found", name)
	return nil
}

// the local a statement `<v>[, …] := <call whose printed text contains what>` defines
func c16gDefinedBy(fset *token.FileSet, fd *ast.FuncDecl, what string, first ...bool) string {
	found := ""
	ast.Inspect(fd.Body, func(n ast.Node) bool {
		as, ok := n.(*ast.AssignStmt)
		if !ok || len(as.Rhs) != 1 || len(as.Lhs) < 1 {
			return true
		}
		if ce, ok := as.Rhs[0].(*ast.CallExpr); ok && strings.Contains(c17Print(fset, ce.Fun), what) {
			if id, ok := as.Lhs[0].(*ast.Ident); ok {
				if found != "" && found != id.Name {
					if len(first) > 0 { // the first definition in source order is meant
						return true
					}
					die("%s: two locals defined by %s", fd.Name.Name, what)
				}
				found = id.Name
			}
		}
		return true
	})
	if found == "" {
		die("%s: no local defined by %s", fd.Name.Name, what)
	}
	return found
}

// the (single) if statement of the method, at any depth, whose OWN body (not a nested if's) contains `what`
func c16gIfDoing(fset *token.FileSet, fd *ast.FuncDecl, what string) *ast.IfStmt {
	var hit *ast.IfStmt
	ast.Inspect(fd.Body, func(n ast.Node) bool {
		is, ok := n.(*ast.IfStmt)
		if !ok {
			return true
		}
		for _, st := range is.Body.List {
			txt := ""
			if nis, nested := st.(*ast.IfStmt); nested {
				// `if err = <call>; err != nil { … }` : the call belongs to this branch, the nested body does not
				if nis.Init == nil {
					continue
				}
				txt = c17Print(fset, nis.Init)
			} else {
				txt = c17Print(fset, st)
			}
			if strings.Contains(txt, what) {
				if hit != nil && hit != is {
					die("%s: two branches doing %s", fd.Name.Name, what)
				}
				hit = is
			}
		}
		return true
	})
	if hit == nil {
		die("%s: no branch doing %s", fd.Name.Name, what)
	}
	if hit.Init != nil {
		die("%s: the branch doing %s has an init statement", fd.Name.Name, what)
	}
	return hit
}

func genC16Guards() {
	fset, f := parseFile("syncer/replica.go")

	// ---- Handle: the HANDOVER branch
	h := c16gMethod(f, "Handle")
	fOff := c16gDefinedBy(fset, h, "req.GetOffset")
	lsp := c16gDefinedBy(fset, h, "channel.StartPoint")
	ho := c16gIfDoing(fset, h, "SyncResponse_HANDOVER")
	ahead, b := c16gExpr(fset, &c16gEnv{ints: map[string]string{fOff: "fOff", lsp + ".Offset": "lOff"}, bools: map[string]string{}}, ho.Cond)
	if !b {
		die("Handle: the hand-over condition is not boolean")
	}

	// ---- sendData: the fallback to the leader's newest offset
	sd := c16gMethod(f, "sendData")
	if len(sd.Type.Params.List) < 2 {
		die("sendData: parameters")
	}
	var spParams []string
	for _, p := range sd.Type.Params.List {
		if c17Print(fset, p.Type) == "StartPoint" {
			for _, n := range p.Names {
				spParams = append(spParams, n.Name)
			}
		}
	}
	if len(spParams) != 2 {
		die("sendData: expected two StartPoint parameters (request, channel), found %d", len(spParams))
	}
	req, chn := spParams[0], spParams[1]
	fb := c16gIfDoing(fset, sd, req+".Offset = "+chn+".Offset")
	validKey := ""
	ast.Inspect(fb.Cond, func(n ast.Node) bool {
		if ce, ok := n.(*ast.CallExpr); ok && strings.HasSuffix(c17Print(fset, ce.Fun), "channel.IsValidOffset") {
			validKey = c17Print(fset, ce)
		}
		return true
	})
	if validKey == "" {
		die("sendData: the fallback condition does not call channel.IsValidOffset")
	}
	fallback, b2 := c16gExpr(fset, &c16gEnv{ints: map[string]string{req + ".Offset": "reqOff", chn + ".Offset": "lOff"},
		bools: map[string]string{validKey: "valid"}}, fb.Cond)
	if !b2 {
		die("sendData: the fallback condition is not boolean")
	}

	// ---- preSync: distance, adopt branch, far-behind branch
	ps := c16gMethod(f, "preSync")
	if len(ps.Type.Params.List) != 1 || len(ps.Type.Params.List[0].Names) != 1 {
		die("preSync: parameters")
	}
	leaderSp := ps.Type.Params.List[0].Names[0].Name
	psp := c16gDefinedBy(fset, ps, "channel.StartPoint")
	envOff := &c16gEnv{ints: map[string]string{leaderSp + ".Offset": "lOff", psp + ".Offset": "fOff"}, bools: map[string]string{}}
	gapName, gapDef := "", ""
	ast.Inspect(ps.Body, func(n ast.Node) bool {
		as, ok := n.(*ast.AssignStmt)
		if !ok || as.Tok != token.DEFINE || len(as.Lhs) != 1 || len(as.Rhs) != 1 {
			return true
		}
		if be, ok := as.Rhs[0].(*ast.BinaryExpr); ok && (be.Op == token.SUB || be.Op == token.ADD) {
			if id, ok := as.Lhs[0].(*ast.Ident); ok && strings.Contains(c17Print(fset, be), ".Offset") {
				if gapName != "" {
					die("preSync: two distance definitions")
				}
				gapName = id.Name
				s, isb := c16gExpr(fset, envOff, be)
				if isb {
					die("preSync: the distance is boolean")
				}
				gapDef = s
			}
		}
		return true
	})
	if gapName == "" {
		die("preSync: `<v> := <leader>.Offset - <own>.Offset` not found")
	}
	far := c16gIfDoing(fset, ps, "channel.DelRunId("+psp+".RunId)")
	var pos *ast.IfStmt
	ast.Inspect(ps.Body, func(n ast.Node) bool {
		if is, ok := n.(*ast.IfStmt); ok {
			for _, st := range is.Body.List {
				if st == ast.Stmt(far) {
					pos = is
				}
			}
		}
		return true
	})
	if pos == nil || pos.Init != nil || pos.Else != nil || far.Else != nil {
		die("preSync: the far-behind branch is not directly inside an else-less distance branch")
	}
	if !strings.Contains(c17Print(fset, pos.Body), "channel.SetRunId("+leaderSp+".RunId)") {
		die("preSync: the distance branch does not adopt the leader's id")
	}
	envGap := &c16gEnv{ints: map[string]string{gapName: "gap"}, bools: map[string]string{}}
	gapPos, b3 := c16gExpr(fset, envGap, pos.Cond)
	gapFar, b4 := c16gExpr(fset, envGap, far.Cond)
	if !b3 || !b4 {
		die("preSync: distance conditions are not boolean")
	}

	// ---- aofSync: the branch that deletes the copy
	as := c16gMethod(f, "aofSync")
	asp := c16gDefinedBy(fset, as, "channel.StartPoint")
	left := c16gDefinedBy(fset, as, "resp.GetOffset", true)
	disc := c16gIfDoing(fset, as, "channel.DelRunId(")
	discard, b5 := c16gExpr(fset, &c16gEnv{ints: map[string]string{left: "left", asp + ".Offset": "fOff", "resp.GetOffset()": "left"},
		bools: map[string]string{asp + ".IsInitial()": "initial"}}, disc.Cond)
	if !b5 {
		die("aofSync: the discard condition is not boolean")
	}

	var sb strings.Builder
	sb.WriteString(header)
	sb.WriteString("namespace GunYu.Gen\n\n")
	sb.WriteString(fmt.Sprintf("/-- ReplicaLeader.Handle: `if %s` — the branch that sends HANDOVER (fOff = req.GetOffset(), lOff = StartPoint(nil).Offset) -/\n", c17Print(fset, ho.Cond)))
	sb.WriteString("def handleAhead (fOff lOff : Int) : Bool := " + ahead + "\n\n")
	sb.WriteString(fmt.Sprintf("/-- ReplicaLeader.sendData: `if %s` — the request's offset is replaced by the leader's newest -/\n", c17Print(fset, fb.Cond)))
	sb.WriteString("def sendDataFallback (valid : Bool) (reqOff lOff : Int) : Bool := " + fallback + "\n\n")
	sb.WriteString("/-- ReplicaFollower.preSync: the distance (lOff = the leader's offset, fOff = the own StartPoint's) -/\n")
	sb.WriteString("def preSyncGap (lOff fOff : Int) : Int := " + gapDef + "\n\n")
	sb.WriteString(fmt.Sprintf("/-- ReplicaFollower.preSync: `if %s` — the leader's id is adopted -/\n", c17Print(fset, pos.Cond)))
	sb.WriteString("def preSyncGapPos (gap : Int) : Bool := " + gapPos + "\n\n")
	sb.WriteString(fmt.Sprintf("/-- ReplicaFollower.preSync: `if %s` — the copy is deleted -/\n", c17Print(fset, far.Cond)))
	sb.WriteString("def preSyncGapFar (gap : Int) : Bool := " + gapFar + "\n\n")
	sb.WriteString(fmt.Sprintf("/-- ReplicaFollower.aofSync: `if %s` — the copy is deleted (left = the announced offset, fOff = the own StartPoint's, initial = IsInitial()) -/\n", c17Print(fset, disc.Cond)))
	sb.WriteString("def aofSyncDiscard (left fOff : Int) (initial : Bool) : Bool := " + discard + "\n\n")
	sb.WriteString("end GunYu.Gen\n")
	writeIfChanged(*out+"/ReplicaGuards.lean", sb.String())
}
