package main

// C05 source facts.
//
//  c05_writer_offset_flow   what syncer/input.go and syncer/replica.go PASS as a writer's offset:
//                           every assignment to locSp / locSp.Offset in RedisInput.syncMeta, the
//                           call ri.syncData(…) in fetchInput, the guard of the DelRunId in syncMeta,
//                           and in ReplicaFollower.aofSync / rdbSync the guard, the DelRunId and the
//                           writer constructors with their arguments. lean/GunYu/Proofs/StoreCaller.lean
//                           (`callerAllows`) transcribes exactly these cases.
//  c05_fn_<name>            digests (c05_src_<name>: the text) of the printed bodies (log statements dropped) of the functions the new parts
//                           of the model transcribe by hand: the LatestOffset query behind `ask`
//                           (StoreChannel.StartPoint, Storer.LatestOffset, dataSet.Right), the run-id
//                           directory operations of Model/StoreDirs.lean (Storer.SetRunId, newRunId,
//                           DelRunId, VerifyRunId, changeReplId), the two lock sections of
//                           MemoryChannel.NewAofWritter with appendAof / ensureCapacityLocked / finishAof
//                           (Model/StoreMemWindow.lean) and appendRdb / MemoryRdbWriter.ingest (the
//                           count behind the ghost of Model/StoreMemRecv.lean).

import (
	"go/ast"
	"go/token"
	"sort"
	"strings"
)

func c05StripLogs(n ast.Node) {
	ast.Inspect(n, func(m ast.Node) bool {
		switch x := m.(type) {
		case *ast.BlockStmt:
			x.List = c15FilterStmts(x.List)
		case *ast.CaseClause:
			x.Body = c15FilterStmts(x.Body)
		case *ast.CommClause:
			x.Body = c15FilterStmts(x.Body)
		}
		return true
	})
}

func c05FuncAny(f *ast.File, recv, name string) *ast.FuncDecl {
	for _, d := range f.Decls {
		fd, ok := d.(*ast.FuncDecl)
		if !ok || fd.Name.Name != name || fd.Body == nil {
			continue
		}
		r := ""
		if fd.Recv != nil && len(fd.Recv.List) == 1 {
			t := fd.Recv.List[0].Type
			if st, ok := t.(*ast.StarExpr); ok {
				t = st.X
			}
			if id, ok := t.(*ast.Ident); ok {
				r = id.Name
			}
		}
		if r == recv {
			return fd
		}
	}
	die("c05: func %s.%s not found", recv, name)
	return nil
}

func c05Body(fset *token.FileSet, f *ast.File, recv, name string) string {
	fd := c05FuncAny(f, recv, name)
	c05StripLogs(fd.Body)
	return c12Render(fset, fd.Type) + " " + c12Render(fset, fd.Body)
}

// c05Mentions: the printed node mentions the identifier (as a whole word)
func c05Mentions(s, id string) bool {
	for i := 0; i+len(id) <= len(s); i++ {
		if s[i:i+len(id)] != id {
			continue
		}
		okL := i == 0 || !(s[i-1] == '_' || s[i-1] >= 'a' && s[i-1] <= 'z' || s[i-1] >= 'A' && s[i-1] <= 'Z' || s[i-1] >= '0' && s[i-1] <= '9')
		j := i + len(id)
		okR := j == len(s) || !(s[j] == '_' || s[j] >= 'a' && s[j] <= 'z' || s[j] >= 'A' && s[j] <= 'Z' || s[j] >= '0' && s[j] <= '9')
		if okL && okR {
			return true
		}
	}
	return false
}

func genC05() {
	var flow []string
	{
		fset, f := parseFile("syncer/input.go")
		sm := c05FuncAny(f, "RedisInput", "syncMeta")
		ast.Inspect(sm.Body, func(n ast.Node) bool {
			switch x := n.(type) {
			case *ast.AssignStmt:
				for _, l := range x.Lhs {
					ls := c12Render(fset, l)
					if ls == "locSp" || strings.HasPrefix(ls, "locSp.") || ls == "locRight" || ls == "clearLocal" {
						flow = append(flow, "syncMeta: "+c12Render(fset, x))
						break
					}
				}
			case *ast.IfStmt:
				// the guard of the cache reset
				hasDel := false
				for _, st := range x.Body.List {
					if strings.Contains(c12Render(fset, st), "ri.channel.DelRunId(") {
						hasDel = true
					}
				}
				if hasDel {
					flow = append(flow, "syncMeta: if "+c12Render(fset, x.Cond)+" -> ri.channel.DelRunId(ri.channel.RunId())")
				}
			}
			return true
		})
		for _, fn := range []string{"fetchInput", "syncData"} {
			fd := c05FuncAny(f, "RedisInput", fn)
			ast.Inspect(fd.Body, func(n ast.Node) bool {
				ce, ok := n.(*ast.CallExpr)
				if !ok {
					return true
				}
				s := c12Render(fset, ce)
				// (the writers syncData has created are closed on its early return: `ask` finds no writer open)
				if strings.HasPrefix(s, "ri.syncData(") || strings.HasPrefix(s, "ri.channel.NewAofWritter(") || strings.HasPrefix(s, "ri.channel.NewRdbWriter(") ||
					s == "rdbWriter.Close()" || s == "aofWriter.Close()" || s == "wait.IsClosed()" {
					flow = append(flow, fn+": "+s)
				}
				return true
			})
		}
		// the previous run's writer is closed before the run ends
		for _, fn := range []string{"syncIncr", "syncRdb"} {
			fd := c05FuncAny(f, "RedisInput", fn)
			ast.Inspect(fd.Body, func(n ast.Node) bool {
				if es, ok := n.(*ast.ExprStmt); ok {
					s := c12Render(fset, es.X)
					if strings.HasPrefix(s, "writer.") {
						flow = append(flow, fn+": "+s)
					}
				}
				return true
			})
		}
	}
	{
		fset, f := parseFile("syncer/replica.go")
		for _, fn := range []string{"aofSync", "rdbSync"} {
			fd := c05FuncAny(f, "ReplicaFollower", fn)
			ast.Inspect(fd.Body, func(n ast.Node) bool {
				switch x := n.(type) {
				case *ast.IfStmt:
					c := c12Render(fset, x.Cond)
					if c05Mentions(c, "left") {
						flow = append(flow, fn+": if "+c)
					}
				case *ast.AssignStmt:
					s := c12Render(fset, x)
					for _, l := range x.Lhs {
						ls := c12Render(fset, l)
						if ls == "left" || ls == "sp" || ls == "sp.Offset" || ls == "followerSp.Offset" {
							flow = append(flow, fn+": "+s)
							break
						}
					}
					if strings.Contains(s, "rf.channel.NewAofWritter(") || strings.Contains(s, "rf.channel.NewRdbWriter(") || strings.Contains(s, "rf.channel.DelRunId(") || strings.Contains(s, "rf.channel.SetRunId(") {
						flow = append(flow, fn+": "+s)
					}
				}
				return true
			})
		}
	}
	facts["c05_writer_offset_flow"] = flow

	bodies := map[string]string{}
	{
		fset, f := parseFile("syncer/channel.go")
		bodies["StoreChannel.StartPoint"] = c05Body(fset, f, "StoreChannel", "StartPoint")
	}
	{
		fset, f := parseFile("pkg/store/store.go")
		for _, n := range []string{"LatestOffset", "SetRunId", "newRunId", "DelRunId", "VerifyRunId"} {
			bodies["Storer."+n] = c05Body(fset, f, "Storer", n)
		}
	}
	{
		fset, f := parseFile("pkg/store/ds.go")
		bodies["dataSet.Right"] = c05Body(fset, f, "dataSet", "Right")
	}
	{
		fset, f := parseFile("pkg/store/util.go")
		bodies["changeReplId"] = c05Body(fset, f, "", "changeReplId")
	}
	{
		fset, f := parseFile("syncer/memory_channel.go")
		for _, n := range []string{"NewAofWritter", "appendAof", "finishAof", "ensureCapacityLocked", "appendRdb"} {
			bodies["MemoryChannel."+n] = c05Body(fset, f, "MemoryChannel", n)
		}
		bodies["MemoryRdbWriter.ingest"] = c05Body(fset, f, "MemoryRdbWriter", "ingest")
	}
	for k, v := range bodies {
		facts["c05_fn_"+k] = c12Digest(v)
		facts["c05_src_"+k] = v
	}
	facts["c05_package_state"] = c05PackageState([]string{
		"pkg/store/store.go", "pkg/store/ds.go", "pkg/store/aof_writer.go", "pkg/store/aof_reader.go",
		"pkg/store/rdb_writer.go", "pkg/store/rdb_reader.go", "pkg/store/reader.go", "pkg/store/util.go",
		"syncer/channel.go", "syncer/memory_channel.go", "pkg/io/pipe/pipe.go"})
}

// c05PackageState (session 5, dimension audit): the PROCESS-GLOBAL state the cache code can reach -
// every package-level `var` of the anchor files, with "written" when some function of these files
// assigns to it, increments it, assigns through an index / field of it or takes its address
// (name-based: a local of the same name counts too - over-approximation), else "read-only".
// Reads of process-global CONFIGURATION (config.GetSyncerConfig()) are listed as "config: <selector path>".
func c05PackageState(files []string) []string {
	type pv struct{ file, name string }
	var vars []pv
	var parsed []*ast.File
	for _, rel := range files {
		_, f := parseFile(rel)
		parsed = append(parsed, f)
		for _, d := range f.Decls {
			gd, ok := d.(*ast.GenDecl)
			if !ok || gd.Tok != token.VAR {
				continue
			}
			for _, sp := range gd.Specs {
				for _, n := range sp.(*ast.ValueSpec).Names {
					if n.Name != "_" {
						vars = append(vars, pv{rel, n.Name})
					}
				}
			}
		}
	}
	root := func(e ast.Expr) string {
		for {
			switch x := e.(type) {
			case *ast.Ident:
				return x.Name
			case *ast.IndexExpr:
				e = x.X
			case *ast.SelectorExpr:
				e = x.X
			case *ast.StarExpr:
				e = x.X
			case *ast.ParenExpr:
				e = x.X
			default:
				return ""
			}
		}
	}
	written := map[string]bool{}
	cfg := map[string]bool{}
	for _, f := range parsed {
		ast.Inspect(f, func(n ast.Node) bool {
			switch x := n.(type) {
			case *ast.AssignStmt:
				if x.Tok != token.DEFINE {
					for _, l := range x.Lhs {
						written[root(l)] = true
					}
				}
			case *ast.IncDecStmt:
				written[root(x.X)] = true
			case *ast.UnaryExpr:
				if x.Op == token.AND {
					written[root(x.X)] = true
				}
			case *ast.SelectorExpr:
				// config.GetSyncerConfig().A.B
				path := []string{x.Sel.Name}
				e := x.X
				for {
					if se, ok := e.(*ast.SelectorExpr); ok {
						if _, isCall := se.X.(*ast.CallExpr); isCall {
							path = append([]string{se.Sel.Name}, path...)
							e = se.X
							continue
						}
					}
					break
				}
				if ce, ok := e.(*ast.CallExpr); ok {
					if fs, ok := ce.Fun.(*ast.SelectorExpr); ok && fs.Sel.Name == "GetSyncerConfig" {
						cfg[strings.Join(path, ".")] = true
					}
				}
			}
			return true
		})
	}
	var out []string
	for _, v := range vars {
		k := "read-only"
		if written[v.name] {
			k = "written"
		}
		out = append(out, v.file+": "+v.name+" "+k)
	}
	var cs []string
	for c := range cfg {
		longer := false
		for o := range cfg {
			if strings.HasPrefix(o, c+".") {
				longer = true
			}
		}
		if !longer {
			cs = append(cs, "config: "+c)
		}
	}
	sort.Strings(cs)
	return append(out, cs...)
}
