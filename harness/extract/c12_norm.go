package main

// C12: normal form of a function before its body is digested (c12_bodies), so that the digest
// survives rewrites that cannot change behaviour:
//   * names of receivers, parameters, results, locals (`:=`, `var`, range variables) and labels are
//     replaced by v0, v1, … in order of declaration (a renamed local is the same function);
//   * comments are not printed;
//   * the text of a format string passed to errors.Errorf / fmt.Errorf / a log.* call is replaced by "…"
//     (the decoder's callers distinguish errors by identity - io.EOF, io.ErrUnexpectedEOF - never by text).
// Everything else (statements, their order, operators, constants, called functions, field names) stays
// in the digest. Not renamed, on purpose: selector fields (x.f), keys of composite literals (struct
// fields and map keys cannot be told apart without types; a renamed local used as a map key therefore
// changes the digest - the conservative direction).

import (
	"fmt"
	"go/ast"
	"go/token"
)

func c12Normalize(fd *ast.FuncDecl) {
	names := map[string]string{}
	// the receiver is always called `d` (the site extraction below looks for d.offset / d.r)
	if fd.Recv != nil && len(fd.Recv.List) == 1 && len(fd.Recv.List[0].Names) == 1 && fd.Recv.List[0].Names[0].Name != "_" {
		names[fd.Recv.List[0].Names[0].Name] = "d"
	}
	add := func(id *ast.Ident) {
		if id == nil || id.Name == "_" {
			return
		}
		if _, ok := names[id.Name]; !ok {
			names[id.Name] = fmt.Sprintf("v%d", len(names))
		}
	}
	fields := func(fl *ast.FieldList) {
		if fl == nil {
			return
		}
		for _, f := range fl.List {
			for _, n := range f.Names {
				add(n)
			}
		}
	}
	fields(fd.Recv)
	fields(fd.Type.Params)
	fields(fd.Type.Results)
	ast.Inspect(fd.Body, func(n ast.Node) bool {
		switch s := n.(type) {
		case *ast.AssignStmt:
			if s.Tok == token.DEFINE {
				for _, l := range s.Lhs {
					if id, ok := l.(*ast.Ident); ok {
						add(id)
					}
				}
			}
		case *ast.ValueSpec:
			for _, id := range s.Names {
				add(id)
			}
		case *ast.RangeStmt:
			if s.Tok == token.DEFINE {
				if id, ok := s.Key.(*ast.Ident); ok {
					add(id)
				}
				if id, ok := s.Value.(*ast.Ident); ok {
					add(id)
				}
			}
		case *ast.LabeledStmt:
			add(s.Label)
		case *ast.FuncLit:
			fields(s.Type.Params)
			fields(s.Type.Results)
		}
		return true
	})
	skip := map[*ast.Ident]bool{fd.Name: true}
	ast.Inspect(fd, func(n ast.Node) bool {
		switch s := n.(type) {
		case *ast.SelectorExpr:
			skip[s.Sel] = true
		case *ast.KeyValueExpr:
			if id, ok := s.Key.(*ast.Ident); ok {
				skip[id] = true
			}
		case *ast.CallExpr:
			if sel, ok := s.Fun.(*ast.SelectorExpr); ok {
				if x, ok := sel.X.(*ast.Ident); ok {
					msg := (x.Name == "errors" || x.Name == "fmt") && sel.Sel.Name == "Errorf" || x.Name == "log"
					if _, shadowed := names[x.Name]; msg && !shadowed && len(s.Args) > 0 {
						if lit, ok := s.Args[0].(*ast.BasicLit); ok && lit.Kind == token.STRING {
							lit.Value = "\"…\""
						}
					}
				}
			}
		}
		return true
	})
	ast.Inspect(fd, func(n ast.Node) bool {
		if id, ok := n.(*ast.Ident); ok && !skip[id] {
			if v, ok := names[id.Name]; ok {
				id.Name = v
			}
		}
		return true
	})
}
