package main

// C18 / C13: regenerate the bisync control-key constructors (format strings of
// pkg/redis/checkpoint/bisync.go translated to Lean byte-list functions), the
// namespace constants, the marker TTL, and the slot-tag table that
// initBisyncSlotTags computes at run time (recomputed here with an independent
// bitwise CRC16 from the format literal found in the source; the harness then
// compares all 16384 entries with checkpoint.BisyncSlotTag, and Lean proves
// that every entry hashes to its slot under the HASH_SLOT specification).
// Also records the rendered bodies of the namespace predicates as facts.

import (
	"fmt"
	"go/ast"
	"go/token"
	"path/filepath"
	"strconv"
	"strings"
)

func c18Crc16(b []byte) uint16 {
	var crc uint16
	for _, c := range b {
		crc ^= uint16(c) << 8
		for i := 0; i < 8; i++ {
			if crc&0x8000 != 0 {
				crc = (crc << 1) ^ 0x1021
			} else {
				crc <<= 1
			}
		}
	}
	return crc
}

func c18HashSlot(k []byte) uint16 {
	s := -1
	for i, c := range k {
		if c == '{' {
			s = i
			break
		}
	}
	if s >= 0 {
		for e := s + 1; e < len(k); e++ {
			if k[e] == '}' {
				if e != s+1 {
					return c18Crc16(k[s+1:e]) % 16384
				}
				break
			}
		}
	}
	return c18Crc16(k) % 16384
}

// c18SprintfOf returns the format literal and the argument identifiers of the
// single `return fmt.Sprintf(lit, ident...)` of a function.
func c18SprintfOf(f *ast.File, fn string) (string, []string) {
	fd := c10FindFunc(f, fn)
	if fd == nil || fd.Body == nil || len(fd.Body.List) != 1 {
		die("%s: expected a single return statement", fn)
	}
	rs, ok := fd.Body.List[0].(*ast.ReturnStmt)
	if !ok || len(rs.Results) != 1 {
		die("%s: expected `return fmt.Sprintf(...)`", fn)
	}
	ce, ok := rs.Results[0].(*ast.CallExpr)
	if !ok {
		die("%s: expected a call", fn)
	}
	sel, ok := ce.Fun.(*ast.SelectorExpr)
	if !ok || sel.Sel.Name != "Sprintf" {
		die("%s: expected fmt.Sprintf", fn)
	}
	if len(ce.Args) < 1 {
		die("%s: Sprintf without format", fn)
	}
	lit := c10Str(ce.Args[0], fn+" format")
	var ids []string
	for _, a := range ce.Args[1:] {
		id, ok := a.(*ast.Ident)
		if !ok {
			die("%s: Sprintf argument is not an identifier", fn)
		}
		ids = append(ids, id.Name)
	}
	return lit, ids
}

// c18FormatToLean translates a format of %s / %020d verbs into a Lean
// expression over the given argument names.
func c18FormatToLean(fn, lit string, ids []string, rename map[string]string) string {
	var parts []string
	var cur []byte
	flush := func() {
		if len(cur) > 0 {
			parts = append(parts, c10Bytes(string(cur)))
			cur = nil
		}
	}
	ai := 0
	for i := 0; i < len(lit); i++ {
		if lit[i] != '%' {
			cur = append(cur, lit[i])
			continue
		}
		rest := lit[i:]
		var verb string
		switch {
		case strings.HasPrefix(rest, "%s"):
			verb = "%s"
		case strings.HasPrefix(rest, "%020d"):
			verb = "%020d"
		default:
			die("%s: unsupported verb in %q", fn, lit)
		}
		if ai >= len(ids) {
			die("%s: too few arguments for %q", fn, lit)
		}
		name, ok := rename[ids[ai]]
		if !ok {
			die("%s: unexpected argument %s", fn, ids[ai])
		}
		flush()
		if verb == "%s" {
			parts = append(parts, name)
		} else {
			parts = append(parts, "pad20 "+name)
		}
		ai++
		i += len(verb) - 1
	}
	flush()
	if ai != len(ids) {
		die("%s: too many arguments for %q", fn, lit)
	}
	return strings.Join(parts, " ++ ")
}

func c18BodyFact(fset *token.FileSet, f *ast.File, fn string) string {
	fd := c10FindFunc(f, fn)
	if fd == nil || fd.Body == nil {
		die("%s not found", fn)
	}
	return c10Render(fset, fd.Body)
}

func genC18() {
	fset, f := parseFile("pkg/redis/checkpoint/bisync.go")

	prefix := c10ConstString("pkg/redis/checkpoint/bisync.go", "BisyncKeyPrefix")
	cpKey := c10ConstString("config/var.go", "CheckpointKey")
	// BisyncCheckpointKeyPrefix = config.CheckpointKey + "-bisync"
	fsetcp, fcp := parseFile("pkg/redis/checkpoint/checkpoint.go")
	cpBisyncSuffix := ""
	for _, d := range fcp.Decls {
		gd, ok := d.(*ast.GenDecl)
		if !ok {
			continue
		}
		for _, s := range gd.Specs {
			vs, ok := s.(*ast.ValueSpec)
			if !ok {
				continue
			}
			for i, n := range vs.Names {
				if n.Name == "BisyncCheckpointKeyPrefix" && i < len(vs.Values) {
					be, ok := vs.Values[i].(*ast.BinaryExpr)
					if !ok || be.Op != token.ADD {
						die("BisyncCheckpointKeyPrefix: expected config.CheckpointKey + literal")
					}
					if c10Render(fsetcp, be.X) != "config.CheckpointKey" {
						die("BisyncCheckpointKeyPrefix: left operand is %s", c10Render(fsetcp, be.X))
					}
					cpBisyncSuffix = c10Str(be.Y, "BisyncCheckpointKeyPrefix suffix")
				}
			}
		}
	}
	if cpBisyncSuffix == "" {
		die("BisyncCheckpointKeyPrefix not found")
	}
	// NewBisyncCheckpointName: fmt.Sprintf("%s:%x", BisyncCheckpointKeyPrefix, buf)
	facts["bisync_cpname_body"] = c18BodyFact(fsetcp, fcp, "NewBisyncCheckpointName")

	// marker TTL: 24 * time.Hour
	ttlMs := int64(-1)
	for _, d := range f.Decls {
		gd, ok := d.(*ast.GenDecl)
		if !ok {
			continue
		}
		for _, s := range gd.Specs {
			vs, ok := s.(*ast.ValueSpec)
			if !ok {
				continue
			}
			for i, n := range vs.Names {
				if n.Name == "BisyncMarkerTTL" && i < len(vs.Values) {
					be, ok := vs.Values[i].(*ast.BinaryExpr)
					if !ok || be.Op != token.MUL {
						die("BisyncMarkerTTL: expected N * time.<Unit>")
					}
					nv := c10Int(be.X, "BisyncMarkerTTL")
					unit := c10Render(fset, be.Y)
					mult := map[string]int64{"time.Hour": 3600000, "time.Minute": 60000, "time.Second": 1000, "time.Millisecond": 1}
					m, ok := mult[unit]
					if !ok {
						die("BisyncMarkerTTL: unknown unit %s", unit)
					}
					ttlMs = nv * m
				}
			}
		}
	}
	if ttlMs < 0 {
		die("BisyncMarkerTTL not found")
	}

	rename := map[string]string{"BisyncKeyPrefix": "bisyncKeyPrefix", "checkpointName": "cp", "slotTag": "tag", "unitSeq": "seq"}
	type ctor struct{ goName, leanName, sig string }
	ctors := []ctor{
		{"BisyncFrontierKey", "frontierKey", "(cp : List UInt8)"},
		{"BisyncMarkerKey", "markerKey", "(cp tag : List UInt8)"},
		{"BisyncCommitIndexKey", "commitIndexKey", "(cp tag : List UInt8)"},
		{"BisyncLatestCheckpointKey", "latestKey", "(cp tag : List UInt8)"},
		{"BisyncCommitRecordKey", "commitRecordKey", "(cp tag : List UInt8) (seq : Nat)"},
		{"BisyncRdbRecordKey", "rdbRecordKey", "(cp tag : List UInt8) (seq : Nat)"},
	}

	var sb strings.Builder
	sb.WriteString(header)
	sb.WriteString("import GunYu.Basic.Bytes\n")
	sb.WriteString("namespace GunYu.Gen\n\n")
	sb.WriteString(fmt.Sprintf("/-- checkpoint.BisyncKeyPrefix = %q -/\ndef bisyncKeyPrefix : List UInt8 := %s\n\n", prefix, c10Bytes(prefix)))
	sb.WriteString(fmt.Sprintf("/-- checkpoint.BisyncCheckpointKeyPrefix = config.CheckpointKey + %q = %q -/\ndef bisyncCheckpointKeyPrefix : List UInt8 := %s\n\n",
		cpBisyncSuffix, cpKey+cpBisyncSuffix, c10Bytes(cpKey+cpBisyncSuffix)))
	sb.WriteString(fmt.Sprintf("/-- checkpoint.BisyncMarkerTTL in milliseconds -/\ndef bisyncMarkerTTLms : Nat := %d\n\n", ttlMs))
	sb.WriteString("/-- Go `%020d` of a non-negative integer -/\n")
	sb.WriteString("def pad20 (n : Nat) : List UInt8 :=\n  let d := GunYu.natToDec n\n  List.replicate (20 - d.length) 48 ++ d\n\n")
	fmts := map[string]string{}
	for _, c := range ctors {
		lit, ids := c18SprintfOf(f, c.goName)
		fmts[c.goName] = lit
		sb.WriteString(fmt.Sprintf("/-- checkpoint.%s: fmt.Sprintf(%q, %s) -/\n", c.goName, lit, strings.Join(ids, ", ")))
		sb.WriteString(fmt.Sprintf("def %s %s : List UInt8 :=\n  %s\n\n", c.leanName, c.sig, c18FormatToLean(c.goName, lit, ids, rename)))
	}
	facts["bisync_key_formats"] = fmts

	// the `strings.Contains` literals of the Is…Key predicates
	type pred struct{ goName, leanName string }
	preds := []pred{
		{"IsBisyncMarkerKey", "markerInfix"},
		{"IsBisyncLatestKey", "latestInfix"},
		{"IsBisyncCommitKey", "commitInfix"},
		{"IsBisyncRdbRecordKey", "rdbInfix"},
		{"IsBisyncCommitIndexKey", "indexInfix"},
	}
	predBodies := map[string]string{}
	for _, p := range preds {
		fd := c10FindFunc(f, p.goName)
		if fd == nil {
			die("%s not found", p.goName)
		}
		body := c10Render(fset, fd.Body)
		predBodies[p.goName] = body
		// return strings.HasPrefix(key, BisyncKeyPrefix+":") && strings.Contains(key, "<lit>")
		const pre = `{ return strings.HasPrefix(key, BisyncKeyPrefix+":") && strings.Contains(key, `
		litSrc := ""
		if strings.HasPrefix(body, pre) && strings.HasSuffix(body, `) }`) {
			litSrc = strings.TrimSuffix(strings.TrimPrefix(body, pre), `) }`)
		} else {
			// session 5 (additive, C13 owner): any other spelling of the predicate (operands swapped, a local, parentheses):
			// the literal is the string-literal argument of the ONE strings.Contains call of the body. That the predicate as
			// a whole is prefix-test AND infix-test is no longer this generator's business: the function is translated to
			// Lean and proved equal to the model (gofn_bisynckeypreds, Props/C13Gen.lean gen_isBisync…Key_eq_model)
			var lits []string
			ast.Inspect(fd.Body, func(n ast.Node) bool {
				ce, ok := n.(*ast.CallExpr)
				if !ok || len(ce.Args) != 2 {
					return true
				}
				if se, ok := ce.Fun.(*ast.SelectorExpr); ok && se.Sel.Name == "Contains" {
					if x, ok := se.X.(*ast.Ident); ok && x.Name == "strings" {
						if bl, ok := ce.Args[1].(*ast.BasicLit); ok && bl.Kind == token.STRING {
							lits = append(lits, bl.Value)
						}
					}
				}
				return true
			})
			if len(lits) != 1 {
				die("%s: unexpected body %s", p.goName, body)
			}
			litSrc = lits[0]
		}
		lit, err := strconv.Unquote(litSrc)
		if err != nil {
			die("%s: %v", p.goName, err)
		}
		sb.WriteString(fmt.Sprintf("/-- the `strings.Contains` literal of checkpoint.%s: %q -/\ndef %s : List UInt8 := %s\n\n", p.goName, lit, p.leanName, c10Bytes(lit)))
	}
	facts["bisync_key_predicates"] = predBodies
	sb.WriteString("end GunYu.Gen\n")
	writeIfChanged(filepath.Join(*out, "BisyncKeys.lean"), sb.String())

	// ---- slot tags
	initBody := c18BodyFact(fset, f, "initBisyncSlotTags")
	facts["bisync_slot_tag_init_body"] = initBody
	facts["bisync_slot_tag_body"] = c18BodyFact(fset, f, "BisyncSlotTag")
	// the format literal used by the init loop
	tagFmt := ""
	ast.Inspect(c10FindFunc(f, "initBisyncSlotTags").Body, func(n ast.Node) bool {
		ce, ok := n.(*ast.CallExpr)
		if !ok {
			return true
		}
		if sel, ok := ce.Fun.(*ast.SelectorExpr); ok && sel.Sel.Name == "Sprintf" && len(ce.Args) == 2 {
			tagFmt = c10Str(ce.Args[0], "initBisyncSlotTags format")
		}
		return true
	})
	if !strings.HasSuffix(tagFmt, "%x") || strings.Count(tagFmt, "%") != 1 {
		die("initBisyncSlotTags: unexpected tag format %q", tagFmt)
	}
	tagPrefix := strings.TrimSuffix(tagFmt, "%x")
	var bySlot [16384]int
	for i := range bySlot {
		bySlot[i] = -1
	}
	remaining := 16384
	for i := 0; remaining > 0; i++ {
		if i > 1<<24 {
			die("slot tag search does not terminate")
		}
		tag := fmt.Sprintf(tagFmt, i)
		s := c18HashSlot([]byte("{" + tag + "}"))
		if bySlot[s] >= 0 {
			continue
		}
		bySlot[s] = i
		remaining--
	}
	var tb strings.Builder
	tb.WriteString(header)
	tb.WriteString("namespace GunYu.Gen\n\n")
	tb.WriteString(fmt.Sprintf("/-- literal prefix of the tag format %q of checkpoint.initBisyncSlotTags -/\ndef slotTagPrefix : List UInt8 := %s\n\n", tagFmt, c10Bytes(tagPrefix)))
	tb.WriteString("/-! `slotTagChunk<c>[j]` = the first `i` (as the init loop counts) whose tag\n    `{slot-<hex i>}` hashes to slot `1024*c + j`. -/\n\n")
	for c := 0; c < 16; c++ {
		tb.WriteString(fmt.Sprintf("def slotTagChunk%d : List Nat := [\n", c))
		for j := 0; j < 1024; j++ {
			if j%16 == 0 {
				tb.WriteString("  ")
			}
			tb.WriteString(strconv.Itoa(bySlot[c*1024+j]))
			if j != 1023 {
				tb.WriteString(",")
			}
			if j%16 == 15 {
				tb.WriteString("\n")
			}
		}
		tb.WriteString("]\n\n")
	}
	tb.WriteString("def slotTagChunks : List (List Nat) := [\n  ")
	for c := 0; c < 16; c++ {
		tb.WriteString(fmt.Sprintf("slotTagChunk%d", c))
		if c != 15 {
			tb.WriteString(", ")
		}
	}
	tb.WriteString("]\n\nend GunYu.Gen\n")
	writeIfChanged(filepath.Join(*out, "BisyncTags.lean"), tb.String())
	facts["bisync_slot_tag_format"] = tagFmt

	// ---- syncer-side predicates (bodies as facts; the models transcribe them)
	sfset, sf := parseFile("syncer/bisync.go")
	syn := map[string]string{}
	for _, fn := range []string{"isBisyncNamespaceKey", "touchesBisyncNamespace", "isBisyncControlCommand",
		"isBisyncMirroredTransaction", "isBisyncMarkerCommand", "isBisyncMarkerExpiryCommand", "bisyncSlotMode"} {
		syn[fn] = c18BodyFact(sfset, sf, fn)
	}
	facts["bisync_syncer_predicates"] = syn

	// the inventory of target writers (C13) and the cluster transaction flag (C18): own generator name,
	// so that a failure here is reported as `gen_errors[c13]` and leaves the facts above intact
	runGen("c13", genC13Writers)
	runGen("c18slot", genC18Slot)
	runGen("c18facts", genC18Facts)
}
