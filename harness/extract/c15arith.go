package main

// C15: the duration arithmetic the lease rests on, REGENERATED into lean/GunYu/Gen/LeaseArith.lean
// (generator "c15arith"):
//   * config/config.go (*ClusterConfig).fix: the statements on LeaseTimeout / LeaseRenewInterval  -> fixDur
//     and the etcd session ttl it derives (cc.MetaEtcd.Ttl = …)                                    -> etcdTtl
//   * cmd/syncer.go run(): the ttl handed to cluster.NewRedisCluster                                -> storeTtl
//   * cmd/syncer.go leaseHold(): what it returns                                                    -> leaseHold
//   * cmd/syncer.go clusterTicker: the period of time.NewTicker                                     -> tickerPeriod
// Expressions: integer literals, time.<unit> constants, the two duration fields of the cluster section,
// + - * / with a non-zero CONSTANT divisor, the conversions int / int64 / time.Duration (identity on a
// 64-bit platform), comparisons, && || !. A + - * with a non-constant operand is emitted as GoSem-free
// `wrap64 (…)` (two's complement int64), constant sub-expressions are exact (the Go compiler evaluates
// them exactly and rejects an overflow). Statements of fix: if / else-if chains whose branches assign the
// two fields, plain assignments to them, blocks that touch neither (group name, etcd section: they may
// return an error, never nil) and the final `return nil`. Anything else: the generator fails.

import (
	"fmt"
	"go/ast"
	"go/token"
	"math/big"
	"path/filepath"
	"strconv"
	"strings"
)

var c15aUnits = map[string]string{
	"Nanosecond": "1", "Microsecond": "1000", "Millisecond": "1000000", "Second": "1000000000",
	"Minute": "60000000000", "Hour": "3600000000000",
}

type c15aCtx struct {
	fset  *token.FileSet
	bases map[string]bool // printed expressions that denote the cluster section
	what  string
	pre   []string // hoisted `let qN : Int := Int.tdiv a b` (a division is total here: constant non-zero divisor)
}

var c15aQ int

// flush returns the hoisted division lets (each on its own line, indented) and forgets them
func (c *c15aCtx) flush(ind string) string {
	var sb strings.Builder
	for _, l := range c.pre {
		sb.WriteString(ind + l + "\n")
	}
	c.pre = nil
	return sb.String()
}

// field: "lease" / "renew" if e is <base>.LeaseTimeout / <base>.LeaseRenewInterval
func (c *c15aCtx) field(e ast.Expr) string {
	se, ok := e.(*ast.SelectorExpr)
	if !ok {
		return ""
	}
	if !c.bases[c15Print(c.fset, se.X)] {
		return ""
	}
	switch se.Sel.Name {
	case "LeaseTimeout":
		return "lease"
	case "LeaseRenewInterval":
		return "renew"
	}
	return ""
}

// expr returns the Lean text and whether the expression is a Go constant expression; a constant
// expression is emitted as its VALUE (exact integer arithmetic, as the Go compiler does it), so that
// 3*time.Second, time.Second*3 and 3000*time.Millisecond are one text
func (c *c15aCtx) expr(e ast.Expr) (string, bool) {
	s, k := c.expr1(e)
	if k {
		v := c15aEval(s)
		if v == nil {
			die("%s: constant expression %s could not be evaluated", c.what, c15Print(c.fset, e))
		}
		if !v.IsInt64() {
			die("%s: constant %s overflows int64", c.what, c15Print(c.fset, e))
		}
		if v.Sign() < 0 {
			return "(" + v.String() + ")", true
		}
		return v.String(), true
	}
	return s, k
}

// c15aEval evaluates the constant texts expr1 produces: decimal literals (possibly "(-n)"), and
// "(a op b)" / "(Int.tdiv a b)" of evaluated operands - operands are always already folded, so only
// the outermost operation is left to do
func c15aEval(s string) *big.Int {
	lit := func(t string) *big.Int {
		t = strings.TrimSuffix(strings.TrimPrefix(t, "("), ")")
		v, ok := new(big.Int).SetString(t, 10)
		if !ok {
			return nil
		}
		return v
	}
	if v := lit(s); v != nil {
		return v
	}
	t := strings.TrimSuffix(strings.TrimPrefix(s, "("), ")")
	if strings.HasPrefix(t, "Int.tdiv ") {
		f := c15aSplit(strings.TrimPrefix(t, "Int.tdiv "))
		if len(f) != 2 {
			return nil
		}
		a, b := lit(f[0]), lit(f[1])
		if a == nil || b == nil || b.Sign() == 0 {
			return nil
		}
		return new(big.Int).Quo(a, b) // truncated, like Go
	}
	if strings.HasPrefix(t, "-") {
		if a := lit(t[1:]); a != nil {
			return new(big.Int).Neg(a)
		}
	}
	f := c15aSplit(t)
	if len(f) != 3 {
		return nil
	}
	a, b := lit(f[0]), lit(f[2])
	if a == nil || b == nil {
		return nil
	}
	switch f[1] {
	case "+":
		return new(big.Int).Add(a, b)
	case "-":
		return new(big.Int).Sub(a, b)
	case "*":
		return new(big.Int).Mul(a, b)
	}
	return nil
}

// c15aSplit splits at top-level blanks (parenthesised operands stay whole)
func c15aSplit(t string) []string {
	var out []string
	depth, start := 0, 0
	for i := 0; i < len(t); i++ {
		switch t[i] {
		case '(':
			depth++
		case ')':
			depth--
		case ' ':
			if depth == 0 {
				out = append(out, t[start:i])
				start = i + 1
			}
		}
	}
	return append(out, t[start:])
}

func (c *c15aCtx) expr1(e ast.Expr) (string, bool) {
	switch x := e.(type) {
	case *ast.ParenExpr:
		return c.expr(x.X)
	case *ast.BasicLit:
		if x.Kind != token.INT {
			die("%s: literal %s is not an integer", c.what, x.Value)
		}
		v, err := strconv.ParseInt(strings.ReplaceAll(x.Value, "_", ""), 0, 64)
		if err != nil {
			die("%s: %v", c.what, err)
		}
		return strconv.FormatInt(v, 10), true
	case *ast.SelectorExpr:
		if f := c.field(x); f != "" {
			return f, false
		}
		if id, ok := x.X.(*ast.Ident); ok && id.Name == "time" {
			if v, ok := c15aUnits[x.Sel.Name]; ok {
				return v, true
			}
		}
		die("%s: %s is neither a duration field of the cluster section nor a time unit", c.what, c15Print(c.fset, x))
	case *ast.CallExpr:
		// conversions that are the identity on int64
		if len(x.Args) == 1 {
			fn := c15Print(c.fset, x.Fun)
			if fn == "int" || fn == "int64" || fn == "time.Duration" {
				return c.expr(x.Args[0])
			}
		}
		die("%s: call %s is outside the subset", c.what, c15Print(c.fset, x))
	case *ast.UnaryExpr:
		if x.Op == token.SUB {
			s, k := c.expr(x.X)
			if k {
				return "(-" + s + ")", true
			}
			return "(wrap64 (-" + s + "))", false
		}
		die("%s: unary %s is outside the subset", c.what, x.Op)
	case *ast.BinaryExpr:
		a, ka := c.expr(x.X)
		b, kb := c.expr(x.Y)
		k := ka && kb
		switch x.Op {
		case token.ADD, token.SUB, token.MUL:
			s := "(" + a + " " + x.Op.String() + " " + b + ")"
			if !k {
				s = "(wrap64 " + s + ")"
			}
			return s, k
		case token.QUO:
			if !kb {
				die("%s: divisor %s is not a constant", c.what, c15Print(c.fset, x.Y))
			}
			// the divisor must be a non-zero, non-(-1) constant: no panic, no MinInt64 / -1
			facts["lease_arith_divisors"] = append(c15aStrs(facts["lease_arith_divisors"]), b)
			if k {
				return "(Int.tdiv " + a + " " + b + ")", k
			}
			// A-normal form: every division gets a name, so that a proof can treat it as `q = a.tdiv b`
			c15aQ++
			q := fmt.Sprintf("q%d", c15aQ)
			c.pre = append(c.pre, "let "+q+" : Int := Int.tdiv "+a+" "+b)
			return q, k
		}
		die("%s: operator %s is outside the subset", c.what, x.Op)
	}
	die("%s: expression %s is outside the subset", c.what, c15Print(c.fset, e))
	return "", false
}

func c15aStrs(v interface{}) []string {
	if s, ok := v.([]string); ok {
		return s
	}
	return nil
}

func (c *c15aCtx) cond(e ast.Expr) string {
	switch x := e.(type) {
	case *ast.ParenExpr:
		return "(" + c.cond(x.X) + ")"
	case *ast.UnaryExpr:
		if x.Op == token.NOT {
			return "(¬ " + c.cond(x.X) + ")"
		}
	case *ast.BinaryExpr:
		switch x.Op {
		case token.LAND:
			return "(" + c.cond(x.X) + " ∧ " + c.cond(x.Y) + ")"
		case token.LOR:
			return "(" + c.cond(x.X) + " ∨ " + c.cond(x.Y) + ")"
		case token.EQL, token.NEQ, token.LSS, token.LEQ, token.GTR, token.GEQ:
			a, _ := c.expr(x.X)
			b, _ := c.expr(x.Y)
			op := map[token.Token]string{token.EQL: "=", token.NEQ: "≠", token.LSS: "<", token.LEQ: "≤", token.GTR: ">", token.GEQ: "≥"}[x.Op]
			return "(" + a + " " + op + " " + b + ")"
		}
	}
	die("%s: condition %s is outside the subset", c.what, c15Print(c.fset, e))
	return ""
}

// mentions: does the node contain a selector of one of the two duration fields (on any base), or the bare
// base identifier used other than as `<base>.<Field>`
func (c *c15aCtx) touches(n ast.Node) (durations bool, bareBase bool) {
	sel := map[*ast.Ident]bool{}
	ast.Inspect(n, func(m ast.Node) bool {
		if se, ok := m.(*ast.SelectorExpr); ok {
			if se.Sel.Name == "LeaseTimeout" || se.Sel.Name == "LeaseRenewInterval" {
				durations = true
			}
			if id, ok := se.X.(*ast.Ident); ok {
				sel[id] = true
			}
		}
		return true
	})
	ast.Inspect(n, func(m ast.Node) bool {
		if id, ok := m.(*ast.Ident); ok && c.bases[id.Name] && !sel[id] {
			bareBase = true
		}
		if ue, ok := m.(*ast.UnaryExpr); ok && ue.Op == token.AND {
			if se, ok := ue.X.(*ast.SelectorExpr); ok {
				if id, ok := se.X.(*ast.Ident); ok && c.bases[id.Name] {
					bareBase = true // &cc.Field escapes
				}
			}
		}
		return true
	})
	return
}

// assigns: a block of assignments to the two fields -> Lean lets, in order
func (c *c15aCtx) assigns(list []ast.Stmt, ind string) string {
	var sb strings.Builder
	if len(list) == 0 {
		die("%s: empty branch", c.what)
	}
	for _, st := range list {
		as, ok := st.(*ast.AssignStmt)
		if !ok || as.Tok != token.ASSIGN || len(as.Lhs) != 1 || len(as.Rhs) != 1 {
			die("%s: statement `%s` in a branch on the durations is not a plain assignment", c.what, c15Print(c.fset, st))
		}
		f := c.field(as.Lhs[0])
		if f == "" {
			die("%s: `%s` assigns something else than the two duration fields", c.what, c15Print(c.fset, st))
		}
		e, _ := c.expr(as.Rhs[0])
		sb.WriteString(c.flush(ind))
		sb.WriteString(ind + "let " + f + " : Int := " + e + "\n")
	}
	sb.WriteString(ind + "(lease, renew)")
	return sb.String()
}

func (c *c15aCtx) ifChain(is *ast.IfStmt, ind string) string {
	if is.Init != nil {
		die("%s: if with an init statement", c.what)
	}
	var sb strings.Builder
	sb.WriteString(ind + "if " + c.cond(is.Cond) + " then\n")
	sb.WriteString(c.assigns(is.Body.List, ind+"  ") + "\n")
	sb.WriteString(ind + "else\n")
	switch el := is.Else.(type) {
	case nil:
		sb.WriteString(ind + "  (lease, renew)")
	case *ast.IfStmt:
		sb.WriteString(c.ifChain(el, ind+"  "))
	case *ast.BlockStmt:
		sb.WriteString(c.assigns(el.List, ind+"  "))
	}
	return sb.String()
}

// c15aResolve: a local variable that is assigned exactly once in the function (and never incremented or
// addressed) stands for the expression it was given
func c15aResolve(fd *ast.FuncDecl, arg ast.Expr, what string) ast.Expr {
	id, ok := arg.(*ast.Ident)
	if !ok {
		return arg
	}
	var def ast.Expr
	cnt := 0
	ast.Inspect(fd.Body, func(m ast.Node) bool {
		switch a := m.(type) {
		case *ast.AssignStmt:
			for i, l := range a.Lhs {
				if li, ok := l.(*ast.Ident); ok && li.Name == id.Name {
					cnt++
					if len(a.Rhs) == len(a.Lhs) {
						def = a.Rhs[i]
					}
				}
			}
		case *ast.IncDecStmt:
			if li, ok := a.X.(*ast.Ident); ok && li.Name == id.Name {
				cnt += 2
			}
		case *ast.UnaryExpr:
			if li, ok := a.X.(*ast.Ident); ok && a.Op == token.AND && li.Name == id.Name {
				cnt += 2
			}
		}
		return true
	})
	if cnt != 1 || def == nil {
		die("%s: the variable %s is not assigned exactly once", what, id.Name)
	}
	return def
}

// ifChain1: an if / else-if chain whose every branch is ONE assignment to the same field f:
// `if c1 then e1 else if c2 then e2 else f`; ("", "") if the chain has another shape
func (c *c15aCtx) ifChain1(is *ast.IfStmt, ind string) (string, string) {
	field := ""
	one := func(list []ast.Stmt) (string, bool) {
		if len(list) != 1 {
			return "", false
		}
		as, ok := list[0].(*ast.AssignStmt)
		if !ok || as.Tok != token.ASSIGN || len(as.Lhs) != 1 || len(as.Rhs) != 1 {
			return "", false
		}
		f := c.field(as.Lhs[0])
		if f == "" || (field != "" && f != field) {
			return "", false
		}
		field = f
		e, _ := c.expr(as.Rhs[0])
		return e, true
	}
	var sb strings.Builder
	cur := is
	depth := 0
	for {
		if cur.Init != nil {
			return "", ""
		}
		e, ok := one(cur.Body.List)
		if !ok {
			return "", ""
		}
		sb.WriteString(ind + strings.Repeat("  ", depth) + "if " + c.cond(cur.Cond) + " then " + e + "\n")
		sb.WriteString(ind + strings.Repeat("  ", depth) + "else\n")
		depth++
		switch el := cur.Else.(type) {
		case nil:
			sb.WriteString(ind + strings.Repeat("  ", depth) + field)
			return field, sb.String()
		case *ast.IfStmt:
			cur = el
			continue
		case *ast.BlockStmt:
			e, ok := one(el.List)
			if !ok {
				return "", ""
			}
			sb.WriteString(ind + strings.Repeat("  ", depth) + e)
			return field, sb.String()
		default:
			return "", ""
		}
	}
}

func genC15Arith() {
	delete(facts, "lease_arith_divisors")
	c15aQ = 0
	var sb strings.Builder
	sb.WriteString(header)
	sb.WriteString("namespace GunYu.Gen.LeaseArith\n\n")
	sb.WriteString("/-- two's complement int64 (the result of a Go `+ - *` on time.Duration / int with a non-constant operand) -/\n")
	sb.WriteString("def wrap64 (x : Int) : Int := (x + 9223372036854775808) % 18446744073709551616 - 9223372036854775808\n\n")

	// ---------------------------------------------------------------- (*ClusterConfig).fix
	fset, f := parseFile("config/config.go")
	fd := c15Method(f, "ClusterConfig", "fix")
	if fd == nil || fd.Recv == nil || len(fd.Recv.List) != 1 || len(fd.Recv.List[0].Names) != 1 {
		die("config/config.go: (*ClusterConfig).fix with a named receiver not found")
	}
	if _, ok := fd.Recv.List[0].Type.(*ast.StarExpr); !ok {
		die("(*ClusterConfig).fix: the receiver is not a pointer - its assignments would be lost")
	}
	c := &c15aCtx{fset: fset, bases: map[string]bool{fd.Recv.List[0].Names[0].Name: true}, what: "ClusterConfig.fix"}
	var body strings.Builder
	etcdTtl, lastDur, ttlAt := "", -1, -1
	n := len(fd.Body.List)
	for i, st := range fd.Body.List {
		dur, bare := c.touches(st)
		if bare {
			die("ClusterConfig.fix: statement `%s` uses the receiver as a whole (it may change the durations out of sight)", c15Print(fset, st))
		}
		switch s := st.(type) {
		case *ast.ReturnStmt:
			if i != n-1 || len(s.Results) != 1 || c15Print(fset, s.Results[0]) != "nil" {
				die("ClusterConfig.fix: `%s` is not the final `return nil`", c15Print(fset, st))
			}
			continue
		case *ast.IfStmt:
			// does it WRITE a duration field, or test one?
			writes, tests := false, false
			ast.Inspect(s, func(m ast.Node) bool {
				switch a := m.(type) {
				case *ast.AssignStmt:
					for _, l := range a.Lhs {
						if c.field(l) != "" {
							writes = true
						}
					}
				case *ast.IncDecStmt:
					if c.field(a.X) != "" {
						writes = true
					}
				}
				return true
			})
			if d, _ := c.touches(s.Cond); d {
				tests = true
			}
			if writes || tests {
				if f, txt := c.ifChain1(s, "    "); f != "" {
					// every branch assigns the same single field: no pair needed (keeps the term small);
					// no assignment happens between the start of the chain and any of its expressions,
					// so its divisions may be computed before it
					body.WriteString(c.flush("  "))
					body.WriteString("  let " + f + " : Int :=\n" + txt + "\n")
				} else {
					c.pre = nil
					txt := c.ifChain(s, "    ")
					body.WriteString(c.flush("  ")) // divisions of the CONDITIONS (branch bodies flush their own)
					body.WriteString("  let p : Int × Int :=\n" + txt + "\n")
					body.WriteString("  let lease : Int := p.1\n  let renew : Int := p.2\n")
				}
				lastDur = i
				continue
			}
			// a block on something else (group name, etcd section): may read the durations, may return an error
			ast.Inspect(s, func(m ast.Node) bool {
				if rs, ok := m.(*ast.ReturnStmt); ok {
					if len(rs.Results) != 1 || c15Print(fset, rs.Results[0]) == "nil" {
						die("ClusterConfig.fix: `%s` inside `if %s` ends fix without an error before the durations are fixed", c15Print(fset, rs), c15Print(fset, s.Cond))
					}
				}
				if as, ok := m.(*ast.AssignStmt); ok && len(as.Lhs) == 1 && len(as.Rhs) == 1 {
					if se, ok := as.Lhs[0].(*ast.SelectorExpr); ok && se.Sel.Name == "Ttl" {
						if etcdTtl != "" {
							die("ClusterConfig.fix: the etcd ttl is assigned twice")
						}
						c.pre = nil
						etcdTtl, _ = c.expr(as.Rhs[0])
						etcdTtl = "\n" + c.flush("  ") + "  " + etcdTtl
						ttlAt = i
					}
				}
				return true
			})
			_ = dur
			continue
		case *ast.AssignStmt:
			if s.Tok == token.ASSIGN && len(s.Lhs) == 1 && len(s.Rhs) == 1 && c.field(s.Lhs[0]) != "" {
				e, _ := c.expr(s.Rhs[0])
				body.WriteString(c.flush("  "))
				body.WriteString("  let " + c.field(s.Lhs[0]) + " : Int := " + e + "\n")
				lastDur = i
				continue
			}
		case *ast.ExprStmt:
			if !dur {
				continue // a log line and the like: touches neither the receiver as a whole nor the durations
			}
		}
		die("ClusterConfig.fix: statement `%s` is outside the subset", c15Print(fset, st))
	}
	if lastDur < 0 {
		die("ClusterConfig.fix: no statement on the durations found")
	}
	if etcdTtl == "" || ttlAt < lastDur {
		die("ClusterConfig.fix: the etcd session ttl (MetaEtcd.Ttl = …) is not assigned after the durations are fixed")
	}
	sb.WriteString("/-- config/config.go `(*ClusterConfig).fix`: its statements on LeaseTimeout / LeaseRenewInterval (ns), in order -/\n")
	sb.WriteString("def fixDur (lease renew : Int) : Int × Int :=\n" + body.String() + "  (lease, renew)\n\n")
	sb.WriteString("/-- config/config.go `(*ClusterConfig).fix`: `cc.MetaEtcd.Ttl = …` (after the durations are fixed) -/\n")
	sb.WriteString("def etcdTtl (lease renew : Int) : Int :=" + etcdTtl + "\n\n")

	// ---------------------------------------------------------------- cmd/syncer.go
	fset2, g := parseFile("cmd/syncer.go")
	const section = "config.GetSyncerConfig().Cluster"
	// leaseHold(): optional `x := config.GetSyncerConfig().Cluster`, then one return
	{
		fd := c15FuncByName(g, "leaseHold")
		if fd == nil {
			die("cmd/syncer.go: leaseHold not found")
		}
		c2 := &c15aCtx{fset: fset2, bases: map[string]bool{section: true}, what: "leaseHold"}
		ret := ""
		for i, st := range fd.Body.List {
			switch s := st.(type) {
			case *ast.AssignStmt:
				if s.Tok == token.DEFINE && len(s.Lhs) == 1 && len(s.Rhs) == 1 && c15Print(fset2, s.Rhs[0]) == section {
					c2.bases[s.Lhs[0].(*ast.Ident).Name] = true
					continue
				}
			case *ast.ReturnStmt:
				if i == len(fd.Body.List)-1 && len(s.Results) == 1 {
					ret, _ = c2.expr(s.Results[0])
					ret = "\n" + c2.flush("  ") + "  " + ret
					continue
				}
			}
			die("leaseHold: statement `%s` is outside the subset", c15Print(fset2, st))
		}
		if ret == "" {
			die("leaseHold: no return")
		}
		sb.WriteString("/-- cmd/syncer.go `leaseHold()` (ns) -/\n")
		sb.WriteString("def leaseHold (lease renew : Int) : Int :=" + ret + "\n\n")
	}
	// run(): the ttl argument of cluster.NewRedisCluster
	{
		fd := c15FuncByName(g, "run")
		if fd == nil {
			die("cmd/syncer.go: run not found")
		}
		c3 := &c15aCtx{fset: fset2, bases: map[string]bool{section: true}, what: "run"}
		var arg ast.Expr
		calls := 0
		ast.Inspect(fd.Body, func(m ast.Node) bool {
			if ce, ok := m.(*ast.CallExpr); ok && c15CallName(ce) == "NewRedisCluster" {
				calls++
				if len(ce.Args) != 3 {
					die("run: NewRedisCluster with %d arguments", len(ce.Args))
				}
				arg = ce.Args[2]
			}
			return true
		})
		if calls != 1 {
			die("run: expected exactly one NewRedisCluster call, found %d", calls)
		}
		arg = c15aResolve(fd, arg, "run")
		s, _ := c3.expr(arg)
		s = "\n" + c3.flush("  ") + "  " + s
		sb.WriteString("/-- cmd/syncer.go `run()`: the ttl (seconds) handed to cluster.NewRedisCluster -/\n")
		sb.WriteString("def storeTtl (lease renew : Int) : Int :=" + s + "\n\n")
	}
	// clusterTicker: time.NewTicker(<period>)
	{
		fd := c15FuncByName(g, "clusterTicker")
		if fd == nil {
			die("cmd/syncer.go: clusterTicker not found")
		}
		c4 := &c15aCtx{fset: fset2, bases: map[string]bool{section: true}, what: "clusterTicker"}
		per, cnt := "", 0
		ast.Inspect(fd.Body, func(m ast.Node) bool {
			if ce, ok := m.(*ast.CallExpr); ok && c15CallName(ce) == "NewTicker" && len(ce.Args) == 1 {
				cnt++
				per, _ = c4.expr(c15aResolve(fd, ce.Args[0], "clusterTicker"))
				per = "\n" + c4.flush("  ") + "  " + per
			}
			return true
		})
		if cnt != 1 {
			die("clusterTicker: expected exactly one time.NewTicker, found %d", cnt)
		}
		sb.WriteString("/-- cmd/syncer.go `clusterTicker`: the period of its time.NewTicker (ns) -/\n")
		sb.WriteString("def tickerPeriod (lease renew : Int) : Int :=" + per + "\n\n")
	}
	for _, d := range c15aStrs(facts["lease_arith_divisors"]) {
		if d == "0" || strings.HasPrefix(d, "(") {
			die("duration arithmetic: divisor %s is not a plain positive constant", d)
		}
	}
	sb.WriteString("end GunYu.Gen.LeaseArith\n")
	writeIfChanged(filepath.Join(*out, "LeaseArith.lean"), sb.String())
	facts["lease_arith_generated"] = fmt.Sprintf("fixDur etcdTtl leaseHold storeTtl tickerPeriod")
}
