package main

// C18, session 5: facts about two pieces of glue the models read as "a function of its arguments":
//
//   c18_resolver_closure_state   the closure newBisyncCommandKeyResolver returns (the key resolver one parser run
//       holds): the names declared in the constructor outside that closure, which of them the closure WRITES
//       (assignment, ++/--, index assignment, address taken) or INDEXES, and the functions it calls. A resolver
//       that remembers anything between two commands (a memo of key positions per name/arity: seeded C18-r7-m1)
//       changes this fact; the sequences of vf_c18_s5_test.go give the failing input.
//   c18_commandgetkeys_calls     the calls inside Cluster.commandGetKeys in source order: one getRandomNode, one
//       cluster.do, one common.Strings (the model's `picks`: exactly one node is asked per query).

import (
	"go/ast"
	"go/parser"
	"go/token"
	"os"
	"path/filepath"
	"sort"
	"strings"
)

func c18CalleeName(fset *token.FileSet, ce *ast.CallExpr) string {
	return c10Render(fset, ce.Fun)
}

func c18RootIdent(e ast.Expr) *ast.Ident {
	for {
		switch x := e.(type) {
		case *ast.Ident:
			return x
		case *ast.IndexExpr:
			e = x.X
		case *ast.SelectorExpr:
			e = x.X
		case *ast.StarExpr:
			e = x.X
		case *ast.ParenExpr:
			e = x.X
		default:
			return nil
		}
	}
}

func genC18Facts() {
	fset, f := parseFile("syncer/bisync.go")
	fd := c10FindFunc(f, "newBisyncCommandKeyResolver")
	if fd == nil || fd.Body == nil {
		die("newBisyncCommandKeyResolver not found")
	}
	// the returned resolver: first result of the (single) top-level return statement
	var resolver *ast.FuncLit
	for _, st := range fd.Body.List {
		if rs, ok := st.(*ast.ReturnStmt); ok {
			if len(rs.Results) < 1 {
				die("newBisyncCommandKeyResolver: return without results")
			}
			fl, ok := rs.Results[0].(*ast.FuncLit)
			if !ok {
				die("newBisyncCommandKeyResolver: the first result is not a function literal (%s)", c10Render(fset, rs.Results[0]))
			}
			if resolver != nil {
				die("newBisyncCommandKeyResolver: more than one top-level return")
			}
			resolver = fl
		}
	}
	if resolver == nil {
		die("newBisyncCommandKeyResolver: no top-level return of a function literal")
	}
	// names declared in the constructor outside the resolver literal
	outer := map[string]bool{}
	ast.Inspect(fd.Body, func(n ast.Node) bool {
		if n == ast.Node(resolver) {
			return false
		}
		switch x := n.(type) {
		case *ast.FuncLit:
			// parameters and locals of the helper closures (getConn, the closer) are not state of the resolver,
			// but what they declare at THEIR top is invisible to it anyway: skip their bodies
			return false
		case *ast.AssignStmt:
			if x.Tok == token.DEFINE {
				for _, l := range x.Lhs {
					if id, ok := l.(*ast.Ident); ok && id.Name != "_" {
						outer[id.Name] = true
					}
				}
			}
		case *ast.ValueSpec:
			for _, id := range x.Names {
				outer[id.Name] = true
			}
		}
		return true
	})
	// a `x := func…` at the constructor's top level is an AssignStmt whose RHS FuncLit we skipped above only for
	// its BODY; the name itself was recorded by the AssignStmt case.
	var outerNames []string
	for n := range outer {
		outerNames = append(outerNames, n)
	}
	sort.Strings(outerNames)

	// locals of the resolver literal itself shadow outer names
	local := map[string]bool{}
	for _, p := range resolver.Type.Params.List {
		for _, id := range p.Names {
			local[id.Name] = true
		}
	}
	ast.Inspect(resolver.Body, func(n ast.Node) bool {
		switch x := n.(type) {
		case *ast.AssignStmt:
			if x.Tok == token.DEFINE {
				for _, l := range x.Lhs {
					if id, ok := l.(*ast.Ident); ok {
						local[id.Name] = true
					}
				}
			}
		case *ast.ValueSpec:
			for _, id := range x.Names {
				local[id.Name] = true
			}
		case *ast.RangeStmt:
			if x.Tok == token.DEFINE {
				for _, e := range []ast.Expr{x.Key, x.Value} {
					if id, ok := e.(*ast.Ident); ok {
						local[id.Name] = true
					}
				}
			}
		}
		return true
	})
	isOuter := func(e ast.Expr) (string, bool) {
		id := c18RootIdent(e)
		if id == nil || local[id.Name] || !outer[id.Name] {
			return "", false
		}
		return id.Name, true
	}
	written, indexed, calls := []string{}, []string{}, []string{}
	ast.Inspect(resolver.Body, func(n ast.Node) bool {
		switch x := n.(type) {
		case *ast.AssignStmt:
			if x.Tok != token.DEFINE {
				for _, l := range x.Lhs {
					if name, ok := isOuter(l); ok {
						written = append(written, name+" "+x.Tok.String()+" (in: "+c10Render(fset, l)+")")
					}
				}
			}
		case *ast.IncDecStmt:
			if name, ok := isOuter(x.X); ok {
				written = append(written, name+" "+x.Tok.String())
			}
		case *ast.UnaryExpr:
			if x.Op == token.AND {
				if name, ok := isOuter(x.X); ok {
					written = append(written, "&"+name)
				}
			}
		case *ast.IndexExpr:
			if name, ok := isOuter(x.X); ok {
				indexed = append(indexed, name)
			}
		case *ast.CallExpr:
			calls = append(calls, c18CalleeName(fset, x))
		}
		return true
	})
	facts["c18_resolver_closure_state"] = map[string]interface{}{
		"declared_outside_the_resolver": outerNames,
		"written_by_the_resolver":       written,
		"indexed_by_the_resolver":       indexed,
		"calls_of_the_resolver":         calls,
	}

	// ---- Cluster.commandGetKeys: one node asked per query
	cfset, cf := parseFile("pkg/redis/client/cluster/cluster.go")
	var cg *ast.FuncDecl
	for _, d := range cf.Decls {
		if x, ok := d.(*ast.FuncDecl); ok && x.Name.Name == "commandGetKeys" && x.Recv != nil {
			cg = x
		}
	}
	if cg == nil || cg.Body == nil {
		die("Cluster.commandGetKeys not found")
	}
	cgCalls := []string{}
	loops := 0
	ast.Inspect(cg.Body, func(n ast.Node) bool {
		switch x := n.(type) {
		case *ast.CallExpr:
			cgCalls = append(cgCalls, c18CalleeName(cfset, x))
		case *ast.ForStmt, *ast.RangeStmt, *ast.GoStmt:
			loops++
		}
		return true
	})
	facts["c18_commandgetkeys_calls"] = map[string]interface{}{"calls": cgCalls, "loops_or_goroutines": loops}

	facts["c18_process_globals"] = c18ProcessGlobals()
}

// c18ProcessGlobals: the process-global state the unit builder and the unit commit can reach - for the packages they
// live in and call into (key tables, slot functions, control-key constructors, the cluster client's router), every
// package-level `var` that some function other than init() WRITES (assignment, ++/--, index / field assignment, address
// taken) or calls a mutating method of (sync.Once.Do, sync.Map.Store / LoadOrStore / Delete / Swap, atomic Store / Add /
// CompareAndSwap / Swap, sync.Pool.Put / Get), as "<file>:<var>:<function>:<how>". Metric vectors (…Counter / …Gauge
// initialised by metric.New…) are left out by their initialiser. First / concurrent use of each listed variable has a
// case in the harness (C18first for the slot-tag table).
func c18ProcessGlobals() []string {
	files := []string{"syncer/bisync.go", "syncer/bisync_rdb.go", "pkg/redis/checkpoint/bisync.go", "pkg/redis/keyspec/keyspec.go",
		"pkg/redis/slot.go", "pkg/digest/crc16.go", "pkg/filter/filter.go", "pkg/redis/client/cluster/txn_batcher.go"}
	mut := map[string]bool{"Do": true, "Store": true, "LoadOrStore": true, "Delete": true, "Swap": true, "CompareAndSwap": true, "Add": true,
		"Put": true, "Get": true, "LoadAndDelete": true, "CompareAndDelete": true, "Range": false}
	var out []string
	for _, rel := range files {
		fset := token.NewFileSet()
		path := filepath.Join(*repo, rel)
		if _, err := os.Stat(path); err != nil {
			die("c18_process_globals: %s not found", rel)
		}
		f, err := parser.ParseFile(fset, path, nil, 0)
		if err != nil {
			die("parse %s: %v", rel, err)
		}
		globals := map[string]bool{}
		for _, d := range f.Decls {
			gd, ok := d.(*ast.GenDecl)
			if !ok || gd.Tok != token.VAR {
				continue
			}
			for _, sp := range gd.Specs {
				vs := sp.(*ast.ValueSpec)
				metric := false
				for _, v := range vs.Values {
					if strings.HasPrefix(c10Render(fset, v), "metric.New") {
						metric = true
					}
				}
				if metric {
					continue
				}
				for _, n := range vs.Names {
					if n.Name != "_" {
						globals[n.Name] = true
					}
				}
			}
		}
		for _, d := range f.Decls {
			fd, ok := d.(*ast.FuncDecl)
			if !ok || fd.Body == nil || (fd.Name.Name == "init" && fd.Recv == nil) {
				continue
			}
			isGlobal := func(e ast.Expr) (string, bool) {
				id := c18RootIdent(e)
				// go/parser resolves identifiers within the file: a package-level variable of THIS file has Obj.Decl = its ValueSpec
				if id == nil || !globals[id.Name] || id.Obj == nil {
					return "", false
				}
				if _, ok := id.Obj.Decl.(*ast.ValueSpec); !ok {
					return "", false
				}
				// a local `var x` is a ValueSpec too: it is local iff declared inside this function
				if vs := id.Obj.Decl.(*ast.ValueSpec); vs.Pos() >= fd.Pos() && vs.End() <= fd.End() {
					return "", false
				}
				return id.Name, true
			}
			seen := map[string]bool{}
			note := func(name, how string) {
				k := rel + ":" + name + ":" + fd.Name.Name + ":" + how
				if !seen[k] {
					seen[k] = true
					out = append(out, k)
				}
			}
			ast.Inspect(fd.Body, func(n ast.Node) bool {
				switch x := n.(type) {
				case *ast.AssignStmt:
					if x.Tok != token.DEFINE {
						for _, l := range x.Lhs {
							if name, ok := isGlobal(l); ok {
								note(name, "assigned")
							}
						}
					}
				case *ast.IncDecStmt:
					if name, ok := isGlobal(x.X); ok {
						note(name, x.Tok.String())
					}
				case *ast.UnaryExpr:
					if x.Op == token.AND {
						if name, ok := isGlobal(x.X); ok {
							note(name, "address-taken")
						}
					}
				case *ast.CallExpr:
					if sel, ok := x.Fun.(*ast.SelectorExpr); ok && mut[sel.Sel.Name] {
						if name, ok := isGlobal(sel.X); ok {
							note(name, "."+sel.Sel.Name)
						}
					}
				}
				return true
			})
		}
	}
	sort.Strings(out)
	return out
}
