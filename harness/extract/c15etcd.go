package main

// C15, etcd half: read the requests pkg/cluster/etcd_election.go issues
// (clientv3.Compare / OpPut / OpGet / OpDelete / Txn().If().Then().Else(),
// plain Get / Delete) into the AST of lean/GunYu/Model/EtcdAst.lean and write
// lean/GunYu/Gen/EtcdElection.lean. Anything outside the subset makes this
// generator fail (gen_errors["c15etcd"]). Also records how NewEtcdCluster
// creates its session and where the session TTL comes from (the one part of
// pkg/cluster/etcd_cluster.go no harness can execute without a server).

import (
	"fmt"
	"go/ast"
	"go/token"
	"path/filepath"
	"strconv"
	"strings"
)

type c15eCtx struct {
	fset *token.FileSet
	fd   *ast.FuncDecl
	recv string               // receiver name (e / el)
	defs map[string]ast.Expr  // local := definitions
	what string
}

func c15eNew(fset *token.FileSet, f *ast.File, method string) *c15eCtx {
	fd := c15Method(f, "etcdElection", method)
	if fd == nil {
		die("etcdElection.%s not found", method)
	}
	c := &c15eCtx{fset: fset, fd: fd, defs: map[string]ast.Expr{}, what: "pkg/cluster/etcd_election.go:" + method}
	if len(fd.Recv.List[0].Names) == 1 {
		c.recv = fd.Recv.List[0].Names[0].Name
	}
	counts := map[string]int{}
	ast.Inspect(fd.Body, func(n ast.Node) bool {
		as, ok := n.(*ast.AssignStmt)
		if !ok {
			return true
		}
		for i, l := range as.Lhs {
			if id, ok := l.(*ast.Ident); ok && i < len(as.Rhs) && len(as.Lhs) == len(as.Rhs) {
				c.defs[id.Name] = as.Rhs[i]
				counts[id.Name]++
			}
		}
		return true
	})
	for k, n := range counts {
		if n > 1 {
			delete(c.defs, k) // assigned more than once: not resolvable
		}
	}
	return c
}

func (c *c15eCtx) fail(format string, a ...interface{}) {
	die("%s: %s (etcd request subset: Compare(CreateRevision(k), \"=\", 0|e.rev), OpPut(k, val, WithLease(sess.Lease())), OpGet(k[, WithFirstCreate()...]), OpDelete(k), Txn.If.Then[.Else].Commit)",
		c.what, fmt.Sprintf(format, a...))
}

func (c *c15eCtx) resolve(e ast.Expr) ast.Expr {
	for i := 0; i < 4; i++ {
		id, ok := e.(*ast.Ident)
		if !ok {
			return e
		}
		d, ok := c.defs[id.Name]
		if !ok {
			return e
		}
		e = d
	}
	return e
}

// keyRef: <recv>.key | <recv>.keyPrefix
func (c *c15eCtx) keyRef(e ast.Expr) string {
	sel, ok := e.(*ast.SelectorExpr)
	if ok {
		if x, ok := sel.X.(*ast.Ident); ok && x.Name == c.recv {
			switch sel.Sel.Name {
			case "key":
				return "KeyRef.key"
			case "keyPrefix":
				return "KeyRef.pfx"
			}
		}
	}
	c.fail("key expression %s is neither %s.key nor %s.keyPrefix", c15Print(c.fset, e), c.recv, c.recv)
	return ""
}

func c15eCallee(ce *ast.CallExpr) string {
	if sel, ok := ce.Fun.(*ast.SelectorExpr); ok {
		if x, ok := sel.X.(*ast.Ident); ok {
			return x.Name + "." + sel.Sel.Name
		}
		return "." + sel.Sel.Name
	}
	if id, ok := ce.Fun.(*ast.Ident); ok {
		return id.Name
	}
	return ""
}

// opts of OpGet / Get: none, or exactly `clientv3.WithFirstCreate()...`
func (c *c15eCtx) firstCreate(ce *ast.CallExpr, opts []ast.Expr) bool {
	if len(opts) == 0 {
		return false
	}
	if len(opts) == 1 && ce.Ellipsis.IsValid() {
		if oc, ok := opts[0].(*ast.CallExpr); ok && c15eCallee(oc) == "clientv3.WithFirstCreate" && len(oc.Args) == 0 {
			return true
		}
	}
	c.fail("options of %s are not `clientv3.WithFirstCreate()...`", c15Print(c.fset, ce))
	return false
}

func (c *c15eCtx) op(e ast.Expr) string {
	e = c.resolve(e)
	ce, ok := e.(*ast.CallExpr)
	if !ok {
		c.fail("operation %s is not a call", c15Print(c.fset, e))
	}
	switch c15eCallee(ce) {
	case "clientv3.OpPut":
		if len(ce.Args) < 2 {
			c.fail("OpPut needs key and value")
		}
		if id, ok := ce.Args[1].(*ast.Ident); !ok || id.Name != "val" {
			c.fail("OpPut value %s is not the parameter `val`", c15Print(c.fset, ce.Args[1]))
		}
		withLease := "false"
		switch len(ce.Args) {
		case 2:
		case 3:
			oc, ok := ce.Args[2].(*ast.CallExpr)
			want := c.recv + ".sess.Lease()"
			if !ok || c15eCallee(oc) != "clientv3.WithLease" || len(oc.Args) != 1 || c15Print(c.fset, oc.Args[0]) != want {
				c.fail("OpPut option %s is not clientv3.WithLease(%s)", c15Print(c.fset, ce.Args[2]), want)
			}
			withLease = "true"
		default:
			c.fail("OpPut with %d options", len(ce.Args)-2)
		}
		return "Op.put " + c.keyRef(ce.Args[0]) + " " + withLease
	case "clientv3.OpGet":
		if len(ce.Args) < 1 {
			c.fail("OpGet needs a key")
		}
		return fmt.Sprintf("Op.get %s %v", c.keyRef(ce.Args[0]), c.firstCreate(ce, ce.Args[1:]))
	case "clientv3.OpDelete":
		if len(ce.Args) != 1 {
			c.fail("OpDelete with options")
		}
		return "Op.del " + c.keyRef(ce.Args[0])
	}
	c.fail("operation %s", c15Print(c.fset, e))
	return ""
}

func (c *c15eCtx) cmp(e ast.Expr) string {
	e = c.resolve(e)
	ce, ok := e.(*ast.CallExpr)
	if !ok || c15eCallee(ce) != "clientv3.Compare" || len(ce.Args) != 3 {
		c.fail("compare %s", c15Print(c.fset, e))
	}
	tc, ok := ce.Args[0].(*ast.CallExpr)
	if !ok || c15eCallee(tc) != "clientv3.CreateRevision" || len(tc.Args) != 1 {
		c.fail("compare target %s is not clientv3.CreateRevision(k)", c15Print(c.fset, ce.Args[0]))
	}
	if bl, ok := ce.Args[1].(*ast.BasicLit); !ok || bl.Value != `"="` {
		c.fail("compare operator %s is not \"=\"", c15Print(c.fset, ce.Args[1]))
	}
	val := ""
	switch v := ce.Args[2].(type) {
	case *ast.BasicLit:
		n, err := strconv.Atoi(v.Value)
		if v.Kind != token.INT || err != nil || n < 0 {
			c.fail("compare value %s", v.Value)
		}
		val = fmt.Sprintf("CmpVal.lit %d", n)
	default:
		if c15Print(c.fset, v) != c.recv+".rev" {
			c.fail("compare value %s is neither a literal nor %s.rev", c15Print(c.fset, v), c.recv)
		}
		val = "CmpVal.rev"
	}
	return "⟨" + c.keyRef(tc.Args[0]) + ", " + val + "⟩"
}

// txn finds the single `….Txn(ctx).If(cmp).Then(…)[.Else(…)].Commit()` chain
func (c *c15eCtx) txn() string {
	var chains []*ast.CallExpr
	ast.Inspect(c.fd.Body, func(n ast.Node) bool {
		if ce, ok := n.(*ast.CallExpr); ok {
			if sel, ok := ce.Fun.(*ast.SelectorExpr); ok && sel.Sel.Name == "Commit" {
				chains = append(chains, ce)
			}
		}
		return true
	})
	if len(chains) != 1 {
		c.fail("expected exactly one Txn…Commit() chain, found %d", len(chains))
	}
	var ifArgs, thenArgs, elseArgs []ast.Expr
	seen := map[string]int{}
	cur := chains[0].Fun.(*ast.SelectorExpr).X
	for {
		ce, ok := cur.(*ast.CallExpr)
		if !ok {
			c.fail("transaction chain %s", c15Print(c.fset, chains[0]))
		}
		sel, ok := ce.Fun.(*ast.SelectorExpr)
		if !ok {
			c.fail("transaction chain %s", c15Print(c.fset, chains[0]))
		}
		seen[sel.Sel.Name]++
		switch sel.Sel.Name {
		case "If":
			ifArgs = ce.Args
		case "Then":
			thenArgs = ce.Args
		case "Else":
			elseArgs = ce.Args
		case "Txn":
			if len(ifArgs) != 1 || seen["If"] != 1 || seen["Then"] != 1 || seen["Else"] > 1 {
				c.fail("transaction chain %s needs one If with one compare, one Then, at most one Else", c15Print(c.fset, chains[0]))
			}
			ops := func(xs []ast.Expr) string {
				var p []string
				for _, x := range xs {
					p = append(p, c.op(x))
				}
				return "[" + strings.Join(p, ", ") + "]"
			}
			return "{ cmp := " + c.cmp(ifArgs[0]) + ",\n    thn := " + ops(thenArgs) + ",\n    els := " + ops(elseArgs) + " }"
		default:
			c.fail("unexpected .%s in the transaction chain", sel.Sel.Name)
		}
		cur = sel.X
	}
}

// plain finds the single `<client>.<verb>(ctx, key, opts…)` request of the method
func (c *c15eCtx) plain(verb string) string {
	var calls []*ast.CallExpr
	ast.Inspect(c.fd.Body, func(n ast.Node) bool {
		ce, ok := n.(*ast.CallExpr)
		if !ok {
			return true
		}
		sel, ok := ce.Fun.(*ast.SelectorExpr)
		if !ok || sel.Sel.Name != verb || len(ce.Args) < 2 {
			return true
		}
		if id, ok := ce.Args[0].(*ast.Ident); ok && id.Name == "ctx" {
			calls = append(calls, ce)
		}
		return true
	})
	if len(calls) != 1 {
		c.fail("expected exactly one .%s(ctx, …) request, found %d", verb, len(calls))
	}
	ce := calls[0]
	switch verb {
	case "Get":
		return fmt.Sprintf("Op.get %s %v", c.keyRef(ce.Args[1]), c.firstCreate(ce, ce.Args[2:]))
	case "Delete":
		if len(ce.Args) != 2 {
			c.fail("Delete with options")
		}
		return "Op.del " + c.keyRef(ce.Args[1])
	}
	c.fail("verb %s", verb)
	return ""
}

// respIndex: the literal i of the single `….Responses[i]` expression matching `suffix` when printed
func (c *c15eCtx) respIndex(contains string) int {
	found := -1
	n := 0
	ast.Inspect(c.fd.Body, func(nd ast.Node) bool {
		ix, ok := nd.(*ast.IndexExpr)
		if !ok {
			return true
		}
		sel, ok := ix.X.(*ast.SelectorExpr)
		if !ok || sel.Sel.Name != "Responses" {
			return true
		}
		bl, ok := ix.Index.(*ast.BasicLit)
		if !ok {
			c.fail("Responses index %s is not a literal", c15Print(c.fset, ix.Index))
		}
		v, _ := strconv.Atoi(bl.Value)
		found = v
		n++
		return true
	})
	if n != 1 {
		c.fail("expected exactly one Responses[i] (%s), found %d", contains, n)
	}
	return found
}

func genC15Etcd() {
	fset, f := parseFile("pkg/cluster/etcd_election.go")
	try := c15eNew(fset, f, "try")
	// e.key = fmt.Sprintf("%s%x", e.keyPrefix, e.sess.Lease())
	keyFmt := ""
	ast.Inspect(try.fd.Body, func(n ast.Node) bool {
		as, ok := n.(*ast.AssignStmt)
		if !ok || len(as.Lhs) != 1 || len(as.Rhs) != 1 {
			return true
		}
		if c15Print(fset, as.Lhs[0]) == try.recv+".key" {
			keyFmt = c15Print(fset, as.Rhs[0])
		}
		return true
	})
	wantFmt := fmt.Sprintf(`fmt.Sprintf("%%s%%x", %s.keyPrefix, %s.sess.Lease())`, try.recv, try.recv)
	facts["etcd_key_expr"] = keyFmt
	if keyFmt != wantFmt {
		try.fail("election key is %s, the model knows %s", keyFmt, wantFmt)
	}
	campaignTxn := try.txn()
	ownResp := try.respIndex("own key")

	camp := c15eNew(fset, f, "Campaign")
	loserDelete := camp.plain("Delete")
	ownerResp := camp.respIndex("owner")
	// the value `try` is called with
	ast.Inspect(camp.fd.Body, func(n ast.Node) bool {
		if ce, ok := n.(*ast.CallExpr); ok {
			if sel, ok := ce.Fun.(*ast.SelectorExpr); ok && sel.Sel.Name == "try" {
				var a []string
				for _, x := range ce.Args {
					a = append(a, c15Print(fset, x))
				}
				facts["etcd_try_args"] = a
			}
		}
		return true
	})

	res := c15eNew(fset, f, "Resign")
	resignTxn := res.txn()
	ren := c15eNew(fset, f, "Renew")
	renewGet := ren.plain("Get")
	led := c15eNew(fset, f, "Leader")
	leaderGet := led.plain("Get")

	// pkg/cluster/etcd_cluster.go NewEtcdCluster: the session and its TTL; NewElection's fields
	fset2, g := parseFile("pkg/cluster/etcd_cluster.go")
	ast.Inspect(g, func(n ast.Node) bool {
		switch x := n.(type) {
		case *ast.CallExpr:
			if c15eCallee(x) == "concurrency.NewSession" {
				var a []string
				for _, e := range x.Args {
					a = append(a, c15Print(fset2, e))
				}
				facts["etcd_session_args"] = a
			}
		case *ast.CompositeLit:
			if c15Print(fset2, x.Type) == "etcdElection" {
				var a []string
				for _, el := range x.Elts {
					a = append(a, c15Print(fset2, el))
				}
				facts["etcd_newelection_fields"] = a
			}
		}
		return true
	})
	// config/config.go: where the session TTL comes from
	fset3, h := parseFile("config/config.go")
	var ttlAssign []string
	ast.Inspect(h, func(n ast.Node) bool {
		as, ok := n.(*ast.AssignStmt)
		if !ok || len(as.Lhs) != 1 {
			return true
		}
		if strings.HasSuffix(c15Print(fset3, as.Lhs[0]), "MetaEtcd.Ttl") {
			ttlAssign = append(ttlAssign, c15Print(fset3, as))
		}
		return true
	})
	facts["etcd_ttl_assign"] = ttlAssign

	var sb strings.Builder
	sb.WriteString(header)
	sb.WriteString("import GunYu.Model.EtcdAst\nnamespace GunYu.Gen\nopen GunYu.Etcd\n\n")
	sb.WriteString("/-- `etcdElection.try`: `e.key = fmt.Sprintf(\"%s%x\", e.keyPrefix, e.sess.Lease())` -/\n")
	sb.WriteString("def etcdKeyIsPrefixHexLease : Bool := true\n\n")
	sb.WriteString("/-- `etcdElection.try`: `client.Txn(ctx).If(cmp).Then(put, getOwner).Else(get, getOwner).Commit()` -/\n")
	sb.WriteString("def etcdCampaignTxn : Txn :=\n  " + campaignTxn + "\n\n")
	sb.WriteString("/-- `etcdElection.Resign`: `client.Txn(ctx).If(cmp).Then(clientv3.OpDelete(e.key)).Commit()` -/\n")
	sb.WriteString("def etcdResignTxn : Txn :=\n  " + resignTxn + "\n\n")
	sb.WriteString("/-- `etcdElection.Renew`: `el.cli.Get(ctx, el.keyPrefix, clientv3.WithFirstCreate()...)` -/\n")
	sb.WriteString("def etcdRenewGet : Op := " + renewGet + "\n\n")
	sb.WriteString("/-- `etcdElection.Leader`: `e.cli.Get(ctx, e.keyPrefix, clientv3.WithFirstCreate()...)` -/\n")
	sb.WriteString("def etcdLeaderGet : Op := " + leaderGet + "\n\n")
	sb.WriteString("/-- `etcdElection.Campaign`, not the owner: `client.Delete(ctx, e.key)` -/\n")
	sb.WriteString("def etcdLoserDelete : Op := " + loserDelete + "\n\n")
	sb.WriteString("/-- `Campaign`: `resp.Responses[i].GetResponseRange().Kvs` is the owner -/\n")
	sb.WriteString(fmt.Sprintf("def etcdOwnerResp : Nat := %d\n\n", ownerResp))
	sb.WriteString("/-- `try`, compare failed: `resp.Responses[i].GetResponseRange().Kvs[0].CreateRevision` is the own key's -/\n")
	sb.WriteString(fmt.Sprintf("def etcdOwnResp : Nat := %d\n\n", ownResp))
	sb.WriteString("end GunYu.Gen\n")
	writeIfChanged(filepath.Join(*out, "EtcdElection.lean"), sb.String())
}
