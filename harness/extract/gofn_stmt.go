package main

// gofn: statements, loops, functions.
//
// A statement list is translated in continuation style into the lines of a Lean
// do-block over `Option`: assignment = `let x : T := …` (shadowing; one Lean
// name per Go variable), `if`/`switch` = `if … then … else …` (an alternative
// that always leaves - return/break/continue - does not receive the
// continuation; alternatives without any jump are JOINED on the tuple of
// variables they assign), a loop = an auxiliary structurally recursive
// definition on a fuel argument, taking the variables the loop assigns and
// returning those that outlive it (wrapped in GoSem.Ctl when the body returns).

import (
	"fmt"
	"go/ast"
	"go/constant"
	"go/token"
	"go/types"
	"strings"
)

type gfCtx struct {
	loop     *gfLoopCtx
	inSwitch bool
}

type gfLoopCtx struct {
	hasRet bool
	exit   func(b *gfBuf)
	cont   func(b *gfBuf)
}

// ---------------------------------------------------------------- analyses

func (f *gfFn) rootObj(e ast.Expr) types.Object {
	for {
		switch x := e.(type) {
		case *ast.ParenExpr:
			e = x.X
		case *ast.SelectorExpr:
			e = x.X
		case *ast.IndexExpr:
			e = x.X
		case *ast.SliceExpr:
			e = x.X
		case *ast.StarExpr:
			e = x.X
		case *ast.Ident:
			return f.objOf(x)
		default:
			return nil
		}
	}
}

// gfAssigned: local variables assigned (not merely declared) inside n
func gfAssigned(f *gfFn, n ast.Node) map[types.Object]bool {
	r := map[types.Object]bool{}
	lhs := func(e ast.Expr, define bool) {
		if id, ok := e.(*ast.Ident); ok {
			if id.Name == "_" {
				return
			}
			if define && f.pk.info.Defs[id] != nil {
				return // newly declared here
			}
		}
		if o := f.rootObj(e); o != nil && f.isLocal(o) {
			r[o] = true
		}
	}
	ast.Inspect(n, func(n ast.Node) bool {
		switch s := n.(type) {
		case *ast.AssignStmt:
			for _, l := range s.Lhs {
				lhs(l, s.Tok == token.DEFINE)
			}
		case *ast.IncDecStmt:
			lhs(s.X, false)
		case *ast.RangeStmt:
			if s.Key != nil {
				lhs(s.Key, s.Tok == token.DEFINE)
			}
			if s.Value != nil {
				lhs(s.Value, s.Tok == token.DEFINE)
			}
		}
		return true
	})
	return r
}

func (f *gfFn) usedLocals(n ast.Node) map[types.Object]bool {
	r := map[types.Object]bool{}
	ast.Inspect(n, func(n ast.Node) bool {
		if id, ok := n.(*ast.Ident); ok {
			if o := f.pk.info.Uses[id]; o != nil && f.isLocal(o) {
				r[o] = true
			}
		}
		return true
	})
	return r
}

func gfWithin(o types.Object, n ast.Node) bool { return o.Pos() >= n.Pos() && o.Pos() < n.End() }

func gfHas(n ast.Node, pred func(ast.Node) bool) bool {
	found := false
	ast.Inspect(n, func(n ast.Node) bool {
		if n == nil || found {
			return false
		}
		if _, ok := n.(*ast.FuncLit); ok {
			return false
		}
		if pred(n) {
			found = true
		}
		return !found
	})
	return found
}

func gfHasReturn(n ast.Node) bool {
	return gfHas(n, func(n ast.Node) bool { _, ok := n.(*ast.ReturnStmt); return ok })
}

func gfHasJump(n ast.Node) bool {
	return gfHas(n, func(n ast.Node) bool {
		switch n.(type) {
		case *ast.ReturnStmt, *ast.BranchStmt:
			return true
		}
		return false
	})
}

func gfHasLoop(stmts []ast.Stmt) bool {
	for _, s := range stmts {
		if gfHas(s, func(n ast.Node) bool {
			switch n.(type) {
			case *ast.ForStmt, *ast.RangeStmt:
				return true
			}
			return false
		}) {
			return true
		}
	}
	return false
}

// terminates: control never reaches the statement after the list
func gfTerminates(stmts []ast.Stmt) bool {
	if len(stmts) == 0 {
		return false
	}
	switch s := stmts[len(stmts)-1].(type) {
	case *ast.ReturnStmt:
		return true
	case *ast.BranchStmt:
		return s.Tok == token.BREAK || s.Tok == token.CONTINUE
	case *ast.ExprStmt:
		return gfIsPanic(s)
	case *ast.BlockStmt:
		return gfTerminates(s.List)
	case *ast.IfStmt:
		if s.Else == nil {
			return false
		}
		var el []ast.Stmt
		switch e := s.Else.(type) {
		case *ast.BlockStmt:
			el = e.List
		default:
			el = []ast.Stmt{e}
		}
		return gfTerminates(s.Body.List) && gfTerminates(el)
	case *ast.SwitchStmt:
		hasDefault := false
		for _, c := range s.Body.List {
			cc := c.(*ast.CaseClause)
			if cc.List == nil {
				hasDefault = true
			}
			if !gfTerminates(cc.Body) {
				return false
			}
		}
		return hasDefault
	}
	return false
}

// ---------------------------------------------------------------- statements

func (f *gfFn) retVal(vals []string) string {
	var xs []string
	if f.recvMut {
		xs = append(xs, f.nameOf(f.recv))
	}
	return gfTuple(append(xs, vals...))
}

func (f *gfFn) emitReturn(b *gfBuf, c *gfCtx, vals []string) {
	v := f.retVal(vals)
	if c.loop != nil {
		b.add("pure (GoSem.Ctl.ret %s)", v)
	} else {
		b.add("pure %s", v)
	}
}

// assign emits `lhs = value` for a local variable, `_`, or a field of the receiver
func (f *gfFn) assign(b *gfBuf, lhs ast.Expr, val string, vt *gfT) {
	switch l := lhs.(type) {
	case *ast.Ident:
		if l.Name == "_" {
			return
		}
		o := f.objOf(l)
		if o == nil || !f.isLocal(o) {
			die("%s: assignment to %s (not a local variable) outside the subset", f.at(lhs), l.Name)
		}
		t := f.varType(o)
		if vt != nil && !t.same(vt) {
			die("%s: assignment of %s to a variable of %s", f.at(lhs), vt.lean(), t.lean())
		}
		b.add("let %s : %s := %s", f.nameOf(o), t.lean(), val)
		return
	case *ast.SelectorExpr:
		if id, ok := l.X.(*ast.Ident); ok && (f.recv != nil && f.objOf(id) == f.recv || f.owned[f.objOf(id)]) {
			ro := f.objOf(id)
			sel := f.pk.info.Selections[l]
			if sel == nil || sel.Kind() != types.FieldVal || len(sel.Index()) != 1 {
				die("%s: assignment target outside the subset", f.at(lhs))
			}
			r := f.nameOf(ro)
			b.add("let %s : %s := { %s with %s := %s }", r, f.varType(ro).lean(), r, gfLeanIdent(l.Sel.Name), val)
			return
		}
	}
	die("%s: assignment to `%s` outside the subset (only local variables and fields of the receiver; writes through other pointers, to slice elements and to package-level variables are refused)", f.at(lhs), c15Print(f.pk.fset, lhs))
}

// valueFor translates e for a destination of type want (nil pointers / errors / slices by type)
func (f *gfFn) valueFor(b *gfBuf, e ast.Expr, want *gfT) string {
	if id, ok := e.(*ast.Ident); ok {
		if _, isNil := f.objOf(id).(*types.Nil); isNil {
			if want == nil {
				die("%s: nil of undetermined type", f.at(e))
			}
			switch want.k {
			case kErr:
				return "false"
			case kPtr:
				return "none"
			case kBytes, kSlice:
				return "[]"
			}
			die("%s: nil of this type outside the subset", f.at(e))
		}
	}
	if id, ok := e.(*ast.Ident); ok && want != nil && want.k == kPtr {
		if o := f.objOf(id); o != nil && f.owned[o] && f.override[o] != nil && f.override[o].same(want.elem) {
			return "(some " + f.nameOf(o) + ")"
		}
	}
	if want != nil && want.k == kBool {
		if v := f.constOf(e); v != nil {
			return gfConst(v, want, f.at(e))
		}
	}
	c := f.expr(b, e)
	if want != nil {
		if t := f.typeOf(e); !t.same(want) {
			die("%s: value of %s where %s is expected", f.at(e), t.lean(), want.lean())
		}
	}
	return c
}

func (f *gfFn) lhsType(e ast.Expr) *gfT {
	if id, ok := e.(*ast.Ident); ok {
		if id.Name == "_" {
			return nil
		}
		if o := f.objOf(id); o != nil {
			return f.varType(o)
		}
	}
	return f.typeOf(e)
}

func (f *gfFn) simple(b *gfBuf, s ast.Stmt) {
	switch x := s.(type) {
	case *ast.EmptyStmt:
	case *ast.IncDecStmt:
		t := f.typeOf(x.X)
		one := gfConst(constant.MakeInt64(1), t, f.at(s))
		op := token.ADD
		if x.Tok == token.DEC {
			op = token.SUB
		}
		f.assign(b, x.X, f.arith(op, t, f.expr(b, x.X), one, s), t)
	case *ast.DeclStmt:
		gd, ok := x.Decl.(*ast.GenDecl)
		if !ok || gd.Tok != token.VAR {
			die("%s: local declaration outside the subset", f.at(s))
		}
		for _, sp := range gd.Specs {
			vs := sp.(*ast.ValueSpec)
			if len(vs.Values) != 0 && len(vs.Values) != len(vs.Names) {
				die("%s: var with a multi-valued initialiser outside the subset", f.at(s))
			}
			for i, n := range vs.Names {
				t := f.lhsType(n)
				if len(vs.Values) == 0 {
					f.assign(b, n, t.zero(), t)
				} else {
					f.assign(b, n, f.valueFor(b, vs.Values[i], t), t)
				}
			}
		}
	case *ast.AssignStmt:
		switch {
		case x.Tok == token.ASSIGN || x.Tok == token.DEFINE:
			if len(x.Lhs) == 2 && len(x.Rhs) == 1 {
				f.commaOk(b, x)
				return
			}
			if len(x.Lhs) != 1 || len(x.Rhs) != 1 {
				die("%s: parallel assignment outside the subset", f.at(s))
			}
			// x := <call typed by the translator> (the Go type checker could not type it: unloaded package)
			if id, ok := x.Lhs[0].(*ast.Ident); ok && x.Tok == token.DEFINE && id.Name != "_" {
				if o := f.pk.info.Defs[id]; o != nil && (o.Type() == nil || o.Type() == types.Typ[types.Invalid]) {
					f.override[o] = f.typeOf(x.Rhs[0])
				}
			}
			if id, ok := x.Lhs[0].(*ast.Ident); ok && x.Tok == token.DEFINE && id.Name != "_" {
				// session 5: `p := &T{…}` / `p := new(T)` with p the only holder of the pointer (gofn_s5.go ownedPtr):
				// p is the struct itself from here on
				if o := f.pk.info.Defs[id]; o != nil && f.ownedPtr(o) {
					pt := gfTypeOf(o.Type(), "variable "+o.Name())
					if pt.k != kPtr {
						die("%s: internal: owned pointer type", f.at(s))
					}
					val := pt.elem.zero()
					if u, isU := x.Rhs[0].(*ast.UnaryExpr); isU {
						val = f.composite(b, u.X.(*ast.CompositeLit))
					}
					f.override[o] = pt.elem
					f.notes["ownedptr"] = true
					f.assign(b, x.Lhs[0], val, pt.elem)
					return
				}
			}
			t := f.lhsType(x.Lhs[0])
			f.assign(b, x.Lhs[0], f.valueFor(b, x.Rhs[0], t), t)
		default: // op=
			ops := map[token.Token]token.Token{token.ADD_ASSIGN: token.ADD, token.SUB_ASSIGN: token.SUB, token.MUL_ASSIGN: token.MUL,
				token.AND_ASSIGN: token.AND, token.OR_ASSIGN: token.OR, token.XOR_ASSIGN: token.XOR}
			op, ok := ops[x.Tok]
			if !ok || len(x.Lhs) != 1 {
				die("%s: assignment operator %s outside the subset", f.at(s), x.Tok)
			}
			t := f.lhsType(x.Lhs[0])
			f.assign(b, x.Lhs[0], f.arith(op, t, f.expr(b, x.Lhs[0]), f.valueFor(b, x.Rhs[0], t), s), t)
		}
	default:
		die("%s: statement `%s` outside the subset", f.at(s), c15Print(f.pk.fset, s))
	}
}

// v, ok := m[k] on a package-level map literal; a, b := translatedFn(…)
func (f *gfFn) commaOk(b *gfBuf, x *ast.AssignStmt) {
	if ix, ok := x.Rhs[0].(*ast.IndexExpr); ok {
		if id, ok := ix.X.(*ast.Ident); ok {
			if v, ok := f.objOf(id).(*types.Var); ok && v.Parent() == f.pk.pkg.Scope() {
				if mt, ok := types.Unalias(v.Type()).Underlying().(*types.Map); ok {
					f.readOnlyGlobal(v)
					name := f.t.globalMap(f, v, mt)
					vt := gfTypeOf(mt.Elem(), "map value")
					tm := f.tmp()
					b.add("let %s := GoSem.mapLookup %s %s", tm, name, f.expr(b, ix.Index))
					f.assign(b, x.Lhs[0], fmt.Sprintf("%s.getD %s", tm, vt.zero()), vt)
					f.assign(b, x.Lhs[1], tm+".isSome", &gfT{k: kBool})
					return
				}
			}
		}
	}
	if c, ok := x.Rhs[0].(*ast.CallExpr); ok {
		if f.commaOkS5(b, x, c) {
			return
		}
		if cal := f.callee(c); cal != nil && len(cal.results) == 2 {
			var args []string
			for _, a := range c.Args {
				args = append(args, f.expr(b, a))
			}
			t1, t2 := f.tmp(), f.tmp()
			b.add("let (%s, %s) ← %s %s", t1, t2, cal.lean, strings.Join(args, " "))
			f.assign(b, x.Lhs[0], t1, cal.results[0])
			f.assign(b, x.Lhs[1], t2, cal.results[1])
			return
		}
	}
	die("%s: two-valued assignment outside the subset", f.at(x))
}

// insertIdiom recognises  s = append(s, zero); copy(s[i+1:], s[i:]); s[i] = v
func (f *gfFn) insertIdiom(b *gfBuf, st []ast.Stmt) bool {
	if len(st) < 3 {
		return false
	}
	p := func(n ast.Node) string { return c15Print(f.pk.fset, n) }
	a1, ok := st[0].(*ast.AssignStmt)
	if !ok || a1.Tok != token.ASSIGN || len(a1.Lhs) != 1 || len(a1.Rhs) != 1 {
		return false
	}
	ap, ok := a1.Rhs[0].(*ast.CallExpr)
	if !ok || !f.builtin(ap, "append") || len(ap.Args) != 2 || ap.Ellipsis.IsValid() {
		return false
	}
	s := p(a1.Lhs[0])
	if p(ap.Args[0]) != s {
		return false
	}
	es, ok := st[1].(*ast.ExprStmt)
	if !ok {
		return false
	}
	cp, ok := es.X.(*ast.CallExpr)
	if !ok || !f.builtin(cp, "copy") || len(cp.Args) != 2 {
		return false
	}
	d, ok1 := cp.Args[0].(*ast.SliceExpr)
	sr, ok2 := cp.Args[1].(*ast.SliceExpr)
	if !ok1 || !ok2 || d.High != nil || sr.High != nil || d.Low == nil || sr.Low == nil || p(d.X) != s || p(sr.X) != s {
		return false
	}
	iid, ok := sr.Low.(*ast.Ident)
	if !ok {
		return false
	}
	i := iid.Name
	if strings.ReplaceAll(p(d.Low), " ", "") != i+"+1" {
		return false
	}
	a3, ok := st[2].(*ast.AssignStmt)
	if !ok || a3.Tok != token.ASSIGN || len(a3.Lhs) != 1 || len(a3.Rhs) != 1 {
		return false
	}
	ix, ok := a3.Lhs[0].(*ast.IndexExpr)
	if !ok || p(ix.X) != s || p(ix.Index) != i {
		return false
	}
	st0 := f.typeOf(a1.Lhs[0])
	if st0.k != kSlice && st0.k != kBytes {
		return false
	}
	// the appended placeholder must be a value without effect (nil / constant)
	if id, ok := ap.Args[1].(*ast.Ident); !(ok && id.Name == "nil") && f.constOf(ap.Args[1]) == nil {
		return false
	}
	if f.typeOf(iid).k != kInt {
		return false
	}
	et := &gfT{k: kU8}
	if st0.k == kSlice {
		et = st0.elem
	}
	// value semantics of slices are sound only while no second variable holds the same backing array:
	// every other occurrence of the slice operand in the function must be a read through index / len /
	// range-source; a copy (`old := s`, `x = s[a:b]`, passing or returning s) would observe the in-place shift
	inIdiom := func(n ast.Node) bool { return n.Pos() >= st[0].Pos() && n.End() <= st[2].End() }
	par := f.pk.parents()
	ast.Inspect(f.decl.Body, func(n ast.Node) bool {
		e, ok := n.(ast.Expr)
		if !ok || inIdiom(n) {
			return true
		}
		switch e.(type) {
		case *ast.Ident, *ast.SelectorExpr:
		default:
			return true
		}
		if p(e) != s {
			return true
		}
		var child ast.Node = e
		q := par[child]
		for {
			pe, isP := q.(*ast.ParenExpr)
			if !isP {
				break
			}
			child, q = pe, par[pe]
		}
		okUse := false
		switch y := q.(type) {
		case *ast.IndexExpr:
			okUse = y.X == child
		case *ast.RangeStmt:
			okUse = y.X == child
		case *ast.CallExpr:
			okUse = f.builtin(y, "len")
		case *ast.SelectorExpr:
			okUse = y.Sel == child // the field name inside s itself (rl.list: `list`)
		}
		if !okUse {
			die("%s: the slice `%s` of the insert idiom is also copied / sliced / passed at %s: a second holder of the backing array would see the in-place shift - outside the subset", f.at(st[0]), s, f.pk.pos(e))
		}
		return true
	})
	v := f.valueFor(b, a3.Rhs[0], et)
	tm := f.tmp()
	b.add("let %s ← GoSem.insertAt %s %s %s", tm, f.expr(b, a1.Lhs[0]), f.expr(b, iid), v)
	f.assign(b, a1.Lhs[0], tm, st0)
	f.notes["insertat"] = true
	return true
}

type gfAlt struct {
	cond func(b *gfBuf) string // nil: else / default
	body []ast.Stmt
}

func (f *gfFn) seq(b *gfBuf, stmts []ast.Stmt, c *gfCtx, k func()) {
	if len(stmts) == 0 {
		k()
		return
	}
	if f.insertIdiom(b, stmts) {
		f.seq(b, stmts[3:], c, k)
		return
	}
	s, rest := stmts[0], stmts[1:]
	next := func() { f.seq(b, rest, c, k) }
	switch x := s.(type) {
	case *ast.ReturnStmt:
		if len(rest) != 0 {
			die("%s: statements after return", f.at(s))
		}
		if len(x.Results) != len(f.results) {
			die("%s: bare return / call-valued return with named or multiple results outside the subset", f.at(s))
		}
		var vals []string
		for i, r := range x.Results {
			vals = append(vals, f.valueFor(b, r, f.results[i]))
		}
		f.emitReturn(b, c, vals)
	case *ast.BranchStmt:
		if x.Label != nil || c.loop == nil {
			die("%s: labelled jump / jump outside a loop outside the subset", f.at(s))
		}
		if len(rest) != 0 {
			die("%s: statements after %s", f.at(s), x.Tok)
		}
		switch x.Tok {
		case token.BREAK:
			if c.inSwitch {
				die("%s: break inside a switch clause outside the subset", f.at(s))
			}
			c.loop.exit(b)
		case token.CONTINUE:
			c.loop.cont(b)
		default:
			die("%s: %s outside the subset", f.at(s), x.Tok)
		}
	case *ast.BlockStmt:
		f.seq(b, x.List, c, next)
	case *ast.IfStmt:
		if x.Init != nil {
			f.simple(b, x.Init)
		}
		alts := []gfAlt{{cond: func(b *gfBuf) string { return f.cond(b, x.Cond) }, body: x.Body.List}}
		for el := x.Else; el != nil; {
			switch e := el.(type) {
			case *ast.BlockStmt:
				alts = append(alts, gfAlt{body: e.List})
				el = nil
			case *ast.IfStmt:
				if e.Init != nil {
					die("%s: else-if with an init statement outside the subset", f.at(e))
				}
				e2 := e
				alts = append(alts, gfAlt{cond: func(b *gfBuf) string { return f.cond(b, e2.Cond) }, body: e.Body.List})
				el = e.Else
			default:
				die("%s: else form", f.at(s))
			}
		}
		f.alts(b, x, alts, rest, c, k)
	case *ast.SwitchStmt:
		f.switchStmt(b, x, rest, c, k)
	case *ast.ForStmt, *ast.RangeStmt:
		f.loop(b, s, c, next)
	default:
		if f.isPanicStmt(s) {
			// panic(v): v is evaluated (a panicking argument is a panic too), then the function ends without a
			// value; the statements after it are dead code
			for _, a := range s.(*ast.ExprStmt).X.(*ast.CallExpr).Args {
				if sel, ok := a.(*ast.SelectorExpr); ok {
					if id, ok := sel.X.(*ast.Ident); ok && f.pkgOf(id) != "" {
						continue // a package-level value of another package (io.EOF): a read without effect
					}
				}
				if f.constOf(a) == nil {
					f.expr(b, a)
				}
			}
			b.add("none")
			return
		}
		f.simple(b, s)
		next()
	}
}

func (f *gfFn) switchStmt(b *gfBuf, x *ast.SwitchStmt, rest []ast.Stmt, c *gfCtx, k func()) {
	if x.Init != nil {
		f.simple(b, x.Init)
	}
	tag := ""
	var tagT *gfT
	if x.Tag != nil {
		tagT = f.typeOf(x.Tag)
		switch tagT.k {
		case kInt, kBV, kU8, kBytes:
		default:
			die("%s: switch on this type outside the subset", f.at(x))
		}
		tag = f.expr(b, x.Tag)
		if _, isId := x.Tag.(*ast.Ident); !isId {
			tm := f.tmp()
			b.add("let %s : %s := %s", tm, tagT.lean(), tag)
			tag = tm
		}
	}
	var alts []gfAlt
	var def *gfAlt
	for _, cl := range x.Body.List {
		cc := cl.(*ast.CaseClause)
		if gfHas(cc, func(n ast.Node) bool { bs, ok := n.(*ast.BranchStmt); return ok && bs.Tok == token.FALLTHROUGH }) {
			die("%s: fallthrough outside the subset", f.at(cc))
		}
		if cc.List == nil {
			def = &gfAlt{body: cc.Body}
			continue
		}
		cc2 := cc
		alts = append(alts, gfAlt{body: cc.Body, cond: func(b *gfBuf) string {
			var ds []string
			for _, e := range cc2.List {
				if tag == "" {
					ds = append(ds, f.cond(b, e))
					continue
				}
				// case values must be constants: their order of evaluation and the position of `default` cannot matter
				v := f.constOf(e)
				if v == nil {
					die("%s: non-constant case value outside the subset", f.at(e))
				}
				ds = append(ds, fmt.Sprintf("%s = %s", tag, gfConst(v, tagT, f.at(e))))
			}
			if len(ds) == 1 {
				return "(" + ds[0] + ")"
			}
			return "(" + strings.Join(ds, " ∨ ") + ")"
		}})
	}
	if tag == "" && def != nil && x.Body.List[len(x.Body.List)-1].(*ast.CaseClause).List != nil {
		die("%s: tagless switch with default before a case outside the subset", f.at(x))
	}
	if def != nil {
		alts = append(alts, *def)
	}
	if len(alts) == 0 {
		f.seq(b, rest, c, k)
		return
	}
	c2 := *c
	c2.inSwitch = true
	f.alts(b, x, alts, rest, &c2, k)
}

// alts: if / else-if / else chains and switches
func (f *gfFn) alts(b *gfBuf, at ast.Stmt, alts []gfAlt, rest []ast.Stmt, c *gfCtx, k func()) {
	if alts[len(alts)-1].cond != nil {
		alts = append(alts, gfAlt{}) // implicit empty else
	}
	jump, fallers := false, 0
	for _, a := range alts {
		for _, s := range a.body {
			if gfHasJump(s) {
				jump = true
			}
		}
		if !gfTerminates(a.body) {
			fallers++
		}
	}
	// the continuation handed to the alternatives that fall through
	var kk func()
	cIn := c
	if !jump {
		// pure data flow: JOIN on the variables assigned in any alternative
		set := map[types.Object]bool{}
		for _, a := range alts {
			for _, s := range a.body {
				for o := range gfAssigned(f, s) {
					if !gfWithin(o, at) {
						set[o] = true
					}
				}
			}
		}
		objs := gfSortObjs(set)
		var names []string
		for _, o := range objs {
			names = append(names, f.nameOf(o))
		}
		pat := gfTuple(names)
		b.add("let %s ←", pat)
		b.ind++
		kk = func() { b.add("pure %s", pat) }
		// inside a join there is no jump, so the context is irrelevant
		f.emitAlts(b, alts, cIn, kk, true)
		b.ind--
		f.seq(b, rest, c, k)
		return
	}
	calls := 0
	kk = func() {
		calls++
		before := f.nloop
		f.seq(b, rest, c, k)
		if calls > 1 && f.nloop != before {
			die("%s: a conditional jump followed by a loop (the continuation would be duplicated) is outside the subset", f.at(at))
		}
	}
	if fallers > 1 && gfHasLoop(rest) {
		die("%s: a conditional jump followed by a loop (the continuation would be duplicated) is outside the subset", f.at(at))
	}
	f.emitAlts(b, alts, cIn, kk, false)
}

func (f *gfFn) emitAlts(b *gfBuf, alts []gfAlt, c *gfCtx, kk func(), join bool) {
	a := alts[0]
	do := ""
	if join {
		do = " do"
	}
	if a.cond == nil {
		f.seq(b, a.body, c, kk)
		return
	}
	cond := a.cond(b)
	b.add("if %s then%s", cond, do)
	b.nest(func() { f.seq(b, a.body, c, kk) })
	b.add("else%s", do)
	b.nest(func() { f.emitAlts(b, alts[1:], c, kk, join) })
}

// ---------------------------------------------------------------- loops

func (f *gfFn) loop(b *gfBuf, s ast.Stmt, c *gfCtx, next func()) {
	f.nloop++
	// loops are numbered in source order; an inner loop's definition precedes its outer loop's
	name := fmt.Sprintf("%s_loop%d", f.leanName, f.nloop)
	var body *ast.BlockStmt
	var condF func(b *gfBuf) string
	var postF func(b *gfBuf)
	var bodyPre func(b *gfBuf)
	fuel := ""
	var counter types.Object
	counterName := ""

	switch x := s.(type) {
	case *ast.ForStmt:
		body = x.Body
		if x.Init != nil {
			f.simple(b, x.Init)
		}
		if x.Cond == nil {
			die("%s: loop without a condition outside the subset", f.at(s))
		}
		cmp, ok := x.Cond.(*ast.BinaryExpr)
		if !ok {
			die("%s: loop condition must be a comparison of the counter with a bound", f.at(s))
		}
		cid, ok := cmp.X.(*ast.Ident)
		if !ok || f.objOf(cid) == nil || !f.isLocal(f.objOf(cid)) || f.varType(f.objOf(cid)).k != kInt {
			die("%s: loop condition must compare an int counter variable (left) with a bound (right)", f.at(s))
		}
		counter = f.objOf(cid)
		step := 0
		switch p := x.Post.(type) {
		case *ast.IncDecStmt:
			if id, ok := p.X.(*ast.Ident); ok && f.objOf(id) == counter {
				step = 1
				if p.Tok == token.DEC {
					step = -1
				}
			}
		case *ast.AssignStmt:
			if len(p.Lhs) == 1 && len(p.Rhs) == 1 {
				if id, ok := p.Lhs[0].(*ast.Ident); ok && f.objOf(id) == counter {
					if v := f.constOf(p.Rhs[0]); v != nil {
						if n, ok := constant.Int64Val(constant.ToInt(v)); ok && n > 0 {
							switch p.Tok {
							case token.ADD_ASSIGN:
								step = 1
							case token.SUB_ASSIGN:
								step = -1
							}
						}
					}
					// i = i + c | i = c + i | i = i - c
					if be, ok := p.Rhs[0].(*ast.BinaryExpr); ok && p.Tok == token.ASSIGN {
						isCtr := func(e ast.Expr) bool { cid, ok := e.(*ast.Ident); return ok && f.objOf(cid) == counter }
						posConst := func(e ast.Expr) bool {
							if v := f.constOf(e); v != nil {
								n, ok := constant.Int64Val(constant.ToInt(v))
								return ok && n > 0
							}
							return false
						}
						switch {
						case be.Op == token.ADD && (isCtr(be.X) && posConst(be.Y) || isCtr(be.Y) && posConst(be.X)):
							step = 1
						case be.Op == token.SUB && isCtr(be.X) && posConst(be.Y):
							step = -1
						}
					}
				}
			}
		}
		if step == 0 {
			die("%s: loop post statement must step the counter of the condition by a positive constant", f.at(s))
		}
		if len(gfAssigned(f, &ast.ExprStmt{X: cmp.Y})) != 0 {
			die("%s: loop bound with an effect", f.at(s))
		}
		// fuel: evaluated at loop entry; enough for every run in which the body never moves the counter
		// against the step; if it is ever too small the result is `none` (never a wrong value)
		fb := &gfBuf{}
		bound := f.toInt(fb, cmp.Y)
		if len(fb.lines) != 0 {
			die("%s: loop bound that can panic outside the subset", f.at(s))
		}
		cn := f.nameOf(counter)
		switch {
		case step > 0 && cmp.Op == token.LSS:
			fuel = fmt.Sprintf("((%s - %s).toNat + 1)", bound, cn)
		case step > 0 && cmp.Op == token.LEQ:
			fuel = fmt.Sprintf("((%s - %s).toNat + 2)", bound, cn)
		case step < 0 && cmp.Op == token.GTR:
			fuel = fmt.Sprintf("((%s - %s).toNat + 1)", cn, bound)
		case step < 0 && cmp.Op == token.GEQ:
			fuel = fmt.Sprintf("((%s - %s).toNat + 2)", cn, bound)
		default:
			die("%s: loop condition %s with this step outside the subset", f.at(s), cmp.Op)
		}
		condF = func(b *gfBuf) string { return f.cond(b, x.Cond) }
		postF = func(b *gfBuf) { f.simple(b, x.Post) }
	case *ast.RangeStmt:
		body = x.Body
		xt := f.typeOf(x.X)
		if xt.k != kBytes && xt.k != kSlice {
			die("%s: range over this type outside the subset", f.at(s))
		}
		if x.Tok != token.DEFINE && (x.Key != nil || x.Value != nil) {
			die("%s: range assigning to existing variables outside the subset", f.at(s))
		}
		ro := f.rootObj(x.X)
		if ro == nil || !f.isLocal(ro) {
			die("%s: range expression must be a local variable or a field path of one", f.at(s))
		}
		if gfAssigned(f, x.Body)[ro] {
			die("%s: the ranged-over variable is assigned in the loop body", f.at(s))
		}
		// Go re-assigns key and value from a hidden counter at the start of every iteration; the
		// translation makes the key the counter itself, which is the same only if the body leaves both alone
		for _, kv := range []ast.Expr{x.Key, x.Value} {
			if id, ok := kv.(*ast.Ident); ok && id.Name != "_" {
				if o := f.pk.info.Defs[id]; o != nil && gfAssigned(f, x.Body)[o] {
					die("%s: the range variable %s is assigned in the loop body (Go resets it each iteration) - outside the subset", f.at(s), id.Name)
				}
			}
		}
		isString := false
		if bt, ok := types.Unalias(f.pk.info.Types[x.X].Type).Underlying().(*types.Basic); ok && bt.Info()&types.IsString != 0 {
			isString = true
		}
		var vobj types.Object
		if id, ok := x.Value.(*ast.Ident); ok && id.Name != "_" {
			vobj = f.pk.info.Defs[id]
		}
		if isString {
			// rune iteration translated as byte iteration: only under the ASCII condition
			if vobj == nil {
				die("%s: range over a string without using the value (the index then visits rune starts only) is outside the subset", f.at(s))
			}
			f.checkAsciiRange(x, vobj)
			f.override[vobj] = &gfT{k: kU8}
			if f.ascii == nil {
				f.ascii = map[types.Object]bool{}
			}
			f.ascii[vobj] = true
			f.notes["asciirange"] = true
		}
		if id, ok := x.Key.(*ast.Ident); ok && id.Name != "_" {
			counter = f.pk.info.Defs[id]
			counterName = f.nameOf(counter)
		} else {
			counterName = fmt.Sprintf("idx%d", f.nloop)
			for f.used[counterName] {
				counterName += "_"
			}
			f.used[counterName] = true
		}
		fb := &gfBuf{}
		seqX := f.expr(fb, x.X)
		if len(fb.lines) != 0 {
			die("%s: range expression that can panic outside the subset", f.at(s))
		}
		b.add("let %s : Int := (0 : Int)", counterName)
		fuel = fmt.Sprintf("((GoSem.len %s).toNat + 1)", seqX)
		condF = func(b *gfBuf) string { return fmt.Sprintf("(%s < GoSem.len %s)", counterName, seqX) }
		postF = func(b *gfBuf) { b.add("let %s : Int := (GoSem.addI %s (1 : Int))", counterName, counterName) }
		if vobj != nil {
			bodyPre = func(b *gfBuf) {
				b.add("let %s ← GoSem.index %s %s", f.nameOf(vobj), seqX, counterName)
			}
		}
	}

	// state: local variables assigned in the loop (declared outside its body) + the range counter;
	// returned: those declared outside the whole loop statement
	asg := gfAssigned(f, s)
	for o := range asg {
		if gfWithin(o, body) {
			delete(asg, o)
		}
	}
	if counter != nil {
		asg[counter] = true
	}
	stObjs := gfSortObjs(asg)
	type sv struct{ name, typ string }
	var state, outs []sv
	var outT []*gfT
	for _, o := range stObjs {
		v := sv{f.nameOf(o), f.varType(o).lean()}
		state = append(state, v)
		if !gfWithin(o, s) {
			outs = append(outs, v)
			outT = append(outT, f.varType(o))
		}
	}
	if counter == nil && counterName != "" {
		state = append(state, sv{counterName, "Int"})
	}
	used := f.usedLocals(s)
	var free []sv
	for _, o := range gfSortObjs(used) {
		if !asg[o] && !gfWithin(o, s) {
			free = append(free, sv{f.nameOf(o), f.varType(o).lean()})
		}
	}
	hasRet := gfHasReturn(body)
	var outNames []string
	for _, v := range outs {
		outNames = append(outNames, v.name)
	}
	outTuple := gfTuple(outNames)
	resT := gfTupleT(outT)
	if hasRet {
		rt := f.retType()
		resT = fmt.Sprintf("GoSem.Ctl %s %s", parenIf(gfTupleT(outT)), parenIf(rt))
	}

	// ---- the definition
	d := &gfBuf{ind: 2}
	var stNames, freeSig, freeArgs, stTypes, wild []string
	for _, v := range state {
		stNames = append(stNames, v.name)
		stTypes = append(stTypes, parenIf(v.typ))
		wild = append(wild, "_")
	}
	for _, v := range free {
		freeSig = append(freeSig, fmt.Sprintf("(%s : %s)", v.name, v.typ))
		freeArgs = append(freeArgs, v.name)
	}
	exit := func(b *gfBuf) {
		if hasRet {
			b.add("pure (GoSem.Ctl.next %s)", outTuple)
		} else {
			b.add("pure %s", outTuple)
		}
	}
	recurse := func(b *gfBuf) {
		postF(b)
		b.add("%s", strings.TrimSpace(fmt.Sprintf("%s %s fuel %s", name, strings.Join(freeArgs, " "), strings.Join(stNames, " "))))
	}
	lc := &gfCtx{loop: &gfLoopCtx{hasRet: hasRet, exit: exit, cont: recurse}}
	cond := condF(d)
	d.add("if %s then", cond)
	d.nest(func() {
		if bodyPre != nil {
			bodyPre(d)
		}
		f.seq(d, body.List, lc, func() { recurse(d) })
	})
	d.add("else")
	d.nest(func() { exit(d) })
	var sb strings.Builder
	fmt.Fprintf(&sb, "/-- loop at %s -/\n", f.pk.pos(s))
	fmt.Fprintf(&sb, "def %s %s: Nat → %s → Option %s\n", name, joinSp(freeSig), strings.Join(stTypes, " → "), parenIf(resT))
	fmt.Fprintf(&sb, "  | 0, %s => none\n", strings.Join(wild, ", "))
	fmt.Fprintf(&sb, "  | fuel + 1, %s => do\n", strings.Join(stNames, ", "))
	sb.WriteString(strings.Join(d.lines, "\n") + "\n")
	f.defs = append(f.defs, sb.String())

	// ---- the call
	call := strings.TrimSpace(fmt.Sprintf("%s %s %s %s", name, strings.Join(freeArgs, " "), fuel, strings.Join(stNames, " ")))
	if !hasRet {
		b.add("let %s ← %s", outTuple, call)
		next()
		return
	}
	b.add("match (← %s) with", call)
	if c.loop != nil {
		b.add("| GoSem.Ctl.ret ret_ => pure (GoSem.Ctl.ret ret_)")
	} else {
		b.add("| GoSem.Ctl.ret ret_ => pure ret_")
	}
	b.add("| GoSem.Ctl.next %s =>", outTuple)
	b.nest(next)
}

func parenIf(s string) string {
	if strings.ContainsAny(s, " ×") && !(strings.HasPrefix(s, "(") && strings.HasSuffix(s, ")")) {
		return "(" + s + ")"
	}
	return s
}

func joinSp(xs []string) string {
	if len(xs) == 0 {
		return ""
	}
	return strings.Join(xs, " ") + " "
}

func (f *gfFn) retType() string {
	var ts []*gfT
	if f.recvMut {
		ts = append(ts, f.varType(f.recv))
	}
	return gfTupleT(append(ts, f.results...))
}

// checkAsciiRange: `for i, v := range str` may be read as byte iteration only if
// the body is a single `if` without else whose condition is a disjunction of
// `v == <ASCII constant>` (possibly conjoined with other conditions not
// mentioning v) and v occurs nowhere else. Then (a) every ASCII byte of a Go
// string starts a rune of that value (bytes consumed as continuation bytes, and
// the rune decoded from a non-ASCII or invalid lead byte - up to U+FFFD - are
// >= 0x80), so the rune loop visits every index where the guard can hold with the
// same i and v; (b) at every other byte index the guard is false in the byte loop
// and the body does nothing.
func (f *gfFn) checkAsciiRange(x *ast.RangeStmt, v types.Object) {
	if len(x.Body.List) != 1 {
		die("%s: body of a string range must be a single if statement comparing the value with ASCII constants", f.at(x))
	}
	is, ok := x.Body.List[0].(*ast.IfStmt)
	if !ok || is.Else != nil || is.Init != nil {
		die("%s: body of a string range must be a single if statement (no else) comparing the value with ASCII constants", f.at(x))
	}
	uses := func(n ast.Node) int {
		c := 0
		ast.Inspect(n, func(n ast.Node) bool {
			if id, ok := n.(*ast.Ident); ok && f.pk.info.Uses[id] == v {
				c++
			}
			return true
		})
		return c
	}
	var guard func(e ast.Expr) (isGuard bool, nuses int)
	guard = func(e ast.Expr) (bool, int) {
		switch g := e.(type) {
		case *ast.ParenExpr:
			return guard(g.X)
		case *ast.BinaryExpr:
			switch g.Op {
			case token.EQL:
				for _, pr := range [][2]ast.Expr{{g.X, g.Y}, {g.Y, g.X}} {
					if id, ok := pr[0].(*ast.Ident); ok && f.pk.info.Uses[id] == v {
						if cv := f.constOf(pr[1]); cv != nil {
							if n, ok := constant.Int64Val(constant.ToInt(cv)); ok && n >= 0 && n <= 127 {
								return true, 1
							}
						}
					}
				}
			case token.LOR:
				a, na := guard(g.X)
				b, nb := guard(g.Y)
				return a && b, na + nb
			case token.LAND:
				a, na := guard(g.X)
				b, nb := guard(g.Y)
				return a || b, na + nb
			}
		}
		return false, 0
	}
	g, n := guard(is.Cond)
	if !g || n != uses(x.Body) {
		die("%s: the value of a string range is used other than in `== <ASCII constant>` guards of the single if statement: byte iteration would not be equivalent to rune iteration", f.at(x))
	}
}

// ---------------------------------------------------------------- functions

func (f *gfFn) translate() string {
	obj := f.pk.info.Defs[f.decl.Name].(*types.Func)
	sig := obj.Type().(*types.Signature)
	if sig.Variadic() || sig.TypeParams() != nil {
		die("%s: variadic / generic function outside the subset", f.leanName)
	}
	var params []string
	if f.decl.Recv != nil {
		if len(f.decl.Recv.List) != 1 || len(f.decl.Recv.List[0].Names) != 1 {
			die("%s: receiver form", f.leanName)
		}
		f.recv = f.pk.info.Defs[f.decl.Recv.List[0].Names[0]]
		rt := gfTypeOf(f.recv.Type(), "receiver")
		if rt.k == kPtr {
			rt = rt.elem // the receiver is the struct itself: non-nil receiver (stated in the header)
			f.notes["recv"] = true
		}
		if rt.k != kStruct {
			die("%s: receiver type outside the subset", f.leanName)
		}
		f.override[f.recv] = rt
		f.recvMut = gfAssigned(f, f.decl.Body)[f.recv]
		if f.recvMut && gfTypeOf(f.recv.Type(), "receiver").k != kPtr {
			die("%s: assignment to a value receiver outside the subset", f.leanName)
		}
		params = append(params, fmt.Sprintf("(%s : %s)", f.nameOf(f.recv), rt.lean()))
	}
	for i := 0; i < sig.Params().Len(); i++ {
		p := sig.Params().At(i)
		if p.Name() == "" || p.Name() == "_" {
			die("%s: unnamed parameter outside the subset", f.leanName)
		}
		params = append(params, fmt.Sprintf("(%s : %s)", f.nameOf(p), gfTypeOf(p.Type(), "parameter "+p.Name()).lean()))
	}
	for i := 0; i < sig.Results().Len(); i++ {
		r := sig.Results().At(i)
		if r.Name() != "" {
			die("%s: named results outside the subset", f.leanName)
		}
		f.results = append(f.results, gfTypeOf(r.Type(), "result"))
	}
	if gfHas(f.decl.Body, func(n ast.Node) bool {
		switch n.(type) {
		case *ast.GoStmt, *ast.DeferStmt, *ast.SelectStmt, *ast.SendStmt, *ast.LabeledStmt, *ast.TypeSwitchStmt:
			return true
		}
		return false
	}) {
		die("%s: go / defer / select / send / label / type switch outside the subset", f.leanName)
	}
	f.checkPanicNotShadowed()
	b := &gfBuf{ind: 1}
	f.seq(b, f.decl.Body.List, &gfCtx{}, func() {
		if len(f.results) > 0 {
			die("%s: control reaches the end of a function with results (analysis incomplete)", f.leanName)
		}
		b.add("pure %s", f.retVal(nil))
	})
	var sb strings.Builder
	for _, d := range f.defs {
		sb.WriteString(d + "\n")
	}
	fmt.Fprintf(&sb, "/-- %s `%s` -/\n", f.pk.pos(f.decl), c15Print(f.pk.fset, f.decl.Type))
	fmt.Fprintf(&sb, "def %s %s: Option %s := do\n", f.leanName, joinSp(params), parenIf(f.retType()))
	sb.WriteString(strings.Join(b.lines, "\n") + "\n")
	return sb.String()
}
