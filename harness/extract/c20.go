package main

// C20: the pieces of syncer/output.go, syncer/bisync_rdb.go and pkg/util/hash.go that Model/RestoreWorker.lean
// transcribes by hand are pinned as source facts, so that an edit of them breaks the tie until the transcription (and
// the expectation in checks/p/C20.py) is revisited:
//   c20_route         the statement of sendRdb's distributeTask that chooses the worker of an entry   (`route`)
//                     [c20_route and c20_distribute are printed with the closure's LOCAL variables alpha-renamed (c20Alpha)]
//   c20_loop_plain    the body of rdbReplay's `for` after the receive: filter branch, selectDB, Replay  (`stepF`, bisync = false)
//   c20_loop_bisync   the same of rdbReplayBisync                                                     (`stepF`, bisync = true)
//   c20_distribute    the whole closure distributeTask: receive, routing AND the send `pipes[idx] <- e` (an entry goes to the
//                     worker `route` names and to no other, whatever the state of the pipes)                (`routeAll`, `queueOf`)
//   c20_workers       the loop of sendRdb that starts worker i on pipes[i]                                  (`Sys.init`)
//   c20_selectDB      RedisOutput.selectDB                                                            (`WCfg.mapDb`)
//   c20_fnv           util.FnvHash                                                                    (`fnv32a`)
// Log and metric statements are dropped before printing.

import (
	"fmt"
	"go/ast"
	"go/parser"
	"go/token"
	"os"
	"path/filepath"
	"sort"
	"strings"
)

// c20Alpha makes a printed fact STRUCTURAL with respect to local names: every variable DECLARED inside `scope` (`:=`, `var`,
// range / select bindings - what the parser's object resolution attributes to a declaration lying inside scope) is renamed
// to v0, v1, … in the order of the declarations. Renaming a local then leaves the fact unchanged; statement order, the
// def-use structure (which declaration an occurrence refers to) and everything declared outside scope stay visible.
func c20Alpha(root ast.Node, scope ast.Node) {
	lo, hi := scope.Pos(), scope.End()
	seen := map[*ast.Object]bool{}
	var objs []*ast.Object
	ast.Inspect(root, func(n ast.Node) bool {
		if id, ok := n.(*ast.Ident); ok && id.Obj != nil && id.Obj.Kind == ast.Var && !seen[id.Obj] {
			if p := id.Obj.Pos(); p >= lo && p < hi {
				seen[id.Obj] = true
				objs = append(objs, id.Obj)
			}
		}
		return true
	})
	sort.Slice(objs, func(i, j int) bool { return objs[i].Pos() < objs[j].Pos() })
	names := map[*ast.Object]string{}
	for i, o := range objs {
		names[o] = fmt.Sprintf("v%d", i)
	}
	ast.Inspect(root, func(n ast.Node) bool {
		if id, ok := n.(*ast.Ident); ok && id.Obj != nil {
			if nm, ok := names[id.Obj]; ok {
				id.Name = nm
			}
		}
		return true
	})
}

func c20Strip(n ast.Node) {
	ast.Inspect(n, func(m ast.Node) bool {
		switch x := m.(type) {
		case *ast.BlockStmt:
			x.List = c15FilterStmts(x.List)
		case *ast.CaseClause:
			x.Body = c15FilterStmts(x.Body)
		case *ast.CommClause:
			x.Body = c15FilterStmts(x.Body)
		}
		return true
	})
}

// c20LoopTail: the statements of the function's outermost `for` that follow its `select` statement
// (a select may be the whole body: then the statements of its first receive clause after the guards).
func c20LoopTail(fset *token.FileSet, fn *ast.FuncDecl) string {
	var loop *ast.ForStmt
	for _, st := range fn.Body.List {
		if f, ok := st.(*ast.ForStmt); ok {
			loop = f
		}
	}
	if loop == nil {
		die("%s: no for loop", fn.Name.Name)
	}
	c20Strip(loop)
	var parts []string
	for _, st := range loop.Body.List {
		parts = append(parts, c17Print(fset, st))
	}
	return strings.Join(parts, " ;; ")
}

// c20PkgVars: the package-level `var` names of every non-test file of a package directory.
func c20PkgVars(dir string) map[string]bool {
	out := map[string]bool{}
	ents, err := os.ReadDir(filepath.Join(*repo, dir))
	if err != nil {
		die("read %s: %v", dir, err)
	}
	for _, de := range ents {
		if de.IsDir() || !strings.HasSuffix(de.Name(), ".go") || strings.HasSuffix(de.Name(), "_test.go") {
			continue
		}
		f, err := parser.ParseFile(token.NewFileSet(), filepath.Join(*repo, dir, de.Name()), nil, 0)
		if err != nil {
			die("parse %s/%s: %v", dir, de.Name(), err)
		}
		for _, d := range f.Decls {
			if gd, ok := d.(*ast.GenDecl); ok && gd.Tok == token.VAR {
				for _, sp := range gd.Specs {
					for _, n := range sp.(*ast.ValueSpec).Names {
						if n.Name != "_" {
							out[n.Name] = true
						}
					}
				}
			}
		}
	}
	return out
}

// c20Globals: PROCESS-GLOBAL state the replay code of C20 reaches (dimension audit, item 4): for each anchor function the
// package-level variables of its own package and of package config it names (`x` unresolved in the file and a package-level
// var; `config.X` with X a package-level var of config), marked `=` where the function assigns to it. The harness must
// draw every value of those that select a branch (config.RdbPipeSize: scopes send-backpressure*).
func c20Globals() {
	cfgVars := c20PkgVars("config")
	var lines []string
	for _, a := range []struct{ dir, file string; fns []string }{
		{"syncer", "syncer/output.go", []string{"rdbReplay", "sendRdb", "selectDB", "rdbSendCounterAdd", "rdbFilterCounterAdd"}},
		{"syncer", "syncer/bisync_rdb.go", []string{"rdbReplayBisync", "buildBisyncRdbReplayUnit", "execBisyncRdbUnit", "bisyncRdbUseRestore", "bisyncRdbTTLms", "captureBisyncRdbExpandedCommands", "captureBisyncRdbRestoreCommand", "bisyncRdbTargetReserved"}},
		{"pkg/rdbrestore", "pkg/rdbrestore/restore.go", []string{"Replay", "restoreOnce", "restoreBigRdbEntry", "rewriteKeyArgs", "flushAndCheckReply"}},
	} {
		own := c20PkgVars(a.dir)
		_, f := parseFile(a.file)
		for _, d := range f.Decls {
			fn, ok := d.(*ast.FuncDecl)
			if !ok || fn.Body == nil {
				continue
			}
			want := false
			for _, n := range a.fns {
				want = want || n == fn.Name.Name
			}
			if !want {
				continue
			}
			used := map[string]bool{}
			written := map[string]bool{}
			name := func(e ast.Expr) string {
				switch x := e.(type) {
				case *ast.Ident:
					if own[x.Name] && (x.Obj == nil || x.Obj.Pos() < fn.Pos() || x.Obj.Pos() > fn.End()) {
						return x.Name
					}
				case *ast.SelectorExpr:
					if p, ok := x.X.(*ast.Ident); ok && p.Obj == nil && p.Name == "config" && cfgVars[x.Sel.Name] {
						return "config." + x.Sel.Name
					}
				}
				return ""
			}
			ast.Inspect(fn.Body, func(n ast.Node) bool {
				switch x := n.(type) {
				case *ast.AssignStmt:
					for _, l := range x.Lhs {
						if nm := name(l); nm != "" {
							written[nm] = true
						}
					}
				case *ast.IncDecStmt:
					if nm := name(x.X); nm != "" {
						written[nm] = true
					}
				case ast.Expr:
					if nm := name(x); nm != "" {
						used[nm] = true
					}
				}
				return true
			})
			var us []string
			for u := range used {
				if written[u] {
					u += "="
				}
				us = append(us, u)
			}
			sort.Strings(us)
			if len(us) > 0 {
				lines = append(lines, fn.Name.Name+": "+strings.Join(us, " "))
			}
		}
	}
	sort.Strings(lines)
	facts["c20_globals"] = strings.Join(lines, " ;; ")
}

func genC20() {
	c20Globals()
	fset, f := parseFile("syncer/output.go")
	for _, d := range f.Decls {
		fn, ok := d.(*ast.FuncDecl)
		if !ok || fn.Body == nil {
			continue
		}
		switch fn.Name.Name {
		case "sendRdb":
			if b := c19Closure(fn, "distributeTask"); b != nil {
				c20Strip(b)
				c20Alpha(b, b) // the closure's locals (e, ok, idx, routeKey) by declaration order
				facts["c20_distribute"] = c17Print(fset, b)
			}
			for _, st := range fn.Body.List {
				if fs, ok := st.(*ast.ForStmt); ok {
					txt := c17Print(fset, fs)
					if strings.Contains(txt, "rdbReplay(ctx, pp)") {
						facts["c20_workers"] = txt
					}
				}
			}
			ast.Inspect(fn, func(n ast.Node) bool {
				is, ok := n.(*ast.IfStmt)
				if !ok {
					return true
				}
				txt := c17Print(fset, is)
				if strings.Contains(txt, "FnvHash") && strings.Contains(txt, "pipeLen") {
					if _, done := facts["c20_route"]; !done {
						facts["c20_route"] = txt
					}
					return false
				}
				return true
			})
		case "rdbReplay":
			facts["c20_loop_plain"] = c20LoopTail(fset, fn)
		case "selectDB":
			facts["c20_selectDB"] = c17Print(fset, fn.Body)
		}
	}
	fset2, f2 := parseFile("syncer/bisync_rdb.go")
	for _, d := range f2.Decls {
		if fn, ok := d.(*ast.FuncDecl); ok && fn.Body != nil && fn.Name.Name == "rdbReplayBisync" {
			facts["c20_loop_bisync"] = c20LoopTail(fset2, fn)
		}
	}
	fset3, f3 := parseFile("pkg/util/hash.go")
	for _, d := range f3.Decls {
		if fn, ok := d.(*ast.FuncDecl); ok && fn.Body != nil && fn.Name.Name == "FnvHash" {
			facts["c20_fnv"] = c17Print(fset3, fn.Body)
		}
	}
	for _, k := range []string{"c20_distribute", "c20_workers", "c20_route", "c20_loop_plain", "c20_loop_bisync", "c20_selectDB", "c20_fnv"} {
		if _, ok := facts[k]; !ok {
			die("%s not found", k)
		}
	}
}
