package main

// gofn_c13: what C13 needs of the Go -> Lean translator beyond gofn*.go (session 5).
//
//  1. A registry of further library members with an EXACT Lean reading (gfExtCalls; gofn_expr.go
//     consults it in typeOf / call behind everything it knew before - additive):
//       strings.HasPrefix(s, p)   GoSem.hasPrefix  (byte-wise prefix test: what Go does)
//       strings.Contains(s, sub)  GoSem.contains   (byte-wise substring test; "" is contained in everything)
//       strings.ToLower(s)        GoSem.toLowerAscii : Option - DEFINED only when every byte of s is < 0x80
//                                 (Go's fast path for ASCII input: A-Z + 32); a string with a byte >= 0x80 takes
//                                 Go's Unicode mapping, which the prelude does not model: `none`, never a guess
//       util.BytesToString(b)     the bytes themselves (strings and []byte are both List UInt8); the translator
//                                 checks that the body of pkg/util.BytesToString is the unsafe cast it assumes
//  2. Two targets: the five Is…Key predicates of pkg/redis/checkpoint/bisync.go (Gen/FnBisyncKeyPreds.lean) and the
//     recognition predicates of syncer/bisync.go - isBisyncNamespaceKey, touchesBisyncNamespace,
//     isBisyncControlCommand, isBisyncMarkerCommand, isBisyncMarkerExpiryCommand, isBisyncMirroredTransaction
//     (Gen/FnBisyncPreds.lean). The syncer functions use constants and a callee of pkg/redis/checkpoint and a
//     constant of config: both packages are loaded for real (gfRealPkgs).

import (
	"go/ast"
	"strings"
)

type gfExtCall struct {
	path   string // import path; "@/x" = <module>/x
	name   string
	result *gfT
	emit   func(f *gfFn, b *gfBuf, c *ast.CallExpr) string
}

var gfExtCalls []*gfExtCall

func gfExtFind(f *gfFn, c *ast.CallExpr) *gfExtCall {
	for _, x := range gfExtCalls {
		p := x.path
		if strings.HasPrefix(p, "@/") {
			p = gfModule + p[1:]
		}
		if f.pkgCall(c, p, x.name) {
			return x
		}
	}
	return nil
}

func gfExtArgs(f *gfFn, b *gfBuf, c *ast.CallExpr, n int) []string {
	if len(c.Args) != n || c.Ellipsis.IsValid() {
		die("%s: arity of `%s`", f.at(c), c15Print(f.pk.fset, c.Fun))
	}
	var as []string
	for _, a := range c.Args {
		if f.typeOf(a).k != kBytes {
			die("%s: argument of `%s` is not a string / []byte", f.at(c), c15Print(f.pk.fset, c.Fun))
		}
		as = append(as, f.expr(b, a))
	}
	return as
}

const c13StrImport = "GunYu.Basic.GoSemStrings"

func init() {
	gfExtCalls = append(gfExtCalls,
		&gfExtCall{path: "strings", name: "HasPrefix", result: &gfT{k: kBool}, emit: func(f *gfFn, b *gfBuf, c *ast.CallExpr) string {
			as := gfExtArgs(f, b, c, 2)
			f.t.needImport[c13StrImport] = true
			return "(GoSem.hasPrefix " + as[0] + " " + as[1] + ")"
		}},
		&gfExtCall{path: "strings", name: "Contains", result: &gfT{k: kBool}, emit: func(f *gfFn, b *gfBuf, c *ast.CallExpr) string {
			as := gfExtArgs(f, b, c, 2)
			f.t.needImport[c13StrImport] = true
			return "(GoSem.contains " + as[0] + " " + as[1] + ")"
		}},
		&gfExtCall{path: "strings", name: "ToLower", result: &gfT{k: kBytes}, emit: func(f *gfFn, b *gfBuf, c *ast.CallExpr) string {
			as := gfExtArgs(f, b, c, 1)
			f.t.needImport[c13StrImport] = true
			tm := f.tmp()
			b.add("let %s ← GoSem.toLowerAscii %s", tm, as[0])
			return tm
		}},
		&gfExtCall{path: "@/pkg/util", name: "BytesToString", result: &gfT{k: kBytes}, emit: func(f *gfFn, b *gfBuf, c *ast.CallExpr) string {
			c13CheckBytesToString()
			return gfExtArgs(f, b, c, 1)[0]
		}},
	)
	gfRealPkgs["pkg/redis/checkpoint"] = true
	gfRealPkgs["config"] = true
	gfTargets = append(gfTargets,
		&gfTarget{gen: "gofn_bisynckeypreds", file: "FnBisyncKeyPreds", dir: "pkg/redis/checkpoint",
			funcs: []gfFuncSpec{{"IsBisyncMarkerKey", "isBisyncMarkerKey"}, {"IsBisyncLatestKey", "isBisyncLatestKey"},
				{"IsBisyncCommitKey", "isBisyncCommitKey"}, {"IsBisyncRdbRecordKey", "isBisyncRdbRecordKey"},
				{"IsBisyncCommitIndexKey", "isBisyncCommitIndexKey"}}},
		&gfTarget{gen: "gofn_bisyncpreds", file: "FnBisyncPreds", dir: "syncer",
			funcs: []gfFuncSpec{{"isBisyncNamespaceKey", "isBisyncNamespaceKey"}, {"touchesBisyncNamespace", "touchesBisyncNamespace"},
				{"isBisyncControlCommand", "isBisyncControlCommand"}, {"isBisyncMarkerCommand", "isBisyncMarkerCommand"},
				{"isBisyncMarkerExpiryCommand", "isBisyncMarkerExpiryCommand"},
				{"isBisyncMirroredTransaction", "isBisyncMirroredTransaction"}}},
	)
}

// gfImportBase: the package name an import path declares by convention - the last element, without a
// gopkg.in version suffix (yaml.v3 -> yaml), and the element before a /vN major-version element
func gfImportBase(path string) string {
	els := strings.Split(path, "/")
	base := els[len(els)-1]
	isVer := func(s string) bool {
		if len(s) < 2 || s[0] != 'v' {
			return false
		}
		for _, ch := range s[1:] {
			if ch < '0' || ch > '9' {
				return false
			}
		}
		return true
	}
	if isVer(base) && len(els) > 1 {
		base = els[len(els)-2]
	}
	if i := strings.LastIndex(base, "."); i > 0 && isVer(base[i+1:]) {
		base = base[:i]
	}
	return base
}

var c13BtsChecked = false

// util.BytesToString must be the zero-copy cast (the value of the result is the bytes of the argument)
func c13CheckBytesToString() {
	if c13BtsChecked {
		return
	}
	pk := gfLoad("pkg/util")
	decl := gfFindDecl(pk, "BytesToString")
	body := strings.Join(strings.Fields(c15Print(pk.fset, decl.Body)), " ")
	if body != "{ return *(*string)(unsafe.Pointer(&b)) }" {
		die("pkg/util.BytesToString is no longer the unsafe cast the translator reads as the identity on bytes: %s", body)
	}
	c13BtsChecked = true
}
