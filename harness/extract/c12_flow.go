package main

// C12: structural facts of the decoder's reading functions instead of body digests (session 5, review of the
// coordinator): what the model must agree with is WHICH reader calls a function makes, with which size, and BY HOW
// MUCH it advances d.offset - not how the statements are spelled. Expressions are rendered by def-use: a local
// that has exactly one definition in the function is replaced by its defining expression (`n, err := f()` gives
// `f()#0`), so `b := make([]byte, n+2); io.ReadFull(d.r, b); d.offset += int64(len(b))` reads
// `read full(make([]byte, d.decodeInt()#0 + 2))` / `d.offset += int64(len(make([]byte, d.decodeInt()#0 + 2)))`.
// io.ReadFull(r, b) and io.ReadAtLeast(r, b, len(b)) are the same call (`full`). A goto loop turned into a for
// loop, an extracted helper, renamed locals leave these facts alone; a changed size, a dropped or added reader
// call, another increment do not.

import (
	"fmt"
	"go/ast"
	"go/token"
	"sort"
	"strings"
)

type c12Def struct {
	rhs    ast.Expr
	idx, n int
	count  int
}

func c12Defs(fd *ast.FuncDecl) map[string]*c12Def {
	defs := map[string]*c12Def{}
	note := func(lhs []ast.Expr, rhs []ast.Expr) {
		for i, l := range lhs {
			id, ok := l.(*ast.Ident)
			if !ok || id.Name == "_" {
				continue
			}
			d := defs[id.Name]
			if d == nil {
				d = &c12Def{}
				defs[id.Name] = d
			}
			d.count++
			if len(rhs) == len(lhs) {
				d.rhs, d.idx, d.n = rhs[i], 0, 1
			} else if len(rhs) == 1 {
				d.rhs, d.idx, d.n = rhs[0], i, len(lhs)
			}
		}
	}
	ast.Inspect(fd.Body, func(n ast.Node) bool {
		switch s := n.(type) {
		case *ast.AssignStmt:
			if s.Tok == token.DEFINE || s.Tok == token.ASSIGN {
				note(s.Lhs, s.Rhs)
			} else {
				for _, l := range s.Lhs { // op-assignment: more than one value over time
					if id, ok := l.(*ast.Ident); ok && defs[id.Name] != nil {
						defs[id.Name].count += 2
					}
				}
			}
		case *ast.ValueSpec:
			var lhs []ast.Expr
			for _, id := range s.Names {
				lhs = append(lhs, id)
			}
			if len(s.Values) == 0 {
				for _, id := range s.Names {
					if defs[id.Name] == nil {
						defs[id.Name] = &c12Def{}
					}
					defs[id.Name].count++ // declared without value, assigned later: ambiguous with that assignment
				}
			} else {
				note(lhs, s.Values)
			}
		case *ast.IncDecStmt:
			if id, ok := s.X.(*ast.Ident); ok && defs[id.Name] != nil {
				defs[id.Name].count += 2
			}
		case *ast.RangeStmt:
			for _, e := range []ast.Expr{s.Key, s.Value} {
				if id, ok := e.(*ast.Ident); ok {
					if defs[id.Name] == nil {
						defs[id.Name] = &c12Def{}
					}
					defs[id.Name].count += 2
				}
			}
		}
		return true
	})
	return defs
}

func c12Resolve(fset *token.FileSet, e ast.Expr, defs map[string]*c12Def, depth int) string {
	switch x := e.(type) {
	case *ast.Ident:
		if d := defs[x.Name]; d != nil && d.count == 1 && d.rhs != nil && depth < 5 {
			s := c12Resolve(fset, d.rhs, defs, depth+1)
			if d.n > 1 {
				s += fmt.Sprintf("#%d", d.idx)
			}
			return s
		}
		return x.Name
	case *ast.ParenExpr:
		return "(" + c12Resolve(fset, x.X, defs, depth) + ")"
	case *ast.BinaryExpr:
		return c12Resolve(fset, x.X, defs, depth) + " " + x.Op.String() + " " + c12Resolve(fset, x.Y, defs, depth)
	case *ast.UnaryExpr:
		return x.Op.String() + c12Resolve(fset, x.X, defs, depth)
	case *ast.CallExpr:
		var as []string
		for _, a := range x.Args {
			as = append(as, c12Resolve(fset, a, defs, depth))
		}
		return c12Render(fset, x.Fun) + "(" + strings.Join(as, ", ") + ")"
	case *ast.SliceExpr:
		s := c12Resolve(fset, x.X, defs, depth) + "["
		if x.Low != nil {
			s += c12Resolve(fset, x.Low, defs, depth)
		}
		s += ":"
		if x.High != nil {
			s += c12Resolve(fset, x.High, defs, depth)
		}
		return s + "]"
	}
	return c12Render(fset, e)
}

// c12ReadSite renders a reader call: d.r.M(args) / io.ReadFull(d.r, b) / io.ReadAtLeast(d.r, b, min); "" if x is none
func c12ReadSite(fset *token.FileSet, x *ast.CallExpr, defs map[string]*c12Def) string {
	s, ok := x.Fun.(*ast.SelectorExpr)
	if !ok {
		return ""
	}
	if c12IsSel(s.X, "d", "r") {
		var as []string
		for _, a := range x.Args {
			as = append(as, c12Resolve(fset, a, defs, 0))
		}
		return "read " + s.Sel.Name + "(" + strings.Join(as, ", ") + ")"
	}
	if len(x.Args) > 0 && c12IsSel(x.Args[0], "d", "r") {
		fn := c12Render(fset, x.Fun)
		if fn == "io.ReadFull" && len(x.Args) == 2 {
			return "read full(" + c12Resolve(fset, x.Args[1], defs, 0) + ")"
		}
		if fn == "io.ReadAtLeast" && len(x.Args) == 3 {
			if c12Render(fset, x.Args[2]) == "len("+c12Render(fset, x.Args[1])+")" {
				return "read full(" + c12Resolve(fset, x.Args[1], defs, 0) + ")"
			}
			return "read atleast(" + c12Resolve(fset, x.Args[1], defs, 0) + ", " + c12Resolve(fset, x.Args[2], defs, 0) + ")"
		}
		var as []string
		for _, a := range x.Args[1:] {
			as = append(as, c12Resolve(fset, a, defs, 0))
		}
		return "read " + fn + "(" + strings.Join(as, ", ") + ")"
	}
	return ""
}

// c12Consts: what the reading functions (and the unlisted helpers of decoder.go they may have been split into)
// compare and call, as sorted multisets / sets: integer and character literals, the number of comparisons, the
// fields of the decoder they touch, the package-qualified functions and builtins they call.
func c12Consts(fset *token.FileSet, fds []*ast.FuncDecl) []string {
	var lits []string
	cmps := 0
	set := map[string]bool{}
	for _, fd := range fds {
		ast.Inspect(fd.Body, func(n ast.Node) bool {
			switch x := n.(type) {
			case *ast.BasicLit:
				if x.Kind == token.INT || x.Kind == token.CHAR {
					lits = append(lits, "lit "+x.Value)
				}
			case *ast.BinaryExpr:
				switch x.Op {
				case token.EQL, token.NEQ, token.LSS, token.LEQ, token.GTR, token.GEQ:
					cmps++
				case token.SHL, token.SHR, token.MUL, token.QUO, token.REM, token.AND, token.OR, token.XOR:
					set["operator "+x.Op.String()] = true
				}
			case *ast.SelectorExpr:
				if id, ok := x.X.(*ast.Ident); ok && id.Name == "d" {
					set["field d."+x.Sel.Name] = true
				}
			case *ast.CallExpr:
				switch f := x.Fun.(type) {
				case *ast.Ident:
					switch f.Name {
					case "make", "len", "cap", "append", "copy", "new", "panic", "recover", "min", "max":
						set["builtin "+f.Name] = true
					}
				case *ast.SelectorExpr:
					if id, ok := f.X.(*ast.Ident); ok && id.Name != "d" && !strings.HasPrefix(id.Name, "v") {
						name := id.Name + "." + f.Sel.Name
						if name == "io.ReadFull" || name == "io.ReadAtLeast" {
							name = "io.full"
						}
						set["call "+name] = true
					}
				}
			}
			return true
		})
	}
	sort.Strings(lits)
	out := append([]string{}, lits...)
	out = append(out, fmt.Sprintf("comparisons %d", cmps))
	var ks []string
	for k := range set {
		ks = append(ks, k)
	}
	sort.Strings(ks)
	return append(out, ks...)
}
