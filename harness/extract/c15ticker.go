package main

// C15: the two parameters of cmd/syncer.go clusterTicker the ticker theorems
// (lean/GunYu/Props/C15Ticker.lean) depend on, regenerated into
// lean/GunYu/Gen/TickerParams.lean:
//   * the retry count n of `util.Retry(func() error { return sc.clusterRenew(…) }, n)`;
//   * from which instant the lease timer is re-armed: `lease.Reset(time.Until(X.Add(sc.leaseHold())))`
//     with `X := time.Now()` standing BEFORE the statement that starts the call's goroutine
//     (rearmFromSend = true), or after the result was received / `time.Now()` itself (false).
// Anything else makes this generator fail (gen_errors["c15ticker"]).

import (
	"fmt"
	"go/ast"
	"go/token"
	"path/filepath"
	"strconv"
	"strings"
)

func genC15Ticker() {
	fset, g := parseFile("cmd/syncer.go")
	fd := c15FuncByName(g, "clusterTicker")
	if fd == nil {
		die("cmd/syncer.go: clusterTicker not found")
	}
	// the single for loop of the function
	var loop *ast.ForStmt
	nLoops := 0
	ast.Inspect(fd.Body, func(n ast.Node) bool {
		if f, ok := n.(*ast.ForStmt); ok {
			if loop == nil {
				loop = f
			}
			nLoops++
		}
		return true
	})
	if loop == nil || nLoops != 1 {
		die("clusterTicker: expected exactly one for loop, found %d", nLoops)
	}
	// retry count
	retry := -1
	nRetry := 0
	ast.Inspect(loop.Body, func(n ast.Node) bool {
		ce, ok := n.(*ast.CallExpr)
		if !ok || c15CallName(ce) != "Retry" {
			return true
		}
		nRetry++
		if len(ce.Args) != 2 {
			die("clusterTicker: util.Retry with %d arguments", len(ce.Args))
		}
		bl, ok := ce.Args[1].(*ast.BasicLit)
		if !ok || bl.Kind != token.INT {
			die("clusterTicker: retry count %s is not an integer literal", c15Print(fset, ce.Args[1]))
		}
		retry, _ = strconv.Atoi(bl.Value)
		// what is retried must be the renewal
		if !strings.Contains(c15Print(fset, ce.Args[0]), "sc.clusterRenew(") {
			die("clusterTicker: util.Retry does not retry sc.clusterRenew: %s", c15Print(fset, ce.Args[0]))
		}
		return true
	})
	if nRetry != 1 || retry < 0 {
		die("clusterTicker: expected exactly one util.Retry call, found %d", nRetry)
	}
	// position (index in the loop body) of the statement that starts the call, and of every `x := time.Now()`
	start := -1
	nowAt := map[string]int{}
	for i, st := range loop.Body.List {
		if es, ok := st.(*ast.ExprStmt); ok {
			if ce, ok := es.X.(*ast.CallExpr); ok && c15CallName(ce) == "SafeGo" && start < 0 {
				start = i
			}
		}
		if gs, ok := st.(*ast.GoStmt); ok && start < 0 {
			_ = gs
			start = i
		}
		if as, ok := st.(*ast.AssignStmt); ok && len(as.Lhs) == 1 && len(as.Rhs) == 1 {
			if id, ok := as.Lhs[0].(*ast.Ident); ok && c15Print(fset, as.Rhs[0]) == "time.Now()" {
				nowAt[id.Name] = i
			}
		}
	}
	if start < 0 {
		die("clusterTicker: the statement that starts the election call (usync.SafeGo / go) is not a statement of the loop body")
	}
	// the re-arm expression
	var resets []*ast.CallExpr
	ast.Inspect(loop.Body, func(n ast.Node) bool {
		if ce, ok := n.(*ast.CallExpr); ok && c15CallName(ce) == "Reset" && len(ce.Args) == 1 {
			resets = append(resets, ce)
		}
		return true
	})
	if len(resets) != 1 {
		die("clusterTicker: expected exactly one lease.Reset(…) in the loop, found %d", len(resets))
	}
	arg := c15Print(fset, resets[0].Args[0])
	facts["lease_ticker_params_rearm"] = arg
	fromSend := false
	const pre, post = "time.Until(", ".Add(sc.leaseHold()))"
	switch {
	case arg == "sc.leaseHold()":
		fromSend = false // counted from the instant of the Reset = after the answer
	case strings.HasPrefix(arg, pre) && strings.HasSuffix(arg, post):
		x := arg[len(pre) : len(arg)-len(post)]
		if x == "time.Now()" {
			fromSend = false
		} else if at, ok := nowAt[x]; ok {
			fromSend = at < start
			// the variable must keep the value it got BEFORE the call was issued: every other assignment to it
			// anywhere in the function (also inside the goroutine's closures) moves the base
			extra, other := 0, ""
			ast.Inspect(fd.Body, func(n ast.Node) bool {
				switch st := n.(type) {
				case *ast.AssignStmt:
					for i, l := range st.Lhs {
						id, ok := l.(*ast.Ident)
						if !ok || id.Name != x {
							continue
						}
						isDecl := st.Tok == token.DEFINE && len(st.Rhs) == len(st.Lhs) && c15Print(fset, st.Rhs[i]) == "time.Now()" && st == loop.Body.List[at]
						if isDecl {
							continue
						}
						extra++
						if len(st.Rhs) != len(st.Lhs) || c15Print(fset, st.Rhs[i]) != "time.Now()" {
							other = c15Print(fset, st)
						}
					}
				case *ast.IncDecStmt:
					if id, ok := st.X.(*ast.Ident); ok && id.Name == x {
						extra++
						other = c15Print(fset, st)
					}
				case *ast.UnaryExpr:
					if id, ok := st.X.(*ast.Ident); ok && st.Op == token.AND && id.Name == x {
						extra++
						other = c15Print(fset, st)
					}
				}
				return true
			})
			facts["lease_ticker_params_rearm_reassigned"] = extra
			if other != "" {
				die("clusterTicker: the re-arm base %s is changed by `%s`: neither 'from the send' nor 'from the answer'", x, other)
			}
			if extra > 0 {
				fromSend = false // re-assigned to a later time.Now(): counted from (at the earliest) the answer
			}
		} else {
			die("clusterTicker: lease.Reset counts from %s, which is not a `:= time.Now()` of the loop body", x)
		}
	default:
		die("clusterTicker: lease.Reset(%s) is neither time.Until(<t>.Add(sc.leaseHold())) nor sc.leaseHold()", arg)
	}
	var sb strings.Builder
	sb.WriteString(header)
	sb.WriteString("namespace GunYu.Gen\n\n")
	sb.WriteString("/-- cmd/syncer.go clusterTicker: `util.Retry(func() error { return sc.clusterRenew(…) }, n)` -/\n")
	sb.WriteString(fmt.Sprintf("def tickerRetry : Nat := %d\n\n", retry))
	sb.WriteString("/-- cmd/syncer.go clusterTicker: the lease timer is re-armed with `lease.Reset(" + arg + ")`;\n")
	sb.WriteString("    true = counted from a `time.Now()` taken before the statement that starts the call -/\n")
	sb.WriteString(fmt.Sprintf("def tickerRearmFromSend : Bool := %v\n\n", fromSend))
	sb.WriteString("end GunYu.Gen\n")
	writeIfChanged(filepath.Join(*out, "TickerParams.lean"), sb.String())
}
