package main

// C15: parse the two Lua scripts embedded in pkg/cluster/redis_election.go
// (Campaign, Resign) into the tiny AST of lean/GunYu/Model/LuaAst.lean and
// write lean/GunYu/Gen/LeaseScripts.lean. Anything outside the subset makes
// the extractor fail (exit 2). Also records how the scripts are invoked and
// how cmd/syncer.go derives the TTL / renew period / stop-before-resign order.

import (
	"bytes"
	"crypto/sha256"
	"fmt"
	"go/ast"
	"go/parser"
	"go/printer"
	"go/token"
	"os"
	"path/filepath"
	"sort"
	"strconv"
	"strings"
)

// ------------------------------------------------------------ Lua subset lexer

type c15Tok struct {
	kind string // id num str sym eof
	text string
	line int
}

func c15Lex(src string, what string) []c15Tok {
	var toks []c15Tok
	line := 1
	i := 0
	isIdStart := func(c byte) bool { return c == '_' || (c >= 'a' && c <= 'z') || (c >= 'A' && c <= 'Z') }
	isDigit := func(c byte) bool { return c >= '0' && c <= '9' }
	for i < len(src) {
		c := src[i]
		switch {
		case c == '\n':
			line++
			i++
		case c == ' ' || c == '\t' || c == '\r':
			i++
		case c == '-' && i+1 < len(src) && src[i+1] == '-':
			if strings.HasPrefix(src[i:], "--[[") || strings.HasPrefix(src[i:], "--[=") {
				die("%s: line %d: long comments are outside the Lua subset", what, line)
			}
			for i < len(src) && src[i] != '\n' {
				i++
			}
		case isIdStart(c):
			j := i
			for j < len(src) && (isIdStart(src[j]) || isDigit(src[j])) {
				j++
			}
			toks = append(toks, c15Tok{"id", src[i:j], line})
			i = j
		case isDigit(c):
			j := i
			for j < len(src) && isDigit(src[j]) {
				j++
			}
			if j < len(src) && (src[j] == '.' || isIdStart(src[j])) {
				die("%s: line %d: only decimal integer literals are in the Lua subset", what, line)
			}
			toks = append(toks, c15Tok{"num", src[i:j], line})
			i = j
		case c == '\'' || c == '"':
			j := i + 1
			var sb strings.Builder
			for {
				if j >= len(src) || src[j] == '\n' {
					die("%s: line %d: unterminated string", what, line)
				}
				if src[j] == '\\' {
					die("%s: line %d: string escapes are outside the Lua subset", what, line)
				}
				if src[j] == c {
					break
				}
				sb.WriteByte(src[j])
				j++
			}
			toks = append(toks, c15Tok{"str", sb.String(), line})
			i = j + 1
		case c == '=' && i+1 < len(src) && src[i+1] == '=':
			toks = append(toks, c15Tok{"sym", "==", line})
			i += 2
		case strings.IndexByte("=()[],.;", c) >= 0:
			toks = append(toks, c15Tok{"sym", string(c), line})
			i++
		default:
			die("%s: line %d: character %q is outside the Lua subset", what, line, c)
		}
	}
	toks = append(toks, c15Tok{"eof", "", line})
	return toks
}

// ------------------------------------------------------------ Lua subset parser -> Lean text

type c15Parser struct {
	toks []c15Tok
	pos  int
	what string
	vars map[string]int // variable numbering, order of first declaration
	ord  []string
}

var c15Keywords = map[string]bool{"local": true, "if": true, "then": true, "else": true, "end": true,
	"return": true, "false": true, "true": true, "nil": true, "elseif": true, "and": true, "or": true,
	"not": true, "function": true, "for": true, "while": true, "do": true, "repeat": true, "until": true,
	"break": true, "in": true, "goto": true}

func (p *c15Parser) peek() c15Tok { return p.toks[p.pos] }
func (p *c15Parser) next() c15Tok  { t := p.toks[p.pos]; p.pos++; return t }
func (p *c15Parser) fail(format string, a ...interface{}) {
	die("%s: line %d: %s (Lua subset: local, redis.call GET|SET..EX|EXPIRE|DEL, if/else, ==, return)",
		p.what, p.peek().line, fmt.Sprintf(format, a...))
}
func (p *c15Parser) isSym(s string) bool { t := p.peek(); return t.kind == "sym" && t.text == s }
func (p *c15Parser) isKw(s string) bool  { t := p.peek(); return t.kind == "id" && t.text == s }
func (p *c15Parser) expectSym(s string) {
	if !p.isSym(s) {
		p.fail("expected %q, found %q", s, p.peek().text)
	}
	p.pos++
}
func (p *c15Parser) expectKw(s string) {
	if !p.isKw(s) {
		p.fail("expected %q, found %q", s, p.peek().text)
	}
	p.pos++
}

func (p *c15Parser) declare(name string) int {
	if id, ok := p.vars[name]; ok {
		return id
	}
	id := len(p.ord)
	p.vars[name] = id
	p.ord = append(p.ord, name)
	return id
}

func c15LeanBytes(s string) string {
	parts := make([]string, len(s))
	for i := 0; i < len(s); i++ {
		parts[i] = strconv.Itoa(int(s[i]))
	}
	return "[" + strings.Join(parts, ",") + "]"
}

func (p *c15Parser) primary() string {
	t := p.next()
	switch t.kind {
	case "num":
		return "(Expr.num " + t.text + ")"
	case "str":
		return "(Expr.str " + c15LeanBytes(t.text) + ")"
	case "sym":
		if t.text == "(" {
			e := p.expr()
			p.expectSym(")")
			return e
		}
	case "id":
		switch t.text {
		case "false":
			return "Expr.fls"
		case "true":
			return "Expr.tru"
		case "nil":
			return "Expr.nil"
		case "KEYS", "ARGV":
			p.expectSym("[")
			n := p.next()
			if n.kind != "num" {
				p.pos--
				p.fail("%s index must be an integer literal", t.text)
			}
			p.expectSym("]")
			if t.text == "KEYS" {
				return "(Expr.keys " + n.text + ")"
			}
			return "(Expr.argv " + n.text + ")"
		}
		if c15Keywords[t.text] || t.text == "redis" {
			p.pos--
			p.fail("unexpected %q in expression", t.text)
		}
		id, ok := p.vars[t.text]
		if !ok {
			p.pos--
			p.fail("use of undeclared variable %q (globals are outside the subset)", t.text)
		}
		return "(Expr.var " + strconv.Itoa(id) + ")"
	}
	p.pos--
	p.fail("unexpected %q in expression", t.text)
	return ""
}

func (p *c15Parser) expr() string {
	a := p.primary()
	if p.isSym("==") {
		p.pos++
		b := p.primary()
		if p.isSym("==") {
			p.fail("chained == is outside the subset")
		}
		return "(Expr.eq " + a + " " + b + ")"
	}
	return a
}

func (p *c15Parser) atRedisCall() bool {
	return p.isKw("redis")
}

// redis.call('CMD', args…) -> Lean Call term
func (p *c15Parser) redisCall() string {
	p.expectKw("redis")
	p.expectSym(".")
	if !p.isKw("call") {
		p.fail("only redis.call is in the subset, found redis.%s", p.peek().text)
	}
	p.pos++
	p.expectSym("(")
	cmdTok := p.next()
	if cmdTok.kind != "str" {
		p.pos--
		p.fail("command name must be a string literal")
	}
	type arg struct {
		lean   string
		isStr  bool
		strVal string
	}
	var args []arg
	for p.isSym(",") {
		p.pos++
		start := p.pos
		e := p.expr()
		a := arg{lean: e}
		if p.pos == start+1 && p.toks[start].kind == "str" {
			a.isStr, a.strVal = true, p.toks[start].text
		}
		args = append(args, a)
	}
	p.expectSym(")")
	cmd := strings.ToUpper(cmdTok.text)
	switch cmd {
	case "GET":
		if len(args) == 1 {
			return "(Call.get " + args[0].lean + ")"
		}
	case "DEL":
		if len(args) == 1 {
			return "(Call.del " + args[0].lean + ")"
		}
	case "EXPIRE":
		if len(args) == 2 {
			return "(Call.expire " + args[0].lean + " " + args[1].lean + ")"
		}
	case "SET":
		if len(args) == 4 && args[2].isStr && strings.ToUpper(args[2].strVal) == "EX" {
			return "(Call.setEx " + args[0].lean + " " + args[1].lean + " " + args[3].lean + ")"
		}
	}
	p.fail("redis.call(%q, … %d args) is outside the subset", cmdTok.text, len(args))
	return ""
}

func (p *c15Parser) blockEnd() bool {
	return p.isKw("else") || p.isKw("end") || p.peek().kind == "eof"
}

// block parses statements up to else/end/eof and returns a Lean Blk term.
func (p *c15Parser) block(depth int) string {
	if p.blockEnd() {
		return "Blk.done"
	}
	ind := "\n" + strings.Repeat("  ", depth+1)
	switch {
	case p.isSym(";"):
		p.pos++
		return p.block(depth)
	case p.isKw("local"):
		p.pos++
		n := p.next()
		if n.kind != "id" || c15Keywords[n.text] {
			p.pos--
			p.fail("expected a variable name after local")
		}
		p.expectSym("=")
		var s string
		if p.atRedisCall() {
			c := p.redisCall()
			id := p.declare(n.text) // declared after the right-hand side, as in Lua
			s = "(Blk.locCall " + strconv.Itoa(id) + " " + c
		} else {
			e := p.expr()
			id := p.declare(n.text)
			s = "(Blk.loc " + strconv.Itoa(id) + " " + e
		}
		return s + ind + p.block(depth) + ")"
	case p.atRedisCall():
		c := p.redisCall()
		return "(Blk.call " + c + ind + p.block(depth) + ")"
	case p.isKw("return"):
		p.pos++
		var e string
		if p.blockEnd() || p.isSym(";") {
			e = "Expr.nil"
		} else {
			e = p.expr()
		}
		if p.isSym(";") {
			p.pos++
		}
		if !p.blockEnd() {
			p.fail("statement after return")
		}
		return "(Blk.ret " + e + ")"
	case p.isKw("if"):
		p.pos++
		c := p.expr()
		p.expectKw("then")
		// Lua scoping: locals declared inside a branch are not visible after
		// it. Variables are numbered globally, so shadowing across scopes
		// would be mis-modelled: refuse re-declaration below.
		saved := p.snapshot()
		t := p.block(depth + 1)
		p.restore(saved)
		e := "Blk.done"
		if p.isKw("else") {
			p.pos++
			e = p.block(depth + 1)
			p.restore(saved)
		}
		if p.isKw("elseif") {
			p.fail("elseif is outside the subset")
		}
		p.expectKw("end")
		return "(Blk.ite " + c + ind + t + ind + e + ind + p.block(depth) + ")"
	}
	p.fail("unexpected %q at start of statement", p.peek().text)
	return ""
}

// scoping: names declared inside a branch disappear at its end; their numbers
// stay allocated (never reused) so numbering is unambiguous.
func (p *c15Parser) snapshot() map[string]int {
	m := map[string]int{}
	for k, v := range p.vars {
		m[k] = v
	}
	return m
}
func (p *c15Parser) restore(m map[string]int) {
	p.vars = map[string]int{}
	for k, v := range m {
		p.vars[k] = v
	}
}

func c15ParseLua(src, what string) (lean string, vars []string) {
	p := &c15Parser{toks: c15Lex(src, what), what: what, vars: map[string]int{}}
	lean = p.block(0)
	if p.peek().kind != "eof" {
		p.fail("unexpected %q", p.peek().text)
	}
	return lean, p.ord
}

// ------------------------------------------------------------ locate scripts in the Go source

func c15Print(fset *token.FileSet, n ast.Node) string {
	var b bytes.Buffer
	printer.Fprint(&b, fset, n)
	return strings.Join(strings.Fields(b.String()), " ")
}

func c15Method(f *ast.File, recv, name string) *ast.FuncDecl {
	for _, d := range f.Decls {
		fd, ok := d.(*ast.FuncDecl)
		if !ok || fd.Name.Name != name || fd.Recv == nil || len(fd.Recv.List) != 1 {
			continue
		}
		t := fd.Recv.List[0].Type
		if st, ok := t.(*ast.StarExpr); ok {
			t = st.X
		}
		if id, ok := t.(*ast.Ident); ok && id.Name == recv {
			return fd
		}
	}
	return nil
}

// c15Script returns the Lua text assigned to the variable passed as the
// script argument of the single `….Do("eval", <var>, …)` call in fd, and the
// printed argument list of that call.
func c15Script(fset *token.FileSet, fd *ast.FuncDecl, what string) (string, []string) {
	var evalCalls []*ast.CallExpr
	ast.Inspect(fd.Body, func(n ast.Node) bool {
		ce, ok := n.(*ast.CallExpr)
		if !ok {
			return true
		}
		sel, ok := ce.Fun.(*ast.SelectorExpr)
		if !ok || sel.Sel.Name != "Do" || len(ce.Args) < 2 {
			return true
		}
		if bl, ok := ce.Args[0].(*ast.BasicLit); ok && bl.Kind == token.STRING {
			s, _ := strconv.Unquote(bl.Value)
			if strings.EqualFold(s, "eval") {
				evalCalls = append(evalCalls, ce)
			}
		}
		return true
	})
	if len(evalCalls) != 1 {
		die("%s: expected exactly one Do(\"eval\", …) call, found %d", what, len(evalCalls))
	}
	ce := evalCalls[0]
	var args []string
	for _, a := range ce.Args {
		args = append(args, c15Print(fset, a))
	}
	var text string
	found := 0
	switch sa := ce.Args[1].(type) {
	case *ast.BasicLit:
		if sa.Kind != token.STRING {
			die("%s: script argument is not a string", what)
		}
		text, _ = strconv.Unquote(sa.Value)
		found = 1
	case *ast.Ident:
		ast.Inspect(fd.Body, func(n ast.Node) bool {
			as, ok := n.(*ast.AssignStmt)
			if !ok {
				return true
			}
			for i, l := range as.Lhs {
				if id, ok := l.(*ast.Ident); ok && id.Name == sa.Name && i < len(as.Rhs) {
					bl, ok := as.Rhs[i].(*ast.BasicLit)
					if !ok || bl.Kind != token.STRING {
						die("%s: script variable %s is not assigned a string literal", what, sa.Name)
					}
					s, err := strconv.Unquote(bl.Value)
					if err != nil {
						die("%s: %v", what, err)
					}
					text = s
					found++
				}
			}
			return true
		})
	default:
		die("%s: script argument of Do(\"eval\") is neither a literal nor a variable", what)
	}
	if found != 1 {
		die("%s: script variable assigned %d times (expected once)", what, found)
	}
	return text, args
}

func c15CallName(ce *ast.CallExpr) string {
	switch fn := ce.Fun.(type) {
	case *ast.Ident:
		return fn.Name
	case *ast.SelectorExpr:
		return fn.Sel.Name
	}
	return ""
}

func c15FuncByName(f *ast.File, name string) *ast.FuncDecl {
	for _, d := range f.Decls {
		if fd, ok := d.(*ast.FuncDecl); ok && fd.Name.Name == name {
			return fd
		}
	}
	return nil
}

func genC15() {
	// the etcd election's requests and the ticker's structure are generators of their own
	// (gen_errors c15etcd / c15ticker): a failure there does not stop the Redis scripts
	runGen("c15etcd", genC15Etcd)
	runGen("c15ticker", genC15Ticker)
	runGen("c15arith", genC15Arith)
	runGen("c15globals", genC15Globals)
	fset, f := parseFile("pkg/cluster/redis_election.go")
	// glue facts: Renew and Leader bodies (printed, whitespace-normalised)
	for _, m := range []string{"Renew", "Leader"} {
		fd := c15Method(f, "redisElection", m)
		if fd == nil {
			die("redisElection.%s not found", m)
		}
		facts["lease_body_"+strings.ToLower(m)] = c15Print(fset, fd.Body)
	}

	// cmd/syncer.go: ttl expression, ticker period, stop-before-resign order,
	// call skeleton of clusterTicker.
	fset2, g := parseFile("cmd/syncer.go")
	ttlExpr := ""
	ast.Inspect(g, func(n ast.Node) bool {
		ce, ok := n.(*ast.CallExpr)
		if !ok || c15CallName(ce) != "NewRedisCluster" || len(ce.Args) != 3 {
			return true
		}
		ttlExpr = c15Print(fset2, ce.Args[2])
		return true
	})
	if id := ttlExpr; id != "" {
		// resolve a plain identifier to its := definition
		ast.Inspect(g, func(n ast.Node) bool {
			as, ok := n.(*ast.AssignStmt)
			if !ok || as.Tok != token.DEFINE {
				return true
			}
			for i, l := range as.Lhs {
				if li, ok := l.(*ast.Ident); ok && li.Name == id && i < len(as.Rhs) {
					ttlExpr = c15Print(fset2, as.Rhs[i])
				}
			}
			return true
		})
	}
	facts["lease_ttl_expr"] = ttlExpr

	tick := c15FuncByName(g, "clusterTicker")
	if tick == nil {
		die("cmd/syncer.go: clusterTicker not found")
	}
	period := ""
	var calls []string
	ast.Inspect(tick.Body, func(n ast.Node) bool {
		ce, ok := n.(*ast.CallExpr)
		if !ok {
			return true
		}
		name := c15CallName(ce)
		if name == "NewTicker" && len(ce.Args) == 1 {
			period = c15Print(fset2, ce.Args[0])
		}
		if name != "" {
			calls = append(calls, name)
		}
		return true
	})
	facts["lease_ticker_period"] = period

	rc := c15FuncByName(g, "runCluster")
	if rc == nil {
		die("cmd/syncer.go: runCluster not found")
	}
	var order []string
	ast.Inspect(rc.Body, func(n ast.Node) bool {
		ce, ok := n.(*ast.CallExpr)
		if !ok {
			return true
		}
		sel, ok := ce.Fun.(*ast.SelectorExpr)
		if !ok {
			return true
		}
		s := c15Print(fset2, sel)
		switch s {
		case "sy.Stop", "syncerWait.WgWait", "elect.Resign", "sc.clusterTicker", "sc.clusterCampaign", "sy.RunLeader", "sy.RunFollower", "elect.Leader":
			order = append(order, s)
		}
		return true
	})
	facts["lease_runcluster_order"] = order

	// runCluster is executed by the harness only up to its first campaign; the
	// rest (start/stop of the syncer around the ticker, resign) is pinned by
	// the order list above and by a fingerprint of its control-flow skeleton:
	// the printed function with log / metric statements removed and every
	// string literal blanked (sha256/64 bit), so a changed message or comment
	// does not alarm. clusterTicker/clusterRenew/clusterCampaign/run are
	// executed for real and need no fingerprint.
	{
		fset3, g3 := parseFile("cmd/syncer.go") // own copy: stripping edits the tree
		fd := c15FuncByName(g3, "runCluster")
		if fd == nil {
			die("cmd/syncer.go: runCluster not found")
		}
		c15StripLogs(fd.Body)
		sum := sha256.Sum256([]byte(c15Print(fset3, fd)))
		facts["lease_skel_runCluster"] = fmt.Sprintf("%x", sum[:8])
	}
	// loop shape of clusterTicker / leaseHold (the ticker IS executed under virtual
	// time; these facts tie the ticker theorems to the source text as well):
	// control-flow skeletons (log/metric statements removed, string literals
	// blanked) and, readable, the retry count, the two expressions that arm the
	// lease timer and what leaseHold returns.
	{
		fset4, g4 := parseFile("cmd/syncer.go")
		for _, fn := range []string{"clusterTicker", "leaseHold"} {
			fd := c15FuncByName(g4, fn)
			if fd == nil {
				die("cmd/syncer.go: %s not found", fn)
			}
			if fn == "leaseHold" {
				ast.Inspect(fd.Body, func(n ast.Node) bool {
					if rs, ok := n.(*ast.ReturnStmt); ok && len(rs.Results) == 1 {
						facts["lease_hold_expr"] = c15Print(fset4, rs.Results[0])
					}
					return true
				})
			} else {
				ast.Inspect(fd.Body, func(n ast.Node) bool {
					ce, ok := n.(*ast.CallExpr)
					if !ok {
						return true
					}
					switch c15CallName(ce) {
					case "Retry":
						if len(ce.Args) == 2 {
							facts["lease_ticker_retry"] = c15Print(fset4, ce.Args[1])
						}
					case "AfterFunc":
						if len(ce.Args) == 2 {
							facts["lease_timer_arm"] = c15Print(fset4, ce.Args[0])
						}
					case "Reset":
						if len(ce.Args) == 1 {
							facts["lease_timer_rearm"] = c15Print(fset4, ce.Args[0])
						}
					}
					return true
				})
			}
			c15StripLogs(fd.Body)
			sum := sha256.Sum256([]byte(c15Print(fset4, fd)))
			facts["lease_skel_"+fn] = fmt.Sprintf("%x", sum[:8])
		}
	}
	// every statement of run() that mentions the ttl handed to the lease store
	if runFn := c15FuncByName(g, "run"); runFn != nil {
		var ttlStmts []string
		ast.Inspect(runFn.Body, func(n ast.Node) bool {
			switch x := n.(type) {
			case *ast.AssignStmt, *ast.IncDecStmt, *ast.ExprStmt:
				txt := c15Print(fset2, x.(ast.Node))
				uses := false
				ast.Inspect(x.(ast.Node), func(m ast.Node) bool {
					if id, ok := m.(*ast.Ident); ok && id.Name == "ttl" {
						uses = true
					}
					return true
				})
				if uses {
					ttlStmts = append(ttlStmts, txt)
				}
			}
			return true
		})
		facts["lease_run_ttl_stmts"] = ttlStmts
	} else {
		die("cmd/syncer.go: run not found")
	}
	// election identity and key as runCluster derives them
	ast.Inspect(rc.Body, func(n ast.Node) bool {
		switch x := n.(type) {
		case *ast.CallExpr:
			if c15CallName(x) == "NewElection" {
				var a []string
				for _, e := range x.Args {
					a = append(a, c15Print(fset2, e))
				}
				facts["lease_newelection_args"] = a
			}
		case *ast.AssignStmt:
			if len(x.Lhs) == 1 && len(x.Rhs) == 1 {
				if id, ok := x.Lhs[0].(*ast.Ident); ok && id.Name == "key" {
					facts["lease_key_expr"] = c15Print(fset2, x.Rhs[0])
				}
			}
		}
		return true
	})

	// the two scripts last: if one cannot be translated the facts above are still recorded
	var sb strings.Builder
	sb.WriteString(header)
	sb.WriteString("import GunYu.Model.LuaAst\nnamespace GunYu.Gen\nopen GunYu.Lua\n\n")
	for _, it := range []struct{ method, def string }{{"Campaign", "campaignScript"}, {"Resign", "resignScript"}} {
		fd := c15Method(f, "redisElection", it.method)
		if fd == nil {
			die("redisElection.%s not found", it.method)
		}
		what := "pkg/cluster/redis_election.go:" + it.method
		text, args := c15Script(fset, fd, what)
		lean, vars := c15ParseLua(text, what+" lua")
		var names []string
		for i, v := range vars {
			names = append(names, fmt.Sprintf("%d=%s", i, v))
		}
		sb.WriteString(fmt.Sprintf("/-- Lua script of `redisElection.%s`; variables: %s -/\n", it.method, strings.Join(names, " ")))
		sb.WriteString("def " + it.def + " : Blk :=\n  " + lean + "\n\n")
		facts["lease_eval_args_"+strings.ToLower(it.method)] = args
	}
	sb.WriteString("end GunYu.Gen\n")
	writeIfChanged(filepath.Join(*out, "LeaseScripts.lean"), sb.String())
}

// c15IsLogCall: sc.logger.X(...), log.X(...), <x>Counter/<x>Gauge metric calls.
func c15IsLogCall(e ast.Expr) bool {
	ce, ok := e.(*ast.CallExpr)
	if !ok {
		return false
	}
	sel, ok := ce.Fun.(*ast.SelectorExpr)
	if !ok {
		return false
	}
	switch x := sel.X.(type) {
	case *ast.Ident:
		return x.Name == "log" || x.Name == "logger" || strings.HasSuffix(x.Name, "Counter") || strings.HasSuffix(x.Name, "Gauge")
	case *ast.SelectorExpr:
		return x.Sel.Name == "logger"
	}
	return false
}

// c15StripLogs removes log/metric statements and blanks string literals, in place.
func c15StripLogs(n ast.Node) {
	ast.Inspect(n, func(m ast.Node) bool {
		switch x := m.(type) {
		case *ast.BlockStmt:
			x.List = c15FilterStmts(x.List)
		case *ast.CaseClause:
			x.Body = c15FilterStmts(x.Body)
		case *ast.CommClause:
			x.Body = c15FilterStmts(x.Body)
		case *ast.BasicLit:
			if x.Kind == token.STRING {
				x.Value = `""`
			}
		}
		return true
	})
}

func c15FilterStmts(in []ast.Stmt) []ast.Stmt {
	var out []ast.Stmt
	for _, st := range in {
		if es, ok := st.(*ast.ExprStmt); ok && c15IsLogCall(es.X) {
			continue
		}
		if ds, ok := st.(*ast.DeferStmt); ok && c15IsLogCall(ds.Call) {
			continue
		}
		out = append(out, st)
	}
	return out
}


// genC15Globals (dimension audit): process-global state of the election code - every package-level `var` of
// pkg/cluster (default build, non-test files) that is ASSIGNED, incremented or addressed inside a function body
// (written after init). Fact lease_pkg_globals_written; the harness has first-use / concurrent-use cases only if
// this list is non-empty.
func genC15Globals() {
	dir := filepath.Join(*repo, "pkg", "cluster")
	ents, err := os.ReadDir(dir)
	if err != nil {
		die("pkg/cluster: %v", err)
	}
	globals := map[string]bool{}
	var files []*ast.File
	fset := token.NewFileSet()
	for _, e := range ents {
		n := e.Name()
		if e.IsDir() || !strings.HasSuffix(n, ".go") || strings.HasSuffix(n, "_test.go") {
			continue
		}
		f, err := parser.ParseFile(fset, filepath.Join(dir, n), nil, 0)
		if err != nil {
			die("parse %s: %v", n, err)
		}
		files = append(files, f)
		for _, d := range f.Decls {
			if gd, ok := d.(*ast.GenDecl); ok && gd.Tok == token.VAR {
				for _, sp := range gd.Specs {
					for _, id := range sp.(*ast.ValueSpec).Names {
						globals[id.Name] = true
					}
				}
			}
		}
	}
	written := map[string]bool{}
	for _, f := range files {
		for _, d := range f.Decls {
			fd, ok := d.(*ast.FuncDecl)
			if !ok || fd.Body == nil {
				continue
			}
			ast.Inspect(fd.Body, func(n ast.Node) bool {
				mark := func(e ast.Expr) {
					if id, ok := e.(*ast.Ident); ok && globals[id.Name] && id.Obj == nil {
						written[id.Name] = true
					}
				}
				switch st := n.(type) {
				case *ast.AssignStmt:
					if st.Tok != token.DEFINE {
						for _, l := range st.Lhs {
							mark(l)
						}
					}
				case *ast.IncDecStmt:
					mark(st.X)
				case *ast.UnaryExpr:
					if st.Op == token.AND {
						mark(st.X)
					}
				}
				return true
			})
		}
	}
	var names []string
	for n := range written {
		names = append(names, n)
	}
	sort.Strings(names)
	if names == nil {
		names = []string{}
	}
	facts["lease_pkg_globals_written"] = names
	var all []string
	for n := range globals {
		all = append(all, n)
	}
	sort.Strings(all)
	facts["lease_pkg_globals"] = all
}
