package main

// C17 / C14: constants the checkpoint bookkeeping models depend on
// (lean/GunYu/Gen/CheckpointConsts.lean) and source facts for code the
// harness cannot call in-process:
//   c17_gcStaleCp      the closure `gcStaleCp` of cmd/syncer.go gcStaleCheckpoint
//                      (transliterated in harness/overlay/pkg/redis/checkpoint/vf_c17_test.go)
//   c17_gc_live_ids    how the set of live run ids is built there
//   c14_flush_consts   bisyncFrontierFlushUnitThreshold / Interval

import (
	"bytes"
	"fmt"
	"go/ast"
	"go/printer"
	"go/token"
	"os"
	"path/filepath"
	"sort"
	"strconv"
	"strings"
)

func c17Print(fset *token.FileSet, n ast.Node) string {
	var b bytes.Buffer
	printer.Fprint(&b, fset, n)
	return strings.Join(strings.Fields(b.String()), " ")
}

// c17StrConst finds `name = "literal"` (possibly `prefix + "literal"`) in a const/var block.
func c17ConstExpr(f *ast.File, name string) ast.Expr {
	for _, d := range f.Decls {
		gd, ok := d.(*ast.GenDecl)
		if !ok {
			continue
		}
		for _, s := range gd.Specs {
			vs, ok := s.(*ast.ValueSpec)
			if !ok {
				continue
			}
			for i, n := range vs.Names {
				if n.Name == name && i < len(vs.Values) {
					return vs.Values[i]
				}
			}
		}
	}
	return nil
}

func c17Lit(e ast.Expr, what string) string {
	bl, ok := e.(*ast.BasicLit)
	if !ok || bl.Kind != token.STRING {
		die("%s: not a string literal", what)
	}
	s, err := strconv.Unquote(bl.Value)
	if err != nil {
		die("%s: %v", what, err)
	}
	return s
}

func c17Bytes(s string) string {
	p := make([]string, len(s))
	for i := 0; i < len(s); i++ {
		p[i] = strconv.Itoa(int(s[i]))
	}
	return "[" + strings.Join(p, ", ") + "]"
}

func genC17() {
	runGen("c17guards", genC17Guards)
	_, fv := parseFile("config/var.go")
	e := c17ConstExpr(fv, "CheckpointKeyHashKey")
	if e == nil {
		die("config.CheckpointKeyHashKey not found")
	}
	hashKey := c17Lit(e, "CheckpointKeyHashKey")

	_, fi := parseFile("pkg/redis/checkpoint/checkpoint_info.go")
	suf := map[string]string{}
	for _, n := range []string{"CheckpointOffsetSuffix", "CheckpointRunIdSuffix", "CheckpointVersionSuffix", "CheckpointMtimeSuffix"} {
		e := c17ConstExpr(fi, n)
		if e == nil {
			die("%s not found", n)
		}
		suf[n] = c17Lit(e, n)
	}

	fsetB, fb := parseFile("pkg/redis/checkpoint/bisync.go")
	modeField := c17Lit(c17ConstExpr(fb, "bisyncNamespaceFieldMode"), "bisyncNamespaceFieldMode")
	modeMtime := c17Lit(c17ConstExpr(fb, "bisyncNamespaceFieldMTime"), "bisyncNamespaceFieldMTime")
	modes := map[string]string{}
	for _, n := range []string{"BisyncModeSync", "BisyncModePipeline", "BisyncModeParallel"} {
		e := c17ConstExpr(fb, n)
		if e == nil {
			die("%s not found", n)
		}
		modes[n] = c17Lit(e, n)
	}
	// BisyncFrontierKey: fmt.Sprintf("%s:frontier", checkpointName)
	frontierFmt := ""
	for _, d := range fb.Decls {
		fd, ok := d.(*ast.FuncDecl)
		if ok && fd.Name.Name == "BisyncFrontierKey" && fd.Body != nil {
			ast.Inspect(fd.Body, func(n ast.Node) bool {
				if bl, ok := n.(*ast.BasicLit); ok && bl.Kind == token.STRING && frontierFmt == "" {
					frontierFmt, _ = strconv.Unquote(bl.Value)
				}
				return true
			})
		}
	}
	if !strings.HasPrefix(frontierFmt, "%s") || strings.Contains(frontierFmt[2:], "%") {
		die("BisyncFrontierKey: unexpected format %q", frontierFmt)
	}
	_ = fsetB

	var sb strings.Builder
	sb.WriteString(header)
	sb.WriteString("namespace GunYu.Gen\n\n")
	w := func(name, doc, val string) {
		sb.WriteString(fmt.Sprintf("/-- %s = %q -/\ndef %s : List UInt8 := %s\n\n", doc, val, name, c17Bytes(val)))
	}
	w("cpHashKey", "config.CheckpointKeyHashKey", hashKey)
	w("cpSuffixRunId", "checkpoint.CheckpointRunIdSuffix", suf["CheckpointRunIdSuffix"])
	w("cpSuffixVersion", "checkpoint.CheckpointVersionSuffix", suf["CheckpointVersionSuffix"])
	w("cpSuffixOffset", "checkpoint.CheckpointOffsetSuffix", suf["CheckpointOffsetSuffix"])
	w("cpSuffixMtime", "checkpoint.CheckpointMtimeSuffix", suf["CheckpointMtimeSuffix"])
	w("bisyncModeField", "checkpoint.bisyncNamespaceFieldMode", modeField)
	w("bisyncModeMtimeField", "checkpoint.bisyncNamespaceFieldMTime", modeMtime)
	w("bisyncModeSync", "checkpoint.BisyncModeSync", modes["BisyncModeSync"])
	w("bisyncModePipeline", "checkpoint.BisyncModePipeline", modes["BisyncModePipeline"])
	w("bisyncModeParallel", "checkpoint.BisyncModeParallel", modes["BisyncModeParallel"])
	w("bisyncFrontierSuffix", "suffix of checkpoint.BisyncFrontierKey", frontierFmt[2:])
	sb.WriteString("end GunYu.Gen\n")
	writeIfChanged(*out+"/CheckpointConsts.lean", sb.String())

	// ---- cmd/syncer.go gcStaleCheckpoint
	fset, fc := parseFile("cmd/syncer.go")
	var gc *ast.FuncDecl
	for _, d := range fc.Decls {
		if fd, ok := d.(*ast.FuncDecl); ok && fd.Name.Name == "gcStaleCheckpoint" {
			gc = fd
		}
	}
	if gc == nil || gc.Body == nil {
		die("cmd/syncer.go: gcStaleCheckpoint not found")
	}
	closure := ""
	var live []string
	ast.Inspect(gc.Body, func(n ast.Node) bool {
		as, ok := n.(*ast.AssignStmt)
		if !ok {
			return true
		}
		if len(as.Lhs) == 1 && len(as.Rhs) == 1 {
			if id, ok := as.Lhs[0].(*ast.Ident); ok && id.Name == "gcStaleCp" {
				if fl, ok := as.Rhs[0].(*ast.FuncLit); ok {
					closure = c17Print(fset, fl.Body)
				}
			}
			if ix, ok := as.Lhs[0].(*ast.IndexExpr); ok {
				if id, ok := ix.X.(*ast.Ident); ok && id.Name == "runIdMap" {
					live = append(live, c17Print(fset, as))
				}
			}
		}
		return true
	})
	if closure == "" {
		die("cmd/syncer.go: closure gcStaleCp not found")
	}
	// log statements do not matter to the transliteration
	facts["c17_gcStaleCp"] = c17StripLogs(closure)
	facts["c17_gc_live_ids"] = live
	// the control flow around the closure (collection of the live ids: which nodes are asked,
	// what happens when one cannot be reached; which output clients gc runs on), statement by
	// statement up to the storage gc, the closure itself replaced by a placeholder
	var frame []string
	for _, st := range gc.Body.List {
		if as, ok := st.(*ast.AssignStmt); ok && len(as.Lhs) == 1 {
			if id, ok := as.Lhs[0].(*ast.Ident); ok {
				if id.Name == "gcStaleStorer" {
					break
				}
				if id.Name == "gcStaleCp" {
					frame = append(frame, "gcStaleCp := <closure>")
					continue
				}
			}
		}
		if t := c17StripLogs(c17Print(fset, st)); t != "" {
			frame = append(frame, t)
		}
	}
	facts["c17_gc_frame"] = frame

	// ---- syncer/bisync.go flush constants
	_, fs := parseFile("syncer/bisync.go")
	fl := map[string]string{}
	for _, n := range []string{"bisyncFrontierFlushUnitThreshold", "bisyncFrontierFlushInterval"} {
		e := c17ConstExpr(fs, n)
		if e == nil {
			die("%s not found", n)
		}
		fl[n] = c17Print(token.NewFileSet(), e)
	}
	facts["c14_flush_consts"] = fl

	// ---- syncer/syncer.go updateCheckpoint: how a start orders the reported ids before
	// UpdateCheckpoint (Model/Checkpoint.lean startIds): every statement that mentions `ordered`
	fsetS, fsy := parseFile("syncer/syncer.go")
	var ord []string
	for _, d := range fsy.Decls {
		fd, ok := d.(*ast.FuncDecl)
		if !ok || fd.Name.Name != "updateCheckpoint" || fd.Body == nil {
			continue
		}
		ast.Inspect(fd.Body, func(n ast.Node) bool {
			switch st := n.(type) {
			case *ast.IfStmt:
				if t := c17Print(fsetS, st); strings.Contains(t, "ordered =") && !strings.Contains(t, "func()") {
					ord = append(ord, t)
					return false
				}
			case *ast.AssignStmt:
				if t := c17Print(fsetS, st); strings.Contains(t, "ordered") && !strings.Contains(t, "func()") {
					ord = append(ord, t)
				}
			}
			return true
		})
	}
	if len(ord) == 0 {
		die("syncer/syncer.go: updateCheckpoint's id ordering not found")
	}
	facts["c17_start_order"] = ord

	// ---- syncer/output.go: RedisOutput.SetRunId (Model/BookSys.lean setRunId: early return, the ids passed,
	// the in-memory field assigned only after a successful attempt, three attempts) and the checkpoint-key
	// HSETs of the replay path (Model/BookSys.lean senderEntries)
	fsetO, fo := parseFile("syncer/output.go")
	setRunId := ""
	var cpPuts []string
	for _, d := range fo.Decls {
		fd, ok := d.(*ast.FuncDecl)
		if !ok || fd.Body == nil {
			continue
		}
		switch fd.Name.Name {
		case "SetRunId":
			setRunId = c17StripCalls(c17Print(fsetO, fd.Body), "ro.logger.")
		case "sendCmdsBatch":
			ast.Inspect(fd.Body, func(n ast.Node) bool {
				if ce, ok := n.(*ast.CallExpr); ok {
					if t := c17Print(fsetO, ce); strings.HasPrefix(t, "batcher.Put(") && strings.Contains(t, "checkpointKv.") {
						cpPuts = append(cpPuts, t)
					}
				}
				return true
			})
		}
	}
	if setRunId == "" || len(cpPuts) == 0 {
		die("syncer/output.go: SetRunId / the checkpoint writes of sendCmdsBatch not found")
	}
	facts["c17_setrunid"] = setRunId
	facts["c17_sender_cp_writes"] = cpPuts

	// ---- syncer/bisync.go: the recovery of a start runs synchronously inside bisyncStartPoint
	// (Model/FrontierTraffic.lean: no unit commits while a recovery request is outstanding):
	// no goroutine is started in these functions, and StartPoint calls bisyncStartPoint directly
	// (the call graph is followed by NAME through every non-test file of package syncer and of
	// pkg/redis/checkpoint: a goroutine started in a helper the recovery calls counts as well)
	type fn struct {
		fset *token.FileSet
		decl *ast.FuncDecl
		file string
	}
	funcs := map[string][]fn{}
	for _, dir := range []string{"syncer", "pkg/redis/checkpoint"} {
		ents, err := os.ReadDir(filepath.Join(*repo, dir))
		if err != nil {
			die("%v", err)
		}
		for _, e := range ents {
			if e.IsDir() || !strings.HasSuffix(e.Name(), ".go") || strings.HasSuffix(e.Name(), "_test.go") {
				continue
			}
			fs, f := parseFile(filepath.Join(dir, e.Name()))
			for _, d := range f.Decls {
				if fd, ok := d.(*ast.FuncDecl); ok && fd.Body != nil {
					funcs[fd.Name.Name] = append(funcs[fd.Name.Name], fn{fs, fd, dir + "/" + e.Name()})
				}
			}
		}
	}
	sync := map[string][]string{}
	for _, name := range []string{"bisyncStartPoint", "purgeBisyncRecoveryState", "cleanupRecoveredBisyncCommitRecords"} {
		if len(funcs[name]) == 0 {
			die("syncer: %s not found", name)
		}
		sync[name] = []string{}
		seen := map[string]bool{}
		work := []string{name}
		for len(work) > 0 {
			cur := work[0]
			work = work[1:]
			if seen[cur] {
				continue
			}
			seen[cur] = true
			for _, f := range funcs[cur] {
				ast.Inspect(f.decl.Body, func(n ast.Node) bool {
					switch st := n.(type) {
					case *ast.GoStmt:
						sync[name] = append(sync[name], cur+": "+c17Print(f.fset, st))
					case *ast.CallExpr:
						callee := ""
						switch fx := st.Fun.(type) {
						case *ast.Ident:
							callee = fx.Name
						case *ast.SelectorExpr:
							callee = fx.Sel.Name
						}
						if callee == "SafeGo" || callee == "WgGo" {
							sync[name] = append(sync[name], cur+": "+c17Print(f.fset, st.Fun))
						}
						// follow calls into the two packages; common method names of other packages
						// (Close, Do, Put, Exec, ...) resolve to nothing here or to harmless bodies
						if callee != "" && len(funcs[callee]) > 0 && !seen[callee] {
							work = append(work, callee)
						}
					}
					return true
				})
			}
		}
		sort.Strings(sync[name])
	}
	facts["c14_start_sync"] = sync
	var spCalls []string
	for _, d := range fo.Decls {
		fd, ok := d.(*ast.FuncDecl)
		if !ok || fd.Name.Name != "StartPoint" || fd.Body == nil {
			continue
		}
		ast.Inspect(fd.Body, func(n ast.Node) bool {
			if as, ok := n.(*ast.AssignStmt); ok {
				if t := c17Print(fsetO, as); strings.Contains(t, "bisyncStartPoint(") {
					spCalls = append(spCalls, t)
				}
			}
			return true
		})
	}
	facts["c14_startpoint_calls"] = spCalls
}

// c17StripLogs removes `sc.logger.X(...)` statements from a printed block
// (they only report; the harness transliteration has none).
func c17StripLogs(s string) string { return c17StripCalls(s, "sc.logger.") }

// c17StripCalls removes the calls `<prefix>X(...)` from a printed block
func c17StripCalls(s string, prefix string) string {
	for {
		i := strings.Index(s, prefix)
		if i < 0 {
			return strings.Join(strings.Fields(s), " ")
		}
		// find the matching close paren of the call
		j := strings.Index(s[i:], "(")
		if j < 0 {
			return s
		}
		depth := 0
		k := i + j
		inStr := false
		for ; k < len(s); k++ {
			c := s[k]
			if c == '"' && s[k-1] != '\\' {
				inStr = !inStr
			}
			if inStr {
				continue
			}
			if c == '(' {
				depth++
			} else if c == ')' {
				depth--
				if depth == 0 {
					break
				}
			}
		}
		s = s[:i] + s[k+1:]
	}
}
