package main

// C12, dimension audit item 4: process-global state reachable from the property's code. Source fact
// c12_globals: every package-level `var` of the decoder / encoder / writer files, and every function (other
// than a declaration initialiser) that assigns it, one of its elements or fields. A variable written only in
// `init` is a read-only table for the code under test; anything else is shared mutable state that would need
// first-use and concurrent-use cases.

import (
	"go/ast"
	"go/token"
	"sort"
)

func genC12Globals() {
	var out []string
	for _, rel := range []string{"pkg/redis/client/decoder.go", "pkg/redis/client/encoder.go", "pkg/redis/client/handler.go",
		"pkg/redis/client/resp.go", "pkg/redis/client/proto/writer.go"} {
		_, f := parseFile(rel)
		vars := map[string]bool{}
		for _, d := range f.Decls {
			gd, ok := d.(*ast.GenDecl)
			if !ok || gd.Tok != token.VAR {
				continue
			}
			for _, sp := range gd.Specs {
				for _, n := range sp.(*ast.ValueSpec).Names {
					if n.Name != "_" {
						vars[n.Name] = true
						out = append(out, rel+": var "+n.Name)
					}
				}
			}
		}
		root := func(e ast.Expr) string {
			for {
				switch x := e.(type) {
				case *ast.Ident:
					return x.Name
				case *ast.IndexExpr:
					e = x.X
				case *ast.SelectorExpr:
					e = x.X
				case *ast.StarExpr:
					e = x.X
				case *ast.ParenExpr:
					e = x.X
				default:
					return ""
				}
			}
		}
		for _, d := range f.Decls {
			fd, ok := d.(*ast.FuncDecl)
			if !ok || fd.Body == nil {
				continue
			}
			local := map[string]bool{}
			for _, fl := range []*ast.FieldList{fd.Recv, fd.Type.Params, fd.Type.Results} {
				if fl != nil {
					for _, fi := range fl.List {
						for _, n := range fi.Names {
							local[n.Name] = true
						}
					}
				}
			}
			seen := map[string]bool{}
			ast.Inspect(fd.Body, func(n ast.Node) bool {
				var lhs []ast.Expr
				switch s := n.(type) {
				case *ast.AssignStmt:
					if s.Tok == token.DEFINE {
						for _, l := range s.Lhs {
							if id, ok := l.(*ast.Ident); ok {
								local[id.Name] = true
							}
						}
						return true
					}
					lhs = s.Lhs
				case *ast.IncDecStmt:
					lhs = []ast.Expr{s.X}
				}
				for _, l := range lhs {
					if r := root(l); r != "" && vars[r] && !local[r] && !seen[r] {
						seen[r] = true
						out = append(out, rel+": "+r+" written in "+fd.Name.Name)
					}
				}
				return true
			})
		}
	}
	sort.Strings(out)
	facts["c12_globals"] = out
}
