package main

// C01/C02/C07/C09 (session 5): the DECISIONS of the sendCmdsBatch loop regenerated as Lean Bool functions
// (lean/GunYu/Gen/SenderGuards.lean; equivalence with the hand model: Props/C01Gen.lean). The loop does I/O
// between these decisions, so gofn (whole pure functions) does not apply; the conditions are translated
// expression by expression with C17's guard translator (comparisons of integers, && || !, parentheses).
// Anything else - a condition moved into a helper, another case expression - makes this generator fail
// (gen_errors[c01guards]: a broken tie, never a guess).
//
//   sgSize           `if !needFlush && !inTransaction && (uint(len(cmdQueue)) >= BatchCmdCount || queuedByteSize >= BatchBufferSize)`
//   sgBatchTick      case <-batchTicker.C:      `if !needFlush && !inTransaction && (len(cmdQueue) > 0)`
//   sgKeepalive      case <-keepaliveTicker.C:  `if !inTransaction && !needFlush`, sgKeepaliveEmpty `if len(cmdQueue) == 0`
//   sgCpTick/sgDone  case <-updateCpTicker.C / <-replayWait.Done(): `if !inTransaction && !transactionBatch`
//   sgD4             sendFuncOnce: `if lastOffset < 0`
//   sgEarly          sendFuncOnce: `if len(cmdQueue) == 0 && shouldInTransaction && !(shouldUpdateCP && resume)`
//   sgMem            setMemCP:     `if shouldUpdateCP && !resume`

import (
	"fmt"
	"go/ast"
	"go/token"
	"strings"
)

func genC01Guards() {
	fset, f := parseFile("syncer/output.go")
	var fd *ast.FuncDecl
	for _, d := range f.Decls {
		if x, ok := d.(*ast.FuncDecl); ok && x.Name.Name == "sendCmdsBatch" && x.Body != nil {
			fd = x
		}
	}
	if fd == nil {
		die("syncer/output.go: sendCmdsBatch not found")
	}
	p := func(n ast.Node) string { return c17Print(fset, n) }
	env := &c17gEnv{
		ints: map[string]string{"uint(len(cmdQueue))": "qlen", "len(cmdQueue)": "qlen", "ro.cfg.BatchCmdCount": "bc",
			"queuedByteSize": "qb", "ro.cfg.BatchBufferSize": "bb", "lastOffset": "off"},
		bools: map[string]string{"needFlush": "nf", "inTransaction": "inTxn", "transactionBatch": "tb",
			"shouldInTransaction": "tb", "shouldUpdateCP": "up", "ro.cfg.EnableResumeFromBreakPoint": "resume"},
	}
	guard := func(what string, e ast.Expr) string {
		s, b := c17gExpr(fset, env, e)
		if !b {
			die("sendCmdsBatch: %s is not boolean", what)
		}
		return s
	}
	// ---- the loop: the last `for` statement of the function
	var loop *ast.ForStmt
	for _, st := range fd.Body.List {
		if fs, ok := st.(*ast.ForStmt); ok && fs.Cond == nil && fs.Init == nil {
			loop = fs
		}
	}
	if loop == nil {
		die("sendCmdsBatch: the `for { select … }` loop not found")
	}
	var sel *ast.SelectStmt
	size := ""
	for _, st := range loop.Body.List {
		if s, ok := st.(*ast.SelectStmt); ok {
			if sel != nil {
				die("sendCmdsBatch: two select statements in the loop")
			}
			sel = s
		}
		if is, ok := st.(*ast.IfStmt); ok && sel != nil && strings.Contains(p(is.Cond), "BatchCmdCount") {
			if size != "" || is.Else != nil || is.Init != nil || len(is.Body.List) != 1 || p(is.Body.List[0]) != "needFlush = true" {
				die("sendCmdsBatch: the size test is not `if <cond> { needFlush = true }`")
			}
			size = guard("the size test", is.Cond)
		}
	}
	if sel == nil || size == "" {
		die("sendCmdsBatch: select / size test not found")
	}
	firstIf := func(cc *ast.CommClause, what string) *ast.IfStmt {
		if len(cc.Body) != 1 {
			die("sendCmdsBatch: case %s: expected one if statement, found %d statements", what, len(cc.Body))
		}
		is, ok := cc.Body[0].(*ast.IfStmt)
		if !ok || is.Else != nil || is.Init != nil {
			die("sendCmdsBatch: case %s: expected an else-less if", what)
		}
		return is
	}
	got := map[string]string{}
	for _, c := range sel.Body.List {
		cc := c.(*ast.CommClause)
		if cc.Comm == nil {
			die("sendCmdsBatch: the select has a default case")
		}
		switch p(cc.Comm) {
		case "<-batchTicker.C":
			got["sgBatchTick"] = guard("batch tick", firstIf(cc, "batchTicker").Cond)
		case "<-keepaliveTicker.C":
			is := firstIf(cc, "keepaliveTicker")
			got["sgKeepalive"] = guard("keepalive", is.Cond)
			var inner *ast.IfStmt
			for _, st := range is.Body.List {
				if x, ok := st.(*ast.IfStmt); ok {
					inner = x
				}
			}
			if inner == nil || inner.Else != nil {
				die("sendCmdsBatch: keepalive: inner `if len(cmdQueue) == 0` not found")
			}
			got["sgKeepaliveEmpty"] = guard("keepalive, empty queue", inner.Cond)
		case "<-updateCpTicker.C":
			got["sgCpTick"] = guard("checkpoint tick", firstIf(cc, "updateCpTicker").Cond)
		case "<-replayWait.Done()":
			got["sgDone"] = guard("done", firstIf(cc, "replayWait.Done").Cond)
		}
	}
	// ---- sendFuncOnce and setMemCP
	var once, mem *ast.FuncLit
	ast.Inspect(fd.Body, func(n ast.Node) bool {
		if as, ok := n.(*ast.AssignStmt); ok && len(as.Lhs) == 1 && len(as.Rhs) == 1 {
			if fl, ok := as.Rhs[0].(*ast.FuncLit); ok {
				switch p(as.Lhs[0]) {
				case "sendFuncOnce":
					once = fl
				case "setMemCP":
					mem = fl
				}
			}
		}
		return true
	})
	if once == nil || mem == nil {
		die("sendCmdsBatch: closures sendFuncOnce / setMemCP not found")
	}
	for _, st := range once.Body.List {
		is, ok := st.(*ast.IfStmt)
		if !ok {
			continue
		}
		c := p(is.Cond)
		if c == "lastOffset < 0" && got["sgD4"] == "" {
			if len(is.Body.List) != 1 || p(is.Body.List[0]) != "shouldUpdateCP = false" {
				die("sendFuncOnce: `if lastOffset < 0 { shouldUpdateCP = false }` expected")
			}
			got["sgD4"] = guard("D4 guard", is.Cond)
		}
		if strings.HasPrefix(c, "len(cmdQueue) == 0 && shouldInTransaction") {
			got["sgEarly"] = guard("early return", is.Cond)
		}
	}
	if len(mem.Body.List) != 1 {
		die("setMemCP: one if statement expected")
	}
	if is, ok := mem.Body.List[0].(*ast.IfStmt); ok && is.Else == nil {
		got["sgMem"] = guard("setMemCP", is.Cond)
	}
	sig := map[string]string{
		"sgSize": "(nf inTxn : Bool) (qlen bc qb bb : Int)", "sgBatchTick": "(nf inTxn : Bool) (qlen : Int)",
		"sgKeepalive": "(inTxn nf : Bool)", "sgKeepaliveEmpty": "(qlen : Int)", "sgCpTick": "(inTxn tb : Bool)",
		"sgDone": "(inTxn tb : Bool)", "sgD4": "(off : Int)", "sgEarly": "(qlen : Int) (tb up resume : Bool)",
		"sgMem": "(up resume : Bool)"}
	got["sgSize"] = size
	var sb strings.Builder
	sb.WriteString(header)
	sb.WriteString("namespace GunYu.Gen\n\n")
	for _, n := range []string{"sgSize", "sgBatchTick", "sgKeepalive", "sgKeepaliveEmpty", "sgCpTick", "sgDone", "sgD4", "sgEarly", "sgMem"} {
		if got[n] == "" {
			die("sendCmdsBatch: decision %s not found", n)
		}
		sb.WriteString(fmt.Sprintf("/-- sendCmdsBatch: decision `%s` -/\ndef %s %s : Bool := %s\n\n", n, n, sig[n], got[n]))
	}
	sb.WriteString("end GunYu.Gen\n")
	writeIfChanged(*out+"/SenderGuards.lean", sb.String())
	_ = token.ADD
}
