package main

// gofn: a Go -> Lean 4 TRANSLATOR for a small subset of Go, used for the small
// pure functions several properties rest on. Their Lean definitions are
// regenerated from /repo's source on every run into lean/GunYu/Gen/Fn*.lean;
// lean/GunYu/Props/<ID>Gen.lean proves each regenerated definition equal to the
// hand-written model the property theorems are about. Anything outside the
// subset makes the generator FAIL (die -> gen_errors -> broken tie); nothing is
// approximated silently. The Lean reading of each Go construct is in
// lean/GunYu/Basic/GoSem.lean (hand-written, trusted).
//
// This file: package loading (go/types, tolerant of unresolved imports), the
// type mapping, constants. gofn_stmt.go: statements and loops. gofn_expr.go:
// expressions. gofn_targets.go: the list of translated functions.

import (
	"fmt"
	"go/ast"
	"go/build"
	"go/constant"
	"go/parser"
	"go/token"
	"go/types"
	"os"
	"path/filepath"
	"sort"
	"strings"
)

// ---------------------------------------------------------------- packages

type gfPackage struct {
	rel   string
	fset  *token.FileSet
	files []*ast.File
	info  *types.Info
	pkg   *types.Package
	par   map[ast.Node]ast.Node // parent links (built lazily)
}

var gfPkgs = map[string]*gfPackage{}

// the default build on the platform the harness runs on, no extra tags
var gfBuildCtx = func() build.Context {
	c := build.Default
	c.BuildTags = nil
	c.CgoEnabled = true
	return c
}()
var gfModule = ""

// packages that are type-checked for real when imported (callees of translated
// functions live there); every other import is an empty stand-in, errors about
// its members are ignored, and an expression whose type therefore is unknown
// makes the translator die when (and only when) it has to translate it.
var gfRealPkgs = map[string]bool{"pkg/digest": true, "pkg/redis": true}

type gfImporter struct{}

func (gfImporter) Import(path string) (*types.Package, error) {
	if gfStdReal[path] { // session 5: packages of the standard library whose constants are needed (gofn_s5.go)
		if p, err := gfStdImport(path); err == nil {
			return p, nil
		}
	}
	if gfModule != "" && strings.HasPrefix(path, gfModule+"/") {
		rel := strings.TrimPrefix(path, gfModule+"/")
		if gfRealPkgs[rel] {
			// a dependency that cannot be loaded (does not type-check) becomes an empty stand-in for THIS
			// importer: a target that calls into it then dies at the call, a target that merely imports it
			// is not affected (the package's own targets die in gfRunTarget)
			if p := func() (p *types.Package) {
				defer func() {
					if r := recover(); r != nil {
						if _, ok := r.(genErr); !ok {
							panic(r)
						}
						p = nil
					}
				}()
				return gfLoad(rel).pkg
			}(); p != nil {
				return p, nil
			}
		}
	}
	base := gfImportBase(path) // gofn_c13.go: yaml.v3 -> yaml, x/v2 -> x
	p := types.NewPackage(path, base)
	p.MarkComplete()
	gfFake[path] = true
	return p, nil
}

// import paths answered with an empty stand-in
var gfFake = map[string]bool{}

func gfLoad(rel string) *gfPackage {
	if p, ok := gfPkgs[rel]; ok {
		return p
	}
	if gfModule == "" {
		b, err := os.ReadFile(filepath.Join(*repo, "go.mod"))
		if err != nil {
			die("go.mod: %v", err)
		}
		for _, l := range strings.Split(string(b), "\n") {
			if strings.HasPrefix(l, "module ") {
				gfModule = strings.TrimSpace(strings.TrimPrefix(l, "module "))
			}
		}
	}
	dir := filepath.Join(*repo, rel)
	ents, err := os.ReadDir(dir)
	if err != nil {
		die("read %s: %v", rel, err)
	}
	p := &gfPackage{rel: rel, fset: token.NewFileSet()}
	for _, e := range ents {
		n := e.Name()
		if e.IsDir() || !strings.HasSuffix(n, ".go") || strings.HasSuffix(n, "_test.go") {
			continue
		}
		// only the files of the default build (no tags) on this platform: a file excluded by a
		// //go:build line or a _GOOS/_GOARCH suffix is not the code that runs
		if ok, err := gfBuildCtx.MatchFile(dir, n); err != nil {
			die("build constraints of %s/%s: %v", rel, n, err)
		} else if !ok {
			continue
		}
		f, err := parser.ParseFile(p.fset, filepath.Join(dir, n), nil, parser.ParseComments)
		if err != nil {
			die("parse %s/%s: %v", rel, n, err)
		}
		p.files = append(p.files, f)
	}
	if len(p.files) == 0 {
		die("no Go files in %s", rel)
	}
	p.info = &types.Info{
		Types: map[ast.Expr]types.TypeAndValue{}, Defs: map[*ast.Ident]types.Object{},
		Uses: map[*ast.Ident]types.Object{}, Selections: map[*ast.SelectorExpr]*types.Selection{},
	}
	// Only the packages in gfRealPkgs are loaded for real; every other import is an empty stand-in, so
	// "undefined: pkg.Name" for an IMPORTED package name is expected and tolerated (an expression typed
	// through it has no type and the translator dies if it must translate it). Every other type error
	// (redeclaration, mismatched types, undefined local names, ...) means the package is not the code
	// that compiles: die.
	impNames := map[string]string{} // local import name -> path
	for _, file := range p.files {
		for _, im := range file.Imports {
			path := strings.Trim(im.Path.Value, "\"")
			name := gfImportBase(path)
			if im.Name != nil {
				name = im.Name.Name
			}
			impNames[name] = path
		}
	}
	var hard []string
	conf := types.Config{Importer: gfImporter{}, FakeImportC: true, Error: func(err error) {
		te, ok := err.(types.Error)
		if !ok {
			hard = append(hard, err.Error())
			return
		}
		if te.Soft {
			return
		}
		if strings.HasPrefix(te.Msg, "undefined: ") {
			q := strings.TrimPrefix(te.Msg, "undefined: ")
			if i := strings.Index(q, "."); i > 0 && gfFake[impNames[q[:i]]] {
				return
			}
		}
		hard = append(hard, te.Fset.Position(te.Pos).String()+": "+te.Msg)
	}}
	p.pkg, _ = conf.Check(gfModule+"/"+rel, p.fset, p.files, p.info)
	if p.pkg == nil {
		die("type-check of %s produced no package", rel)
	}
	if len(hard) > 0 {
		n := len(hard)
		if n > 3 {
			hard = hard[:3]
		}
		die("package %s does not type-check (%d errors beyond members of packages that are not loaded), first: %s", rel, n, strings.Join(hard, " | "))
	}
	gfPkgs[rel] = p
	return p
}

func (p *gfPackage) parents() map[ast.Node]ast.Node {
	if p.par != nil {
		return p.par
	}
	p.par = map[ast.Node]ast.Node{}
	for _, f := range p.files {
		var stack []ast.Node
		ast.Inspect(f, func(n ast.Node) bool {
			if n == nil {
				stack = stack[:len(stack)-1]
				return true
			}
			if len(stack) > 0 {
				p.par[n] = stack[len(stack)-1]
			}
			stack = append(stack, n)
			return true
		})
	}
	return p.par
}

func (p *gfPackage) pos(n ast.Node) string {
	ps := p.fset.Position(n.Pos())
	return fmt.Sprintf("%s:%d", filepath.Base(ps.Filename), ps.Line)
}

// ---------------------------------------------------------------- types

type gfKind int

const (
	kInt    gfKind = iota // int, int64 and named types over them: Int with 64-bit wrap
	kBV                   // uint16/32/64: BitVec bits
	kU8                   // byte
	kBool                 //
	kBytes                // string, []byte
	kStruct               // named struct
	kPtr                  // *struct as a VALUE: Option struct
	kSlice                // []T (T not byte): List T
	kErr                  // error: Bool (true = non-nil)
)

type gfT struct {
	k    gfKind
	bits int
	name string
	elem *gfT
	st   *types.Named
}

func (t *gfT) lean() string {
	switch t.k {
	case kInt:
		return "Int"
	case kBV:
		return fmt.Sprintf("BitVec %d", t.bits)
	case kU8:
		return "UInt8"
	case kBool, kErr:
		return "Bool"
	case kBytes:
		return "List UInt8"
	case kStruct:
		return t.name
	case kPtr:
		return "Option " + t.elem.leanArg()
	case kSlice:
		return "List " + t.elem.leanArg()
	}
	die("internal: lean type")
	return ""
}

func (t *gfT) leanArg() string {
	s := t.lean()
	if strings.Contains(s, " ") {
		return "(" + s + ")"
	}
	return s
}

func (t *gfT) zero() string {
	switch t.k {
	case kInt:
		return "(0 : Int)"
	case kBV:
		return fmt.Sprintf("0#%d", t.bits)
	case kU8:
		return "(0 : UInt8)"
	case kBool, kErr:
		return "false"
	case kBytes, kSlice:
		return "[]"
	case kPtr:
		return "none"
	case kStruct:
		s := t.st.Underlying().(*types.Struct)
		var fs []string
		for i := 0; i < s.NumFields(); i++ {
			fs = append(fs, fmt.Sprintf("%s := %s", gfLeanIdent(s.Field(i).Name()), gfTypeOf(s.Field(i).Type(), "field").zero()))
		}
		return fmt.Sprintf("({ %s } : %s)", strings.Join(fs, ", "), t.name)
	}
	die("internal: zero")
	return ""
}

func (t *gfT) same(u *gfT) bool {
	if t.k != u.k || t.bits != u.bits || t.name != u.name {
		return false
	}
	if t.elem != nil && u.elem != nil {
		return t.elem.same(u.elem)
	}
	return t.elem == u.elem
}

// structs seen while translating the current target (emitted as Lean structures)
var gfStructs []*types.Named
var gfStructNames map[string]string // Go struct name -> Lean name (per target; may be overridden)

func gfNeedStruct(n *types.Named) {
	for _, s := range gfStructs {
		if s == n {
			return
		}
	}
	// fields first (a struct a field refers to is emitted before it)
	st := n.Underlying().(*types.Struct)
	for i := 0; i < st.NumFields(); i++ {
		gfTypeOf(st.Field(i).Type(), "field "+st.Field(i).Name())
	}
	gfStructs = append(gfStructs, n)
}

func gfTypeOf(t types.Type, what string) *gfT {
	if t == nil {
		die("%s: no type information", what)
	}
	t = types.Unalias(t)
	switch u := t.(type) {
	case *types.Named:
		if u.Obj().Pkg() == nil && u.Obj().Name() == "error" {
			return &gfT{k: kErr}
		}
		switch uu := u.Underlying().(type) {
		case *types.Struct:
			gfNeedStruct(u)
			_ = uu
			return &gfT{k: kStruct, name: u.Obj().Name(), st: u}
		case *types.Basic:
			return gfTypeOf(uu, what)
		}
		die("%s: named type %s outside the subset", what, u.String())
	case *types.Basic:
		switch u.Kind() {
		case types.Int, types.Int64, types.UntypedInt:
			return &gfT{k: kInt}
		case types.Uint16:
			return &gfT{k: kBV, bits: 16}
		case types.Uint32:
			return &gfT{k: kBV, bits: 32}
		case types.Uint64:
			return &gfT{k: kBV, bits: 64}
		case types.Uint8:
			return &gfT{k: kU8}
		case types.Bool, types.UntypedBool:
			return &gfT{k: kBool}
		case types.String, types.UntypedString:
			return &gfT{k: kBytes}
		}
		die("%s: basic type %s outside the subset (rune values are accepted only as the value of an ASCII-compared string range)", what, u.String())
	case *types.Pointer:
		e := gfTypeOf(u.Elem(), what)
		if e.k != kStruct {
			die("%s: pointer to a non-struct outside the subset", what)
		}
		return &gfT{k: kPtr, elem: e}
	case *types.Slice:
		e := gfTypeOf(u.Elem(), what)
		if e.k == kU8 {
			return &gfT{k: kBytes}
		}
		return &gfT{k: kSlice, elem: e}
	}
	die("%s: type %s outside the subset", what, t.String())
	return nil
}

// ---------------------------------------------------------------- constants

func gfBytesLit(s string) string {
	parts := make([]string, len(s))
	for i := 0; i < len(s); i++ {
		parts[i] = fmt.Sprintf("%d", s[i])
	}
	c := strings.Map(func(r rune) rune {
		if r < 32 || r > 126 || r == '-' || r == '/' {
			return '?'
		}
		return r
	}, s)
	return fmt.Sprintf("([%s] : List UInt8) /- %q -/", strings.Join(parts, ", "), c)
}

func gfConst(v constant.Value, t *gfT, what string) string {
	switch t.k {
	case kInt:
		n, ok := constant.Int64Val(constant.ToInt(v))
		if !ok {
			die("%s: integer constant out of the int64 range", what)
		}
		return fmt.Sprintf("(%d : Int)", n)
	case kBV:
		n, ok := constant.Uint64Val(constant.ToInt(v))
		if !ok || (t.bits < 64 && n >= 1<<uint(t.bits)) {
			die("%s: constant out of range of uint%d", what, t.bits)
		}
		return fmt.Sprintf("%d#%d", n, t.bits)
	case kU8:
		n, ok := constant.Uint64Val(constant.ToInt(v))
		if !ok || n > 255 {
			die("%s: constant out of range of byte", what)
		}
		return fmt.Sprintf("(%d : UInt8)", n)
	case kBool:
		if constant.BoolVal(v) {
			return "true"
		}
		return "false"
	case kBytes:
		return gfBytesLit(constant.StringVal(v))
	}
	die("%s: constant of a type outside the subset", what)
	return ""
}

var gfReserved = map[string]bool{"end": true, "at": true, "from": true, "fun": true, "open": true, "in": true, "do": true,
	"then": true, "else": true, "if": true, "let": true, "have": true, "show": true, "match": true, "with": true, "where": true,
	"def": true, "theorem": true, "by": true, "fuel": true, "pure": true, "some": true, "none": true, "true": true, "false": true,
	"Type": true, "Prop": true, "Sort": true, "namespace": true, "section": true, "instance": true, "structure": true, "class": true,
	"return": true, "for": true, "mut": true, "try": true, "catch": true, "finally": true, "unless": true, "break": true, "continue": true,
	"import": true, "export": true, "private": true, "protected": true, "partial": true, "using": true, "calc": true, "ret_": true, "deriving": true}

func gfLeanIdent(s string) string {
	if gfReserved[s] || strings.HasPrefix(s, "t") && len(s) > 1 && strings.Trim(s[1:], "0123456789") == "" {
		return s + "_"
	}
	return s
}

// ---------------------------------------------------------------- output buffer

type gfBuf struct {
	lines []string
	ind   int
}

func (b *gfBuf) add(format string, a ...interface{}) {
	b.lines = append(b.lines, strings.Repeat("  ", b.ind)+fmt.Sprintf(format, a...))
}

func (b *gfBuf) nest(f func()) {
	b.ind++
	f()
	b.ind--
}

func gfTuple(xs []string) string {
	switch len(xs) {
	case 0:
		return "()"
	case 1:
		return xs[0]
	}
	return "(" + strings.Join(xs, ", ") + ")"
}

func gfTupleT(ts []*gfT) string {
	switch len(ts) {
	case 0:
		return "Unit"
	case 1:
		return ts[0].lean()
	}
	var s []string
	for _, t := range ts {
		s = append(s, t.leanArg())
	}
	return strings.Join(s, " × ")
}

func gfSortObjs(m map[types.Object]bool) []types.Object {
	var r []types.Object
	for o := range m {
		r = append(r, o)
	}
	sort.Slice(r, func(i, j int) bool { return r[i].Pos() < r[j].Pos() })
	return r
}
