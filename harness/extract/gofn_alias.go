package main

import (
	"go/ast"
	"go/types"
)

func identOfObj(pk *gfPackage, o types.Object) ast.Node {
	for id, d := range pk.info.Defs {
		if d == o {
			return id
		}
	}
	return pk.files[0]
}
