package main

// C10: regenerate the keyspec command tables, the partial-projection command
// list, filter.NoRouteCmds and the reserved key prefixes; list how
// NewRedisOutput wires the output filter and where the filter is consulted.

import (
	"bytes"
	"fmt"
	"go/ast"
	"go/printer"
	"go/token"
	"os"
	"path/filepath"
	"sort"
	"strconv"
	"strings"
)

func c10Bytes(s string) string {
	parts := make([]string, len(s))
	for i := 0; i < len(s); i++ {
		parts[i] = strconv.Itoa(int(s[i]))
	}
	return "[" + strings.Join(parts, ",") + "]"
}

func c10Str(e ast.Expr, what string) string {
	bl, ok := e.(*ast.BasicLit)
	if !ok || bl.Kind != token.STRING {
		die("%s: not a string literal", what)
	}
	s, err := strconv.Unquote(bl.Value)
	if err != nil {
		die("%s: %v", what, err)
	}
	return s
}

func c10Int(e ast.Expr, what string) int64 {
	switch x := e.(type) {
	case *ast.BasicLit:
		if x.Kind == token.INT {
			v, err := strconv.ParseInt(x.Value, 0, 64)
			if err != nil {
				die("%s: %v", what, err)
			}
			return v
		}
	case *ast.UnaryExpr:
		if x.Op == token.SUB {
			return -c10Int(x.X, what)
		}
		if x.Op == token.ADD {
			return c10Int(x.X, what)
		}
	case *ast.ParenExpr:
		return c10Int(x.X, what)
	}
	die("%s: not an integer literal", what)
	return 0
}

func c10LeanInt(v int64) string {
	if v < 0 {
		return fmt.Sprintf("(%d)", v)
	}
	return strconv.FormatInt(v, 10)
}

func c10Triple(e ast.Expr, what string) [3]int64 {
	cl, ok := e.(*ast.CompositeLit)
	if !ok {
		die("%s: not a composite literal", what)
	}
	var r [3]int64
	if len(cl.Elts) != 3 {
		die("%s: expected 3 elements", what)
	}
	names := map[string]int{"first": 0, "last": 1, "step": 2}
	for i, el := range cl.Elts {
		if kv, ok := el.(*ast.KeyValueExpr); ok {
			id, ok := kv.Key.(*ast.Ident)
			if !ok {
				die("%s: odd key", what)
			}
			j, ok := names[id.Name]
			if !ok {
				die("%s: unknown field %s", what, id.Name)
			}
			r[j] = c10Int(kv.Value, what)
		} else {
			r[i] = c10Int(el, what)
		}
	}
	return r
}

func c10Render(fset *token.FileSet, n ast.Node) string {
	var b bytes.Buffer
	printer.Fprint(&b, fset, n)
	return strings.Join(strings.Fields(b.String()), " ")
}

func c10FindFunc(f *ast.File, name string) *ast.FuncDecl {
	for _, d := range f.Decls {
		if fd, ok := d.(*ast.FuncDecl); ok && fd.Name.Name == name {
			return fd
		}
	}
	return nil
}

func c10IntList(es []ast.Expr, what string) string {
	parts := make([]string, len(es))
	for i, e := range es {
		parts[i] = c10LeanInt(c10Int(e, what))
	}
	return "[" + strings.Join(parts, ", ") + "]"
}

func genC10KeySpec() {
	ksFset, f := parseFile("pkg/redis/keyspec/keyspec.go")

	generic := [3]int64{}
	if e := findVar(f, "genericKeyPos"); e != nil {
		generic = c10Triple(e, "genericKeyPos")
	} else {
		die("genericKeyPos not found")
	}

	var sb strings.Builder
	sb.WriteString(header)
	sb.WriteString("namespace GunYu.Gen\n\n")
	sb.WriteString("/-- shapes of the values of pkg/redis/keyspec/keyspec.go `commandKeyExtractors` -/\n")
	sb.WriteString("inductive KeyExtractor where\n")
	sb.WriteString("  | numkeysStep (numkeysIdx firstKeyIdx keyStep : Int) (fixedKeys : List Int)\n")
	sb.WriteString("  | fixedKeys (indexes : List Int)\n")
	sb.WriteString("  | geoRadiusStore\n  | xgroup\n  | streams\n  | sort\n")
	sb.WriteString("  deriving Repr, DecidableEq\n\n")

	// ---- commandKeyPositions
	e := findVar(f, "commandKeyPositions")
	cl, ok := e.(*ast.CompositeLit)
	if e == nil || !ok {
		die("commandKeyPositions not found")
	}
	sb.WriteString(fmt.Sprintf("/-- `commandKeyPositions` (%d rows): lower-case name ↦ (first, last, step) -/\n", len(cl.Elts)))
	sb.WriteString("def commandKeyPositions : List (List UInt8 × (Int × Int × Int)) := [\n")
	seen := map[string]bool{}
	var posRows, extRows []string
	for i, el := range cl.Elts {
		kv, ok := el.(*ast.KeyValueExpr)
		if !ok {
			die("commandKeyPositions: element %d not key/value", i)
		}
		name := c10Str(kv.Key, "commandKeyPositions key")
		if seen[name] {
			die("commandKeyPositions: duplicate %s", name)
		}
		seen[name] = true
		var t [3]int64
		switch v := kv.Value.(type) {
		case *ast.Ident:
			if v.Name != "genericKeyPos" {
				die("commandKeyPositions[%s]: unknown identifier %s", name, v.Name)
			}
			t = generic
		case *ast.CompositeLit:
			t = c10Triple(v, "commandKeyPositions["+name+"]")
		default:
			die("commandKeyPositions[%s]: unsupported value", name)
		}
		sep := ","
		if i == len(cl.Elts)-1 {
			sep = ""
		}
		sb.WriteString(fmt.Sprintf("  (%s, (%s, %s, %s))%s  -- %q\n", c10Bytes(name),
			c10LeanInt(t[0]), c10LeanInt(t[1]), c10LeanInt(t[2]), sep, name))
		posRows = append(posRows, fmt.Sprintf("%s:%d,%d,%d", name, t[0], t[1], t[2]))
	}
	sort.Strings(posRows)
	facts["keyspec_position_rows"] = posRows
	sb.WriteString("]\n\n")
	facts["keyspec_positions"] = len(cl.Elts)

	// ---- commandKeyExtractors
	e = findVar(f, "commandKeyExtractors")
	cl, ok = e.(*ast.CompositeLit)
	if e == nil || !ok {
		die("commandKeyExtractors not found")
	}
	sb.WriteString(fmt.Sprintf("/-- `commandKeyExtractors` (%d rows) -/\n", len(cl.Elts)))
	sb.WriteString("def commandKeyExtractors : List (List UInt8 × KeyExtractor) := [\n")
	seen = map[string]bool{}
	for i, el := range cl.Elts {
		kv, ok := el.(*ast.KeyValueExpr)
		if !ok {
			die("commandKeyExtractors: element %d not key/value", i)
		}
		name := c10Str(kv.Key, "commandKeyExtractors key")
		if seen[name] {
			die("commandKeyExtractors: duplicate %s", name)
		}
		seen[name] = true
		what := "commandKeyExtractors[" + name + "]"
		val := ""
		switch v := kv.Value.(type) {
		case *ast.Ident:
			switch v.Name {
			case "geoRadiusStoreExtractor":
				val = ".geoRadiusStore"
			case "xgroupExtractor":
				val = ".xgroup"
			case "streamsExtractor":
				val = ".streams"
			case "sortExtractor":
				val = ".sort"
			default:
				die("%s: unknown extractor %s", what, v.Name)
			}
		case *ast.CallExpr:
			fn, ok := v.Fun.(*ast.Ident)
			if !ok {
				die("%s: unsupported call", what)
			}
			switch fn.Name {
			case "numkeysExtractor": // numkeysStepExtractor(numkeysIdx, firstKeyIdx, 1, fixedKeys...)
				if len(v.Args) < 2 {
					die("%s: numkeysExtractor needs 2+ args", what)
				}
				val = fmt.Sprintf(".numkeysStep %s %s 1 %s", c10LeanInt(c10Int(v.Args[0], what)),
					c10LeanInt(c10Int(v.Args[1], what)), c10IntList(v.Args[2:], what))
			case "numkeysStepExtractor":
				if len(v.Args) < 3 {
					die("%s: numkeysStepExtractor needs 3+ args", what)
				}
				val = fmt.Sprintf(".numkeysStep %s %s %s %s", c10LeanInt(c10Int(v.Args[0], what)),
					c10LeanInt(c10Int(v.Args[1], what)), c10LeanInt(c10Int(v.Args[2], what)), c10IntList(v.Args[3:], what))
			case "fixedKeyExtractor":
				val = fmt.Sprintf(".fixedKeys %s", c10IntList(v.Args, what))
			default:
				die("%s: unknown extractor constructor %s", what, fn.Name)
			}
		default:
			die("%s: unsupported value", what)
		}
		sep := ","
		if i == len(cl.Elts)-1 {
			sep = ""
		}
		sb.WriteString(fmt.Sprintf("  (%s, %s)%s  -- %q\n", c10Bytes(name), val, sep, name))
		extRows = append(extRows, name+":"+val)
	}
	sort.Strings(extRows)
	facts["keyspec_extractor_rows"] = extRows
	sb.WriteString("]\n\n")
	facts["keyspec_extractors"] = len(cl.Elts)

	// numkeysExtractor must still delegate with step 1
	if fd := c10FindFunc(f, "numkeysExtractor"); fd != nil {
		facts["keyspec_numkeysExtractor_body"] = c10Render(ksFset, fd.Body)
	} else {
		die("numkeysExtractor not found")
	}

	// ---- CommandAllowsPartialProjection: the `case` list that returns true
	fd := c10FindFunc(f, "CommandAllowsPartialProjection")
	if fd == nil {
		die("CommandAllowsPartialProjection not found")
	}
	var partial []string
	found := false
	ast.Inspect(fd.Body, func(n ast.Node) bool {
		cc, ok := n.(*ast.CaseClause)
		if !ok || cc.List == nil {
			return true
		}
		if len(cc.Body) == 1 {
			if rs, ok := cc.Body[0].(*ast.ReturnStmt); ok && len(rs.Results) == 1 {
				if id, ok := rs.Results[0].(*ast.Ident); ok && id.Name == "true" {
					for _, x := range cc.List {
						partial = append(partial, c10Str(x, "CommandAllowsPartialProjection case"))
					}
					found = true
				}
			}
		}
		return true
	})
	if !found {
		die("CommandAllowsPartialProjection: no `return true` case found")
	}
	sb.WriteString("/-- commands `CommandAllowsPartialProjection` returns true for (lower-case) -/\n")
	sb.WriteString("def partialProjectionCmds : List (List UInt8) := [\n")
	for i, p := range partial {
		sep := ","
		if i == len(partial)-1 {
			sep = ""
		}
		sb.WriteString(fmt.Sprintf("  %s%s  -- %q\n", c10Bytes(p), sep, p))
	}
	sb.WriteString("]\n\nend GunYu.Gen\n")
	facts["keyspec_partial_projection"] = partial
	writeIfChanged(filepath.Join(*out, "KeySpec.lean"), sb.String())
}

func c10ConstString(rel, name string) string {
	_, f := parseFile(rel)
	for _, d := range f.Decls {
		gd, ok := d.(*ast.GenDecl)
		if !ok {
			continue
		}
		for _, s := range gd.Specs {
			vs, ok := s.(*ast.ValueSpec)
			if !ok {
				continue
			}
			for i, n := range vs.Names {
				if n.Name == name && i < len(vs.Values) {
					return c10Str(vs.Values[i], name)
				}
			}
		}
	}
	die("%s: constant %s not found", rel, name)
	return ""
}

func genC10Consts() {
	_, f := parseFile("pkg/filter/filter.go")
	e := findVar(f, "NoRouteCmds")
	cl, ok := e.(*ast.CompositeLit)
	if e == nil || !ok {
		die("NoRouteCmds not found")
	}
	var sb strings.Builder
	sb.WriteString(header)
	sb.WriteString("namespace GunYu.Gen\n\n")
	sb.WriteString(fmt.Sprintf("/-- pkg/filter/filter.go `NoRouteCmds` (%d entries) -/\n", len(cl.Elts)))
	sb.WriteString("def noRouteCmds : List (List UInt8) := [\n")
	for i, el := range cl.Elts {
		s := c10Str(el, "NoRouteCmds")
		sep := ","
		if i == len(cl.Elts)-1 {
			sep = ""
		}
		sb.WriteString(fmt.Sprintf("  %s%s  -- %q\n", c10Bytes(s), sep, s))
	}
	sb.WriteString("]\n\n")
	facts["noroute_cmds"] = len(cl.Elts)
	var nr []string
	for _, el := range cl.Elts {
		nr = append(nr, c10Str(el, "NoRouteCmds"))
	}
	facts["noroute_cmds_list"] = nr

	cp := c10ConstString("config/var.go", "CheckpointKey")
	ns := c10ConstString("config/var.go", "NamespacePrefixKey")
	sb.WriteString(fmt.Sprintf("/-- config.CheckpointKey = %q -/\ndef checkpointKey : List UInt8 := %s\n\n", cp, c10Bytes(cp)))
	sb.WriteString(fmt.Sprintf("/-- config.NamespacePrefixKey = %q -/\ndef namespacePrefixKey : List UInt8 := %s\n\n", ns, c10Bytes(ns)))
	sb.WriteString("end GunYu.Gen\n")
	facts["reserved_prefixes"] = []string{cp, ns}
	writeIfChanged(filepath.Join(*out, "FilterConsts.lean"), sb.String())
}

// c10Wiring records (a) every call on ro.outFilter inside NewRedisOutput, in
// order, rendered as source, and (b) every place syncer/output.go consults the
// filter, as "<func>:<method>". The check compares both with expectations, so
// a dropped reserved prefix or a bypassing call site fails the tie.
func c10Wiring() {
	// every non-test file of package syncer (output.go, bisync.go, bisync_rdb.go, …)
	ents, err := os.ReadDir(filepath.Join(*repo, "syncer"))
	if err != nil {
		die("read syncer: %v", err)
	}
	var wiring []string
	var uses []string
	for _, ent := range ents {
		name := ent.Name()
		if ent.IsDir() || !strings.HasSuffix(name, ".go") || strings.HasSuffix(name, "_test.go") {
			continue
		}
		fset, f := parseFile(filepath.Join("syncer", name))
		for _, d := range f.Decls {
			fd, ok := d.(*ast.FuncDecl)
			if !ok || fd.Body == nil {
				continue
			}
			var stack []ast.Node
			ast.Inspect(fd.Body, func(n ast.Node) bool {
				if n == nil {
					stack = stack[:len(stack)-1]
					return true
				}
				stack = append(stack, n)
				ce, ok := n.(*ast.CallExpr)
				if !ok {
					return true
				}
				sel, ok := ce.Fun.(*ast.SelectorExpr)
				if !ok {
					return true
				}
				inner, ok := sel.X.(*ast.SelectorExpr)
				if !ok || (inner.Sel.Name != "outFilter" && inner.Sel.Name != "bisyncNsFilter") {
					return true
				}
				// context: the condition of the innermost `if` whose condition contains the
				// call, else the innermost assignment; plus the conditions of the enclosing
				// `if` bodies (guards)
				ctx := ""
				var guards []string
				for i := len(stack) - 2; i >= 0; i-- {
					switch x := stack[i].(type) {
					case *ast.IfStmt:
						if x.Cond.Pos() <= ce.Pos() && ce.End() <= x.Cond.End() {
							if ctx == "" {
								ctx = "if " + c10Render(fset, x.Cond)
							}
						} else if x.Body.Pos() <= ce.Pos() && ce.End() <= x.Body.End() {
							guards = append(guards, c10Render(fset, x.Cond))
						} else if x.Else != nil && x.Else.Pos() <= ce.Pos() && ce.End() <= x.Else.End() {
							guards = append(guards, "!("+c10Render(fset, x.Cond)+")")
						}
					case *ast.AssignStmt:
						if ctx == "" {
							ctx = c10Render(fset, x)
						}
					}
				}
				if ctx == "" {
					ctx = c10Render(fset, ce)
				}
				if fd.Name.Name == "NewRedisOutput" {
					w := c10Render(fset, ce)
					if len(guards) > 0 {
						w += " [if " + strings.Join(guards, " && ") + "]"
					}
					wiring = append(wiring, w)
				} else {
					u := name + ":" + fd.Name.Name + ": " + ctx
					if len(guards) > 0 {
						u += " [in " + strings.Join(guards, " ; ") + "]"
					}
					uses = append(uses, u)
				}
				return true
			})
		}
	}
	sort.Strings(uses)
	facts["output_filter_wiring"] = wiring
	facts["output_filter_uses"] = uses

	// where the configured filter is handed to NewRedisOutput, and what config.fix does to it
	var handoff []string
	for _, rel := range []string{"syncer/syncer.go", "cmd/rdb.go"} {
		fset, f := parseFile(rel)
		ast.Inspect(f, func(n ast.Node) bool {
			kv, ok := n.(*ast.KeyValueExpr)
			if !ok {
				return true
			}
			if id, ok := kv.Key.(*ast.Ident); ok && id.Name == "Filter" {
				handoff = append(handoff, rel+": "+c10Render(fset, kv))
			}
			return true
		})
	}
	facts["output_filter_handoff"] = handoff
	// every assignment, in any non-test file of the repository, whose left side goes through a
	// field of the filter configuration (a rewrite of what the user configured)
	var cfgWrites []string
	fields := []string{".Filter", "DbBlacklist", "CmdBlacklist", "KeyFilter", "SlotFilter", "PrefixKeyWhitelist",
		"PrefixKeyBlacklist", "KeySlotWhitelist", "KeySlotBlacklist"}
	filepath.Walk(*repo, func(pth string, info os.FileInfo, err error) error {
		if err != nil {
			return nil
		}
		rel, _ := filepath.Rel(*repo, pth)
		if info.IsDir() {
			if rel == "tests" || rel == ".git" || rel == "vendor" || rel == "docs" || rel == "deploy" {
				return filepath.SkipDir
			}
			return nil
		}
		if !strings.HasSuffix(pth, ".go") || strings.HasSuffix(pth, "_test.go") {
			return nil
		}
		fset, f := parseFile(rel)
		ast.Inspect(f, func(n ast.Node) bool {
			as, ok := n.(*ast.AssignStmt)
			if !ok {
				return true
			}
			for _, l := range as.Lhs {
				ls := c10Render(fset, l)
				for _, fl := range fields {
					if strings.Contains(ls, fl) {
						cfgWrites = append(cfgWrites, rel+": "+c10Render(fset, as))
						return true
					}
				}
			}
			return true
		})
		return nil
	})
	sort.Strings(cfgWrites)
	if cfgWrites == nil {
		cfgWrites = []string{}
	}

	// the data that flows into the wiring: every assignment inside NewRedisOutput to an identifier
	// that is an argument of an Insert* call
	var defs []string
	{
		fset, f := parseFile("syncer/output.go")
		if fd := c10FindFunc(f, "NewRedisOutput"); fd != nil {
			used := map[string]bool{}
			ast.Inspect(fd.Body, func(n ast.Node) bool {
				ce, ok := n.(*ast.CallExpr)
				if !ok {
					return true
				}
				if sel, ok := ce.Fun.(*ast.SelectorExpr); ok && strings.HasPrefix(sel.Sel.Name, "Insert") {
					for _, a := range ce.Args {
						ast.Inspect(a, func(m ast.Node) bool {
							if id, ok := m.(*ast.Ident); ok {
								used[id.Name] = true
							}
							return true
						})
					}
				}
				return true
			})
			ast.Inspect(fd.Body, func(n ast.Node) bool {
				as, ok := n.(*ast.AssignStmt)
				if !ok {
					return true
				}
				for _, l := range as.Lhs {
					if id, ok := l.(*ast.Ident); ok && used[id.Name] && id.Name != "cfg" && id.Name != "ro" {
						defs = append(defs, c10Render(fset, as))
					}
				}
				return true
			})
		}
	}
	if defs == nil {
		defs = []string{}
	}
	facts["output_filter_wiring_defs"] = defs
	facts["config_filter_writes"] = cfgWrites
}

func genC10() {
	genC10KeySpec()
	genC10Consts()
	c10Wiring()
	// pkg/filter/trie.go + FilterCmd / FilterKey translated into Lean (gofn_c10.go); its own generator name, so that a
	// trie edit outside the subset is reported as that generator's failure
	runGen("gofn_trie", genGofnTrie)
	// C11's by-value scan of slot arithmetic (c11.go; the C10/C11 owner's generators are started from here so that the
	// shared extra.go is not edited)
	runGen("c11", genC11)
}
