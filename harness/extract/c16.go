package main

// C16: constants and source facts of syncer/replica.go that the model
// lean/GunYu/Model/Replica.lean transcribes.
//   * Gen/ReplicaConsts.lean: the gap above which preSync deletes the local copy
//     (the right operand of `gap > …` in preSync), the numeric SyncResponse codes
//     (pkg/api/golang/api.pb.go).
//   * facts c16_calls: per method of ReplicaLeader / ReplicaFollower, in source order,
//     every call on the channel (`rl.channel.X` / `rf.channel.X`), every stream Send
//     with its response code, every handleResp with its argument count, and the
//     conditions of the if statements that guard them. A change of this list means the
//     hand-written model has to be re-read against the code.

import (
	"fmt"
	"go/ast"
	"go/constant"
	"go/token"
	"go/types"
	"regexp"
	"sort"
	"strings"
)

func c16Eval(e ast.Expr, what string) int64 {
	tv, err := types.Eval(token.NewFileSet(), nil, token.NoPos, c12Render(token.NewFileSet(), e))
	if err != nil || tv.Value == nil {
		die("%s: not a constant expression", what)
	}
	v, ok := constant.Int64Val(constant.ToInt(tv.Value))
	if !ok {
		die("%s: not an integer constant", what)
	}
	return v
}

// `N * time.Second`, `time.Second`, `N * time.Millisecond` in milliseconds
func c16DurMs(e ast.Expr, what string) int64 {
	unit := func(x ast.Expr) int64 {
		if s, ok := x.(*ast.SelectorExpr); ok {
			if id, ok := s.X.(*ast.Ident); ok && id.Name == "time" {
				switch s.Sel.Name {
				case "Second":
					return 1000
				case "Millisecond":
					return 1
				case "Minute":
					return 60000
				}
			}
		}
		return 0
	}
	if u := unit(e); u > 0 {
		return u
	}
	if be, ok := e.(*ast.BinaryExpr); ok && be.Op == token.MUL {
		for _, p := range [][2]ast.Expr{{be.X, be.Y}, {be.Y, be.X}} {
			if bl, ok := p[0].(*ast.BasicLit); ok && bl.Kind == token.INT {
				var v int64
				fmt.Sscan(bl.Value, &v)
				if u := unit(p[1]); u > 0 {
					return v * u
				}
			}
		}
	}
	die("%s: not a literal duration", what)
	return 0
}

func genC16() {
	runGen("c16guards", genC16Guards)
	fset, f := parseFile("syncer/replica.go")
	var calls []string
	gap := int64(-1)
	for _, d := range f.Decls {
		fd, ok := d.(*ast.FuncDecl)
		if !ok || fd.Body == nil || fd.Recv == nil || len(fd.Recv.List) == 0 || len(fd.Recv.List[0].Names) == 0 {
			continue
		}
		recv := fd.Recv.List[0].Names[0].Name
		if recv != "rl" && recv != "rf" {
			continue
		}
		name := fd.Name.Name
		// preSync's distance variable is found by its DEFINITION (`<v> := <a>.Offset - <b>.Offset`), not by
		// its name: a renamed local leaves the facts and the regenerated threshold as they were
		gapName := "gap"
		if name == "preSync" {
			ast.Inspect(fd.Body, func(n ast.Node) bool {
				as, ok := n.(*ast.AssignStmt)
				if !ok || as.Tok != token.DEFINE || len(as.Lhs) != 1 || len(as.Rhs) != 1 {
					return true
				}
				be, ok := as.Rhs[0].(*ast.BinaryExpr)
				if !ok || be.Op != token.SUB {
					return true
				}
				l, ok1 := be.X.(*ast.SelectorExpr)
				r, ok2 := be.Y.(*ast.SelectorExpr)
				if id, ok3 := as.Lhs[0].(*ast.Ident); ok1 && ok2 && ok3 && l.Sel.Name == "Offset" && r.Sel.Name == "Offset" {
					gapName = id.Name
				}
				return true
			})
		}
		ast.Inspect(fd.Body, func(n ast.Node) bool {
			switch x := n.(type) {
			case *ast.IfStmt:
				cond := c12Render(fset, x.Cond)
				if name == "preSync" && gapName != "gap" {
					cond = regexp.MustCompile(`\b`+regexp.QuoteMeta(gapName)+`\b`).ReplaceAllString(cond, "gap")
				}
				// the offset guards are REGENERATED (c16guards.go -> Gen/ReplicaGuards.lean, Props/C16Guards.lean):
				// their text is not a source fact any more
				body := c12Render(fset, x.Body)
				regenerated := (name == "Handle" && strings.Contains(body, "SyncResponse_HANDOVER")) ||
					(name == "sendData" && strings.Contains(cond, "IsValidOffset")) ||
					(name == "preSync" && regexp.MustCompile(`\bgap\b`).MatchString(cond)) ||
					(name == "aofSync" && strings.Contains(body, "channel.DelRunId("))
				if regenerated {
					// nothing
				} else if strings.Contains(cond, "Offset") || strings.Contains(cond, "RunId") || strings.Contains(cond, "gap") ||
					strings.Contains(cond, "IsInitial") || strings.Contains(cond, "GetCode") || strings.Contains(cond, "len(args)") ||
					strings.Contains(cond, "IsValidOffset") || strings.Contains(cond, "runIds") {
					calls = append(calls, name+": if "+cond)
				}
				if be, ok := x.Cond.(*ast.BinaryExpr); ok && be.Op == token.GTR && name == "preSync" {
					if id, ok := be.X.(*ast.Ident); ok && id.Name == gapName {
						if bl, ok := be.Y.(*ast.BasicLit); !ok || bl.Value != "0" {
							gap = c16Eval(be.Y, "preSync gap threshold")
						}
					}
				}
			case *ast.AssignStmt:
				// Run's state machine: which state follows, which start point is passed on
				if name == "Run" && len(x.Lhs) >= 1 {
					txt := c12Render(fset, x)
					if strings.HasPrefix(txt, "state =") || strings.HasPrefix(txt, "state++") ||
						strings.Contains(txt, "rf.protoHandShake(") || strings.Contains(txt, "rf.preSync(") ||
						strings.Contains(txt, "rf.metaSync(") || strings.Contains(txt, "rf.rdbSync(") ||
						strings.Contains(txt, "rf.aofSync(") || strings.Contains(txt, "rf.channel.StartPoint(") {
						calls = append(calls, name+": "+txt)
					}
				}
			case *ast.IncDecStmt:
				if name == "Run" {
					calls = append(calls, name+": "+c12Render(fset, x))
				}
			case *ast.CallExpr:
				s, ok := x.Fun.(*ast.SelectorExpr)
				if !ok {
					return true
				}
				if c12IsSel(s.X, recv, "channel") {
					calls = append(calls, name+": channel."+s.Sel.Name)
				}
				if id, ok := s.X.(*ast.Ident); ok && id.Name == "ioReader" && s.Sel.Name == "Read" {
					// sendData's loop: the order read -> id check -> Send is what keeps another history's bytes in
					calls = append(calls, name+": ioReader.Read")
				}
				if id, ok := s.X.(*ast.Ident); ok && id.Name == recv && s.Sel.Name == "handleResp" {
					calls = append(calls, fmt.Sprintf("%s: handleResp/%d", name, len(x.Args)))
				}
				if id, ok := s.X.(*ast.Ident); ok && id.Name == recv && s.Sel.Name == "handleError" && len(x.Args) >= 3 {
					calls = append(calls, name+": handleError "+c12Render(fset, x.Args[2]))
				}
				if id, ok := s.X.(*ast.Ident); ok && id.Name == "stream" && s.Sel.Name == "Send" && len(x.Args) == 1 {
					code := "?"
					arg := ast.Node(x.Args[0])
					// a message built by a package-level helper (`stream.Send(contMsg(…))`): look into the helper
					if ce, ok := x.Args[0].(*ast.CallExpr); ok {
						if id, ok := ce.Fun.(*ast.Ident); ok {
							for _, d2 := range f.Decls {
								if hd, ok := d2.(*ast.FuncDecl); ok && hd.Recv == nil && hd.Name.Name == id.Name && hd.Body != nil {
									arg = hd.Body
								}
							}
						}
					}
					ast.Inspect(arg, func(m ast.Node) bool {
						if kv, ok := m.(*ast.KeyValueExpr); ok {
							if k, ok := kv.Key.(*ast.Ident); ok && k.Name == "Code" {
								code = c12Render(fset, kv.Value)
							}
						}
						return true
					})
					calls = append(calls, name+": Send "+code)
				}
			}
			return true
		})
	}
	if gap < 0 {
		die("preSync: `gap > <constant>` not found")
	}
	// ServiceReplica's gate
	{
		fset2, f2 := parseFile("syncer/syncer_replica.go")
		for _, d := range f2.Decls {
			fd, ok := d.(*ast.FuncDecl)
			if !ok || fd.Body == nil || fd.Name.Name != "ServiceReplica" {
				continue
			}
			ast.Inspect(fd.Body, func(n ast.Node) bool {
				switch x := n.(type) {
				case *ast.IfStmt:
					calls = append(calls, "ServiceReplica: if "+c12Render(fset2, x.Cond))
				case *ast.ReturnStmt:
					calls = append(calls, "ServiceReplica: "+c12Render(fset2, x))
				}
				return true
			})
		}
	}
	facts["c16_calls"] = calls
	// process-global state reached from the property's code: the package-level variables of syncer/replica.go and the
	// process-wide options syncer/channel.go reads on behalf of a reader / writer (an option that is not DRAWN by the
	// harness is a dimension it cannot judge: seeded round 8, channel.verifyCrc)
	{
		var globals []string
		for _, d := range f.Decls {
			if gd, ok := d.(*ast.GenDecl); ok && gd.Tok == token.VAR {
				for _, sp := range gd.Specs {
					if vs, ok := sp.(*ast.ValueSpec); ok {
						for _, n := range vs.Names {
							globals = append(globals, "replica.go var "+n.Name)
						}
					}
				}
			}
		}
		fsetC, fc := parseFile("syncer/channel.go")
		seen := map[string]bool{}
		ast.Inspect(fc, func(n ast.Node) bool {
			if se, ok := n.(*ast.SelectorExpr); ok {
				txt := c12Render(fsetC, se)
				if strings.HasPrefix(txt, "config.GetSyncerConfig().") && !seen[txt] {
					if _, inner := se.X.(*ast.CallExpr); !inner { // the full chain, not its prefix
						seen[txt] = true
						globals = append(globals, "channel.go reads "+txt)
					}
				}
			}
			return true
		})
		sort.Strings(globals)
		facts["c16_globals"] = globals
	}
	facts["c16_gap_threshold"] = gap

	// cmd: what Sync does with ServiceReplica's error, and how runCluster reacts to a stopped
	// syncer (stop, resign, pause after hand-over / take-over) — the part of "is offered
	// leadership" that no harness executes is at least pinned here
	var cmdFacts []string
	{
		fset3, f3 := parseFile("cmd/syncer_api.go")
		for _, d := range f3.Decls {
			fd, ok := d.(*ast.FuncDecl)
			if !ok || fd.Body == nil || fd.Name.Name != "Sync" {
				continue
			}
			ast.Inspect(fd.Body, func(n ast.Node) bool {
				switch x := n.(type) {
				case *ast.IfStmt:
					cmdFacts = append(cmdFacts, "Sync: if "+c12Render(fset3, x.Cond))
				case *ast.ExprStmt:
					txt := c12Render(fset3, x)
					if strings.Contains(txt, ".Close(") || strings.Contains(txt, "WgAdd") {
						cmdFacts = append(cmdFacts, "Sync: "+txt)
					}
				case *ast.AssignStmt:
					if txt := c12Render(fset3, x); strings.Contains(txt, "ServiceReplica") {
						cmdFacts = append(cmdFacts, "Sync: "+txt)
					}
				case *ast.ReturnStmt:
					cmdFacts = append(cmdFacts, "Sync: "+c12Render(fset3, x))
				}
				return true
			})
		}
		fset4, f4 := parseFile("cmd/syncer.go")
		for _, d := range f4.Decls {
			fd, ok := d.(*ast.FuncDecl)
			if !ok || fd.Body == nil || fd.Name.Name != "runCluster" {
				continue
			}
			ast.Inspect(fd.Body, func(n ast.Node) bool {
				switch x := n.(type) {
				case *ast.IfStmt:
					c := c12Render(fset4, x.Cond)
					if strings.Contains(c, "ErrLeaderHandover") || strings.Contains(c, "ErrLeaderTakeover") || strings.Contains(c, "ErrBreak") ||
						strings.Contains(c, "role == cluster.RoleLeader") || strings.Contains(c, "role == cluster.RoleFollower") {
						cmdFacts = append(cmdFacts, "runCluster: if "+c)
					}
				case *ast.ExprStmt:
					txt := c12Render(fset4, x)
					if strings.HasPrefix(txt, "runWait.Sleep(") || strings.HasPrefix(txt, "time.Sleep(") || strings.HasPrefix(txt, "sy.Stop(") ||
						strings.HasPrefix(txt, "syncerWait.WgWait(") || strings.HasPrefix(txt, "syncerWait.Close(") || strings.HasPrefix(txt, "sc.clusterTicker(") {
						cmdFacts = append(cmdFacts, "runCluster: "+txt)
					}
				case *ast.AssignStmt:
					txt := c12Render(fset4, x)
					if strings.Contains(txt, "elect.Resign(") || strings.Contains(txt, "sy.RunLeader()") || strings.Contains(txt, "sy.RunFollower(") ||
						strings.Contains(txt, "syncerWait.Error()") {
						cmdFacts = append(cmdFacts, "runCluster: "+txt)
					}
				}
				return true
			})
		}
	}
	facts["c16_cmd"] = cmdFacts

	// the shape of the runCluster state machine (lean/GunYu/Model/Handover.lean): every
	// statement of the loop that moves the role, creates / stops a syncer, calls the election
	// or pauses, in source order; the ticker; what the end of a syncer does to its channel;
	// the order in which a leader syncer closes its ends; the follower's pause on a role error
	var rc []string
	pauses := map[string]int64{}
	{
		fset4, f4 := parseFile("cmd/syncer.go")
		for _, d := range f4.Decls {
			fd, ok := d.(*ast.FuncDecl)
			if !ok || fd.Body == nil {
				continue
			}
			switch fd.Name.Name {
			case "runCluster":
				var lastIf string
				ast.Inspect(fd.Body, func(n ast.Node) bool {
					switch x := n.(type) {
					case *ast.ForStmt:
						rc = append(rc, "runCluster: for "+c12Render(fset4, x.Cond))
					case *ast.IfStmt:
						c := c12Render(fset4, x.Cond)
						if strings.Contains(c, "role") || strings.Contains(c, "err") || strings.Contains(c, "Err") {
							rc = append(rc, "runCluster: if "+c)
							lastIf = c
						}
					case *ast.BranchStmt:
						rc = append(rc, "runCluster: "+x.Tok.String())
					case *ast.ReturnStmt:
						rc = append(rc, "runCluster: return")
					case *ast.AssignStmt:
						txt := c12Render(fset4, x)
						if strings.Contains(txt, "sc.clusterCampaign(") || strings.HasPrefix(txt, "role =") || strings.Contains(txt, "syncer.NewSyncer(") ||
							strings.Contains(txt, "elect.Resign(") || strings.Contains(txt, "elect.Leader(") || strings.Contains(txt, "sy.RunLeader()") ||
							strings.Contains(txt, "sy.RunFollower(") || strings.Contains(txt, "syncerWait.Error()") || strings.Contains(txt, "NewWaitCloserFromParent(") ||
							strings.HasPrefix(txt, "err = errors.Join(") {
							rc = append(rc, "runCluster: "+txt)
						}
					case *ast.ExprStmt:
						txt := c12Render(fset4, x)
						if strings.HasPrefix(txt, "runWait.Sleep(") || strings.HasPrefix(txt, "time.Sleep(") {
							call := x.X.(*ast.CallExpr)
							ms := c16DurMs(call.Args[0], "runCluster pause")
							key := "other"
							switch {
							case strings.Contains(lastIf, "ErrLeaderHandover"):
								key = "handover"
							case strings.Contains(lastIf, "ErrLeaderTakeover"):
								key = "takeover"
							case strings.Contains(lastIf, "role == cluster.RoleCandidate"):
								key = "candidate"
							case strings.Contains(lastIf, "ErrBreak"):
								key = "other"
							}
							if old, dup := pauses[key]; dup && old != ms {
								die("runCluster: two different pauses for %s", key)
							}
							pauses[key] = ms
							rc = append(rc, fmt.Sprintf("runCluster: %s [%s %d ms]", txt, key, ms))
						} else if strings.HasPrefix(txt, "sy.Stop(") || strings.HasPrefix(txt, "syncerWait.WgWait(") || strings.HasPrefix(txt, "syncerWait.Close(") ||
							strings.HasPrefix(txt, "sc.clusterTicker(") || strings.HasPrefix(txt, "runWait.Close(") || strings.HasPrefix(txt, "sc.setSyncer(") ||
							strings.HasPrefix(txt, "sc.delSyncer(") || strings.HasPrefix(txt, "usync.SafeGo(") {
							if strings.HasPrefix(txt, "usync.SafeGo(") {
								txt = "usync.SafeGo(…)"
							}
							rc = append(rc, "runCluster: "+txt)
						}
					}
					return true
				})
			case "clusterTicker":
				ast.Inspect(fd.Body, func(n ast.Node) bool {
					switch x := n.(type) {
					case *ast.IfStmt:
						rc = append(rc, "clusterTicker: if "+c12Render(fset4, x.Cond))
					case *ast.ReturnStmt:
						rc = append(rc, "clusterTicker: "+c12Render(fset4, x))
					case *ast.CaseClause, *ast.CommClause:
						txt := c12Render(fset4, x)
						if i := strings.Index(txt, ":"); i > 0 {
							rc = append(rc, "clusterTicker: "+txt[:i+1])
						}
					case *ast.AssignStmt:
						txt := c12Render(fset4, x)
						if strings.HasPrefix(txt, "ticker := time.NewTicker(") || strings.HasPrefix(txt, "role, err := sc.clusterCampaign(") {
							rc = append(rc, "clusterTicker: "+txt)
						}
						if call, ok := x.Rhs[0].(*ast.CallExpr); ok && len(call.Args) == 2 && strings.HasPrefix(txt, "err := util.Retry(") {
							rc = append(rc, "clusterTicker: util.Retry(renew, "+c12Render(fset4, call.Args[1])+")")
						}
					case *ast.ExprStmt:
						if txt := c12Render(fset4, x); strings.HasPrefix(txt, "wait.Close(") {
							rc = append(rc, "clusterTicker: "+txt)
						}
					}
					return true
				})
			case "clusterCampaign", "clusterRenew":
				nm := fd.Name.Name
				ast.Inspect(fd.Body, func(n ast.Node) bool {
					if x, ok := n.(*ast.AssignStmt); ok {
						if txt := c12Render(fset4, x); strings.Contains(txt, "elect.") {
							rc = append(rc, nm+": "+txt)
						}
					}
					return true
				})
			}
		}
		fset5, f5 := parseFile("syncer/syncer.go")
		for _, d := range f5.Decls {
			fd, ok := d.(*ast.FuncDecl)
			if !ok || fd.Body == nil {
				continue
			}
			switch {
			case fd.Name.Name == "NewSyncer":
				ast.Inspect(fd.Body, func(n ast.Node) bool {
					if x, ok := n.(*ast.AssignStmt); ok {
						if txt := c12Render(fset5, x); strings.HasPrefix(txt, "sy.channel =") || strings.HasPrefix(txt, "sy.wait =") {
							rc = append(rc, "NewSyncer: "+txt)
						}
					}
					return true
				})
			case fd.Recv != nil && fd.Name.Name == "run":
				for _, st := range fd.Body.List {
					if df, ok := st.(*ast.DeferStmt); ok {
						ast.Inspect(df, func(n ast.Node) bool {
							if x, ok := n.(*ast.ExprStmt); ok {
								if txt := c12Render(fset5, x); strings.Contains(txt, "Close(") {
									rc = append(rc, "syncer.run: defer … "+txt)
								}
							}
							return true
						})
					}
				}
			case fd.Recv != nil && (fd.Name.Name == "runLeader" || fd.Name.Name == "Stop"):
				nm := fd.Name.Name
				for _, st := range fd.Body.List {
					if x, ok := st.(*ast.ExprStmt); ok {
						txt := c12Render(fset5, x)
						if strings.HasPrefix(txt, "<-") || strings.Contains(txt, ".Stop()") || strings.Contains(txt, ".Close(") || strings.Contains(txt, "WgWait(") ||
							strings.Contains(txt, ".Start()") {
							rc = append(rc, "syncer."+nm+": "+txt)
						}
						if strings.HasPrefix(txt, "usync.SafeGo(") {
							rc = append(rc, "syncer."+nm+": go input.Run")
						}
					}
				}
			}
		}
		// ReplicaFollower.Run: the pause before a role / break error is returned
		fset6, f6 := parseFile("syncer/replica.go")
		for _, d := range f6.Decls {
			fd, ok := d.(*ast.FuncDecl)
			if !ok || fd.Body == nil || fd.Recv == nil || fd.Name.Name != "Run" {
				continue
			}
			ast.Inspect(fd.Body, func(n ast.Node) bool {
				x, ok := n.(*ast.IfStmt)
				if !ok {
					return true
				}
				c := c12Render(fset6, x.Cond)
				if !strings.Contains(c, "ErrRole") {
					return true
				}
				rc = append(rc, "ReplicaFollower.Run: if "+c)
				for _, st := range x.Body.List {
					txt := c12Render(fset6, st)
					rc = append(rc, "ReplicaFollower.Run:   "+txt)
					if es, ok := st.(*ast.ExprStmt); ok && strings.Contains(txt, ".Sleep(") {
						pauses["rolerr"] = c16DurMs(es.X.(*ast.CallExpr).Args[0], "ReplicaFollower.Run pause")
					}
				}
				return true
			})
		}
	}
	for _, k := range []string{"handover", "takeover", "candidate", "other", "rolerr"} {
		if _, ok := pauses[k]; !ok {
			die("runCluster / ReplicaFollower.Run: the %s pause was not found", k)
		}
	}
	if pauses["takeover"] != pauses["other"] || pauses["candidate"] != pauses["other"] {
		die("runCluster: the take-over, candidate and other-error pauses differ (the model has one `pauseOther`)")
	}
	facts["c16_runcluster"] = rc

	// numeric response codes
	_, pf := parseFile("pkg/api/golang/api.pb.go")
	codes := map[string]int64{}
	for _, d := range pf.Decls {
		gd, ok := d.(*ast.GenDecl)
		if !ok || gd.Tok != token.CONST {
			continue
		}
		for _, sp := range gd.Specs {
			vs := sp.(*ast.ValueSpec)
			for i, n := range vs.Names {
				if strings.HasPrefix(n.Name, "SyncResponse_") && i < len(vs.Values) {
					if bl, ok := vs.Values[i].(*ast.BasicLit); ok {
						var v int64
						fmt.Sscan(bl.Value, &v)
						codes[strings.TrimPrefix(n.Name, "SyncResponse_")] = v
					}
				}
			}
		}
	}
	var names []string
	for k := range codes {
		names = append(names, k)
	}
	sort.Strings(names)
	var cl []string
	for _, k := range names {
		cl = append(cl, fmt.Sprintf("%s=%d", k, codes[k]))
	}
	facts["c16_codes"] = cl
	for _, k := range []string{"META", "CONTINUE", "HANDOVER", "CLEAR", "FAULT", "ERROR", "FAILURE"} {
		if _, ok := codes[k]; !ok {
			die("api.pb.go: SyncResponse_%s not found", k)
		}
	}

	// ---- the functions Model/ReplicaIdSrc.lean transcribes (where a leader's channel run id comes
	// from) and the commit of a received snapshot (Loss.nocommit): bodies pinned by digest, log /
	// metric statements dropped
	idsrc := map[string]string{}
	for _, fn := range [][2]string{
		{"pkg/redis/util.go", "GetRunIds"}, {"pkg/redis/psync.go", "SendPSync"},
		{"pkg/store/store.go", "newRunId"}, {"pkg/store/store.go", "SetRunId"}, {"pkg/store/store.go", "DelRunId"}, {"pkg/store/store.go", "VerifyRunId"},
		{"syncer/memory_channel.go", "SetRunId"}, {"syncer/memory_channel.go", "DelRunId"},
		{"pkg/store/rdb_writer.go", "closeRdb"},
	} {
		fset, f := parseFile(fn[0])
		found := false
		for _, d := range f.Decls {
			fd, ok := d.(*ast.FuncDecl)
			if !ok || fd.Body == nil || fd.Name.Name != fn[1] {
				continue
			}
			ast.Inspect(fd.Body, func(m ast.Node) bool {
				switch x := m.(type) {
				case *ast.BlockStmt:
					x.List = c15FilterStmts(x.List)
				case *ast.CaseClause:
					x.Body = c15FilterStmts(x.Body)
				case *ast.CommClause:
					x.Body = c15FilterStmts(x.Body)
				}
				return true
			})
			idsrc[fn[0]+":"+fn[1]] = c12Digest(c15Print(fset, fd.Type) + " " + c15Print(fset, fd.Body))
			found = true
		}
		if !found {
			die("%s: function %s not found", fn[0], fn[1])
		}
	}
	facts["c16_idsrc"] = idsrc

	var b strings.Builder
	b.WriteString(header)
	b.WriteString("namespace GunYu.Gen\n\n")
	b.WriteString("/-- syncer/replica.go preSync: `gap > …` above which the follower deletes its copy -/\n")
	fmt.Fprintf(&b, "def replicaGapClear : Int := %d\n\n", gap)
	b.WriteString("/-- pkg/api/golang/api.pb.go SyncResponse_Code values (META, CONTINUE, HANDOVER, CLEAR, FAULT, ERROR, FAILURE) -/\n")
	fmt.Fprintf(&b, "def replicaCodes : List Nat := [%d, %d, %d, %d, %d, %d, %d]\n\n", codes["META"], codes["CONTINUE"], codes["HANDOVER"],
		codes["CLEAR"], codes["FAULT"], codes["ERROR"], codes["FAILURE"])
	b.WriteString("/-- cmd/syncer.go runCluster: `runWait.Sleep(…)` after a hand-over, in ms -/\n")
	fmt.Fprintf(&b, "def handoverPauseMs : Nat := %d\n\n", pauses["handover"])
	b.WriteString("/-- cmd/syncer.go runCluster: the pause after a take-over, after another error and of a candidate that stays candidate, in ms -/\n")
	fmt.Fprintf(&b, "def otherPauseMs : Nat := %d\n\n", pauses["other"])
	b.WriteString("/-- syncer/replica.go ReplicaFollower.Run: `rf.wait.Sleep(…)` before a role / break error is returned, in ms -/\n")
	fmt.Fprintf(&b, "def roleErrorPauseMs : Nat := %d\n\n", pauses["rolerr"])
	b.WriteString("end GunYu.Gen\n")
	writeIfChanged(*out+"/ReplicaConsts.lean", b.String())
}
