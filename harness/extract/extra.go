package main

// extraGens is extended as more generated pieces are added.
func extraGens() {
	genC10()
	genC03()
	genC15()
	genC12()
}
