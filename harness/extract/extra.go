package main

// extraGens is extended as more generated pieces are added. Wrap every
// generator in runGen("<name>", f): a generator that fails (die) then only
// breaks the checks that depend on it (name "cNN" belongs to property CNN; a
// property config may list more under "gens").
func extraGens() {
	runGen("c01", genC01)
	runGen("c06", genC06)
	runGen("c17", genC17)
	runGen("c10", genC10)
	runGen("c03", genC03)
	runGen("c15", genC15)
	runGen("c12", genC12)
	runGen("c18", genC18)
	runGen("c16", genC16)
	runGen("c19", genC19)
	runGen("c20", genC20)
	runGen("c05", genC05)
	runGen("c07", genC07)
	runGen("c04", genC04)
	runGen("c14", genC14)
}
