package main

// extraGens is extended as more generated pieces are added.
func extraGens() {}
