package main

// C06: the offset arithmetic and the reply shapes of StandaloneRedis.SendPSync, REGENERATED as Lean
// constants (lean/GunYu/Gen/C06Psync.lean) instead of compared as source text. SendPSync interleaves
// its parsing with I/O, so gofn (pure functions) cannot translate it; this generator reads the
// statements that decide the numbers semantically:
//
//   if offset >= G { offset += A }              (accepted: >=, >, mirrored operands; +=, ++, offset = offset + A)
//   … strings.ToLower(xx[0]) == "continue" …    return <id>, offset - B, …      (no other assignment to offset in that arm)
//   … len(xx) >= N && … == "fullresync" …       v := ParseInt(xx[I], BASE, BITS); runid, offset := xx[J], v
//
// Anything else makes the generator fail (gen_errors[c06] - a broken tie for C06), never an approximation.
// Props/C06Gen.lean proves the generated functions equal to the hand model's (`wireOf`, `wireOf64`, the
// `- 1` of a continuation) for all inputs, so a change of G, A, B, the words or the fields breaks a proof
// while `offset++`, `offset = offset + 1`, `0 <= offset`, renamed locals leave the file identical.

import (
	"fmt"
	"go/ast"
	"go/token"
	"path/filepath"
	"strconv"
	"strings"
)

func c06IntLit(e ast.Expr) (int64, bool) {
	switch x := e.(type) {
	case *ast.BasicLit:
		if x.Kind == token.INT {
			n, err := strconv.ParseInt(x.Value, 0, 64)
			return n, err == nil
		}
	case *ast.UnaryExpr:
		if x.Op == token.SUB {
			n, ok := c06IntLit(x.X)
			return -n, ok
		}
	case *ast.ParenExpr:
		return c06IntLit(x.X)
	}
	return 0, false
}

func c06IsIdent(e ast.Expr, name string) bool {
	if p, ok := e.(*ast.ParenExpr); ok {
		return c06IsIdent(p.X, name)
	}
	id, ok := e.(*ast.Ident)
	return ok && id.Name == name
}

// off + c | c + off | off - c | off  ->  c
func c06Affine(e ast.Expr, off string) (int64, bool) {
	if c06IsIdent(e, off) {
		return 0, true
	}
	if p, ok := e.(*ast.ParenExpr); ok {
		return c06Affine(p.X, off)
	}
	b, ok := e.(*ast.BinaryExpr)
	if !ok {
		return 0, false
	}
	switch b.Op {
	case token.ADD:
		if c06IsIdent(b.X, off) {
			if n, ok := c06IntLit(b.Y); ok {
				return n, true
			}
		}
		if c06IsIdent(b.Y, off) {
			if n, ok := c06IntLit(b.X); ok {
				return n, true
			}
		}
	case token.SUB:
		if c06IsIdent(b.X, off) {
			if n, ok := c06IntLit(b.Y); ok {
				return -n, true
			}
		}
	}
	return 0, false
}

// the statement adds a constant to off
func c06Bump(s ast.Stmt, off string) (int64, bool) {
	switch x := s.(type) {
	case *ast.IncDecStmt:
		if c06IsIdent(x.X, off) {
			if x.Tok == token.INC {
				return 1, true
			}
			return -1, true
		}
	case *ast.AssignStmt:
		if len(x.Lhs) != 1 || len(x.Rhs) != 1 || !c06IsIdent(x.Lhs[0], off) {
			return 0, false
		}
		switch x.Tok {
		case token.ADD_ASSIGN:
			return c06IntLit(x.Rhs[0])
		case token.SUB_ASSIGN:
			n, ok := c06IntLit(x.Rhs[0])
			return -n, ok
		case token.ASSIGN:
			return c06Affine(x.Rhs[0], off)
		}
	}
	return 0, false
}

func c06AssignsTo(n ast.Node, name string) bool {
	found := false
	ast.Inspect(n, func(m ast.Node) bool {
		switch x := m.(type) {
		case *ast.AssignStmt:
			for _, l := range x.Lhs {
				if c06IsIdent(l, name) && x.Tok != token.DEFINE {
					found = true
				}
			}
		case *ast.IncDecStmt:
			if c06IsIdent(x.X, name) {
				found = true
			}
		}
		return !found
	})
	return found
}

func c06HasString(n ast.Node, lit string) bool {
	found := false
	ast.Inspect(n, func(m ast.Node) bool {
		if b, ok := m.(*ast.BasicLit); ok && b.Kind == token.STRING && b.Value == strconv.Quote(lit) {
			found = true
		}
		return !found
	})
	return found
}

// the largest N of a `len(<x>) >= N` conjunct of cond
func c06MinLen(cond ast.Expr) int64 {
	best := int64(-1)
	ast.Inspect(cond, func(m ast.Node) bool {
		b, ok := m.(*ast.BinaryExpr)
		if !ok {
			return true
		}
		call, ok := b.X.(*ast.CallExpr)
		if !ok || !c06IsIdent(call.Fun, "len") {
			return true
		}
		n, ok := c06IntLit(b.Y)
		if !ok {
			return true
		}
		switch b.Op {
		case token.GEQ:
		case token.GTR:
			n++
		default:
			return true
		}
		if n > best {
			best = n
		}
		return true
	})
	return best
}

func c06Index(e ast.Expr) (int64, bool) {
	ix, ok := e.(*ast.IndexExpr)
	if !ok {
		return 0, false
	}
	return c06IntLit(ix.Index)
}

func genC06Psync(sp *ast.FuncDecl) {
	if sp.Type.Params == nil || len(sp.Type.Params.List) < 2 || len(sp.Type.Params.List[1].Names) != 1 {
		die("c06psync: SendPSync(runid string, offset int64) expected")
	}
	off := sp.Type.Params.List[1].Names[0].Name
	if t, ok := sp.Type.Params.List[1].Type.(*ast.Ident); !ok || t.Name != "int64" {
		die("c06psync: the offset parameter is not an int64")
	}

	// 1. the guard and the increment: the only statements before the first call that touch the offset
	var guard, add int64
	seen := false
	var rest []ast.Stmt
	for i, st := range sp.Body.List {
		if ifs, ok := st.(*ast.IfStmt); ok && !seen && ifs.Init == nil && ifs.Else == nil {
			if b, ok := ifs.Cond.(*ast.BinaryExpr); ok {
				g, okg := int64(0), false
				switch {
				case c06IsIdent(b.X, off):
					if n, ok := c06IntLit(b.Y); ok {
						switch b.Op {
						case token.GEQ:
							g, okg = n, true
						case token.GTR:
							g, okg = n+1, true
						}
					}
				case c06IsIdent(b.Y, off):
					if n, ok := c06IntLit(b.X); ok {
						switch b.Op {
						case token.LEQ:
							g, okg = n, true
						case token.LSS:
							g, okg = n+1, true
						}
					}
				}
				if okg && len(ifs.Body.List) == 1 {
					if a, ok := c06Bump(ifs.Body.List[0], off); ok {
						guard, add, seen = g, a, true
						rest = sp.Body.List[i+1:]
						continue
					}
				}
			}
		}
		if !seen && c06AssignsTo(st, off) {
			die("c06psync: an assignment to the offset before the `if offset >= G { offset += A }` statement")
		}
	}
	if !seen {
		die("c06psync: `if offset >= G { offset += A }` not found at the top of SendPSync")
	}

	// 2./3. the two reply arms
	var contSub, fullMin, fullOffIdx, fullIdIdx, base, bits, contIdIdx int64 = 0, -1, -1, -1, -1, -1, -1
	contSeen, fullSeen := false, false
	var arm func(ifs *ast.IfStmt)
	arm = func(ifs *ast.IfStmt) {
		switch {
		case c06HasString(ifs.Cond, "continue"):
			if contSeen {
				die("c06psync: two `continue` arms")
			}
			contSeen = true
			// no assignment to the offset in the arm; every return's second result is offset - B with one B
			if c06AssignsTo(ifs.Body, off) {
				die("c06psync: the `continue` arm assigns to the offset")
			}
			first := true
			ast.Inspect(ifs.Body, func(m ast.Node) bool {
				switch x := m.(type) {
				case *ast.ReturnStmt:
					if len(x.Results) != 4 {
						die("c06psync: a return of the `continue` arm does not have four results")
					}
					c, ok := c06Affine(x.Results[1], off)
					if !ok {
						die("c06psync: the offset returned by the `continue` arm is not offset - B")
					}
					if !first && -c != contSub {
						die("c06psync: the returns of the `continue` arm disagree")
					}
					contSub, first = -c, false
				case *ast.AssignStmt:
					// runid = xx[I]
					if len(x.Lhs) == 1 && len(x.Rhs) == 1 && c06IsIdent(x.Lhs[0], sp.Type.Params.List[0].Names[0].Name) {
						if i, ok := c06Index(x.Rhs[0]); ok {
							contIdIdx = i
						}
					}
				}
				return true
			})
			if first {
				die("c06psync: the `continue` arm does not return")
			}
		case c06HasString(ifs.Cond, "fullresync"):
			if fullSeen {
				die("c06psync: two `fullresync` arms")
			}
			fullSeen = true
			fullMin = c06MinLen(ifs.Cond)
			var parsed string
			ast.Inspect(ifs.Body, func(m ast.Node) bool {
				x, ok := m.(*ast.AssignStmt)
				if !ok {
					return true
				}
				if len(x.Rhs) == 1 {
					if call, ok := x.Rhs[0].(*ast.CallExpr); ok {
						if s, ok := call.Fun.(*ast.SelectorExpr); ok && s.Sel.Name == "ParseInt" && c06IsIdent(s.X, "strconv") && len(call.Args) == 3 {
							i, ok1 := c06Index(call.Args[0])
							b, ok2 := c06IntLit(call.Args[1])
							w, ok3 := c06IntLit(call.Args[2])
							if !ok1 || !ok2 || !ok3 || len(x.Lhs) != 2 {
								die("c06psync: strconv.ParseInt(xx[I], BASE, BITS) expected in the `fullresync` arm")
							}
							fullOffIdx, base, bits = i, b, w
							if id, ok := x.Lhs[0].(*ast.Ident); ok {
								parsed = id.Name
							}
						}
					}
				}
				// runid, offset := xx[J], v
				if len(x.Lhs) == 2 && len(x.Rhs) == 2 && parsed != "" && c06IsIdent(x.Rhs[1], parsed) {
					if j, ok := c06Index(x.Rhs[0]); ok {
						fullIdIdx = j
					}
				}
				return true
			})
		}
		if e, ok := ifs.Else.(*ast.IfStmt); ok {
			arm(e)
		}
	}
	for _, st := range rest {
		if ifs, ok := st.(*ast.IfStmt); ok {
			arm(ifs)
		}
	}
	if !contSeen || !fullSeen || fullMin < 0 || fullOffIdx < 0 || fullIdIdx < 0 || contIdIdx < 0 {
		die("c06psync: reply arms not recognised (continue=%v fullresync=%v minLen=%d offIdx=%d idIdx=%d contIdIdx=%d)", contSeen, fullSeen, fullMin, fullOffIdx, fullIdIdx, contIdIdx)
	}

	var b strings.Builder
	b.WriteString("-- GENERATED by /verif/harness/extract (c06psync.go) from /repo/pkg/redis/psync.go SendPSync — do not edit.\n")
	b.WriteString("namespace GunYu.Gen.C06Psync\n\n")
	fmt.Fprintf(&b, "/-- `if offset >= wireGuard { offset += wireAdd }` -/\ndef wireGuard : Int := %d\ndef wireAdd : Int := %d\n\n", guard, add)
	fmt.Fprintf(&b, "/-- `+CONTINUE`: the offset returned is the one sent minus `contSub`; a run id is taken from field `contIdField` -/\ndef contSub : Int := %d\ndef contIdField : Nat := %d\n\n", contSub, contIdIdx)
	fmt.Fprintf(&b, "/-- `+FULLRESYNC`: at least `fullMinFields` fields, the id is field `fullIdField`, the offset `strconv.ParseInt(field fullOffField, parseBase, parseBits)` -/\n")
	fmt.Fprintf(&b, "def fullMinFields : Nat := %d\ndef fullIdField : Nat := %d\ndef fullOffField : Nat := %d\ndef parseBase : Nat := %d\ndef parseBits : Nat := %d\n\n", fullMin, fullIdIdx, fullOffIdx, base, bits)
	b.WriteString("/-- the number sent on the wire, unbounded -/\ndef wireOf (off : Int) : Int := if off ≥ wireGuard then off + wireAdd else off\n\n")
	b.WriteString("/-- the offset returned on `+CONTINUE`, from the number sent -/\ndef contOff (wire : Int) : Int := wire - contSub\n\n")
	b.WriteString("end GunYu.Gen.C06Psync\n")
	writeIfChanged(filepath.Join(*out, "C06Psync.lean"), b.String())
	facts["c06_psync_gen"] = []string{fmt.Sprintf("guard=%d add=%d contSub=%d contId=%d fullMin=%d fullId=%d fullOff=%d base=%d bits=%d", guard, add, contSub, contIdIdx, fullMin, fullIdIdx, fullOffIdx, base, bits)}
}
