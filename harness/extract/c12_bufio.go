package main

// C12: the bufio model lean/GunYu/Model/RespFrag.lean is a hand transcription of the standard library's
// bufio.Reader (and io.ReadFull / io.ReadAtLeast) AS SHIPPED WITH THE TOOLCHAIN THAT BUILDS THE HARNESS.
// Source fact c12_bufio: digests (normal form of c12_norm.go) of the transcribed functions, read from
// GOROOT/src of the toolchain this extractor was built with (./check builds extractor and harness with
// the same go command). Another Go release with a changed bufio is a broken TIE: re-read the model.

import (
	"go/ast"
	"go/parser"
	"go/token"
	"os"
	"path/filepath"
	"runtime"
)

func genC12Bufio() {
	root := os.Getenv("VERIF_GOROOT")
	if root == "" {
		root = runtime.GOROOT()
	}
	out := map[string]string{}
	pin := func(rel string, recv string, names ...string) {
		fs := token.NewFileSet()
		af, err := parser.ParseFile(fs, filepath.Join(root, "src", rel), nil, 0)
		if err != nil {
			die("c12_bufio: cannot parse %s of the toolchain's GOROOT %q: %v", rel, root, err)
		}
		for _, d := range af.Decls {
			fd, ok := d.(*ast.FuncDecl)
			if !ok || fd.Body == nil {
				continue
			}
			r := ""
			if fd.Recv != nil && len(fd.Recv.List) == 1 {
				t := fd.Recv.List[0].Type
				if st, ok := t.(*ast.StarExpr); ok {
					t = st.X
				}
				if id, ok := t.(*ast.Ident); ok {
					r = id.Name
				}
			}
			if r != recv {
				continue
			}
			for _, n := range names {
				if fd.Name.Name == n {
					c12Normalize(fd)
					out[rel+":"+n] = c12Digest(c12Render(fs, fd.Type) + " " + c12Render(fs, fd.Body))
				}
			}
		}
		for _, n := range names {
			if _, ok := out[rel+":"+n]; !ok {
				die("c12_bufio: %s has no function %s", rel, n)
			}
		}
	}
	pin("bufio/bufio.go", "Reader", "fill", "readErr", "Read", "ReadByte", "UnreadByte", "Buffered", "ReadSlice", "collectFragments", "ReadBytes")
	pin("bufio/bufio.go", "", "NewReaderSize")
	pin("io/io.go", "", "ReadAtLeast", "ReadFull")
	facts["c12_bufio"] = out
}
