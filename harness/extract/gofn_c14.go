package main

// gofn_c14: translation of the PURE recovery computations of pkg/redis/checkpoint/bisync.go into Lean,
// regenerated on every run into lean/GunYu/Gen/FnC14Frontier.lean (generator "c14"):
//
//   BisyncFrontierSnapshot.Clone        -> Gen.C14.clone
//   RebuildBisyncFrontier               -> Gen.C14.rebuildFrontier   (whole function)
//   LoadBisyncLatestStartRecord         -> Gen.C14.latestStep        (the selection part of its loop body: from the
//                                          run-id filter to the end; the part before it - HGETALL replies, empty
//                                          hashes skipped, parse - is I/O and is tied by op c14b / c14n)
//
// gofn (gofn*.go) has no local maps, no `for {}` and no assignment through a pointer local; this file is a
// self-contained translator for exactly the constructs these functions use, over the MODEL's structures
// (Frontier.Rec / Frontier.Snap: the fields the functions touch - any other field kills the generator):
//   *T                  Option T           (nil = none; a field access binds: nil dereference = none = panic)
//   []*T (range only)   List (Option T)    (structural recursion: no fuel)
//   map[int64]*T        List (Int × Option T)   GoSem-style mapGet / mapSet below (generated into the file)
//   int64               Int, `+` and `++` with 64-bit wrap-around (GoSem.addI)
//   error               Bool (true = non-nil)
//   a || b, a && b      lazy (the right operand's dereferences happen only when Go evaluates it)
//   for { … break … }   recursion on a fuel ARGUMENT of the generated function (none when it runs out; the
//                       equivalence theorem shows len(records)+1 suffices)
// Statements: `if c { return … }`, `if c { continue }`, `if c { break }`, `if c { assignments }` (optionally
// with an else of assignments), `x := e`, `x = e`, `p.F = e`, `m[k] = e`, `v, ok := m[k]`, `x++`, `var x T`,
// range loop over a parameter, `for {}`. Everything else: die (gen_errors -> broken tie), never approximated.

import (
	"fmt"
	"go/ast"
	"go/token"
	"go/types"
	"sort"
	"strings"
)

var c14Fields = map[string]map[string]string{
	"BisyncCommitRecord":     {"UnitSeq": "seq", "EndOffset": "endOff", "MTime": "mtime", "RunID": "runId"},
	"BisyncFrontierSnapshot": {"UnitSeq": "seq", "Offset": "offset", "MTime": "mtime", "RunID": "runId", "Version": "version"},
}
var c14Structs = map[string]string{"BisyncCommitRecord": "Rec", "BisyncFrontierSnapshot": "Snap"}

type c14T struct {
	k    string // int | bool | bytes | ptr | slice | map | err
	name string // struct name for ptr
	elem *c14T
}

func (t *c14T) lean() string {
	switch t.k {
	case "int":
		return "Int"
	case "bool", "err":
		return "Bool"
	case "bytes":
		return "Bytes"
	case "ptr":
		return "Option " + c14Structs[t.name]
	case "slice":
		return "List (" + t.elem.lean() + ")"
	case "map":
		return "List (Int × (" + t.elem.lean() + "))"
	}
	die("c14: internal: type")
	return ""
}

func c14TypeOf(t types.Type, what string) *c14T {
	if t == nil {
		die("c14: %s: no type information", what)
	}
	t = types.Unalias(t)
	switch u := t.(type) {
	case *types.Named:
		if u.Obj().Pkg() == nil && u.Obj().Name() == "error" {
			return &c14T{k: "err"}
		}
		if b, ok := u.Underlying().(*types.Basic); ok {
			return c14TypeOf(b, what)
		}
	case *types.Basic:
		switch u.Kind() {
		case types.Int, types.Int64, types.UntypedInt:
			return &c14T{k: "int"}
		case types.Bool, types.UntypedBool:
			return &c14T{k: "bool"}
		case types.String, types.UntypedString:
			return &c14T{k: "bytes"}
		}
	case *types.Pointer:
		if n, ok := types.Unalias(u.Elem()).(*types.Named); ok {
			if _, ok := c14Structs[n.Obj().Name()]; ok {
				return &c14T{k: "ptr", name: n.Obj().Name()}
			}
		}
	case *types.Slice:
		e := c14TypeOf(u.Elem(), what)
		if e.k == "ptr" {
			return &c14T{k: "slice", elem: e}
		}
	case *types.Map:
		if k := c14TypeOf(u.Key(), what); k.k == "int" {
			e := c14TypeOf(u.Elem(), what)
			if e.k == "ptr" {
				return &c14T{k: "map", elem: e}
			}
		}
	}
	die("c14: %s: type %s outside the subset", what, t.String())
	return nil
}

type c14Var struct {
	lean string
	t    *c14T
}

type c14Fn struct {
	pk    *gfPackage
	vars  map[types.Object]*c14Var
	order []types.Object // declaration order of locals (state tuples are listed in this order)
	tmp   int
	loops int
	aux   []string // auxiliary definitions (loops), emitted before the function
	name  string
	extra []string // extra leading parameters of every generated def of this function (ver, fuel)
	res   []*c14T
}

func (f *c14Fn) fresh() string { f.tmp++; return fmt.Sprintf("t%d", f.tmp) }

func (f *c14Fn) obj(id *ast.Ident) types.Object {
	if o := f.pk.info.Defs[id]; o != nil {
		return o
	}
	return f.pk.info.Uses[id]
}

func (f *c14Fn) declare(id *ast.Ident, t *c14T) *c14Var {
	o := f.obj(id)
	if o == nil {
		die("c14: %s: identifier %s without object", f.pk.pos(id), id.Name)
	}
	if v, ok := f.vars[o]; ok {
		return v
	}
	n := gfLeanIdent(id.Name)
	for _, w := range f.vars {
		if w.lean == n {
			n = n + "_"
		}
	}
	v := &c14Var{lean: n, t: t}
	f.vars[o] = v
	f.order = append(f.order, o)
	return v
}

// ---------------------------------------------------------------- expressions
//
// expr returns a Lean term of type `Option <T>` (mon = true) or of type <T> (mon = false).

type c14E struct {
	s   string
	mon bool
	t   *c14T
}

func (e c14E) m() string {
	if e.mon {
		return e.s
	}
	return "(pure " + e.s + ")"
}

// bind2: evaluate a then b (both eagerly, left to right), combine
func (f *c14Fn) bind(es []c14E, k func(xs []string) string, t *c14T) c14E {
	anyMon := false
	for _, e := range es {
		anyMon = anyMon || e.mon
	}
	xs := make([]string, len(es))
	if !anyMon {
		for i, e := range es {
			xs[i] = e.s
		}
		return c14E{s: k(xs), t: t}
	}
	var sb strings.Builder
	sb.WriteString("(do ")
	for i, e := range es {
		if e.mon {
			x := f.fresh()
			fmt.Fprintf(&sb, "let %s ← %s; ", x, e.s)
			xs[i] = x
		} else {
			xs[i] = e.s
		}
	}
	sb.WriteString("pure " + k(xs) + ")")
	return c14E{s: sb.String(), mon: true, t: t}
}

func (f *c14Fn) isNil(e ast.Expr) bool {
	id, ok := e.(*ast.Ident)
	if !ok || id.Name != "nil" {
		return false
	}
	_, isNil := f.pk.info.Uses[id].(*types.Nil)
	return isNil
}

func (f *c14Fn) expr(e ast.Expr) c14E {
	switch x := e.(type) {
	case *ast.ParenExpr:
		return f.expr(x.X)
	case *ast.BasicLit:
		if x.Kind == token.INT {
			return c14E{s: "(" + x.Value + " : Int)", t: &c14T{k: "int"}}
		}
	case *ast.Ident:
		if x.Name == "true" || x.Name == "false" {
			if _, ok := f.pk.info.Uses[x].(*types.Const); ok {
				return c14E{s: x.Name, t: &c14T{k: "bool"}}
			}
		}
		if v, ok := f.vars[f.obj(x)]; ok {
			return c14E{s: v.lean, t: v.t}
		}
	case *ast.SelectorExpr:
		// config.Version: the build's version string, a parameter of the generated functions
		if id, ok := x.X.(*ast.Ident); ok {
			if pn, ok := f.pk.info.Uses[id].(*types.PkgName); ok {
				if pn.Imported().Name() == "config" && x.Sel.Name == "Version" {
					return c14E{s: "ver", t: &c14T{k: "bytes"}}
				}
				die("c14: %s: %s.%s outside the subset", f.pk.pos(x), id.Name, x.Sel.Name)
			}
		}
		b := f.expr(x.X)
		if b.t.k != "ptr" {
			die("c14: %s: field access on a non-pointer", f.pk.pos(x))
		}
		fl, ok := c14Fields[b.t.name][x.Sel.Name]
		if !ok {
			die("c14: %s: field %s.%s is not a field of the model's structure (the function reads a field the model does not have)", f.pk.pos(x), b.t.name, x.Sel.Name)
		}
		ft := c14TypeOf(f.pk.info.TypeOf(x), "field")
		d := f.fresh()
		if !b.mon {
			// the pointer value IS the partial computation: nil = none = the dereference panics
			return c14E{s: fmt.Sprintf("(do let %s ← %s; pure %s.%s)", d, b.s, d, fl), mon: true, t: ft}
		}
		pv := f.fresh()
		return c14E{s: fmt.Sprintf("(do let %s ← %s; let %s ← %s; pure %s.%s)", pv, b.s, d, pv, d, fl), mon: true, t: ft}
	case *ast.CallExpr:
		if id, ok := x.Fun.(*ast.Ident); ok && len(x.Args) == 1 {
			if tv, ok := f.pk.info.Types[x.Fun]; ok && tv.IsType() {
				to := c14TypeOf(tv.Type, "conversion")
				a := f.expr(x.Args[0])
				if to.k == "int" && a.t.k == "int" {
					return a
				}
			}
			if id.Name == "len" {
				if _, ok := f.pk.info.Uses[id].(*types.Builtin); ok {
					a := f.expr(x.Args[0])
					if a.t.k == "slice" && !a.mon {
						return c14E{s: "(" + a.s + ".length : Int)", t: &c14T{k: "int"}}
					}
				}
			}
		}
		if sel, ok := x.Fun.(*ast.SelectorExpr); ok {
			if id, ok := sel.X.(*ast.Ident); ok {
				if pn, ok := f.pk.info.Uses[id].(*types.PkgName); ok && pn.Imported().Name() == "fmt" && sel.Sel.Name == "Errorf" {
					return c14E{s: "true", t: &c14T{k: "err"}}
				}
			}
			if sel.Sel.Name == "Clone" && len(x.Args) == 0 {
				r := f.expr(sel.X)
				if r.t.k == "ptr" && r.t.name == "BisyncFrontierSnapshot" && !r.mon {
					// the method the package's method set resolves: translated as Gen.C14.clone
					return c14E{s: "(clone " + r.s + ")", mon: true, t: r.t}
				}
			}
		}
	case *ast.UnaryExpr:
		if x.Op == token.NOT {
			a := f.expr(x.X)
			return f.bind([]c14E{a}, func(xs []string) string { return "(!" + xs[0] + ")" }, &c14T{k: "bool"})
		}
		if x.Op == token.AND {
			if cl, ok := x.X.(*ast.CompositeLit); ok {
				return f.composite(cl)
			}
		}
	case *ast.BinaryExpr:
		if x.Op == token.LOR || x.Op == token.LAND {
			a, b := f.expr(x.X), f.expr(x.Y)
			short := "true"
			if x.Op == token.LAND {
				short = "false"
			}
			if !a.mon && !b.mon {
				op := "||"
				if x.Op == token.LAND {
					op = "&&"
				}
				return c14E{s: "(" + a.s + " " + op + " " + b.s + ")", t: &c14T{k: "bool"}}
			}
			v := f.fresh()
			// lazy: the right operand (and its dereferences) only when Go evaluates it
			return c14E{s: fmt.Sprintf("(do let %s ← %s; if %s = %s then pure %s else %s)", v, a.m(), v, short, short, b.m()), mon: true, t: &c14T{k: "bool"}}
		}
		if x.Op == token.EQL || x.Op == token.NEQ {
			if f.isNil(x.Y) || f.isNil(x.X) {
				o := x.X
				if f.isNil(x.X) {
					o = x.Y
				}
				a := f.expr(o)
				if a.t.k != "ptr" {
					die("c14: %s: nil comparison of a non-pointer", f.pk.pos(x))
				}
				fn := ".isNone"
				if x.Op == token.NEQ {
					fn = ".isSome"
				}
				return f.bind([]c14E{a}, func(xs []string) string { return "(" + xs[0] + ")" + fn }, &c14T{k: "bool"})
			}
		}
		a, b := f.expr(x.X), f.expr(x.Y)
		if a.t.k != "int" || b.t.k != "int" {
			die("c14: %s: operator %s on non-integers", f.pk.pos(x), x.Op)
		}
		cmp := map[token.Token]string{token.EQL: "=", token.NEQ: "≠", token.LSS: "<", token.LEQ: "≤", token.GTR: ">", token.GEQ: "≥"}
		if op, ok := cmp[x.Op]; ok {
			return f.bind([]c14E{a, b}, func(xs []string) string { return "(decide (" + xs[0] + " " + op + " " + xs[1] + "))" }, &c14T{k: "bool"})
		}
		if x.Op == token.ADD {
			return f.bind([]c14E{a, b}, func(xs []string) string { return "(GoSem.addI " + xs[0] + " " + xs[1] + ")" }, &c14T{k: "int"})
		}
	}
	die("c14: %s: expression outside the subset", f.pk.pos(e))
	return c14E{}
}

func (f *c14Fn) composite(cl *ast.CompositeLit) c14E {
	t := c14TypeOf(types.NewPointer(f.pk.info.TypeOf(cl)), "composite literal")
	fm := c14Fields[t.name]
	zero := map[string]string{"seq": "0", "endOff": "0", "offset": "0", "mtime": "0", "runId": "[]", "version": "[]"}
	set := map[string]c14E{}
	for _, el := range cl.Elts {
		kv, ok := el.(*ast.KeyValueExpr)
		if !ok {
			die("c14: %s: positional composite literal", f.pk.pos(cl))
		}
		k, ok := kv.Key.(*ast.Ident)
		if !ok || fm[k.Name] == "" {
			die("c14: %s: composite literal field outside the model's structure", f.pk.pos(kv))
		}
		set[fm[k.Name]] = f.expr(kv.Value)
	}
	var names []string
	for _, l := range fm {
		names = append(names, l)
	}
	sort.Strings(names)
	var es []c14E
	for _, n := range names {
		if e, ok := set[n]; ok {
			es = append(es, e)
		} else {
			es = append(es, c14E{s: zero[n]})
		}
	}
	return f.bind(es, func(xs []string) string {
		var p []string
		for i, n := range names {
			p = append(p, n+" := "+xs[i])
		}
		return "(some ({ " + strings.Join(p, ", ") + " } : " + c14Structs[t.name] + "))"
	}, t)
}

// ---------------------------------------------------------------- statements

type c14K struct {
	// what to emit when control reaches the end of the statement list / a continue / a break / a return
	end   func() string
	cont  func() string
	brk   func() string
	inFor bool
}

func (f *c14Fn) assignedIn(n ast.Node) []types.Object {
	set := map[types.Object]bool{}
	root := func(e ast.Expr) {
		for {
			switch x := e.(type) {
			case *ast.SelectorExpr:
				e = x.X
				continue
			case *ast.IndexExpr:
				e = x.X
				continue
			case *ast.ParenExpr:
				e = x.X
				continue
			case *ast.Ident:
				if o := f.obj(x); o != nil {
					if _, ok := f.vars[o]; ok {
						set[o] = true
					}
				}
			}
			return
		}
	}
	ast.Inspect(n, func(n ast.Node) bool {
		switch s := n.(type) {
		case *ast.AssignStmt:
			if s.Tok == token.ASSIGN {
				for _, l := range s.Lhs {
					root(l)
				}
			}
		case *ast.IncDecStmt:
			root(s.X)
		}
		return true
	})
	var out []types.Object
	for _, o := range f.order {
		if set[o] {
			out = append(out, o)
		}
	}
	return out
}

func (f *c14Fn) tuple(os []types.Object) string {
	var xs []string
	for _, o := range os {
		xs = append(xs, f.vars[o].lean)
	}
	return gfTuple(xs)
}

func (f *c14Fn) tupleT(os []types.Object) string {
	var xs []string
	for _, o := range os {
		xs = append(xs, "("+f.vars[o].t.lean()+")")
	}
	if len(xs) == 0 {
		return "Unit"
	}
	return strings.Join(xs, " × ")
}

// assign: `lhs = rhs` as Lean lines ending in a shadowing let
func (f *c14Fn) assign(lhs ast.Expr, rhs c14E, ind string) string {
	switch l := lhs.(type) {
	case *ast.Ident:
		v, ok := f.vars[f.obj(l)]
		if !ok {
			die("c14: %s: assignment to an unknown variable", f.pk.pos(l))
		}
		if rhs.mon {
			return fmt.Sprintf("%slet %s ← %s\n", ind, v.lean, rhs.s)
		}
		return fmt.Sprintf("%slet %s : %s := %s\n", ind, v.lean, v.t.lean(), rhs.s)
	case *ast.SelectorExpr:
		id, ok := l.X.(*ast.Ident)
		if !ok {
			die("c14: %s: assignment through a non-variable", f.pk.pos(l))
		}
		v, ok := f.vars[f.obj(id)]
		if !ok || v.t.k != "ptr" {
			die("c14: %s: field assignment through a non-pointer variable", f.pk.pos(l))
		}
		fl, ok := c14Fields[v.t.name][l.Sel.Name]
		if !ok {
			die("c14: %s: assignment to field %s outside the model's structure", f.pk.pos(l), l.Sel.Name)
		}
		// Go evaluates the pointer operand, then the right-hand side, then stores (a nil pointer panics)
		d, r := f.fresh(), f.fresh()
		return fmt.Sprintf("%slet %s ← %s\n%slet %s ← %s\n%slet %s : %s := some { %s with %s := %s }\n", ind, r, rhs.m(), ind, d, v.lean, ind, v.lean, v.t.lean(), d, fl, r)
	case *ast.IndexExpr:
		id, ok := l.X.(*ast.Ident)
		if !ok {
			die("c14: %s: index assignment through a non-variable", f.pk.pos(l))
		}
		v, ok := f.vars[f.obj(id)]
		if !ok || v.t.k != "map" {
			die("c14: %s: index assignment on a non-map", f.pk.pos(l))
		}
		k := f.expr(l.Index)
		kx, rx := f.fresh(), f.fresh()
		return fmt.Sprintf("%slet %s ← %s\n%slet %s ← %s\n%slet %s : %s := mapSet %s %s %s\n", ind, kx, k.m(), ind, rx, rhs.m(), ind, v.lean, v.t.lean(), v.lean, kx, rx)
	}
	die("c14: %s: assignment target outside the subset", f.pk.pos(lhs))
	return ""
}

// simple: a statement list made of assignments only (the body of a guarded assignment)
func (f *c14Fn) simple(list []ast.Stmt, ind string) string {
	var sb strings.Builder
	for _, s := range list {
		switch x := s.(type) {
		case *ast.AssignStmt:
			if x.Tok != token.ASSIGN || len(x.Lhs) != 1 || len(x.Rhs) != 1 {
				die("c14: %s: statement outside the subset inside a guarded block", f.pk.pos(s))
			}
			sb.WriteString(f.assign(x.Lhs[0], f.expr(x.Rhs[0]), ind))
		default:
			die("c14: %s: statement outside the subset inside a guarded block", f.pk.pos(s))
		}
	}
	return sb.String()
}

// c14AlwaysLeaves: the last statement of the block is a return / continue / break (nothing falls through)
func c14AlwaysLeaves(list []ast.Stmt) bool {
	if len(list) == 0 {
		return false
	}
	switch x := list[len(list)-1].(type) {
	case *ast.ReturnStmt:
		return true
	case *ast.BranchStmt:
		return x.Label == nil && (x.Tok == token.CONTINUE || x.Tok == token.BREAK)
	}
	return false
}

func c14Leaves(list []ast.Stmt) string {
	// "ret" | "cont" | "brk" | "" for a block that consists of exactly one jump (possibly after nothing)
	if len(list) != 1 {
		return ""
	}
	switch x := list[0].(type) {
	case *ast.ReturnStmt:
		return "ret"
	case *ast.BranchStmt:
		if x.Label == nil && x.Tok == token.CONTINUE {
			return "cont"
		}
		if x.Label == nil && x.Tok == token.BREAK {
			return "brk"
		}
	}
	return ""
}

func (f *c14Fn) ret(r *ast.ReturnStmt) string {
	if len(r.Results) != len(f.res) {
		die("c14: %s: return arity", f.pk.pos(r))
	}
	var es []c14E
	for i, e := range r.Results {
		if f.isNil(e) {
			if f.res[i].k == "ptr" {
				es = append(es, c14E{s: "none", t: f.res[i]})
			} else if f.res[i].k == "err" {
				es = append(es, c14E{s: "false", t: f.res[i]})
			} else {
				die("c14: %s: nil result", f.pk.pos(e))
			}
			continue
		}
		es = append(es, f.expr(e))
	}
	x := f.bind(es, func(xs []string) string { return "(GoRet.ret " + gfTuple(xs) + ")" }, nil)
	return x.m()
}

// block translates list; every path ends in k.end / k.cont / k.brk / a return. The result is a Lean term of
// type Option (GoRet σ ρ) (σ = the loop state or Unit at function level, ρ = the function's results).
func (f *c14Fn) block(list []ast.Stmt, k c14K, ind string) string {
	if len(list) == 0 {
		return ind + k.end() + "\n"
	}
	s, rest := list[0], list[1:]
	switch x := s.(type) {
	case *ast.ReturnStmt:
		return ind + f.ret(x) + "\n"
	case *ast.BranchStmt:
		if x.Label == nil && x.Tok == token.CONTINUE && k.inFor {
			return ind + k.cont() + "\n"
		}
		if x.Label == nil && x.Tok == token.BREAK && k.inFor {
			return ind + k.brk() + "\n"
		}
	case *ast.DeclStmt:
		gd, ok := x.Decl.(*ast.GenDecl)
		if ok && gd.Tok == token.VAR && len(gd.Specs) == 1 {
			vs := gd.Specs[0].(*ast.ValueSpec)
			if len(vs.Names) == 1 && len(vs.Values) == 0 {
				t := c14TypeOf(f.pk.info.TypeOf(vs.Type), "var")
				if t.k == "ptr" {
					v := f.declare(vs.Names[0], t)
					return fmt.Sprintf("%slet %s : %s := none\n", ind, v.lean, t.lean()) + f.block(rest, k, ind)
				}
			}
		}
	case *ast.IncDecStmt:
		if x.Tok == token.INC {
			one := c14E{s: "(1 : Int)", t: &c14T{k: "int"}}
			cur := f.expr(x.X)
			if cur.t.k == "int" {
				sum := f.bind([]c14E{cur, one}, func(xs []string) string { return "(GoSem.addI " + xs[0] + " " + xs[1] + ")" }, cur.t)
				return f.assign(x.X, sum, ind) + f.block(rest, k, ind)
			}
		}
	case *ast.AssignStmt:
		if x.Tok == token.DEFINE && len(x.Lhs) == 2 && len(x.Rhs) == 1 {
			// v, ok := m[k]
			if ix, ok := x.Rhs[0].(*ast.IndexExpr); ok {
				m := f.expr(ix.X)
				if m.t.k == "map" && !m.mon {
					key := f.expr(ix.Index)
					v := f.declare(x.Lhs[0].(*ast.Ident), m.t.elem)
					okv := f.declare(x.Lhs[1].(*ast.Ident), &c14T{k: "bool"})
					kx := f.fresh()
					return fmt.Sprintf("%slet %s ← %s\n%slet %s : %s := (mapGet %s %s).1\n%slet %s : Bool := (mapGet %s %s).2\n", ind, kx, key.m(), ind, v.lean, v.t.lean(), m.s, kx, ind, okv.lean, m.s, kx) +
						f.block(rest, k, ind)
				}
			}
		}
		if x.Tok == token.DEFINE && len(x.Lhs) == 1 && len(x.Rhs) == 1 {
			id := x.Lhs[0].(*ast.Ident)
			// make(map[int64]*T, n)
			if call, ok := x.Rhs[0].(*ast.CallExpr); ok {
				if fn, ok := call.Fun.(*ast.Ident); ok && fn.Name == "make" {
					if _, ok := f.pk.info.Uses[fn].(*types.Builtin); ok {
						t := c14TypeOf(f.pk.info.TypeOf(call.Args[0]), "make")
						if t.k == "map" {
							v := f.declare(id, t)
							return fmt.Sprintf("%slet %s : %s := []\n", ind, v.lean, t.lean()) + f.block(rest, k, ind)
						}
					}
				}
			}
			e := f.expr(x.Rhs[0])
			v := f.declare(id, e.t)
			return f.assign(id, e, ind) + f.block(rest, k, ind) + func() string { _ = v; return "" }()
		}
		if x.Tok == token.ASSIGN && len(x.Lhs) == 1 && len(x.Rhs) == 1 {
			return f.assign(x.Lhs[0], f.expr(x.Rhs[0]), ind) + f.block(rest, k, ind)
		}
	case *ast.IfStmt:
		if x.Init != nil {
			die("c14: %s: if with an init statement", f.pk.pos(x))
		}
		c := f.expr(x.Cond)
		g := f.fresh()
		head := fmt.Sprintf("%slet %s ← %s\n", ind, g, c.m())
		switch {
		case x.Else == nil && c14AlwaysLeaves(x.Body.List):
			kk := k
			kk.end = func() string { die("c14: %s: internal: end of a block that always leaves", f.pk.pos(x)); return "" }
			return head + fmt.Sprintf("%sif %s then (do\n", ind, g) + f.block(x.Body.List, kk, ind+"  ") + fmt.Sprintf("%s  ) else do\n", ind) + f.block(rest, k, ind+"  ")
		case x.Else == nil && len(x.Body.List) == 1:
			// `if c { if d { return … } }`: a guarded block that is itself one if-return
			if in, ok := x.Body.List[0].(*ast.IfStmt); ok && in.Else == nil && in.Init == nil && c14Leaves(in.Body.List) == "ret" {
				d := f.expr(in.Cond)
				g2 := f.fresh()
				return head + fmt.Sprintf("%slet %s ← (if %s then %s else pure false)\n", ind, g2, g, d.m()) +
					fmt.Sprintf("%sif %s then %s else do\n", ind, g2, f.ret(in.Body.List[0].(*ast.ReturnStmt))) + f.block(rest, k, ind+"  ")
			}
			fallthrough
		default:
			// guarded assignments, joined on the variables either branch assigns
			var elseList []ast.Stmt
			if x.Else != nil {
				eb, ok := x.Else.(*ast.BlockStmt)
				if !ok {
					die("c14: %s: else-if outside the subset", f.pk.pos(x))
				}
				elseList = eb.List
			}
			as := f.assignedIn(x)
			if len(as) == 0 {
				die("c14: %s: if statement without effect or outside the subset", f.pk.pos(x))
			}
			tup := f.tuple(as)
			thenS := f.simple(x.Body.List, ind+"    ")
			elseS := f.simple(elseList, ind+"    ")
			return head + fmt.Sprintf("%slet %s ← (if %s then (do\n%s%s    pure %s) else (do\n%s%s    pure %s) : Option (%s))\n", ind, tup, g, thenS, ind, tup, elseS, ind, tup, f.tupleT(as)) +
				f.block(rest, k, ind)
		}
	case *ast.RangeStmt:
		return f.rangeLoop(x, rest, k, ind)
	case *ast.ForStmt:
		if x.Init == nil && x.Cond == nil && x.Post == nil {
			return f.foreverLoop(x, rest, k, ind)
		}
	}
	die("c14: %s: statement outside the subset", f.pk.pos(s))
	return ""
}

func (f *c14Fn) freeParams(body ast.Node, state []types.Object, skip types.Object) []types.Object {
	// variables the loop body reads that are not part of its state: passed as read-only parameters
	inState := map[types.Object]bool{}
	for _, o := range state {
		inState[o] = true
	}
	seen := map[types.Object]bool{}
	var out []types.Object
	ast.Inspect(body, func(n ast.Node) bool {
		if id, ok := n.(*ast.Ident); ok {
			if o := f.pk.info.Uses[id]; o != nil && o != skip && !inState[o] && !seen[o] {
				if _, ok := f.vars[o]; ok {
					seen[o] = true
					out = append(out, o)
				}
			}
		}
		return true
	})
	sort.Slice(out, func(i, j int) bool { return out[i].Pos() < out[j].Pos() })
	return out
}

func (f *c14Fn) loopSig(ro []types.Object) (string, string) {
	var ps, as []string
	for _, p := range f.extra {
		ps = append(ps, p)
		as = append(as, strings.Fields(strings.Trim(p, "()"))[0])
	}
	for _, o := range ro {
		ps = append(ps, fmt.Sprintf("(%s : %s)", f.vars[o].lean, f.vars[o].t.lean()))
		as = append(as, f.vars[o].lean)
	}
	return strings.Join(ps, " "), strings.Join(as, " ")
}

func (f *c14Fn) resT() string {
	var xs []string
	for _, t := range f.res {
		xs = append(xs, "("+t.lean()+")")
	}
	return strings.Join(xs, " × ")
}

func (f *c14Fn) rangeLoop(x *ast.RangeStmt, rest []ast.Stmt, k c14K, ind string) string {
	if x.Tok != token.DEFINE || x.Value == nil {
		die("c14: %s: range form outside the subset", f.pk.pos(x))
	}
	if kid, ok := x.Key.(*ast.Ident); !ok || kid.Name != "_" {
		die("c14: %s: range with an index variable", f.pk.pos(x))
	}
	src := f.expr(x.X)
	if src.t.k != "slice" || src.mon {
		die("c14: %s: range source outside the subset", f.pk.pos(x))
	}
	state := f.assignedIn(x.Body)
	elem := f.declare(x.Value.(*ast.Ident), src.t.elem)
	elemObj := f.obj(x.Value.(*ast.Ident))
	// the range source must not be assigned in the body (its elements are iterated once, in order)
	if so, ok := x.X.(*ast.Ident); ok {
		for _, o := range state {
			if o == f.obj(so) {
				die("c14: %s: the range source is assigned inside the loop", f.pk.pos(x))
			}
		}
	}
	ro := f.freeParams(x.Body, state, elemObj)
	f.loops++
	name := fmt.Sprintf("%s_loop%d", f.name, f.loops)
	ps, as := f.loopSig(ro)
	st, stT := f.tuple(state), f.tupleT(state)
	inner := c14K{inFor: true,
		end:  func() string { return "pure (GoRet.next " + st + ")" },
		cont: func() string { return "pure (GoRet.next " + st + ")" },
		brk:  func() string { return "pure (GoRet.brk " + st + ")" }}
	body := f.block(x.Body.List, inner, "  ")
	var sb strings.Builder
	fmt.Fprintf(&sb, "/-- body of the loop at %s: one element, the variables the loop assigns -/\n", f.pk.pos(x))
	fmt.Fprintf(&sb, "def %s_body %s (%s : %s) : %s → Option (GoRet (%s) (%s)) := fun %s => do\n%s\n", name, ps, elem.lean, elem.t.lean(), stT, stT, f.resT(), st, body)
	fmt.Fprintf(&sb, "/-- `for _, %s := range …` at %s -/\n", elem.lean, f.pk.pos(x))
	fmt.Fprintf(&sb, "def %s %s : %s → %s → Option (GoRet (%s) (%s))\n  | [], st => pure (GoRet.next st)\n  | x :: rest, st => do\n    match (← %s_body %s x st) with\n    | GoRet.next st' => %s %s rest st'\n    | GoRet.brk st' => pure (GoRet.next st')\n    | GoRet.ret r => pure (GoRet.ret r)\n",
		name, ps, src.t.lean(), stT, stT, f.resT(), name, as, name, as)
	f.aux = append(f.aux, sb.String())
	call := fmt.Sprintf("%smatch (← %s %s %s %s) with\n%s| GoRet.ret r => pure (GoRet.ret r)\n%s| GoRet.brk _ => none\n%s| GoRet.next %s => do\n", ind, name, as, src.s, st, ind, ind, ind, st)
	return call + f.block(rest, k, ind+"  ")
}

func (f *c14Fn) foreverLoop(x *ast.ForStmt, rest []ast.Stmt, k c14K, ind string) string {
	state := f.assignedIn(x.Body)
	// variables declared inside the body are locals of one iteration
	f.loops++
	name := fmt.Sprintf("%s_loop%d", f.name, f.loops)
	pre := len(f.order)
	st, stT := f.tuple(state), f.tupleT(state)
	inner := c14K{inFor: true,
		end:  func() string { return "pure (GoRet.next " + st + ")" },
		cont: func() string { return "pure (GoRet.next " + st + ")" },
		brk:  func() string { return "pure (GoRet.brk " + st + ")" }}
	body := f.block(x.Body.List, inner, "  ")
	// locals of the body must not be part of the state
	var st2 []types.Object
	for _, o := range state {
		isLocal := false
		for _, l := range f.order[pre:] {
			if l == o {
				isLocal = true
			}
		}
		if !isLocal {
			st2 = append(st2, o)
		}
	}
	if len(st2) != len(state) {
		die("c14: %s: a variable declared inside the loop body is assigned again", f.pk.pos(x))
	}
	ro := f.freeParams(x.Body, state, nil)
	var ro2 []types.Object
	for _, o := range ro {
		isLocal := false
		for _, l := range f.order[pre:] {
			if l == o {
				isLocal = true
			}
		}
		if !isLocal {
			ro2 = append(ro2, o)
		}
	}
	ps, as := f.loopSig(ro2)
	var sb strings.Builder
	fmt.Fprintf(&sb, "/-- body of the `for { … }` at %s: one iteration -/\n", f.pk.pos(x))
	fmt.Fprintf(&sb, "def %s_body %s : %s → Option (GoRet (%s) (%s)) := fun %s => do\n%s\n", name, ps, stT, stT, f.resT(), st, body)
	fmt.Fprintf(&sb, "/-- `for { … }` at %s: at most `n` iterations (none when they do not suffice) -/\n", f.pk.pos(x))
	fmt.Fprintf(&sb, "def %s %s : Nat → %s → Option (GoRet (%s) (%s))\n  | 0, _ => none\n  | n + 1, st => do\n    match (← %s_body %s st) with\n    | GoRet.next st' => %s %s n st'\n    | GoRet.brk st' => pure (GoRet.next st')\n    | GoRet.ret r => pure (GoRet.ret r)\n",
		name, ps, stT, stT, f.resT(), name, as, name, as)
	f.aux = append(f.aux, sb.String())
	call := fmt.Sprintf("%smatch (← %s %s fuel %s) with\n%s| GoRet.ret r => pure (GoRet.ret r)\n%s| GoRet.brk _ => none\n%s| GoRet.next %s => do\n", ind, name, as, st, ind, ind, ind, st)
	return call + f.block(rest, k, ind+"  ")
}

// ---------------------------------------------------------------- functions

func c14Func(pk *gfPackage, goName, lean string, withFuel bool) string {
	decl := gfFindDecl(pk, goName)
	f := &c14Fn{pk: pk, vars: map[types.Object]*c14Var{}, name: lean, extra: []string{"(ver : Bytes)"}}
	var params []string
	params = append(params, "(ver : Bytes)")
	if withFuel {
		f.extra = append(f.extra, "(fuel : Nat)")
		params = append(params, "(fuel : Nat)")
	}
	if decl.Recv != nil {
		r := decl.Recv.List[0]
		t := c14TypeOf(pk.info.TypeOf(r.Type), "receiver")
		v := f.declare(r.Names[0], t)
		params = append(params, fmt.Sprintf("(%s : %s)", v.lean, t.lean()))
	}
	for _, p := range decl.Type.Params.List {
		t := c14TypeOf(pk.info.TypeOf(p.Type), "parameter")
		for _, n := range p.Names {
			v := f.declare(n, t)
			params = append(params, fmt.Sprintf("(%s : %s)", v.lean, t.lean()))
		}
	}
	if decl.Type.Results == nil {
		die("c14: %s: no results", goName)
	}
	for _, r := range decl.Type.Results.List {
		if len(r.Names) > 0 {
			die("c14: %s: named results", goName)
		}
		f.res = append(f.res, c14TypeOf(pk.info.TypeOf(r.Type), "result"))
	}
	top := c14K{end: func() string { return "none /- the function body ends without a return: not Go -/" }}
	body := f.block(decl.Body.List, top, "  ")
	var sb strings.Builder
	for _, a := range f.aux {
		sb.WriteString(a + "\n")
	}
	fmt.Fprintf(&sb, "/-- %s `func %s` -/\ndef %s %s : Option (%s) := do\n  match (← (do\n%s  : Option (GoRet Unit (%s)))) with\n  | GoRet.ret r => pure r\n  | _ => none\n",
		pk.pos(decl), goName, lean, strings.Join(params, " "), f.resT(), strings.ReplaceAll(body, "\n  ", "\n    ")[0:0]+indentAll(body, "  "), f.resT())
	return sb.String()
}

func indentAll(s, ind string) string {
	lines := strings.Split(strings.TrimRight(s, "\n"), "\n")
	for i := range lines {
		lines[i] = ind + lines[i]
	}
	return strings.Join(lines, "\n") + "\n"
}

// c14LatestStep: the selection part of LoadBisyncLatestStartRecord's loop body as a function of
// (best, recordCount, record); the statements before it are checked to be the I/O prefix the harness ties.
func c14LatestStep(pk *gfPackage) string {
	decl := gfFindDecl(pk, "LoadBisyncLatestStartRecord")
	var loop *ast.RangeStmt
	for _, s := range decl.Body.List {
		if r, ok := s.(*ast.RangeStmt); ok {
			if id, ok := r.X.(*ast.Ident); ok && id.Name == "recordMaps" {
				if loop != nil {
					die("c14: LoadBisyncLatestStartRecord: two loops over recordMaps")
				}
				loop = r
			}
		}
	}
	if loop == nil {
		die("c14: LoadBisyncLatestStartRecord: the loop over recordMaps was not found")
	}
	// find the parse statement `record, err := ParseBisyncCommitRecordMap(key, fields)`; everything after its
	// error check is the selection
	cut := -1
	var recID *ast.Ident
	for i, s := range loop.Body.List {
		as, ok := s.(*ast.AssignStmt)
		if !ok || as.Tok != token.DEFINE || len(as.Rhs) != 1 {
			continue
		}
		if call, ok := as.Rhs[0].(*ast.CallExpr); ok {
			if fn, ok := call.Fun.(*ast.Ident); ok && fn.Name == "ParseBisyncCommitRecordMap" && len(as.Lhs) == 2 {
				cut = i + 2 // the parse and its `if err != nil { return … }`
				recID = as.Lhs[0].(*ast.Ident)
			}
		}
	}
	if cut < 0 || cut > len(loop.Body.List) {
		die("c14: LoadBisyncLatestStartRecord: parse statement not found in the loop")
	}
	if ifs, ok := loop.Body.List[cut-1].(*ast.IfStmt); !ok || c14Leaves(ifs.Body.List) != "ret" {
		die("c14: LoadBisyncLatestStartRecord: the statement after the parse is not its error return")
	}
	sel := loop.Body.List[cut:]
	f := &c14Fn{pk: pk, vars: map[types.Object]*c14Var{}, name: "latestStep", extra: nil}
	// state: the variables the selection assigns (declared before the loop); parameters: record, runIDs
	var params []string
	declared := map[string]bool{}
	ast.Inspect(decl.Body, func(n ast.Node) bool {
		if id, ok := n.(*ast.Ident); ok {
			if o := pk.info.Defs[id]; o != nil {
				if _, isVar := o.(*types.Var); isVar && (id.Name == "best" || id.Name == "recordCount") && !declared[id.Name] {
					declared[id.Name] = true
					f.declare(id, c14TypeOf(o.Type(), id.Name))
				}
			}
		}
		return true
	})
	rec := f.declare(recID, c14TypeOf(pk.info.TypeOf(recID), "record"))
	// MatchBisyncRunID(record.RunID, runIDs): the model's matchRun over the id list (Gen: a parameter `ids`)
	f.res = nil
	state := f.assignedIn(&ast.BlockStmt{List: sel})
	st, stT := f.tuple(state), f.tupleT(state)
	for _, o := range state {
		params = append(params, fmt.Sprintf("(%s : %s)", f.vars[o].lean, f.vars[o].t.lean()))
	}
	k := c14K{inFor: true,
		end:  func() string { return "pure " + st },
		cont: func() string { return "pure " + st },
		brk:  func() string { die("c14: break in the selection"); return "" }}
	// the run-id filter is the one call the subset does not have: recognised as a whole statement
	first, ok := sel[0].(*ast.IfStmt)
	if !ok || c14Leaves(first.Body.List) != "cont" {
		die("c14: LoadBisyncLatestStartRecord: the selection does not start with the run-id filter")
	}
	un, ok := first.Cond.(*ast.UnaryExpr)
	if !ok || un.Op != token.NOT {
		die("c14: run-id filter shape")
	}
	call, ok := un.X.(*ast.CallExpr)
	if !ok || len(call.Args) != 2 {
		die("c14: run-id filter shape")
	}
	if fn, ok := call.Fun.(*ast.Ident); !ok || fn.Name != "MatchBisyncRunID" {
		die("c14: run-id filter shape")
	}
	if a1, ok := call.Args[1].(*ast.Ident); !ok || a1.Name != "runIDs" {
		die("c14: run-id filter shape")
	}
	rid := f.expr(call.Args[0])
	body := f.block(sel[1:], k, "    ")
	g := f.fresh()
	return fmt.Sprintf("/-- the selection part of the loop body of LoadBisyncLatestStartRecord (%s): from the run-id filter on -/\ndef latestStep (ids : List Bytes) %s (%s : %s) : Option (%s) := do\n  let %s ← %s\n  if !(matchRun %s ids) then pure %s else do\n%s",
		pk.pos(loop), strings.Join(params, " "), rec.lean, rec.t.lean(), stT, g, rid.m(), g, st, body)
}

const c14Prelude = `/-- outcome of a translated statement list: fell through / continue (next), break (brk), return (ret) -/
inductive GoRet (σ ρ : Type) where
  | next : σ → GoRet σ ρ
  | brk : σ → GoRet σ ρ
  | ret : ρ → GoRet σ ρ

/-- Go map[int64]V as an association list: ` + "`v, ok := m[k]`" + ` (zero value ` + "`none`" + ` = nil when absent) -/
def mapGet {α : Type} (m : List (Int × Option α)) (k : Int) : Option α × Bool :=
  match m.find? (fun p => p.1 = k) with
  | some p => (p.2, true)
  | none => (none, false)

/-- ` + "`m[k] = v`" + ` -/
def mapSet {α : Type} (m : List (Int × Option α)) (k : Int) (v : Option α) : List (Int × Option α) :=
  (k, v) :: m.filter (fun p => p.1 ≠ k)
`

// c14Globals: process-global state the recovery code of C14 reaches - package-level variables of the two bisync files
// that a function body writes (assignment, also through an index), takes the address of, or calls a state-changing /
// synchronising method on. Fact c14_pkg_globals (metrics vectors - .Set / .Add / .Inc - are not state of the property).
func c14Globals() []string {
	meth := map[string]bool{"Store": true, "Load": true, "LoadOrStore": true, "LoadAndDelete": true, "Delete": true, "Range": true, "Swap": true,
		"CompareAndSwap": true, "Do": true, "Lock": true, "Unlock": true, "RLock": true, "RUnlock": true}
	set := map[string]bool{}
	for _, rel := range []string{"pkg/redis/checkpoint/bisync.go", "syncer/bisync.go"} {
		_, file := parseFile(rel)
		vars := map[string]bool{}
		for _, d := range file.Decls {
			if gd, ok := d.(*ast.GenDecl); ok && gd.Tok == token.VAR {
				for _, sp := range gd.Specs {
					for _, n := range sp.(*ast.ValueSpec).Names {
						vars[n.Name] = true
					}
				}
			}
		}
		root := func(e ast.Expr) string {
			for {
				switch x := e.(type) {
				case *ast.IndexExpr:
					e = x.X
				case *ast.SelectorExpr:
					e = x.X
				case *ast.ParenExpr:
					e = x.X
				case *ast.StarExpr:
					e = x.X
				case *ast.Ident:
					if vars[x.Name] && x.Obj != nil && x.Obj.Kind == ast.Var {
						if _, top := x.Obj.Decl.(*ast.ValueSpec); top {
							return x.Name
						}
					}
					return ""
				default:
					return ""
				}
			}
		}
		for _, d := range file.Decls {
			fd, ok := d.(*ast.FuncDecl)
			if !ok || fd.Body == nil {
				continue
			}
			ast.Inspect(fd.Body, func(n ast.Node) bool {
				switch x := n.(type) {
				case *ast.AssignStmt:
					if x.Tok != token.DEFINE {
						for _, l := range x.Lhs {
							if v := root(l); v != "" {
								set[rel+":"+v+":written in "+fd.Name.Name] = true
							}
						}
					}
				case *ast.IncDecStmt:
					if v := root(x.X); v != "" {
						set[rel+":"+v+":written in "+fd.Name.Name] = true
					}
				case *ast.UnaryExpr:
					if x.Op == token.AND {
						if v := root(x.X); v != "" {
							set[rel+":"+v+":address taken in "+fd.Name.Name] = true
						}
					}
				case *ast.CallExpr:
					if sel, ok := x.Fun.(*ast.SelectorExpr); ok && meth[sel.Sel.Name] {
						if id, ok := sel.X.(*ast.Ident); ok {
							if v := root(id); v != "" {
								set[rel+":"+v+":."+sel.Sel.Name+" in "+fd.Name.Name] = true
							}
						}
					}
				}
				return true
			})
		}
	}
	var out []string
	for k := range set {
		out = append(out, k)
	}
	sort.Strings(out)
	return out
}

func genC14() {
	facts["c14_pkg_globals"] = c14Globals()
	pk := gfLoad("pkg/redis/checkpoint")
	var sb strings.Builder
	sb.WriteString(header)
	sb.WriteString("/-\n  TRANSLATED by harness/extract/gofn_c14.go from /repo/pkg/redis/checkpoint/bisync.go:\n" +
		"  BisyncFrontierSnapshot.Clone, RebuildBisyncFrontier, the selection of LoadBisyncLatestStartRecord.\n" +
		"  Result `none` = Go panics (nil dereference) or the fuel argument ran out. `*T` is `Option T` over the MODEL's\n" +
		"  structures (only the fields the functions touch exist there); `error` is Bool; int64 `+` wraps (GoSem.addI);\n" +
		"  `||` / `&&` are lazy. `ver` = config.Version.\n-/\n")
	sb.WriteString("import GunYu.Basic.GoSem\nimport GunYu.Model.Frontier\n\nset_option linter.unusedVariables false\n\nnamespace GunYu.Gen.C14\nopen GunYu GunYu.Frontier\n\n")
	sb.WriteString(c14Prelude + "\n")
	cl := c14Func(pk, "BisyncFrontierSnapshot.Clone", "cloneV", false)
	sb.WriteString(cl + "\n")
	sb.WriteString("/-- `x.Clone()` (the build's version string does not occur in it) -/\ndef clone (f : Option Snap) : Option (Option Snap) := cloneV [] f\n\n")
	sb.WriteString(c14Func(pk, "RebuildBisyncFrontier", "rebuildFrontier", true) + "\n")
	sb.WriteString(c14LatestStep(pk) + "\n")
	sb.WriteString("end GunYu.Gen.C14\n")
	writeIfChanged(*out+"/FnC14Frontier.lean", sb.String())
}
