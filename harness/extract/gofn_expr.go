package main

// gofn: expressions. An expression is translated to a PURE Lean term; every
// sub-expression that can panic (index, slice, nil dereference, call of a
// translated function) is first bound to a temporary with `let t ← …` in the
// enclosing do-block (buffer b). All failures are `none`, so the order in which
// two panicking operands are bound cannot be observed.

import (
	"fmt"
	"go/ast"
	"go/constant"
	"go/token"
	"go/types"
	"strings"
)

type gfFn struct {
	t        *gfTarget
	pk       *gfPackage
	decl     *ast.FuncDecl
	leanName string
	names    map[types.Object]string
	used     map[string]bool
	override map[types.Object]*gfT // value variable of an ASCII-compared string range: byte
	ntmp     int
	nloop    int
	defs     []string // auxiliary loop definitions, in dependency order
	recv     types.Object
	recvMut  bool
	results  []*gfT
	notes    map[string]bool
	ascii    map[types.Object]bool // value variables of ASCII-compared string ranges
	owned    map[types.Object]bool // session 5: local pointers to a fresh struct held by nobody else (gofn_s5.go)
}

func (f *gfFn) at(n ast.Node) string { return f.leanName + " (" + f.pk.pos(n) + ")" }

func (f *gfFn) tmp() string {
	f.ntmp++
	return fmt.Sprintf("t%d", f.ntmp)
}

func (f *gfFn) nameOf(o types.Object) string {
	if n, ok := f.names[o]; ok {
		return n
	}
	base := gfLeanIdent(o.Name())
	n := base
	for i := 2; f.used[n]; i++ {
		n = fmt.Sprintf("%s_%d", base, i)
	}
	f.used[n] = true
	f.names[o] = n
	return n
}

func (f *gfFn) objOf(id *ast.Ident) types.Object {
	if o := f.pk.info.Defs[id]; o != nil {
		return o
	}
	return f.pk.info.Uses[id]
}

func (f *gfFn) varType(o types.Object) *gfT {
	if t, ok := f.override[o]; ok {
		return t
	}
	if o.Type() == nil || o.Type() == types.Typ[types.Invalid] {
		die("variable %s has no usable type", o.Name())
	}
	return gfTypeOf(o.Type(), "variable "+o.Name())
}

func (f *gfFn) isLocal(o types.Object) bool {
	v, ok := o.(*types.Var)
	if !ok || v.IsField() {
		return false
	}
	return o.Parent() != f.pk.pkg.Scope() && o.Pkg() == f.pk.pkg
}

func (f *gfFn) typeOf(e ast.Expr) *gfT {
	if id, ok := e.(*ast.Ident); ok {
		if o := f.objOf(id); o != nil {
			if t, ok := f.override[o]; ok {
				return t
			}
		}
	}
	if p, ok := e.(*ast.ParenExpr); ok {
		return f.typeOf(p.X)
	}
	tv, ok := f.pk.info.Types[e]
	if !ok || tv.Type == nil || tv.Type == types.Typ[types.Invalid] {
		// calls of translated functions in other packages are typed from the callee
		if c, ok := e.(*ast.CallExpr); ok {
			if cal := f.callee(c); cal != nil && len(cal.results) == 1 {
				return cal.results[0]
			}
			// members of the standard library the translator gives a Lean reading to (their packages are not loaded)
			if f.pkgCall(c, "sort", "Search") {
				return &gfT{k: kInt}
			}
			if f.pkgCall(c, "fmt", "Errorf") || f.pkgCall(c, "errors", "New") {
				return &gfT{k: kErr}
			}
			if x := gfExtFind(f, c); x != nil { // gofn_c13.go: further library members with an exact Lean reading
				return x.result
			}
			if ftv, ok := f.pk.info.Types[c.Fun]; ok && ftv.IsType() { // a conversion whose operand the checker could not type
				return gfTypeOf(ftv.Type, f.at(e))
			}
			if t := f.typeS5(c); t != nil { // session 5: standard-library members read by GoSemS5.lean
				return t
			}
		}
		// session 5: expressions over a variable typed by the translator (x := <standard-library call>)
		switch y := e.(type) {
		case *ast.CallExpr:
			if f.builtin(y, "len") && len(y.Args) == 1 {
				if at := f.typeOf(y.Args[0]); at.k == kBytes || at.k == kSlice {
					return &gfT{k: kInt}
				}
			}
		case *ast.BinaryExpr:
			switch y.Op {
			case token.LAND, token.LOR, token.EQL, token.NEQ, token.LSS, token.LEQ, token.GTR, token.GEQ:
				return &gfT{k: kBool} // operands typed by the translator (library calls of stand-in packages)
			}
		case *ast.UnaryExpr:
			if y.Op == token.NOT {
				return &gfT{k: kBool}
			}
		case *ast.IndexExpr:
			switch xt := f.typeOf(y.X); xt.k {
			case kSlice:
				return xt.elem
			case kBytes:
				return &gfT{k: kU8}
			}
		}
		die("%s: expression `%s` has no usable type", f.at(e), c15Print(f.pk.fset, e))
	}
	return gfTypeOf(tv.Type, f.at(e))
}

func (f *gfFn) constOf(e ast.Expr) constant.Value {
	if tv, ok := f.pk.info.Types[e]; ok && tv.Value != nil {
		return tv.Value
	}
	return nil
}

// ---------------------------------------------------------------- callees

type gfCallee struct {
	lean    string
	module  string
	results []*gfT
}

func (f *gfFn) callee(c *ast.CallExpr) *gfCallee {
	var id *ast.Ident
	switch fun := c.Fun.(type) {
	case *ast.Ident:
		id = fun
	case *ast.SelectorExpr:
		id = fun.Sel
	default:
		return nil
	}
	fo, ok := f.pk.info.Uses[id].(*types.Func)
	if !ok || fo.Pkg() == nil {
		return nil
	}
	sig := fo.Type().(*types.Signature)
	if sig.Recv() != nil {
		return nil
	}
	rel := strings.TrimPrefix(fo.Pkg().Path(), gfModule+"/")
	for _, t := range gfTargets {
		if t.dir != rel {
			continue
		}
		for _, fs := range t.funcs {
			if fs.goName == fo.Name() {
				cal := &gfCallee{lean: "GunYu.Gen.Fn." + fs.lean, module: "GunYu.Gen." + t.file}
				for i := 0; i < sig.Results().Len(); i++ {
					cal.results = append(cal.results, gfTypeOf(sig.Results().At(i).Type(), "result of "+fo.Name()))
				}
				if t != f.t {
					f.t.needImport[cal.module] = true
				}
				return cal
			}
		}
	}
	return nil
}

// pkgCall reports `pkg.Name(…)` for an imported package with the given path
func (f *gfFn) pkgCall(c *ast.CallExpr, path, name string) bool {
	sel, ok := c.Fun.(*ast.SelectorExpr)
	if !ok || sel.Sel.Name != name {
		return false
	}
	id, ok := sel.X.(*ast.Ident)
	if !ok {
		return false
	}
	pn, ok := f.pk.info.Uses[id].(*types.PkgName)
	return ok && pn.Imported().Path() == path
}

func (f *gfFn) builtin(c *ast.CallExpr, name string) bool {
	id, ok := c.Fun.(*ast.Ident)
	if !ok || id.Name != name {
		return false
	}
	_, isB := f.pk.info.Uses[id].(*types.Builtin)
	return isB
}

// ---------------------------------------------------------------- expressions

// toNat renders an index / shift amount of an unsigned type as a Nat term
func (f *gfFn) toNat(b *gfBuf, e ast.Expr) string {
	if v := f.constOf(e); v != nil {
		n, ok := constant.Uint64Val(constant.ToInt(v))
		if !ok {
			die("%s: negative or huge constant amount", f.at(e))
		}
		return fmt.Sprintf("%d", n)
	}
	t := f.typeOf(e)
	c := f.expr(b, e)
	switch t.k {
	case kBV, kU8:
		return "(" + c + ").toNat"
	}
	die("%s: a signed, non-constant shift amount or array index is outside the subset", f.at(e))
	return ""
}

func (f *gfFn) toInt(b *gfBuf, e ast.Expr) string {
	t := f.typeOf(e)
	if v := f.constOf(e); v != nil {
		return gfConst(v, &gfT{k: kInt}, f.at(e))
	}
	c := f.expr(b, e)
	switch t.k {
	case kInt:
		return c
	case kU8:
		return "(GoSem.u8toI " + c + ")"
	case kBV:
		if t.bits < 64 {
			return "(GoSem.bvToI " + c + ")"
		}
	}
	die("%s: index of this type is outside the subset", f.at(e))
	return ""
}

func (f *gfFn) expr(b *gfBuf, e ast.Expr) string {
	if p, ok := e.(*ast.ParenExpr); ok {
		return f.expr(b, p.X)
	}
	if v := f.constOf(e); v != nil {
		return gfConst(v, f.typeOf(e), f.at(e))
	}
	switch x := e.(type) {
	case *ast.Ident:
		o := f.objOf(x)
		if o == nil {
			die("%s: unresolved identifier %s", f.at(e), x.Name)
		}
		if f.isLocal(o) {
			return f.nameOf(o)
		}
		if _, isNil := o.(*types.Nil); isNil {
			die("%s: `nil` in a position where its type is not determined by the translator", f.at(e))
		}
		die("%s: identifier %s (package-level variable or other object) used as a value is outside the subset", f.at(e), x.Name)
	case *ast.BinaryExpr:
		switch x.Op {
		case token.LAND, token.LOR, token.EQL, token.NEQ, token.LSS, token.LEQ, token.GTR, token.GEQ:
			return "(decide " + f.cond(b, e) + ")"
		}
		t := f.typeOf(e)
		l := f.expr(b, x.X)
		if x.Op == token.SHL || x.Op == token.SHR {
			if t.k != kBV {
				die("%s: shift of a value that is not uint16/32/64 is outside the subset", f.at(e))
			}
			op := "<<<"
			if x.Op == token.SHR {
				op = ">>>"
			}
			return fmt.Sprintf("(%s %s %s)", l, op, f.toNat(b, x.Y))
		}
		r := f.expr(b, x.Y)
		// normal form of a commutative operation on numbers: a constant operand goes to the right
		if f.constOf(x.X) != nil && f.constOf(x.Y) == nil && t.k != kBytes {
			switch x.Op {
			case token.ADD, token.MUL, token.AND, token.OR, token.XOR:
				l, r = r, l
			}
		}
		return f.arith(x.Op, t, l, r, e)
	case *ast.UnaryExpr:
		switch x.Op {
		case token.NOT:
			return "(decide " + f.cond(b, e) + ")"
		case token.SUB:
			if f.typeOf(e).k == kInt {
				return "(GoSem.negI " + f.expr(b, x.X) + ")"
			}
		case token.AND:
			if cl, ok := x.X.(*ast.CompositeLit); ok {
				return "(some " + f.composite(b, cl) + ")"
			}
		}
		die("%s: unary operator %s outside the subset", f.at(e), x.Op)
	case *ast.CompositeLit:
		return f.composite(b, x)
	case *ast.IndexExpr:
		return f.index(b, x)
	case *ast.SliceExpr:
		if x.Slice3 {
			die("%s: three-index slice outside the subset", f.at(e))
		}
		t := f.typeOf(x.X)
		if t.k != kBytes && t.k != kSlice {
			die("%s: slicing of this type outside the subset", f.at(e))
		}
		s := f.expr(b, x.X)
		lo, hi := "(0 : Int)", "(GoSem.len "+s+")"
		if x.Low != nil {
			lo = f.toInt(b, x.Low)
		}
		if x.High != nil {
			hi = f.toInt(b, x.High)
		}
		tm := f.tmp()
		b.add("let %s ← GoSem.slice %s %s %s", tm, s, lo, hi)
		return tm
	case *ast.SelectorExpr:
		sel := f.pk.info.Selections[x]
		if sel == nil || sel.Kind() != types.FieldVal {
			die("%s: selector `%s` is not a struct field (package-level variables of other packages and method values are outside the subset)", f.at(e), c15Print(f.pk.fset, e))
		}
		if len(sel.Index()) != 1 {
			die("%s: embedded field access outside the subset", f.at(e))
		}
		xt := f.typeOf(x.X)
		xc := f.expr(b, x.X)
		fld := gfLeanIdent(x.Sel.Name)
		switch xt.k {
		case kStruct:
			return xc + "." + fld
		case kPtr:
			if id, ok := x.X.(*ast.Ident); ok && f.recv != nil && f.objOf(id) == f.recv {
				return xc + "." + fld
			}
			tm := f.tmp()
			b.add("let %s ← %s", tm, xc) // nil dereference panics
			return tm + "." + fld
		}
		die("%s: field of a non-struct", f.at(e))
	case *ast.CallExpr:
		return f.call(b, x)
	}
	die("%s: expression `%s` outside the subset", f.at(e), c15Print(f.pk.fset, e))
	return ""
}

func (f *gfFn) arith(op token.Token, t *gfT, l, r string, at ast.Node) string {
	switch t.k {
	case kInt:
		switch op {
		case token.ADD:
			return fmt.Sprintf("(GoSem.addI %s %s)", l, r)
		case token.SUB:
			return fmt.Sprintf("(GoSem.subI %s %s)", l, r)
		case token.MUL:
			return fmt.Sprintf("(GoSem.mulI %s %s)", l, r)
		}
	case kBV, kU8:
		m := map[token.Token]string{token.ADD: "+", token.SUB: "-", token.MUL: "*", token.AND: "&&&", token.OR: "|||", token.XOR: "^^^"}
		if s, ok := m[op]; ok {
			return fmt.Sprintf("(%s %s %s)", l, s, r)
		}
	case kBytes:
		if op == token.ADD {
			return fmt.Sprintf("(%s ++ %s)", l, r)
		}
	}
	die("%s: operator %s on %s outside the subset", f.at(at), op, t.lean())
	return ""
}

func (f *gfFn) composite(b *gfBuf, cl *ast.CompositeLit) string {
	t := f.typeOf(cl)
	if t.k != kStruct {
		die("%s: composite literal of a non-struct outside the subset", f.at(cl))
	}
	st := t.st.Underlying().(*types.Struct)
	given := map[string]string{}
	for _, el := range cl.Elts {
		kv, ok := el.(*ast.KeyValueExpr)
		if !ok {
			die("%s: unkeyed struct literal outside the subset", f.at(cl))
		}
		given[kv.Key.(*ast.Ident).Name] = f.expr(b, kv.Value)
	}
	var fs []string
	for i := 0; i < st.NumFields(); i++ {
		n := st.Field(i).Name()
		v, ok := given[n]
		if !ok {
			v = gfTypeOf(st.Field(i).Type(), "field").zero()
		}
		fs = append(fs, fmt.Sprintf("%s := %s", gfLeanIdent(n), v))
	}
	return fmt.Sprintf("({ %s } : %s)", strings.Join(fs, ", "), t.name)
}

func (f *gfFn) index(b *gfBuf, x *ast.IndexExpr) string {
	// package-level table (array or map literal that is never written)
	if id, ok := x.X.(*ast.Ident); ok {
		if o := f.objOf(id); o != nil && !f.isLocal(o) {
			if v, ok := o.(*types.Var); ok && o.Parent() == f.pk.pkg.Scope() {
				return f.globalIndex(b, x, v)
			}
		}
	}
	t := f.typeOf(x.X)
	if t.k != kBytes && t.k != kSlice {
		die("%s: indexing of this type outside the subset", f.at(x))
	}
	s := f.expr(b, x.X)
	i := f.toInt(b, x.Index)
	tm := f.tmp()
	b.add("let %s ← GoSem.index %s %s", tm, s, i)
	return tm
}

func (f *gfFn) call(b *gfBuf, c *ast.CallExpr) string {
	// conversion
	if tv, ok := f.pk.info.Types[c.Fun]; ok && tv.IsType() {
		if len(c.Args) != 1 {
			die("%s: conversion arity", f.at(c))
		}
		to := gfTypeOf(tv.Type, f.at(c))
		from := f.typeOf(c.Args[0])
		a := f.expr(b, c.Args[0])
		switch {
		case from.same(to):
			return a
		case from.k == kU8 && to.k == kBV && to.bits == 16:
			return "(GoSem.u8to16 " + a + ")"
		case from.k == kU8 && to.k == kBV:
			return fmt.Sprintf("((%s).toBitVec.setWidth %d)", a, to.bits)
		case from.k == kU8 && to.k == kInt:
			return "(GoSem.u8toI " + a + ")"
		case from.k == kBV && from.bits < 64 && to.k == kInt:
			return "(GoSem.bvToI " + a + ")"
		case from.k == kBV && to.k == kBV && from.bits < to.bits:
			return fmt.Sprintf("((%s).setWidth %d)", a, to.bits)
		}
		if s, ok := f.convS5(from, to, a); ok {
			return s
		}
		die("%s: conversion %s -> %s outside the subset", f.at(c), from.lean(), to.lean())
	}
	if f.builtin(c, "len") {
		t := f.typeOf(c.Args[0])
		if t.k != kBytes && t.k != kSlice {
			die("%s: len of this type outside the subset", f.at(c))
		}
		return "(GoSem.len " + f.expr(b, c.Args[0]) + ")"
	}
	if f.builtin(c, "make") {
		// make([]T, 0) / make([]T, 0, c): the empty slice (capacity is not observable in the subset)
		t := f.typeOf(c)
		if t.k != kSlice && t.k != kBytes {
			die("%s: make of this type outside the subset", f.at(c))
		}
		if len(c.Args) < 2 {
			die("%s: make without a length", f.at(c))
		}
		lv := f.constOf(c.Args[1])
		if lv == nil || constant.Sign(lv) != 0 {
			die("%s: make with a length other than the constant 0 outside the subset", f.at(c))
		}
		if len(c.Args) == 3 && f.constOf(c.Args[2]) == nil {
			f.expr(b, c.Args[2]) // evaluated (may panic); value not observable
		}
		return "[]"
	}
	if f.pkgCall(c, "sort", "Search") {
		return f.sortSearch(b, c)
	}
	if f.pkgCall(c, "fmt", "Errorf") || f.pkgCall(c, "errors", "New") {
		// the error value is abstracted to "non-nil"; the arguments are still
		// evaluated (a panicking argument stays a panic)
		for _, a := range c.Args {
			if f.constOf(a) == nil {
				f.expr(b, a)
			}
		}
		f.notes["error"] = true
		return "true"
	}
	if cal := f.callee(c); cal != nil {
		var args []string
		for _, a := range c.Args {
			args = append(args, f.expr(b, a))
		}
		if len(cal.results) != 1 {
			die("%s: call of a translated function with %d results in expression position", f.at(c), len(cal.results))
		}
		tm := f.tmp()
		b.add("let %s ← %s %s", tm, cal.lean, strings.Join(args, " "))
		return tm
	}
	if x := gfExtFind(f, c); x != nil { // gofn_c13.go
		return x.emit(f, b, c)
	}
	if s, ok := f.callS5(b, c); ok {
		return s
	}
	die("%s: call `%s` outside the subset (not a translated function, conversion or supported builtin)", f.at(c), c15Print(f.pk.fset, c.Fun))
	return ""
}

// sort.Search(n, func(i int) bool { return E })
func (f *gfFn) sortSearch(b *gfBuf, c *ast.CallExpr) string {
	if len(c.Args) != 2 {
		die("%s: sort.Search arity", f.at(c))
	}
	fl, ok := c.Args[1].(*ast.FuncLit)
	if !ok || len(fl.Type.Params.List) != 1 || len(fl.Type.Params.List[0].Names) != 1 || len(fl.Body.List) != 1 {
		die("%s: sort.Search predicate must be a function literal with a single return statement", f.at(c))
	}
	rs, ok := fl.Body.List[0].(*ast.ReturnStmt)
	if !ok || len(rs.Results) != 1 {
		die("%s: sort.Search predicate must be a single return statement", f.at(c))
	}
	if len(gfAssigned(f, fl.Body)) != 0 {
		die("%s: sort.Search predicate assigns a variable", f.at(c))
	}
	n := f.toInt(b, c.Args[0])
	po := f.pk.info.Defs[fl.Type.Params.List[0].Names[0]]
	if f.varType(po).k != kInt {
		die("%s: sort.Search predicate parameter", f.at(c))
	}
	pn := f.nameOf(po)
	inner := &gfBuf{ind: b.ind + 1}
	cond := f.cond(inner, rs.Results[0])
	tm := f.tmp()
	b.add("let %s ← GoSem.sortSearch %s (fun %s => do", tm, n, pn)
	b.lines = append(b.lines, inner.lines...)
	b.nest(func() { b.add("pure (decide %s))", cond) })
	f.notes["sortsearch"] = true
	return tm
}

// ---------------------------------------------------------------- conditions (Prop-valued)

func (f *gfFn) cond(b *gfBuf, e ast.Expr) string {
	switch x := e.(type) {
	case *ast.ParenExpr:
		return f.cond(b, x.X)
	case *ast.UnaryExpr:
		if x.Op == token.NOT {
			return "(¬ " + f.cond(b, x.X) + ")"
		}
	case *ast.BinaryExpr:
		switch x.Op {
		case token.LAND, token.LOR:
			l := f.cond(b, x.X)
			b2 := &gfBuf{ind: b.ind + 2}
			r := f.cond(b2, x.Y)
			if len(b2.lines) == 0 {
				if x.Op == token.LAND {
					return fmt.Sprintf("(%s ∧ %s)", l, r)
				}
				return fmt.Sprintf("(%s ∨ %s)", l, r)
			}
			// short circuit: the right operand can panic and is evaluated only when needed
			tm := f.tmp()
			b.add("let %s ←", tm)
			b.nest(func() {
				if x.Op == token.LAND {
					b.add("if %s then do", l)
					b.lines = append(b.lines, b2.lines...)
					b.nest(func() { b.add("pure (decide %s)", r) })
					b.add("else pure false")
				} else {
					b.add("if %s then pure true", l)
					b.add("else do")
					b.lines = append(b.lines, b2.lines...)
					b.nest(func() { b.add("pure (decide %s)", r) })
				}
			})
			return "(" + tm + " = true)"
		case token.EQL, token.NEQ, token.LSS, token.LEQ, token.GTR, token.GEQ:
			return f.compare(b, x)
		}
	}
	if v := f.constOf(e); v != nil && v.Kind() == constant.Bool {
		if constant.BoolVal(v) {
			return "True"
		}
		return "False"
	}
	if f.typeOf(e).k != kBool {
		die("%s: condition is not boolean", f.at(e))
	}
	return "(" + f.expr(b, e) + " = true)"
}

func (f *gfFn) asciiVar(e ast.Expr) types.Object {
	if p, ok := e.(*ast.ParenExpr); ok {
		return f.asciiVar(p.X)
	}
	if id, ok := e.(*ast.Ident); ok {
		if o := f.objOf(id); o != nil {
			if f.ascii[o] { // (not: any overridden variable - the receiver and translator-typed locals are overridden too)
				return o
			}
		}
	}
	return nil
}

func (f *gfFn) compare(b *gfBuf, x *ast.BinaryExpr) string {
	ops := map[token.Token]string{token.EQL: "=", token.NEQ: "≠", token.LSS: "<", token.LEQ: "≤", token.GTR: ">", token.GEQ: "≥"}
	op := ops[x.Op]
	// the value variable of an ASCII-compared string range (a byte here, a rune in Go)
	if lo, ro := f.asciiVar(x.X), f.asciiVar(x.Y); lo != nil || ro != nil {
		v, c := x.X, x.Y
		if lo == nil {
			v, c = x.Y, x.X
		}
		cv := f.constOf(c)
		if cv == nil || x.Op != token.EQL {
			die("%s: the value of a string range may only be compared (==) with ASCII constants", f.at(x))
		}
		n, ok := constant.Int64Val(constant.ToInt(cv))
		if !ok || n < 0 || n > 127 {
			die("%s: the value of a string range is compared with a non-ASCII constant", f.at(x))
		}
		return fmt.Sprintf("(%s = (%d : UInt8))", f.expr(b, v), n)
	}
	// comparison with nil
	isNil := func(e ast.Expr) bool {
		id, ok := e.(*ast.Ident)
		if !ok {
			return false
		}
		_, n := f.objOf(id).(*types.Nil)
		return n
	}
	if isNil(x.X) || isNil(x.Y) {
		v := x.X
		if isNil(x.X) {
			v = x.Y
		}
		t := f.typeOf(v)
		if x.Op != token.EQL && x.Op != token.NEQ {
			die("%s: ordering comparison with nil", f.at(x))
		}
		c := f.expr(b, v)
		switch t.k {
		case kErr:
			if x.Op == token.EQL {
				return "(" + c + " = false)"
			}
			return "(" + c + " = true)"
		case kPtr:
			return fmt.Sprintf("(%s %s none)", c, op)
		}
		die("%s: comparison of this type with nil outside the subset (a nil slice and an empty slice are both `[]`)", f.at(x))
	}
	// normal forms, so that equivalent spellings give the same Lean: a constant operand goes to the right;
	// emptiness of a string / slice is stated on its length (len >= 0): s != "" | len(s) != 0 | len(s) >= 1 | 0 < len(s)
	// -> len s > 0 ; s == "" | len(s) < 1 | len(s) <= 0 -> len s = 0
	if f.constOf(x.X) != nil && f.constOf(x.Y) == nil {
		flip := map[token.Token]token.Token{token.EQL: token.EQL, token.NEQ: token.NEQ, token.LSS: token.GTR, token.GTR: token.LSS, token.LEQ: token.GEQ, token.GEQ: token.LEQ}
		return f.compare(b, &ast.BinaryExpr{X: x.Y, Op: flip[x.Op], Y: x.X, OpPos: x.OpPos})
	}
	if cv := f.constOf(x.Y); cv != nil {
		if f.typeOf(x.X).k == kBytes && cv.Kind() == constant.String && constant.StringVal(cv) == "" && (x.Op == token.EQL || x.Op == token.NEQ) {
			sx := f.expr(b, x.X)
			if x.Op == token.NEQ {
				return fmt.Sprintf("((GoSem.len %s) > (0 : Int))", sx)
			}
			return fmt.Sprintf("((GoSem.len %s) = (0 : Int))", sx)
		}
		if lc, ok := x.X.(*ast.CallExpr); ok && f.builtin(lc, "len") && cv.Kind() == constant.Int {
			if n, ok := constant.Int64Val(cv); ok {
				switch {
				case n == 0 && x.Op == token.NEQ, n == 1 && x.Op == token.GEQ:
					return fmt.Sprintf("(%s > (0 : Int))", f.expr(b, x.X))
				case n == 1 && x.Op == token.LSS, n == 0 && x.Op == token.LEQ:
					return fmt.Sprintf("(%s = (0 : Int))", f.expr(b, x.X))
				}
			}
		}
	}
	// == / != of two non-constants: a plain variable goes to the left (`len(key) == s` reads `s = len key`)
	if x.Op == token.EQL || x.Op == token.NEQ {
		_, lid := x.X.(*ast.Ident)
		_, rid := x.Y.(*ast.Ident)
		if !lid && rid && f.constOf(x.Y) == nil && f.constOf(x.X) == nil {
			return f.compare(b, &ast.BinaryExpr{X: x.Y, Op: x.Op, Y: x.X, OpPos: x.OpPos})
		}
	}
	lt, rt := f.typeOf(x.X), f.typeOf(x.Y)
	if !lt.same(rt) {
		die("%s: comparison of different types %s / %s", f.at(x), lt.lean(), rt.lean())
	}
	switch lt.k {
	case kInt, kBV, kU8:
	case kBytes, kBool:
		if x.Op != token.EQL && x.Op != token.NEQ {
			die("%s: ordering of strings/bools outside the subset", f.at(x))
		}
	default:
		die("%s: comparison of %s outside the subset", f.at(x), lt.lean())
	}
	return fmt.Sprintf("(%s %s %s)", f.expr(b, x.X), op, f.expr(b, x.Y))
}

// ---------------------------------------------------------------- package-level tables

// readOnlyGlobal is an ALLOW-list: every occurrence of the package-level
// variable anywhere in its package must be a pure read -
//   len(v) | range-source `for … := range v` | v[i] (possibly parenthesised)
// and a v[i] must itself stand in an rvalue position (operand of an expression,
// right-hand side of an assignment / declaration, call argument, returned or
// compared value, index of another expression, range-source). Anything else - an
// assignment target (also parenthesised), a range key/value target, ++/--,
// operand of &, a selector / method call on the element, slicing, passing or
// assigning the table itself - makes the generator die. The variable must be
// unexported (no other package can write it) and its elements of a basic type
// (copying an element cannot alias the table).
func (f *gfFn) readOnlyGlobal(v *types.Var) {
	if v.Exported() {
		die("package-level %s is exported: another package may write it; it cannot be translated as an immutable table", v.Name())
	}
	var elem types.Type
	switch ty := types.Unalias(v.Type()).Underlying().(type) {
	case *types.Array:
		elem = ty.Elem()
	case *types.Map:
		elem = ty.Elem()
	default:
		die("package-level %s: neither an array nor a map", v.Name())
	}
	if _, ok := types.Unalias(elem).Underlying().(*types.Basic); !ok {
		die("package-level %s: element type %s is not a basic type", v.Name(), elem.String())
	}
	par := f.pk.parents()
	// up: the nearest ancestor that is not a parenthesis, and the child through which it was reached
	up := func(n ast.Node) (ast.Node, ast.Node) {
		for {
			p := par[n]
			if pe, ok := p.(*ast.ParenExpr); ok {
				n = pe
				continue
			}
			return p, n
		}
	}
	bad := func(id *ast.Ident, why string) {
		die("package-level %s is used other than as a pure read at %s (%s): it is translated as an immutable table", v.Name(), f.pk.pos(id), why)
	}
	for id, o := range f.pk.info.Uses {
		if o != v {
			continue
		}
		p, child := up(id)
		switch x := p.(type) {
		case *ast.CallExpr:
			if fid, ok := x.Fun.(*ast.Ident); ok && fid.Name == "len" && len(x.Args) == 1 && x.Args[0] == child {
				if _, isB := f.pk.info.Uses[fid].(*types.Builtin); isB {
					continue
				}
			}
			bad(id, "passed to a call")
		case *ast.RangeStmt:
			if x.X == child {
				continue
			}
			bad(id, "range target")
		case *ast.IndexExpr:
			if x.X != child {
				continue // used as an INDEX of something else: a read of the whole value is impossible for array/map index types
			}
			// the element expression v[i] must be an rvalue
			var node ast.Node = x
			for {
				q, c := up(node)
				ok := false
				switch y := q.(type) {
				case *ast.AssignStmt:
					ok = true
					for _, l := range y.Lhs {
						if l == c {
							ok = false
						}
					}
				case *ast.ValueSpec:
					for _, val := range y.Values {
						if val == c {
							ok = true
						}
					}
				case *ast.BinaryExpr, *ast.ReturnStmt, *ast.KeyValueExpr, *ast.CompositeLit, *ast.IfStmt, *ast.SwitchStmt, *ast.CaseClause, *ast.SendStmt:
					ok = true
					if kv, isKV := q.(*ast.KeyValueExpr); isKV && kv.Value != c {
						ok = false
					}
					if ss, isS := q.(*ast.SendStmt); isS && ss.Value != c {
						ok = false
					}
				case *ast.UnaryExpr:
					ok = y.Op != token.AND && y.Op != token.ARROW
				case *ast.CallExpr:
					for _, a := range y.Args {
						if a == c {
							ok = true // element passed by value (basic type)
						}
					}
				case *ast.IndexExpr:
					ok = y.Index == c
				case *ast.RangeStmt:
					ok = y.X == c
				}
				if !ok {
					bad(id, fmt.Sprintf("element expression under %T", q))
				}
				break
			}
		default:
			bad(id, fmt.Sprintf("under %T", p))
		}
	}
}

func (f *gfFn) globalDecl(v *types.Var) ast.Expr {
	for _, file := range f.pk.files {
		for _, d := range file.Decls {
			gd, ok := d.(*ast.GenDecl)
			if !ok || gd.Tok != token.VAR {
				continue
			}
			for _, s := range gd.Specs {
				vs := s.(*ast.ValueSpec)
				for i, n := range vs.Names {
					if f.pk.info.Defs[n] == v {
						if i < len(vs.Values) && len(vs.Values) == len(vs.Names) {
							return vs.Values[i]
						}
						die("package-level %s has no initialiser of its own", v.Name())
					}
				}
			}
		}
	}
	die("declaration of package-level %s not found", v.Name())
	return nil
}

func (f *gfFn) globalIndex(b *gfBuf, x *ast.IndexExpr, v *types.Var) string {
	f.readOnlyGlobal(v)
	switch ty := types.Unalias(v.Type()).Underlying().(type) {
	case *types.Array:
		leanTab, ok := f.t.arrays[v.Name()]
		if !ok {
			die("%s: package-level array %s has no regenerated Lean table configured", f.at(x), v.Name())
		}
		_ = ty
		tm := f.tmp()
		b.add("let %s ← GoSem.arrIdx %s %s", tm, leanTab, f.toNat(b, x.Index))
		return tm
	case *types.Map:
		if gfTypeOf(ty.Key(), "map key").k != kBytes {
			die("%s: map key type outside the subset", f.at(x))
		}
		name := f.t.globalMap(f, v, ty)
		k := f.expr(b, x.Index)
		// v := m[k]: the zero value when the key is absent
		return fmt.Sprintf("((GoSem.mapLookup %s %s).getD %s)", name, k, gfTypeOf(ty.Elem(), "map value").zero())
	}
	die("%s: package-level %s of this type outside the subset", f.at(x), v.Name())
	return ""
}

// globalMap emits (once per target) the entries of a package-level map literal
func (t *gfTarget) globalMap(f *gfFn, v *types.Var, ty *types.Map) string {
	name := gfLeanIdent(v.Name())
	if t.emitted[name] {
		return name
	}
	cl, ok := f.globalDecl(v).(*ast.CompositeLit)
	if !ok {
		die("package-level map %s is not initialised by a literal", v.Name())
	}
	vt := gfTypeOf(ty.Elem(), "map value")
	var ents []string
	for _, el := range cl.Elts {
		kv := el.(*ast.KeyValueExpr)
		kc, vc := f.constOf(kv.Key), f.constOf(kv.Value)
		if kc == nil || vc == nil {
			die("package-level map %s: non-constant entry at %s", v.Name(), f.pk.pos(kv))
		}
		ents = append(ents, fmt.Sprintf("  (%s, %s)", gfBytesLit(constant.StringVal(kc)), gfConst(vc, vt, "map value")))
	}
	t.emitted[name] = true
	t.pre = append(t.pre, fmt.Sprintf("/-- %s `%s` (package-level map literal, never written in its package) -/\ndef %s : List (List UInt8 × %s) := [\n%s]\n",
		f.pk.pos(cl), v.Name(), name, vt.leanArg(), strings.Join(ents, ",\n")))
	return name
}
